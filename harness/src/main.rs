//! Correspondence harness: drives the real rbpf code (the /repo working tree, through the path
//! dependency) over case lines and prints one canonical outcome line per case.
//!   rbpf_harness gen <suite> <tier> <seed>   -> case lines on stdout
//!   rbpf_harness run                         -> reads case lines on stdin, prints outcome lines
mod rng;
mod codec;
mod progen;
mod verify;
mod exec;
mod text;
mod helpers;
mod api;
mod xadd;
mod x86step;
mod clifir;

use std::io::{BufRead, Write};

pub fn catch<F: FnOnce() -> String + std::panic::UnwindSafe>(f: F) -> String {
    match std::panic::catch_unwind(f) {
        Ok(s) => s,
        Err(_) => "panic".to_string(),
    }
}

fn run_line(line: &str) -> String {
    let toks: Vec<&str> = line.split_ascii_whitespace().collect();
    if toks.is_empty() { return "bad-op".into(); }
    match toks[0] {
        "dec" | "enc" | "idx" | "vec" | "bld" => codec::run(&toks),
        "verify" => verify::run(&toks),
        "disdbg" => { let p = rng::unhex(toks[1]).unwrap(); catch(move || rbpf::disassembler::to_insn_vec(&p).iter().enumerate().map(|(i, x)| format!("{}: {}", i, x.desc)).collect::<Vec<_>>().join("\n")) }
        "asm" | "dis" | "rt" => text::run(&toks),
        "helper" if toks.len() >= 2 => helpers::run(&toks),
        "api" => api::run(&toks),
        "xadd" => xadd::run(&toks),
        "exec" => exec::run(&toks),
        "x86" => x86step::run(&toks),
        // debug: canonical Cranelift IR of a program (Mbuff VM; helper ids as a comma list or '-'), lines joined by " ;; "
        "clifdump" if toks.len() >= 3 => { let p = rng::unhex(toks[1]).unwrap(); let ids: Vec<u32> = if toks[2] == "-" { vec![] } else { toks[2].split(',').map(|x| x.parse().unwrap()).collect() };
            let raw = toks.len() > 3 && toks[3] == "raw"; let res = toks.len() > 3 && toks[3] == "res";
            catch(move || { let mut vm = rbpf::EbpfVmMbuff::new(None).unwrap(); vm.set_verifier(|_| Ok(())).unwrap(); vm.set_program(&p).unwrap();
                for k in ids { vm.register_helper(k, rbpf::helpers::gather_bytes).unwrap(); }
                match vm.cranelift_compile() { Ok(()) => { let ir = vm.verif_clif_ir().unwrap(); if raw { ir.to_string() } else if res { clifir::canon_resolved(ir).join(" ;; ") } else { clifir::canon(ir).join(" ;; ") } } Err(_) => "compile-err".into() } }) }
        _ => "bad-op".into(),
    }
}

fn main() {
    let args: Vec<String> = std::env::args().collect();
    // keep panics quiet: every case runs under catch_unwind and reports "panic"
    if std::env::var("SHOW_PANIC").is_err() { std::panic::set_hook(Box::new(|_| {})); }
    match args.get(1).map(|s| s.as_str()) {
        Some("gen") => {
            let suite = &args[2];
            let tier = args.get(3).map(|s| s.as_str()).unwrap_or("quick");
            let seed: u64 = args.get(4).and_then(|s| s.parse().ok()).unwrap_or(0);
            let out = std::io::stdout();
            let mut w = std::io::BufWriter::new(out.lock());
            let thorough = tier == "thorough";
            match suite.as_str() {
                "codec" => codec::gen(&mut w, thorough, seed),
                "verify" => verify::gen(&mut w, thorough, seed),
                "exec-matrix" => exec::gen_matrix(&mut w, thorough, seed),
                "exec-memops" => exec::gen_memops(&mut w, thorough, seed),
                "exec-random" => exec::gen_random(&mut w, thorough, seed),
                "exec-calls" => exec::gen_calls(&mut w, thorough, seed),
                "exec-memprobe" => exec::gen_memprobe(&mut w, thorough, seed),
                "asm" => text::gen_asm(&mut w, thorough, seed),
                "asmfuzz" => text::gen_asmfuzz(&mut w, thorough, seed),
                "dis" => text::gen_dis(&mut w, thorough, seed),
                "rt" => text::gen_rt(&mut w, thorough, seed),
                "helper" => helpers::gen(&mut w, thorough, seed),
                "exec-accepted" => exec::gen_accepted(&mut w, thorough, seed),
                "exec-engines" => exec::gen_engines(&mut w, thorough, seed),
                "exec-accepted-engines" => exec::gen_accepted_engines(&mut w, thorough, seed),
                "api" => api::gen(&mut w, thorough, seed),
                "exec-clifprobe" => exec::gen_clifprobe(&mut w, thorough, seed),
                "xadd" => xadd::gen(&mut w, thorough, seed),
                "exec-anyprog-engines" => exec::gen_anyprog_engines(&mut w, thorough, seed),
                "exec-pageboundary" => exec::gen_pageboundary(&mut w, thorough, seed),
                "exec-long" => exec::gen_long(&mut w, thorough, seed),
                "x86step" => x86step::gen(&mut w, thorough, seed),
                "clifir" => clifir::gen(&mut w, thorough, seed),
                _ => { eprintln!("unknown suite {suite}"); std::process::exit(2); }
            }
            w.flush().unwrap();
        }
        Some("run") => {
            let stdin = std::io::stdin();
            let out = std::io::stdout();
            let mut w = std::io::BufWriter::new(out.lock());
            for line in stdin.lock().lines() {
                let line = line.unwrap();
                let r = run_line(&line);
                writeln!(w, "{}", r).unwrap();
                w.flush().unwrap();   // a case that kills the process must not lose the transcript of the cases before it
            }
            w.flush().unwrap();
        }
        _ => { eprintln!("usage: rbpf_harness gen <suite> <tier> <seed> | run"); std::process::exit(2); }
    }
}
