//! suite `api` (C10): histories of VM API calls on the four VM kinds.
#[cfg(not(harness_nostd))]
use crate::exec::HELPERS;
#[cfg(harness_nostd)]
use crate::HELPERS;
use crate::progen::*;
use crate::rng::*;
use std::io::Write;

use rbpf::lib::{Error as RErr, ErrorKind as RKind};
fn v_accept(_p: &[u8]) -> Result<(), RErr> { Ok(()) }
fn v_reject(_p: &[u8]) -> Result<(), RErr> { Err(RErr::new(RKind::Other, "rejected")) }
fn v_custom(p: &[u8]) -> Result<(), RErr> { if p.len() >= 8 && p[0] == 0xb7 { Ok(()) } else { Err(RErr::new(RKind::Other, "custom")) } }
fn calc(_prog: &[u8], _pc: usize, _d: &mut dyn std::any::Any) -> u16 { 64 }

enum Vm<'a> { Mbuff(rbpf::EbpfVmMbuff<'a>), Raw(rbpf::EbpfVmRaw<'a>), NoData(rbpf::EbpfVmNoData<'a>), Fixed(rbpf::EbpfVmFixedMbuff<'a>) }
macro_rules! each { ($vm:expr, $v:ident => $e:expr) => { match $vm { Vm::Mbuff($v) => $e, Vm::Raw($v) => $e, Vm::NoData($v) => $e, Vm::Fixed($v) => $e } } }

pub fn run(t: &[&str]) -> String {
    let mut kv = std::collections::HashMap::new();
    for tok in &t[1..] { if let Some((k, v)) = tok.split_once('=') { kv.insert(k, v); } }
    let Some(pool) = kv.get("pool").and_then(|s| s.split(',').map(unhex).collect::<Option<Vec<Vec<u8>>>>()) else { return "bad-op".into() };
    let kind = kv.get("kind").copied().unwrap_or("mbuff").to_string();
    let ops: Vec<String> = kv.get("ops").map(|s| s.split(';').map(|x| x.to_string()).collect()).unwrap_or_default();
    let init: Option<usize> = kv.get("init").and_then(|s| s.parse().ok());
    let poolref: &Vec<Vec<u8>> = &pool;
    let r = std::panic::catch_unwind(std::panic::AssertUnwindSafe(move || -> String {
        let ip: Option<&[u8]> = init.and_then(|i| poolref.get(i)).map(|v| v.as_slice());
        let mut vm = match kind.as_str() {
            "raw" => match rbpf::EbpfVmRaw::new(ip) { Ok(v) => Vm::Raw(v), Err(_) => return "new-err".into() },
            "nodata" => match rbpf::EbpfVmNoData::new(ip) { Ok(v) => Vm::NoData(v), Err(_) => return "new-err".into() },
            "fixed" => match rbpf::EbpfVmFixedMbuff::new(ip, 0, 8) { Ok(v) => Vm::Fixed(v), Err(_) => return "new-err".into() },
            _ => match rbpf::EbpfVmMbuff::new(ip) { Ok(v) => Vm::Mbuff(v), Err(_) => return "new-err".into() },
        };
        // no_std build: the x86-64 JIT writes into caller-supplied executable memory
        #[cfg(harness_nostd)]
        { each!(&mut vm, v => { let _ = v.set_jit_exec_memory(crate::exec_mem_shared()); }) }
        // no_std: a compilation consumes the executable memory the caller supplied, so the caller supplies it again before the next one — but only
        // then: a `jit_compile` refused because no program is loaded has not compiled anything and must leave the memory in place
        #[cfg(harness_nostd)]
        let mut loaded = ip.is_some();
        #[cfg(harness_nostd)]
        let mut mem_consumed = false;
        let mut outs: Vec<String> = vec![];
        let res = |r: Result<(), RErr>| if r.is_ok() { "ok".to_string() } else { "err".to_string() };
        let val = |r: Result<u64, RErr>| match r { Ok(v) => format!("v{:016x}", v), Err(_) => "err".to_string() };
        for op in &ops {
            let f: Vec<&str> = op.split(':').collect();
            let o = match f[0] {
                "sp" => { let Some(p) = f.get(1).and_then(|i| i.parse::<usize>().ok()).and_then(|i| poolref.get(i)) else { return "bad-op".into() };
                    let (d, e) = if f.len() == 4 { (f[2].parse().unwrap_or(0), f[3].parse().unwrap_or(8)) } else { (0, 8) };
                    let r_ = match &mut vm { Vm::Mbuff(v) => res(v.set_program(p)), Vm::Raw(v) => res(v.set_program(p)), Vm::NoData(v) => res(v.set_program(p)), Vm::Fixed(v) => res(v.set_program(p, d, e)) };
                    #[cfg(harness_nostd)]
                    { if r_ == "ok" { loaded = true; } }
                    r_ }
                "sv" => { let vf: rbpf::Verifier = match f.get(1).copied() { Some("1") => v_accept, Some("2") => v_reject, _ => v_custom }; each!(&mut vm, v => res(v.set_verifier(vf))) }
                "rh" => { let (Some(id), Some(fi)) = (f.get(1).and_then(|s| u32::from_str_radix(s, 16).ok()), f.get(2).and_then(|s| s.parse::<usize>().ok())) else { return "bad-op".into() };
                    each!(&mut vm, v => res(v.register_helper(id, HELPERS[fi % 4]))) }
                "sc" => each!(&mut vm, v => res(v.set_stack_usage_calculator(calc, Box::new(())))),
                #[cfg(not(harness_nostd))]
                "jc" => each!(&mut vm, v => res(v.jit_compile())),
                // no_std: jit_compile consumes the executable memory the caller supplied; supply it again for each compilation
                #[cfg(harness_nostd)]
                "jc" => { if mem_consumed { each!(&mut vm, v => { let _ = v.set_jit_exec_memory(crate::exec_mem_shared()); }); }
                    mem_consumed = loaded;
                    each!(&mut vm, v => res(v.jit_compile())) }
                #[cfg(not(harness_nostd))]
                "cc" => each!(&mut vm, v => res(v.cranelift_compile())),
                "x" => { let n: usize = f.get(1).and_then(|s| s.parse().ok()).unwrap_or(0); let mut m: Vec<u8> = vec![0x5a; n]; let mut b: [u8; 0] = [];
                    let mr: &mut [u8] = unsafe { std::slice::from_raw_parts_mut(m.as_mut_ptr(), n) }; let br: &mut [u8] = unsafe { std::slice::from_raw_parts_mut(b.as_mut_ptr(), 0) };
                    match &mut vm { Vm::Mbuff(v) => val(v.execute_program(mr, br)), Vm::Raw(v) => val(v.execute_program(mr)), Vm::NoData(v) => val(v.execute_program()), Vm::Fixed(v) => val(v.execute_program(mr)) } }
                #[cfg(harness_nostd)]
                "xj" => { let n: usize = f.get(1).and_then(|s| s.parse().ok()).unwrap_or(0); let mut m: Vec<u8> = vec![0x5a; n]; let mut b: [u8; 0] = [];
                    let mr: &mut [u8] = unsafe { std::slice::from_raw_parts_mut(m.as_mut_ptr(), n) }; let br: &mut [u8] = unsafe { std::slice::from_raw_parts_mut(b.as_mut_ptr(), 0) };
                    unsafe { match &mut vm { Vm::Mbuff(v) => val(v.execute_program_jit(mr, br)), Vm::Raw(v) => val(v.execute_program_jit(mr)), Vm::NoData(v) => val(v.execute_program_jit()), Vm::Fixed(v) => val(v.execute_program_jit(mr)) } } }
                #[cfg(not(harness_nostd))]
                "xj" | "xc" => { let n: usize = f.get(1).and_then(|s| s.parse().ok()).unwrap_or(0); let mut m: Vec<u8> = vec![0x5a; n]; let mut b: [u8; 0] = [];
                    let mr: &mut [u8] = unsafe { std::slice::from_raw_parts_mut(m.as_mut_ptr(), n) }; let br: &mut [u8] = unsafe { std::slice::from_raw_parts_mut(b.as_mut_ptr(), 0) };
                    let j = f[0] == "xj";
                    unsafe { match &mut vm {
                        Vm::Mbuff(v) => val(if j { v.execute_program_jit(mr, br) } else { v.execute_program_cranelift(mr, br) }),
                        Vm::Raw(v) => val(if j { v.execute_program_jit(mr) } else { v.execute_program_cranelift(mr) }),
                        Vm::NoData(v) => val(if j { v.execute_program_jit() } else { v.execute_program_cranelift() }),
                        Vm::Fixed(v) => val(if j { v.execute_program_jit(mr) } else { v.execute_program_cranelift(mr) }) } } }
                _ => return "bad-op".into(),
            };
            outs.push(o);
        }
        outs.join(",")
    }));
    r.unwrap_or_else(|_| "panic".to_string())
}

/// the program pool: results are distinguishable; all registers the helper sees are set; no memory access
fn pool() -> Vec<Vec<u8>> {
    let mut v: Vec<Vec<u8>> = vec![];
    for k in 0..3 { let mut p = vec![]; p.extend(ins(0xb7, 0, 0, 0, 0x100 + k)); p.extend(EXIT); v.push(p); }                       // 0,1,2: valid, constant results
    for id in [1i32, 2] { let mut p = vec![]; for a in 1..6u8 { p.extend(ins(0xb7, a, 0, 0, a as i32 * 3 + id)); } p.extend(ins(0x85, 0, 0, 0, id)); p.extend(EXIT); v.push(p); } // 3,4: call helper 1 / 2
    { let mut p = vec![]; p.extend(ins(0xb7, 0, 0, 0, 0x200)); p.extend(ins(0xb7, 10, 0, 0, 3)); p.extend(EXIT); v.push(p); }       // 5: valid only for accept-all / custom (writes r10)
    { let mut p = vec![]; p.extend(ins(0xb7, 0, 0, 0, 0x300)); v.push(p); }                                                           // 6: invalid for default (no exit); never executed unless accepted by custom (then it would run off: excluded below)
    { let mut p = vec![]; p.extend(ins(0xbf, 0, 11, 0, 0)); p.extend(EXIT); v.push(p); }                                              // 7: invalid for default and custom (src r11)
    { let mut p = vec![]; p.extend(ins(0x07, 0, 0, 0, 5)); p.extend(ins(0xb7, 0, 0, 0, 0x400)); p.extend(EXIT); v.push(p); }       // 8: valid for default, rejected by custom (first opcode not mov)
    { let mut p = vec![]; p.extend(ins(0x79, 2, 1, 0, 0)); p.extend(ins(0x79, 3, 1, 8, 0)); p.extend(ins(0xbf, 0, 3, 0, 0)); p.extend(ins(0x1f, 0, 2, 0, 0)); p.extend(ins(0x07, 0, 0, 0, 0x500)); p.extend(EXIT); v.push(p); } // 9: fixed-metadata VM only: end slot - start slot (+0x500), slots at offsets 0 and 8
    { let mut p = vec![]; p.extend(ins(0x79, 0, 1, 16, 0)); p.extend(EXIT); v.push(p); } // 10: fixed-metadata VM only: the 8 bytes at offset 16 of the metadata buffer (0 in a fresh buffer unless an offset is 16)
    // 11: nested local calls; result = r10 of f minus r10 of g = the frame size recorded for f's entry (calculator value, 256 without one;
    //     0 under the x86-64 JIT, which keeps the frame pointer): a stale or missing stack-usage table shows
    { let mut p = vec![]; p.extend(ins(0x85, 0, 1, 0, 1)); p.extend(EXIT);                       // main: call f (slot 2); exit
      p.extend(ins(0xbf, 6, 10, 0, 0)); p.extend(ins(0x85, 0, 1, 0, 1)); p.extend(EXIT);          // f: r6 = r10; call g (slot 5); exit
      p.extend(ins(0xbf, 0, 6, 0, 0)); p.extend(ins(0x1f, 0, 10, 0, 0)); p.extend(EXIT); v.push(p); } // g: r0 = r6 - r10; exit
    // 12: reads a stack slot before writing it, then leaves a marker there: 0x700 on the zeroed stack every interpreter execution starts from, whatever ran before
    //     on the same VM (interpreter only: compiled code runs on the native stack, whose contents are outside every claim)
    { let mut p = vec![]; p.extend(ins(0x79, 0, 10, -8, 0)); p.extend(ins(0x07, 0, 0, 0, 0x700)); p.extend(ins(0x7a, 10, 0, -8, 0x1234)); p.extend(EXIT); v.push(p); }
    v
}

pub fn gen(w: &mut impl Write, thorough: bool, seed: u64) {
    let mut r = Rng::new(seed ^ 0xa91);
    let pool = pool();
    let pool_s = pool.iter().map(|p| hex(p)).collect::<Vec<_>>().join(",");
    // programs that are safe to execute when loaded: 0..5 and 8; 6 (no exit) and 7 (bad register) are only ever offered to verifiers that reject them
    let n = if thorough { 400_000 } else { 20_000 };
    for i in 0..n {
        let kind = ["mbuff", "raw", "nodata", "fixed"][(i % 4) as usize];
        let init = match r.below(4) { 0 => "-".to_string(), _ => format!("{}", if kind == "fixed" && r.chance(1, 3) { 9 } else { *r.pick(&[0usize, 1, 2, 3, 4, 8, 11]) }) };
        let len = 1 + r.below(if i % 10 == 0 { 40 } else { 14 });
        // mini-model of (verifier in force, loaded program) so that an unsafe program (6: no exit, 7: register r11) is only ever
        // offered to a verifier that rejects it
        let accepts = |v: u32, p: usize| -> bool { match v { 0 => [0usize, 1, 2, 3, 4, 8, 9, 10, 11, 12].contains(&p), 1 => true, 2 => false, _ => p <= 6 } };
        let safe = |p: usize| p != 6 && p != 7;
        let mut verifier = 0u32;
        let mut loaded: Option<usize> = init.parse::<usize>().ok();
        let mut ops: Vec<String> = vec![];
        for _ in 0..len {
            let op = match r.below(16) {
                0..=2 => { let mut cand: Vec<usize> = (0..(if kind == "fixed" { 10 } else { 9 })).filter(|p| safe(*p) || !accepts(verifier, *p)).collect(); cand.push(11); cand.push(11); cand.push(12); cand.push(12);
                    let p = if kind == "fixed" && r.chance(1, 3) { if r.chance(1, 2) { 9 } else { 10 } } else { *r.pick(&cand) }; if accepts(verifier, p) { loaded = Some(p); }
                    // program 9 reads the slots at offsets 0 and 8: it is only ever loaded with those offsets;
                    // program 10 reads offset 16: only loaded with offsets that do not use it and a buffer of at least 24 bytes (result 0 in a fresh buffer)
                    if p == 10 { let (d, e) = *r.pick(&[(0u64, 24u64), (8, 32), (0, 40), (24, 32), (32, 0)]); format!("sp:{}:{}:{}", p, d, e) }
                    else if kind == "fixed" && p != 9 && r.chance(1, 2) { format!("sp:{}:{}:{}", p, 8 * r.below(4), 32 + 8 * r.below(4)) } else { format!("sp:{}", p) } }
                3 => { let v = 1 + r.below(3) as u32;
                    if loaded.map(|p| accepts(v, p)).unwrap_or(true) { verifier = v; }
                    format!("sv:{}", v) }
                4 | 5 => format!("rh:{:x}:{}", *r.pick(&[1u32, 2, 0xffff_ffff]), r.below(3)),
                6 => "sc".to_string(),
                7 | 8 => "jc".to_string(),
                9 => "cc".to_string(),
                // successive executions with different packets: empty (mostly), or 1..24 bytes — the fixed-metadata VM rewrites its data / data_end
                // slots on every execution, an empty packet included (program 9 returns data_end - data)
                10..=12 => if r.chance(1, 3) { format!("x:{}", 1 + r.below(24)) } else { "x".to_string() },
                // program 12 reads an unwritten stack slot: only ever run by the interpreter
                13 | 14 => if loaded == Some(12) { "x".to_string() } else if r.chance(1, 3) { format!("xj:{}", 1 + r.below(24)) } else { "xj".to_string() },
                _ => if loaded == Some(12) { "x".to_string() } else if r.chance(1, 3) { format!("xc:{}", 1 + r.below(24)) } else { "xc".to_string() },
            };
            ops.push(op);
        }
        writeln!(w, "api kind={} init={} pool={} ops={}", kind, init, pool_s, ops.join(";")).unwrap();
    }
}
