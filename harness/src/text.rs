//! suites `asm` (C13, C14), `dis` (C15), `rt` (C16): assembler, disassembler and their composition.
use crate::progen::*;
use crate::rng::*;
use std::io::Write;

pub fn run(t: &[&str]) -> String {
    if t.len() < 2 { return "bad-op".into(); }
    let Some(b) = unhex(t[1]) else { return "bad-op".into() };
    match t[0] {
        "asm" => {
            let Ok(s) = String::from_utf8(b) else { return "bad-op".into() };
            crate::catch(move || match rbpf::assembler::assemble(&s) { Ok(p) => format!("ok {}", hex(&p)), Err(_) => "err".into() })
        }
        "dis" => crate::catch(move || {
            let v = rbpf::disassembler::to_insn_vec(&b);
            // echo: the texts of all entries, one per line (the model reads them back with its proved assembler: C15's "its text
            // renders those operands in the assembler's syntax")
            let texts = v.iter().map(|e| e.desc.clone()).collect::<Vec<_>>().join("\n");
            format!("ok {} @ texts={}", v.iter().map(|e| format!("{:02x}~{}~{}~{:02x}~{:02x}~{:04x}~{:016x}", e.opc, e.name, e.desc, e.dst, e.src, e.off as u16, e.imm as u64)).collect::<Vec<_>>().join(";"),
                    if texts.is_empty() { "-".to_string() } else { hex(texts.as_bytes()) })
        }),
        "rt" => {
            let d = std::panic::catch_unwind(|| rbpf::disassembler::to_insn_vec(&b));
            let Ok(v) = d else { return "dis-panic".into() };
            let text = v.iter().map(|e| e.desc.clone()).collect::<Vec<_>>().join("\n");
            match std::panic::catch_unwind(move || rbpf::assembler::assemble(&text)) {
                Ok(Ok(p)) => format!("ok {}", hex(&p)), Ok(Err(_)) => "asm-err".into(), Err(_) => "asm-panic".into() }
        }
        _ => "bad-op".into(),
    }
}

fn emit(w: &mut impl Write, s: &str) { writeln!(w, "asm {}", hex(s.as_bytes())).unwrap(); }

/// mnemonic table as documented: (name, shape)
#[derive(Clone, Copy, PartialEq)]
pub enum Shape { AluBin, AluUn, LoadImm, LoadAbs, LoadInd, LoadReg, StoreImm, StoreReg, Ja, Jcc, Call, Endian, NoOp }

pub fn mnemonics() -> Vec<(String, Shape)> {
    let mut v: Vec<(String, Shape)> = vec![];
    for n in ["add", "sub", "mul", "div", "or", "and", "lsh", "rsh", "mod", "xor", "mov", "arsh"] { for s in ["", "32", "64"] { v.push((format!("{n}{s}"), Shape::AluBin)); } }
    for n in ["neg", "neg32", "neg64"] { v.push((n.into(), Shape::AluUn)); }
    v.push(("lddw".into(), Shape::LoadImm));
    for s in ["w", "h", "b", "dw"] {
        v.push((format!("ldabs{s}"), Shape::LoadAbs)); v.push((format!("ldind{s}"), Shape::LoadInd)); v.push((format!("ldx{s}"), Shape::LoadReg));
        v.push((format!("st{s}"), Shape::StoreImm)); v.push((format!("stx{s}"), Shape::StoreReg));
    }
    v.push(("ja".into(), Shape::Ja));
    for n in ["jeq", "jgt", "jge", "jlt", "jle", "jset", "jne", "jsgt", "jsge", "jslt", "jsle"] { for s in ["", "32"] { v.push((format!("{n}{s}"), Shape::Jcc)); } }
    v.push(("call".into(), Shape::Call)); v.push(("callx".into(), Shape::Call));
    for n in ["be", "le"] { for s in ["16", "32", "64"] { v.push((format!("{n}{s}"), Shape::Endian)); } }
    v.push(("exit".into(), Shape::NoOp));
    v
}

fn spell(r: &mut Rng, v: i64) -> String {
    // a spelling of the integer v: decimal or hex, optional '+', leading zeros
    let neg = v < 0; let mag = (v as i128).unsigned_abs();
    let body = match r.below(4) { 0 => format!("{}", mag), 1 => format!("0x{:x}", mag), 2 => format!("0x{:X}", mag), _ => format!("{}{}", "0".repeat(r.below(3) as usize), mag) };
    let body = if r.chance(1, 5) && body.starts_with("0x") { format!("0x{}{}", "0".repeat(1 + r.below(3) as usize), &body[2..]) } else { body };
    if neg { format!("-{}", body) } else if r.chance(1, 6) { format!("+{}", body) } else { body }
}
fn ws(r: &mut Rng) -> String { match r.below(6) { 0 => "".into(), 1 => "  ".into(), 2 => "\t".into(), 3 => " \n ".into(), _ => " ".into() } }
fn sep(r: &mut Rng) -> String { match r.below(4) { 0 => ",".into(), 1 => ",  ".into(), 2 => ",\t".into(), _ => ", ".into() } }
fn memop(r: &mut Rng, reg: i64, off: i64) -> String {
    if off == 0 && r.chance(1, 3) { format!("[r{}]", reg) }
    else if off >= 0 { let s = spell(r, off); if s.starts_with('+') { format!("[r{}{}]", reg, s) } else { format!("[r{}+{}]", reg, s) } }
    else { format!("[r{}{}]", reg, spell(r, off)) }
}

pub fn render(r: &mut Rng, name: &str, sh: Shape, dst: i64, src: i64, off: i64, imm: i64, regform: bool) -> String {
    let s1 = if r.chance(1, 8) { "  " } else { " " };
    match sh {
        Shape::AluBin => if regform { format!("{name}{s1}r{dst}{}r{src}", sep(r)) } else { format!("{name}{s1}r{dst}{}{}", sep(r), spell(r, imm)) },
        Shape::AluUn | Shape::Endian => format!("{name}{s1}r{dst}"),
        Shape::LoadImm => format!("{name}{s1}r{dst}{}{}", sep(r), spell(r, imm)),
        Shape::LoadAbs => format!("{name}{s1}{}", spell(r, imm)),
        Shape::LoadInd => format!("{name}{s1}r{src}{}{}", sep(r), spell(r, imm)),
        Shape::LoadReg => format!("{name}{s1}r{dst}{}{}", sep(r), memop(r, src, off)),
        Shape::StoreImm => format!("{name}{s1}{}{}{}", memop(r, dst, off), sep(r), spell(r, imm)),
        Shape::StoreReg => format!("{name}{s1}{}{}r{src}", memop(r, dst, off), sep(r)),
        Shape::Ja => format!("{name}{s1}{}", spell(r, off)),
        Shape::Jcc => if regform { format!("{name}{s1}r{dst}{}r{src}{}{}", sep(r), sep(r), spell(r, off)) } else { format!("{name}{s1}r{dst}{}{}{}{}", sep(r), spell(r, imm), sep(r), spell(r, off)) },
        Shape::Call => format!("{name}{s1}{}", spell(r, imm)),
        Shape::NoOp => name.to_string(),
    }
}

/// opcode (immediate form) of a documented mnemonic, from the eBPF opcode layout
pub fn opcode_of(name: &str) -> u8 {
    let alu = |n: &str| -> Option<u8> { Some(match n { "add" => 0x00, "sub" => 0x10, "mul" => 0x20, "div" => 0x30, "or" => 0x40, "and" => 0x50, "lsh" => 0x60, "rsh" => 0x70, "mod" => 0x90, "xor" => 0xa0, "mov" => 0xb0, "arsh" => 0xc0, _ => return None }) };
    let jc = |n: &str| -> Option<u8> { Some(match n { "jeq" => 0x10, "jgt" => 0x20, "jge" => 0x30, "jset" => 0x40, "jne" => 0x50, "jsgt" => 0x60, "jsge" => 0x70, "jlt" => 0xa0, "jle" => 0xb0, "jslt" => 0xc0, "jsle" => 0xd0, _ => return None }) };
    let sz = |n: &str| -> u8 { match n { "w" => 0x00, "h" => 0x08, "b" => 0x10, _ => 0x18 } };
    match name { "exit" => return 0x95, "ja" => return 0x05, "call" | "callx" => return 0x85, "lddw" => return 0x18, "neg" | "neg64" => return 0x87, "neg32" => return 0x84, _ => {} }
    if let Some(r) = name.strip_prefix("be") { if r.chars().all(|c| c.is_ascii_digit()) { return 0xdc; } }
    if let Some(r) = name.strip_prefix("le") { if r.chars().all(|c| c.is_ascii_digit()) { return 0xd4; } }
    for (p, base) in [("ldabs", 0x20u8), ("ldind", 0x40), ("ldx", 0x61), ("stx", 0x63), ("st", 0x62)] { if let Some(r) = name.strip_prefix(p) { if ["w", "h", "b", "dw"].contains(&r) { return base | sz(r); } } }
    let (stem, cls32) = if let Some(s) = name.strip_suffix("32") { (s, true) } else if let Some(s) = name.strip_suffix("64") { (s, false) } else { (name, false) };
    if let Some(o) = alu(stem) { return o | if cls32 { 4 } else { 7 }; }
    if let Some(o) = jc(stem) { return o | if cls32 { 6 } else { 5 }; }
    0xff
}

/// the bytes the documented syntax denotes, or None when an operand is out of range
pub fn expected(name: &str, sh: Shape, dst: i64, src: i64, off: i64, imm: i64, regform: bool) -> Option<Vec<u8>> {
    let opc = opcode_of(name);
    let reg = |r: i64| (0..16).contains(&r);
    let offok = (-32768..32768).contains(&off); let immok = (-2147483648i64..2147483648).contains(&imm);
    let one = |opc: u8, d: i64, s: i64, o: i64, i: i64| Some(ins(opc, d as u8, s as u8, o as i16, i as i32).to_vec());
    match sh {
        Shape::AluBin => if regform { if reg(dst) && reg(src) { one(opc | 8, dst, src, 0, 0) } else { None } } else if reg(dst) && immok { one(opc, dst, 0, 0, imm) } else { None },
        Shape::AluUn => if reg(dst) { one(opc, dst, 0, 0, 0) } else { None },
        Shape::Endian => if reg(dst) { one(opc, dst, 0, 0, name[2..].parse().unwrap()) } else { None },
        Shape::LoadImm => if reg(dst) { let mut v = ins(opc, dst as u8, 0, 0, imm as i32).to_vec(); v.extend(ins(0, 0, 0, 0, (imm >> 32) as i32)); Some(v) } else { None },
        Shape::LoadAbs => if immok { one(opc, 0, 0, 0, imm) } else { None },
        Shape::LoadInd => if reg(src) && immok { one(opc, 0, src, 0, imm) } else { None },
        Shape::LoadReg => if reg(dst) && reg(src) && offok { one(opc, dst, src, off, 0) } else { None },
        Shape::StoreImm => if reg(dst) && offok && immok { one(opc, dst, 0, off, imm) } else { None },
        Shape::StoreReg => if reg(dst) && reg(src) && offok { one(opc, dst, src, off, 0) } else { None },
        Shape::Ja => if offok { one(opc, 0, 0, off, 0) } else { None },
        Shape::Jcc => if regform { if reg(dst) && reg(src) && offok { one(opc | 8, dst, src, off, 0) } else { None } } else if reg(dst) && immok && offok { one(opc, dst, 0, off, imm) } else { None },
        Shape::Call => if immok { one(opc, 0, if name == "callx" { 1 } else { 0 }, 0, imm) } else { None },
        Shape::NoOp => one(opc, 0, 0, 0, 0),
    }
}

fn emit_want(w: &mut impl Write, s: &str, want: &Option<Vec<u8>>) {
    writeln!(w, "asm {} want={}", hex(s.as_bytes()), match want { Some(b) => format!("ok:{}", hex(b)), None => "err".to_string() }).unwrap();
}

pub fn gen_asm(w: &mut impl Write, thorough: bool, seed: u64) {
    let mut r = Rng::new(seed ^ 0xa53);
    let ms = mnemonics();
    let offs: Vec<i64> = vec![0, 1, -1, 8, 127, 128, -128, 32766, 32767, 32768, -32767, -32768, -32769, 65535, 65536, -65536, 0x7fff_ffff];
    let imms: Vec<i64> = vec![0, 1, -1, 16, 255, 0x7fff_fffe, 0x7fff_ffff, 0x8000_0000, 0x8000_0001, -0x7fff_ffff, -0x8000_0000, -0x8000_0001, 0xffff_ffff, 0x1_0000_0000, -0x1_0000_0000, i64::MAX, i64::MIN + 1];
    let imm64: Vec<i64> = vec![0, 1, -1, 0x7fff_ffff, 0x8000_0000, 0xffff_ffff, 0x1_0000_0000, 0x1234_5678_9abc_def0, i64::MAX, i64::MIN + 1, -0x8000_0000, -0x8000_0001, 0x7fff_ffff_0000_0000, -0x1_0000_0000];
    // single instructions: every mnemonic x registers 0..17 x boundary offsets/immediates x spellings
    for (name, sh) in &ms {
        // register numbers: all of 0..17, then values whose low byte / low 16 or 32 bits look like a valid register
        let big: [i64; 14] = [31, 32, 255, 256, 257, 266, 271, 272, 512, 65536, 65546, 4294967296, 4294967306, 9223372036854775807];
        for dst in (0..18i64).chain(big.iter().copied()) { for src in [0i64, 1, 9, 10, 15, 16, 17, 256, 266, 65546, 4294967306] {
            if !thorough && dst > 2 && dst < 18 && src != 1 && src != 16 { continue; }
            if dst >= 18 && ![1, 256, 266].contains(&src) { continue; }
            for regform in [false, true] {
                let off = *r.pick(&offs[..9]); let imm = if *sh == Shape::LoadImm { *r.pick(&imm64) } else { *r.pick(&imms[..7]) };
                let t = render(&mut r, name, *sh, dst, src, off, imm, regform);
                emit_want(w, &t, &expected(name, *sh, dst, src, off, imm, regform));
            }
        } }
        for &off in &offs { for &imm in if *sh == Shape::LoadImm { &imm64 } else { &imms } { for regform in [false, true] {
            for _ in 0..(if thorough { 3 } else { 1 }) { let t = render(&mut r, name, *sh, 3, 4, off, imm, regform); emit_want(w, &t, &expected(name, *sh, 3, 4, off, imm, regform)); }
        } } }
    }
    // every ordered pair of mnemonics (source order; a mnemonic directly after a zero-operand instruction)
    for (n1, s1) in &ms { for (n2, s2) in &ms {
        let (f1, f2) = (r.chance(1, 2), r.chance(1, 2));
        let a = render(&mut r, n1, *s1, 1, 2, 4, 5, f1); let b = render(&mut r, n2, *s2, 3, 4, -4, 6, f2);
        let nl = match r.below(3) { 0 => "\n", 1 => "\n    ", _ => " " };
        let want = match (expected(n1, *s1, 1, 2, 4, 5, f1), expected(n2, *s2, 3, 4, -4, 6, f2)) { (Some(mut x), Some(y)) => { x.extend(y); Some(x) } _ => None };
        let t = format!("{}{}{}{}{}", ws(&mut r), a, nl, b, ws(&mut r));
        emit_want(w, &t, &want);
    } }
    // programs of several instructions
    for _ in 0..(if thorough { 100_000 } else { 6_000 }) {
        let n = 1 + r.below(8); let mut t = ws(&mut r); let mut want: Option<Vec<u8>> = Some(vec![]);
        for _ in 0..n { let (name, sh) = r.pick(&ms).clone();
            let imm = if sh == Shape::LoadImm { if r.chance(1, 2) { *r.pick(&imm64) } else { r.next() as i64 } } else if r.chance(1, 2) { *r.pick(&imms[..11]) } else { r.next() as i32 as i64 };
            let off = if r.chance(1, 2) { *r.pick(&offs[..12]) } else { r.next() as i16 as i64 };
            let (d, s, f) = (r.below(16) as i64, r.below(16) as i64, r.chance(1, 2));
            t += &render(&mut r, &name, sh, d, s, off, imm, f);
            want = match (want, expected(&name, sh, d, s, off, imm, f)) { (Some(mut x), Some(y)) => { x.extend(y); Some(x) } _ => None };
            t += match r.below(3) { 0 => "\n", 1 => "\n\t", _ => " \n" };
        }
        emit_want(w, &t, &want);
    }
    // unknown mnemonics derived from documented ones (suffix / prefix / case / truncation), with the operands of the original:
    // each must be refused (want=err) unless the derived name is itself documented
    {
        let known: std::collections::HashSet<String> = ms.iter().map(|(n, _)| n.to_string()).collect();
        for (name, sh) in &ms {
            let mut vars: Vec<String> = vec![];
            for suf in ["64", "32", "16", "8", "x", "w", "dw", "b", "h", "_", "0", "6464", "3264", "6432"] { vars.push(format!("{name}{suf}")); }
            for pre in ["x", "j", "ld", "st", "_"] { vars.push(format!("{pre}{name}")); }
            vars.push(name.to_uppercase());
            { let mut c = name.chars(); if let Some(f) = c.next() { vars.push(format!("{}{}", f.to_uppercase(), c.as_str())); } }
            if name.len() > 1 { vars.push(name[..name.len() - 1].to_string()); vars.push(name[1..].to_string()); }
            for suf in ["64", "32"] { if let Some(st) = name.strip_suffix(suf) { vars.push(format!("{st}{}", if suf == "64" { "32" } else { "64" })); vars.push(format!("{st} {suf}")); } }
            for v in vars {
                if known.contains(&v) || v.is_empty() { continue; }
                for regform in [false, true] {
                    let t = render(&mut r, &v, *sh, 1, 2, 4, 5, regform);
                    emit_want(w, &t, &None);
                }
            }
        }
    }
    // wrong shapes / unknown mnemonics
    for (name, _) in &ms { for ops in ["", "r1", "r1, r2", "r1, 5", "5", "[r1+2]", "[r1+2], r3", "r1, [r2+3]", "r1, r2, 3", "r1, 2, 3", "r1, r2, r3", "1, 2", "r1, r2, 3, 4", "r1, 2, 3, 4, 5", "r1, r2, 3, 4, 5, 6", "[r1+2], 5", "r1,", ", r1", "[r1 +2]", "[ r1+2]", "[r1+2 ]", "r 1"] {
        emit(w, &format!("{name} {ops}")); } }
    for bad in ["nop", "addx r1, r2", "ADD r1, r2", "add64x r1, 1", "ldxq r1, [r2]", "jmp +1", "tail_call", "stxxaddw [r1+2], r3", "le r1", "be8 r1", "le128 r1", "é r1", "add r1, r2 ; comment", "add r1 r2", "exit exit", "exit\nexit", "ja+1", "ja -1", "call -1", "lddw r1 , 5", "mov r1, 5exit"] { emit(w, bad); }
}

/// C14: the malformed stream — numeric literals of every length/sign/radix in every operand position, huge registers,
/// extreme integers, truncated operands, arbitrary characters
pub fn gen_asmfuzz(w: &mut impl Write, thorough: bool, seed: u64) {
    let mut r = Rng::new(seed ^ 0xf22);
    let templates = ["mov r1, {}", "add r{}, 1", "ldxw r1, [r2+{}]", "ldxw r1, [r2{}]", "ldxw r1, [r{}+4]", "stw [r1+{}], 2", "stw [r1+2], {}", "ja {}", "jeq r1, {}, +2", "jeq r1, 2, {}",
        "call {}", "lddw r1, {}", "ldabsw {}", "ldindw r{}, 3", "exit {}", "{}", "r{}", "mov r1, {}exit", "[r{}]", "be{} r1"];
    for len in 1..=40usize { for radix in 0..3 { for sign in ["", "-", "+", "--", "+-"] { for digit in ["9", "1", "f", "0", "7"] {
        if radix == 0 && digit == "f" { continue; }
        let body: String = match radix { 0 => digit.repeat(len), 1 => format!("0x{}", digit.repeat(len)), _ => format!("0X{}", digit.repeat(len)) };
        let lit = format!("{sign}{body}");
        for t in &templates { if !thorough && (len % 3 == 2) && *t != "mov r1, {}" && *t != "add r{}, 1" { continue; } emit(w, &t.replace("{}", &lit)); }
    } } } }
    for lit in ["9223372036854775807", "9223372036854775808", "-9223372036854775808", "-9223372036854775809", "18446744073709551615", "18446744073709551616",
        "0x7fffffffffffffff", "0x8000000000000000", "-0x8000000000000000", "0xffffffffffffffff", "-0xffffffffffffffff", "0x10000000000000000", "-0x7fffffffffffffff", "-0x8000000000000001",
        "0x", "-0x", "0xg", "-", "+", "0x-1", "1e5", "1_000", "０１２", "٣٤", "0b101", "0o17"] {
        for t in &templates { emit(w, &t.replace("{}", lit)); }
    }
    for reg in ["r", "r-1", "r+1", "r0x10", "r00000000000000000000000000000000000000001", "r99999999999999999999999999", "r9223372036854775807", "r9223372036854775808", "R1", "r１"] {
        for t in ["mov {}, 1", "mov r1, {}", "ldxw r1, [{}+4]", "stxw [{}], r1", "jeq {}, 1, +1", "neg {}", "{}", "exit\n{}"] { emit(w, &t.replace("{}", reg)); } }
    // operand counts beyond any valid shape (0..=12 operands of every kind, after every mnemonic): surplus operands are an error
    for (name, _) in &mnemonics() { for n in 0..=12usize { for kind in 0..4usize {
        if !thorough && n > 6 && n % 3 != 0 && kind != 0 { continue; }
        let ops: Vec<String> = (0..n).map(|k| match (kind, k % 3) { (0, _) => format!("{}", k + 1), (1, _) => format!("r{}", k % 10), (2, _) => format!("[r{}+{}]", k % 10, k),
            (_, 0) => format!("r{}", k % 10), (_, 1) => format!("{}", k), _ => format!("[r1+{}]", k) }).collect();
        emit(w, &format!("{} {}", name, ops.join(", ")));
    } } }
    for tr in ["mov", "mov ", "mov r1", "mov r1,", "mov r1, ", "ldxw r1, [", "ldxw r1, [r2", "ldxw r1, [r2+", "ldxw r1, [r2+4", "stw [r1+2],", "jeq r1, 2,", "jeq r1,", ",", ",,", "[", "]", "[]", "[r1]", "exit,", "exit ,", "exit r1", "exit 1"] { emit(w, tr); }
    // long identifiers (unknown mnemonics, register-like names) with a multi-byte alphanumeric character at every byte position up to 72:
    // error paths that slice or measure the name in bytes must not split a character
    for k in 0..=72usize { for ch in ["é", "中", "𝐀", "٣"] { for tail in ["", "zz", "é"] {
        let id = format!("{}{}{}", "a".repeat(k), ch, tail);
        emit(w, &id);
        if thorough || k % 4 == 0 || (28..=36).contains(&k) || (60..=68).contains(&k) {
            emit(w, &format!("{} r1, 2", id)); emit(w, &format!("mov r1, 2\n{}", id)); emit(w, &format!("mov{} r1, 2", id)); emit(w, &format!("r{}", id));
            emit(w, &format!("mov r1, {}", id)); emit(w, &format!("ldxw r1, [{}+4]", id));
        }
    } } }
    // arbitrary characters, including non-ASCII whitespace / alphanumerics
    let alphabet: Vec<char> = "abcdefrxjmov0123456789 ,+-[]\n\t_.;:#é\u{a0}\u{2003}\u{3000}\u{85}\u{b}\u{c}Ω٣½ß\u{0}\u{7f}!\"'()*/<=>?@\\^`{|}~".chars().collect();
    for _ in 0..(if thorough { 600_000 } else { 40_000 }) {
        let n = r.below(24) as usize; let s: String = (0..n).map(|_| *r.pick(&alphabet)).collect(); emit(w, &s);
    }
    // mutated valid texts
    let ms = mnemonics();
    for _ in 0..(if thorough { 300_000 } else { 20_000 }) {
        let (name, sh) = r.pick(&ms).clone();
        let (d, s2, o, im, f) = (r.below(12) as i64, r.below(12) as i64, r.next() as i16 as i64, r.next() as i32 as i64, r.chance(1, 2));
        let t = render(&mut r, &name, sh, d, s2, o, im, f);
        let mut cs: Vec<char> = t.chars().collect();
        for _ in 0..1 + r.below(2) { if cs.is_empty() { break; } let k = r.below(cs.len() as u64) as usize;
            match r.below(3) { 0 => { cs.remove(k); } 1 => { cs.insert(k, *r.pick(&alphabet)); } _ => { cs[k] = *r.pick(&alphabet); } } }
        emit(w, &cs.into_iter().collect::<String>());
    }
}

pub fn gen_dis(w: &mut impl Write, thorough: bool, seed: u64) {
    let mut r = Rng::new(seed ^ 0xd15);
    // every opcode x every register byte, boundary offsets/immediates
    for opc in 0..=255u8 { for rb in 0..=255u8 {
        let off = *r.pick(O16); let imm = if opc == 0xd4 || opc == 0xdc { *r.pick(&[16, 32, 64, 8, -16, 0]) } else { *r.pick(I32) };
        let mut p = [opc, rb, 0, 0, 0, 0, 0, 0]; p[2..4].copy_from_slice(&off.to_le_bytes()); p[4..8].copy_from_slice(&imm.to_le_bytes());
        let mut v = p.to_vec(); if opc == 0x18 { v.extend(ins(r.next() as u8, 0, 0, 0, *r.pick(I32))); }
        writeln!(w, "dis {}", hex(&v)).unwrap();
    } }
    for &opc in SUPPORTED.iter().chain([0x8du8].iter()) { for &off in O16 { for &imm in I32 {
        let mut v = ins(opc, 1, if opc == 0x85 { 1 } else { 2 }, off, imm).to_vec(); if opc == 0x18 { v.extend(ins(0, 0, 0, 0, *r.pick(I32))); }
        writeln!(w, "dis {}", hex(&v)).unwrap();
    } } }
    for opc in SUPPORTED { for off in if thorough { (-32768i32..=32767).step_by(1).collect::<Vec<_>>() } else { vec![-32768, -32767, -1, 0, 1, 32767] } {
        let mut v = ins(*opc, 2, if *opc == 0x85 { 0 } else { 3 }, off as i16, 64).to_vec(); if *opc == 0x18 { v.extend(ins(0, 0, 0, 0, -1)); }
        writeln!(w, "dis {}", hex(&v)).unwrap();
    } }
    // programs: random supported instructions, lddw merged, odd lengths, lddw last
    writeln!(w, "dis -").unwrap();
    for _ in 0..(if thorough { 200_000 } else { 15_000 }) {
        let n = 1 + r.below(12) as usize; let mut p = vec![];
        for _ in 0..n { let opc = if r.chance(1, 40) { r.next() as u8 } else { *r.pick(SUPPORTED) };
            let src = if opc == 0x85 { if r.chance(1, 30) { r.below(16) as u8 } else { r.below(2) as u8 } } else { r.below(16) as u8 };
            p.extend(ins(opc, r.below(16) as u8, src, if r.chance(1, 2) { *r.pick(O16) } else { r.next() as i16 }, if r.chance(1, 2) { *r.pick(I32) } else { r.next() as i32 }));
            if opc == 0x18 && !r.chance(1, 30) { p.extend(ins(r.next() as u8, 0, 0, 0, r.next() as i32)); } }
        if r.chance(1, 40) { p.truncate(p.len() - 1 - r.below(7) as usize); }
        writeln!(w, "dis {}", hex(&p)).unwrap();
    }
}

pub fn gen_rt(w: &mut impl Write, thorough: bool, seed: u64) {
    let mut r = Rng::new(seed ^ 0x47);
    // single instructions: every supported opcode x registers x offsets x immediates of both signs
    for &opc in SUPPORTED.iter().chain([0x8du8].iter()) { for &off in O16 { for &imm in I32 { for (d, s) in [(0u8, 0u8), (1, 2), (9, 10), (15, 15), (10, 0)] {
        let imm = if opc == 0xd4 || opc == 0xdc { *r.pick(&[16, 32, 64, 16, 32, 64, 8]) } else { imm };
        let mut v = ins(opc, d, if opc == 0x85 { s % 3 } else { s }, off, imm).to_vec(); if opc == 0x18 { v.extend(ins(0, 0, 0, 0, *r.pick(I32))); }
        writeln!(w, "rt {}", hex(&v)).unwrap();
    } } } }
    // canonical programs (unused fields zero, non-negative immediates) in any instruction order, plus arbitrary ones
    for i in 0..(if thorough { 300_000 } else { 25_000 }) {
        let n = 1 + r.below(10) as usize; let mut p = vec![];
        let canonical = i % 3 != 0;
        for _ in 0..n { let opc = *r.pick(SUPPORTED);
            if canonical { p.extend(canon_insn(&mut r, opc)); }
            else { p.extend(ins(opc, r.below(16) as u8, if opc == 0x85 { r.below(2) as u8 } else { r.below(16) as u8 }, r.next() as i16, if opc == 0xd4 || opc == 0xdc { *r.pick(&[16, 32, 64]) } else { r.next() as i32 }));
                   if opc == 0x18 { p.extend(ins(0, 0, 0, 0, r.next() as i32)); } }
        }
        writeln!(w, "rt {}", hex(&p)).unwrap();
    }
}

/// an instruction in the assembler-expressible canonical form: only the fields the instruction uses are set
pub fn canon_insn(r: &mut Rng, opc: u8) -> Vec<u8> {
    let d = r.below(16) as u8; let s = r.below(16) as u8;
    let off = if r.chance(1, 2) { *r.pick(O16) } else { r.next() as i16 };
    let imm = (if r.chance(1, 2) { *r.pick(I32) } else { r.next() as i32 }) & 0x7fff_ffff;
    let cls = opc & 7;
    match opc {
        0x18 => { let mut v = ins(opc, d, 0, 0, r.next() as i32).to_vec(); v.extend(ins(0, 0, 0, 0, r.next() as i32)); v }
        0x20 | 0x28 | 0x30 | 0x38 => ins(opc, 0, 0, 0, imm).to_vec(),
        0x40 | 0x48 | 0x50 | 0x58 => ins(opc, 0, s, 0, imm).to_vec(),
        0x61 | 0x69 | 0x71 | 0x79 => ins(opc, d, s, off, 0).to_vec(),
        0x62 | 0x6a | 0x72 | 0x7a => ins(opc, d, 0, off, imm).to_vec(),
        0x63 | 0x6b | 0x73 | 0x7b | 0xc3 | 0xdb => ins(opc, d, s, off, 0).to_vec(),
        0xd4 | 0xdc => ins(opc, d, 0, 0, *r.pick(&[16, 32, 64])).to_vec(),
        0x84 | 0x87 => ins(opc, d, 0, 0, 0).to_vec(),
        0x05 => ins(opc, 0, 0, off, 0).to_vec(),
        0x85 => ins(opc, 0, r.below(2) as u8, 0, imm).to_vec(),
        0x95 => ins(opc, 0, 0, 0, 0).to_vec(),
        _ if cls == 4 || cls == 7 => if opc & 8 != 0 { ins(opc, d, s, 0, 0).to_vec() } else { ins(opc, d, 0, 0, imm).to_vec() },
        _ => if opc & 8 != 0 { ins(opc, d, s, off, 0).to_vec() } else { ins(opc, d, 0, off, imm).to_vec() },
    }
}
