//! suite `x86step`: the x86-64 machine model (lean/RbpfModel/Model/X86.lean) against the processor, one instruction at a
//! time, with the whole register file, the four condition flags and a scratch memory region observed.
//! A case is one instruction of a form the JIT emits (encoded here by a small assembler of its own), sixteen register
//! values (`M+k` = address k of the scratch region; rsp is always `M+192`), four input flags and a fill pattern for
//! the 256-byte region.  The harness builds a stub in an executable page that installs the state, executes the
//! instruction, and stores the state back; the model's driver performs `X86.step` on the same state.
use crate::rng::*;
use std::io::Write;

const R_RSP: usize = 4;
const R_RDI: usize = 7;

#[repr(C)]
struct Ctx { inr: [u64; 16], infl: u64, outr: [u64; 16], outf: [u8; 8], save_rsp: u64 }

fn exec_page() -> *mut u8 {
    static mut P: *mut u8 = std::ptr::null_mut();
    unsafe {
        if P.is_null() {
            let p = libc::mmap(std::ptr::null_mut(), 4096, libc::PROT_READ | libc::PROT_WRITE | libc::PROT_EXEC, libc::MAP_PRIVATE | libc::MAP_ANONYMOUS, -1, 0);
            assert!(p != libc::MAP_FAILED);
            P = p as *mut u8;
        }
        P
    }
}

fn rex(w: u8, r: usize, b: usize) -> u8 { 0x40 | (w << 3) | (((r >> 3) as u8) << 2) | ((b >> 3) as u8) }

/// `mov reg, [rdi + disp32]` / `mov [rax + disp32], reg`
fn ld_from_rdi(c: &mut Vec<u8>, reg: usize, disp: u32) { c.push(rex(1, reg, R_RDI)); c.push(0x8b); c.push(0x80 | (((reg & 7) as u8) << 3) | 7); c.extend(disp.to_le_bytes()); }
fn st_to_rax(c: &mut Vec<u8>, reg: usize, disp: u32) { c.push(rex(1, reg, 0)); c.push(0x89); c.push(0x80 | (((reg & 7) as u8) << 3)); c.extend(disp.to_le_bytes()); }

pub fn run(t: &[&str]) -> String {
    let mut kv = std::collections::HashMap::new();
    for tok in &t[1..] { if let Some((k, v)) = tok.split_once('=') { kv.insert(k, v); } }
    let (Some(code), Some(regs), Some(fl), Some(ms)) = (kv.get("code").and_then(|s| unhex(s)), kv.get("regs"), kv.get("fl").and_then(|s| u64::from_str_radix(s, 16).ok()), kv.get("ms").and_then(|s| s.parse::<u8>().ok())) else { return "bad-op".into() };
    let jump = kv.get("jump").map(|v| *v == "1").unwrap_or(false);
    let mut region: Vec<u8> = (0..256usize).map(|i| (i as u8).wrapping_mul(37).wrapping_add(ms) | 1).collect();
    let base = region.as_mut_ptr() as u64;
    let mut ctx = Box::new(Ctx { inr: [0; 16], infl: 0, outr: [0; 16], outf: [0; 8], save_rsp: 0 });
    let rv: Vec<&str> = regs.split(',').collect();
    if rv.len() != 16 { return "bad-op".into(); }
    for (i, s) in rv.iter().enumerate() {
        ctx.inr[i] = if let Some(off) = s.strip_prefix("M+") { base + off.parse::<u64>().unwrap_or(0) } else { match u64::from_str_radix(s, 16) { Ok(v) => v, Err(_) => return "bad-op".into() } };
    }
    // RFLAGS image: bit 1 is always set; CF = bit 0, ZF = 6, SF = 7, OF = 11; IF (9) as the process has it
    ctx.infl = 0x202 | (fl & 1) | ((fl >> 1 & 1) << 6) | ((fl >> 2 & 1) << 7) | ((fl >> 3 & 1) << 11);
    let cp = &mut *ctx as *mut Ctx as u64;
    let off_inr = 0u32; let off_infl = 128u32; let off_outr = 136u32; let off_outf = 264u32; let off_save = 272u32;
    let mut c: Vec<u8> = vec![];
    c.extend([0x53, 0x55, 0x41, 0x54, 0x41, 0x55, 0x41, 0x56, 0x41, 0x57]);                 // push rbx rbp r12 r13 r14 r15
    c.extend([0x48, 0x89, 0xa7]); c.extend(off_save.to_le_bytes());                          // mov [rdi+save], rsp
    c.extend([0x48, 0x8b, 0x87]); c.extend(off_infl.to_le_bytes()); c.push(0x50); c.push(0x9d); // mov rax,[rdi+infl]; push rax; popfq
    for r in 0..16 { if r != R_RSP && r != R_RDI { ld_from_rdi(&mut c, r, off_inr + 8 * r as u32); } }
    ld_from_rdi(&mut c, R_RSP, off_inr + 8 * R_RSP as u32);
    ld_from_rdi(&mut c, R_RDI, off_inr + 8 * R_RDI as u32);
    c.extend(&code);
    if jump { c.extend([0x49, 0xc7, 0xc3, 0x01, 0x00, 0x00, 0x00]); }                         // mov r11, 1   (skipped by a taken jump of +7)
    c.extend([0x48, 0xa3]); c.extend((cp + off_outr as u64).to_le_bytes());                  // mov [moffs64], rax
    c.extend([0x48, 0xb8]); c.extend(cp.to_le_bytes());                                      // movabs rax, ctx
    for r in 1..16 { st_to_rax(&mut c, r, off_outr + 8 * r as u32); }
    // flags, without touching the stack: seto r8b ; setb r9b ; sete r10b ; sets r11b ; store the four bytes
    c.extend([0x41, 0x0f, 0x90, 0xc0, 0x41, 0x0f, 0x92, 0xc1, 0x41, 0x0f, 0x94, 0xc2, 0x41, 0x0f, 0x98, 0xc3]);
    for (k, r) in [8usize, 9, 10, 11].iter().enumerate() { c.push(rex(0, *r, 0)); c.push(0x88); c.push(0x80 | (((*r & 7) as u8) << 3)); c.extend((off_outf + k as u32).to_le_bytes()); }
    c.extend([0x48, 0x8b, 0xa0]); c.extend(off_save.to_le_bytes());                          // mov rsp, [rax+save]
    c.extend([0x41, 0x5f, 0x41, 0x5e, 0x41, 0x5d, 0x41, 0x5c, 0x5d, 0x5b, 0xc3]);            // pop r15 r14 r13 r12 rbp rbx ; ret
    if c.len() > 4000 { return "bad-op".into(); }
    unsafe {
        let page = exec_page();
        std::ptr::copy_nonoverlapping(c.as_ptr(), page, c.len());
        let f: unsafe extern "C" fn(*mut Ctx) = std::mem::transmute(page);
        f(&mut *ctx as *mut Ctx);
    }
    let mut outr = ctx.outr;
    let taken = if jump { let tk = outr[11] == ctx.inr[11]; outr[11] = ctx.inr[11]; if tk { "1" } else { "0" } } else { "-" };
    let (of, cf, zf, sf) = (ctx.outf[0] & 1, ctx.outf[1] & 1, ctx.outf[2] & 1, ctx.outf[3] & 1);
    format!("ok r={} f={}{}{}{} t={} m={} @ xbase={:x}", outr.iter().map(|v| format!("{:016x}", v)).collect::<Vec<_>>().join(","), cf, zf, sf, of, taken, hex(&region), base)
}

// ---------------------------------------------------------------------------------------------------------------------------------
// generator: a small assembler for the instruction forms the JIT emits

fn rex_opt(c: &mut Vec<u8>, w: u8, r: usize, b: usize) { let x = rex(w, r, b); if x != 0x40 { c.push(x); } }
fn modrm_rr(reg: usize, rm: usize) -> u8 { 0xc0 | (((reg & 7) as u8) << 3) | ((rm & 7) as u8) }
fn mem_operand(c: &mut Vec<u8>, reg: usize, base: usize, disp: i32) {
    let (r, b) = (((reg & 7) as u8) << 3, (base & 7) as u8);
    if disp == 0 && b != 5 { c.push(r | b); } else if (-128..=127).contains(&disp) { c.push(0x40 | r | b); c.push(disp as i8 as u8); } else { c.push(0x80 | r | b); c.extend(disp.to_le_bytes()); }
}

struct Case { code: Vec<u8>, regs: Vec<String>, jump: bool, fl: Option<u64> }

fn base_regs(r: &mut Rng) -> Vec<String> {
    let mut v: Vec<String> = (0..16).map(|_| format!("{:x}", if r.chance(2, 3) { *r.pick(V64) } else { r.next() })).collect();
    v[R_RSP] = "M+192".into();
    v
}

/// operand pairs on the boundaries of the flag definitions: equal, negations (sum exactly 2^64 / 2^32), complements,
/// neighbours, sign-boundary sums
fn related(r: &mut Rng, a: u64) -> u64 {
    match r.below(14) {
        0 => a, 1 => a.wrapping_neg(), 2 => !a, 3 => a.wrapping_add(1), 4 => a.wrapping_sub(1),
        5 => (1u64 << 63).wrapping_sub(a), 6 => (1u64 << 32).wrapping_sub(a & 0xffff_ffff), 7 => (1u64 << 31).wrapping_sub(a & 0x7fff_ffff),
        8 => 0, 9 => u64::MAX, 10 => a ^ (1 << 63), 11 => a ^ (1 << 31), 12 => (a & 0xffff_ffff).wrapping_neg() & 0xffff_ffff,
        _ => if r.chance(1, 2) { *r.pick(V64) } else { r.next() },
    }
}

pub fn gen(w: &mut impl Write, thorough: bool, seed: u64) {
    let mut r = Rng::new(seed ^ 0x86_86);
    let gp: [usize; 15] = [0, 1, 2, 3, 5, 6, 7, 8, 9, 10, 11, 12, 13, 14, 15];     // every register but rsp
    let bases: [usize; 13] = [0, 1, 2, 3, 5, 6, 7, 8, 9, 10, 11, 13, 14];          // no rsp / r12 (SIB forms are never emitted)
    let reps = if thorough { 40 } else { 6 };
    let mut cases: Vec<Case> = vec![];
    for _ in 0..reps {
        // register-register ALU, both widths
        for &op in &[0x01u8, 0x09, 0x21, 0x29, 0x31, 0x39, 0x85, 0x89] { for w_ in 0..2u8 { for _ in 0..14 {
            let (s, d) = (*r.pick(&gp), *r.pick(&gp));
            let mut c = vec![]; rex_opt(&mut c, w_, s, d); c.push(op); c.push(modrm_rr(s, d));
            let mut regs = base_regs(&mut r);
            let a = if r.chance(1, 2) { *r.pick(V64) } else { r.next() }; let b = related(&mut r, a);
            regs[d] = format!("{:x}", a); if s != d { regs[s] = format!("{:x}", b); }
            cases.push(Case { code: c, regs, jump: false, fl: None });
        } } }
        // register-immediate: 81 /ext, c7 /0 (mov), f7 /0 (test)
        for &(opc, ext) in &[(0x81u8, 0usize), (0x81, 1), (0x81, 4), (0x81, 5), (0x81, 6), (0x81, 7), (0xc7, 0), (0xf7, 0)] { for w_ in 0..2u8 { for _ in 0..10 {
            let d = *r.pick(&gp); let imm = if r.chance(1, 2) { *r.pick(I32) } else { r.next() as i32 };
            let mut c = vec![]; rex_opt(&mut c, w_, 0, d); c.push(opc); c.push(modrm_rr(ext, d)); c.extend(imm.to_le_bytes());
            let mut regs = base_regs(&mut r);
            let b = if w_ == 1 { imm as i64 as u64 } else { imm as u32 as u64 };
            let a = related(&mut r, b); regs[d] = format!("{:x}", if w_ == 0 && r.chance(1, 2) { a | (r.next() << 32) } else { a });
            cases.push(Case { code: c, regs, jump: false, fl: None });
        } } }
        // movabs
        for _ in 0..4 { let d = *r.pick(&gp); let mut c = vec![rex(1, 0, d), 0xb8 | (d & 7) as u8]; c.extend((if r.chance(1, 2) { *r.pick(V64) } else { r.next() }).to_le_bytes());
            cases.push(Case { code: c, regs: base_regs(&mut r), jump: false, fl: None }); }
        // shifts by immediate (64, 32 and 16 bit) and by cl
        for &ext in &[0usize, 4, 5, 7] { for sz in [64u8, 32, 16] { for &n in &[0u8, 1, 7, 8, 15, 16, 17, 31, 32, 33, 63, 64, 65, 255] {
            let d = *r.pick(&gp); let mut c = vec![]; if sz == 16 { c.push(0x66); } rex_opt(&mut c, (sz == 64) as u8, 0, d); c.push(0xc1); c.push(modrm_rr(ext, d)); c.push(n);
            cases.push(Case { code: c, regs: base_regs(&mut r), jump: false, fl: None });
        } } }
        for &ext in &[0usize, 4, 5, 7] { for w_ in 0..2u8 { for _ in 0..6 {
            let d = *r.pick(&gp); let mut c = vec![]; rex_opt(&mut c, w_, 0, d); c.push(0xd3); c.push(modrm_rr(ext, d));
            let mut regs = base_regs(&mut r); regs[1] = format!("{:x}", *r.pick(&[0u64, 1, 31, 32, 33, 63, 64, 65, 0x100, 0x13f, u64::MAX, 0x8000_0000_0000_0020]));
            cases.push(Case { code: c, regs, jump: false, fl: None });
        } } }
        // neg, mul, div (the generator keeps the quotient in range: rdx below the divisor)
        for w_ in 0..2u8 { for _ in 0..6 {
            let d = *r.pick(&gp); let mut c = vec![]; rex_opt(&mut c, w_, 0, d); c.push(0xf7); c.push(modrm_rr(3, d)); cases.push(Case { code: c, regs: base_regs(&mut r), jump: false, fl: None });
            let s = *r.pick(&gp); let mut c = vec![]; rex_opt(&mut c, w_, 0, s); c.push(0xf7); c.push(modrm_rr(4, s)); cases.push(Case { code: c, regs: base_regs(&mut r), jump: false, fl: None });
            let s = *r.pick(&[1usize, 3, 5, 6, 7, 8, 9, 13, 15]); let mut c = vec![]; rex_opt(&mut c, w_, 0, s); c.push(0xf7); c.push(modrm_rr(6, s));
            let mut regs = base_regs(&mut r);
            let mask = if w_ == 1 { u64::MAX } else { 0xffff_ffff };
            let dv = loop { let v = if r.chance(1, 2) { *r.pick(V64) } else { r.next() }; if v & mask != 0 { break v; } };
            regs[s] = format!("{:x}", dv);
            let hi = if r.chance(1, 2) { 0 } else { r.next() % (dv & mask) };
            regs[2] = format!("{:x}", if w_ == 1 { hi } else { hi | (r.next() << 32) });
            cases.push(Case { code: c, regs, jump: false, fl: None });
        } }
        // bswap, cmovz
        for w_ in 0..2u8 { for _ in 0..4 { let d = *r.pick(&gp); let mut c = vec![]; rex_opt(&mut c, w_, 0, d); c.push(0x0f); c.push(0xc8 | (d & 7) as u8); cases.push(Case { code: c, regs: base_regs(&mut r), jump: false, fl: None }); } }
        for _ in 0..8 { let (d, s) = (*r.pick(&gp), *r.pick(&gp)); let c = vec![rex(1, d, s), 0x0f, 0x44, modrm_rr(d, s)]; cases.push(Case { code: c, regs: base_regs(&mut r), jump: false, fl: None }); }
        // loads, stores, store-immediates, lock add: base register into the scratch region, the three displacement encodings
        for &disp in &[0i32, 1, -1, 8, -8, 24, 127, -128, 130, -130] { for sz in [8u8, 16, 32, 64] { for kind in 0..4 {
            let b = *r.pick(&bases); let x = loop { let x = *r.pick(&gp); if x != b { break x; } };
            let at: i64 = 64 + r.below(48) as i64; let basev = at - disp as i64;
            if !(0..=248).contains(&basev) { continue; }
            let mut c = vec![];
            match kind {
                0 => { rex_opt(&mut c, (sz == 64) as u8, x, b); match sz { 8 => c.extend([0x0f, 0xb6]), 16 => c.extend([0x0f, 0xb7]), _ => c.push(0x8b) } mem_operand(&mut c, x, b, disp); }
                1 => { if sz == 16 { c.push(0x66); } if sz == 8 { c.push(rex((sz == 64) as u8, x, b)); } else { rex_opt(&mut c, (sz == 64) as u8, x, b); } c.push(if sz == 8 { 0x88 } else { 0x89 }); mem_operand(&mut c, x, b, disp); }
                2 => { if sz == 16 { c.push(0x66); } rex_opt(&mut c, (sz == 64) as u8, 0, b); c.push(if sz == 8 { 0xc6 } else { 0xc7 }); mem_operand(&mut c, 0, b, disp);
                       let imm = r.next() as i32; match sz { 8 => c.push(imm as u8), 16 => c.extend((imm as u16).to_le_bytes()), _ => c.extend(imm.to_le_bytes()) } }
                _ => { if sz < 32 { continue; } c.push(0xf0); rex_opt(&mut c, (sz == 64) as u8, x, b); c.push(0x01); mem_operand(&mut c, x, b, disp); }
            }
            let mut regs = base_regs(&mut r); regs[b] = format!("M+{}", basev);
            cases.push(Case { code: c, regs, jump: false, fl: None });
        } } }
        // conditional jumps (after arbitrary flags), jmp
        // every condition code x every combination of the four flags
        for &cc in &[0x82u8, 0x83, 0x84, 0x85, 0x86, 0x87, 0x8c, 0x8d, 0x8e, 0x8f] { for fl in 0..16u64 {
            let mut regs = base_regs(&mut r); regs[11] = "0".into();
            cases.push(Case { code: vec![0x0f, cc, 7, 0, 0, 0], regs, jump: true, fl: Some(fl) }); } }
        { let mut regs = base_regs(&mut r); regs[11] = "0".into(); cases.push(Case { code: vec![0xe9, 7, 0, 0, 0], regs, jump: true, fl: None }); }
        // cmovz under both values of ZF
        for fl in [0u64, 2, 13, 15] { let (d, s_) = (*r.pick(&gp), *r.pick(&gp)); cases.push(Case { code: vec![rex(1, d, s_), 0x0f, 0x44, modrm_rr(d, s_)], regs: base_regs(&mut r), jump: false, fl: Some(fl) }); }
        // push / pop
        for _ in 0..6 { let x = *r.pick(&gp); let mut c = vec![]; rex_opt(&mut c, 0, 0, x); c.push(0x50 | (x & 7) as u8); cases.push(Case { code: c, regs: base_regs(&mut r), jump: false, fl: None });
            let mut c = vec![]; rex_opt(&mut c, 0, 0, x); c.push(0x58 | (x & 7) as u8); cases.push(Case { code: c, regs: base_regs(&mut r), jump: false, fl: None }); }
    }
    for c in cases.iter() {
        let fl = match c.fl { Some(f) => f, None => r.below(16) };
        writeln!(w, "x86 code={} regs={} fl={:x} ms={} jump={}", hex(&c.code), c.regs.join(","), fl, r.below(200) as u8, c.jump as u8).unwrap();
    }
}
