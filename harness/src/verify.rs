//! suite `verify` (C06): the default verifier's verdict on arbitrary byte strings.
//! The public route to `verifier::check` is `EbpfVmMbuff::new(Some(prog))`, which runs it first and
//! then `stack_validate` (which cannot fail without a calculator).
use crate::progen::*;
use crate::rng::*;
use std::io::Write;

pub fn run(t: &[&str]) -> String {
    if t.len() != 2 { return "bad-op".into(); }
    let Some(p) = unhex(t[1]) else { return "bad-op".into() };
    crate::catch(move || match rbpf::EbpfVmMbuff::new(Some(&p)) { Ok(_) => "ok".into(), Err(_) => "err".into() })
}

fn emit(w: &mut impl Write, p: &[u8]) { writeln!(w, "verify {}", hex(p)).unwrap(); }

fn place(x: [u8; 8], pos: usize) -> Vec<u8> {
    let nop = ins(0xb7, 0, 0, 0, 0);
    let mut p: Vec<u8> = vec![];
    match pos {
        0 => { p.extend(x); p.extend(nop); p.extend(EXIT); }
        1 => { p.extend(nop); p.extend(x); p.extend(nop); p.extend(EXIT); }
        2 => { p.extend(nop); p.extend(nop); p.extend(x); p.extend(EXIT); }
        _ => { p.extend(nop); p.extend(nop); p.extend(x); }
    }
    p
}

pub fn gen(w: &mut impl Write, thorough: bool, seed: u64) {
    let mut r = Rng::new(seed ^ 0x5eed_0006);
    let nop = ins(0xb7, 0, 0, 0, 0);
    // --- every (opcode, register byte) in first / middle / penultimate / last position ------------
    for opc in 0..=255u8 { for rb in 0..=255u8 {
        let x = [opc, rb, 0, 0, if opc == 0xd4 || opc == 0xdc { 16 } else { 0 }, 0, 0, 0];
        let p0 = (opc as usize + rb as usize) % 4;
        emit(w, &place(x, p0));
        if thorough || rb % 16 == 0 || rb < 32 {
            for pos in 0..4 { if pos != p0 { emit(w, &place(x, pos)); } }
        }
        if opc == 0x18 { let mut p = x.to_vec(); p.extend([0u8; 8]); p.extend(EXIT); emit(w, &p); }
    } }
    // --- every displacement around the program bounds, every jump/call opcode, with lddw targets --
    let mut jops: Vec<u8> = SUPPORTED.iter().copied().filter(|o| is_jump(*o)).collect();
    jops.push(0x85);
    for n in 1..=6usize { for at in 0..n { for &op in &jops { for d in -(n as i32) - 3..=(n as i32) + 3 { for variant in 0..5 {
        if variant > 0 && n < 3 { continue; }
        let mut slots: Vec<[u8; 8]> = vec![nop; n]; slots.push(EXIT);
        // variants 3, 4: the second half of the wide load carries non-zero register, offset and immediate fields (only its
        // opcode byte is 0): it is still the second half of a wide load, not an instruction a jump may land on
        let second: [u8; 8] = if variant >= 3 { ins(0, 1, 2, 5, 9) } else { [0; 8] };
        if (variant == 1 || variant == 3) && at != n - 2 && at != n - 1 { slots[n - 2] = ins(0x18, 1, 0, 0, 7); slots[n - 1] = second; }
        if (variant == 2 || variant == 4) && at >= 2 { slots[0] = ins(0x18, 1, 0, 0, 7); slots[1] = second; }
        slots[at] = if op == 0x85 { ins(0x85, 0, 1, 0, d) } else { ins(op, 1, 2, d as i16, 0) };
        let p: Vec<u8> = slots.iter().flatten().copied().collect();
        emit(w, &p);
    } } } } }
    // --- call kinds, tail call, imm/off classes -------------------------------------------------------
    for src in 0..16u8 { for &imm in I32 { let mut p = ins(0x85, 0, src, 0, imm).to_vec(); p.extend(EXIT); emit(w, &p); } }
    for &opc in &[0xd4u8, 0xdc] { for imm in [0, 8, 15, 16, 17, 24, 32, 33, 48, 64, 65, 128, -16, -32, -64, 0x10010, 0x7fffffff] {
        let mut p = ins(opc, 1, 0, 0, imm).to_vec(); p.extend(EXIT); emit(w, &p); } }
    for &opc in &[0xc3u8, 0xdb] { for &imm in I32 { for dst in [0u8, 9, 10, 11] { let mut p = ins(opc, dst, 1, -8, imm).to_vec(); p.extend(EXIT); emit(w, &p); } } }
    for &opc in SUPPORTED { for &off in O16 { let mut p = vec![]; p.extend(nop); p.extend(ins(opc, 1, 1, off, 16)); p.extend(nop); p.extend(EXIT); emit(w, &p); } }
    // --- every opcode x every immediate class, with the fields the opcode does not use set as well (an instruction's meaning and its
    //     acceptance must not depend on fields it does not use; the second half of a wide load carries garbage in its other fields)
    for &opc in SUPPORTED { for &imm in I32 { for off in [0i16, 1] { for (d, sr) in [(1u8, 2u8), (0, 0), (9, 10)] {
        if opc == 0xd4 || opc == 0xdc { continue; }
        let mut p = vec![]; p.extend(nop); p.extend(ins(opc, d, sr, off, imm));
        if opc == 0x18 { p.extend(ins(0, 3, 4, 7, imm.wrapping_mul(3))); }
        p.extend(nop); p.extend(nop); p.extend(EXIT); emit(w, &p);
    } } } }
    // --- last-instruction kinds -------------------------------------------------------------------------
    for opc in 0..=255u8 {
        for off in [0i16, -1, -2, -3, 1] { let mut p = vec![]; p.extend(nop); p.extend(nop); p.extend(ins(opc, 0, 0, off, 0)); emit(w, &p); }
        let mut p = vec![]; p.extend(nop); p.extend(ins(0x18, 1, 0, 0, 1)); p.extend(ins(opc, 0, 0, 0, 0)); emit(w, &p);
    }
    // --- length classes -------------------------------------------------------------------------------------
    emit(w, &[]);
    for n in 1..=17usize { let mut p = vec![0u8; n]; if n >= 8 { p[n - 8..].copy_from_slice(&EXIT); } emit(w, &p); let mut q = EXIT.to_vec(); q.truncate(n.min(8)); emit(w, &q); }
    // --- random: soups, mutated valid programs ------------------------------------------------------------
    let nrand = if thorough { 400_000 } else { 30_000 };
    let cfg = GenCfg { max_len: 40, helpers: vec![1, 2, 0xffff_ffff], mem_len: 64, mbuff_len: 0, calls: true, engine_safe: false };
    for i in 0..nrand {
        match i % 4 {
            0 => { // soup of supported opcodes with small fields
                let n = 1 + r.below(8) as usize; let mut p = vec![];
                for _ in 0..n { let opc = *r.pick(SUPPORTED);
                    let (d, s) = (r.below(12) as u8, r.below(12) as u8);
                    let off = (r.below(2 * n as u64 + 3) as i64 - n as i64 - 1) as i16;
                    let imm = if opc == 0xd4 || opc == 0xdc { *r.pick(&[16, 32, 64, 8]) } else if opc == 0x85 { (r.below(2 * n as u64 + 3) as i64 - n as i64 - 1) as i32 } else if r.chance(1, 2) { 0 } else { r.next() as i32 };
                    let sr = if opc == 0x85 { r.below(3) as u8 } else { s };
                    p.extend(ins(opc, d, sr, off, imm));
                    if opc == 0x18 && r.chance(3, 4) { p.extend(ins(0, 0, 0, 0, r.next() as i32)); } }
                if r.chance(3, 4) { p.extend(EXIT); } else { let o = -(1 + r.below(n as u64 + 1) as i16); p.extend(ins(0x05, 0, 0, o, 0)); }
                emit(w, &p);
            }
            1 | 2 => { // valid program with one mutated byte / field
                let mut p = random_program(&mut r, &cfg);
                let k = r.below(p.len() as u64) as usize;
                match r.below(4) {
                    0 => p[k] = r.next() as u8,
                    1 => p[k] ^= 1 << r.below(8),
                    2 => { let s = k / 8 * 8; p[s + 1] = r.next() as u8; }
                    _ => { let s = k / 8 * 8; let v = (r.below(9) as i16 - 4).to_le_bytes(); p[s + 2] = v[0]; p[s + 3] = v[1]; }
                }
                emit(w, &p);
            }
            _ => { let p = random_program(&mut r, &cfg); emit(w, &p); }
        }
    }
    // --- the length limit -----------------------------------------------------------------------------------
    for n in [999_999usize, 1_000_000, 1_000_001] {
        let mut p = Vec::with_capacity(n * 8);
        for _ in 0..n - 1 { p.extend(nop); }
        p.extend(EXIT);
        emit(w, &p);
        if thorough { let k = (n - 1) * 8; p[k..].copy_from_slice(&nop); emit(w, &p); }
    }
}
