//! suite `exec`: run a program on the real interpreter (EbpfVmMbuff::execute_program passes its
//! arguments straight to interpreter::execute_program) and report a canonical outcome plus the host
//! addresses the run actually used, so that the model can replay it exactly.
use crate::rng::*;
use std::any::Any;
use std::cell::RefCell;
use std::collections::HashMap;

thread_local! {
    pub static HLOG: RefCell<Vec<(u64, [u64; 5])>> = RefCell::new(Vec::new());
}

fn mix(n: u64, a: u64, b: u64, c: u64, d: u64, e: u64) -> u64 {
    (a.wrapping_mul(3).wrapping_add(b.wrapping_mul(5)).wrapping_add(c.wrapping_mul(7)).wrapping_add(d.wrapping_mul(11)).wrapping_add(e.wrapping_mul(13)))
        ^ (n + 1).wrapping_mul(0x9e3779b97f4a7c15)
}
macro_rules! helper { ($name:ident, $n:expr) => {
    pub fn $name(a: u64, b: u64, c: u64, d: u64, e: u64) -> u64 {
        HLOG.with(|l| l.borrow_mut().push(($n, [a, b, c, d, e])));
        mix($n, a, b, c, d, e)
    }
}; }
helper!(h0, 0); helper!(h1, 1); helper!(h2, 2); helper!(h3, 3);
pub const HELPERS: [rbpf::ebpf::Helper; 4] = [h0, h1, h2, h3];

pub fn fnv(bytes: &[u8]) -> u64 {
    let mut h: u64 = 0xcbf29ce484222325;
    for b in bytes { h ^= *b as u64; h = h.wrapping_mul(0x100000001b3); }
    h
}

fn calc(_prog: &[u8], pc: usize, data: &mut dyn Any) -> u16 {
    // rbpf hands the calculator `&mut Box<dyn Any>` coerced to `&mut dyn Any`: look through the box
    let t: &Vec<u16> = match data.downcast_ref::<Vec<u16>>() {
        Some(t) => t,
        None => data.downcast_ref::<Box<dyn Any>>().and_then(|b| b.downcast_ref::<Vec<u16>>()).unwrap(),
    };
    t[pc % t.len()]
}

pub struct Case {
    pub prog: Vec<u8>, pub mem: Vec<u8>, pub mbuff: Vec<u8>,
    pub helpers: Vec<(u32, usize)>, pub calc: Option<Vec<u16>>,
    pub extra: Vec<Vec<u8>>, pub arange: Vec<(usize, i64, i64)>,
    pub patch: Vec<(usize, String, i64)>, pub budget: u64,
}

pub fn parse(t: &[&str]) -> Option<Case> {
    let mut kv: HashMap<&str, &str> = HashMap::new();
    for tok in &t[1..] { let (k, v) = tok.split_once('=')?; kv.insert(k, v); }
    let bytes = |k: &str| -> Option<Vec<u8>> { match kv.get(k) { None => Some(vec![]), Some(v) => unhex(v) } };
    let mut c = Case { prog: bytes("prog")?, mem: bytes("mem")?, mbuff: bytes("mbuff")?, helpers: vec![], calc: None,
        extra: vec![], arange: vec![], patch: vec![], budget: 10000 };
    if let Some(h) = kv.get("helpers") { if *h != "-" { for e in h.split(',') {
        let (k, f) = e.split_once(':')?; c.helpers.push((u32::from_str_radix(k, 16).ok()?, f.parse().ok()?)); } } }
    if let Some(v) = kv.get("calc") { if *v != "-" { c.calc = Some(v.split(',').map(|x| u16::from_str_radix(x, 16)).collect::<Result<_, _>>().ok()?); } }
    if let Some(v) = kv.get("extra") { if *v != "-" { for e in v.split(';') { c.extra.push(unhex(e)?); } } }
    if let Some(v) = kv.get("arange") { if *v != "-" { for e in v.split(',') {
        let p: Vec<&str> = e.split(':').collect(); if p.len() != 3 { return None; }
        c.arange.push((p[0].parse().ok()?, p[1].parse().ok()?, p[2].parse().ok()?)); } } }
    if let Some(v) = kv.get("patch") { if *v != "-" { for e in v.split(',') {
        let p: Vec<&str> = e.split(':').collect(); if p.len() != 3 { return None; }
        c.patch.push((p[0].parse().ok()?, p[1].to_string(), p[2].parse().ok()?)); } } }
    if let Some(v) = kv.get("budget") { c.budget = v.parse().ok()?; }
    Some(c)
}

pub fn err_class(msg: &str) -> &'static str {
    if msg.contains("budget exhausted") { "budget" }
    else if msg.contains("out of bounds") { "oob" }
    else if msg.contains("unaligned") { "unaligned" }
    else if msg.contains("unknown helper") { "unknown-helper" }
    else if msg.contains("too many nested") { "call-depth" }
    else if msg.contains("unsupported call type") { "call-type" }
    else if msg.contains("TAIL_CALL") { "tail-call" }
    else if msg.contains("[Verifier]") { "verifier" }
    else { "other" }
}

/// apply address patches: the 64-bit immediate of the lddw at `slot` becomes base(which) + delta
pub fn apply_patches(prog: &mut [u8], patch: &[(usize, String, i64)], membase: u64, mbuffbase: u64, extrabase: &[u64]) {
    for (slot, which, delta) in patch {
        let base = match which.as_str() {
            "mem" => membase, "mbuff" => mbuffbase,
            w if w.starts_with("extra") => extrabase[w[5..].parse::<usize>().unwrap()],
            _ => 0,
        };
        let v = base.wrapping_add(*delta as u64);
        if (slot + 2) * 8 <= prog.len() {
            prog[slot * 8 + 4..slot * 8 + 8].copy_from_slice(&(v as u32).to_le_bytes());
            prog[slot * 8 + 12..slot * 8 + 16].copy_from_slice(&((v >> 32) as u32).to_le_bytes());
        }
    }
}

// entry stack alignment probe: records (rsp & 15) at the helper's entry, then tail-jumps to h3
std::arch::global_asm!(
    ".global rbpf_harness_h3_probe",
    "rbpf_harness_h3_probe:",
    "mov rax, rsp",
    "and rax, 15",
    "mov qword ptr [rip + {slot}], rax",
    // a callee may leave anything in the caller-saved registers that carry no argument: make sure this one does
    "movabs r10, 0x5a5a5a5a5a5a5a5a",
    "mov r11, r10",
    "jmp {target}",
    slot = sym ALIGN_SLOT,
    target = sym h3,
);
extern "C" { fn rbpf_harness_h3_probe(a: u64, b: u64, c: u64, d: u64, e: u64) -> u64; }
#[no_mangle]
pub static mut ALIGN_SLOT: u64 = 0xff;
fn h3_probe_ptr() -> rbpf::ebpf::Helper { unsafe { std::mem::transmute(rbpf_harness_h3_probe as unsafe extern "C" fn(u64, u64, u64, u64, u64) -> u64) } }

fn helper_direct(i: usize) -> rbpf::ebpf::Helper { if i % 4 == 3 { h3_probe_ptr() } else { HELPERS[i % 4] } }

/// helper functions at low addresses: selectors 4..7 reach function i % 4 through a trampoline (`movabs rax, f; jmp rax`) mapped at
/// 0x9000_0000 (between 2 and 4 GiB: an address that fits 32 bits unsigned but not signed), selectors 8..11 through one at 0xffff_e000
/// (just under 4 GiB).  rax carries no argument and rsp is untouched, so the callee sees exactly the call the program made.  If the
/// pages cannot be mapped the direct function is used (the address actually used is echoed to the model either way).
fn helper_fn(i: usize) -> rbpf::ebpf::Helper {
    static TRAMP: std::sync::OnceLock<[usize; 8]> = std::sync::OnceLock::new();
    if i % 12 < 4 { return helper_direct(i); }
    let t = TRAMP.get_or_init(|| {
        let mut out = [0usize; 8];
        for (b, base) in [0x9000_0000usize, 0xffff_e000].iter().enumerate() {
            let p = unsafe { libc::mmap(*base as *mut libc::c_void, 4096, libc::PROT_READ | libc::PROT_WRITE | libc::PROT_EXEC,
                libc::MAP_PRIVATE | libc::MAP_ANONYMOUS | libc::MAP_FIXED_NOREPLACE, -1, 0) };
            if p == libc::MAP_FAILED || p as usize != *base { continue; }
            for k in 0..4usize {
                let target = helper_direct(k) as usize as u64;
                let mut code = vec![0x48u8, 0xb8]; code.extend_from_slice(&target.to_le_bytes()); code.extend_from_slice(&[0xff, 0xe0]);
                unsafe { std::ptr::copy_nonoverlapping(code.as_ptr(), (*base + 16 * k) as *mut u8, code.len()); }
                out[4 * b + k] = *base + 16 * k;
            }
        }
        out
    });
    let a = t[(i % 12) - 4];
    if a == 0 { helper_direct(i) } else { unsafe { std::mem::transmute::<usize, rbpf::ebpf::Helper>(a) } }
}

fn log_digest() -> (usize, u64) {
    let log_bytes: Vec<u8> = HLOG.with(|l| l.borrow().iter().flat_map(|(n, a)| {
        let mut v = n.to_le_bytes().to_vec(); for x in a { v.extend_from_slice(&x.to_le_bytes()); } v }).collect());
    (HLOG.with(|l| l.borrow().len()), fnv(&log_bytes))
}

/// run `f` in a forked child and return what it printed, or `sig:<n>` / `exit:<n>` when it died
fn forked(f: impl FnOnce() -> String) -> String {
    use std::io::Read;
    use std::os::unix::io::FromRawFd;
    let mut fds = [0i32; 2];
    unsafe {
        if libc::pipe(fds.as_mut_ptr()) != 0 { return "fork-error".into(); }
        let _ = std::io::Write::flush(&mut std::io::stdout());
        let pid = libc::fork();
        if pid < 0 { return "fork-error".into(); }
        if pid == 0 {
            libc::close(fds[0]);
            let out = match std::panic::catch_unwind(std::panic::AssertUnwindSafe(f)) { Ok(s) => s, Err(_) => "panic".to_string() };
            libc::write(fds[1], out.as_ptr() as *const libc::c_void, out.len());
            libc::_exit(0);
        }
        libc::close(fds[1]);
        let mut file = std::fs::File::from_raw_fd(fds[0]);
        let mut s = String::new();
        let _ = file.read_to_string(&mut s);
        let mut status: i32 = 0;
        libc::waitpid(pid, &mut status, 0);
        if libc::WIFSIGNALED(status) { return format!("sig:{}", libc::WTERMSIG(status)); }
        if libc::WIFEXITED(status) && libc::WEXITSTATUS(status) != 0 { return format!("exit:{}", libc::WEXITSTATUS(status)); }
        if s.is_empty() { "empty".into() } else { s }
    }
}

/// generated code that does not return: 400 ms of CPU time (not wall-clock time: a child that is merely not scheduled on a loaded
/// machine must not be mistaken for an endless loop), with a 20 s wall-clock backstop
fn arm_timers() { unsafe {
    let cpu = libc::itimerval { it_interval: libc::timeval { tv_sec: 0, tv_usec: 0 }, it_value: libc::timeval { tv_sec: 0, tv_usec: 400_000 } };
    libc::setitimer(libc::ITIMER_PROF, &cpu, std::ptr::null_mut());
    let wall = libc::itimerval { it_interval: libc::timeval { tv_sec: 0, tv_usec: 0 }, it_value: libc::timeval { tv_sec: 20, tv_usec: 0 } };
    libc::setitimer(libc::ITIMER_REAL, &wall, std::ptr::null_mut());
} }
fn disarm_timers() { unsafe {
    let z = libc::itimerval { it_interval: libc::timeval { tv_sec: 0, tv_usec: 0 }, it_value: libc::timeval { tv_sec: 0, tv_usec: 0 } };
    libc::setitimer(libc::ITIMER_PROF, &z, std::ptr::null_mut()); libc::setitimer(libc::ITIMER_REAL, &z, std::ptr::null_mut());
} }

enum Vm<'a> { Mbuff(rbpf::EbpfVmMbuff<'a>), Raw(rbpf::EbpfVmRaw<'a>), NoData(rbpf::EbpfVmNoData<'a>), Fixed(rbpf::EbpfVmFixedMbuff<'a>) }

macro_rules! each_vm { ($vm:expr, $v:ident => $e:expr) => { match $vm { Vm::Mbuff($v) => $e, Vm::Raw($v) => $e, Vm::NoData($v) => $e, Vm::Fixed($v) => $e } } }

pub fn run(t: &[&str]) -> String {
    let Some(c) = parse(t) else { return "bad-op".into() };
    let mut kv: HashMap<&str, &str> = HashMap::new();
    for tok in &t[1..] { if let Some((k, v)) = tok.split_once('=') { kv.insert(k, v); } }
    let kind = kv.get("kind").copied().unwrap_or("mbuff").to_string();
    let norun = kv.get("norun").is_some();
    let anyprog = kv.get("anyprog").is_some();
    let force: Vec<String> = kv.get("force").map(|s| s.split(',').map(|x| x.to_string()).collect()).unwrap_or_default();
    let engines: Vec<String> = kv.get("engines").map(|s| s.split(',').filter(|x| !x.is_empty() && *x != "-").map(|x| x.to_string()).collect()).unwrap_or_default();
    // `again=L`: every execution (interpreter, each engine) is followed by a second one on the same VM and the same buffer with the
    // packet cut to its first L bytes (C09: successive executions with different packets)
    let again: Option<usize> = kv.get("again").and_then(|s| s.parse().ok());
    let fixoff: (usize, usize) = kv.get("fixoff").and_then(|s| s.split_once(':')).map(|(a, b)| (a.parse().unwrap_or(0), b.parse().unwrap_or(8))).unwrap_or((0, 8));
    let mut extrabase: Vec<u64> = c.extra.iter().map(|e| e.as_ptr() as u64).collect();
    // one pristine copy of the buffers per run (interpreter, then each engine)
    let mem0 = c.mem.clone(); let mbuff0 = c.mbuff.clone();
    let mut mem = c.mem.clone(); let mut mbuff = c.mbuff.clone();
    // `contig=1` (interpreter-only cases that only load): the packet and the first extra buffer live in ONE allocation, 16 bytes apart, so
    // that a registered range lies at a known distance beyond the packet's end (reachable by LD_ABS / LD_IND, which address from the packet)
    let contig = kv.get("contig").is_some() && !c.extra.is_empty() && engines.is_empty();
    if contig { mem.extend(std::iter::repeat(0xEEu8).take(16)); mem.extend_from_slice(&c.extra[0]); }
    let membase = mem.as_ptr() as u64; let mbuffbase = mbuff.as_ptr() as u64;
    // `overlap=1` (load-only probes): the metadata buffer is the first bytes of the packet's own allocation (a header slice handed in as metadata)
    let overlap = kv.get("overlap").is_some() && engines.is_empty() && mbuff.len() <= mem.len();
    let mbuffbase = if overlap { membase } else { mbuffbase };
    if contig { extrabase[0] = membase + c.mem.len() as u64 + 16; }
    let mut prog = c.prog.clone();
    apply_patches(&mut prog, &c.patch, membase, mbuffbase, &extrabase);
    let probe: Vec<u8> = vec![0xbf, 0x10, 0, 0, 0, 0, 0, 0, 0x95, 0, 0, 0, 0, 0, 0, 0]; // mov r0, r1; exit
    HLOG.with(|l| l.borrow_mut().clear());
    let progref: &[u8] = &prog; let proberef: &[u8] = &probe;
    let cref = &c; let ebref = &extrabase;
    let mem_ptr = mem.as_mut_ptr(); let mem_len = if contig { c.mem.len() } else { mem.len() };
    let mbuff_ptr = if overlap { mem.as_mut_ptr() } else { mbuff.as_mut_ptr() }; let mbuff_len = mbuff.len();
    let kindr = kind.as_str();
    let mut fixedbase: u64 = 0;
    let mut engine_out: Vec<String> = vec![];
    let fixedbase_ref = &mut fixedbase; let engine_out_ref = &mut engine_out;
    let res = std::panic::catch_unwind(std::panic::AssertUnwindSafe(move || -> Result<String, String> {
        let es = |e: std::io::Error| e.to_string();
        // build the VM of the requested kind on the program (the fixed-metadata VM first runs a probe to learn its buffer address)
        let mut vm = match kindr {
            "raw" => match rbpf::EbpfVmRaw::new(Some(progref)) { Ok(v) => Vm::Raw(v), Err(_) => return Ok("rejected".into()) },
            "nodata" => match rbpf::EbpfVmNoData::new(Some(progref)) { Ok(v) => Vm::NoData(v), Err(_) => return Ok("rejected".into()) },
            // ctor=1: the program is loaded by the constructor alone, so the offsets the constructor stores are the ones executed (the buffer address
            // stays unknown: only programs that do not reveal r1 are sent this way; the model is given a placeholder base no other region can overlap)
            "fixed" if kv.get("ctor").map(|s| &s[..]) == Some("1") => match rbpf::EbpfVmFixedMbuff::new(Some(progref), fixoff.0, fixoff.1) {
                Ok(v) => { *fixedbase_ref = 0x1000; Vm::Fixed(v) }, Err(_) => return Ok("rejected".into()) },
            "fixed" => {
                let mut v = rbpf::EbpfVmFixedMbuff::new(Some(proberef), fixoff.0, fixoff.1).map_err(es)?;
                let mut scratch = vec![0u8; 8];
                let sref: &mut [u8] = unsafe { std::slice::from_raw_parts_mut(scratch.as_mut_ptr(), 8) };
                *fixedbase_ref = v.execute_program(sref).map_err(es)?;
                if v.set_program(progref, fixoff.0, fixoff.1).is_err() { return Ok("rejected".into()); }
                Vm::Fixed(v)
            }
            _ if anyprog => {
                // arbitrary byte strings: loaded through an accept-all verifier, never executed, only compiled
                fn accept_all(_p: &[u8]) -> Result<(), std::io::Error> { Ok(()) }
                let mut v = rbpf::EbpfVmMbuff::new(None).map_err(es)?;
                v.set_verifier(accept_all).map_err(es)?;
                match std::panic::catch_unwind(std::panic::AssertUnwindSafe(|| v.set_program(progref))) { Ok(Ok(())) => {}, Ok(Err(_)) => return Ok("rejected".into()), Err(_) => return Ok("load-panic".into()) }
                Vm::Mbuff(v)
            }
            _ => match rbpf::EbpfVmMbuff::new(Some(progref)) { Ok(v) => Vm::Mbuff(v), Err(_) => return Ok("rejected".into()) },
        };
        for (k, f) in &cref.helpers { each_vm!(&mut vm, v => v.register_helper(*k, helper_fn(*f)).map_err(es)?); }
        if let Some(tb) = cref.calc.clone() { each_vm!(&mut vm, v => v.set_stack_usage_calculator(calc, Box::new(tb)).map_err(es)?); }
        for (i, lo, hi) in &cref.arange {
            let b = ebref[*i];
            each_vm!(&mut vm, v => v.register_allowed_memory(b.wrapping_add(*lo as u64)..b.wrapping_add(*hi as u64)));
        }
        rbpf::verif::set_insn_budget(cref.budget);
        let memr: &mut [u8] = unsafe { std::slice::from_raw_parts_mut(mem_ptr, mem_len) };
        let mbuffr: &[u8] = unsafe { std::slice::from_raw_parts(mbuff_ptr, mbuff_len) };
        let r = if anyprog { Err(std::io::Error::other("not executed")) } else { match &mut vm {
            Vm::Mbuff(v) => v.execute_program(memr, mbuffr),
            Vm::Raw(v) => v.execute_program(memr),
            Vm::NoData(v) => v.execute_program(),
            Vm::Fixed(v) => v.execute_program(memr),
        } };
        rbpf::verif::set_insn_budget(0);
        let out = if anyprog { "noexec".to_string() } else { match r { Ok(v) => format!("ok r0={:016x}", v), Err(e) => { let cl = err_class(&e.to_string()); if cl == "budget" { "budget".to_string() } else { format!("err:{}", cl) } } } };
        let interp_ok = out.starts_with("ok");
        let (nlog, logd) = log_digest();
        let (mview, bview): (&[u8], &[u8]) = unsafe { (std::slice::from_raw_parts(mem_ptr, mem_len), std::slice::from_raw_parts(mbuff_ptr, mbuff_len)) };
        let first = format!("{} mem={:016x} mbuff={:016x} LOG={}:{:016x}", out, fnv(mview), fnv(bview), nlog, logd);
        if let Some(l2) = again { if !anyprog && l2 <= mem_len {
            rbpf::verif::set_insn_budget(cref.budget);
            let memr2: &mut [u8] = unsafe { std::slice::from_raw_parts_mut(mem_ptr, l2) };
            let r2 = match &mut vm {
                Vm::Mbuff(v) => v.execute_program(memr2, mbuffr),
                Vm::Raw(v) => v.execute_program(memr2),
                Vm::NoData(v) => v.execute_program(),
                Vm::Fixed(v) => v.execute_program(memr2),
            };
            rbpf::verif::set_insn_budget(0);
            engine_out_ref.push(format!("again={}", match r2 { Ok(v) => format!("ok:r0={:016x}", v), Err(e) => { let cl = err_class(&e.to_string()); if cl == "budget" { "budget".to_string() } else { format!("err:{}", cl) } } }));
        } }
        // engines, each on pristine buffers
        for e in &engines {
            let mut m2 = mem0.clone(); let mut b2 = mbuff0.clone();
            // patched addresses refer to the first buffers: engines that need patches run on those (restored) buffers instead
            let (m2p, m2l, b2p, b2l) = if cref.patch.is_empty() { (m2.as_mut_ptr(), m2.len(), b2.as_mut_ptr(), b2.len()) } else {
                unsafe { std::ptr::copy_nonoverlapping(mem0.as_ptr(), mem_ptr, mem_len); std::ptr::copy_nonoverlapping(mbuff0.as_ptr(), mbuff_ptr, mbuff_len); }
                (mem_ptr, mem_len, mbuff_ptr, mbuff_len) };
            HLOG.with(|l| l.borrow_mut().clear());
            unsafe { ALIGN_SLOT = 0xff; }
            let mut compile = |vm: &mut Vm| -> Result<Result<(), std::io::Error>, ()> {
                std::panic::catch_unwind(std::panic::AssertUnwindSafe(|| match (e.as_str(), vm) {
                    ("jit", Vm::Mbuff(v)) => v.jit_compile(), ("jit", Vm::Raw(v)) => v.jit_compile(), ("jit", Vm::NoData(v)) => v.jit_compile(), ("jit", Vm::Fixed(v)) => v.jit_compile(),
                    ("clif", Vm::Mbuff(v)) => v.cranelift_compile(), ("clif", Vm::Raw(v)) => v.cranelift_compile(), ("clif", Vm::NoData(v)) => v.cranelift_compile(), ("clif", Vm::Fixed(v)) => v.cranelift_compile(),
                    _ => Err(std::io::Error::other("unknown engine")),
                })).map_err(|_| ())
            };
            let code_of = |vm: &Vm| -> Option<Vec<u8>> { if e != "jit" { return None; } match vm { Vm::Mbuff(v) => v.verif_jit_code(), Vm::Raw(v) => v.verif_jit_code(), Vm::NoData(v) => v.verif_jit_code(), Vm::Fixed(v) => v.verif_jit_code() }.map(|c| c.to_vec()) };
            let c1 = compile(&mut vm);
            let code1 = code_of(&vm);
            let c2 = compile(&mut vm);
            let code2 = code_of(&vm);
            let st = |c: &Result<Result<(), std::io::Error>, ()>| match c { Err(()) => "compile-panic", Ok(Err(_)) => "compile-err", Ok(Ok(())) => "ok" };
            if st(&c1) != st(&c2) || code1 != code2 { engine_out_ref.push(format!("{}=nonrepeatable:{}:{}", e, st(&c1), st(&c2))); continue; }
            if st(&c1) != "ok" { engine_out_ref.push(format!("{}={}", e, st(&c1))); continue; }
            if e == "clif" {
                let ir = match &vm { Vm::Mbuff(v) => v.verif_clif_ir(), Vm::Raw(v) => v.verif_clif_ir(), Vm::NoData(v) => v.verif_clif_ir(), Vm::Fixed(v) => v.verif_clif_ir() };
                if let Some(ir) = ir { let (n, d) = crate::clifir::digest(ir); engine_out_ref.push(format!("clifir={}.{:016x}", n, d)); }
            }
            let code_info = match &code1 { Some(c) => format!(":code={}.{:016x}", c.len(), fnv(c)), None => String::new() };
            if let Some(c) = &code1 { engine_out_ref.push(format!("jitcode={}.{:016x}", c.len(), fnv(c)));
                let sz = match &vm { Vm::Mbuff(v) => v.verif_jit_sizing(), Vm::Raw(v) => v.verif_jit_sizing(), Vm::NoData(v) => v.verif_jit_sizing(), Vm::Fixed(v) => v.verif_jit_sizing() };
                if let Some((p1, buf)) = sz { engine_out_ref.push(format!("jitsizing={}.{}", p1, buf)); } }
            if (!interp_ok && !force.contains(e)) || norun { engine_out_ref.push(format!("{}=compiled{}", e, code_info)); continue; }   // outside the claim: never run unchecked code
            // run the generated code in a forked child: a fault, trap or endless loop must not take the harness down
            // `second`: execute twice (full packet, then the packet cut to `again` bytes) and report the second execution only.  Each
            // child starts from the parent's VM, which never runs compiled code itself.
            let mut run_child = |vm: &mut Vm, second: Option<usize>| -> String { let e = e.clone(); forked(move || {
                let m2r: &mut [u8] = unsafe { std::slice::from_raw_parts_mut(m2p, m2l) };
                let b2r: &mut [u8] = unsafe { std::slice::from_raw_parts_mut(b2p, b2l) };
                arm_timers();
                let r = unsafe { match (e.as_str(), &mut *vm) {
                    ("jit", Vm::Mbuff(v)) => v.execute_program_jit(m2r, b2r), ("jit", Vm::Raw(v)) => v.execute_program_jit(m2r), ("jit", Vm::NoData(v)) => v.execute_program_jit(), ("jit", Vm::Fixed(v)) => v.execute_program_jit(m2r),
                    ("clif", Vm::Mbuff(v)) => v.execute_program_cranelift(m2r, b2r), ("clif", Vm::Raw(v)) => v.execute_program_cranelift(m2r), ("clif", Vm::NoData(v)) => v.execute_program_cranelift(), ("clif", Vm::Fixed(v)) => v.execute_program_cranelift(m2r),
                    _ => unreachable!(),
                } };
                disarm_timers();
                match second {
                    None => {
                        let (nlog, logd) = log_digest();
                        let al = unsafe { ALIGN_SLOT };
                        let (mview, bview): (&[u8], &[u8]) = unsafe { (std::slice::from_raw_parts(m2p, m2l), std::slice::from_raw_parts(b2p, b2l)) };
                        match r { Ok(v) => format!("ok:r0={:016x}:mem={:016x}:mbuff={:016x}:LOG={}:{:016x}:align={:x}", v, fnv(mview), fnv(bview), nlog, logd, al), Err(_) => "err".to_string() }
                    }
                    Some(l2) => {
                        let m3r: &mut [u8] = unsafe { std::slice::from_raw_parts_mut(m2p, l2) };
                        arm_timers();
                        let r2 = unsafe { match (e.as_str(), &mut *vm) {
                            ("jit", Vm::Mbuff(v)) => v.execute_program_jit(m3r, b2r), ("jit", Vm::Raw(v)) => v.execute_program_jit(m3r), ("jit", Vm::NoData(v)) => v.execute_program_jit(), ("jit", Vm::Fixed(v)) => v.execute_program_jit(m3r),
                            ("clif", Vm::Mbuff(v)) => v.execute_program_cranelift(m3r, b2r), ("clif", Vm::Raw(v)) => v.execute_program_cranelift(m3r), ("clif", Vm::NoData(v)) => v.execute_program_cranelift(), ("clif", Vm::Fixed(v)) => v.execute_program_cranelift(m3r),
                            _ => unreachable!(),
                        } };
                        disarm_timers();
                        match r2 { Ok(v) => format!("ok:r0={:016x}", v), Err(_) => "err".to_string() }
                    }
                }
            }) };
            let res = run_child(&mut vm, None);
            engine_out_ref.push(format!("{}={}{}", e, res, if res.starts_with("ok") { String::new() } else { code_info.clone() }));
            if let Some(l2) = again { if l2 <= m2l && res.starts_with("ok") { let r2 = run_child(&mut vm, Some(l2)); engine_out_ref.push(format!("{}2={}", e, r2)); } }
        }
        Ok(first)
    }));
    let stackbase = rbpf::verif::last_stack_base();
    let out = match res { Ok(Ok(s)) => s, Ok(Err(e)) => format!("setup-error:{}", e.replace(' ', "_")), Err(_) => "panic".to_string() };
    let mut extra_all: Vec<u8> = vec![];
    for e in &c.extra { extra_all.extend_from_slice(e); }
    // canonical outcome: "<outcome> mem= mbuff= extra= log=" (extra appended here: engines never see allowed memory)
    let out = if out.contains(" LOG=") { let (a, b) = out.split_once(" LOG=").unwrap(); format!("{} extra={:016x} log={}", a, fnv(&extra_all), b) } else { out };
    let eng = if engine_out.is_empty() { String::new() } else { format!(" | {}", engine_out.join(" | ")) };
    format!("{}{} @ membase={:x} mbuffbase={:x} extrabase={} stackbase={:x} fixedbase={:x} hfn={:x},{:x},{:x},{:x}", out, eng, membase, mbuffbase,
        if extrabase.is_empty() { "-".to_string() } else { extrabase.iter().map(|x| format!("{:x}", x)).collect::<Vec<_>>().join(",") }, stackbase, fixedbase,
        helper_fn(0) as usize, helper_fn(1) as usize, helper_fn(2) as usize, helper_fn(3) as usize)
        + &(4..12).map(|k| format!(",{:x}", helper_fn(k) as usize)).collect::<String>()
}

// ------------------------------------------------------------------------------------------------
// generators
use crate::progen::*;
use std::io::Write;

fn line(w: &mut impl Write, suite: &str, prog: &[u8], mem: &[u8], mbuff: &[u8], rest: &str) {
    writeln!(w, "exec tag={} prog={} mem={} mbuff={} {}", suite, hex(prog), hex(mem), hex(mbuff), rest).unwrap();
}

fn pattern(n: usize, salt: u8) -> Vec<u8> { (0..n).map(|i| (i as u8).wrapping_mul(37).wrapping_add(salt) | 1).collect() }

/// C01 operation matrix: every ALU / jump / byte-swap / lddw opcode x register pairs x operand values
pub fn gen_matrix(w: &mut impl Write, thorough: bool, seed: u64) {
    let mut r = Rng::new(seed ^ 0xa11);
    let one = |w: &mut dyn FnMut(&[u8]), opc: u8, d: u8, s: u8, v1: u64, v2: u64, off: i16, imm: i32| {
        let mut p = vec![]; init_regs(&mut p);
        p.extend(lddw(d, v1));
        if s < 10 && s != d { p.extend(lddw(s, v2)); }
        if is_jump(opc) {
            p.extend(ins(opc, d, s, 1, imm));
            p.extend(ins(0x07, 9, 0, 0, 0x1111));     // skipped when the branch is taken
        } else { p.extend(ins(opc, d, s, off, imm)); }
        fold_exit(&mut p);
        w(&p);
    };
    let mut out = |p: &[u8]| { writeln!(w, "exec tag=matrix prog={} budget=200", hex(p)).unwrap(); };
    let nv = V64.len();
    for &opc in SUPPORTED {
        let alu = is_alu(opc); let jmp = is_jump(opc);
        if !(alu || jmp) { continue; }
        let is_reg = opc & 0x08 != 0 && opc != 0xdc;
        let imms: Vec<i32> = if opc == 0xd4 || opc == 0xdc { vec![16, 32, 64] } else { I32.to_vec() };
        // (1) all register pairs
        for d in 0..10u8 { for s in 0..11u8 {
            if !is_reg && s != 0 && s != d && !(thorough) { if s > 1 { continue; } }
            let reps = if thorough { 4 } else { 1 };
            for _ in 0..reps {
                let v1 = if r.chance(1, 2) { *r.pick(V64) } else { r.next() };
                let v2 = if r.chance(1, 2) { *r.pick(V64) } else { r.next() };
                one(&mut out, opc, d, s, v1, v2, 0, *r.pick(&imms));
            }
        } }
        // (2) fixed registers, all boundary operand pairs
        if is_reg { for i in 0..nv { for j in 0..nv { one(&mut out, opc, 3, 4, V64[i], V64[j], 0, 0); } }
                    for i in 0..nv { one(&mut out, opc, 5, 5, V64[i], 0, 0, 0); } }
        else { for i in 0..nv { for &imm in &imms { one(&mut out, opc, 3, 0, V64[i], 0, 0, imm); } } }
        // (3) random operands
        for _ in 0..(if thorough { 2000 } else { 150 }) {
            let imm = if r.chance(1, 3) { *r.pick(&imms) } else if opc == 0xd4 || opc == 0xdc { *r.pick(&imms) } else { r.next() as i32 };
            let (a, b) = (r.next(), if r.chance(1, 3) { r.next() & 0xff } else { r.next() });
            one(&mut out, opc, 1 + r.below(9) as u8, r.below(10) as u8, a, b, 0, imm);
        }
    }
    // lddw: every destination, boundary values
    for d in 0..10u8 { for &v in V64 { let mut p = vec![]; init_regs(&mut p); p.extend(lddw(d, v)); fold_exit(&mut p); out(&p); } }
    // jumps, taken/not taken x forward/backward: backward form jumps over a landing pad
    for &opc in SUPPORTED { if !is_jump(opc) || opc == 0x05 { continue; }
        for k in 0..(if thorough { 400 } else { 40 }) {
            let (v1, v2) = if k % 2 == 0 { let v = *r.pick(V64); (v, v) } else { (*r.pick(V64), *r.pick(V64)) };
            let imm = if k % 3 == 0 { v1 as i32 } else { *r.pick(I32) };
            // layout: init; lddw r3,v1; lddw r4,v2; ja +2; [pad: add r9, 0x777; ja +2]; jcc r3,r4/imm,-3 ; add r9,0x1111 ; fold
            let mut p = vec![]; init_regs(&mut p); p.extend(lddw(3, v1)); p.extend(lddw(4, v2));
            p.extend(ins(0x05, 0, 0, 2, 0));
            p.extend(ins(0x07, 9, 0, 0, 0x777)); p.extend(ins(0x05, 0, 0, 2, 0));
            p.extend(ins(opc, 3, 4, -3, imm));
            p.extend(ins(0x07, 9, 0, 0, 0x1111));
            fold_exit(&mut p); out(&p);
        }
    }
}

/// memory-instruction matrix: ldx/st/stx/xadd/ldabs/ldind x widths x registers x offsets, in bounds
pub fn gen_memops(w: &mut impl Write, thorough: bool, seed: u64) {
    let mut r = Rng::new(seed ^ 0x3e3);
    let mem = pattern(64, 3); let mbuff = pattern(32, 7);
    let widths: [(u8, u8, u8, usize); 4] = [(0x71, 0x72, 0x73, 1), (0x69, 0x6a, 0x6b, 2), (0x61, 0x62, 0x63, 4), (0x79, 0x7a, 0x7b, 8)];
    for (kind, mbl) in [(0usize, 0usize), (1, 32)] {
        let mb: &[u8] = if mbl > 0 { &mbuff } else { &[] };
        let rlen = if mbl > 0 { 32 } else { 64 };
        for &(ldx, st, stx, wd) in &widths {
            for base in 1..10u8 { for vreg in 0..10u8 {
                if !thorough && (base + vreg) % 3 != 0 && base != 6 { continue; }
                for _ in 0..(if thorough { 6 } else { 2 }) {
                    let off = r.below((rlen - wd + 1) as u64) as i16;
                    let v = if r.chance(1, 2) { *r.pick(V64) } else { r.next() };
                    // stx into the r1 region via `base`, read back with ldx into vreg2, plus stack traffic at the same width
                    let mut p = vec![]; init_regs(&mut p);
                    // r1 was overwritten by init_regs: re-derive the region pointer from an lddw patch
                    p.extend(lddw(base, 0)); let patch_slot = p.len() / 8 - 2;
                    if vreg != base { p.extend(lddw(vreg, v)); }
                    p.extend(ins(stx, base, vreg, off, 0));
                    p.extend(ins(st, 10, 0, -(8 + 8 * (off % 8)), v as i32));
                    let d2 = (vreg + 1) % 10; let d2 = if d2 == base { (d2 + 1) % 10 } else { d2 };
                    p.extend(ins(ldx, d2, base, off, 0));
                    p.extend(ins(ldx, 0, 10, -(8 + 8 * (off % 8)), 0));
                    p.extend(ins(0xb7, base, 0, 0, 0));      // drop the pointer before folding
                    fold_exit(&mut p);
                    writeln!(w, "exec tag=memops prog={} mem={} mbuff={} patch={}:{}:0 budget=300", hex(&p), hex(&mem), hex(mb), patch_slot, if kind == 1 { "mbuff" } else { "mem" }).unwrap();
                }
            } }
            // ldabs / ldind at every in-bounds offset (including the last `wd` bytes)
            let (labs, lind) = match wd { 1 => (0x30u8, 0x50u8), 2 => (0x28, 0x48), 4 => (0x20, 0x40), _ => (0x38, 0x58) };
            for off in 0..=(64 - wd) as i32 {
                let mut p = vec![]; init_regs(&mut p); p.extend(ins(labs, 0, 0, 0, off)); fold_exit(&mut p);
                line(w, "memops", &p, &mem, mb, "budget=300");
                for sreg in [1u8, 5, 9] {
                    let split = r.below(off as u64 + 1) as i32;
                    let mut p = vec![]; init_regs(&mut p); p.extend(lddw(sreg, split as u64)); p.extend(ins(lind, 0, sreg, 0, off - split)); fold_exit(&mut p);
                    line(w, "memops", &p, &mem, mb, "budget=300");
                }
            }
            // ldind with a "negative" register: wrapping address arithmetic
            for off in [0i32, 7, 56] { if off as usize + wd > 64 { continue; }
                let mut p = vec![]; init_regs(&mut p); p.extend(lddw(2, (-100i64) as u64)); p.extend(ins(lind, 0, 2, 0, off + 100)); fold_exit(&mut p);
                line(w, "memops", &p, &mem, mb, "budget=300");
            }
        }
        // xadd: both widths, aligned and misaligned, on stack and region
        for (opc, wd) in [(0xc3u8, 4usize), (0xdb, 8)] { for off in 0..24i16 { for vreg in [0u8, 3, 9] {
            let v = if r.chance(1, 2) { *r.pick(V64) } else { r.next() };
            let mut p = vec![]; init_regs(&mut p); p.extend(lddw(7, 0)); let ps = p.len() / 8 - 2; p.extend(lddw(vreg, v));
            p.extend(ins(opc, 7, vreg, off, 0)); p.extend(ins(opc, 7, vreg, off, 0));
            p.extend(ins(if wd == 4 { 0x61 } else { 0x79 }, 2, 7, off, 0));
            p.extend(ins(0x7b, 10, vreg, -16, 0)); p.extend(ins(opc, 10, vreg, -16 + (off % 9), 0)); p.extend(ins(0x79, 3, 10, -16, 0));
            p.extend(ins(0xb7, 7, 0, 0, 0)); fold_exit(&mut p);
            writeln!(w, "exec tag=memops prog={} mem={} mbuff={} patch={}:{}:0 budget=300", hex(&p), hex(&mem), hex(mb), ps, if kind == 1 { "mbuff" } else { "mem" }).unwrap();
        } } }
    }
    // displacement-encoding boundaries (disp8 / disp32 / none, and the rbp/r13 special case): every access instruction with
    // offsets around -129..-127, -1..1, 126..129, 255/256 from a pointer into the middle of a 600-byte packet (pattern not
    // 256-periodic), through base registers that map to rdi, rbx, r13, r15 and rbp(r10 is the stack: negative offsets only);
    // ldabs / ldind immediates around the same boundaries
    let big: Vec<u8> = (0..600usize).map(|i| ((i * 7 + i / 256 * 13 + 5) % 251) as u8 | 1).collect();
    let offs: [i16; 16] = [-256, -255, -130, -129, -128, -127, -1, 0, 1, 126, 127, 128, 129, 130, 255, 256];
    for &(ldx, st, stx, wd) in &widths { for base in [1u8, 6, 7, 9] { for &off in &offs { for vreg in [0u8, 3, 8] {
        if !thorough && (base as i16 + off + vreg as i16).rem_euclid(2) != 0 && !(126..=129).contains(&off) && !(-129..=-127).contains(&off) { continue; }
        let v = r.next();
        let mut p = vec![]; init_regs(&mut p);
        p.extend(lddw(base, 0)); let patch_slot = p.len() / 8 - 2;
        if vreg != base { p.extend(lddw(vreg, v)); }
        let d2 = (vreg + 1) % 10; let d2 = if d2 == base { (d2 + 1) % 10 } else { d2 };
        p.extend(ins(ldx, d2, base, off, 0));                    // load the original bytes
        p.extend(ins(stx, base, vreg, off, 0));                  // overwrite them from a register
        p.extend(ins(st, base, 0, off.wrapping_add(16), v as i32));   // and an immediate store 16 bytes further
        if wd >= 4 { p.extend(ins(if wd == 4 { 0xc3 } else { 0xdb }, base, vreg, off.wrapping_sub(8 * (wd as i16)) / (wd as i16) * (wd as i16), 0)); }
        p.extend(ins(0xb7, base, 0, 0, 0));
        fold_exit(&mut p);
        writeln!(w, "exec tag=memops prog={} mem={} mbuff=- patch={}:mem:304 budget=300", hex(&p), hex(&big), patch_slot).unwrap();
    } } } }
    for &(ldx, st, stx, wd) in &widths { for &off in &[-130i16, -129, -128, -127, -126, -8, -255, -256, -257, -512] { for vreg in [0u8, 4] {
        if (-off) < wd as i16 { continue; }
        let v = r.next();
        let mut p = vec![]; init_regs(&mut p); p.extend(lddw(vreg, v));
        p.extend(ins(stx, 10, vreg, off, 0)); p.extend(ins(ldx, 2, 10, off, 0));
        if off <= -24 { p.extend(ins(st, 10, 0, off + 16, v as i32)); p.extend(ins(ldx, 3, 10, off + 16, 0)); }
        fold_exit(&mut p);
        line(w, "memops", &p, &mem, &[], "budget=300");
    } } }
    for (wi, &(labs, lind)) in [(0x30u8, 0x50u8), (0x28, 0x48), (0x20, 0x40), (0x38, 0x58)].iter().enumerate() { let _ = wi;
        for imm in [126i32, 127, 128, 129, 130, 255, 256, 257, 500] {
            let mut p = vec![]; init_regs(&mut p); p.extend(ins(labs, 0, 0, 0, imm)); fold_exit(&mut p);
            line(w, "memops", &p, &big, &[], "budget=300");
            for sreg in [1u8, 7, 9] { for idx in [0u64, 3, 40] {
                let mut p = vec![]; init_regs(&mut p); p.extend(lddw(sreg, idx)); p.extend(ins(lind, 0, sreg, 0, imm)); fold_exit(&mut p);
                line(w, "memops", &p, &big, &[], "budget=300");
            } }
        }
    }
    // a packet larger than 64 KiB (pattern not periodic in 2^8, 2^15 or 2^16): absolute / indirect loads whose 32-bit immediate does not
    // fit 15 or 16 bits, and accesses at the ends of the 16-bit offset range from a pointer 32768 bytes into the packet
    let huge: Vec<u8> = (0..66_000usize).map(|i| ((i * 31 + i / 256 * 7 + i / 32768 * 101 + i / 65536 * 57 + 3) % 253) as u8 | 1).collect();
    for &(labs, lind) in &[(0x30u8, 0x50u8), (0x38, 0x58)] {
        for imm in [0x7ffei32, 0x7fff, 0x8000, 0x8001, 0xfffe, 0xffff, 0x1_0000, 0x1_0001, 0x1_0003, 65_990] {
            let mut p = vec![]; init_regs(&mut p); p.extend(ins(labs, 0, 0, 0, imm)); fold_exit(&mut p);
            line(w, "memops", &p, &huge, &[], "budget=300");
        }
        for imm in [0x7fffi32, 0x8000, 0xffff, 0x1_0000] { for idx in [3u64, 0x8000] {
            let mut p = vec![]; init_regs(&mut p); p.extend(lddw(7, idx)); p.extend(ins(lind, 0, 7, 0, imm)); fold_exit(&mut p);
            line(w, "memops", &p, &huge, &[], "budget=300");
        } }
    }
    for &(ldx, st, stx, _wd) in &widths { for &off in &[32767i16 - 8, -32768, 32000] {
        let v = r.next();
        let mut p = vec![]; init_regs(&mut p);
        p.extend(lddw(6, 0)); let patch_slot = p.len() / 8 - 2;
        p.extend(lddw(3, v));
        p.extend(ins(ldx, 4, 6, off, 0)); p.extend(ins(stx, 6, 3, off, 0)); p.extend(ins(ldx, 5, 6, off, 0));
        p.extend(ins(st, 6, 0, off.wrapping_add(if off < 0 { 16 } else { -16 }), v as i32));
        p.extend(ins(0xb7, 6, 0, 0, 0));
        fold_exit(&mut p);
        writeln!(w, "exec tag=memops prog={} mem={} mbuff=- patch={}:mem:32768 budget=300", hex(&p), hex(&huge), patch_slot).unwrap();
    } }
}

/// random structured programs on packet / metadata inputs, with helpers and local calls
pub fn gen_random(w: &mut impl Write, thorough: bool, seed: u64) {
    let mut r = Rng::new(seed ^ 0x7a7d);
    let n = if thorough { 400_000 } else { 25_000 };
    for i in 0..n {
        let mem_len = *r.pick(&[0usize, 8, 16, 64, 100]);
        let mbuff_len = if r.chance(1, 3) { *r.pick(&[8usize, 32]) } else { 0 };
        let hs: Vec<u32> = match r.below(4) { 0 => vec![], 1 => vec![1], 2 => vec![0, 0x7fff_ffff], _ => vec![2, 0xffff_ffff, 0x8000_0000] };
        let cfg = GenCfg { max_len: if i % 50 == 0 { 250 } else { 40 }, helpers: hs.clone(), mem_len, mbuff_len, calls: r.chance(1, 2), engine_safe: false };
        let p = random_program(&mut r, &cfg);
        let helpers = if hs.is_empty() { "-".to_string() } else { hs.iter().enumerate().map(|(k, h)| format!("{:x}:{}", h, k % 4)).collect::<Vec<_>>().join(",") };
        let mem = pattern(mem_len, i as u8); let mb = pattern(mbuff_len, (i >> 8) as u8);
        let calc = if r.chance(1, 4) { format!("{:x},{:x},{:x}", 8 * r.below(16), 16 * r.below(8), 8 * r.below(9)) } else { "-".to_string() };
        writeln!(w, "exec tag=random prog={} mem={} mbuff={} helpers={} calc={} budget=3000", hex(&p), hex(&mem), hex(&mb), helpers, calc).unwrap();
    }
}

/// branch targets at any distance: programs of 33 000, 66 000 (and in the thorough tier 999 999) instructions
pub fn gen_long(w: &mut impl Write, thorough: bool, seed: u64) {
    let mut r = Rng::new(seed ^ 0x10f6);
    let sizes: &[usize] = if thorough { &[33_000, 66_000, 140_000, 999_999] } else { &[33_000, 66_000] };
    for &n in sizes {
        // chain of forward jumps of stride 32767 through filler `add r0, 1`, a backward jump of -32768 near the end,
        // an lddw straddling the 2^15 and 2^16 boundaries, then exit
        let mut slots: Vec<[u8; 8]> = vec![ins(0x07, 0, 0, 0, 1); n];
        slots[0] = ins(0xb7, 0, 0, 0, 0);
        let mut pc = 1usize;
        while pc + 32768 + 2 < n - 40000.min(n / 2) { slots[pc] = ins(0x05, 0, 0, 32767, 0); pc += 32768; }
        // conditional forward jump (taken) with max offset
        if pc + 32768 + 2 < n { slots[pc] = ins(0xb7, 3, 0, 0, 5); slots[pc + 1] = ins(0x15, 3, 0, 32767, 5); pc += 2 + 32767; }
        let land = pc;            // execution continues here with filler
        // place a one-shot backward jump: at `land+40000`(if room) jump back -32768 guarded by r4
        if land + 33000 < n - 10 {
            let j = land + 32900;
            slots[land] = ins(0x07, 4, 0, 0, 1);                 // r4 += 1 (executed twice if the back jump is taken once)
            slots[j] = ins(0x15, 4, 0, 1, 2);                    // if r4 == 2 skip the back jump
            slots[j + 1] = ins(0x05, 0, 0, -((j + 2 - land) as i16), 0);
        }
        for b in [32767usize, 65535, 65536] { if b + 3 < n && slots[b][0] == 0x07 && slots[b + 1][0] == 0x07 {
            let v = r.next(); let l = lddw(5, v); slots[b].copy_from_slice(&l[0..8]); slots[b + 1].copy_from_slice(&l[8..16]); } }
        slots[n - 2] = ins(0x0f, 0, 5, 0, 0);
        slots[n - 1] = EXIT;
        let p: Vec<u8> = slots.iter().flatten().copied().collect();
        writeln!(w, "exec tag=long prog={} budget=2000000", hex(&p)).unwrap();
        // same shape but ending in `ja` back to an exit placed mid-program (last instruction = ja)
        let mut s2 = slots.clone(); s2[n - 1] = ins(0x05, 0, 0, -3, 0); s2[n - 3] = EXIT;
        let p: Vec<u8> = s2.iter().flatten().copied().collect();
        writeln!(w, "exec tag=long prog={} budget=2000000", hex(&p)).unwrap();
    }
}

/// C07: call graphs of depth 0..9, forward and backward displacements, bounded recursion,
/// callee-saved registers and frame pointer observed before / inside / after calls, stack-usage
/// calculators (absent, constant, per-entry table).
pub fn gen_calls(w: &mut impl Write, thorough: bool, seed: u64) {
    let mut r = Rng::new(seed ^ 0xca11);
    // call sites beyond instruction 65535 (return addresses that do not fit 16 bits) and callees more than 32768 instructions away:
    //   [0] ja -> S   [1..] trap area: (mov r0,0xbad; exit) pairs, then filler   [S] call f; add r0,1; exit   f: mov r0,41; exit
    //   and the far-callee form: [0] mov r0,1; [1] call +D; [2] add r0,2; [3] exit; filler …; [2+D] add r0,40; exit
    for &site in &[65_534usize, 65_535, 65_536, 70_001] {
        let mut s: Vec<[u8; 8]> = vec![ins(0x05, 0, 0, 0, 0)];
        while s.len() + 1 < 200 { s.push(ins(0xb7, 0, 0, 0, 0xbad)); s.push(EXIT); }
        while s.len() < site { s.push(ins(0xb7, 0, 0, 0, 0x5a5)); }
        s.push(ins(0x85, 0, 1, 0, 2)); s.push(ins(0x07, 0, 0, 0, 1)); s.push(EXIT); s.push(ins(0xb7, 0, 0, 0, 41)); s.push(EXIT);
        s[0] = ins(0x05, 0, 0, 0, 0); let p0: Vec<u8> = { let mut v = s.clone(); v[0] = ins(0x05, 0, 0, 0, 0); v.iter().flatten().copied().collect() }; let _ = p0;
        // `ja` reaches at most +32767: chain two jumps through a relay in the filler
        let relay = 32_000usize; s[relay] = ins(0x05, 0, 0, 0, 0);
        let mut q = s.clone();
        q[0] = ins(0x05, 0, 0, (relay - 1) as i16, 0);
        // second hop: from relay to another relay or to the site
        let mut at = relay; let mut hops = vec![];
        while site - at - 1 > 32_767 { let nxt = at + 32_000; hops.push((at, nxt)); at = nxt; }
        hops.push((at, site));
        for (from, to) in hops { q[from] = ins(0x05, 0, 0, (to - from - 1) as i16, 0); }
        writeln!(w, "exec tag=calls prog={} calc=- budget=200", hex(&q.iter().flatten().copied().collect::<Vec<u8>>())).unwrap();
    }
    for &d in &[32_768i32, 40_000, 65_536] {
        let mut s: Vec<[u8; 8]> = vec![ins(0xb7, 0, 0, 0, 1), ins(0x85, 0, 1, 0, d), ins(0x07, 0, 0, 0, 2), EXIT];
        while s.len() < (2 + d) as usize { s.push(ins(0xb7, 0, 0, 0, 0x5a5)); }
        s.push(ins(0x07, 0, 0, 0, 40)); s.push(EXIT);
        writeln!(w, "exec tag=calls prog={} calc=- budget=200", hex(&s.iter().flatten().copied().collect::<Vec<u8>>())).unwrap();
        // and the backward form: the callee first, the caller far behind it
        let mut s: Vec<[u8; 8]> = vec![ins(0x05, 0, 0, 0, 0), ins(0x07, 0, 0, 0, 40), EXIT];
        let caller = (2 + d) as usize;
        while s.len() < caller { s.push(ins(0xb7, 0, 0, 0, 0x5a5)); }
        s.push(ins(0xb7, 0, 0, 0, 1)); s.push(ins(0x85, 0, 1, 0, 1 - (caller as i32 + 2))); s.push(ins(0x07, 0, 0, 0, 2)); s.push(EXIT);
        // reach the caller by relays of at most 32767
        let mut at = 0usize; while caller - at - 1 > 32_767 { let nxt = at + 32_000; s[at] = ins(0x05, 0, 0, (nxt - at - 1) as i16, 0); at = nxt; }
        s[at] = ins(0x05, 0, 0, (caller - at - 1) as i16, 0);
        writeln!(w, "exec tag=calls prog={} calc=- budget=200", hex(&s.iter().flatten().copied().collect::<Vec<u8>>())).unwrap();
    }
    // callee and call site at the edges of the program: a one-instruction function (`exit`) that is the LAST instruction, one that is
    // the second instruction (after `ja main`), a two-instruction function ending the program, the call as first / penultimate
    // instruction, calls from a callee to the last instruction; k extra dead instructions after the callee move it off the edge
    for k in 0..3usize { for calc in ["-", "40"] {
        let dead = |v: &mut Vec<[u8; 8]>| { for _ in 0..k { v.push(ins(0xb7, 0, 0, 0, 0x666)); } if k > 0 { v.push(EXIT); } };
        // (a) mov r0,7; call f; exit; f: exit
        let mut s = vec![ins(0xb7, 0, 0, 0, 7), ins(0x85, 0, 1, 0, 1), EXIT, EXIT]; dead(&mut s);
        writeln!(w, "exec tag=calls prog={} calc={} budget=200", hex(&s.iter().flatten().copied().collect::<Vec<u8>>()), calc).unwrap();
        // (b) call f (first instruction); exit; f: mov r0,0x42; exit
        let mut s = vec![ins(0x85, 0, 1, 0, 1), EXIT, ins(0xb7, 0, 0, 0, 0x42), EXIT]; dead(&mut s);
        writeln!(w, "exec tag=calls prog={} calc={} budget=200", hex(&s.iter().flatten().copied().collect::<Vec<u8>>()), calc).unwrap();
        // (c) ja main; f: exit; main: mov r0,9; call f (backward, to slot 1); exit
        let mut s = vec![ins(0x05, 0, 0, 1, 0), EXIT, ins(0xb7, 0, 0, 0, 9), ins(0x85, 0, 1, 0, -3), EXIT]; dead(&mut s);
        writeln!(w, "exec tag=calls prog={} calc={} budget=200", hex(&s.iter().flatten().copied().collect::<Vec<u8>>()), calc).unwrap();
        // (d) mov r0,1; call f; exit; f: add r0,2; call g; exit; g: exit      (nested: the inner callee is the last instruction)
        let mut s = vec![ins(0xb7, 0, 0, 0, 1), ins(0x85, 0, 1, 0, 1), EXIT, ins(0x07, 0, 0, 0, 2), ins(0x85, 0, 1, 0, 1), EXIT, EXIT]; dead(&mut s);
        writeln!(w, "exec tag=calls prog={} calc={} budget=200", hex(&s.iter().flatten().copied().collect::<Vec<u8>>()), calc).unwrap();
    } }
    let n = if thorough { 60_000 } else { 6_000 };
    for i in 0..n {
        let depth = (i % 10) as usize;              // number of nested functions
        let backward = (i / 10) % 2 == 1;           // functions placed before main
        let calc = match (i / 20) % 4 { 0 => "-".to_string(), 1 => format!("{:x}", 8 * r.below(40)),
            2 => (0..7).map(|_| format!("{:x}", 8 * r.below(20))).collect::<Vec<_>>().join(","),
            _ => (0..5).map(|_| format!("{:x}", r.below(600))).collect::<Vec<_>>().join(",") };
        let touch_stack = r.chance(3, 4);
        // function k (1-based): clobber r6..r9, store marker, (call next), reload marker, r0 += marker + (saved r10 - r10), exit
        let mut funcs: Vec<Vec<[u8; 8]>> = vec![];
        for k in 1..=depth {
            let mut f: Vec<[u8; 8]> = vec![];
            f.push(ins(0x0f, 0, 1, 0, 0));                         // r0 += r1  (arguments pass through)
            f.push(ins(0xbf, 2, 10, 0, 0));                        // r2 = r10 (callee's)
            f.push(ins(0x1f, 3, 2, 0, 0));                         // r3 -= r2 : r3 was the caller's r10 -> frame distance
            f.push(ins(0x0f, 0, 3, 0, 0));                         // r0 += distance
            f.push(ins(0x27, 0, 0, 0, 7));
            for q in 6..10u8 { f.push(ins(0xb7, q, 0, 0, (k as i32) * 100 + q as i32)); }   // clobber r6..r9
            if touch_stack { f.push(ins(0x7a, 10, 0, -8, 0x5000 + k as i32)); }
            if k < depth { f.push(ins(0xbf, 3, 10, 0, 0)); f.push(ins(0xb7, 1, 0, 0, k as i32)); f.push(ins(0x85, 0, 1, 0, 0)); }
            // after the call r6..r9 must be this function's values
            for q in 6..10u8 { f.push(ins(0x0f, 0, q, 0, 0)); }
            if touch_stack { f.push(ins(0x79, 4, 10, -8, 0)); f.push(ins(0x0f, 0, 4, 0, 0)); }
            f.push(EXIT);
            funcs.push(f);
        }
        let mut main: Vec<[u8; 8]> = vec![];
        for q in 6..10u8 { main.push(ins(0xb7, q, 0, 0, 0x1000 + q as i32)); }
        main.push(ins(0xb7, 0, 0, 0, 1)); main.push(ins(0xb7, 1, 0, 0, 0x33)); main.push(ins(0xb7, 2, 0, 0, 0)); main.push(ins(0xb7, 4, 0, 0, 0));
        main.push(ins(0xbf, 5, 10, 0, 0)); main.push(ins(0xbf, 3, 10, 0, 0));
        if touch_stack { main.push(ins(0x7a, 10, 0, -8, 0x4fff)); }
        if depth > 0 { main.push(ins(0x85, 0, 1, 0, 0)); }
        for q in 6..10u8 { main.push(ins(0x27, 0, 0, 0, 3)); main.push(ins(0x0f, 0, q, 0, 0)); }
        main.push(ins(0x1f, 5, 10, 0, 0)); main.push(ins(0x27, 0, 0, 0, 3)); main.push(ins(0x0f, 0, 5, 0, 0));   // r10 restored => r5 = 0
        if touch_stack { main.push(ins(0x79, 4, 10, -8, 0)); main.push(ins(0x0f, 0, 4, 0, 0)); }
        main.push(EXIT);
        // layout
        let mut slots: Vec<[u8; 8]> = vec![];
        let mut fstart = vec![0usize; depth + 1];
        let main_start;
        if backward {
            slots.push(ins(0x05, 0, 0, 0, 0));    // ja main (patched)
            for k in (1..=depth).rev() { fstart[k] = slots.len(); slots.extend(funcs[k - 1].iter()); }
            main_start = slots.len(); slots.extend(main.iter());
            slots[0] = ins(0x05, 0, 0, (main_start - 1) as i16, 0);
            // the last slot must be exit or ja: it is main's exit
        } else {
            main_start = 0; slots.extend(main.iter());
            for k in 1..=depth { fstart[k] = slots.len(); slots.extend(funcs[k - 1].iter()); }
        }
        // patch call displacements: each `call` slot with src=1 and imm=0, in order of nesting
        let mut patch_call = |from_lo: usize, from_hi: usize, target: usize, slots: &mut Vec<[u8; 8]>| {
            for s in from_lo..from_hi { if slots[s][0] == 0x85 && slots[s][1] == 0x10 { let d = target as i64 - (s as i64 + 1); slots[s][4..8].copy_from_slice(&(d as i32).to_le_bytes()); } }
        };
        if depth > 0 { patch_call(main_start, main_start + main.len(), fstart[1], &mut slots); }
        for k in 1..depth { patch_call(fstart[k], fstart[k] + funcs[k - 1].len(), fstart[k + 1], &mut slots); }
        let p: Vec<u8> = slots.iter().flatten().copied().collect();
        writeln!(w, "exec tag=calls prog={} calc={} budget=2000", hex(&p), calc).unwrap();
    }
    // bounded recursion to depth d (0..9): f(n) = n == 0 ? 1 : f(n-1) * 3 + r6-clobber ; backward self call
    for d in 0..=9i32 { for usage in ["-", "0", "40", "100", "8,10,18"] { for store in [false, true] {
        let mut s: Vec<[u8; 8]> = vec![];
        s.push(ins(0xb7, 1, 0, 0, d)); s.push(ins(0xb7, 6, 0, 0, 77)); s.push(ins(0x85, 0, 1, 0, 3)); // call f (at slot 6)
        s.push(ins(0x0f, 0, 6, 0, 0)); s.push(EXIT); s.push(ins(0xb7, 0, 0, 0, 0));                     // (dead filler at 5)
        // f at 6:
        s.push(ins(0xbf, 6, 1, 0, 0));                       // r6 = n (callee-saved: must survive the recursive call)
        if store { s.push(ins(0x7b, 10, 1, -8, 0)); } else { s.push(ins(0xbf, 2, 2, 0, 0)); }
        s.push(ins(0xb7, 0, 0, 0, 1));
        s.push(ins(0x15, 1, 0, 4, 0));                       // if n == 0 return 1
        s.push(ins(0x17, 1, 0, 0, 1));
        s.push(ins(0x85, 0, 1, 0, -6));                      // call f (backward displacement)
        s.push(ins(0x27, 0, 0, 0, 3));
        s.push(ins(0x0f, 0, 6, 0, 0));
        s.push(EXIT);
        let p: Vec<u8> = s.iter().flatten().copied().collect();
        writeln!(w, "exec tag=calls prog={} calc={} budget=2000", hex(&p), usage).unwrap();
    } } }
}

/// C02: probes within 9 bytes of both ends of every region (packet, metadata, stack, a registered
/// allowed range inside a larger canaried buffer), plus null and wrap-around addresses, for every
/// access instruction and width, on layouts with empty / non-empty packet and metadata buffers.
pub fn gen_memprobe(w: &mut impl Write, thorough: bool, seed: u64) {
    let mut r = Rng::new(seed ^ 0xb0b);
    // the stack through r10 itself (the frame pointer as base register, not a copy of it), in the entry function and inside callees at
    // local-call depth 1 and 2, where r10 has been lowered by the callers' frame sizes (256 each by default, 64 with calculator 0x40):
    // every offset within 9 bytes of the bottom and of the top of the 512-byte stack as seen from that r10
    {
        let wds: [(u8, u8, u8, i64); 4] = [(0x71, 0x72, 0x73, 1), (0x69, 0x6a, 0x6b, 2), (0x61, 0x62, 0x63, 4), (0x79, 0x7a, 0x7b, 8)];
        for depth in 0..3usize { for (calc, frame) in [("-", 256i64), ("40", 64)] {
            if depth == 0 && calc != "-" { continue; }
            let lowered = frame * depth as i64;                    // r10 of the probing function = top - lowered
            for edge in [-(512 - lowered), lowered] { for delta in -9i64..=9 {
                let off = edge + delta;
                if off < -32768 || off > 32767 { continue; }
                for &(ldx, st, stx, wd) in &wds { for kind in 0..4 {
                    if kind == 3 && wd < 4 { continue; }
                    if !thorough && (delta + wd + kind as i64 + depth as i64).rem_euclid(2) != 0 && delta.abs() > wd { continue; }
                    let probe = match kind { 0 => ins(ldx, 0, 10, off as i16, 0), 1 => ins(st, 10, 0, off as i16, 0x5a5a5a5a), 2 => ins(stx, 10, 2, off as i16, 0),
                        _ => ins(if wd == 4 { 0xc3 } else { 0xdb }, 10, 2, off as i16, 0) };
                    let mut p: Vec<u8> = vec![]; init_regs(&mut p);
                    for _ in 0..depth { p.extend(ins(0x85, 0, 1, 0, 1)); p.extend(EXIT); }      // call next; exit
                    p.extend(probe); p.extend(EXIT);
                    writeln!(w, "exec tag=memprobe prog={} mem=- mbuff=- calc={} budget=300", hex(&p), calc).unwrap();
                } }
            } }
        } }
    }
    let widths: [(u8, u8, u8, u8, u8, i64); 4] = [(0x71, 0x72, 0x73, 0x30, 0x50, 1), (0x69, 0x6a, 0x6b, 0x28, 0x48, 2), (0x61, 0x62, 0x63, 0x20, 0x40, 4), (0x79, 0x7a, 0x7b, 0x38, 0x58, 8)];
    let layouts: &[(usize, usize)] = &[(64, 0), (64, 32), (0, 32), (0, 0), (8, 0), (1, 8)];
    for &(ml, bl) in layouts {
        let mem = pattern(ml, 11); let mb = pattern(bl, 13);
        let extra = pattern(64, 17);
        // regions: name, patch base, length, (stack handled through r10)
        let regions: Vec<(&str, i64, i64)> = vec![("mem", 0, ml as i64), ("mbuff", 0, bl as i64), ("extra0", 16, 48), ("stack", 0, 512)];
        for (rname, lo, hi) in regions {
            for &(ldx, st, stx, labs, lind, wd) in &widths {
                for edge in [lo, hi] { for delta in -9i64..=9 {
                    let target = edge + delta;              // offset of the access relative to the region's base
                    let step = if thorough { 1 } else { 1 };
                    let _ = step;
                    // split the target into a base-register part and the instruction's 16-bit offset
                    let offs: &[i16] = if thorough { &[0, 7, -8, 127, -32768, 32767] } else { &[0, -8, 32767] };
                    for &off in offs {
                        for kind in 0..4 {
                            // kind 0: ldx, 1: st imm, 2: stx, 3: xadd (w and dw only)
                            if kind == 3 && wd < 4 { continue; }
                            if !thorough && kind == 1 && off != 0 { continue; }
                            let mut p = vec![]; init_regs(&mut p);
                            let breg = 1 + r.below(9) as u8; let vreg = (breg % 9) + 1;
                            let patch;
                            if rname == "stack" {
                                // r10 - 512 + target - off
                                p.extend(ins(0xbf, breg, 10, 0, 0)); p.extend(ins(0x07, breg, 0, 0, (-512 + target - off as i64) as i32));
                                patch = "-".to_string();
                            } else {
                                p.extend(lddw(breg, 0)); patch = format!("{}:{}:{}", p.len() / 8 - 2, rname, target - off as i64);
                            }
                            match kind {
                                0 => p.extend(ins(ldx, vreg, breg, off, 0)),
                                1 => p.extend(ins(st, breg, 0, off, 0x5a5a5a5a)),
                                2 => p.extend(ins(stx, breg, vreg, off, 0)),
                                _ => p.extend(ins(if wd == 4 { 0xc3 } else { 0xdb }, breg, vreg, off, 0)),
                            }
                            p.extend(ins(0xb7, breg, 0, 0, 0)); fold_exit(&mut p);
                            writeln!(w, "exec tag=memprobe prog={} mem={} mbuff={} extra={} arange=0:16:48 patch={} budget=300", hex(&p), hex(&mem), hex(&mb), hex(&extra), patch).unwrap();
                        }
                    }
                    // ldabs / ldind address the packet only
                    if rname == "mem" {
                        if target >= 0 { let mut p = vec![]; init_regs(&mut p); p.extend(ins(labs, 0, 0, 0, target as i32)); fold_exit(&mut p);
                            writeln!(w, "exec tag=memprobe prog={} mem={} mbuff={} budget=300", hex(&p), hex(&mem), hex(&mb)).unwrap(); }
                        for regv in [0i64, 5, -5, -1000, 0x1_0000_0000] {
                            let imm = target - regv; if imm < 0 || imm > 0xffff_ffff { continue; }
                            let mut p = vec![]; init_regs(&mut p); p.extend(lddw(4, regv as u64)); p.extend(ins(lind, 0, 4, 0, imm as u32 as i32)); fold_exit(&mut p);
                            writeln!(w, "exec tag=memprobe prog={} mem={} mbuff={} budget=300", hex(&p), hex(&mem), hex(&mb)).unwrap();
                        }
                    }
                } }
                // null and wrap-around addresses
                for a in [0u64, 1, 7, 8, u64::MAX, u64::MAX - 1, u64::MAX - 7, u64::MAX - 8, 0x8000_0000_0000_0000] { for off in [0i16, -8, 8] {
                    for (kind, opc) in [(0, ldx), (2, stx)] {
                        let mut p = vec![]; init_regs(&mut p); p.extend(lddw(3, a));
                        if kind == 0 { p.extend(ins(opc, 2, 3, off, 0)); } else { p.extend(ins(opc, 3, 2, off, 0)); }
                        p.extend(ins(0xb7, 3, 0, 0, 0)); fold_exit(&mut p);
                        writeln!(w, "exec tag=memprobe prog={} mem={} mbuff={} budget=300", hex(&p), hex(&mem), hex(&mb)).unwrap();
                    }
                    let mut p = vec![]; init_regs(&mut p); p.extend(lddw(3, a)); p.extend(ins(lind, 0, 3, 0, off as i32 as u32 as i32)); fold_exit(&mut p);
                    writeln!(w, "exec tag=memprobe prog={} mem={} mbuff={} budget=300", hex(&p), hex(&mem), hex(&mb)).unwrap();
                } }
                if rname != "mem" { continue; }
            }
        }
    }
    // LD_ABS / LD_IND beyond the packet's end but wholly inside a registered range (packet 16 bytes, gap 16, range = bytes 16..48 of a 64-byte
    // buffer that follows: packet offsets 48..80): admitted by check_mem like any other access, refused in the gap and across the range's ends
    {
        let mem = pattern(16, 11); let extra = pattern(64, 17);
        for &(_ldx, _st, _stx, labs, lind, _wd) in &widths {
            for edge in [16i64, 32, 48, 80, 96] { for delta in -9i64..=9 {
                let target = edge + delta;
                if !thorough && edge != 48 && edge != 80 && delta.rem_euclid(3) != 0 { continue; }
                let mut p = vec![]; init_regs(&mut p); p.extend(ins(labs, 0, 0, 0, target as i32)); fold_exit(&mut p);
                writeln!(w, "exec tag=memprobe prog={} mem={} mbuff=- extra={} arange=0:16:48 contig=1 budget=300", hex(&p), hex(&mem), hex(&extra)).unwrap();
                for regv in [0i64, 5, -5, 0x1_0000_0000] {
                    let imm = target - regv; if imm < 0 || imm > 0xffff_ffff { continue; }
                    let mut p = vec![]; init_regs(&mut p); p.extend(lddw(4, regv as u64)); p.extend(ins(lind, 0, 4, 0, imm as u32 as i32)); fold_exit(&mut p);
                    writeln!(w, "exec tag=memprobe prog={} mem={} mbuff=- extra={} arange=0:16:48 contig=1 budget=300", hex(&p), hex(&mem), hex(&extra)).unwrap();
                }
            } }
        }
    }
    // overlapping regions: the metadata buffer is a header slice of the packet (its first 8 bytes); loads inside the packet that start in the header and end
    // beyond it lie wholly inside one region (the packet) and are carried out, as are loads inside the header and beyond it
    {
        let mem = pattern(32, 11); let mb: Vec<u8> = mem[..8].to_vec();
        for &(ldx, _st, _stx, _labs, _lind, wd) in &widths { for start in 0i64..12 { for off in [0i16, -8, 127] {
            let mut p = vec![]; init_regs(&mut p);
            p.extend(lddw(6, 0)); let patch = format!("{}:mem:{}", p.len() / 8 - 2, start - off as i64);
            p.extend(ins(ldx, 2, 6, off, 0)); p.extend(ins(0xb7, 6, 0, 0, 0)); fold_exit(&mut p);
            let _ = wd;
            writeln!(w, "exec tag=memprobe prog={} mem={} mbuff={} overlap=1 patch={} budget=300", hex(&p), hex(&mem), hex(&mb), patch).unwrap();
        } } }
        for start in [24i64, 25, 28, 31, 32] { for &(ldx, _st, _stx, _labs, _lind, _wd) in &widths {
            let mut p = vec![]; init_regs(&mut p);
            p.extend(lddw(6, 0)); let patch = format!("{}:mbuff:{}", p.len() / 8 - 2, start);
            p.extend(ins(ldx, 2, 6, 0, 0)); p.extend(ins(0xb7, 6, 0, 0, 0)); fold_exit(&mut p);
            writeln!(w, "exec tag=memprobe prog={} mem={} mbuff={} overlap=1 patch={} budget=300", hex(&p), hex(&mem), hex(&mb), patch).unwrap();
        } }
    }
    // several registered ranges: an access must lie inside ONE of them — two ranges separated by a gap, adjacent ranges, nested
    // ranges; accesses starting in one and ending in the other (over the gap), entirely inside either, and inside the gap
    let extra = pattern(64, 19); let mem = pattern(8, 11);
    for (ranges, name) in [("0:16:20,0:24:28", "gap4"), ("0:16:18,0:22:24", "gap4b"), ("0:16:20,0:21:32", "gap1"), ("0:16:24,0:24:32", "adjacent"), ("0:8:40,0:16:24", "nested"), ("0:16:24,0:40:48", "far"),
        // registration order: a later range that ends where an earlier one starts, or overlaps its head, takes nothing away from the earlier one
        ("0:24:32,0:16:24", "adjacent-desc"), ("0:20:40,0:16:24", "tail-then-head"), ("0:24:28,0:16:20", "gap-desc"), ("0:16:24,0:8:40", "nested-desc")] {
        let _ = name;
        for &(ldx, st, stx, _labs, _lind, wd) in &widths { for start in 12i64..34 { for kind in 0..4 {
            if kind == 3 && wd < 4 { continue; }
            let mut p = vec![]; init_regs(&mut p);
            p.extend(lddw(6, 0)); let patch = format!("{}:extra0:{}", p.len() / 8 - 2, start);
            match kind { 0 => p.extend(ins(ldx, 2, 6, 0, 0)), 1 => p.extend(ins(st, 6, 0, 0, 0x5a5a5a5a)), 2 => p.extend(ins(stx, 6, 3, 0, 0)),
                         _ => p.extend(ins(if wd == 4 { 0xc3 } else { 0xdb }, 6, 3, 0, 0)) }
            p.extend(ins(0xb7, 6, 0, 0, 0)); fold_exit(&mut p);
            writeln!(w, "exec tag=memprobe prog={} mem={} mbuff=- extra={} arange={} patch={} budget=300", hex(&p), hex(&mem), hex(&extra), ranges, patch).unwrap();
        } } }
    }
}

/// C05: whatever the real verifier accepts is executed — the verify suite's byte strings (every opcode/register byte in every
/// position, every displacement around the bounds and around wide loads, every last-instruction kind, soups, mutants)
pub fn gen_accepted(w: &mut impl Write, thorough: bool, seed: u64) {
    let mut buf: Vec<u8> = vec![];
    crate::verify::gen(&mut buf, thorough, seed);
    let mem = pattern(64, 5); let mb = pattern(32, 9);
    for l in String::from_utf8(buf).unwrap().lines() {
        let Some(p) = l.strip_prefix("verify ") else { continue };
        if p.len() > 16 * 400 || p == "-" { continue; }
        writeln!(w, "exec tag=accepted prog={} mem={} mbuff={} helpers=1:0,2:1,ffffffff:2 budget=400", p, hex(&mem), hex(&mb)).unwrap();
    }
}

fn with_suffix(w: &mut impl Write, gen: impl FnOnce(&mut Vec<u8>), pick: &mut dyn FnMut(&str) -> Option<String>) {
    let mut buf: Vec<u8> = vec![]; gen(&mut buf);
    for l in String::from_utf8(buf).unwrap().lines() { if let Some(sfx) = pick(l) { writeln!(w, "{} {}", l, sfx).unwrap(); } }
}

/// C03/C04/C08/C09/C12: the interpreter suites re-run on the x86-64 JIT and on Cranelift, plus engine-specific shapes
pub fn gen_engines(w: &mut impl Write, thorough: bool, seed: u64) {
    let mut r = Rng::new(seed ^ 0xe61e);
    // (1) operation matrix (a third of it in the quick tier) and the memory-instruction matrix
    let mut k = 0u64;
    with_suffix(w, |b| gen_matrix(b, thorough, seed), &mut |_| { k += 1; if thorough || k % 3 == 0 { Some("engines=jit,clif kind=mbuff".into()) } else { None } });
    with_suffix(w, |b| gen_memops(b, thorough, seed), &mut |_| Some("engines=jit,clif kind=mbuff".into()));
    with_suffix(w, |b| gen_calls(b, false, seed), &mut |_| Some("engines=jit,clif kind=mbuff".into()));
    // (2) random engine-safe programs on the four VM kinds
    let n = if thorough { 200_000 } else { 12_000 };
    for i in 0..n {
        let kind = ["mbuff", "raw", "nodata", "fixed"][(i % 4) as usize];
        let mem_len = if kind == "nodata" { 0 } else { *r.pick(&[0usize, 8, 16, 64, 100]) };
        let mbuff_len = if kind == "mbuff" { *r.pick(&[0usize, 8, 32]) } else { 0 };
        let hs: Vec<u32> = match r.below(4) { 0 => vec![], 1 => vec![1], 2 => vec![0, 0x7fff_ffff, 3], _ => vec![2, 0xffff_ffff, 0x8000_0000, 7] };
        // r6 = r1: for fixed/mbuff VMs r1 points at metadata; random blocks only address [r6 + off] within the r1 region
        let r1_len = match kind { "mbuff" => if mbuff_len > 0 { mbuff_len } else { mem_len }, "raw" => mem_len, "fixed" => 16, _ => 0 };
        let cfg = GenCfg { max_len: 40, helpers: hs.clone(), mem_len: if kind == "mbuff" && mbuff_len > 0 { mem_len } else if kind == "fixed" { mem_len } else { r1_len }, mbuff_len: if kind == "mbuff" { mbuff_len } else { 0 }, calls: i % 8 == 0, engine_safe: true };
        let cfg = if kind == "fixed" { GenCfg { mem_len: 0, mbuff_len: 0, ..cfg } } else { cfg };   // fixed: only ldabs-free arithmetic / stack traffic here; pointer probes below
        let p = random_program(&mut r, &cfg);
        let helpers = if hs.is_empty() { "-".to_string() } else { hs.iter().enumerate().map(|(k, h)| format!("{:x}:{}", h, k % 4)).collect::<Vec<_>>().join(",") };
        let mem = pattern(mem_len, i as u8); let mb = pattern(mbuff_len, (i >> 8) as u8);
        writeln!(w, "exec tag=engrandom prog={} mem={} mbuff={} helpers={} budget=3000 engines=jit,clif kind={} fixoff={}:{}", hex(&p), hex(&mem), hex(&mb), helpers, kind, 8 * r.below(4), 32 + 8 * r.below(4)).unwrap();
    }
    // (3) context probes (C09): r1, r10-relative stack top, ldabs/ldind of the packet, fixed-metadata slots, two sizes of packet, offsets in either order
    for kind in ["mbuff", "raw", "nodata", "fixed"] { for mem_len in [0usize, 1, 8, 64, 1500] { for (d, e) in [(0usize, 8usize), (8, 0), (0x40, 0x50), (0x50, 0x40), (0, 4096), (65528, 0), (16, 24)] { for mbl in [0usize, 32] {
        if kind != "fixed" && (d, e) != (0, 8) { continue; }
        if kind != "mbuff" && mbl != 0 { continue; }
        let mem = pattern(mem_len, 21); let mb = pattern(mbl, 22);
        let tail = format!("mem={} mbuff={} budget=300 engines=jit,clif kind={} fixoff={}:{}{}", hex(&mem), hex(&mb), kind, d, e,
            if mem_len >= 2 && kind != "nodata" { format!(" again={}", mem_len / 2) } else { String::new() });
        // probe A: r0 = (r1 != 0)  and stack top is writable at r10-8 .. r10-512 but r10 itself is one past the end
        let mut p = vec![]; p.extend(ins(0xb7, 0, 0, 0, 0)); p.extend(ins(0x15, 1, 0, 1, 0)); p.extend(ins(0xb7, 0, 0, 0, 1));
        p.extend(ins(0x7a, 10, 0, -8, 0x11)); p.extend(ins(0x7a, 10, 0, -512, 0x22)); p.extend(ins(0x79, 2, 10, -8, 0)); p.extend(ins(0x79, 3, 10, -512, 0));
        p.extend(ins(0x67, 0, 0, 0, 8)); p.extend(ins(0x0f, 0, 2, 0, 0)); p.extend(ins(0x67, 0, 0, 0, 8)); p.extend(ins(0x0f, 0, 3, 0, 0)); p.extend(EXIT);
        writeln!(w, "exec tag=context prog={} {}", hex(&p), tail).unwrap();
        // probe B: first byte through r1 (raw / metadata), last byte through ldabs
        if (kind == "raw" && mem_len > 0) || (kind == "mbuff" && mbl > 0) { let mut p = vec![]; p.extend(ins(0x71, 0, 1, 0, 0)); p.extend(EXIT); writeln!(w, "exec tag=context prog={} {}", hex(&p), tail).unwrap(); }
        if kind == "mbuff" && mbl == 0 && mem_len > 0 { let mut p = vec![]; p.extend(ins(0x71, 0, 1, 0, 0)); p.extend(EXIT); writeln!(w, "exec tag=context prog={} {}", hex(&p), tail).unwrap(); }
        if mem_len > 0 && kind != "nodata" { for off in [0usize, mem_len - 1] { let mut p = vec![]; p.extend(ins(0x30, 0, 0, 0, off as i32)); p.extend(EXIT); writeln!(w, "exec tag=context prog={} {}", hex(&p), tail).unwrap();
            let mut p = vec![]; p.extend(ins(0xb7, 3, 0, 0, off as i32)); p.extend(ins(0x50, 0, 3, 0, 0)); p.extend(EXIT); writeln!(w, "exec tag=context prog={} {}", hex(&p), tail).unwrap(); } }
        // probe C (fixed): data_end - data = len, first and last packet byte through the slots, both slots equal the ldabs view
        if kind == "fixed" && d + 8 <= 32767 && e + 8 <= 32767 { let mut p = vec![];
            p.extend(ins(0x79, 2, 1, d as i16, 0)); p.extend(ins(0x79, 3, 1, e as i16, 0)); p.extend(ins(0xbf, 0, 3, 0, 0)); p.extend(ins(0x1f, 0, 2, 0, 0));
            if mem_len > 0 { p.extend(ins(0x71, 4, 2, 0, 0)); p.extend(ins(0x71, 5, 3, -1, 0)); p.extend(ins(0x67, 0, 0, 0, 8)); p.extend(ins(0x0f, 0, 4, 0, 0)); p.extend(ins(0x67, 0, 0, 0, 8)); p.extend(ins(0x0f, 0, 5, 0, 0)); }
            p.extend(EXIT); writeln!(w, "exec tag=context prog={} {}", hex(&p), tail).unwrap();
            writeln!(w, "exec tag=context prog={} {} ctor=1", hex(&p), tail).unwrap(); }
    } } } }
    // (3b) the base of ldabs/ldind (F39, F40): (i) the immediate of ldind is added zero-extended, so a negative immediate can be
    //      compensated by the index register to land inside the packet; (ii) with an empty packet the base is null for every engine,
    //      so an index register holding a stack address lands on that very stack byte
    for kind in ["mbuff", "raw", "fixed"] { for (wi, &opc) in [0x50u8, 0x48, 0x40, 0x58].iter().enumerate() { let width = [1usize, 2, 4, 8][wi];
        for imm in [-1i32, -8, i32::MIN, i32::MAX, 5, 0] { for t in [0usize, 3, 16 - width] {
            let mem = pattern(16, 23);
            let src = (t as u64).wrapping_sub(imm as u32 as u64);
            let mut p = vec![]; p.extend(lddw(3, src)); p.extend(ins(opc, 0, 3, 0, imm)); p.extend(EXIT);
            writeln!(w, "exec tag=context prog={} mem={} mbuff=- budget=300 engines=jit,clif kind={} fixoff=0:8", hex(&p), hex(&mem), kind).unwrap();
        } } } }
    for kind in ["mbuff", "raw", "nodata", "fixed"] { for (wi, &opc) in [0x50u8, 0x48, 0x40, 0x58].iter().enumerate() { let width = [1i32, 2, 4, 8][wi];
        for back in [width, width + 1, 16, 512] { for imm in [0i32, 1, -1] {
            // distinct bytes in the top 16 and the bottom 16 bytes of the stack, then ldind through r3 = r10 - back - imm
            let mut p = vec![];
            p.extend(lddw(2, 0x1817161514131211)); p.extend(ins(0x7b, 10, 2, -8, 0)); p.extend(lddw(2, 0x2827262524232221)); p.extend(ins(0x7b, 10, 2, -16, 0));
            p.extend(lddw(2, 0x3837363534333231)); p.extend(ins(0x7b, 10, 2, -512, 0)); p.extend(lddw(2, 0x4847464544434241)); p.extend(ins(0x7b, 10, 2, -504, 0));
            p.extend(ins(0xbf, 3, 10, 0, 0)); p.extend(ins(0x07, 3, 0, 0, -back)); p.extend(lddw(4, imm as u32 as u64)); p.extend(ins(0x1f, 3, 4, 0, 0));
            p.extend(ins(opc, 0, 3, 0, imm)); p.extend(EXIT);
            writeln!(w, "exec tag=context prog={} mem=- mbuff=- budget=300 engines=jit,clif kind={} fixoff=0:8", hex(&p), kind).unwrap();
        } } } }
    // (3d) division and remainder at their special points, never subsampled: every boundary dividend x divisors {0, 1, MAX, 2^32 (low half
    //      zero), 2^32-1, 2^63}, register and immediate forms, 32 and 64 bit, through register pairs that hit rax/rdx/other on x86
    for &opc in &[0x3cu8, 0x3f, 0x9c, 0x9f, 0x34, 0x37, 0x94, 0x97] { for &a in V64 { for b in [0u64, 1, u64::MAX, 1 << 32, 0xffff_ffff, 1 << 63, 7] {
        for (dst, src) in [(2u8, 3u8), (0, 3), (3, 0), (6, 7)] {
            let is_reg = opc & 0x08 != 0;
            if !is_reg && (dst, src) != (2, 3) && (dst, src) != (0, 3) { continue; }
            let mut p = vec![]; p.extend(lddw(dst, a));
            if is_reg { p.extend(lddw(src, b)); p.extend(ins(opc, dst, src, 0, 0)); } else { p.extend(ins(opc, dst, 0, 0, b as u32 as i32)); }
            p.extend(ins(0xbf, 0, dst, 0, 0)); p.extend(EXIT);
            writeln!(w, "exec tag=divzero prog={} budget=100 engines=jit,clif kind=nodata", hex(&p)).unwrap();
        }
    } } }
    // (3c) memory coherence: load - store to the same bytes - load again, for every pairing of the three ways to read packet
    //      bytes (ldabs, ldind, ldx through a pointer) with the three ways to write them (st, stx, xadd); same on the stack.
    //      A compiler that forwards the first load's value to the second one (alias analysis) returns stale data.
    { let mem = pattern(32, 29);
      for (wi, &wd) in [1usize, 2, 4, 8].iter().enumerate() {
        let (labs, lind, ldx, st, stx) = [(0x30u8, 0x50u8, 0x71u8, 0x72u8, 0x73u8), (0x28, 0x48, 0x69, 0x6a, 0x6b), (0x20, 0x40, 0x61, 0x62, 0x63), (0x38, 0x58, 0x79, 0x7a, 0x7b)][wi];
        for k in [0i32, 8] { for l1 in 0..3 { for l2 in 0..3 { for sk in 0..3 {
            if sk == 2 && wd < 4 { continue; }
            let mut p = vec![];
            p.extend(lddw(6, 0)); let ps = p.len() / 8 - 2;
            p.extend(lddw(9, 0x0101_0101_0101_0101u64.wrapping_mul(0x5a + wd as u64)));
            p.extend(ins(0xb7, 5, 0, 0, k));
            let load = |p: &mut Vec<u8>, how: i32, into: u8| { match how {
                0 => { p.extend(ins(labs, 0, 0, 0, k)); p.extend(ins(0xbf, into, 0, 0, 0)); }
                1 => { p.extend(ins(lind, 0, 5, 0, 0)); p.extend(ins(0xbf, into, 0, 0, 0)); }
                _ => { p.extend(ins(ldx, into, 6, k as i16, 0)); } } };
            load(&mut p, l1, 7);
            match sk { 0 => p.extend(ins(st, 6, 0, k as i16, 0x33445566)), 1 => p.extend(ins(stx, 6, 9, k as i16, 0)),
                       _ => p.extend(ins(if wd == 4 { 0xc3 } else { 0xdb }, 6, 9, k as i16, 0)) }
            load(&mut p, l2, 8);
            p.extend(ins(0xbf, 0, 7, 0, 0)); p.extend(ins(0x27, 0, 0, 0, 31)); p.extend(ins(0x0f, 0, 8, 0, 0)); p.extend(EXIT);
            for kind in ["mbuff", "raw", "fixed"] {
                writeln!(w, "exec tag=coherence prog={} mem={} mbuff=- patch={}:mem:0 budget=300 engines=jit,clif kind={} fixoff=0:8", hex(&p), hex(&mem), ps, kind).unwrap();
            }
        } } } }
        // the same on the stack: ldx / st / stx / xadd through r10 and through a copy of it
        for sk in 0..3 { if sk == 2 && wd < 4 { continue; }
            let mut p = vec![];
            p.extend(lddw(9, 0x0101_0101_0101_0101u64.wrapping_mul(0x21 + wd as u64)));
            p.extend(ins(0x7b, 10, 9, -16, 0)); p.extend(ins(0xbf, 6, 10, 0, 0));
            p.extend(ins(ldx, 7, 10, -16, 0));
            match sk { 0 => p.extend(ins(st, 6, 0, -16, 0x33445566)), 1 => { p.extend(ins(0x07, 9, 0, 0, 7)); p.extend(ins(stx, 6, 9, -16, 0)) }
                       _ => p.extend(ins(if wd == 4 { 0xc3 } else { 0xdb }, 6, 9, -16, 0)) }
            p.extend(ins(ldx, 8, 10, -16, 0));
            p.extend(ins(0xb7, 6, 0, 0, 0));
            p.extend(ins(0xbf, 0, 7, 0, 0)); p.extend(ins(0x27, 0, 0, 0, 31)); p.extend(ins(0x0f, 0, 8, 0, 0)); p.extend(EXIT);
            writeln!(w, "exec tag=coherence prog={} mem=- mbuff=- budget=300 engines=jit,clif kind=mbuff", hex(&p)).unwrap();
        }
      }
    }
    // (4) helper contract (C08): argument order, r6..r9 preserved, ldabs after a helper call, calls inside local functions at depth 0..3, unknown ids
    for depth in 0..4usize { for id in [0u32, 1, 0x7fff_ffff, 0x8000_0000, 0xffff_ffff, 3] { for reg_ok in [true, false] {
        let mut s: Vec<[u8; 8]> = vec![];
        // main: init r6..r9, args; descend `depth` local calls (each function at the end), call helper there, fold
        for q in 6..10u8 { s.push(ins(0xb7, q, 0, 0, 0x600 + q as i32)); }
        for d in 0..depth { let _ = d; s.push(ins(0x85, 0, 1, 0, 0)); }   // placeholders, patched below (each call goes to the next nesting level)
        let body_at = s.len();
        let _ = body_at;
        // straight-line: we instead build nested functions: level k function = [call level k+1] ; exit, the innermost does the helper call
        s.clear();
        for q in 6..10u8 { s.push(ins(0xb7, q, 0, 0, 0x600 + q as i32)); }
        // 64-bit arguments (upper halves set): a marshalling step of the wrong width must show
        for a in 1..6u8 { let v: u64 = ((0x1111_1111u64 * a as u64 + 0x8000_0000) << 32) | (0x10 * a as u64 + depth as u64);
            let w2 = lddw(a, v); let mut h0 = [0u8; 8]; h0.copy_from_slice(&w2[0..8]); let mut h1 = [0u8; 8]; h1.copy_from_slice(&w2[8..16]); s.push(h0); s.push(h1); }
        // the fields a helper call does not use (dst nibble, offset) are set in two thirds of the programs: the result goes to r0 whatever they hold
        let (dn, of): (u8, i16) = match (depth + id as usize % 5) % 3 { 0 => (0, 0), 1 => (6 + (id % 4) as u8, 0), _ => (1 + (depth as u8 + id as u8 % 3) % 9, 0x1234) };
        if depth == 0 { s.push(ins(0x85, dn, 0, of, id as i32)); } else { s.push(ins(0x85, 0, 1, 0, 0)); }
        let main_call = s.len() - 1;
        for q in 6..10u8 { s.push(ins(0x27, 0, 0, 0, 3)); s.push(ins(0x0f, 0, q, 0, 0)); }
        s.push(ins(0xbf, 6, 0, 0, 0)); s.push(ins(0x30, 0, 0, 0, 2)); s.push(ins(0x0f, 0, 6, 0, 0));   // ldabsb after the helper call
        s.push(EXIT);
        let mut starts = vec![];
        for k in 1..=depth { starts.push(s.len());
            if k == depth { for a in 1..6u8 { s.push(ins(0x07, a, 0, 0, k as i32)); } s.push(ins(0x85, dn, 0, of, id as i32)); s.push(ins(0xb7, 7, 0, 0, 0x777)); }
            else { s.push(ins(0xb7, 8, 0, 0, 0x888)); s.push(ins(0x85, 0, 1, 0, 0)); }
            s.push(EXIT); }
        // patch local calls
        if depth > 0 { let d = starts[0] as i64 - (main_call as i64 + 1); s[main_call][4..8].copy_from_slice(&(d as i32).to_le_bytes()); }
        for k in 1..depth { let at = starts[k - 1] + 1; let d = starts[k] as i64 - (at as i64 + 1); s[at][4..8].copy_from_slice(&(d as i32).to_le_bytes()); }
        let p: Vec<u8> = s.iter().flatten().copied().collect();
        // the helper reached directly, or through a trampoline at a low address (selectors 7 and 11: function 3 at 0x9000_0030 / 0xffff_e030)
        let sel = [3usize, 7, 11][(depth + (id as usize % 3)) % 3];
        let helpers = if reg_ok { format!("{:x}:{}", id, sel) } else { format!("{:x}:{}", id ^ 1, sel) };
        writeln!(w, "exec tag=helpers prog={} mem={} helpers={} budget=300 engines=jit,clif kind=raw", hex(&p), hex(&pattern(16, 3)), helpers).unwrap();
    } } }
    // (5) div/mod far into a long program (instruction index beyond 2^16) and at index 65535
    for at in [65_534usize, 65_535, 65_536, 70_000, 131_071] {
        let n = at + 40; let mut slots: Vec<[u8; 8]> = vec![ins(0x07, 0, 0, 0, 1); n];
        slots[0] = ins(0xb7, 0, 0, 0, 0); slots[1] = ins(0xb7, 2, 0, 0, 0); slots[2] = ins(0xb7, 3, 0, 0, 77);
        for (k, opc) in [(0usize, 0x3fu8), (1, 0x9f), (2, 0x3c), (3, 0x9c)] { slots[at + 2 * k] = ins(opc, 3, 2, 0, 0); slots[at + 2 * k + 1] = ins(0x0f, 0, 3, 0, 0); }
        slots[n - 1] = EXIT;
        let p: Vec<u8> = slots.iter().flatten().copied().collect();
        writeln!(w, "exec tag=farjump prog={} budget=400000 engines=jit,clif kind=nodata", hex(&p)).unwrap();
    }
    // (6) jumps at the ends of the 16-bit displacement range, taken, for ja and conditional jumps of both classes:
    //     forward +32766 / +32767:  [mov r0,7] [J +off] [off x mov r0,1] [exit]
    //     backward -32767 / -32768: [mov r0,7] [ja +(B-2)] [exit] [filler …] [B: J off -> 2] [exit]   with B = 1 - off
    for &opc in &[0x05u8, 0x15, 0x1d, 0x16, 0x6d, 0x45] {
        let jump = |off: i16| -> [u8; 8] { match opc { 0x05 => ins(0x05, 0, 0, off, 0), 0x15 | 0x16 => ins(opc, 0, 0, off, 7), 0x45 => ins(0x45, 0, 0, off, 5), _ => ins(opc, 0, 0, off, 0) } };
        for off in [32766i32, 32767] {
            let mut slots: Vec<[u8; 8]> = vec![ins(0xb7, 0, 0, 0, 7), jump(off as i16)];
            for _ in 0..off { slots.push(ins(0xb7, 0, 0, 0, 1)); }
            slots.push(EXIT);
            let p: Vec<u8> = slots.iter().flatten().copied().collect();
            writeln!(w, "exec tag=farjump prog={} budget=1000 engines=jit,clif kind=nodata", hex(&p)).unwrap();
        }
        for off in [-32767i32, -32768] {
            let b = (1 - off) as usize;
            let mut slots: Vec<[u8; 8]> = vec![ins(0xb7, 0, 0, 0, 7), ins(0x05, 0, 0, (b - 2) as i16, 0), EXIT];
            while slots.len() < b { slots.push(ins(0xb7, 0, 0, 0, 1)); }
            slots.push(jump(off as i16)); slots.push(EXIT);
            let p: Vec<u8> = slots.iter().flatten().copied().collect();
            writeln!(w, "exec tag=farjump prog={} budget=1000 engines=jit,clif kind=nodata", hex(&p)).unwrap();
        }
    }
}

/// C12: the accepted strings of the verify suite, compiled by both engines (and run when the interpreter returns a value)
pub fn gen_accepted_engines(w: &mut impl Write, thorough: bool, seed: u64) {
    with_suffix(w, |b| gen_accepted(b, thorough, seed), &mut |_| Some("engines=jit,clif kind=mbuff norun=1".into()));
}

/// C11: the C02 boundary probes on Cranelift-compiled code; an out-of-bounds probe must trap (the child dies with SIGILL)
pub fn gen_clifprobe(w: &mut impl Write, thorough: bool, seed: u64) {
    let mut k = 0u64;
    with_suffix(w, |b| gen_memprobe(b, thorough, seed), &mut |l| { k += 1; if l.contains("arange=") && l.contains("extra0") { return None; }
        if thorough || k % 4 == 0 { Some("engines=clif force=clif kind=mbuff".into()) } else { None } });
    // two accesses through the same base register and offset inside one basic block, the first narrow and inside the region, the second
    // wider and crossing its end (a bounds check that is cached per (base, offset) and forgets the width lets the second one through);
    // every pairing of load / store-immediate / store-register / atomic add, at the end of packet, metadata buffer and stack
    let w8: [(u8, u8, u8, i64); 4] = [(0x71, 0x72, 0x73, 1), (0x69, 0x6a, 0x6b, 2), (0x61, 0x62, 0x63, 4), (0x79, 0x7a, 0x7b, 8)];
    let mem = pattern(8, 31); let mb = pattern(16, 33);
    for (rname, len) in [("mem", 8i64), ("mbuff", 16), ("stack", 512)] { for &(ldx1, st1, stx1, wn) in &w8 { for &(ldx2, st2, stx2, ww) in &w8 {
        if ww <= wn { continue; }
        for k1 in 0..3 { for k2 in 0..4 { for off in [0i16, 24, -8] {
            if k2 == 3 && ww < 4 { continue; }
            let target = len - wn;                       // the narrow access ends exactly at the region's end
            let mut p = vec![]; init_regs(&mut p);
            let patch;
            if rname == "stack" { p.extend(ins(0xbf, 6, 10, 0, 0)); p.extend(ins(0x07, 6, 0, 0, (-512 + target - off as i64) as i32)); patch = "-".to_string(); }
            else { p.extend(lddw(6, 0)); patch = format!("{}:{}:{}", p.len() / 8 - 2, rname, target - off as i64); }
            match k1 { 0 => p.extend(ins(ldx1, 2, 6, off, 0)), 1 => p.extend(ins(st1, 6, 0, off, 0x11)), _ => p.extend(ins(stx1, 6, 3, off, 0)) }
            match k2 { 0 => p.extend(ins(ldx2, 0, 6, off, 0)), 1 => p.extend(ins(st2, 6, 0, off, 0x22)), 2 => p.extend(ins(stx2, 6, 3, off, 0)),
                       _ => p.extend(ins(if ww == 4 { 0xc3 } else { 0xdb }, 6, 3, off, 0)) }
            p.extend(ins(0xb7, 6, 0, 0, 0)); fold_exit(&mut p);
            writeln!(w, "exec tag=memprobe prog={} mem={} mbuff={} patch={} budget=300 engines=clif force=clif kind=mbuff", hex(&p), hex(&mem), hex(&mb), patch).unwrap();
        } } }
    } } }
    // register stores whose VALUE register is the frame pointer r10 (or any other register), through a base at the start of the packet / metadata
    // buffer / stack with offsets in the range a stack slot would have ([-512, 0)): below the region they must trap whatever register is stored
    for (rname, _len) in [("mem", 8i64), ("mbuff", 16), ("stack", 512)] { for &(_ldx, _st, stx, wd) in &w8 { for vreg in [10u8, 2, 9] {
        for off in [-(wd as i16), -8, -1, -256, -512, 0, 8 - wd as i16] {
            let mut p = vec![]; init_regs(&mut p);
            let patch;
            if rname == "stack" { p.extend(ins(0xbf, 6, 10, 0, 0)); p.extend(ins(0x07, 6, 0, 0, -512)); patch = "-".to_string(); }
            else { p.extend(lddw(6, 0)); patch = format!("{}:{}:0", p.len() / 8 - 2, rname); }
            p.extend(ins(stx, 6, vreg, off, 0));
            if wd >= 4 && vreg != 10 { p.extend(ins(if wd == 4 { 0xc3 } else { 0xdb }, 6, vreg, off, 0)); }
            p.extend(ins(0xb7, 6, 0, 0, 0)); fold_exit(&mut p);
            writeln!(w, "exec tag=memprobe prog={} mem={} mbuff={} patch={} budget=300 engines=clif force=clif kind=mbuff", hex(&p), hex(&mem), hex(&mb), patch).unwrap();
        }
    } } }
}

/// C12 (model validation): arbitrary whole-slot byte strings of the verify suite, loaded through an accept-all verifier and only compiled:
/// exercises the compile-time Err / panic sites of both compilers on programs the default verifier would refuse
pub fn gen_anyprog_engines(w: &mut impl Write, thorough: bool, seed: u64) {
    let mut buf: Vec<u8> = vec![];
    crate::verify::gen(&mut buf, thorough, seed);
    let mut k = 0u64;
    for l in String::from_utf8(buf).unwrap().lines() {
        let Some(p) = l.strip_prefix("verify ") else { continue };
        if p.len() > 16 * 400 || p == "-" { continue; }
        k += 1; if !thorough && k % 3 != 0 { continue; }
        writeln!(w, "exec tag=anyprog prog={} helpers=1:0,2:1,ffffffff:2 engines=jit,clif kind=mbuff norun=1 anyprog=1", p).unwrap();
    }
}

/// C12: the code buffer is sized by a first pass: programs whose machine code ends within a few bytes of a page boundary,
/// byte by byte (every dead `exit` is one byte of code), on the VM kinds with different prologues
pub fn gen_pageboundary(w: &mut impl Write, thorough: bool, _seed: u64) {
    for kind in ["mbuff", "raw", "fixed"] {
        let (lo, hi) = if thorough { (3900usize, 4200usize) } else { (3980usize, 4060usize) };
        for n in lo..hi {
            let mut p = Vec::with_capacity((n + 2) * 8);
            p.extend(ins(0xb7, 0, 0, 0, 7)); p.extend(EXIT);
            for _ in 0..n { p.extend(EXIT); }
            writeln!(w, "exec tag=pageboundary prog={} budget=10 engines=jit kind={} norun=1", hex(&p), kind).unwrap();
        }
    }
    // thorough only (the model takes minutes on it): a program dense in expensive instructions whose machine code exceeds 16 MiB — 430,000 64-bit
    // divisions by a register, about 41 bytes each: the buffer must be the size the first pass counted, whatever that is
    if thorough {
        let mut p = vec![]; p.extend(ins(0xb7, 6, 0, 0, 1000)); p.extend(ins(0xb7, 7, 0, 0, 1));
        for _ in 0..430_000 { p.extend(ins(0x3f, 6, 7, 0, 0)); }
        p.extend(ins(0xbf, 0, 6, 0, 0)); p.extend(EXIT);
        writeln!(w, "exec tag=pageboundary prog={} budget=600000 engines=jit kind=nodata norun=1", hex(&p)).unwrap();
    }
}
