//! Canonical form of the textual Cranelift IR that `cranelift.rs` hands to the code generator (hook `verif_clif_ir`),
//! for comparison with the Lean model of the translator (`Model/ClifAst.lean`).
//!
//! What is kept: the blocks in layout order, and per instruction its source location (the eBPF instruction index), opcode,
//! the type where the opcode needs one, immediates, condition codes, memory flags and offsets, branch targets, and for every
//! value operand whether it was defined by the k-th value-defining instruction of the same eBPF instruction (`l<k>`) or comes
//! from elsewhere (`x`: an SSA name chosen by cranelift-frontend for a variable read).
//! What is dropped: SSA value numbers, block parameters and branch arguments, value aliases, the `iconst 0` that
//! cranelift-frontend inserts for variables read before any write, printer comments, and the function preamble
//! (helper declarations are numbered in hash-map order).

use std::collections::HashMap;

fn parse_imm(s: &str) -> Option<i64> {
    let t = s.replace('_', "");
    if let Some(h) = t.strip_prefix("0x") { return u64::from_str_radix(h, 16).ok().map(|x| x as i64); }
    if let Some(h) = t.strip_prefix("-0x") { return u64::from_str_radix(h, 16).ok().map(|x| (x as i64).wrapping_neg()); }
    t.parse::<i64>().ok()
}

fn is_value(tok: &str) -> bool { tok.len() > 1 && tok.starts_with('v') && tok[1..].chars().all(|c| c.is_ascii_digit()) }

/// opcodes whose printed type suffix is part of their meaning (the others get it from their operands, and the printer shows
/// it or not depending on SSA details)
fn keeps_type(op: &str) -> bool {
    matches!(op, "iconst" | "load" | "ireduce" | "uextend" | "sextend" | "stack_addr" | "atomic_rmw" | "uload8" | "uload16" | "uload32" | "sload8" | "sload16" | "sload32")
}

/// What the resolved form (`canon_resolved`) knows beyond the group-local numbering: value aliases, the function's parameters,
/// the values the entry block defines, the values defined so far in the current block, the callees in order of first use.
#[derive(Default)]
struct Resolve {
    alias: HashMap<String, String>,
    fparams: HashMap<String, usize>,
    b0defs: HashMap<String, usize>,
    blockdefs: HashMap<String, (String, usize)>,
    fns: HashMap<String, usize>,
}

pub fn canon(ir: &str) -> Vec<String> { canon_with(ir, false) }

/// The canonical form with more of the data flow kept (a check of which variable an operation reads, beyond `canon`):
/// a value operand is `l<k>` as in `canon`; else `<loc>.<k>` if it was defined earlier in the same block by the k-th
/// value-defining instruction of source location `<loc>`; else, after following value aliases, `a<n>` if it is the n-th function
/// parameter, `-.<k>` (k = 1..4: stack start, stack end, end of the first and of the second memory area) if the entry block
/// defined it; else `x`.  Callees are named `fn#<n>` in order of first use.
pub fn canon_resolved(ir: &str) -> Vec<String> { canon_with(ir, true) }

fn canon_with(ir: &str, resolved: bool) -> Vec<String> {
    // pass 1: block names in layout order (and, for the resolved form, aliases and function parameters)
    let mut border: HashMap<String, usize> = HashMap::new();
    let mut rs = Resolve::default();
    for l in ir.lines() {
        let t = l.trim();
        if t.starts_with("block") && t.ends_with(':') {
            let name: String = t.chars().take_while(|c| c.is_ascii_alphanumeric()).collect();
            let n = border.len(); border.entry(name).or_insert(n);
            if n == 0 { if let (Some(a), Some(b)) = (t.find('('), t.rfind(')')) { for (k, p) in t[a + 1..b].split(',').enumerate() { let v = p.trim().split(':').next().unwrap_or("").trim(); if is_value(v) { rs.fparams.insert(v.to_string(), k); } } } }
        } else if let Some((a, b)) = t.split_once(" -> ") { if is_value(a.trim()) && is_value(b.trim()) { rs.alias.insert(a.trim().to_string(), b.trim().to_string()); } }
    }
    let ctx = if resolved { Some(()) } else { None };
    let blk = |tok: &str| -> String {
        let name: String = tok.chars().take_while(|c| c.is_ascii_alphanumeric()).collect();
        match border.get(&name) { Some(k) => format!("B{}", k), None => "B?".to_string() }
    };
    let mut out = vec![];
    let mut in_body = false;
    let mut cur_block = usize::MAX;
    let mut group: (usize, String) = (usize::MAX, String::new());
    let mut locals: HashMap<String, usize> = HashMap::new();
    for l in ir.lines() {
        let mut t = l.trim();
        if t.is_empty() || t == "}" { continue; }
        if t.starts_with("block") && t.ends_with(':') { in_body = true; cur_block = *border.get(&t.chars().take_while(|c| c.is_ascii_alphanumeric()).collect::<String>()).unwrap(); out.push(format!("B{}:", cur_block)); rs.blockdefs.clear(); continue; }
        if !in_body { continue; }
        if t.contains(" -> ") { continue; }           // value alias
        if let Some(i) = t.find("  ; ") { t = t[..i].trim_end(); } else if let Some(i) = t.find(" ; ") { t = t[..i].trim_end(); }
        let mut loc = "-".to_string();
        if let Some(r) = t.strip_prefix('@') { let (a, b) = r.split_once(char::is_whitespace).unwrap_or((r, "")); loc = a.to_string(); t = b.trim_start(); }
        let (res, rest) = match t.split_once(" = ") { Some((a, b)) if a.split(", ").all(is_value) => (Some(a.to_string()), b), _ => (None, t) };
        let (opfull, args) = rest.split_once(' ').unwrap_or((rest, ""));
        let (op, ty) = opfull.split_once('.').map(|(a, b)| (a, Some(b))).unwrap_or((opfull, None));
        if loc == "-" && op == "iconst" { continue; }  // inserted by cranelift-frontend for a variable read before any write
        if group != (cur_block, loc.clone()) { group = (cur_block, loc.clone()); locals.clear(); }
        let opname = if keeps_type(op) { match ty { Some(t) => format!("{}.{}", op, t), None => op.to_string() } } else { op.to_string() };
        // arguments
        let mut cargs = vec![];
        let bits = match ty { Some("i8") => 8, Some("i16") => 16, Some("i32") => 32, _ => 64 };
        let mut depth = 0usize; let mut curtok = String::new(); let mut toks = vec![];
        for ch in args.chars() { match ch { '(' => { depth += 1; curtok.push(ch); } ')' => { depth -= 1; curtok.push(ch); } ',' if depth == 0 => { toks.push(curtok.trim().to_string()); curtok.clear(); } _ => curtok.push(ch) } }
        if !curtok.trim().is_empty() { toks.push(curtok.trim().to_string()); }
        if op == "call" || op == "call_indirect" {
            // call fnK(args): the callee is not identified (helper declarations are numbered in hash-map order)
            let inner = args.find('(').map(|i| &args[i + 1..]).unwrap_or("").trim_end_matches(')');
            let vs: Vec<String> = inner.split(',').map(|v| v.trim()).filter(|v| !v.is_empty()).map(|v| val(v, &locals, ctx.map(|_| &rs), cur_block)).collect();
            let callee = if resolved { let name = args.split('(').next().unwrap_or("").trim().to_string(); let n = rs.fns.len(); format!("fn#{}", *rs.fns.entry(name).or_insert(n)) } else { "fn".to_string() };
            toks.clear(); cargs.push(format!("{}({})", callee, vs.join(", ")));
        }
        for tk in toks {
            // branch arguments are dropped: "block3(v2, v74)" -> "block3"
            let tk = if tk.contains("block") { let mut d = 0usize; tk.chars().filter(|&c| { if c == '(' { d += 1; false } else if c == ')' { d -= 1; false } else { d == 0 } }).collect::<String>() } else { tk };
            // a token may be several words: "little v20-8", "ne v3", "fn0(v1, v2)"
            let mut words = vec![];
            for w in tk.split_whitespace() {
                let w = w.to_string();
                if w.starts_with("block") { words.push(blk(&w)); continue; }
                // value, possibly with an offset: v20-8, v20+4
                let (v, off) = match w.find(|c| c == '+' || c == '-') { Some(i) if i > 0 && is_value(&w[..i]) => (w[..i].to_string(), w[i..].to_string()), _ => (w.clone(), String::new()) };
                let vtrim = v.trim_end_matches(')');
                if is_value(vtrim) { words.push(format!("{}{}{}", val(vtrim, &locals, ctx.map(|_| &rs), cur_block), off, if v.ends_with(')') { ")" } else { "" })); continue; }
                if op == "iconst" { if let Some(i) = parse_imm(&w) { let m = if bits == 64 { i as u64 } else { (i as u64) & ((1u64 << bits) - 1) }; words.push(format!("{:x}", m)); continue; } }
                if let Some(i) = parse_imm(&w) { words.push(format!("{}", i)); continue; }
                words.push(w);
            }
            cargs.push(words.join(" "));
        }
        if let Some(r) = &res { for v in r.split(", ") { let k = locals.len(); locals.insert(v.to_string(), k);
            if resolved { rs.blockdefs.insert(v.to_string(), (loc.clone(), k)); if cur_block == 0 { rs.b0defs.insert(v.to_string(), k); } } } }
        out.push(format!("{} {}{}{}", loc, opname, if cargs.is_empty() { "" } else { " " }, cargs.join(", ")));
    }
    out
}

fn val(v: &str, locals: &HashMap<String, usize>, rs: Option<&Resolve>, cur_block: usize) -> String {
    if let Some(k) = locals.get(v) { return format!("l{}", k); }
    if let Some(rs) = rs {
        if let Some((loc, k)) = rs.blockdefs.get(v) { return format!("{}.{}", loc, k); }
        let mut r = v.to_string();
        for _ in 0..100000 { match rs.alias.get(&r) { Some(n) => r = n.clone(), None => break } }
        if let Some(n) = rs.fparams.get(&r) { return format!("a{}", n); }
        if cur_block != 0 { if let Some(k) = rs.b0defs.get(&r) { if (1..=4).contains(k) { return format!("-.{}", k); } } }
    }
    "x".to_string()
}

pub fn digest(ir: &str) -> (usize, u64) {
    let c = canon(ir);
    (c.len(), crate::exec::fnv(c.join("\n").as_bytes()))
}

/// suite `clifir`: the distinct (program, registered helper ids) pairs of the engine suites with at most 64 slots, as
/// `clifdump <prog> <ids> res` cases: the resolved canonical form (which also names, where the text allows it, the variable an
/// operand reads) is printed in full by both sides and compared line by line
pub fn gen(w: &mut impl std::io::Write, thorough: bool, seed: u64) {
    let mut buf: Vec<u8> = vec![];
    crate::exec::gen_engines(&mut buf, thorough, seed);
    crate::exec::gen_clifprobe(&mut buf, thorough, seed);
    let text = String::from_utf8(buf).unwrap();
    let mut seen: std::collections::HashSet<(String, String)> = std::collections::HashSet::new();
    let mut k = 0usize;
    for l in text.lines() {
        let mut prog = ""; let mut helpers = "-"; let mut patched = false;
        for t in l.split_ascii_whitespace() {
            if let Some(v) = t.strip_prefix("prog=") { prog = v; }
            if let Some(v) = t.strip_prefix("helpers=") { helpers = v; }
            if t.starts_with("patch=") && t != "patch=-" { patched = true; }
        }
        if prog.is_empty() || prog == "-" || prog.len() > 16 * 64 || patched { continue; }
        // exec cases write helper ids in hex, `clifdump` takes them in decimal
        let ids: Vec<String> = if helpers == "-" { vec![] } else { helpers.split(',').filter_map(|e| e.split(':').next()).filter_map(|h| u32::from_str_radix(h, 16).ok()).map(|k| k.to_string()).collect() };
        let ids = if ids.is_empty() { "-".to_string() } else { ids.join(",") };
        if !seen.insert((prog.to_string(), ids.clone())) { continue; }
        k += 1;
        if !thorough && k % 2 == 0 { continue; }
        writeln!(w, "clifdump {} {} res", prog, ids).unwrap();
    }
}
