/// splitmix64: the single PRNG every generator derives its choices from.
pub struct Rng(pub u64);
impl Rng {
    pub fn new(seed: u64) -> Self { Rng(seed ^ 0x9e3779b97f4a7c15) }
    pub fn next(&mut self) -> u64 {
        self.0 = self.0.wrapping_add(0x9e3779b97f4a7c15);
        let mut z = self.0;
        z = (z ^ (z >> 30)).wrapping_mul(0xbf58476d1ce4e5b9);
        z = (z ^ (z >> 27)).wrapping_mul(0x94d049bb133111eb);
        z ^ (z >> 31)
    }
    pub fn below(&mut self, n: u64) -> u64 { if n == 0 { 0 } else { self.next() % n } }
    pub fn pick<'a, T>(&mut self, xs: &'a [T]) -> &'a T { &xs[self.below(xs.len() as u64) as usize] }
    pub fn chance(&mut self, num: u64, den: u64) -> bool { self.below(den) < num }
}

pub const V64: &[u64] = &[
    0, 1, 2, 3, 0x7f, 0x80, 0xff, 0x100, 0x7fff, 0x8000, 0xffff, 0x7fff_ffff, 0x8000_0000,
    0xffff_ffff, 0x1_0000_0000, 0x1_0000_0001, 0x7fff_ffff_ffff_ffff, 0x8000_0000_0000_0000,
    0xffff_ffff_ffff_ffff, 31, 32, 33, 63, 64, 65, 0xffff_ffff_8000_0000, 0xffff_ffff_7fff_ffff,
    0x8000_0000_0000_0001, 0x0123_4567_89ab_cdef, 0xfedc_ba98_7654_3210,
];
pub const I32: &[i32] = &[
    0, 1, -1, 2, 16, 31, 32, 33, 63, 64, 0x7f, 0x80, 0xff, 0xffff, 0x7fff_ffff, -0x8000_0000, -2,
    0x1234_5678, -0x1234_5678, 0x8000, -0x8000, 0x10000,
];
pub const O16: &[i16] = &[0, 1, -1, 2, 7, 8, 127, 128, -128, -129, 32767, -32768, 255, 256, -256];

pub fn hex(bytes: &[u8]) -> String {
    if bytes.is_empty() { return "-".into(); }
    let mut s = String::with_capacity(bytes.len() * 2);
    for b in bytes { s.push_str(&format!("{:02x}", b)); }
    s
}
pub fn unhex(s: &str) -> Option<Vec<u8>> {
    if s == "-" { return Some(vec![]); }
    if s.len() % 2 != 0 { return None; }
    let b = s.as_bytes();
    let mut v = Vec::with_capacity(s.len() / 2);
    for i in 0..s.len() / 2 {
        let h = (b[2 * i] as char).to_digit(16)?;
        let l = (b[2 * i + 1] as char).to_digit(16)?;
        v.push((h * 16 + l) as u8);
    }
    Some(v)
}
