//! program construction helpers and generators shared by the verify / exec suites
use crate::rng::*;

pub fn ins(opc: u8, dst: u8, src: u8, off: i16, imm: i32) -> [u8; 8] {
    let o = off.to_le_bytes(); let i = imm.to_le_bytes();
    [opc, (src << 4) | (dst & 0xf), o[0], o[1], i[0], i[1], i[2], i[3]]
}
pub fn lddw(dst: u8, v: u64) -> Vec<u8> {
    let mut p = ins(0x18, dst, 0, 0, v as u32 as i32).to_vec();
    p.extend_from_slice(&ins(0, 0, 0, 0, (v >> 32) as u32 as i32));
    p
}
pub const EXIT: [u8; 8] = [0x95, 0, 0, 0, 0, 0, 0, 0];

pub const ALU_BIN: &[u8] = &[0x00, 0x10, 0x20, 0x30, 0x40, 0x50, 0x60, 0x70, 0x90, 0xa0, 0xb0, 0xc0];
pub const JCOND: &[u8] = &[0x10, 0x20, 0x30, 0x40, 0x50, 0x60, 0x70, 0xa0, 0xb0, 0xc0, 0xd0];

pub const SUPPORTED: &[u8] = &[
    0x30, 0x28, 0x20, 0x38, 0x50, 0x48, 0x40, 0x58, 0x18, 0x71, 0x69, 0x61, 0x79, 0x72, 0x6a, 0x62, 0x7a, 0x73, 0x6b, 0x63, 0x7b, 0xc3, 0xdb,
    0x04, 0x0c, 0x14, 0x1c, 0x24, 0x2c, 0x34, 0x3c, 0x44, 0x4c, 0x54, 0x5c, 0x64, 0x6c, 0x74, 0x7c, 0x84, 0x94, 0x9c, 0xa4, 0xac, 0xb4, 0xbc, 0xc4, 0xcc, 0xd4, 0xdc,
    0x07, 0x0f, 0x17, 0x1f, 0x27, 0x2f, 0x37, 0x3f, 0x47, 0x4f, 0x57, 0x5f, 0x67, 0x6f, 0x77, 0x7f, 0x87, 0x97, 0x9f, 0xa7, 0xaf, 0xb7, 0xbf, 0xc7, 0xcf,
    0x05, 0x15, 0x1d, 0x25, 0x2d, 0x35, 0x3d, 0xa5, 0xad, 0xb5, 0xbd, 0x45, 0x4d, 0x55, 0x5d, 0x65, 0x6d, 0x75, 0x7d, 0xc5, 0xcd, 0xd5, 0xdd,
    0x16, 0x1e, 0x26, 0x2e, 0x36, 0x3e, 0xa6, 0xae, 0xb6, 0xbe, 0x46, 0x4e, 0x56, 0x5e, 0x66, 0x6e, 0x76, 0x7e, 0xc6, 0xce, 0xd6, 0xde,
    0x85, 0x95,
];
pub fn is_jump(opc: u8) -> bool { (opc & 7 == 5 || opc & 7 == 6) && opc != 0x85 && opc != 0x95 && opc != 0x8d && SUPPORTED.contains(&opc) }
pub fn is_alu(opc: u8) -> bool { (opc & 7 == 4 || opc & 7 == 7) && SUPPORTED.contains(&opc) }

/// initialise r0..r9 with distinct constants (10 lddw = 20 slots)
pub fn init_regs(p: &mut Vec<u8>) {
    for r in 0..10u8 { p.extend(lddw(r, 0x0101_0101_0101_0101u64.wrapping_mul(r as u64 + 1) ^ 0x00f0_0000_000f_0000)); }
}
/// fold r1..r9 into r0 (27 slots), then exit
pub fn fold_exit(p: &mut Vec<u8>) {
    for r in 1..10u8 {
        p.extend(ins(0x27, r, 0, 0, 2 * r as i32 + 1));  // mul64 rR, odd
        p.extend(ins(0x0f, 0, r, 0, 0));                 // add64 r0, rR
        p.extend(ins(0x27, 0, 0, 0, 31));                // mul64 r0, 31
    }
    p.extend(EXIT);
}

/// a random well-formed, terminating, mostly in-bounds program
pub struct GenCfg { pub max_len: usize, pub helpers: Vec<u32>, pub mem_len: usize, pub mbuff_len: usize, pub calls: bool, pub engine_safe: bool }

pub fn random_program(r: &mut Rng, cfg: &GenCfg) -> Vec<u8> {
    // layout: prologue, body blocks, exit, then local functions (each ending in exit)
    let mut p: Vec<u8> = vec![];
    // r6 := packet/metadata pointer (r1); r7 is the loop counter
    p.extend(ins(0xbf, 6, 1, 0, 0));
    if cfg.engine_safe {   // compiled code starts with garbage in every register but r1 and r10
        for rr in [0u8, 1, 2, 3, 4, 5, 7, 8, 9] { let v = r.next(); p.extend(lddw(rr, v)); }
    }
    let nblocks = 1 + r.below(6) as usize;
    let mut funcs: Vec<Vec<u8>> = vec![];
    let nfuncs = if cfg.calls { r.below(3) as usize } else { 0 };
    for _ in 0..nfuncs { let n = 3 + r.below(8) as usize; funcs.push(block(r, cfg, n, true)); }
    let mut body: Vec<u8> = vec![];
    let mut call_sites: Vec<(usize, usize)> = vec![]; // (slot index in body, func idx)
    for _ in 0..nblocks {
        let n = 2 + r.below(10) as usize;
        let b = block(r, cfg, n, false);
        body.extend(b);
        if nfuncs > 0 && r.chance(1, 2) { call_sites.push((body.len() / 8, r.below(nfuncs as u64) as usize)); body.extend(ins(0x85, 0, 1, 0, 0)); }
        if body.len() / 8 > cfg.max_len { break; }
    }
    // result: fold a few registers
    body.extend(ins(0x0f, 0, 2, 0, 0)); body.extend(ins(0xaf, 0, 3, 0, 0)); body.extend(ins(0x0f, 0, 8, 0, 0)); body.extend(ins(0x0f, 0, 9, 0, 0));
    body.extend(EXIT);
    let base = p.len() / 8;
    let body_slots = body.len() / 8;
    let mut starts = vec![]; let mut cur = base + body_slots;
    for f in &funcs { starts.push(cur); cur += f.len() / 8 + 1; }
    for (slot, fi) in call_sites {
        let at = base + slot; let disp = starts[fi] as i64 - (at as i64 + 1);
        body[slot * 8 + 4..slot * 8 + 8].copy_from_slice(&(disp as i32).to_le_bytes());
    }
    p.extend(body);
    for f in funcs { p.extend(f); p.extend(EXIT); }
    p
}

fn block(r: &mut Rng, cfg: &GenCfg, n: usize, in_func: bool) -> Vec<u8> {
    let mut b: Vec<u8> = vec![];
    let regs: &[u8] = &[0, 1, 2, 3, 4, 5, 8, 9];
    let mut i = 0;
    while i < n {
        i += 1;
        let d = *r.pick(regs); let s = *r.pick(&[0u8, 1, 2, 3, 4, 5, 6, 7, 8, 9, 10]);
        let sv = if s == 10 || s == 6 { 2 } else { s };  // never use a pointer register as a value
        match r.below(20) {
            0..=5 => {
                let op = *r.pick(ALU_BIN); let cls = if r.chance(1, 2) { 7 } else { 4 }; let x = if r.chance(1, 2) { 8 } else { 0 };
                let imm = if r.chance(1, 2) { *r.pick(I32) } else { r.next() as i32 };
                b.extend(ins(op | x | cls, d, sv, 0, imm));
            }
            6 => b.extend(ins(0x80 | if r.chance(1, 2) { 7 } else { 4 }, d, 0, 0, 0)),
            7 => b.extend(ins(if r.chance(1, 2) { 0xd4 } else { 0xdc }, d, 0, 0, *r.pick(&[16, 32, 64]))),
            8 => { let v = if r.chance(1, 2) { *r.pick(V64) } else { r.next() }; b.extend(lddw(d, v)) }
            9 | 10 => { // stack store then load
                let w = *r.pick(&[(0x73u8, 0x71u8, 1i16), (0x6b, 0x69, 2), (0x63, 0x61, 4), (0x7b, 0x79, 8)]);
                let off = -(w.2 * (1 + r.below(16) as i16)) - if r.chance(1, 4) { 1 } else { 0 };
                if r.chance(1, 2) { b.extend(ins(w.0, 10, sv, off, 0)); }
                else { b.extend(ins(w.0 - 1, 10, 0, off, r.next() as i32)); }
                b.extend(ins(w.1, d, 10, off, 0));
            }
            11 if cfg.mem_len + cfg.mbuff_len > 0 => { // load from the r1 region (packet or metadata)
                let len = if cfg.mbuff_len > 0 { cfg.mbuff_len } else { cfg.mem_len };
                let w = *r.pick(&[(0x71u8, 1usize), (0x69, 2), (0x61, 4), (0x79, 8)]);
                if len >= w.1 { let off = r.below((len - w.1 + 1) as u64) as i16; b.extend(ins(w.0, d, 6, off, 0)); }
            }
            12 if cfg.mem_len + cfg.mbuff_len > 0 => { // store into the r1 region
                let len = if cfg.mbuff_len > 0 { cfg.mbuff_len } else { cfg.mem_len };
                let w = *r.pick(&[(0x73u8, 1usize), (0x6b, 2), (0x63, 4), (0x7b, 8)]);
                if len >= w.1 { let off = r.below((len - w.1 + 1) as u64) as i16; b.extend(ins(w.0, 6, sv, off, 0)); }
            }
            13 if cfg.mem_len >= 8 => { // ldabs / ldind
                let w = *r.pick(&[(0x30u8, 0x50u8, 1usize), (0x28, 0x48, 2), (0x20, 0x40, 4), (0x38, 0x58, 8)]);
                let off = r.below((cfg.mem_len - w.2 + 1) as u64) as i32;
                if r.chance(1, 2) { b.extend(ins(w.0, 0, 0, 0, off)); }
                else { b.extend(ins(0xb7, 9, 0, 0, 0)); b.extend(ins(w.1, 0, 9, 0, off)); }
            }
            14 | 15 => { // forward conditional skip over 1..3 simple instructions
                let k = 1 + r.below(3) as usize;
                let op = *r.pick(JCOND); let cls = if r.chance(1, 2) { 5 } else { 6 }; let x = if r.chance(1, 2) { 8 } else { 0 };
                let imm = if r.chance(1, 2) { *r.pick(I32) } else { r.next() as i32 };
                b.extend(ins(op | x | cls, d, sv, k as i16, imm));
                for _ in 0..k { let rr = *r.pick(regs); b.extend(ins(0x07, rr, 0, 0, r.next() as i32)); }
            }
            16 if !in_func => { // bounded loop on r7
                let cnt = 1 + r.below(5) as i32; let k = 1 + r.below(3) as usize;
                b.extend(ins(0xb7, 7, 0, 0, cnt));
                for _ in 0..k { let o = *r.pick(&[0x07u8, 0x27, 0xa7, 0x67, 0x77]); let rr = *r.pick(regs); b.extend(ins(o, rr, 0, 0, (r.next() % 64) as i32)); }
                b.extend(ins(0x17, 7, 0, 0, 1));
                b.extend(ins(0x55, 7, 0, -(k as i16 + 2), 0));
            }
            17 if !cfg.helpers.is_empty() => { let h = *r.pick(&cfg.helpers); b.extend(ins(0x85, 0, 0, 0, h as i32));
                if cfg.engine_safe { for rr in 1..6u8 { let v = if r.chance(1, 2) { *r.pick(V64) } else { r.next() }; b.extend(lddw(rr, v)); } } }
            18 => { // xadd on the stack, aligned
                let (opc, w) = if r.chance(1, 2) { (0xc3u8, 4i16) } else { (0xdbu8, 8i16) };
                let off = -(w * (1 + r.below(8) as i16));
                if cfg.engine_safe { b.extend(ins(0x7b, 10, sv, off & !7, 0)); }
                b.extend(ins(opc, 10, sv, off, 0));
                b.extend(ins(if w == 4 { 0x61 } else { 0x79 }, d, 10, off, 0));
            }
            _ => { b.extend(ins(0xbf, d, sv, 0, 0)); }
        }
    }
    b
}
