//! suite `helper` (C19): the built-in helpers of rbpf::helpers on argument tuples.
use crate::rng::*;
use rbpf::helpers;
use std::io::Write;

fn u(s: &str) -> Option<u64> { u64::from_str_radix(s, 16).ok() }

/// run `f` with fd 1 redirected to a scratch file; returns (result, bytes written to stdout)
fn capture_stdout<T>(f: impl FnOnce() -> T) -> (T, usize) {
    use std::io::{Read, Seek, SeekFrom};
    use std::os::unix::io::AsRawFd;
    let mut tmp = tempfile();
    let _ = std::io::stdout().flush();
    unsafe {
        let saved = libc::dup(1);
        libc::dup2(tmp.as_raw_fd(), 1);
        let r = f();
        let _ = std::io::stdout().flush();
        libc::dup2(saved, 1);
        libc::close(saved);
        let mut s = String::new();
        tmp.seek(SeekFrom::Start(0)).unwrap();
        tmp.read_to_string(&mut s).unwrap();
        (r, s.len())
    }
}
fn tempfile() -> std::fs::File {
    let p = std::env::temp_dir().join(format!("rbpf_harness_{}_{}", std::process::id(), std::time::SystemTime::now().duration_since(std::time::UNIX_EPOCH).unwrap().as_nanos()));
    let f = std::fs::OpenOptions::new().read(true).write(true).create(true).truncate(true).open(&p).unwrap();
    let _ = std::fs::remove_file(&p);
    f
}

pub fn run(t: &[&str]) -> String {
    let t: Vec<String> = t.iter().map(|s| s.to_string()).collect();
    crate::catch(move || {
        let t: Vec<&str> = t.iter().map(|s| s.as_str()).collect();
        match t[1] {
            "gather" if t.len() == 7 => {
                let v: Option<Vec<u64>> = t[2..7].iter().map(|s| u(s)).collect();
                let Some(v) = v else { return "bad-op".into() };
                format!("ok {:016x}", helpers::gather_bytes(v[0], v[1], v[2], v[3], v[4]))
            }
            "memfrob" if t.len() == 5 => {
                let (Some(mut b), Some(off), Some(len)) = (unhex(t[2]), u(t[3]), u(t[4])) else { return "bad-op".into() };
                if len > 0 && off + len > b.len() as u64 { return "precondition".into(); }
                let r = helpers::memfrob(b.as_mut_ptr() as u64 + off, len, 1, 2, 3);
                format!("ok {:016x} {}", r, hex(&b))
            }
            "strcmp" if t.len() == 4 => {
                let get = |s: &str| -> Option<Option<Vec<u8>>> { if s == "null" { Some(None) } else { unhex(s).map(Some) } };
                let (Some(a), Some(b)) = (get(t[2]), get(t[3])) else { return "bad-op".into() };
                // precondition: both strings NUL-terminated within the buffer (when they have to be read)
                let p = |x: &Option<Vec<u8>>| x.as_ref().map(|v| v.as_ptr() as u64).unwrap_or(0);
                if a.is_some() && b.is_some() {
                    let (x, y) = (a.as_ref().unwrap(), b.as_ref().unwrap());
                    let mut i = 0; loop { if i >= x.len() || i >= y.len() { return "precondition".into(); } if x[i] != y[i] || x[i] == 0 { break; } i += 1; }
                }
                format!("ok {:016x}", helpers::strcmp(p(&a), p(&b), 0, 0, 0))
            }
            "printf" if t.len() == 5 => {
                let (Some(a), Some(b), Some(c)) = (u(t[2]), u(t[3]), u(t[4])) else { return "bad-op".into() };
                let (r, n) = capture_stdout(|| helpers::bpf_trace_printf(0, 0, a, b, c));
                format!("ok ret={} printed={}", r, n)
            }
            "rand" if t.len() == 5 => {
                let (Some(a), Some(b), Some(k)) = (u(t[2]), u(t[3]), u(t[4])) else { return "bad-op".into() };
                for _ in 0..k { let v = helpers::rand(a, b, 0, 0, 0); if a < b && !(a <= v && v <= b) { return format!("ok out-of-range:{:x}", v); } }
                "ok inrange".into()
            }
            "sqrti" if t.len() == 3 => { let Some(n) = u(t[2]) else { return "bad-op".into() }; format!("ok {:016x}", helpers::sqrti(n, 0, 0, 0, 0)) }
            _ => "bad-op".into(),
        }
    })
}

pub fn gen(w: &mut impl Write, thorough: bool, seed: u64) {
    let mut r = Rng::new(seed ^ 0x4e1);
    for _ in 0..(if thorough { 200_000 } else { 20_000 }) {
        let v: Vec<u64> = (0..5).map(|_| if r.chance(2, 3) { *r.pick(V64) } else { r.next() }).collect();
        writeln!(w, "helper gather {:x} {:x} {:x} {:x} {:x}", v[0], v[1], v[2], v[3], v[4]).unwrap();
    }
    for len in 0..=64usize { for _ in 0..(if thorough { 40 } else { 6 }) {
        let b: Vec<u8> = (0..len).map(|_| r.next() as u8).collect();
        let off = r.below(len as u64 + 1); let n = r.below(len as u64 - off + 1);
        writeln!(w, "helper memfrob {} {:x} {:x}", hex(&b), off, n).unwrap();
        writeln!(w, "helper memfrob {} 0 {:x}", hex(&b), len).unwrap();
    } }
    // strcmp: equal, prefix, differing at each position, empty, null
    for len in 0..=24usize { for _ in 0..(if thorough { 60 } else { 10 }) {
        let mut a: Vec<u8> = (0..len).map(|_| 1 + (r.next() % 255) as u8).collect(); a.push(0);
        let mut b = a.clone();
        match r.below(5) { 0 => {}, 1 => { if len > 0 { let k = r.below(len as u64) as usize; b[k] = 1 + (r.next() % 255) as u8; } }
            2 => { let k = r.below(len as u64 + 1) as usize; b.truncate(k); b.push(0); }
            3 => { b.pop(); b.push(1 + (r.next() % 255) as u8); b.push(0); }
            _ => { if len > 0 { let k = r.below(len as u64) as usize; b[k] = if r.chance(1, 2) { 0xff } else { 0x80 }; a[k] = if r.chance(1, 2) { 1 } else { 0x7f }; } } }
        if r.chance(1, 6) { a.extend([7u8, 0, 9]); }
        writeln!(w, "helper strcmp {} {}", hex(&a), hex(&b)).unwrap();
        writeln!(w, "helper strcmp {} {}", hex(&b), hex(&a)).unwrap();
    } }
    for (a, b) in [("null", "6100"), ("6100", "null"), ("null", "null"), ("00", "00"), ("00", "6100"), ("ff00", "0100"), ("0100", "ff00")] { writeln!(w, "helper strcmp {} {}", a, b).unwrap(); }
    // printf: around every power of 16, 2^52 +- 1, u64::MAX
    let mut vals: Vec<u64> = vec![0, 1, u64::MAX, (1 << 52) - 1, 1 << 52, (1 << 52) + 1, (1 << 53) - 1, 1 << 53, (1 << 53) + 1];
    for k in 1..16 { let p = 1u64 << (4 * k); vals.extend([p - 1, p, p + 1]); }
    for k in 48..64 { let p = 1u64 << k; vals.extend([p - 1, p, p + 1]); }
    for &a in &vals { writeln!(w, "helper printf {:x} {:x} {:x}", a, *r.pick(&vals), *r.pick(&vals)).unwrap(); writeln!(w, "helper printf {:x} {:x} {:x}", *r.pick(&vals), a, 0).unwrap(); writeln!(w, "helper printf 1 2 {:x}", a).unwrap(); }
    for _ in 0..(if thorough { 20_000 } else { 500 }) { writeln!(w, "helper printf {:x} {:x} {:x}", r.next() >> r.below(64), r.next() >> r.below(64), r.next() >> r.below(64)).unwrap(); }
    // rand: boundary (min, max) pairs
    let pairs: &[(u64, u64)] = &[(0, 1), (0, u64::MAX), (1, u64::MAX), (0, u64::MAX - 1), (u64::MAX - 1, u64::MAX), (5, 5), (7, 3), (0, 0), (u64::MAX, u64::MAX), (u64::MAX, 0),
        (1 << 63, (1 << 63) + 1), (0, 1 << 63), (10, 20), (0, 255), (0x7fff_ffff_ffff_ffff, 0x8000_0000_0000_0000)];
    for &(a, b) in pairs { writeln!(w, "helper rand {:x} {:x} {:x}", a, b, if thorough { 2000 } else { 200 }).unwrap(); }
    for _ in 0..(if thorough { 20000 } else { 1000 }) { let (a, b) = (r.next() >> r.below(64), r.next() >> r.below(64)); writeln!(w, "helper rand {:x} {:x} 20", a, b).unwrap(); }
    // sqrti: k^2-1, k^2, k^2+1 around powers of two and random k; large values; (all k <= 2^26 in the soak target)
    let mut ks: Vec<u64> = (0..2000).collect();
    for e in 1..=32 { let p = 1u64 << e; ks.extend([p - 2, p - 1, p, p + 1]); }
    for _ in 0..(if thorough { 2_000_000 } else { 50_000 }) { ks.push(r.below(1 << 26)); }
    for _ in 0..(if thorough { 200_000 } else { 20_000 }) { ks.push(r.below(1 << 32)); }
    for k in ks { let q = k.wrapping_mul(k); for n in [q.wrapping_sub(1), q, q.wrapping_add(1)] { writeln!(w, "helper sqrti {:x}", n).unwrap(); } }
    for &v in V64 { writeln!(w, "helper sqrti {:x}", v).unwrap(); }
    for _ in 0..(if thorough { 500_000 } else { 20_000 }) { writeln!(w, "helper sqrti {:x}", r.next() >> r.below(20)).unwrap(); }
}
