//! suite `xadd` (C18): N concurrent executions on a mix of engines, each performing K atomic adds on one shared word.
//! A sampled-schedule stress test (the interleavings actually taken are whatever the hardware does).
use crate::progen::*;
use crate::rng::*;
use std::io::Write;

fn program(width: usize, k: i32, addend: u64, off: i16) -> Vec<u8> {
    let mut p = vec![];
    p.extend(ins(0xbf, 6, 1, 0, 0));          // r6 = packet pointer
    p.extend(ins(0xb7, 7, 0, 0, k));          // r7 = K
    p.extend(lddw(2, addend));
    p.extend(ins(if width == 4 { 0xc3 } else { 0xdb }, 6, 2, off, 0));
    p.extend(ins(0x17, 7, 0, 0, 1));
    p.extend(ins(0x55, 7, 0, -3, 0));
    p.extend(ins(0xb7, 0, 0, 0, 0));
    p.extend(EXIT);
    p
}

pub fn run(t: &[&str]) -> String {
    let mut kv = std::collections::HashMap::new();
    for tok in &t[1..] { if let Some((k, v)) = tok.split_once('=') { kv.insert(k, v); } }
    let get = |k: &str, d: u64| kv.get(k).and_then(|s| u64::from_str_radix(s, 16).ok()).unwrap_or(d);
    let threads = get("threads", 4) as usize; let k = get("k", 1000) as i32; let width = get("width", 8) as usize;
    let addend = get("addend", 1); let init = get("init", 0); let off = get("off", 8) as i16;
    let engines: Vec<String> = kv.get("engines").map(|s| s.split(',').map(|x| x.to_string()).collect()).unwrap_or_else(|| vec!["interp".into()]);
    // shared cell: [canary][word][canary], 8-byte aligned
    let mut cell: Vec<u64> = vec![0xa5a5_a5a5_a5a5_a5a5, init, 0x5a5a_5a5a_5a5a_5a5a];
    let ptr = cell.as_mut_ptr() as usize;
    let prog = program(width, k, addend, off);
    rbpf::verif::set_insn_budget(0);
    let mut handles = vec![];
    for i in 0..threads {
        let e = engines[i % engines.len()].clone(); let prog = prog.clone();
        handles.push(std::thread::spawn(move || -> String {
            let mem: &mut [u8] = unsafe { std::slice::from_raw_parts_mut(ptr as *mut u8, 24) };
            let r = std::panic::catch_unwind(std::panic::AssertUnwindSafe(|| -> Result<u64, String> {
                let mut vm = rbpf::EbpfVmRaw::new(Some(&prog)).map_err(|e| e.to_string())?;
                match e.as_str() {
                    "jit" => { vm.jit_compile().map_err(|e| e.to_string())?; unsafe { vm.execute_program_jit(mem) }.map_err(|e| e.to_string()) }
                    "clif" => { vm.cranelift_compile().map_err(|e| e.to_string())?; vm.execute_program_cranelift(mem).map_err(|e| e.to_string()) }
                    _ => vm.execute_program(mem).map_err(|e| e.to_string()),
                }
            }));
            match r { Ok(Ok(_)) => "ok".into(), Ok(Err(m)) => if m.contains("unaligned") { "unaligned".into() } else { format!("err:{}", m.replace(' ', "_")) }, Err(_) => "panic".into() }
        }));
    }
    let outs: Vec<String> = handles.into_iter().map(|h| h.join().unwrap_or_else(|_| "panic".into())).collect();
    let mut kinds: Vec<String> = outs.clone(); kinds.sort(); kinds.dedup();
    let canary = if cell[0] == 0xa5a5_a5a5_a5a5_a5a5 && cell[2] == 0x5a5a_5a5a_5a5a_5a5a { "ok" } else { "bad" };
    format!("{} word={:016x} canary={}", kinds.join("+"), cell[1], canary)
}

pub fn gen(w: &mut impl Write, thorough: bool, seed: u64) {
    let mut r = Rng::new(seed ^ 0x18);
    let mixes = ["interp", "jit", "clif", "interp,jit", "interp,clif", "jit,clif", "interp,jit,clif"];
    let reps = if thorough { 40 } else { 3 };
    for _ in 0..reps { for mix in mixes { for width in [4usize, 8] { for threads in [1usize, 2, 4, 16] {
        let k = if thorough { 20000 } else { 3000 };
        let addend = match r.below(4) { 0 => 1, 1 => u64::MAX, 2 => 0x1_0000_0001, _ => r.next() };
        let init = if r.chance(1, 2) { 0 } else { r.next() };
        writeln!(w, "xadd threads={:x} k={:x} width={:x} addend={:x} init={:x} off=8 engines={}", threads, k, width, addend, init, mix).unwrap();
    } } } }
    // misaligned: the interpreter refuses, memory unchanged
    for width in [4usize, 8] { for off in [9i16, 10, 11, 12, 13, 15] { if width == 4 && off == 12 { continue; }
        writeln!(w, "xadd threads=4 k=5 width={:x} addend=7 init=1234 off={:x} engines=interp", width, off).unwrap(); } }
}
