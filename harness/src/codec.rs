//! suite `codec` (C17): ebpf::Insn::to_array / to_vec / get_insn / to_insn_vec and the insn_builder API.
use crate::rng::*;
use rbpf::ebpf;
use rbpf::insn_builder::*;
use std::io::Write;

fn insn_str(i: &ebpf::Insn) -> String {
    format!("{:02x},{:02x},{:02x},{:04x},{:08x}", i.opc, i.dst, i.src, i.off as u16, i.imm as u32)
}
fn p8(s: &str) -> Option<u8> { u64::from_str_radix(s, 16).ok().map(|x| x as u8) }
fn p16(s: &str) -> Option<i16> { u64::from_str_radix(s, 16).ok().map(|x| x as u16 as i16) }
fn p32(s: &str) -> Option<i32> { u64::from_str_radix(s, 16).ok().map(|x| x as u32 as i32) }

fn build(kind: &[&str], dst: u8, src: u8, off: i16, imm: i32) -> Option<Vec<u8>> {
    let n = |i: usize| -> Option<usize> { usize::from_str_radix(kind.get(i)?, 16).ok() };
    let source = |k: usize| match k { 0 => Some(Source::Imm), 1 => Some(Source::Reg), _ => None };
    let arch = |k: usize| match k { 0 => Some(Arch::X64), 1 => Some(Arch::X32), _ => None };
    let size = |k: usize| match k { 0 => Some(MemSize::Byte), 1 => Some(MemSize::HalfWord), 2 => Some(MemSize::Word), 3 => Some(MemSize::DoubleWord), _ => None };
    let cond = |k: usize| [Cond::Abs, Cond::Equals, Cond::Greater, Cond::GreaterEquals, Cond::Lower, Cond::LowerEquals,
        Cond::BitAnd, Cond::NotEquals, Cond::GreaterSigned, Cond::GreaterEqualsSigned, Cond::LowerSigned, Cond::LowerEqualsSigned].get(k).copied();
    let mut p = BpfCode::new();
    macro_rules! fin { ($e:expr) => {{ $e.set_dst(dst).set_src(src).set_off(off).set_imm(imm).push(); }}; }
    match kind[0] {
        "move" => {
            let (s, a, o) = (source(n(1)?)?, arch(n(2)?)?, n(3)?);
            match o {
                0 => fin!(p.add(s, a)), 1 => fin!(p.sub(s, a)), 2 => fin!(p.mul(s, a)), 3 => fin!(p.div(s, a)),
                4 => fin!(p.bit_or(s, a)), 5 => fin!(p.bit_and(s, a)), 6 => fin!(p.left_shift(s, a)),
                7 => fin!(p.right_shift(s, a)),
                8 => { if s != Source::Imm { return None; } fin!(p.negate(a)) }
                9 => fin!(p.modulo(s, a)), 10 => fin!(p.bit_xor(s, a)), 11 => fin!(p.mov(s, a)),
                12 => fin!(p.signed_right_shift(s, a)),
                _ => return None,
            }
        }
        "swap" => match n(1)? { 0 => fin!(p.swap_bytes(Endian::Little)), 1 => fin!(p.swap_bytes(Endian::Big)), _ => return None },
        "load" => fin!(p.load(size(n(1)?)?)),
        "load_abs" => fin!(p.load_abs(size(n(1)?)?)),
        "load_ind" => fin!(p.load_ind(size(n(1)?)?)),
        "load_x" => fin!(p.load_x(size(n(1)?)?)),
        "store" => fin!(p.store(size(n(1)?)?)),
        "store_x" => fin!(p.store_x(size(n(1)?)?)),
        "jump" => { let c = cond(n(1)?)?; let s = source(n(2)?)?;
            if c == Cond::Abs && s == Source::Imm { fin!(p.jump_unconditional()) } else { fin!(p.jump_conditional(c, s)) } }
        "call" => fin!(p.call()),
        "exit" => fin!(p.exit()),
        _ => return None,
    }
    Some(p.into_bytes().to_vec())
}

pub fn run(t: &[&str]) -> String {
    let t: Vec<String> = t.iter().map(|s| s.to_string()).collect();
    crate::catch(move || {
        let t: Vec<&str> = t.iter().map(|s| s.as_str()).collect();
        match t[0] {
            "dec" if t.len() == 2 => {
                let Some(b) = unhex(t[1]) else { return "bad-op".into() };
                let i = ebpf::get_insn(&b, 0);
                format!("i={} a={} v={}", insn_str(&i), hex(&i.to_array()), hex(&i.to_vec()))
            }
            "enc" if t.len() == 6 => {
                let (Some(opc), Some(dst), Some(src), Some(off), Some(imm)) = (p8(t[1]), p8(t[2]), p8(t[3]), p16(t[4]), p32(t[5])) else { return "bad-op".into() };
                let i = ebpf::Insn { opc, dst, src, off, imm };
                let a = i.to_array();
                let back = match std::panic::catch_unwind(|| ebpf::get_insn(&a, 0)) { Ok(j) => insn_str(&j), Err(_) => "panic".into() };
                format!("a={} v={} d={}", hex(&a), hex(&i.to_vec()), back)
            }
            "idx" if t.len() == 3 => {
                let (Some(b), Ok(k)) = (unhex(t[1]), usize::from_str_radix(t[2], 16)) else { return "bad-op".into() };
                format!("i={}", insn_str(&ebpf::get_insn(&b, k)))
            }
            "vec" if t.len() == 2 => {
                let Some(b) = unhex(t[1]) else { return "bad-op".into() };
                let v = ebpf::to_insn_vec(&b);
                format!("v={}", v.iter().map(insn_str).collect::<Vec<_>>().join(";"))
            }
            "bld" if t.len() >= 6 => {
                let n = t.len();
                let (Some(dst), Some(src), Some(off), Some(imm)) = (p8(t[n - 4]), p8(t[n - 3]), p16(t[n - 2]), p32(t[n - 1])) else { return "bad-op".into() };
                match build(&t[1..n - 4], dst, src, off, imm) {
                    Some(b) => {
                        // the instruction encoder on the instruction the builder denotes
                        let e = ebpf::Insn { opc: b[0], dst, src, off, imm }.to_array();
                        // ... and the assembler on the text the disassembler gives for that instruction (one-slot instructions)
                        let a = if b[0] == 0x18 { "skip".to_string() } else {
                            match std::panic::catch_unwind(|| rbpf::disassembler::to_insn_vec(&e)) {
                                Ok(v) if v.len() == 1 => match std::panic::catch_unwind(|| rbpf::assembler::assemble(&v[0].desc)) {
                                    Ok(Ok(bytes)) => hex(&bytes), Ok(Err(_)) => "err".to_string(), Err(_) => "panic".to_string() },
                                _ => "nodis".to_string() } };
                        format!("b={} e={} a={}", hex(&b), hex(&e), a)
                    }
                    None => "bad-op".into(),
                }
            }
            _ => "bad-op".into(),
        }
    })
}

pub fn gen(w: &mut impl Write, thorough: bool, seed: u64) {
    let mut r = Rng::new(seed);
    // --- per-field exhaustive: 256 opcodes, 256 register bytes, 65536 offsets -------------------
    for opc in 0..=255u32 { writeln!(w, "dec {:02x}{}", opc, "a1f0ff78563412").unwrap(); }
    for rb in 0..=255u32 { writeln!(w, "dec b7{:02x}{}", rb, "010278563412").unwrap(); }
    for off in 0..=0xffffu32 { writeln!(w, "dec b712{:02x}{:02x}deadbeef", off & 0xff, off >> 8).unwrap(); }
    // immediates: all single-bit and single-byte patterns, boundaries, random
    let mut imms: Vec<u32> = vec![];
    for b in 0..32 { imms.push(1 << b); imms.push(!(1u32 << b)); }
    for sh in [0, 8, 16, 24] { for v in 0..=255u32 { imms.push(v << sh); } }
    for &i in I32 { imms.push(i as u32); }
    let nrand = if thorough { 2_000_000 } else { 60_000 };
    for _ in 0..nrand { imms.push(r.next() as u32); }
    for imm in &imms { writeln!(w, "dec 6123f0ff{}", hex(&imm.to_le_bytes())).unwrap(); }
    // fully random slots
    for _ in 0..nrand { writeln!(w, "dec {}", hex(&r.next().to_le_bytes())).unwrap(); }
    // --- encode direction: all 256x256 (dst,src) bytes incl. >15, boundary offs/imms --------------
    for dst in 0..=255u32 { for src in 0..=255u32 {
        let off = *r.pick(O16) as u16; let imm = *r.pick(I32) as u32;
        writeln!(w, "enc {:x} {:x} {:x} {:x} {:x}", r.below(256), dst, src, off, imm).unwrap();
    } }
    for &off in O16 { for &imm in I32 { writeln!(w, "enc 7b a 1 {:x} {:x}", off as u16, imm as u32).unwrap(); } }
    for _ in 0..nrand / 4 {
        writeln!(w, "enc {:x} {:x} {:x} {:x} {:x}", r.below(256), r.below(16), r.below(16), r.next() as u16, r.next() as u32).unwrap();
    }
    // --- every instruction index, incomplete programs ---------------------------------------------
    for n in 0..24usize {
        let mut prog = vec![0u8; n];
        for b in prog.iter_mut() { *b = r.next() as u8; }
        for k in 0..5 { writeln!(w, "idx {} {:x}", hex(&prog), k).unwrap(); }
        writeln!(w, "vec {}", hex(&prog)).unwrap();
    }
    for _ in 0..(if thorough { 20000 } else { 2000 }) {
        let n = 1 + r.below(40) as usize;
        let mut prog = vec![0u8; n * 8 - if r.chance(1, 10) { 1 + r.below(7) as usize } else { 0 }];
        for b in prog.iter_mut() { *b = r.next() as u8; }
        let k = r.below(n as u64 + 2);
        writeln!(w, "idx {} {:x}", hex(&prog), k).unwrap();
        writeln!(w, "vec {}", hex(&prog)).unwrap();
    }
    // --- builder: every constructor x field boundaries ---------------------------------------------
    let mut kinds: Vec<String> = vec![];
    for s in 0..2 { for a in 0..2 { for o in 0..13 { if o == 8 && s == 1 { continue; } kinds.push(format!("move {s} {a} {o:x}")); } } }
    for e in 0..2 { kinds.push(format!("swap {e}")); }
    for k in ["load", "load_abs", "load_ind", "load_x", "store", "store_x"] { for m in 0..4 { kinds.push(format!("{k} {m}")); } }
    for c in 0..12 { for s in 0..2 { kinds.push(format!("jump {c:x} {s}")); } }
    kinds.push("call".into()); kinds.push("exit".into());
    for k in &kinds {
        for dst in 0..16 { for src in 0..16 {
            writeln!(w, "bld {k} {:x} {:x} {:x} {:x}", dst, src, *r.pick(O16) as u16, *r.pick(I32) as u32).unwrap();
        } }
        for &off in O16 { for &imm in I32 { writeln!(w, "bld {k} 3 a {:x} {:x}", off as u16, imm as u32).unwrap(); } }
        for _ in 0..(if thorough { 2000 } else { 100 }) {
            writeln!(w, "bld {k} {:x} {:x} {:x} {:x}", r.below(256), r.below(256), r.next() as u16, r.next() as u32).unwrap();
        }
    }
}
