#!/bin/sh
# Build the framework from files on disk only (offline). Run once after a fresh restore.
set -e
cd "$(dirname "$0")"
export CARGO_NET_OFFLINE=true
MODS=$(python3 -c "import json;print(' '.join(sorted({m for v in json.load(open('lean/obligations.json')).values() for m in (v.get('modules') or [v['module']])})))")
(cd lean && lake build $MODS rbpf_model)
(cd harness && RUSTFLAGS="--cfg rbpf_verif" cargo build --release --offline)
(cd harness_nostd && RUSTFLAGS="--cfg rbpf_verif --cfg harness_nostd" cargo build --release --offline)
echo "setup done"
