#!/bin/sh
# Build the framework from files on disk only (offline). Run once after a fresh restore.
set -e
cd "$(dirname "$0")"
export CARGO_NET_OFFLINE=true
(cd lean && lake build RbpfModel rbpf_model)
(cd harness && RUSTFLAGS="--cfg rbpf_verif" cargo build --release --offline)
echo "setup done"
