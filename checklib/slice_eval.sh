#!/bin/bash
# for every seeded patch: which generated files change (or fail to translate)?
G=${G:-/verif/lean}/RbpfModel/Generated
for d in /verif/seeded/*/; do
  n=$(basename $d); [ -f $d/patch.diff ] || continue
  T=/tmp/se_$$; rm -rf $T; mkdir -p $T/src $T/out; cp /repo/src/*.rs $T/src/
  (cd $T && patch -p1 -s < $d/patch.diff >/dev/null 2>&1) || { echo "$n PATCHFAIL"; rm -rf $T; continue; }
  res=""
  python3 /verif/checklib/gen_consts.py $T/src/ebpf.rs $T/out/EbpfConsts.lean >/dev/null 2>&1 || res="$res consts:FAIL"
  python3 /verif/checklib/gen_checkmem.py $T/src/interpreter.rs $T/out/CheckMem.lean >/dev/null 2>&1 || res="$res checkmem:FAIL"
  python3 /verif/checklib/gen_verifier.py $T/src/verifier.rs $T/out/VerifierFns.lean >/dev/null 2>&1 || res="$res verifier:FAIL"
  python3 /verif/checklib/gen_interp.py $T/src $T/out/InterpArms.lean >/dev/null 2>&1 || res="$res interp:FAIL"
  python3 /verif/checklib/gen_asm.py $T/src/assembler.rs $T/out/AsmTables.lean >/dev/null 2>&1 || res="$res asm:FAIL"
  python3 /verif/checklib/gen_disasm.py $T/src/disassembler.rs $T/out/DisasmFmt.lean >/dev/null 2>&1 || res="$res disasm:FAIL"
  python3 /verif/checklib/gen_helpers.py $T/src/helpers.rs $T/out/HelperFns.lean >/dev/null 2>&1 || res="$res helpers:FAIL"
  python3 /verif/checklib/gen_interp_ctl.py $T/src $T/out/InterpCtl.lean >/dev/null 2>&1 || res="$res ctl:FAIL"
  python3 /verif/checklib/gen_stack.py $T/src $T/out/StackEntries.lean >/dev/null 2>&1 || res="$res stack:FAIL"
  python3 /verif/checklib/gen_jit.py $T/src $T/out/JitArms.lean >/dev/null 2>&1 || res="$res jit:FAIL"
  python3 /verif/checklib/gen_clif.py $T/src $T/out/ClifFns.lean >/dev/null 2>&1 || res="$res clif:FAIL"
  python3 /verif/checklib/gen_codec.py $T/src/ebpf.rs $T/out/Codec.lean >/dev/null 2>&1 || res="$res codec:FAIL"
  python3 /verif/checklib/gen_builder.py $T/src $T/out/BuilderTables.lean >/dev/null 2>&1 || res="$res builder:FAIL"
  python3 /verif/checklib/gen_vmfixed.py $T/src/lib.rs $T/out/VmFixed.lean >/dev/null 2>&1 || res="$res vmfixed:FAIL"
  python3 /verif/checklib/gen_vmapi.py $T/src/lib.rs $T/out/VmApi.lean >/dev/null 2>&1 || res="$res vmapi:FAIL"
  for f in $T/out/*.lean; do b=$(basename $f); [ -f $G/$b ] && ! cmp -s $f $G/$b && res="$res $b"; done
  echo "$n |$res"
  rm -rf $T
done
