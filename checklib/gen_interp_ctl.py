#!/usr/bin/env python3
"""Translator (source -> Lean) for the control skeleton of src/interpreter.rs::execute_program: the loop condition, the statements at the head
of the loop body (instruction fetch, the stack-usage update, `insn_ptr += 1`), the `do_jump` closure, the arms LD_DW_IMM, CALL, TAIL_CALL, EXIT, the
default arm and the statement after the loop.  A recursive-descent parser for the statement subset these use (let, assignment and compound
assignment to the locals / reg[..], if / if-let / `&&`-chains with `let Some`, match on integer literals, the StackFrame accessors, `Err(..)?`,
`return Ok(..)`, `unreachable!()`) with typed integer expressions (overflow-checked + - *, `as` casts, comparisons); emitted as monadic Lean over the
source-shaped state of Model/InterpSrc.lean.  Output: lean/RbpfModel/Generated/InterpCtl.lean."""
import re, sys, os
REPO_SRC = sys.argv[1] if len(sys.argv) > 1 else "/repo/src"
OUT = sys.argv[2] if len(sys.argv) > 2 else os.path.join(os.path.dirname(os.path.dirname(os.path.abspath(__file__))), "lean", "RbpfModel", "Generated", "InterpCtl.lean")
sys.path.insert(0, os.path.dirname(os.path.abspath(__file__)))
from gen_interp import ebpf_consts
C = ebpf_consts(os.path.join(REPO_SRC, "ebpf.rs"))

ERRS = [("unknown helper function", "unknownHelper"), ("too many nested calls", "callDepth"), ("unsupported call type", "callType"), ("TAIL_CALL is not supported", "tailCall")]
def balanced(s, i, o="(", c=")"):
    d = 0
    for j in range(i, len(s)):
        if s[j] == o: d += 1
        elif s[j] == c:
            d -= 1
            if d == 0: return j + 1
    raise SyntaxError("unbalanced")
def preprocess(txt):
    txt = re.sub(r"//[^\n]*", "", txt)
    # Err(Error::other(format!("Error: <message> …", …)))?  ->  RAISE_<kind>
    out = []; i = 0
    while True:
        m = re.compile(r"Err\s*\(\s*Error::other\s*\(").search(txt, i)
        if not m: out.append(txt[i:]); break
        j = balanced(txt, m.start() + 3)
        inner = txt[m.start():j]
        k = re.match(r"\s*\?", txt[j:])
        kind = [v for (p, v) in ERRS if re.search(r'"Error: ' + re.escape(p), inner)]
        if k and len(kind) == 1:
            out.append(txt[i:m.start()] + " RAISE_" + kind[0] + " "); i = j + k.end()
        else:
            out.append(txt[i:j]); i = j
    txt = "".join(out)
    # instrumentation of the verification hooks (cfg rbpf_verif): a block or a single statement
    while True:
        m = re.search(r"#\[cfg\(rbpf_verif\)\]\s*", txt)
        if not m: break
        j = m.end()
        if txt[j] == "{": e = balanced(txt, j, "{", "}")
        else: e = txt.index(";", j) + 1
        txt = txt[:m.start()] + txt[e:]
    txt = re.sub(r"#\[[^\]]*\]", "", txt)
    return txt

TOK = re.compile(r"\s*(0x[0-9a-fA-F_]+|[0-9][0-9_]*|[A-Za-z_][A-Za-z0-9_]*|\.\.=|<<=|>>=|<<|>>|<=|>=|==|!=|&&|\|\||\+=|-=|\*=|=>|::|[-+*/%&|^<>=!.,;:(){}\[\]?])")
def tokenize(s):
    out = []; i = 0
    while i < len(s):
        m = TOK.match(s, i)
        if not m:
            if s[i:].strip() == "": break
            raise SyntaxError("cannot tokenize: " + s[i:i + 30])
        out.append(m.group(1)); i = m.end()
    return out

BITS = {"u8": 8, "u16": 16, "u32": 32, "u64": 64, "usize": 64, "i16": 16, "i32": 32, "i64": 64, "isize": 64}
def signed(t): return t[0] == "i"
class V:
    def __init__(self, term, ty): self.term = term; self.ty = ty
class Ctx:
    """emission context: lines of the current do-block and the counter for temporaries"""
    n = 0
    def __init__(self, ind, vars): self.ind = ind; self.lines = []; self.vars = dict(vars)
    def emit(self, s): self.lines.append(" " * self.ind + s)
    def tmp(self): Ctx.n += 1; return "t%d" % Ctx.n
    def bind(self, rhs): t = self.tmp(); self.emit("let %s ← %s" % (t, rhs)); return t
    def child(self): return Ctx(self.ind + 2, self.vars)

class P:
    def __init__(self, toks): self.t = toks; self.i = 0
    def peek(self, k=0): return self.t[self.i + k] if self.i + k < len(self.t) else None
    def eat(self, x=None):
        tok = self.peek()
        if x is not None and tok != x: raise SyntaxError("expected `%s`, got `%s` (…%s)" % (x, tok, " ".join(self.t[max(0, self.i - 6):self.i + 3])))
        self.i += 1; return tok
    def eatseq(self, *xs):
        for x in xs: self.eat(x)
    # ------------------------------------------------------------ expressions
    def expr(self, c): return self.cmp(c)
    def cmp(self, c):
        a = self.shift(c)
        if self.peek() in ("==", "!=", "<", ">", "<=", ">="):
            op = self.eat(); b = self.shift(c); a, b = unify(a, b)
            sym = {"==": "=", "!=": "≠", "<": "<", ">": ">", "<=": "≤", ">=": "≥"}[op]
            return V("decide (%s %s %s)" % (a.term, sym, b.term), "bool")
        return a
    def shift(self, c):
        a = self.add(c)
        while self.peek() == "<<":
            self.eat(); k = self.add(c)
            if k.ty != "lit" or signed(a.ty) or int(k.term) >= BITS[a.ty]: raise SyntaxError("shift")
            a = V("(shlU %d %s %s)" % (BITS[a.ty], a.term, k.term), a.ty)
        return a
    def add(self, c):
        a = self.mul(c)
        while self.peek() in ("+", "-"):
            op = self.eat(); b = self.mul(c); a, b = unify(a, b)
            if a.ty == "lit": raise SyntaxError("literal arithmetic")
            if op == "+": a = V(c.bind(("addS %d %s %s" if signed(a.ty) else "addU %d %s %s") % (BITS[a.ty], a.term, b.term)), a.ty)
            else:
                if signed(a.ty): raise SyntaxError("signed subtraction")
                a = V(c.bind("subU %s %s" % (a.term, b.term)), a.ty)
        return a
    def mul(self, c):
        a = self.cast(c)
        while self.peek() == "*":
            self.eat(); b = self.cast(c); a, b = unify(a, b)
            if a.ty == "lit" or signed(a.ty): raise SyntaxError("multiplication")
            a = V(c.bind("mulU %d %s %s" % (BITS[a.ty], a.term, b.term)), a.ty)
        return a
    def cast(self, c):
        a = self.postfix(c)
        while self.peek() == "as":
            self.eat(); t = self.eat()
            if t not in BITS: raise SyntaxError("cast to " + t)
            if a.ty == "lit": a = V(a.term, t); continue
            if a.ty not in BITS: raise SyntaxError("cast of " + a.ty)
            inner = a.term if signed(a.ty) else "(%s : Int)" % a.term
            if not signed(a.ty) and not signed(t) and BITS[t] >= BITS[a.ty]: a = V(a.term, t)           # widening between unsigned types
            elif signed(a.ty) and signed(t) and BITS[t] >= BITS[a.ty]: a = V(a.term, t)                   # widening between signed types
            else: a = V(("(asS %d %s)" if signed(t) else "(asU %d %s)") % (BITS[t], inner), t)
        return a
    def postfix(self, c):
        a = self.atom(c)
        while self.peek() == "." and a.ty in ("frame", "usagety", "prog", "helpers", "stack_usage"):
            self.eat(); m = self.eat(); self.eat("(")
            if a.ty == "frame" and m == "get_stack_usage": self.eat(")"); a = V(a.term, "usagety")
            elif a.ty == "usagety" and m == "stack_usage": self.eat(")"); a = V(c.bind("getStackUsage %s" % a.term), "u16")
            elif a.ty == "frame" and m == "get_return_address": self.eat(")"); a = V(c.bind("getReturnAddress %s" % a.term), "usize")
            elif a.ty == "prog" and m == "len": self.eat(")"); a = V("env.prog.size", "usize")
            elif a.ty == "stack_usage" and m == "stack_usage_for_local_func":
                e = self.expr(c); self.eat(")"); need(e, "usize"); a = V("(env.usage %s)" % e.term, "opt_usage")
            elif a.ty == "helpers" and m == "get":
                self.eat("&"); e = self.expr(c); self.eat(")"); need(e, "u32"); a = V("(lookupHelper env %s)" % e.term, "opt_helper")
            else: raise SyntaxError("method %s.%s" % (a.ty, m))
        return a
    def atom(self, c):
        t = self.eat()
        if t == "(":
            a = self.expr(c); self.eat(")"); return V(a.term if a.ty in ("lit",) else "(%s)" % a.term, a.ty)
        if re.fullmatch(r"0x[0-9a-fA-F_]+|[0-9][0-9_]*", t): return V(str(int(t.replace("_", ""), 0)), "lit")
        if t == "insn_ptr": return V(c.bind("getPtr"), "usize")
        if t == "stack_frame_idx": return V(c.bind("getIdx"), "usize")
        if t == "ebpf" and self.peek() == "::":
            self.eat(); n = self.eat()
            if n == "get_insn":
                self.eatseq("(", "prog", ","); e = self.expr(c); self.eat(")"); need(e, "usize")
                return V(c.bind("getInsn env.prog %s" % e.term), "insn")
            if n in C: return V(str(C[n]), "usize")
            raise SyntaxError("ebpf::" + n)
        if t == "MAX_CALL_DEPTH": return V(str(C["MAX_CALL_DEPTH"]), "usize")
        if t == "prog": return V("prog", "prog")
        if t == "helpers": return V("helpers", "helpers")
        if t == "stack_usage": return V("stack_usage", "stack_usage")
        if t == "_src": return V("insn.src.toNat", "usize")
        if t == "_dst": return V("insn.dst.toNat", "usize")
        if t == "reg":
            self.eat("["); k = self.eat(); self.eat("]")
            if not re.fullmatch(r"[0-9]+", k): raise SyntaxError("reg[%s] as a value" % k)
            return V("(%s).toNat" % c.bind("getReg %s" % k), "u64")
        if t == "stacks":
            self.eat("["); e = self.expr(c); self.eat("]"); need(e, "usize"); return V(e.term, "frame")
        if t in c.vars:
            v = c.vars[t]
            if v.ty == "insn" and self.peek() == ".":
                self.eat(); f = self.eat()
                if f == "imm": return V("%s.imm.toInt" % v.term, "i32")
                if f == "off": return V("%s.off.toInt" % v.term, "i16")
                raise SyntaxError("field " + f)
            if v.ty == "helperfn" and self.peek() == "(":
                self.eat(); args = [self.expr(c)]
                while self.peek() == ",": self.eat(); args.append(self.expr(c))
                self.eat(")")
                if len(args) != 5: raise SyntaxError("helper arity")
                for a in args: need(a, "u64")
                return V("(%s).toNat" % c.bind("invoke %s %s" % (v.term, " ".join("(BitVec.ofNat 64 %s)" % a.term for a in args))), "u64")
            return v
        raise SyntaxError("atom `%s`" % t)
    # ------------------------------------------------------------ statements
    def block(self, c):
        """`{ stmt* }` into context c"""
        self.eat("{")
        while self.peek() != "}": self.stmt(c)
        self.eat("}")
        if not c.lines: c.emit("pure ()")
    def body(self, c):
        """arm body: a block, or a single statement up to the `,`"""
        if self.peek() == "{": self.block(c)
        else:
            self.stmt(c, arm=True)
            if not c.lines: c.emit("pure ()")
    def lvalue_set(self, c, lv, v):
        kind, arg = lv
        if kind == "ptr": need(v, "usize"); c.emit("setPtr %s" % v.term)
        elif kind == "idx": need(v, "usize"); c.emit("setIdx %s" % v.term)
        else: need(v, "u64"); c.emit("setReg %s (BitVec.ofNat 64 %s)" % (arg, v.term))
    def lvalue_get(self, c, lv):
        kind, arg = lv
        if kind == "ptr": return V(c.bind("getPtr"), "usize")
        if kind == "idx": return V(c.bind("getIdx"), "usize")
        return V("(%s).toNat" % c.bind("getReg %s" % arg), "u64")
    def cond(self, c, then_fn, else_fn):
        """condition `e (&& e)* (&& let Some(x) = e)?` — emits nested ifs/matches into c; then_fn/else_fn fill a child context"""
        if self.peek() == "let":
            self.eatseq("let", "Some", "("); x = self.eat(); self.eatseq(")", "=")
            e = self.expr(c)
            if e.ty == "opt_helper": vt = "helperfn"
            elif e.ty == "opt_usage": vt = "usage"
            else: raise SyntaxError("if let on " + e.ty)
            c.emit("match %s with" % e.term)
            c.emit("| some %s => do" % x); k = c.child(); k.vars[x] = V(x, vt); then_fn(k); c.lines += k.lines
            c.emit("| none => do"); k = c.child(); else_fn(k); c.lines += k.lines
            return
        e = self.cmp(c)
        need(e, "bool")
        if self.peek() == "&&":
            self.eat()
            c.emit("if %s then do" % e.term); k = c.child(); self.cond(k, then_fn, else_fn); c.lines += k.lines
            c.emit("else do"); k = c.child(); else_fn(k); c.lines += k.lines
            return
        c.emit("if %s then do" % e.term); k = c.child(); then_fn(k); c.lines += k.lines
        c.emit("else do"); k = c.child(); else_fn(k); c.lines += k.lines
    def stmt(self, c, arm=False):
        end = (lambda: None) if arm else (lambda: self.eat(";"))
        t = self.peek()
        if t == "let":
            self.eat(); x = self.eat(); self.eat("="); e = self.expr(c); self.eat(";"); c.vars[x] = e; return
        if t == "if":
            self.eat()
            # the condition is parsed once; the branches are parsed when their context exists, so remember positions
            start = self.i
            # find the `{` that opens the then-block: conditions here contain no braces
            j = start
            while self.t[j] != "{": j += 1
            then_pos = j; then_end = match_brace(self.t, j)
            has_else = then_end < len(self.t) and self.t[then_end] == "else"
            else_pos = then_end + 1 if has_else else None
            after = match_brace(self.t, else_pos) if has_else else then_end
            def then_fn(k): q = P(self.t); q.i = then_pos; q.block(k)
            def else_fn(k):
                if has_else: q = P(self.t); q.i = else_pos; q.block(k)
                else: k.emit("pure ()")
            self.cond(c, then_fn, else_fn)
            if self.i != then_pos: raise SyntaxError("condition not consumed")
            self.i = after; return
        if t == "match":
            self.eat(); e = self.expr(c); need(e, "usize"); self.eat("{")
            c.emit("match %s with" % e.term)
            while self.peek() != "}":
                pat = self.eat()
                if not (pat == "_" or re.fullmatch(r"[0-9]+", pat)): raise SyntaxError("match pattern " + pat)
                self.eat("=>"); c.emit("| %s => do" % pat); k = c.child(); self.body(k); c.lines += k.lines
                if self.peek() == ",": self.eat()
            self.eat("}"); return
        if t and t.startswith("RAISE_"):
            self.eat(); c.emit("raise .%s" % t[6:]); end(); return
        if t == "return":
            self.eatseq("return", "Ok", "("); e = self.expr(c); self.eat(")"); need(e, "u64"); c.emit("returnOk (BitVec.ofNat 64 %s)" % e.term); end(); return
        if t == "unreachable":
            self.eatseq("unreachable", "!", "(", ")"); c.emit("panic")
            if self.peek() == ";": self.eat()
            return
        if t == "stacks":
            self.eatseq("stacks", "["); k = self.expr(c); need(k, "usize"); self.eatseq("]", "."); m = self.eat(); self.eat("(")
            if m == "save_registers": self.eatseq("&", "reg", "[", "6", "..=", "9", "]", ")"); c.emit("saveRegisters %s" % k.term)
            elif m == "save_return_address": a = self.expr(c); need(a, "usize"); self.eat(")"); c.emit("saveReturnAddress %s %s" % (k.term, a.term))
            elif m == "set_stack_usage":
                a = self.expr(c); self.eat(")")
                if a.ty != "usage": raise SyntaxError("set_stack_usage argument")
                c.emit("setStackUsage %s %s" % (k.term, a.term))
            else: raise SyntaxError("statement stacks[..]." + m)
            end(); return
        if t == "reg" and self.peek(2) == "6":
            self.eatseq("reg", "[", "6", "..=", "9", "]", ".", "copy_from_slice", "(", "&", "stacks", "["); k = self.expr(c); need(k, "usize")
            self.eatseq("]", ".", "get_registers", "(", ")", ")"); c.emit("restoreRegisters %s" % k.term); end(); return
        # assignment / compound assignment
        if t == "insn_ptr": self.eat(); lv = ("ptr", None)
        elif t == "stack_frame_idx": self.eat(); lv = ("idx", None)
        elif t == "reg":
            self.eatseq("reg", "["); k = self.eat(); self.eat("]")
            lv = ("reg", "insn.dst.toNat" if k == "_dst" else k if re.fullmatch(r"[0-9]+", k) else None)
            if lv[1] is None: raise SyntaxError("reg[%s] =" % k)
        else: raise SyntaxError("statement starting with `%s`" % t)
        op = self.eat()
        if op == "=":
            e = self.expr(c); self.lvalue_set(c, lv, lit_as(e, "usize" if lv[0] != "reg" else "u64"))
        elif op in ("+=", "-="):
            e = self.expr(c); ty = "usize" if lv[0] != "reg" else "u64"; e = lit_as(e, ty); need(e, ty)
            cur = self.lvalue_get(c, lv)
            v = V(c.bind(("addU 64 %s %s" if op == "+=" else "subU %s %s") % (cur.term, e.term)), ty)
            self.lvalue_set(c, lv, v)
        else: raise SyntaxError("assignment operator " + op)
        end()

def match_brace(toks, j):
    d = 0
    for k in range(j, len(toks)):
        if toks[k] == "{": d += 1
        elif toks[k] == "}":
            d -= 1
            if d == 0: return k + 1
    raise SyntaxError("unbalanced braces")
def lit_as(v, ty): return V(v.term, ty) if v.ty == "lit" else v
def need(v, ty):
    if v.ty == "lit" and ty in BITS: return
    if v.ty != ty: raise SyntaxError("type %s where %s is needed (%s)" % (v.ty, ty, v.term))
def unify(a, b):
    if a.ty == "lit" and b.ty != "lit": a = V(a.term, b.ty)
    if b.ty == "lit" and a.ty != "lit": b = V(b.term, a.ty)
    if a.ty != b.ty: raise SyntaxError("type mismatch %s / %s" % (a.ty, b.ty))
    return a, b

# ---------------------------------------------------------------- extraction
src = preprocess(open(os.path.join(REPO_SRC, "interpreter.rs")).read())
m = re.search(r"pub fn execute_program\(", src)
fn = src[m.start():]
fn = fn[:balanced(fn, fn.index("{", fn.index("Result<u64, Error>")), "{", "}")]
problems = []; defs = []
def section(name, sig, f, ret="Unit"):
    Ctx.n = 0
    try:
        c = Ctx(2, {}); f(c)
        defs.append("def %s %s : M %s := do\n%s\ndef %sOk : Bool := true\n" % (name, sig, ret, "\n".join(c.lines), name))
    except Exception as ex:
        problems.append("%s: %s" % (name, ex))
        defs.append("def %s %s : M %s := panic\ndef %sOk : Bool := false\n" % (name, sig, ret, name))

wm = re.search(r"while\s+([^{]+)\{", fn)
loop_body = fn[wm.end() - 1: balanced(fn, wm.end() - 1, "{", "}")]
after_loop = fn[wm.end() - 1 + len(loop_body):].strip()
def loop_cond(c):
    p = P(tokenize(wm.group(1))); e = p.expr(c)
    if p.peek() is not None: raise SyntaxError("loop condition")
    need(e, "bool"); c.emit("pure (%s)" % e.term)
section("loopCondSrc", "(env : Env)", loop_cond, "Bool")
def after(c):
    if after_loop.rstrip("} \n") != "unreachable!()": raise SyntaxError("statement after the loop: " + after_loop[:40])
    c.emit("panic")
section("afterLoopSrc", "", after)
# head of the loop body: up to `let _dst`
hm = re.search(r"let _dst = insn\.dst as usize;\s*let _src = insn\.src as usize;", loop_body)
def header(c):
    if not hm: raise SyntaxError("`let _dst = insn.dst as usize; let _src = insn.src as usize;` not found")
    p = P(tokenize(loop_body[1:hm.start()]))
    while p.peek() is not None: p.stmt(c)
    if "insn" not in c.vars or c.vars["insn"].ty != "insn": raise SyntaxError("no `let insn = ebpf::get_insn(..)`")
    c.emit("pure %s" % c.vars["insn"].term)
section("headerSrc", "(env : Env)", header, "Insn")
dm = re.search(r"let mut do_jump = \|\| (\{[^{}]*\});", loop_body)
def do_jump(c):
    if not dm: raise SyntaxError("do_jump closure not found")
    c.vars["insn"] = V("insn", "insn"); P(tokenize(dm.group(1))).block(c)
section("doJumpSrc", "(insn : Insn)", do_jump)
# the arms
mm = re.search(r"let _ = match insn\.opc \{", loop_body)
arms_txt = loop_body[mm.end() - 1: balanced(loop_body, mm.end() - 1, "{", "}")]
def arm_text(name):
    m = re.search(r"ebpf::%s\s*=>\s*" % name, arms_txt)
    if not m: raise SyntaxError("arm %s not found" % name)
    rest = arms_txt[m.end():]
    if rest[0] == "{": return rest[:balanced(rest, 0, "{", "}")]
    d = 0
    for j, ch in enumerate(rest):
        if ch in "({[": d += 1
        elif ch in ")}]": d -= 1
        elif ch == "," and d == 0: return rest[:j]
    raise SyntaxError("end of arm %s" % name)
def arm(name):
    def f(c):
        c.vars["insn"] = V("insn", "insn")
        p = P(tokenize(arm_text(name))); p.body(c)
        if p.peek() is not None: raise SyntaxError("end of arm %s: %s" % (name, p.peek()))
    return f
for nm, d in (("LD_DW_IMM", "lddwArmSrc"), ("CALL", "callArmSrc"), ("TAIL_CALL", "tailCallArmSrc"), ("EXIT", "exitArmSrc")):
    section(d, "(env : Env) (insn : Insn)", arm(nm))
def default(c):
    m = re.search(r"\n\s*_\s*=>\s*([^\n]*)\n", arms_txt)
    if not m or m.group(1).strip().rstrip(",") != "unreachable!()": raise SyntaxError("default arm")
    c.emit("panic")
section("defaultArmSrc", "", default)

# ---- the locals as `execute_program` sets them up before the loop
init_defs = []
try:
    pre = " ".join(fn[:wm.start()].split())
    q = re.search(r"let stack = vec!\[0u8; ebpf::STACK_SIZE\]; (?:let mut verif_steps: u64 = 0; )?let mut stacks = \[StackFrame::new\(\); MAX_CALL_DEPTH\]; let mut stack_frame_idx = 0; "
                  r"let mut reg: \[u64; 11\] = \[ ((?:0, ){10})stack\.as_ptr\(\) as u64 \+ stack\.len\(\) as u64, \]; let mem_base: u64 = if mem\.is_empty\(\) \{ 0 \} else \{ mem\.as_ptr\(\) as u64 \}; "
                  r"if !mbuff\.is_empty\(\) \{ reg\[1\] = mbuff\.as_ptr\(\) as u64; \} else if !mem\.is_empty\(\) \{ reg\[1\] = mem\.as_ptr\(\) as u64; \}", pre)
    sf = re.search(r"pub const fn new\(\) -> Self \{ Self \{ return_address: 0, saved_registers: \[0; 4\], stack_usage: StackUsageType::Default, \} \}", " ".join(re.sub(r"//[^\n]*", "", open(os.path.join(REPO_SRC, "stack.rs")).read()).split()))
    if not q or not sf: raise SyntaxError("set-up of the locals before the loop")
    init_defs = ["/-- the locals before the loop: a zeroed stack of STACK_SIZE bytes, eight fresh frames (`StackFrame::new()`: return address 0, saved registers 0, usage `Default`), depth 0,",
                 "    `insn_ptr` 0, registers all zero except r10 = the stack's end and r1 = the metadata buffer if it is non-empty, else the packet if it is non-empty -/",
                 "def initRegsSrc (m : Memory) : Vector (BitVec 64) 11 :=",
                 "  let r1 : Nat := if m.mbuff.bytes.size ≠ 0 then m.mbuff.base else if m.mem.bytes.size ≠ 0 then m.mem.base else 0",
                 "  ((Vector.replicate 11 (0 : BitVec 64)).setIfInBounds 10 (BitVec.ofNat 64 (m.stack.base + m.stack.bytes.size))).setIfInBounds 1 (BitVec.ofNat 64 r1)",
                 "def initFrameSrc : SFrame := { returnAddress := 0, savedRegisters := (0, 0, 0, 0), stackUsage := %d }" % C["LOCAL_FUNCTION_STACK_SIZE"],
                 "def stackSizeSrc : Nat := %d" % C["STACK_SIZE"], "def initSrcOk : Bool := true", ""]
except Exception as ex:
    problems.append("locals: %s" % ex)
    init_defs = ["def initRegsSrc (m : Memory) : Vector (BitVec 64) 11 := Vector.replicate 11 0", "def initFrameSrc : SFrame := default", "def stackSizeSrc : Nat := 0", "def initSrcOk : Bool := false", ""]
defs += init_defs
lines = ["/- GENERATED by checklib/gen_interp_ctl.py from src/interpreter.rs on every run of ./check: do not edit -/",
         "import RbpfModel.Model.InterpSrc", "set_option linter.unusedVariables false", "namespace Rbpf.Generated.Ctl", "open Rbpf Rbpf.Src", ""] + defs
lines += ["/-- the opcodes of the four translated arms (constants of src/ebpf.rs) -/",
          "def opcLdDw : Nat := %d" % C["LD_DW_IMM"], "def opcCall : Nat := %d" % C["CALL"], "def opcTailCall : Nat := %d" % C["TAIL_CALL"], "def opcExit : Nat := %d" % C["EXIT"], ""]
for p_ in problems: lines.append("/- not translated: %s -/" % p_.replace("-/", "- /"))
lines += ["end Rbpf.Generated.Ctl", ""]
new = "\n".join(lines)
os.makedirs(os.path.dirname(os.path.abspath(OUT)), exist_ok=True)
if not os.path.exists(OUT) or open(OUT).read() != new: open(OUT, "w").write(new)
print("interpreter control skeleton:", "ok" if not problems else "; ".join(problems))
