#!/bin/bash
# development aid: confirm and test a round of seeded changes.  usage: round.sh <suffix> Cxx[:cargo-feature] ...   (e.g. C04:cranelift)
# for every /tmp/mut/Cxx<suffix>: confirm_seed.sh (suite green, demo fails with / passes without), then mtest.sh Cxx; prints a summary
S="$1"; shift
run_one() {
  spec="$1"; p="${spec%%:*}"; feat=""; [ "$spec" != "$p" ] && feat="--features ${spec#*:}"
  W=/tmp/mut/${p}${S}
  sh /verif/checklib/confirm_seed.sh "$W" "$p" "$feat" > "$W.confirm" 2>&1
  /verif/checklib/mtest.sh "$W" "$p" > "$W.mtest" 2>&1
}
i=0
for spec in "$@"; do run_one "$spec" & i=$((i+1)); [ $((i % 4)) -eq 0 ] && wait; done; wait
for spec in "$@"; do p="${spec%%:*}"; W=/tmp/mut/${p}${S}
  echo "== $p | $(cut -c1-150 "$W.confirm" | tr '\n' ' ')"
  grep -E "^VIOLATION|^C[0-9]+ [0-9.]+s$" "$W.mtest" | tr '\n' ' '; echo
  grep -m1 '"why"' "$W.mtest" | cut -c1-260
done
