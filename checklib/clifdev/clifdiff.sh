#!/bin/bash
# clifdiff.sh [-r] <file of "proghex [ids]" lines>
#   ids: decimal helper ids separated by commas, or "-" (default "-")
# Runs the real translator (harness `clifdump`: canonical text of the Cranelift IR built by cranelift.rs) and the Lean
# model (`rbpf_model` `clifdump`: Model/ClifAst.lean printed by Model/DriveClif.lean) on every program and compares the
# outputs: canonical lines joined by " ;; ", or `compile-err`, or `panic`.
# Prints, for every mismatching program, the first differing line of each side; ends with the totals.
# Exit status 0 iff no program differs.
# -r: compare the resolved form instead (clifir::canon_resolved / DriveClif.linesOfRes), which also shows which variable an
#     operand reads where that can be told from the text: values defined earlier in the same block, the bounds variables,
#     the callees in order of first use.  Where cranelift-frontend kept a block parameter for a bounds variable (a block
#     with a predecessor that is unreachable from the entry) the real side has `x` for the model's name; that is accepted
#     and counted (`relaxed`).
set -u
HERE=$(cd "$(dirname "$0")" && pwd)
H=$HERE/harness/target/release/rbpf_harness
M=$HERE/lean/.lake/build/bin/rbpf_model
MODE=""; if [ "${1:-}" = "-r" ]; then MODE=" res"; shift; fi
IN=${1:?usage: clifdiff.sh [-r] corpus-file}
[ -x "$H" ] || { echo "missing $H (build the harness)"; exit 2; }
[ -x "$M" ] || { echo "missing $M (lake build rbpf_model)"; exit 2; }
T=$(mktemp -d); trap 'rm -rf "$T"' EXIT
awk 'NF>=1 && $1 !~ /^#/ {
       ids = (NF>=2 ? $2 : "-")
       if (NF > 2 || ($1 != "-" && $1 !~ /^([0-9a-f][0-9a-f])+$/) || ids !~ /^(-|[0-9]+(,[0-9]+)*)$/) { print "bad corpus line " NR ": " $0 > "/dev/stderr"; exit 3 }
       split(ids, idl, ","); for (j in idl) if (idl[j] != "-" && idl[j] + 0 > 4294967295) { print "bad helper id in corpus line " NR > "/dev/stderr"; exit 3 }
       print "clifdump", $1, ids mode }' mode="$MODE" "$IN" > "$T/cases" || exit 2
"$H" run < "$T/cases" > "$T/real" &
"$M" < "$T/cases" > "$T/model" &
wait
nc=$(wc -l < "$T/cases"); nr=$(wc -l < "$T/real"); nm=$(wc -l < "$T/model")
if [ "$nc" != "$nr" ] || [ "$nc" != "$nm" ]; then echo "line counts differ: cases=$nc real=$nr model=$nm"; exit 2; fi
paste -d '\t' "$T/cases" "$T/real" "$T/model" | awk -F '\t' -v res="${MODE:+1}" '
  function relaxedEq(a, b,    x, y, na, nb, j) {
    na = split(a, x, /[ ,]+/); nb = split(b, y, /[ ,]+/)
    if (na != nb) return 0
    for (j = 1; j <= na; j++) if (x[j] != y[j] && !(x[j] == "x" && y[j] ~ /^(a0|a2|-\.[1-4])$/)) return 0
    return 1
  }
  { n++
    if ($2 ~ /^compile-err$/) ce++; else if ($2 ~ /^panic$/) pa++; else ok++
    if ($2 == $3) next
    nr = split($2, r, " ;; "); nm = split($3, m, " ;; ")
    k = 1; while (k <= nr && k <= nm && (r[k] == m[k] || (res && relaxedEq(r[k], m[k])))) k++
    if (res && nr == nm && k > nr) { relaxed++; next }
    bad++
    split($1, c, " ")
    printf "MISMATCH case %d prog=%s ids=%s\n  line %d\n    real : %s\n    model: %s\n", n, (length(c[2]) > 160 ? substr(c[2], 1, 160) "…" : c[2]), c[3], k, (k <= nr ? r[k] : "<end>"), (k <= nm ? m[k] : "<end>")
  }
  END { printf "programs=%d compiled=%d compile-err=%d panic=%d differing=%d", n, ok, ce, pa, bad; if (res) printf " relaxed=%d", relaxed; printf "\n"; exit (bad > 0) }'
