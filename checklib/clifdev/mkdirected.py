#!/usr/bin/env python3
"""Directed programs for clifdiff.sh: every arm of translate_program in cranelift.rs, with non-trivial registers, offsets
and immediates, and the control-flow shapes build_cfg / translate_program distinguish.  Output: `proghex ids` lines."""
import random, struct, sys

def ins(opc, dst=0, src=0, off=0, imm=0):
    return struct.pack('<BBhi', opc & 0xff, ((src & 0xf) << 4) | (dst & 0xf), ((off + 0x8000) & 0xffff) - 0x8000,
                       ((imm + 0x80000000) & 0xffffffff) - 0x80000000)

def lddw(dst, v, src=0):
    return ins(0x18, dst, src, 0, v & 0xffffffff) + ins(0, 0, 0, 0, (v >> 32) & 0xffffffff)

EXIT = ins(0x95)
out = []
seen = set()
def emit(parts, ids='-'):
    b = parts if isinstance(parts, (bytes, bytearray)) else b''.join(parts)
    h = b.hex() if b else '-'
    if isinstance(ids, (list, tuple)): ids = ','.join(str(x) for x in ids) if ids else '-'
    k = (h, ids)
    if k in seen: return
    seen.add(k); out.append(f'{h} {ids}')

rng = random.Random(20260926)

LD = [0x30, 0x28, 0x20, 0x38, 0x50, 0x48, 0x40, 0x58]
LDX = [0x71, 0x69, 0x61, 0x79]
ST = [0x72, 0x6a, 0x62, 0x7a]
STX = [0x73, 0x6b, 0x63, 0x7b]
XADD = [0xc3, 0xdb]
ALU32 = [o | 0x04 | x for o in (0x00, 0x10, 0x20, 0x30, 0x40, 0x50, 0x60, 0x70, 0x90, 0xa0, 0xb0, 0xc0) for x in (0, 8)] + [0x84]
ALU64 = [o | 0x07 | x for o in (0x00, 0x10, 0x20, 0x30, 0x40, 0x50, 0x60, 0x70, 0x90, 0xa0, 0xb0, 0xc0) for x in (0, 8)] + [0x87]
END = [0xd4, 0xdc]
JCC = [o | c | x for c in (5, 6) for o in (0x10, 0x20, 0x30, 0x40, 0x50, 0x60, 0x70, 0xa0, 0xb0, 0xc0, 0xd0) for x in (0, 8)]
VALID = LD + [0x18] + LDX + ST + STX + XADD + ALU32 + ALU64 + END + [0x05] + JCC + [0x85, 0x8d, 0x95]

OFFS = [0, 1, 4, -8, -1, 255, -256, 9999, 10000, -9999, -10000, 0x7fff, -0x8000, 0x1234, -0x1234]
IMMS = [0, 1, -1, 2, 7, 16, 32, 64, 63, 31, 9999, 10000, -9999, -10000, 0x7fffffff, -0x80000000, 0x12345678, -0x12345678, 0xffff, 0x10000]
REGS = list(range(11))

# 1. every opcode byte, alone and in a frame, with a grid of field values ------------------------------------------------
for opc in range(256):
    isj = opc == 0x05 or opc in JCC
    for dst, src in [(0, 0), (1, 2), (3, 10), (10, 9), (6, 6), (11, 1), (1, 11), (15, 15), (12, 0), (0, 13)]:
        for k in range(6):
            off = rng.choice(OFFS); imm = rng.choice(IMMS)
            if isj: off = rng.choice([0, 1, 2, -1, -2, -3, 3, 4, 5, -4, 100, -100, 0x7fff, -0x8000])
            body = [ins(0xb7, 1, 0, 0, 5), ins(0xbf, 2, 10), ins(opc, dst, src, off, imm), ins(0xb7, 0, 0, 0, 1), EXIT, ins(0xb7, 0, 0, 0, 2), EXIT]
            emit(body)
    # alone (last instruction is not exit), alone + exit, first instruction
    emit([ins(opc, 1, 2, 0, 3)])
    emit([ins(opc, 1, 2, 0, 3), EXIT])
    emit([ins(opc, 1, 2, 1, 3), EXIT, EXIT])
    emit([ins(opc, 2, 1, -1, -3), EXIT])
    emit([EXIT, ins(opc, 2, 1, -2, 77)])
    emit([EXIT, ins(opc, 2, 1, -2, 77), EXIT])

# 2. all fields swept for every valid opcode -----------------------------------------------------------------------------
for opc in VALID:
    isj = opc == 0x05 or opc in JCC
    for dst in REGS:
        emit([ins(opc, dst, (dst * 7 + 3) % 11, 0 if isj else -8 * dst, 1000 + dst), EXIT, EXIT])
    for src in REGS:
        emit([ins(opc, (src * 5 + 1) % 11, src, 1 if isj else 8 * src + 1, -1000 - src), EXIT, EXIT])
    for off in OFFS:
        if isj: continue
        emit([ins(opc, 3, 4, off, 0x55), EXIT])
    for imm in IMMS:
        emit([ins(opc, 5, 6, 0, imm), EXIT])
    for r in (11, 12, 15):
        emit([ins(opc, r, 1, 0, 32), EXIT]); emit([ins(opc, 1, r, 0, 32), EXIT]); emit([ins(opc, r, r, 0, 0), EXIT])

# 3. byte swaps ----------------------------------------------------------------------------------------------------------
for opc in END:
    for imm in (16, 32, 64, 0, 8, 15, 17, 48, 128, -16, 0x10010):
        for dst in (0, 4, 10, 11):
            emit([ins(opc, dst, 0, 0, imm), EXIT])
            emit([ins(opc, dst, 3, 7, imm), ins(0xbf, 0, dst), EXIT])

# 4. division and modulo by immediates / registers -----------------------------------------------------------------------
for opc in (0x34, 0x37, 0x94, 0x97, 0x3c, 0x3f, 0x9c, 0x9f):
    for imm in (0, 1, -1, 3, 0x7fffffff, -0x80000000):
        for dst, src in ((0, 0), (2, 3), (9, 9), (12, 1), (1, 12)):
            emit([lddw(dst & 7, 0x123456789abcdef0), ins(opc, dst, src, 0, imm), EXIT])
    emit([ins(opc, 12, 12, 0, 0), EXIT])    # `mod imm 0` indexes nothing, `div imm 0` indexes dst

# 5. wide loads ----------------------------------------------------------------------------------------------------------
for v in (0, 1, 0xffffffff, 0x100000000, 0xffffffffffffffff, 0x8000000000000000, 0x7fffffff80000000, 0x123456789abcdef0, 9999, 10000, 0xffffffffffffd8f0):
    for dst in (0, 5, 10, 11):
        emit([lddw(dst, v), EXIT])
        emit([lddw(dst, v, src=3), ins(0xbf, 0, dst & 7), EXIT])
emit([ins(0x18, 1, 0, 0, 7)])                                  # second slot missing
emit([EXIT, ins(0x18, 1, 0, 0, 7)])
emit([ins(0x18, 1, 0, 0, 7), EXIT])                            # exit is the second slot: nothing terminates
emit([ins(0x18, 1, 0, 0, 7), EXIT, EXIT])
emit([ins(0x18, 1, 0, 5, 7), ins(0x95, 3, 4, 9, -1), EXIT])
emit([ins(0x05, 0, 0, 1), lddw(1, 5), EXIT])                   # jump into the second slot
emit([ins(0x05, 0, 0, 2), lddw(1, 5), EXIT])                   # jump over a wide load
emit([ins(0x15, 1, 0, 2, 0), lddw(1, 5), EXIT])                # fall-through into a wide load, then a block start after it
emit([ins(0x15, 1, 0, 1, 0), lddw(1, 5), EXIT])
emit([lddw(1, 5), ins(0x05, 0, 0, -2), EXIT])                  # back edge into the second slot
emit([lddw(1, 5), ins(0x05, 0, 0, -3), EXIT])                  # back edge to the wide load
emit([ins(0x18, 1, 0, 0, 7), ins(0x05, 0, 0, 1, 3), EXIT, EXIT])   # second slot looks like a jump: not analysed
emit([ins(0x18, 1, 0, 0, 7), ins(0x95), ins(0xb7, 0, 0, 0, 1), EXIT])   # second slot looks like exit: no block after it

# 6. control flow shapes -------------------------------------------------------------------------------------------------
MOV = lambda d, k: ins(0xb7, d, 0, 0, k)
MOVR = lambda d, s: ins(0xbf, d, s)
emit([EXIT])
emit([])
emit(b'\x95')
emit(b'\x95\x00\x00\x00\x00\x00\x00')
emit(EXIT + b'\x00')
emit(EXIT + b'\xb7\x00\x00\x00\x00\x00\x00')
emit(MOV(0, 1) + b'\x95')
emit([MOV(0, 1)])
emit([MOV(0, 1), MOV(1, 2)])
emit([ins(0x05, 0, 0, 0)])                                      # ja +0 as last: falls to a block past the end
emit([ins(0x05, 0, 0, -1)])                                     # self loop
emit([ins(0x05, 0, 0, -1), EXIT])
emit([ins(0x05, 0, 0, -2), EXIT])                               # negative target
emit([MOV(0, 1), ins(0x05, 0, 0, -2)])                          # back edge to instruction 0
emit([MOV(0, 1), ins(0x05, 0, 0, -2), EXIT])
emit([MOV(0, 1), ins(0x15, 0, 0, -2, 1), EXIT])                 # conditional back edge to instruction 0
emit([MOVR(1, 1), ins(0x15, 0, 0, -2, 1), EXIT])                # `mov r,r` first in the entry block, which is a loop head
emit([MOV(0, 1), ins(0x15, 0, 0, -3, 1), EXIT])                 # negative target of a conditional jump
emit([MOV(0, 1), ins(0x15, 0, 0, 0, 1), EXIT])                  # target = fall-through
emit([MOV(0, 1), ins(0x15, 0, 0, 1, 1), EXIT])                  # target past the end
emit([MOV(0, 1), ins(0x15, 0, 0, 2, 1), EXIT])
emit([MOV(0, 1), ins(0x15, 0, 0, 0, 1)])                        # conditional jump last
emit([MOV(0, 1), ins(0x05, 0, 0, 0x7fff), EXIT])
emit([MOV(0, 1), ins(0x05, 0, 0, -0x8000), EXIT])
emit([EXIT, EXIT, EXIT])
emit([EXIT, MOV(0, 1)])                                         # dead code without terminator
emit([EXIT, MOV(0, 1), EXIT])
emit([EXIT, ins(0x0f, 0, 2), ins(0x07, 3, 0, 0, -5), EXIT])     # dead code reading registers never written
emit([ins(0x05, 0, 0, 1), ins(0x0f, 3, 4), ins(0x97, 0, 0, 0, 0), ins(0xd4, 1, 0, 0, 64), EXIT])   # block starts with instructions that emit nothing
emit([ins(0x05, 0, 0, 1), ins(0x0f, 3, 4), ins(0x97, 0, 0, 0, 0), ins(0xd4, 1, 0, 0, 64)])
emit([ins(0x05, 0, 0, 1), EXIT, ins(0x97, 0, 0, 0, 0)])         # last block is entered but stays empty
emit([ins(0x05, 0, 0, 0), ins(0x97, 0, 0, 0, 0), ins(0x05, 0, 0, 0), ins(0xd4, 1, 0, 0, 64), EXIT])   # empty-bodied blocks chained by ja
emit([ins(0x15, 1, 0, 0, 0), ins(0x97, 0, 0, 0, 0), ins(0x15, 1, 0, 0, 0), ins(0xd4, 1, 0, 0, 64), EXIT])
emit([MOV(0, 0), ins(0x15, 1, 0, 1, 0), MOV(0, 1), MOV(0, 2), EXIT])      # fall-through into a jump target
emit([MOV(0, 0), ins(0x15, 1, 0, 1, 0), MOV(0, 1), MOVR(3, 3), EXIT])     # `mov r,r` first in a join block
emit([MOV(0, 0), ins(0x15, 1, 0, 1, 0), MOV(3, 1), MOVR(3, 3), MOVR(0, 3), EXIT])
emit([MOV(0, 0), ins(0x15, 1, 0, 1, 0), MOV(3, 1), MOVR(0, 3), MOVR(3, 0), EXIT])
emit([MOV(0, 0), ins(0x15, 1, 0, 1, 0), MOV(3, 1), ins(0xbc, 3, 3), EXIT])
emit([MOV(0, 0), ins(0x1d, 1, 2, 2), MOV(0, 1), ins(0x05, 0, 0, 1), MOV(0, 2), EXIT])   # diamond
emit([MOV(0, 0), MOV(1, 10), ins(0x07, 0, 0, 0, 3), ins(0x07, 1, 0, 0, -1), ins(0x55, 1, 0, -3, 0), EXIT])   # loop
emit([MOV(0, 0), MOV(1, 10), ins(0x0f, 0, 1), ins(0x17, 1, 0, 0, 1), ins(0x15, 1, 0, 1, 0), ins(0x05, 0, 0, -4), EXIT])
emit([MOV(0, 0), ins(0x15, 1, 0, 3, 0), ins(0x15, 1, 0, 2, 1), ins(0x15, 1, 0, 1, 2), MOV(0, 9), EXIT])      # several jumps to one target
emit([ins(0x15, 1, 0, 3, 0), ins(0x25, 1, 0, -2, 1), ins(0xa5, 1, 0, -3, 2), MOV(0, 9), EXIT])              # back edges to 0 and 1
emit([ins(0x05, 0, 0, 2), MOV(0, 1), EXIT, ins(0x05, 0, 0, -3)])                                            # jump forth and back
emit([ins(0x05, 0, 0, 2), MOV(0, 1), EXIT, ins(0x05, 0, 0, -3), EXIT])
emit([ins(0x8d), EXIT]); emit([EXIT, ins(0x8d)]); emit([ins(0x8d, 1, 2, 3, 4), EXIT])                       # tail call
emit([ins(0x95, 5, 6, 7, 8), MOV(0, 1), ins(0x95, 15, 15, -1, -1)])                                         # exit with junk fields
emit([ins(0x05, 3, 4, 1, 99), EXIT, ins(0x05, 15, 15, -2, -1)])                                             # ja with junk fields
# jumps in dead code, to dead code, over dead code
emit([EXIT, ins(0x05, 0, 0, 1), EXIT, EXIT])
emit([EXIT, ins(0x15, 1, 0, -2, 0), EXIT])
emit([EXIT, ins(0x15, 1, 0, -3, 0), EXIT])
for n in (2, 3, 5, 9):
    emit([ins(0x05, 0, 0, n - 1)] + [MOV(k % 10, k) for k in range(n - 1)] + [EXIT])
    emit([ins(0x15, 2, 0, n - 1, 4)] + [ins(0x07, k % 10, 0, 0, k) for k in range(n - 1)] + [EXIT])

# 7. helper calls ---------------------------------------------------------------------------------------------------------
HSETS = [[], [0], [1], [1, 2, 3], [0, 0x7fffffff, 3], [2, 0xffffffff, 0x80000000, 7], [5, 4, 3, 2, 1, 0], [10000, 9999, 65536]]
for hs in HSETS:
    for imm in (0, 1, 2, 3, 7, 5, -1, -0x80000000, 0x7fffffff, 10000, 9999, 65536, 4):
        for src in (0, 1, 2, 15):
            for dst in (0, 3, 12):
                emit([MOV(1, 1), MOV(2, 2), ins(0x85, dst, src, 0, imm), EXIT], hs)
    emit([MOV(1, 1), ins(0x85, 0, 0, 0, 1), MOVR(1, 0), ins(0x85, 0, 0, 0, 2), MOVR(2, 0), ins(0x85, 0, 0, 0, 3), EXIT], hs)
    emit([ins(0x85, 0, 0, 0, 1), ins(0x15, 0, 0, 1, 0), ins(0x85, 0, 0, 0, 2), EXIT], hs)
    emit([ins(0x85, 0, 0, 0, 77), EXIT, ins(0x8d)], hs)                      # err before panic
    emit([ins(0x8d), ins(0x85, 0, 0, 0, 77), EXIT], hs)                      # panic before err
    emit([ins(0x85, 0, 1, 0, 1), ins(0xb7, 12, 0, 0, 0), EXIT], hs)
    emit([ins(0xb7, 12, 0, 0, 0), ins(0x85, 0, 1, 0, 1), EXIT], hs)
    emit([ins(0x85, 0, 0, 0, 77), ins(0x05, 0, 0, -5), EXIT], hs)            # build_cfg panics before translate's Err
    emit([EXIT, ins(0x85, 0, 0, 0, 77)], hs)                                 # Err in dead code
    emit([ins(0x85, 0, 0, 0, 77)], hs)

# callee identity (the resolved form names callees in order of first use): ids that differ in high bits only, repeated calls
CALL = lambda k: ins(0x85, 0, 0, 0, k)
for seq in ([1, 8, 1, -1, -0x7fffffff, 2, 8, 1], [-1, 0x7fffffff, -1, 1, 0x7fffffff], [2, 1, 2, 1, 8, 8, 2], [0x10001, 1, 0x10001, 65537 + 65536, 1]):
    emit([CALL(k) for k in seq] + [EXIT], [1, 8, 0x80000001, 0xffffffff, 2, 0x7fffffff, 0x10001, 0x20001])
    emit([x for k in seq for x in (CALL(k), ins(0x15, 0, 0, 0, k))] + [EXIT], [1, 8, 0x80000001, 0xffffffff, 2, 0x7fffffff, 0x10001, 0x20001])

# 8. memory instructions: all sizes, bases, offsets -------------------------------------------------------------------------
for opc in LDX + ST + STX + XADD:
    for off in OFFS:
        for dst, src in ((0, 1), (10, 10), (2, 10), (10, 3)):
            emit([ins(opc, dst, src, off, rng.choice(IMMS)), EXIT])
for opc in LD:
    for imm in IMMS:
        for dst, src in ((0, 1), (7, 10), (12, 2), (3, 12)):
            emit([ins(opc, dst, src, rng.choice(OFFS), imm), EXIT])

# 9. random programs over the valid opcodes with in-range and slightly out-of-range jumps ----------------------------------
def rnd_insn(pc, n):
    opc = rng.choice(VALID)
    if opc == 0x8d and rng.random() < 0.9: opc = 0xbf
    dst = rng.randrange(11) if rng.random() < 0.98 else rng.randrange(16)
    src = rng.randrange(11) if rng.random() < 0.98 else rng.randrange(16)
    off = rng.choice(OFFS) if rng.random() < 0.5 else rng.randrange(-0x8000, 0x8000)
    imm = rng.choice(IMMS) if rng.random() < 0.5 else rng.randrange(-0x80000000, 0x80000000)
    if opc == 0x05 or opc in JCC:
        t = rng.randrange(0, n) if rng.random() < 0.97 else rng.randrange(-2, n + 3)
        off = t - pc - 1
    if opc in END and rng.random() < 0.95: imm = rng.choice([16, 32, 64])
    if opc == 0x85:
        if rng.random() < 0.9: src = 0
        imm = rng.choice([0, 1, 2, 3, 7, 0x7fffffff, -1, -0x80000000, 5])
    if opc == 0x18:
        return ins(opc, dst, src, off, imm) + ins(rng.choice([0, 0, 0x95, 0x05, 0x15]), 0, 0, rng.choice([0, 1, -1]), rng.randrange(-0x80000000, 0x80000000))
    return ins(opc, dst, src, off, imm)

for _ in range(30000):
    n = rng.randrange(1, 40)
    parts = []
    pc = 0
    while pc < n:
        b = rnd_insn(pc, n)
        parts.append(b); pc += len(b) // 8
    if rng.random() < 0.9: parts.append(EXIT)
    if rng.random() < 0.01: parts.append(bytes(rng.randrange(1, 8)))
    emit(parts, rng.choice(HSETS))

# 10. random programs over all byte values in the opcode field (mostly refused) ---------------------------------------------
for _ in range(5000):
    n = rng.randrange(1, 12)
    parts = [ins(rng.randrange(256) if rng.random() < 0.3 else rng.choice(VALID), rng.randrange(16), rng.randrange(16), rng.randrange(-3, 6), rng.choice(IMMS)) for _ in range(n)]
    parts.append(EXIT)
    emit(parts, rng.choice(HSETS))

# 11. register identity: every register defined in the block by its own instruction, the instruction under test, then one
#     read of every register (the resolved form of clifdiff.sh -r names the defining instruction of each operand) -------------
INIT = [lddw(k, 0x1111111111111111 * (k + 1)) for k in range(10)]
READ = [ins(0x87, k) for k in range(10)]
for opc in VALID:
    if opc in (0x8d,): continue
    isj = opc == 0x05 or opc in JCC
    for dst, src in ((3, 7), (7, 3), (0, 9), (9, 0), (5, 5), (1, 2), (2, 1), (4, 6), (8, 4), (6, 8)):
        for imm in ((16, 32, 64) if opc in END else (1, 0, -7) if opc in (0x34, 0x37, 0x94, 0x97) else (1,)):
            emit(INIT + [ins(opc, dst, src, 0 if isj else -16, imm)] + READ + [EXIT], [1, 2, 3])
# the same in a join block (a `mov r,r` first) where only some registers are defined in the block
for opc in VALID:
    if opc in (0x8d,) or opc == 0x05 or opc in JCC: continue
    emit(INIT + [ins(0x15, 1, 0, 1, 0), MOV(3, 1), MOVR(4, 4), MOVR(5, 3), ins(opc, 5, 4, 8, 1 if opc not in END else 16), ins(opc, 4, 5, 8, 2 if opc not in END else 32)] + READ + [EXIT], [1, 2])

sys.stdout.write('\n'.join(out) + '\n')
