#!/bin/bash
# mutate.sh: seeded changes of Model/ClifAst.lean; each must be detected by clifdiff.sh (plain and/or -r) on directed.txt
cd /tmp/vclif/lean
FILTER=${1:-}
ORIG=/tmp/vclif/clifcorpus/ClifAst.orig
F=RbpfModel/Model/ClifAst.lean
cp $F $ORIG    # the unmodified model; restored at the end
run() { # name, python replace old new
  if [ -n "${FILTER:-}" ] && ! echo "$1" | grep -Eq "$FILTER"; then return; fi
  python3 - "$2" "$3" <<'PY'
import sys
s=open('/tmp/vclif/clifcorpus/ClifAst.orig').read()
old,new=sys.argv[1],sys.argv[2]
assert s.count(old)>=1, "pattern not found: "+old
s=s.replace(old,new,1)
open('/tmp/vclif/lean/RbpfModel/Model/ClifAst.lean','w').write(s)
PY
  if ! lake build rbpf_model 2>&1 | grep -q "Build completed"; then echo "$1: BUILD FAILED"; return; fi
  a=$(../clifdiff.sh ../clifcorpus/directed.txt | tail -1 | grep -o "differing=[0-9]*")
  b=$(../clifdiff.sh -r ../clifcorpus/directed.txt | tail -1 | grep -o "differing=[0-9]*")
  echo "$1: plain $a   resolved $b"
}
run "M1 alu64Reg operands read swapped" "  let lhs ← insnDst i
  let rhs ← insnSrc i
  let res ← ins (.bin o lhs rhs)
  setDst i res" "  let rhs ← insnSrc i
  let lhs ← insnDst i
  let res ← ins (.bin o rhs lhs)
  setDst i res"
run "M2 ld_abs writes dst instead of r0" "  defVar 0 ext                                                 -- always R0" "  setDst i ext"
run "M3 call args r2,r1" "  let arg0 ← useVar 1
  let arg1 ← useVar 2" "  let arg0 ← useVar 2
  let arg1 ← useVar 1"
run "M4 bounds check uses mem_end for mbuf_end" "  let mbufEnd ← useVar vMbufEnd" "  let mbufEnd ← useVar vMemEnd"
run "M5 alu32Imm creates the constant first" "  let src ← insnDst32 i
  let imm ← insnImm32 i
  let res ← ins (.bin o src imm)" "  let imm ← insnImm32 i
  let src ← insnDst32 i
  let res ← ins (.bin o src imm)"
run "M6 stx base/value registers swapped" "  let value ← if isImm then insnImm64 i else insnSrc i
  let narrow ← if ty ≠ .i64 then ins (.un (.ireduce ty) value) else pure value
  let base ← insnDst i" "  let value ← if isImm then insnImm64 i else insnDst i
  let narrow ← if ty ≠ .i64 then ins (.un (.ireduce ty) value) else pure value
  let base ← insnSrc i"
run "M7 mov64 reg writes src" "    let src ← insnSrc i
    defVar (← reg i.dst) src" "    let src ← insnSrc i
    defVar (← reg i.src) src"
run "M8 call result to dst" "  defVar 0 ret                                                  -- always R0" "  setDst i ret"
run "M9 helper id compared signed" "  let ret ← ins (.call i.imm.toNat" "  let ret ← ins (.call (i.imm.toNat % 7)"
run "M10 fallthrough jump also after lddw only if next slot" "    let next := pc + (if i.opc = 0x18 then 2 else 1)
    let fall" "    let next := pc + 1
    let fall"
run "M11 mod32 reg keeps 32-bit dst" "  let dst ← insnDst i
  let res ← ins (.select rhsIsZero dst divRes)" "  let dst ← insnSrc i
  let res ← ins (.select rhsIsZero dst divRes)"
run "M12 exit block start missing" "    else if opc = 0x95 ∨ opc = 0x8d then .ok (insertPc (pc + 1) acc)" "    else if opc = 0x8d then .ok (insertPc (pc + 1) acc)"
run "M13 le64 emits" "  else if ty ≠ .i64 then
    let src ← insnDst i" "  else if ty ≠ .i8 then
    let src ← insnDst i"
run "M14 xadd32 value 64-bit" "    let val ← insnSrc32 i
    regAtomicAdd .i32" "    let val ← insnSrc i
    regAtomicAdd .i32"
run "M15 helper id truncated to 16 bits" "  let ret ← ins (.call i.imm.toNat" "  let ret ← ins (.call (i.imm.toNat % 65536)"
cp $ORIG $F; lake build rbpf_model 2>&1 | tail -1
