#!/bin/bash
# mkcorpus.sh: rebuild corpus.txt (lines `proghex ids`) for ../clifdiff.sh:
#   all distinct (prog, helper ids) of the engine suites of the harness + the directed programs of mkdirected.py + t1.txt
cd "$(dirname "$0")"
H=../harness/target/release/rbpf_harness
for s in exec-engines exec-accepted-engines exec-clifprobe exec-anyprog-engines; do $H gen $s quick 1 | python3 extract.py > gen-$s.txt; done
python3 mkdirected.py > directed.txt
cat gen-exec-engines.txt gen-exec-accepted-engines.txt gen-exec-clifprobe.txt gen-exec-anyprog-engines.txt directed.txt t1.txt \
  | awk 'NF==1{$2="-"} !s[$1" "$2]++ {print $1, $2}' > corpus.txt
wc -l corpus.txt
