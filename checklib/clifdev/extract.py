import sys
seen=set()
for line in sys.stdin:
    prog=None; ids='-'
    for tok in line.split():
        if tok.startswith('prog='): prog=tok[5:]
        elif tok.startswith('helpers='):
            h=tok[8:]
            if h!='-':
                ids=','.join(str(int(x.split(':')[0],16)) for x in h.split(','))
    if prog is None: continue
    key=(prog,ids)
    if key in seen: continue
    seen.add(key)
    print(prog,ids)
