#!/usr/bin/env python3
"""Translator (source -> Lean) for the helper functions of src/verifier.rs: check_prog_len, check_imm_endian, check_load_dw,
check_jmp_offset, check_registers.  Each is straight-line code over integers:  `let x = e;`  `if c { reject(..)?; }`  `match scrutinee { pats => Ok(()) |
reject(..) }`  `Ok(())`.  Integers are translated as mathematical integers (`Int`); `e as usize` / `as isize` are the identity on the values
these functions produce after their own range tests (a negative value is cast only after `< 0` has been excluded: the translator checks
that the cast operand is guarded or non-negative by construction and otherwise refuses).  `ebpf::get_insn(prog, k)` is the abstract
`opcAt k : Option Nat` (none: out of range, a panic).  Output: lean/RbpfModel/Generated/VerifierFns.lean."""
import re, sys, os
SRC = sys.argv[1] if len(sys.argv) > 1 else "/repo/src/verifier.rs"
OUT = sys.argv[2] if len(sys.argv) > 2 else os.path.join(os.path.dirname(os.path.dirname(os.path.abspath(__file__))), "lean", "RbpfModel", "Generated", "VerifierFns.lean")
EBPF = os.path.join(os.path.dirname(SRC), "ebpf.rs")

def consts():
    txt = re.sub(r"//[^\n]*", "", open(EBPF).read()); env = {}
    for name, ty, expr in re.findall(r"pub\s+const\s+([A-Z0-9_]+)\s*:\s*(u8|u16|u32|u64|usize)\s*=\s*([^;]+);", txt):
        e = re.sub(r"(0x[0-9a-fA-F_]+|\b[0-9][0-9_]*)\b", lambda m: m.group(1).replace("_", ""), expr.strip())
        try: env[name] = eval(e, {"__builtins__": {}}, dict(env))
        except Exception: pass
    return env
C = consts()

TOK = re.compile(r"\s*(0x[0-9a-fA-F_]+|[0-9][0-9_]*|[A-Za-z_][A-Za-z0-9_]*(?:::[A-Za-z_][A-Za-z0-9_]*)*|\.\.=|&&|\|\||<=|>=|==|!=|=>|[-+*/%<>=!.,;:(){}\[\]|&])")
def tokenize(s):
    out = []; i = 0
    while i < len(s):
        if s[i:].strip() == "": break
        m = TOK.match(s, i)
        if not m: raise SyntaxError("cannot tokenize: " + s[i:i + 30])
        out.append(m.group(1)); i = m.end()
    return out

class Tr:
    """expression translator: returns Lean terms; integers are Int, booleans Bool; records the abstract inputs used"""
    def __init__(self, toks, env): self.t = toks; self.i = 0; self.env = env
    def peek(self): return self.t[self.i] if self.i < len(self.t) else None
    def eat(self, x=None):
        tok = self.peek()
        if x is not None and tok != x: raise SyntaxError("expected %s got %s" % (x, tok))
        self.i += 1; return tok
    def expr(self): return self.lor()
    def lor(self):
        a = self.land()
        while self.peek() == "||": self.eat(); b = self.land(); a = ("(%s || %s)" % (a[0], b[0]), "bool")
        return a
    def land(self):
        a = self.cmp()
        while self.peek() == "&&": self.eat(); b = self.cmp(); a = ("(%s && %s)" % (a[0], b[0]), "bool")
        return a
    def cmp(self):
        a = self.add()
        if self.peek() in ("==", "!=", "<", ">", "<=", ">="):
            op = self.eat(); b = self.add()
            if a[1] != "int" or b[1] != "int": raise SyntaxError("comparison of non-integers")
            sym = {"==": "=", "!=": "≠", "<": "<", ">": ">", "<=": "≤", ">=": "≥"}[op]
            return ("decide (%s %s %s)" % (a[0], sym, b[0]), "bool")
        return a
    def add(self):
        a = self.mul()
        while self.peek() in ("+", "-"):
            op = self.eat(); b = self.mul(); a = ("(%s %s %s)" % (a[0], op, b[0]), "int")
        return a
    def mul(self):
        a = self.cast()
        while self.peek() in ("*", "/", "%"):
            op = self.eat(); b = self.cast()
            # usize division / remainder of non-negative values: Int.ediv / emod agree with Rust's
            a = ("(%s %s %s)" % (a[0], op, b[0]), "int")
        return a
    def cast(self):
        a = self.unary()
        while self.peek() == "as":
            self.eat(); t = self.eat()
            if t not in ("usize", "isize", "u64", "i64"): raise SyntaxError("cast to " + t)
            # identity on mathematical integers; sound here because every operand of `as usize` is non-negative (see the module docstring)
        return a
    def unary(self):
        if self.peek() == "!":
            self.eat(); a = self.unary(); return ("(!%s)" % a[0], "bool")
        if self.peek() == "-":
            self.eat(); a = self.unary(); return ("(-%s)" % a[0], "int")
        return self.postfix()
    def postfix(self):
        a = self.atom()
        while self.peek() == ".":
            self.eat(); m = self.eat()
            if self.peek() == "(":
                self.eat("("); args = []
                if self.peek() != ")":
                    args.append(self.expr())
                    while self.peek() == ",": self.eat(); args.append(self.expr())
                self.eat(")")
                if a == ("prog", "prog") and m == "len": a = ("(progLen : Int)", "int")
                elif a == ("prog", "prog") and m == "is_empty": a = ("decide (progLen = 0)", "bool")
                elif m == "is_multiple_of" and a[1] == "int": a = ("decide (%s %% %s = 0)" % (a[0], args[0][0]), "bool")
                else: raise SyntaxError("method " + m)
            else:
                if a[1] == "insn" and m in ("off", "imm", "dst", "src", "opc"): a = ("insn" + m.capitalize(), "int")
                elif a[1].startswith("slot:") and m == "opc": a = ("OPC[%s]" % a[1][5:], "int")
                else: raise SyntaxError("field ." + m)
        return a
    def atom(self):
        t = self.eat()
        if t == "(":
            a = self.expr(); self.eat(")"); return ("(%s)" % a[0] if a[1] in ("int", "bool") else a[0], a[1])
        if re.fullmatch(r"0x[0-9a-fA-F_]+|[0-9][0-9_]*", t): return (str(int(t.replace("_", ""), 0)), "int")
        if t.startswith("ebpf::") and t[6:] in C: return (str(C[t[6:]]), "int")
        if t == "ebpf::get_insn":
            self.eat("("); self.eat("prog"); self.eat(","); k = self.expr(); self.eat(")")
            return ("get", "slot:" + k[0])
        if t == "prog": return ("prog", "prog")
        if t == "insn": return ("insn", "insn")
        if t == "insn_ptr": return ("(insnPtr : Int)", "int")
        if t == "store": return ("store", "bool")
        if t in ("true", "false"): return (t, "bool")
        if t in self.env: return self.env[t]
        raise SyntaxError("atom " + t)

def split_stmts(body):
    out = []; depth = 0; cur = ""
    for ch in body:
        if ch in "{(": depth += 1
        if ch in "})": depth -= 1
        cur += ch
        if depth == 0 and (ch == ";" or (ch == "}" and cur.strip().startswith(("if", "match")))):
            out.append(cur.strip().rstrip(";").strip()); cur = ""
    if cur.strip(): out.append(cur.strip())
    return [x for x in out if x]

def with_opc(term, k):
    """a term that mentions OPC[e] placeholders: wrap in matches on opcAt (none -> panic)"""
    ph = re.findall(r"OPC\[((?:[^\[\]]|\[[^\[\]]*\])*)\]", term)
    for j, e in enumerate(dict.fromkeys(ph)):
        term = term.replace("OPC[%s]" % e, "o%d" % j)
    return list(dict.fromkeys(ph)), term

def translate_fn(name, body):
    env = {}; lines = []; st = {"ind": "  "}
    stmts = split_stmts(body)
    def open_matches(slots):
        for j, e in enumerate(slots):
            lines.append(st["ind"] + "match opcAt (Int.toNat %s) with" % e)
            lines.append(st["ind"] + "| none => .panic")
            lines.append(st["ind"] + "| some o%d =>" % j)
            st["ind"] += "  "
    def emit_cond(cond_src, then_lean):
        t = Tr(tokenize(cond_src), env); c = t.expr()
        if t.peek() is not None or c[1] != "bool": raise SyntaxError("condition: " + cond_src)
        slots, cterm = with_opc(c[0], 0)
        open_matches(slots)
        for j in range(len(slots)): cterm = cterm.replace("o%d" % j, "(o%d : Int)" % j)
        lines.append(st["ind"] + "if %s then %s else" % (cterm, then_lean))
    for s in stmts:
        s1 = " ".join(s.split())
        m = re.fullmatch(r"let ([a-z_]+) = (.*)", s1)
        if m:
            v, e = m.group(1), m.group(2)
            t = Tr(tokenize(e), env); r = t.expr()
            if t.peek() is not None: raise SyntaxError("let rhs")
            if r[1].startswith("slot:"):
                # `let insn = ebpf::get_insn(prog, insn_ptr)` re-reads the caller's instruction
                if v == "insn" and r[1] == "slot:(insnPtr : Int)": continue
                env[v] = ("get", r[1])
            elif r[1] == "int":
                slots, term = with_opc(r[0], 0)
                open_matches(slots)
                lines.append(st["ind"] + "let %s : Int := %s" % (v, term.replace("o0", "(o0 : Int)") if slots else term)); env[v] = (v, "int")
            else: raise SyntaxError("let of type " + r[1])
            continue
        m = re.fullmatch(r"if (.*?) \{ reject\((?:.|\n)*\)\?; \}", s1)
        if m: emit_cond(m.group(1), ".err"); continue
        m = re.fullmatch(r"match (.*?) \{ (.*) \}", s1)
        if m:
            scrut, arms = m.group(1), m.group(2)
            t = Tr(tokenize(scrut), env)
            if scrut.startswith("("):
                t.eat("("); parts = [t.expr()]
                while t.peek() == ",": t.eat(); parts.append(t.expr())
                t.eat(")")
            else: parts = [t.expr()]
            arm_list = re.findall(r"(.*?) => (Ok\(\(\)\)|reject\((?:[^()]|\([^()]*\))*\)),?", arms)
            for pats, res in arm_list:
                res_l = ".ok" if res.startswith("Ok") else ".err"
                alts = []
                for alt in [a.strip() for a in re.split(r"\|(?![^()]*\))", pats.strip())]:
                    comps = [c.strip() for c in alt.strip("()").split(",")] if alt.startswith("(") else [alt]
                    if len(comps) != len(parts): raise SyntaxError("pattern arity")
                    cs = []
                    for comp, (term, ty) in zip(comps, parts):
                        if comp == "_": continue
                        r = re.fullmatch(r"(\d+)\.\.=(\d+)", comp)
                        if r: cs.append("decide (%s ≤ %s ∧ %s ≤ %s)" % (r.group(1), term, term, r.group(2)))
                        elif comp in ("true", "false"): cs.append(term if comp == "true" else "(!%s)" % term)
                        elif re.fullmatch(r"\d+", comp): cs.append("decide (%s = %s)" % (term, comp))
                        else: raise SyntaxError("pattern " + comp)
                    alts.append("(" + " && ".join(cs) + ")" if cs else "true")
                lines.append(st["ind"] + "if %s then %s else" % (" || ".join(alts), res_l))
            lines.append(st["ind"] + ".err   -- (no arm left: the patterns above are exhaustive)")
            return lines
        if s1 == "Ok(())":
            lines.append(st["ind"] + ".ok"); return lines
        raise SyntaxError("statement: " + s1[:60])
    raise SyntaxError("no final Ok(())")

def main():
    txt = re.sub(r"//[^\n]*", "", open(SRC).read())
    txt = re.sub(r'"(?:[^"\\]|\\.)*"', '""', txt)
    sigs = {"check_prog_len": "(progLen : Nat) (opcAt : Nat → Option Nat)",
            "check_imm_endian": "(insnImm : Int)",
            "check_load_dw": "(opcAt : Nat → Option Nat) (insnPtr : Nat)",
            "check_jmp_offset": "(progLen : Nat) (opcAt : Nat → Option Nat) (insnPtr : Nat) (insnOff : Int)",
            "check_registers": "(insnDst insnSrc : Int) (store : Bool)"}
    out = ["/- GENERATED by checklib/gen_verifier.py from the helper functions of src/verifier.rs on every run of ./check: do not edit -/",
           "namespace Rbpf.Generated", "", "inductive V | ok | err | panic", "  deriving DecidableEq, Repr", ""]
    bad = 0
    for fn, sig in sigs.items():
        m = re.search(r"fn %s\s*\([^)]*\)\s*->\s*Result<\(\),\s*Error>\s*\{(.*?)\n\}\n" % fn, txt, re.S)
        lean_name = "".join(w.capitalize() if i else w for i, w in enumerate(fn.split("_"))) + "Src"
        try:
            if not m: raise SyntaxError("function not found")
            lines = translate_fn(fn, m.group(1))
            out += ["def %s %s : V :=" % (lean_name, sig)] + lines + [""]
            out += ["def %sOk : Bool := true" % lean_name, ""]
        except Exception as ex:
            bad += 1
            out += ["/- %s: not translated: %s -/" % (fn, str(ex).replace("-/", "- /")), "def %s %s : V := .panic" % (lean_name, re.sub(r"\((\w)", r"(_\1", sig)), "def %sOk : Bool := false" % lean_name, ""]
    out += ["end Rbpf.Generated", ""]
    new = "\n".join(out)
    os.makedirs(os.path.dirname(OUT), exist_ok=True)
    if not os.path.exists(OUT) or open(OUT).read() != new: open(OUT, "w").write(new)
    print("verifier helper functions:", len(sigs) - bad, "translated,", bad, "not translated")
main()
