#!/bin/sh
# development aid: run checks against a changed copy of qmonnet/rbpf WITHOUT touching /repo (so that a sweep using /repo
# can run at the same time): a scratch copy of /verif (outside /verif) whose harness crates depend on the given worktree.
# usage: mtest.sh <worktree with the change applied> Cxx [Cyy ...]
W="$1"; shift
V=/tmp/vc_$(basename "$W")
rm -rf "$V"; mkdir -p "$V"
rsync -a --exclude .git --exclude 'lean' --exclude 'target' --exclude replays --exclude evidence --exclude seeded /verif/ "$V"/
mkdir -p "$V/replays" "$V/evidence"
# the Lean project is copied with its build output (unchanged sources: nothing rebuilds)
rsync -a /verif/lean "$V"/
sed -i "s#path = \"/repo\"#path = \"$W\"#" "$V/harness/Cargo.toml" "$V/harness_nostd/Cargo.toml"
for c in "$@"; do
  /usr/bin/time -f "$c %es" "$V/check" "$c" 2>&1 | grep -E "^VIOLATION|^KNOWN-FINDING|s$" | cut -c1-220
done
for f in "$V"/replays/*.json; do [ -f "$f" ] && { echo "--- $f"; head -c 1500 "$f"; echo; }; done
rm -rf "$V"
