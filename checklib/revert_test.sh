#!/bin/sh
# development aid: temporarily reverse-apply a /repo commit (or apply a patch file), run a suite, restore.
# usage: revert_test.sh <commit|patch.diff> <suite>
set -e
if [ -f "$1" ]; then git -C /repo apply "$1"; else git -C /repo show "$1" | git -C /repo apply -R; fi
(cd /verif/harness && RUSTFLAGS="--cfg rbpf_verif" cargo build --release --offline 2>&1 | grep -E "^error" -A5 || true)
SUFFIX="${SUFFIX:- spec=isa}" SHOW=${SHOW:-1} /verif/checklib/runsuite.py "$2" || true
git -C /repo checkout -- .
(cd /verif/harness && RUSTFLAGS="--cfg rbpf_verif" cargo build --release --offline 2>&1 | grep -E "^error" -A5 || true)
