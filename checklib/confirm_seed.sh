#!/bin/sh
# confirm a sub-agent's seeded change in its scratch worktree, from its patch.diff (never git stash: the stash is shared by all worktrees):
# suite green with the change (demo excluded), demo fails with it, passes without
W="$1"; ID="$2"; FEAT="$3"; DEMO="${4:-$2}"
cd "$W" || exit 2
git checkout -q -- src && git apply patch.diff || { echo "patch.diff does not apply to a clean src"; exit 2; }
mv tests/demo_$DEMO.rs /tmp/demo_$DEMO.$$.keep
A=$(cargo test --offline $FEAT 2>&1 | grep -E "^test result" | awk '{p+=$4; f+=$6} END {print p" passed "f" failed"}')
mv /tmp/demo_$DEMO.$$.keep tests/demo_$DEMO.rs
B=$(cargo test --offline $FEAT --test demo_$DEMO 2>&1 | grep -E "^test result" | head -1)
git checkout -q -- src
C=$(cargo test --offline $FEAT --test demo_$DEMO 2>&1 | grep -E "^test result" | head -1)
git apply patch.diff
echo "suite with change: $A | demo with change: $B | demo without: $C"
