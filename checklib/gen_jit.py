#!/usr/bin/env python3
"""Translator (source -> Lean) for the per-opcode arms of `jit_compile` in src/jit.rs (the x86-64 JIT): each arm of `match insn.opc` is a sequence of
`self.emit_*(mem, …)` calls, possibly under a `match insn.imm { 16 => …, 32 | 64 => …, _ => unreachable!() }`, a `match insn.src` / `if let Some(helper)`
(CALL), with `Err(..)?`, `unreachable!()`, `unimplemented!()`.  The calls are emitted as applications of the model's emitter primitives of the same
name (`JitEmit.emitAlu32` …, whose bytes are compared with the real JIT's on every engine case) in source order; arguments are translated with their
casts.  Output: lean/RbpfModel/Generated/JitArms.lean (`armSrc`); Props/JitArms.lean proves `JitEmit.arm = armSrc` for every opcode and operand."""
import re, sys, os
sys.path.insert(0, os.path.dirname(os.path.abspath(__file__)))
REPO_SRC = sys.argv[1] if len(sys.argv) > 1 else "/repo/src"
OUT = sys.argv[2] if len(sys.argv) > 2 else os.path.join(os.path.dirname(os.path.dirname(os.path.abspath(__file__))), "lean", "RbpfModel", "Generated", "JitArms.lean")
from gen_interp import ebpf_consts
C = ebpf_consts(os.path.join(REPO_SRC, "ebpf.rs"))
txt = re.sub(r"//[^\n]*", "", open(os.path.join(REPO_SRC, "jit.rs")).read())

def balanced(s, i, o="{", c="}"):
    d = 0
    for j in range(i, len(s)):
        if s[j] == o: d += 1
        elif s[j] == c:
            d -= 1
            if d == 0: return j + 1
    raise SyntaxError("unbalanced")
def split_top(s, sep):
    """split at `sep` outside any bracket"""
    out = []; d = 0; cur = ""
    for ch in s:
        if ch in "({[": d += 1
        elif ch in ")}]": d -= 1
        if ch == sep and d == 0: out.append(cur); cur = ""
        else: cur += ch
    out.append(cur); return out
def camel(n):
    parts = n.split("_"); return parts[0] + "".join(p.capitalize() for p in parts[1:])

REGS = ["RAX", "RCX", "RDX", "RBX", "RSP", "RBP", "RSI", "RDI", "R8", "R9", "R10", "R11", "R12", "R13", "R14", "R15"]
def arg(a, env):
    a = " ".join(a.split())
    if a in env: return env[a]
    if a in REGS or a in ("dst", "src", "bit"): return a if a != "bit" else env.get("bit", "bit")
    m = re.fullmatch(r"OperandSize::S(8|16|32|64)", a)
    if m: return m.group(1)
    if re.fullmatch(r"0x[0-9a-fA-F]+|0b[01]+|[0-9]+", a): return str(int(a, 0))
    if a == "insn.imm": return "imm"
    if a == "insn.off as i32": return "off"                       # i16 -> i32: same value
    if a == "insn.imm as i8": return "(Int.bmod imm 256)"         # wrapping cast
    if a == "insn.imm as i64": return "imm"                       # i32 -> i64: same value
    if a == "insn.opc": return "i.opc.toNat"
    if a == "insn_ptr": return "pc"
    if a == "target_pc": return "targetPc"
    if a == "TARGET_PC_EXIT": return "targetPcExit"
    if a == "*helper as usize": return "helper"
    if a == "imm as i64" and "imm64" in env: return env["imm64"]
    m = re.fullmatch(r"(0x[0-9a-fA-F]+) \| \((dst|src) & (0b[01]+|0x[0-9a-fA-F]+|[0-9]+)\)", a)
    if m: return "(%d ||| (%s &&& %d))" % (int(m.group(1), 0), m.group(2), int(m.group(3), 0))
    raise SyntaxError("argument `%s`" % a)

class Out:
    def __init__(self): self.lines = []
    def emit(self, ind, s): self.lines.append(" " * ind + s)

def stmts_of(block):
    """statements of a `{ … }` body (without the braces): split at `;` outside brackets, keeping a trailing expression"""
    parts = [p.strip() for p in split_top(block, ";")]
    return [p for p in parts if p]

def translate_block(body, env, o, ind, slots="1"):
    """body: text of a block (without braces) or a single expression; emits Lean ending in a value of type Except Fail (Em × Nat)"""
    body = body.strip()
    if body.startswith("{") and balanced(body, 0) == len(body): body = body[1:-1]
    st = stmts_of(body)
    env = dict(env)
    for k, s in enumerate(st):
        s = " ".join(s.split()); last = (k == len(st) - 1)
        m = re.fullmatch(r"self\.([a-z0-9_]+)\(mem(?:, (.*))?\)", s)
        if m:
            args = [arg(a, env) for a in split_top(m.group(2), ",")] if m.group(2) else []
            o.emit(ind, "let e := %s e %s" % (camel(m.group(1)), " ".join(args))); continue
        if s == "insn_ptr += 1": slots = "2"; continue
        if s == "let second_part = ebpf::get_insn(prog, insn_ptr).imm as u64":
            env["second_part"] = "(BitVec.signExtend 64 nx.imm)"; env["_needs_next"] = "1"; continue
        if s == "let imm = (insn.imm as u32) as u64 | second_part.wrapping_shl(32)":
            env["imm64"] = "(BitVec.toInt ((BitVec.setWidth 64 i.imm) ||| (%s <<< (32 %% 64))))" % env["second_part"]; continue
        m = re.fullmatch(r"let bit = match insn\.imm \{ (\d+) => (\d+), _ => (\d+) \}", s)
        if m: env["bit"] = "(if imm = %s then %s else %s)" % m.groups(); continue
        if s == "let target_pc = insn_ptr as isize + insn.imm as isize + 1": env["target_pc"] = "((pc : Int) + imm + 1)"; continue
        if s in ("unreachable!()", "unimplemented!()"):
            o.emit(ind, ".error .panic"); return
        if re.fullmatch(r"Err\(Error::other\(.*\)\)\?", s):
            o.emit(ind, ".error .err"); return
        m = re.match(r"match insn\.imm \{", s)
        if m and last:
            inner = s[m.end():balanced(s, m.end() - 1) - 1]
            arms = parse_arms(inner)
            first = True
            for pats, b in arms:
                if pats == ["_"]:
                    o.emit(ind, "else"); translate_block(b, env, o, ind + 2, slots); break
                cond = " ∨ ".join("imm = %d" % int(p, 0) for p in pats)
                o.emit(ind, ("if %s then" if first else "else if %s then") % cond); first = False
                translate_block(b, env, o, ind + 2, slots)
            else: raise SyntaxError("match insn.imm without default")
            return
        m = re.match(r"match insn\.src \{", s)
        if m and last:
            inner = s[m.end():balanced(s, m.end() - 1) - 1]
            o.emit(ind, "match i.src.toNat with")
            for pats, b in parse_arms(inner):
                o.emit(ind, "| %s =>" % " | ".join("_" if p == "_" else str(int(p, 0)) for p in pats)); translate_block(b, env, o, ind + 2, slots)
            return
        m = re.match(r"if let Some\(helper\) = helpers\.get\(&\(insn\.imm as u32\)\) \{", s)
        if m:
            e1 = balanced(s, m.end() - 1); then = s[m.end():e1 - 1]
            m2 = re.match(r"\s*else \{", s[e1:])
            if not m2: raise SyntaxError("if let without else")
            e2 = balanced(s, e1 + m2.end() - 1); els = s[e1 + m2.end():e2 - 1]
            if s[e2:].strip(): raise SyntaxError("after if-let: " + s[e2:][:30])
            if not last: raise SyntaxError("if let not last")
            o.emit(ind, "match helperAddr ((imm % 2 ^ 32).toNat) with")
            o.emit(ind, "| some helper =>"); translate_block(then, env, o, ind + 2, slots)
            o.emit(ind, "| none =>"); translate_block(els, env, o, ind + 2, slots)
            return
        raise SyntaxError("statement `%s`" % s[:70])
    if env.get("_needs_next"): pass
    o.emit(ind, ".ok (e, %s)" % slots)

def parse_arms(inner):
    """arms `pat (| pat)* => body ,?` of a match body"""
    arms = []; i = 0; n = len(inner)
    while True:
        while i < n and inner[i] in " \n\t,": i += 1
        if i >= n: break
        j = inner.index("=>", i)
        pats = [p.strip() for p in inner[i:j].split("|")]
        k = j + 2
        while inner[k] in " \n\t": k += 1
        if inner[k] == "{":
            e = balanced(inner, k); body = inner[k:e]
        else:
            d = 0; e = k
            while e < n and not (inner[e] == "," and d == 0):
                if inner[e] in "({[": d += 1
                elif inner[e] in ")}]": d -= 1
                e += 1
            body = inner[k:e]
        arms.append((pats, body)); i = e
    return arms

problems = []
lines = ["/- GENERATED by checklib/gen_jit.py from `jit_compile` of src/jit.rs on every run of ./check: do not edit -/",
         "import RbpfModel.Model.JitEmit", "set_option linter.unusedVariables false", "namespace Rbpf.Generated.Jit", "open Rbpf Rbpf.JitEmit", ""]
try:
    m = re.search(r"let _ = match insn\.opc \{", txt)
    mbody = txt[m.end():balanced(txt, m.end() - 1) - 1]
    # the lines before the match, inside the loop
    pre = " ".join(txt[txt.rfind("while insn_ptr * ebpf::INSN_SIZE < prog.len() {", 0, m.start()):m.start()].split())
    pre_ok = bool(re.fullmatch(r"while insn_ptr \* ebpf::INSN_SIZE < prog\.len\(\) \{ let insn = ebpf::get_insn\(prog, insn_ptr\); self\.pc_locs\[insn_ptr\] = mem\.offset; "
                               r"let dst = map_register\(insn\.dst\); let src = map_register\(insn\.src\); let target_pc = insn_ptr as isize \+ insn\.off as isize \+ 1; (?:#\[[^\]]*\] ?)*", pre))
    post = " ".join(txt[balanced(txt, m.end() - 1):balanced(txt, m.end() - 1) + 60].split())
    post_ok = post.startswith("; insn_ptr += 1; }")
    o = Out()
    seen = {}
    arms = parse_arms(mbody)
    for pats, body in arms:
        if pats == ["_"]:
            o.emit(4, "| _ =>"); translate_block(body, {}, o, 6); continue
        ops = []
        for p in pats:
            mm = re.fullmatch(r"ebpf::([A-Z0-9_]+)", p)
            if not mm or mm.group(1) not in C: raise SyntaxError("arm pattern " + p)
            ops.append(C[mm.group(1)])
        for v in ops:
            if v in seen: raise SyntaxError("opcode %d has two arms" % v)
            seen[v] = 1
        o.emit(4, "| %s =>" % " | ".join(str(v) for v in ops))
        needs_next = "get_insn(prog, insn_ptr)" in body
        if needs_next:
            o.emit(6, "match next with"); o.emit(6, "| none => .error .panic"); o.emit(6, "| some nx =>"); translate_block(body, {}, o, 8)
        else: translate_block(body, {}, o, 6)
    lines += ["/-- the arm of `match insn.opc` for instruction `i` at index `pc` (`next`: the following slot, read by the wide load), applied to the emitter state `e`;",
              "    second component: slots consumed.  `map_register` panics on a register field above 10 before the match. -/",
              "def armSrc (e : Em) (helperAddr : Nat → Option Nat) (pc : Nat) (i : Insn) (next : Option Insn) : Except Fail (Em × Nat) :=",
              "  match mapRegister? i.dst.toNat, mapRegister? i.src.toNat with", "  | none, _ => .error .panic", "  | _, none => .error .panic", "  | some dst, some src =>",
              "    let imm : Int := i.imm.toInt", "    let off : Int := i.off.toInt", "    let targetPc : Int := (pc : Int) + off + 1", "    match i.opc.toNat with"] + o.lines
    lines += ["def armSrcOk : Bool := true", "/-- the statements of the loop body before the match (fetch, `pc_locs[insn_ptr] = mem.offset`, `map_register` of both fields, `target_pc`) and after it (`insn_ptr += 1`) -/",
              "def loopPreShape : Bool := %s" % ("true" if pre_ok else "false"), "def loopPostShape : Bool := %s" % ("true" if post_ok else "false"),
              "def armCount : Nat := %d" % len(seen), ""]
except Exception as ex:
    problems.append("jit_compile arms: %s" % ex)
    lines += ["def armSrc (e : Em) (helperAddr : Nat → Option Nat) (pc : Nat) (i : Insn) (next : Option Insn) : Except Fail (Em × Nat) := .error .err",
              "def armSrcOk : Bool := false", "def loopPreShape : Bool := false", "def loopPostShape : Bool := false", "def armCount : Nat := 0", ""]
# ---------------------------------------------------------------- the emitter functions that are sequences of other emitter calls, prologue and epilogue
def fn_body(name):
    m = re.search(r"fn %s\(" % name, txt)
    if not m: raise SyntaxError("fn %s not found" % name)
    pe = balanced(txt, m.end() - 1, "(", ")")
    b0 = txt.index("{", pe)
    params = [q.strip() for q in split_top(txt[m.end():pe - 1], ",") if q.strip()]
    return params, txt[b0 + 1:balanced(txt, b0) - 1]
def sarg(a, env):
    a = " ".join(a.split())
    if a in env: return env[a]
    if a in REGS: return a
    if re.fullmatch(r"0x[0-9a-fA-F]+|0b[01]+|[0-9]+", a): return str(int(a, 0))
    m = re.fullmatch(r"OperandSize::S(8|16|32|64)", a)
    if m: return m.group(1)
    m = re.fullmatch(r"map_register\((\d+)\)", a)
    if m: return "(mapRegSrc %s)" % m.group(1)
    m = re.fullmatch(r"([a-z_]+) as (u8|u32|u64)", a)
    if m and m.group(1) in env: return "(%s %s)" % (m.group(2), env[m.group(1)])
    m = re.fullmatch(r"\(([a-z_]+) as u32\) as i64", a)
    if m and m.group(1) in env: return "((u32 %s : Nat) : Int)" % env[m.group(1)]
    m = re.fullmatch(r"([a-z_]+) as i32", a)
    if m and m.group(1) in env: return env[m.group(1)]                       # i64 -> i32 under the guard that it fits: same value
    if a == "pc as i64": return "(pc : Int)"
    if a == "(pc + 1) as isize": return "((pc : Int) + 1)"
    if a == "imm as i64": return env.get("imm", "imm")
    m = re.fullmatch(r"if ([a-z0-9_]+) \{ (\d+) \} else \{ (\d+) \}", a)
    if m and env.get(m.group(1), "").startswith("P:"): return "(if %s then %s else %s)" % (env[m.group(1)][2:], m.group(2), m.group(3))
    if a == "target as i64": return "(if target < 2 ^ 63 then (target : Int) else (target : Int) - 2 ^ 64)"
    if a == "ebpf::STACK_SIZE as i32": return str(C["STACK_SIZE"])
    if a == "TARGET_PC_EXIT": return "targetPcExit"
    m = re.fullmatch(r"(0x[0-9a-fA-F]+) \| \(([a-z]+) & (0b[01]+|0x[0-9a-fA-F]+|[0-9]+)\)", a)
    if m and m.group(2) in env: return "(%d ||| (%s &&& %d))" % (int(m.group(1), 0), env[m.group(2)], int(m.group(3), 0))
    raise SyntaxError("argument `%s`" % a)
def scond(c, env):
    c = " ".join(c.split())
    m = re.fullmatch(r"([a-z]+) >= 0", c)
    if m and m.group(1) in env: return "0 ≤ %s" % env[m.group(1)]
    m = re.fullmatch(r"([a-z]+) >= i32::MIN as i64 && \1 <= i32::MAX as i64", c)
    if m and m.group(1) in env: return "-2147483648 ≤ %s ∧ %s ≤ 2147483647" % (env[m.group(1)], env[m.group(1)])
    m = re.fullmatch(r"map_register\((\d+)\) != ([A-Z0-9]+)", c)
    if m and m.group(2) in REGS: return "mapRegSrc %s ≠ %s" % m.groups()
    raise SyntaxError("condition `%s`" % c)
def bexpr(c, env):
    """boolean expression over the local flags: `||`, `&&`, `!`, parentheses, `x == 0`, `x != REG`"""
    toks = re.findall(r"\|\||&&|!=|==|!|\(|\)|[A-Za-z_][A-Za-z0-9_]*|[0-9]+", c)
    pos = [0]
    def peek(): return toks[pos[0]] if pos[0] < len(toks) else None
    def eat(): pos[0] += 1; return toks[pos[0] - 1]
    def p_or():
        a = p_and()
        while peek() == "||": eat(); a = "(%s ∨ %s)" % (a, p_and())
        return a
    def p_and():
        a = p_un()
        while peek() == "&&": eat(); a = "(%s ∧ %s)" % (a, p_un())
        return a
    def p_un():
        if peek() == "!": eat(); return "¬ %s" % p_un()
        if peek() == "(":
            eat(); a = p_or()
            if eat() != ")": raise SyntaxError("paren")
            return a
        t = eat()
        if t in env and env[t].startswith("P:"):
            return env[t][2:]
        if t in env or t in REGS:
            lhs = env.get(t, t)
            op = eat(); r = eat()
            r = env.get(r, r) if not re.fullmatch(r"[0-9]+", r) else r
            return "%s %s %s" % (lhs, "=" if op == "==" else "≠", r)
        raise SyntaxError("condition token `%s`" % t)
    a = p_or()
    if pos[0] != len(toks): raise SyntaxError("condition `%s`" % c)
    return a
def seq_fn_with_returns(body, env, o, ind):
    """a function body with `let flag = …;` definitions and early `return;`s: `if c { A; return; } rest` becomes `if c then A else rest`"""
    body = " ".join(body.split())
    # flag definitions
    while True:
        m = re.match(r"let ([a-z0-9_]+) = \(opc & ebpf::([A-Z_]+)\) == (?:\(ebpf::([A-Z0-9_]+) & ebpf::([A-Z_]+)\)|ebpf::([A-Z0-9_]+)); ", body)
        if not m: break
        mask = C[m.group(2)]
        if m.group(3):
            if m.group(4) != m.group(2): raise SyntaxError("mask mismatch")
            v = C[m.group(3)] & mask
        else: v = C[m.group(5)]
        o.emit(ind, "let %s := (opc &&& %d) = %d" % (camel(m.group(1)), mask, v)); env[m.group(1)] = "P:" + camel(m.group(1)); body = body[m.end():]
    def rest(b, ind):
        b = b.strip()
        m = re.match(r"if ([^{]*)\{", b)
        if m:
            e1 = balanced(b, m.end() - 1); blk = b[m.end():e1 - 1].strip()
            if blk.endswith("return;"):
                o.emit(ind, "if %s then" % bexpr(m.group(1).strip(), env)); o2 = Out(); seq_block(blk[:-len("return;")], env, o2, ind + 2)
                o.lines += o2.lines; o.emit(ind + 2, "e"); o.emit(ind, "else"); rest(b[e1:], ind + 2); return
        seq_block(b, env, o, ind); o.emit(ind, "e")
    rest(body, ind)

def seq_block(body, env, o, ind):
    """statements -> `let e := …` lines; the block's value is `e`"""
    body = body.strip()
    pieces = []
    for s_ in split_top(body, ";"):
        s_ = s_.strip()
        while True:      # block statements are not followed by `;`
            m = re.match(r"(if [^{]*|match \(use_mbuff, update_data_ptr\) )\{", s_)
            if not m: break
            e = balanced(s_, m.end() - 1)
            while True:
                m2 = re.match(r"\s*else \{", s_[e:])
                if not m2: break
                e = balanced(s_, e + m2.end() - 1)
            pieces.append(s_[:e]); s_ = s_[e:].strip()
            if not s_: break
        if s_: pieces.append(s_)
    for s_ in pieces:
        s_ = " ".join(s_.split())
        m = re.fullmatch(r"self\.([a-z0-9_]+)\(mem(?:, (.*))?\)", s_)
        if m:
            if m.group(1) == "set_anchor":
                if sarg(m.group(2), env) != "targetPcExit": raise SyntaxError("set_anchor target")
                o.emit(ind, "let e := { e with exitAnchor := some e.code.size }"); continue
            args = [sarg(a, env) for a in split_top(m.group(2), ",")] if m.group(2) else []
            o.emit(ind, "let e := %s e %s" % (camel(m.group(1)), " ".join(args))); continue
        m = re.fullmatch(r"let offset = match self\.basix_rex_would_set_bits\(0, dst, dst\) \{ true => (\d+) \+ (\d+), false => (\d+) \+ (\d+), \}", s_)
        if m: env["offset"] = "(if rexWouldSetBits 0 dst dst then %s + %s else %s + %s)" % m.groups(); continue
        m = re.match(r"if ([^{]*)\{", s_)
        if m:
            e1 = balanced(s_, m.end() - 1); then = s_[m.end():e1 - 1]
            m2 = re.match(r"\s*else \{", s_[e1:])
            try: cnd = scond(m.group(1), env)
            except SyntaxError: cnd = bexpr(m.group(1).strip(), env)
            o.emit(ind, "let e := if %s then" % cnd); seq_block(then, env, o, ind + 4); o.emit(ind + 4, "e")
            o.emit(ind + 2, "else")
            if m2:
                e2 = balanced(s_, e1 + m2.end() - 1); seq_block(s_[e1 + m2.end():e2 - 1], env, o, ind + 4)
                if s_[e2:].strip(): raise SyntaxError("after else")
            o.emit(ind + 4, "e"); continue
        m = re.match(r"match \(use_mbuff, update_data_ptr\) \{", s_)
        if m:
            inner = s_[m.end():balanced(s_, m.end() - 1) - 1]
            o.emit(ind, "let e := match useMbuff, updateDataPtr with")
            for pats, b in parse_arms(inner):
                pq = re.fullmatch(r"\((true|false|_), (true|false|_)\)", pats[0]) if len(pats) == 1 else None
                if not pq: raise SyntaxError("prologue pattern " + str(pats))
                o.emit(ind + 2, "| %s, %s =>" % pq.groups()); seq_block(b.strip()[1:-1] if b.strip().startswith("{") else b, env, o, ind + 4); o.emit(ind + 4, "e")
            continue
        raise SyntaxError("statement `%s`" % s_[:70])
SEQ_FNS = [("emit_modrm_reg2reg", "(r m : Nat)"), ("emit_push", "(r : Nat)"), ("emit_pop", "(r : Nat)"), ("emit_alu32", "(op src dst : Nat)"), ("emit_alu32_imm32", "(op src dst : Nat) (imm : Int)"),
           ("emit_alu32_imm8", "(op src dst : Nat) (imm : Int)"), ("emit_alu64", "(op src dst : Nat)"), ("emit_alu64_imm32", "(op src dst : Nat) (imm : Int)"),
           ("emit_alu64_imm8", "(op src dst : Nat) (imm : Int)"), ("emit_mov", "(src dst : Nat)"), ("emit_cmp_imm32", "(dst : Nat) (imm : Int)"), ("emit_cmp", "(src dst : Nat)"),
           ("emit_cmp32_imm32", "(dst : Nat) (imm : Int)"), ("emit_cmp32", "(src dst : Nat)"), ("emit_load_packet", "(size base : Nat) (imm : Int)"), ("emit_load_imm", "(dst : Nat) (imm : Int)"),
           ("emit_call", "(target : Nat)"), ("emit_jcc", "(code : Nat) (targetPc : Int)"), ("emit_jmp", "(targetPc : Int)"), ("emit_local_call", "(targetPc : Int)")]
try:
    rm = re.search(r"const REGISTER_MAP: \[u8; REGISTER_MAP_SIZE\] = \[([^\]]*)\];", txt)
    regs = [x.strip() for x in rm.group(1).split(",") if x.strip()]
    if not all(x in REGS for x in regs): raise SyntaxError("REGISTER_MAP entries")
    lines += ["/-- `REGISTER_MAP` -/", "def registerMapSrc : Array Nat := #[%s]" % ", ".join(regs), "def mapRegSrc (r : Nat) : Nat := registerMapSrc.getD r 0", ""]
    okf = []
    for fn, sig in SEQ_FNS:
        try:
            params, body = fn_body(fn)
            names = [q.split(":")[0].strip() for q in params if not q.startswith("&") and not q.startswith("mem")]
            env = dict((n_, camel(n_)) for n_ in names)
            o = Out(); seq_block(body, env, o, 2)
            lines += ["/-- `%s` -/" % fn, "def %sSrc (e : Em) %s : Em :=" % (camel(fn), sig)] + o.lines + ["  e", ""]; okf.append("true")
        except Exception as ex:
            problems.append("%s: %s" % (fn, ex)); okf.append("false"); lines += ["def %sSrc (e : Em) %s : Em := e" % (camel(fn), sig), ""]
    try:
        params, body = fn_body("emit_muldivmod")
        env = {"pc": "pc", "opc": "opc", "src": "src", "dst": "dst", "imm": "imm"}
        o = Out(); seq_fn_with_returns(body, env, o, 2)
        lines += ["/-- `emit_muldivmod` -/", "def emitMuldivmodSrc (e : Em) (pc : Nat) (opc src dst : Nat) (imm : Int) : Em :="] + o.lines + [""]; okf.append("true")
    except Exception as ex:
        problems.append("emit_muldivmod: %s" % ex); okf.append("false"); lines += ["def emitMuldivmodSrc (e : Em) (pc : Nat) (opc src dst : Nat) (imm : Int) : Em := e", ""]
    # prologue: the statements of jit_compile before `self.pc_locs = …`; epilogue: after the loop up to `Ok(())`
    jm = re.search(r"fn jit_compile\(", txt); jb0 = txt.index("{", balanced(txt, jm.end() - 1, "(", ")")); jbody = txt[jb0 + 1:balanced(txt, jb0) - 1]
    pro = jbody[:jbody.index("self.pc_locs = vec![0; prog.len() / ebpf::INSN_SIZE + 1];")]
    lw = jbody.index("while insn_ptr * ebpf::INSN_SIZE < prog.len() {"); le = balanced(jbody, jbody.index("{", lw))
    epi = jbody[le:]
    if not re.fullmatch(r"\s*let mut insn_ptr: usize = 0;\s*", jbody[jbody.index("self.pc_locs = vec![0; prog.len() / ebpf::INSN_SIZE + 1];") + len("self.pc_locs = vec![0; prog.len() / ebpf::INSN_SIZE + 1];"):lw]): raise SyntaxError("between prologue and loop")
    if not epi.rstrip().endswith("Ok(())"): raise SyntaxError("end of jit_compile")
    epi = epi.rstrip()[:-len("Ok(())")]
    o = Out(); seq_block(pro, {}, o, 2)
    lines += ["/-- the prologue: the statements of `jit_compile` before the instruction loop -/", "def prologueSrc (useMbuff updateDataPtr : Bool) : Em :=", "  let e : Em := {}"] + o.lines + ["  e", ""]
    o = Out(); seq_block(epi, {}, o, 2)
    lines += ["/-- the epilogue: the statements of `jit_compile` after the instruction loop -/", "def epilogueSrc (e : Em) : Em :="] + o.lines + ["  e", ""]
    lines += ["def seqFnsSrcOk : Bool := %s" % " && ".join(okf), ""]
except Exception as ex:
    problems.append("sequence functions: %s" % ex); lines += ["def seqFnsSrcOk : Bool := false", ""]
# ---------------------------------------------------------------- the byte-level primitives: the function's text is matched as a whole against its shape and
# the constants (opcode bytes, masks, field positions) are extracted into a definition of the same shape
def flat_body(name):
    _params, b = fn_body(name); return " ".join(b.split())
def n(x): return str(int(x, 0))
PRIMS = []
def prim(name, regex, build):
    try:
        b = flat_body(name); m = re.fullmatch(regex, b)
        if not m: raise SyntaxError("shape of %s: %s" % (name, b[:90]))
        lines.extend(build(m)); PRIMS.append("true")
    except Exception as ex:
        problems.append("%s: %s" % (name, ex)); PRIMS.append("false")
H = r"(0x[0-9a-fA-F]+|0b[01]+|[0-9]+)"
prim("emit_modrm", r"assert_eq!\(\(modrm \| 0xc0\), 0xc0\); self\.emit1\(mem, \(modrm & " + H + r"\) \| \(\(r & " + H + r"\) << " + H + r"\) \| \(m & " + H + r"\)\);",
     lambda m: ["/-- `emit_modrm` -/", "def emitModrmSrc (e : Em) (modrm r m : Nat) : Em := emit1 e ((modrm &&& %s) ||| ((r &&& %s) <<< %s) ||| (m &&& %s))" % tuple(n(x) for x in m.groups()), ""])
prim("emit_modrm_and_displacement",
     r"if d == 0 && \(m & " + H + r"\) != RBP \{ self\.emit_modrm\(mem, " + H + r", r, m\); \} else if \((-?\d+)\.\.=(-?\d+)\)\.contains\(&d\) \{ self\.emit_modrm\(mem, " + H + r", r, m\); self\.emit1\(mem, d as u8\); \} "
     r"else \{ self\.emit_modrm\(mem, " + H + r", r, m\); self\.emit4\(mem, d as u32\); \}",
     lambda m: ["/-- `emit_modrm_and_displacement` -/", "def emitModrmAndDisplacementSrc (e : Em) (r m : Nat) (d : Int) : Em :=",
                "  if d = 0 ∧ (m &&& %s) ≠ RBP then emitModrm e %s r m" % (n(m.group(1)), n(m.group(2))),
                "  else if %s ≤ d ∧ d ≤ %s then emit1 (emitModrm e %s r m) (u8 d)" % (m.group(3), m.group(4), n(m.group(5))),
                "  else emit4 (emitModrm e %s r m) (u32 d)" % n(m.group(6)), ""])
prim("basix_rex_would_set_bits", r"w != 0 \|\| \(src & " + H + r"\) != 0 \|\| \(dst & " + H + r"\) != 0",
     lambda m: ["/-- `basix_rex_would_set_bits` -/", "def rexWouldSetBitsSrc (w src dst : Nat) : Bool := w ≠ 0 || (src &&& %s) ≠ 0 || (dst &&& %s) ≠ 0" % (n(m.group(1)), n(m.group(2))), ""])
prim("emit_rex", r"assert_eq!\(\(w \| 1\), 1\); assert_eq!\(\(r \| 1\), 1\); assert_eq!\(\(x \| 1\), 1\); assert_eq!\(\(b \| 1\), 1\); self\.emit1\(mem, " + H + r" \| \(w << " + H + r"\) \| \(r << " + H + r"\) \| \(x << " + H + r"\) \| b\);",
     lambda m: ["/-- `emit_rex` (its four assertions: every field is 0 or 1) -/", "def emitRexSrc (e : Em) (w r x b : Nat) : Em := emit1 e (%s ||| (w <<< %s) ||| (r <<< %s) ||| (x <<< %s) ||| b)" % tuple(n(x) for x in m.groups()), ""])
prim("emit_basic_rex", r"if self\.basix_rex_would_set_bits\(w, src, dst\) \{ let is_masked = \|val, mask\| match val & mask \{ 0 => 0, _ => 1, \}; self\.emit_rex\(mem, w, is_masked\(src, " + H + r"\), 0, is_masked\(dst, " + H + r"\)\); \}",
     lambda m: ["/-- `emit_basic_rex` -/", "def emitBasicRexSrc (e : Em) (w src dst : Nat) : Em :=",
                "  if rexWouldSetBits w src dst then emitRex e w (if src &&& %s = 0 then 0 else 1) 0 (if dst &&& %s = 0 then 0 else 1) else e" % (n(m.group(1)), n(m.group(2))), ""])
prim("emit_load", r"let data = match size \{ OperandSize::S64 => 1, _ => 0, \}; self\.emit_basic_rex\(mem, data, dst, src\); match size \{ OperandSize::S8 => \{ self\.emit1\(mem, " + H + r"\); self\.emit1\(mem, " + H + r"\); \} "
     r"OperandSize::S16 => \{ self\.emit1\(mem, " + H + r"\); self\.emit1\(mem, " + H + r"\); \} OperandSize::S32 \| OperandSize::S64 => \{ self\.emit1\(mem, " + H + r"\); \} \} self\.emit_modrm_and_displacement\(mem, dst, src, offset\);",
     lambda m: ["/-- `emit_load` (size in bits) -/", "def emitLoadSrc (e : Em) (size src dst : Nat) (off : Int) : Em :=", "  let e := emitBasicRex e (if size = 64 then 1 else 0) dst src",
                "  let e := if size = 8 then emit1 (emit1 e %s) %s else if size = 16 then emit1 (emit1 e %s) %s else emit1 e %s" % tuple(n(x) for x in m.groups()),
                "  emitModrmAndDisplacement e dst src off", ""])
prim("emit_store", r"match size \{ OperandSize::S16 => self\.emit1\(mem, " + H + r"\), _ => \{\}, \}; let \(is_s8, is_u64, rexw\) = match size \{ OperandSize::S8 => \(true, false, 0\), OperandSize::S64 => \(false, true, 1\), _ => \(false, false, 0\), \}; "
     r"if is_u64 \|\| \(src & " + H + r"\) != 0 \|\| \(dst & " + H + r"\) != 0 \|\| is_s8 \{ let is_masked = \| val, mask \| \{ match val & mask \{ 0 => 0, _ => 1 \} \}; self\.emit_rex\(mem, rexw, is_masked\(src, " + H + r"\), 0, is_masked\(dst, " + H + r"\)\); \} "
     r"match size \{ OperandSize::S8 => self\.emit1\(mem, " + H + r"\), _ => self\.emit1\(mem, " + H + r"\), \}; self\.emit_modrm_and_displacement\(mem, src, dst, offset\);",
     lambda m: ["/-- `emit_store` (size in bits) -/", "def emitStoreSrc (e : Em) (size src dst : Nat) (off : Int) : Em :=", "  let e := if size = 16 then emit1 e %s else e" % n(m.group(1)),
                "  let e := if size = 64 ∨ (src &&& %s) ≠ 0 ∨ (dst &&& %s) ≠ 0 ∨ size = 8 then emitRex e (if size = 64 then 1 else 0) (if src &&& %s = 0 then 0 else 1) 0 (if dst &&& %s = 0 then 0 else 1) else e" % tuple(n(m.group(k)) for k in (2, 3, 4, 5)),
                "  let e := emit1 e (if size = 8 then %s else %s)" % (n(m.group(6)), n(m.group(7))), "  emitModrmAndDisplacement e src dst off", ""])
prim("emit_store_imm32", r"match size \{ OperandSize::S16 => self\.emit1\(mem, " + H + r"\), _ => \{\}, \}; match size \{ OperandSize::S64 => self\.emit_basic_rex\(mem, 1, 0, dst\), _ => self\.emit_basic_rex\(mem, 0, 0, dst\), \}; "
     r"match size \{ OperandSize::S8 => self\.emit1\(mem, " + H + r"\), _ => self\.emit1\(mem, " + H + r"\), \}; self\.emit_modrm_and_displacement\(mem, 0, dst, offset\); "
     r"match size \{ OperandSize::S8 => self\.emit1\(mem, imm as u8\), OperandSize::S16 => self\.emit2\(mem, imm as u16\), _ => self\.emit4\(mem, imm as u32\), \};",
     lambda m: ["/-- `emit_store_imm32` (size in bits) -/", "def emitStoreImm32Src (e : Em) (size dst : Nat) (off : Int) (imm : Int) : Em :=", "  let e := if size = 16 then emit1 e %s else e" % n(m.group(1)),
                "  let e := emitBasicRex e (if size = 64 then 1 else 0) 0 dst", "  let e := emit1 e (if size = 8 then %s else %s)" % (n(m.group(2)), n(m.group(3))), "  let e := emitModrmAndDisplacement e 0 dst off",
                "  if size = 8 then emit1 e (u8 imm) else if size = 16 then emit2 e ((imm % 2 ^ 16).toNat) else emit4 e (u32 imm)", ""])
prim("emit_direct_jcc", r"self\.emit1\(mem, " + H + r"\); self\.emit1\(mem, code\); emit_bytes!\(mem, offset, u32\);",
     lambda m: ["/-- `emit_direct_jcc` -/", "def emitDirectJccSrc (e : Em) (code off : Nat) : Em := emit4 (emit1 (emit1 e %s) code) off" % n(m.group(1)), ""])
prim("emit_jump_offset", r"let jump = Jump \{ offset_loc: mem\.offset, target_pc, \}; self\.jumps\.push\(jump\); self\.emit4\(mem, 0\);",
     lambda m: ["/-- `emit_jump_offset`: the location of the 32-bit field is recorded with its target, the field is emitted as 0 -/",
                "def emitJumpOffsetSrc (e : Em) (targetPc : Int) : Em := emit4 { e with jumps := e.jumps.push (e.code.size, targetPc) } 0", ""])
lines += ["def primsSrcOk : Bool := %s" % " && ".join(PRIMS), ""]
# ---- shapes recognised as wholes: `resolve_jumps` (target = the anchor for a special target, else pc_locs[target]; rel32 = target - (field + 4), written little-endian
# into the field; nothing written in the size-only pass) and the std `JitMemory::new` (size-only pass, buffer = page-rounded max(size, one page), second pass, resolve_jumps)
try:
    _p, rb = fn_body("resolve_jumps"); rb = " ".join(rb.split())
    rj = bool(re.fullmatch(r"for jump in &self\.jumps \{ let target_loc = match self\.special_targets\.get\(&jump\.target_pc\) \{ Some\(target\) => \*target, None => self\.pc_locs\[jump\.target_pc as usize\], \}; "
                           r"if !mem\.write_enabled \{ continue; \} unsafe \{ let offset_loc = jump\.offset_loc as i32 \+ core::mem::size_of::<i32>\(\) as i32; let rel = &\(target_loc as i32 - offset_loc\) as \*const i32; "
                           r"let offset_ptr = mem\.contents\.as_mut_ptr\(\)\.add\(jump\.offset_loc\); ptr::copy_nonoverlapping\(rel\.cast::<u8>\(\), offset_ptr, core::mem::size_of::<i32>\(\)\); \} \} Ok\(\(\)\)", rb))
    nm = re.search(r'#\[cfg\(feature = "std"\)\]\s*pub fn new\(', txt)
    nb0 = txt.index("{", txt.index("Result<JitMemory<'a>, Error>", nm.end())); nbody = " ".join(txt[nb0 + 1:balanced(txt, nb0) - 1].split())
    nw = bool(re.fullmatch(r"let layout; let mut counter = JitMemory::counter\(\); let mut jit = JitCompiler::new\(\); jit\.jit_compile\(&mut counter, prog, use_mbuff, update_data_ptr, helpers\)\?; "
                           r"let size = round_up_to_page\(counter\.offset\.max\(PAGE_SIZE\)\); let contents = unsafe \{ layout = std::alloc::Layout::from_size_align_unchecked\(size, PAGE_SIZE\); let ptr = std::alloc::alloc\(layout\); "
                           r"if ptr\.is_null\(\) \{ return Err\(Error::from\(std::io::ErrorKind::OutOfMemory\)\); \} libc::mprotect\(ptr\.cast\(\), size, libc::PROT_EXEC \| libc::PROT_WRITE\); std::slice::from_raw_parts_mut\(ptr, size\) \}; "
                           r"let contents: &'a mut \[u8\] = unsafe \{ mem::transmute\(contents\) \}; let mut mem = JitMemory \{ contents, write_enabled: true, (?:#\[cfg\(rbpf_verif\)\] verif_pass1_size: counter\.offset, )?layout, offset: 0, \}; "
                           r"let mut jit = JitCompiler::new\(\); jit\.jit_compile\(&mut mem, prog, use_mbuff, update_data_ptr, helpers\)\?; jit\.resolve_jumps\(&mut mem\)\?; Ok\(mem\)", nbody))
    nn = re.search(r'#\[cfg\(not\(feature = "std"\)\)\]\s*pub fn new\(', txt)
    nnb0 = txt.index("{", txt.index("Result<JitMemory<'a>, Error>", nn.end())); nnbody = " ".join(txt[nnb0 + 1:balanced(txt, nnb0) - 1].split())
    nw2 = bool(re.fullmatch(r"let mut counter = JitMemory::counter\(\); let mut jit = JitCompiler::new\(\); jit\.jit_compile\(&mut counter, prog, use_mbuff, update_data_ptr, helpers\)\?; "
                            r"let size = round_up_to_page\(counter\.offset\.max\(PAGE_SIZE\)\); let contents = executable_memory; if contents\.len\(\) < size \{ return Err\(Error::new\((?:[^()]|\([^()]*\))*\)\); \} "
                            r"if contents\.as_ptr\(\) as usize % PAGE_SIZE != 0 \{ return Err\(Error::new\((?:[^()]|\([^()]*\))*\)\); \} "
                            r"let mut mem = JitMemory \{ contents, write_enabled: true, (?:#\[cfg\(rbpf_verif\)\] verif_pass1_size: counter\.offset, )?offset: 0, \}; "
                            r"let mut jit = JitCompiler::new\(\); jit\.jit_compile\(&mut mem, prog, use_mbuff, update_data_ptr, helpers\)\?; jit\.resolve_jumps\(&mut mem\)\?; Ok\(mem\)", nnbody))
    pg = re.search(r"const PAGE_SIZE: usize = (\d+);", txt)
    ru = re.search(r"fn round_up_to_page\((?:value|size): usize\) -> usize \{ (.*?) \}", " ".join(txt.split()))
    ru_ok = bool(ru and ru.group(1).replace(" ", "") in ("(size+PAGE_SIZE-1)&!(PAGE_SIZE-1)", "(value+PAGE_SIZE-1)&!(PAGE_SIZE-1)"))
    flat_ = " ".join(txt.split())
    eb = "macro_rules! emit_bytes { ( $mem:ident, $data:tt, $t:ty ) => {{ let size = mem::size_of::<$t>() as usize; if $mem.write_enabled { assert!($mem.offset + size <= $mem.contents.len()); unsafe { let ptr = $mem.contents.as_mut_ptr().add($mem.offset) as *mut $t; ptr.write_unaligned($data); } } $mem.offset += size; }}; }" in flat_
    ew = all(("fn emit%d(&self, mem: &mut JitMemory, data: u%d) { emit_bytes!(mem, data, u%d); }" % (k, 8 * k, 8 * k)) in flat_ for k in (1, 2, 4, 8))
    lines += ["/-- `emit_bytes!`: the data is written at the offset when writing is enabled (the assertion admits a write that ends exactly at the buffer's end), the offset advances by the",
              "    data's size either way; `emit1/2/4/8` are that macro at u8 / u16 / u32 / u64 -/", "def emitBytesShape : Bool := %s" % ("true" if eb and ew else "false")]
    lines += ["/-- `resolve_jumps` and the std `JitMemory::new` have the shapes the model's `resolveJumps` / `compile` / `bufferSize` mirror -/",
              "def resolveJumpsShape : Bool := %s" % ("true" if rj else "false"), "def jitMemoryNewShape : Bool := %s" % ("true" if nw else "false"), "/-- the no_std `JitMemory::new`: size-only pass, the same page-rounded size as the std build, an `Err` when the caller's memory is smaller than that or not page-aligned, second pass into that memory, `resolve_jumps` -/", "def jitMemoryNewNoStdShape : Bool := %s" % ("true" if nw2 else "false"),
              "def pageSizeSrc : Nat := %s" % (pg.group(1) if pg else "0"), "def roundUpShape : Bool := %s" % ("true" if ru_ok else "false"), ""]
except Exception as ex:
    problems.append("resolve_jumps / JitMemory::new: %s" % ex)
    lines += ["def emitBytesShape : Bool := false", "def resolveJumpsShape : Bool := false", "def jitMemoryNewShape : Bool := false", "def jitMemoryNewNoStdShape : Bool := false", "def pageSizeSrc : Nat := 0", "def roundUpShape : Bool := false", ""]
for p in problems: lines.append("/- not translated: %s -/" % p.replace("-/", "- /"))
lines += ["end Rbpf.Generated.Jit", ""]
new = "\n".join(lines)
os.makedirs(os.path.dirname(os.path.abspath(OUT)), exist_ok=True)
if not os.path.exists(OUT) or open(OUT).read() != new: open(OUT, "w").write(new)
print("jit arms:", "ok" if not problems else "; ".join(problems))
