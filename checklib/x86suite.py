#!/usr/bin/env python3
"""development aid: x86-64 model (X86.run on JitEmit bytes) vs the host CPU (real JIT execution) vs EngineSem"""
import sys, os, collections, importlib.util, importlib.machinery, time
ROOT = os.path.dirname(os.path.dirname(os.path.abspath(__file__)))
spec = importlib.util.spec_from_loader("core", importlib.machinery.SourceFileLoader("core", os.path.join(ROOT, "check")))
core = importlib.util.module_from_spec(spec); spec.loader.exec_module(core)
suite = sys.argv[1] if len(sys.argv) > 1 else "exec-engines"
tier = sys.argv[2] if len(sys.argv) > 2 else "quick"
lines = core.gen_cases(suite, tier, int(os.environ.get("VERIF_SEED", "1")), [])
flt = os.environ.get("TAG")
if flt: lines = [l for l in lines if "tag=" + flt in l]
if not suite.startswith("exec-engines") and "engines=" not in lines[0]: lines = [l + " engines=jit" for l in lines]
t0 = time.time(); res = core.run_both(lines); print("ran in %.1fs" % (time.time() - t0))
il = res["impl"][0].split("\n")[:-1]; ml = res["model"][0].split("\n")[:-1]
print("cases", len(lines), len(il), len(ml), res["impl"][1][-200:], res["model"][1][-200:])
cnt = collections.Counter(); ex = {}
for l, a, b in zip(lines, il, ml):
    tag = ([t for t in l.split() if t.startswith("tag=")] or ["tag=?"])[0][4:]
    ap = a.split(" | "); bp = b.split(" | ")
    kv = dict(p.split("=", 1) for p in bp[1:] if "=" in p); ikv = dict(p.split("=", 1) for p in ap[1:] if "=" in p)
    x = kv.get("x86sem"); real = ikv.get("jit"); sem = kv.get("jitsem"); claim = kv.get("claim")
    v = kv.get("x86valid")
    if v is not None: cnt[("x86valid=" + v,)] += 1
    if v == "0": ex.setdefault(("x86valid=0", tag), (l, a, b))
    if x is None: cnt[(tag, "no-x86sem")] += 1; continue
    xs = x.rsplit(":mis=", 1)[0]
    mis = x.rsplit(":mis=", 1)[1] if ":mis=" in x else "0"
    if mis != "0": cnt[(tag, "x86-misaligned-call")] += 1; ex.setdefault((tag, "x86-misaligned-call"), (l, a, b))
    if real is None: cnt[(tag, "no-real-jit")] += 1; continue
    got = real.split(":code=")[0].rsplit(":align=", 1)[0]
    if not x.startswith("ok") and not got.startswith("ok"): cnt[(tag, "neither-ran:" + x.split(":")[0] + "/" + got.split(":")[0])] += 1; continue
    key = (tag, "claim=" + str(claim), "x86==cpu" if xs == got else "x86!=cpu", "x86==rt" if xs == sem else "x86!=rt")
    cnt[key] += 1
    if xs != got or (xs != sem and claim == "in"): ex.setdefault(key, (l, a, b))
for k in sorted(cnt, key=str): print(k, cnt[k])
W = int(os.environ.get("W", "400"))
for k, (l, a, b) in list(ex.items())[:int(os.environ.get("SHOW", "8"))]:
    print("EX", k); print("  case ", l[:W]); print("  impl ", a[:W]); print("  model", b[-W:])
