#!/usr/bin/env python3
"""Translator (source -> Lean) for the pure core of the interpreter: the arms of `match insn.opc` in src/interpreter.rs for the ALU, ALU64,
byte-swap, JMP and JMP32 classes.  Each arm is a Rust expression over reg[_dst], reg[_src], insn.imm with `as` casts, wrapping_* methods,
/ % | & ^ << >>, comparisons, `unsigned_u64!`, U32MAX, SHIFT_MASK_64; it is parsed with Rust's operator precedence, typed (u8..u64, i32, i64)
and emitted as a Lean term over BitVec.  Output: lean/RbpfModel/Generated/InterpArms.lean
    aluArm  : Nat -> BitVec 64 -> BitVec 64 -> BitVec 32 -> Option (Option (BitVec 64))     -- opcode, dst, src, imm: none = no such arm / not translated;
                                                                                          --   some none = the register is not written; some (some v) = reg[dst] := v
    jmpArm  : Nat -> BitVec 64 -> BitVec 64 -> BitVec 32 -> Option Bool                     -- the jump condition
lean/RbpfModel/Props/InterpArms.lean proves these equal to what the hand-written model Interp.exec does for every opcode and all operands."""
import re, sys, os
REPO_SRC = sys.argv[1] if len(sys.argv) > 1 else "/repo/src"
OUT = sys.argv[2] if len(sys.argv) > 2 else os.path.join(os.path.dirname(os.path.dirname(os.path.abspath(__file__))), "lean", "RbpfModel", "Generated", "InterpArms.lean")

# ---------------------------------------------------------------- constants of ebpf.rs (for opcode values)
def ebpf_consts(path):
    txt = re.sub(r"//[^\n]*", "", open(path).read())
    env = {}
    for name, ty, expr in re.findall(r"pub\s+const\s+([A-Z0-9_]+)\s*:\s*(u8|u16|u32|u64|usize)\s*=\s*([^;]+);", txt):
        e = re.sub(r"(0x[0-9a-fA-F_]+|\b[0-9][0-9_]*)\b", lambda m: m.group(1).replace("_", ""), expr.strip())
        try: env[name] = eval(e, {"__builtins__": {}}, dict(env))
        except Exception: pass
    return env

# ---------------------------------------------------------------- tokenizer / parser (Rust expression subset)
TOK = re.compile(r"\s*(0x[0-9a-fA-F_]+|[0-9][0-9_]*|[A-Za-z_][A-Za-z0-9_]*|<<=|>>=|<<|>>|<=|>=|==|!=|\|=|&=|\^=|/=|%=|\+=|-=|\*=|=>|[-+*/%&|^<>=!.,;:(){}\[\]])")
def tokenize(s):
    out = []; i = 0
    while i < len(s):
        m = TOK.match(s, i)
        if not m:
            if s[i:].strip() == "": break
            raise SyntaxError("cannot tokenize: " + s[i:i + 20])
        out.append(m.group(1)); i = m.end()
    return out

BITS = {"u8": 8, "u16": 16, "u32": 32, "u64": 64, "usize": 64, "i16": 16, "i32": 32, "i64": 64, "isize": 64}
def signed(t): return t.startswith("i")

class E:   # typed Lean term
    def __init__(self, lean, ty): self.lean = lean; self.ty = ty

class P:
    def __init__(self, toks): self.t = toks; self.i = 0
    def peek(self): return self.t[self.i] if self.i < len(self.t) else None
    def eat(self, x=None):
        tok = self.peek()
        if x is not None and tok != x: raise SyntaxError("expected %s got %s" % (x, tok))
        self.i += 1; return tok
    # precedence (low -> high): comparison, |, ^, &, shift, + -, * / %, as, unary, postfix
    def expr(self): return self.cmp()
    def cmp(self):
        a = self.bor()
        if self.peek() in ("==", "!=", "<", ">", "<=", ">="):
            op = self.eat(); b = self.bor(); a, b = unify(a, b)
            s = signed(a.ty)
            lean = {"==": "(%s == %s)", "!=": "(%s != %s)",
                    "<": "(BitVec.slt %s %s)" if s else "(BitVec.ult %s %s)", "<=": "(BitVec.sle %s %s)" if s else "(BitVec.ule %s %s)",
                    ">": "(BitVec.slt %s %s)" if s else "(BitVec.ult %s %s)", ">=": "(BitVec.sle %s %s)" if s else "(BitVec.ule %s %s)"}[op]
            if op in (">", ">="): a, b = b, a
            return E(lean % (a.lean, b.lean), "bool")
        return a
    def binl(self, sub, ops):
        a = sub()
        while self.peek() in ops:
            op = self.eat(); b = sub(); a = binop(op, a, b)
        return a
    def bor(self): return self.binl(self.bxor, ("|",))
    def bxor(self): return self.binl(self.band, ("^",))
    def band(self): return self.binl(self.shift, ("&",))
    def shift(self): return self.binl(self.add, ("<<", ">>"))
    def add(self): return self.binl(self.mul, ("+", "-"))
    def mul(self): return self.binl(self.cast, ("*", "/", "%"))
    def cast(self):
        a = self.unary()
        while self.peek() == "as":
            self.eat(); t = self.eat(); a = cast(a, t)
        return a
    def unary(self):
        if self.peek() == "-":
            self.eat(); a = self.unary(); return E("(-%s)" % a.lean, a.ty)
        return self.postfix()
    def postfix(self):
        a = self.atom()
        while self.peek() == ".":
            self.eat(); m = self.eat(); self.eat("(")
            args = []
            if self.peek() != ")":
                args.append(self.expr())
                while self.peek() == ",": self.eat(); args.append(self.expr())
            self.eat(")")
            a = method(a, m, args)
        return a
    def atom(self):
        t = self.eat()
        if t == "(":
            a = self.expr(); self.eat(")"); return E(a.lean, a.ty)
        if t == "reg":
            self.eat("["); r = self.eat(); self.eat("]")
            return E({"_dst": "d", "_src": "s"}[r], "u64")
        if t == "insn":
            self.eat("."); f = self.eat()
            if f == "off": return E("off", "i16")
            if f != "imm": raise SyntaxError("insn." + f)
            return E("imm", "i32")
        if t == "mem_base": return E("memBase", "u64")
        if t == "unsigned_u64":
            self.eat("!"); self.eat("("); a = self.expr(); self.eat(")")
            return cast(cast(a, "u32"), "u64")
        if t == "U32MAX": return E("(0xffffffff : BitVec 64)", "u64")
        if t == "SHIFT_MASK_64": return E("(0x3f : BitVec 64)", "u64")
        if re.fullmatch(r"0x[0-9a-fA-F_]+|[0-9][0-9_]*", t): return E(str(int(t.replace("_", ""), 0)), "lit")
        raise SyntaxError("atom " + str(t))

def lit(a, ty): return E("(%s : BitVec %d)" % (a.lean, BITS[ty]), ty)
def unify(a, b):
    if a.ty == "lit" and b.ty != "lit": a = lit(a, b.ty)
    if b.ty == "lit" and a.ty != "lit": b = lit(b, a.ty)
    if a.ty != b.ty: raise SyntaxError("type mismatch %s / %s" % (a.ty, b.ty))
    return a, b
def cast(a, t):
    if a.ty == "lit": return lit(a, t)
    n, m = BITS[a.ty], BITS[t]
    if m == n: return E(a.lean, t)
    if m < n: return E("(BitVec.setWidth %d %s)" % (m, a.lean), t)
    return E("(BitVec.signExtend %d %s)" % (m, a.lean) if signed(a.ty) else "(BitVec.setWidth %d %s)" % (m, a.lean), t)
def binop(op, a, b):
    if op in ("<<", ">>"):
        if a.ty == "lit": raise SyntaxError("shift of a literal")
        if b.ty == "lit": b = lit(b, "u64")
        n = "(BitVec.toNat %s)" % b.lean
        if op == "<<": return E("(%s <<< %s)" % (a.lean, n), a.ty)
        return E("(BitVec.sshiftRight %s %s)" % (a.lean, n) if signed(a.ty) else "(%s >>> %s)" % (a.lean, n), a.ty)
    a, b = unify(a, b)
    if op in ("/", "%") and signed(a.ty): raise SyntaxError("signed division")
    sym = {"|": "|||", "&": "&&&", "^": "^^^", "+": "+", "-": "-", "*": "*", "/": "/", "%": "%"}[op]
    return E("(%s %s %s)" % (a.lean, sym, b.lean), a.ty)
def method(a, m, args):
    if m in ("wrapping_add", "wrapping_sub", "wrapping_mul"):
        x, y = unify(a, args[0]); return E("(%s %s %s)" % (x.lean, {"wrapping_add": "+", "wrapping_sub": "-", "wrapping_mul": "*"}[m], y.lean), x.ty)
    if m == "wrapping_neg": return E("(-%s)" % a.lean, a.ty)
    if m in ("wrapping_shl", "wrapping_shr"):
        b = args[0]
        if b.ty == "lit": b = lit(b, "u32")
        if b.ty != "u32": raise SyntaxError(m + " takes u32")
        n = "(BitVec.toNat %s %% %d)" % (b.lean, BITS[a.ty])
        if m == "wrapping_shl": return E("(%s <<< %s)" % (a.lean, n), a.ty)
        return E("(BitVec.sshiftRight %s %s)" % (a.lean, n) if signed(a.ty) else "(%s >>> %s)" % (a.lean, n), a.ty)
    if m == "to_le": return a                                   # little-endian host
    if m == "to_be": return E("(Rbpf.Generated.bswap%d %s)" % (BITS[a.ty], a.lean), a.ty)
    raise SyntaxError("method " + m)

# ---------------------------------------------------------------- statements of an arm
def stmt(p, cur):
    """one statement; `cur` is the Lean term for the current reg[_dst]; returns (new cur or None if unchanged, wrote?)"""
    if p.peek() == "(":   # `()`
        p.eat("("); p.eat(")"); return cur, False
    p.eat("reg"); p.eat("["); r = p.eat(); p.eat("]")
    if r != "_dst": raise SyntaxError("assignment to reg[%s]" % r)
    op = p.eat()
    rhs = P.expr(p)
    if op == "=":
        if rhs.ty == "lit": rhs = lit(rhs, "u64")
        if rhs.ty != "u64": raise SyntaxError("assigning %s to reg" % rhs.ty)
        return rhs.lean, True
    if op in ("|=", "&=", "^=", "/=", "%=", "<<=", ">>="):
        v = binop(op[:-1], E("d", "u64"), rhs)
        return v.lean, True
    raise SyntaxError("statement operator " + op)

def arm_body(text):
    """text of the arm after `=>`; returns ('alu', lean Option term) or ('jmp', lean Bool term)"""
    text = text.strip().rstrip(",").strip()
    m = re.fullmatch(r"if\s+(.*?)\s*\{\s*do_jump\(\)\s*;\s*\}", text, re.S)
    if m:
        p = P(tokenize(m.group(1))); c = p.expr()
        if p.peek() is not None or c.ty != "bool": raise SyntaxError("condition")
        return "jmp", c.lean
    if text == "do_jump()": return "jmp", "true"
    m = re.fullmatch(r"\{\s*reg\[_dst\]\s*=\s*match\s+insn\.imm\s*\{(.*)\}\s*;\s*\}", text, re.S)
    if m:   # byte swaps
        alts = {}
        for k, v in re.findall(r"(\d+|_)\s*=>\s*([^,]+),", m.group(1) + ","):
            if k == "_": continue
            p = P(tokenize(v)); e = p.expr()
            if e.ty != "u64": raise SyntaxError("byteswap arm type")
            alts[int(k)] = e.lean
        lean = "none"
        for k in sorted(alts, reverse=True): lean = "(if imm = %d then some (some %s) else %s)" % (k, alts[k], lean)
        return "alu?", lean          # partial: other immediates hit unreachable!()
    if text.startswith("{"):
        inner = text[1:-1]
        cur = "d"; wrote = False
        for part in [x for x in inner.split(";") if x.strip()]:
            p = P(tokenize(part))
            # a later statement reads the value the earlier one wrote
            new, w = stmt(p, cur)
            if p.peek() is not None: raise SyntaxError("trailing tokens")
            if w: new = new if cur == "d" else "(let d := %s; %s)" % (cur, new)
            cur, wrote = (new, True) if w else (cur, wrote)
        return "alu", ("some %s" % cur) if wrote else "none"
    p = P(tokenize(text)); new, w = stmt(p, "d")
    if p.peek() is not None: raise SyntaxError("trailing tokens")
    return "alu", ("some %s" % new) if w else "none"

def mem_arm(name, head, body):
    """one arm of the LD (abs/ind), LDX, ST, STX classes.  head: text between `=>` and `unsafe {`; body: inside the braces."""
    dst0 = None
    h = " ".join(head.split())
    if h == "reg[0] =": dst0 = True
    elif h == "reg[_dst] =": dst0 = False
    elif h != "": raise SyntaxError("arm head `%s`" % h)
    body = re.sub(r'"(?:[^"\\\\]|\\\\.)*"', '""', body)                 # string literals (format strings contain braces)
    prot = body
    for _ in range(4):                                                     # protect `;` inside nested braces, innermost first
        prot = re.sub(r"\{[^{}]*\}", lambda m: m.group(0).replace(";", "\x00").replace("{", "\x01").replace("}", "\x02"), prot)
    stmts = [" ".join(x.split()) for x in prot.split(";")]
    stmts = [x.replace("\x00", ";").replace("\x01", "{").replace("\x02", "}") for x in stmts if x.strip()]
    m = re.fullmatch(r"let x = (.*)", stmts[0])
    if not m: raise SyntaxError("first statement is not `let x = …`")
    ae = m.group(1); ptr_ty = None
    mm = re.fullmatch(r"(.*) as \*(?:const|mut) (u8|u16|u32|u64)", ae)
    if mm: ae, ptr_ty = mm.group(1), mm.group(2)
    # the pointer arithmetic `(reg[R] as *const u8).wrapping_offset(insn.off as isize)` is byte-wise: reg[R] + sign-extended offset, wrapping
    plain_add = False
    pm = re.fullmatch(r"\(reg\[(_dst|_src)\] as \*const u8\)\.wrapping_offset\(insn\.off as isize\)", ae)
    if pm:
        if ptr_ty is None: ptr_ty = "u8"
        addr = "(%s + (BitVec.signExtend 64 off))" % {"_dst": "d", "_src": "s"}[pm.group(1)]
        ovf = None
    else:
        if ptr_ty is None: raise SyntaxError("address without pointer type")
        p = P(tokenize(ae)); e = p.expr()
        if p.peek() is not None or e.ty != "u64": raise SyntaxError("address expression")
        addr = e.lean
        # a plain `+` on u64 panics on overflow in the harness build: record the operands
        pl = re.fullmatch(r"\(mem_base \+ (.*)\)", ae)
        ovf = None
        if pl:
            q = P(tokenize(pl.group(1))); r = q.expr()
            ovf = "(BitVec.toNat memBase + BitVec.toNat %s)" % r.lean
        elif "+" in ae: raise SyntaxError("plain + in an address of another shape")
    m = re.fullmatch(r"check_mem_(load|store)\(x as u64, (\d+), insn_ptr\)\?", stmts[1])
    if not m: raise SyntaxError("second statement is not check_mem_*")
    ck, cw = m.group(1), int(m.group(2))
    aw = BITS[ptr_ty] // 8
    rest = stmts[2:]
    if ck == "load":
        if dst0 is None: raise SyntaxError("load without destination")
        if len(rest) != 1 or rest[0] not in ("x.read_unaligned() as u64", "x.read_unaligned()"): raise SyntaxError("load tail")
        return dict(kind=0, dst0=dst0, cw=cw, aw=aw, al=0, addr=addr, ovf=ovf, val="0")
    if dst0 is not None: raise SyntaxError("store with a destination register")
    if len(rest) == 1:
        m = re.fullmatch(r"x\.write_unaligned\((.*)\)", rest[0])
        if not m: raise SyntaxError("store tail")
        p = P(tokenize(m.group(1))); v = p.expr()
        if p.peek() is not None or v.ty == "lit" or BITS[v.ty] // 8 != aw: raise SyntaxError("stored value type")
        return dict(kind=1, dst0=False, cw=cw, aw=aw, al=0, addr=addr, ovf=ovf, val=cast(E(v.lean, "u" + str(BITS[v.ty])), "u64").lean)
    # atomic add: let add = V; let addr = x as usize; if addr.is_multiple_of(core::mem::align_of::<uN>()) { let a = x as *const AtomicUN; let _prev = (*a).fetch_add(add, Ordering::Relaxed); } else { Err(..)?; }
    m = re.fullmatch(r"let add = (.*)", rest[0])
    if not m or rest[1] != "let addr = x as usize": raise SyntaxError("atomic add head")
    p = P(tokenize(m.group(1))); v = p.expr()
    if p.peek() is not None or v.ty == "lit" or BITS[v.ty] // 8 != aw: raise SyntaxError("atomic addend type")
    m = re.fullmatch(r"if addr\.is_multiple_of\(core::mem::align_of::<(u32|u64)>\(\)\) \{ let a = x as \*const Atomic(U32|U64); let _prev = \(\*a\)\.fetch_add\(add, Ordering::Relaxed\); \} else \{ Err\(.*\)\?; \}", rest[2])
    if not m or len(rest) != 3 or m.group(2).lower() != m.group(1): raise SyntaxError("atomic add body")
    if BITS[m.group(1)] // 8 != aw: raise SyntaxError("atomic type")
    return dict(kind=2, dst0=False, cw=cw, aw=aw, al=BITS[m.group(1)] // 8, addr=addr, ovf=ovf, val=cast(E(v.lean, "u" + str(BITS[v.ty])), "u64").lean)

def gen_mem(consts, body, out_path):
    arm_re = re.compile(r"ebpf::([A-Z0-9_]+)\s*=>\s*([^\n{]*?)unsafe\s*\{((?:[^{}]|\{(?:[^{}]|\{[^{}]*\})*\})*)\}\s*,")
    rows = []
    for m in arm_re.finditer(body):
        name = m.group(1)
        if name not in consts or (consts[name] & 7) > 3 or name == "LD_DW_IMM": continue
        try: rows.append((consts[name], name, mem_arm(name, m.group(2), m.group(3)), None))
        except Exception as ex: rows.append((consts[name], name, None, str(ex)))
    out = ["/- GENERATED by checklib/gen_interp.py from the memory-instruction arms of src/interpreter.rs on every run of ./check: do not edit -/",
           "namespace Rbpf.Generated", "",
           "/-- what the arm does: kind 0 load / 1 store / 2 atomic add; loads write reg[0] (`dst0`) or reg[_dst]; the length handed to",
           "    `check_mem_*`; the width of the pointer type actually read / written; the alignment the atomic add requires -/",
           "structure MemArm where", "  kind : Nat", "  dst0 : Bool", "  checkWidth : Nat", "  accessWidth : Nat", "  alignWidth : Nat", "deriving DecidableEq, Repr", "",
           "def memArm (opc : Nat) : Option MemArm :=", "  match opc with"]
    for (o, n, a, err) in rows:
        out.append("  | %d => %s   -- %s%s" % (o, ("some ⟨%d, %s, %d, %d, %d⟩" % (a["kind"], "true" if a["dst0"] else "false", a["cw"], a["aw"], a["al"])) if a else "none", n, "" if a else ": not translated: " + err.replace("-/", "- /")))
    out += ["  | _ => none", "", "/-- the address `x` of the access (`none`: the plain `+` of the source overflows, a panic in the harness build) -/",
            "def memAddr (opc : Nat) (d s : BitVec 64) (imm : BitVec 32) (off : BitVec 16) (memBase : BitVec 64) : Option (BitVec 64) :=", "  match opc with"]
    for (o, n, a, err) in rows:
        if a: out.append("  | %d => %s   -- %s" % (o, ("(if %s ≥ 2 ^ 64 then none else some %s)" % (a["ovf"], a["addr"])) if a["ovf"] else "some %s" % a["addr"], n))
    out += ["  | _ => none", "", "/-- the value stored / added, zero-extended to 64 bits (0 for loads) -/",
            "def memValue (opc : Nat) (s : BitVec 64) (imm : BitVec 32) : BitVec 64 :=", "  match opc with"]
    for (o, n, a, err) in rows:
        if a and a["kind"] != 0: out.append("  | %d => %s   -- %s" % (o, a["val"], n))
    out += ["  | _ => 0", "", "def memOpcodes : List Nat := [%s]" % ", ".join(str(o) for (o, n, a, e) in rows), "", "end Rbpf.Generated", ""]
    new = "\n".join(out)
    if not os.path.exists(out_path) or open(out_path).read() != new: open(out_path, "w").write(new)
    print(len(rows), "memory arms", sum(1 for r in rows if r[2] is None), "not translated")

def main():
    consts = ebpf_consts(os.path.join(REPO_SRC, "ebpf.rs"))
    src = open(os.path.join(REPO_SRC, "interpreter.rs")).read()
    src = re.sub(r"//[^\n]*", "", src)
    start = src.index("match insn.opc {")
    body = src[start:]
    # arms of the classes we translate: `ebpf::NAME [if guard] => body,` on one line or a braced block
    arm_re = re.compile(r"ebpf::([A-Z0-9_]+)\s*(?:if\s+((?:(?!=>)[^\n])*?))?\s*=>\s*(\{(?:[^{}]|\{[^{}]*\})*\}|[^\n]*?),?\s*\n")
    arms = {}
    order = []
    for m in arm_re.finditer(body):
        name, guard, text = m.group(1), m.group(2), m.group(3)
        if name not in consts: continue
        opc = consts[name]
        cls = opc & 7
        if cls not in (4, 5, 6, 7): continue
        if name in ("CALL", "TAIL_CALL", "EXIT"): continue
        try:
            kind, lean = arm_body(text)
            g = None
            if guard is not None:
                p = P(tokenize(guard)); ge = p.expr()
                if p.peek() is not None or ge.ty != "bool": raise SyntaxError("guard")
                g = ge.lean
        except Exception as ex:
            kind, lean, g = "err", "none /- not translated: %s -/" % str(ex).replace("-/", "- /"), None
        if opc not in arms: arms[opc] = []; order.append(opc)
        arms[opc].append((name, g, kind, lean))
    out = ["/- GENERATED by checklib/gen_interp.py from src/interpreter.rs on every run of ./check: do not edit -/",
           "import RbpfModel.Generated.RustPrelude", "namespace Rbpf.Generated", "set_option maxRecDepth 4096", ""]
    alu, jmp = [], []
    for opc in order:
        rows = arms[opc]
        kinds = {k for (_, _, k, _) in rows}
        name = rows[0][0]
        def fold(wrap):
            term = None
            for (_, g, k, lean) in reversed(rows):
                t = wrap(k, lean)
                term = t if g is None else "(if %s then %s else %s)" % (g, t, term if term is not None else "none")
            return term
        if kinds <= {"alu", "alu?"}:
            t = fold(lambda k, l: ("(some (%s))" % l) if k == "alu" else l)
            alu.append("  | %d => %s   -- %s" % (opc, t, name))
        elif kinds == {"jmp"}:
            t = fold(lambda k, l: "(some %s)" % l)
            jmp.append("  | %d => %s   -- %s" % (opc, t, name))
        else:
            alu.append("  | %d => none   -- %s: %s" % (opc, name, "; ".join(l for (_, _, _, l) in rows)))
    out += ["/-- ALU / ALU64 / byte-swap arms: `none` no arm (or not translated); `some none` the destination is not written; `some (some v)` reg[dst] := v -/",
            "def aluArm (opc : Nat) (d s : BitVec 64) (imm : BitVec 32) : Option (Option (BitVec 64)) :=", "  match opc with"] + alu + ["  | _ => none", ""]
    out += ["/-- JMP / JMP32 arms: the condition under which `do_jump()` runs -/",
            "def jmpArm (opc : Nat) (d s : BitVec 64) (imm : BitVec 32) : Option Bool :=", "  match opc with"] + jmp + ["  | _ => none", "",
            "def aluOpcodes : List Nat := [%s]" % ", ".join(str(o) for o in order if any(k in ("alu", "alu?") for (_, _, k, _) in arms[o])),
            "def jmpOpcodes : List Nat := [%s]" % ", ".join(str(o) for o in order if all(k == "jmp" for (_, _, k, _) in arms[o])),
            "", "end Rbpf.Generated", ""]
    new = "\n".join(out)
    os.makedirs(os.path.dirname(OUT), exist_ok=True)
    if not os.path.exists(OUT) or open(OUT).read() != new: open(OUT, "w").write(new)
    gen_mem(consts, body, os.path.join(os.path.dirname(OUT), "InterpMem.lean"))
    bad = sum(1 for o in order for (_, _, k, _) in arms[o] if k == "err")
    print(len(alu), "alu arms", len(jmp), "jump arms", bad, "not translated")

if __name__ == "__main__":
    main()
