#!/usr/bin/env python3
"""development aid: ./checklib/runsuite.py <suite> [tier] [seed] -> prints disagreement summary"""
import sys, os, importlib.util, importlib.machinery, collections
ROOT = os.path.dirname(os.path.dirname(os.path.abspath(__file__)))
spec = importlib.util.spec_from_loader("core", importlib.machinery.SourceFileLoader("core", os.path.join(ROOT, "check")))
core = importlib.util.module_from_spec(spec); spec.loader.exec_module(core)
suite = sys.argv[1]; tier = sys.argv[2] if len(sys.argv) > 2 else "quick"; seed = int(sys.argv[3]) if len(sys.argv) > 3 else 1
lines = [l + os.environ.get("SUFFIX","") for l in core.gen_cases(suite, tier, seed, [])]
res = core.run_both(lines)
il = res["impl"][0].split("\n")[:-1]; ml = res["model"][0].split("\n")[:-1]
print("cases", len(lines), "impl", len(il), "model", len(ml), res["impl"][1][-300:], res["model"][1][-300:])
cnt = collections.Counter(); bad = []
for i, l in enumerate(lines[:min(len(il), len(ml))]):
    m = ml[i].split(" | ")[0]
    cnt[il[i].split()[0] if il[i] else ""] += 1
    iv = il[i].split(" | ")[0]
    if iv != m: bad.append((l, il[i], ml[i]))
    elif " | spec=" in ml[i] and ml[i].split(" | spec=")[1].split(" | ")[0] != iv: bad.append((l, il[i], ("SPECF7 " if "tags=f7" in ml[i] else "SPEC ") + ml[i].split(" | spec=")[1]))
print(dict(cnt)); print("disagreements", len(bad))
bad.sort(key=lambda t: len(t[0]))
print(collections.Counter((a.split()[0], b.split()[0]) for _, a, b in bad))
for l, a, b in bad[:int(os.environ.get("SHOW", "3"))]:
    print("CASE", l[:int(os.environ.get("W","160"))]); print("  impl ", a); print("  model", b)
