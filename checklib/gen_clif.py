#!/usr/bin/env python3
"""Translator (source -> Lean) for src/cranelift.rs: the helper functions of the translator (`insn_imm64`, `insn_imm32`, `insn_dst`, `insn_dst32`, `insn_src`,
`insn_src32`, `set_dst`, `set_dst32`, `reg_load`, `reg_store`, `reg_atomic_add`, `insert_bounds_check`) and every arm of `translate_program` whose body is a
straight line of builder calls (no `if`, no `match`).  Each statement — `let x = bcx.ins().<op>(…)`, `bcx.use_var(..)`, `bcx.def_var(..)`, a call of another
helper, the trailing value expression — becomes the corresponding action of the builder monad `B` of Model/ClifAst.lean (`ins (.bin .iadd a b)` …), in source
order, with the constants' casts.  Output: lean/RbpfModel/Generated/ClifFns.lean; Props/ClifFnsSrc.lean proves the model's functions and arms equal to them."""
import re, sys, os
sys.path.insert(0, os.path.dirname(os.path.abspath(__file__)))
REPO_SRC = sys.argv[1] if len(sys.argv) > 1 else "/repo/src"
OUT = sys.argv[2] if len(sys.argv) > 2 else os.path.join(os.path.dirname(os.path.dirname(os.path.abspath(__file__))), "lean", "RbpfModel", "Generated", "ClifFns.lean")
from gen_interp import ebpf_consts
C = ebpf_consts(os.path.join(REPO_SRC, "ebpf.rs"))
txt = re.sub(r"//[^\n]*", "", open(os.path.join(REPO_SRC, "cranelift.rs")).read())

def balanced(s, i, o="{", c="}"):
    d = 0
    for j in range(i, len(s)):
        if s[j] == o: d += 1
        elif s[j] == c:
            d -= 1
            if d == 0: return j + 1
    raise SyntaxError("unbalanced")
def split_top(s, sep):
    out = []; d = 0; cur = ""
    for ch in s:
        if ch in "({[": d += 1
        elif ch in ")}]": d -= 1
        if ch == sep and d == 0: out.append(cur); cur = ""
        else: cur += ch
    out.append(cur); return out
def camel(n):
    parts = n.split("_"); r = parts[0] + "".join(p.capitalize() for p in parts[1:])
    return r if r else "_"
BIN = ["iadd", "isub", "imul", "udiv", "urem", "band", "bor", "bxor", "ishl", "ushr", "sshr"]
CCS = {"Equal": "eq", "NotEqual": "ne", "UnsignedGreaterThan": "ugt", "UnsignedGreaterThanOrEqual": "uge", "UnsignedLessThan": "ult", "UnsignedLessThanOrEqual": "ule",
       "SignedGreaterThan": "sgt", "SignedGreaterThanOrEqual": "sge", "SignedLessThan": "slt", "SignedLessThanOrEqual": "sle"}
VARS = {"mem_start": "vMemStart", "mem_end": "vMemEnd", "mbuf_start": "vMbufStart", "mbuf_end": "vMbufEnd", "stack_start": "vStackStart", "stack_end": "vStackEnd"}
HELPERS = {"insn_imm64": 0, "insn_imm32": 0, "insn_dst": 0, "insn_dst32": 0, "insn_src": 0, "insn_src32": 0, "set_dst": 1, "set_dst32": 1,
           "reg_load": 3, "reg_store": 4, "reg_atomic_add": 4, "insert_bounds_check": 3}      # name -> number of arguments after (bcx, insn)
TAKES_INSN = {"insn_imm64", "insn_imm32", "insn_dst", "insn_dst32", "insn_src", "insn_src32", "set_dst", "set_dst32"}

def ty(t):
    t = t.strip()
    if t in ("I8", "I16", "I32", "I64"): return "." + t.lower()
    if t == "self.isa.pointer_type()": return ".i64"
    if t == "ty": return "ty"
    raise SyntaxError("type `%s`" % t)
def const(e):
    e = " ".join(e.split())
    if e == "insn.imm as u64 as i64": return "(i.imm.signExtend 64)"
    if e in ("insn.imm as u32 as u64 as i64", "insn.imm as u32 as i64"): return "(i.imm.zeroExtend 64)"
    if e == "ty.bytes() as i64": return "(BitVec.ofNat 64 ty.bytes)"
    if e == "offset as i64": return "(offset.signExtend 64)"
    if re.fullmatch(r"[0-9]+", e): return e
    raise SyntaxError("constant `%s`" % e)
def val(a, env):
    a = a.strip()
    if a in env and not env[a].startswith(("B:", "I:", "F:")): return env[a]
    raise SyntaxError("value `%s`" % a)
def offs(a):
    a = " ".join(a.split())
    if a == "offset as i32": return "offset.toInt"
    raise SyntaxError("offset `%s`" % a)
def off16(a):
    a = " ".join(a.split())
    if a == "insn.off": return "i.off"
    if a == "offset": return "offset"
    if a == "0": return "0"
    raise SyntaxError("16-bit offset `%s`" % a)

def op_term(m, args, env):
    """-> (lean term of type Op, defines a value?)"""
    if m == "iconst": return "(.iconst %s %s)" % (ty(args[0]), const(args[1])), True
    if m in BIN: return "(.bin .%s %s %s)" % (m, val(args[0], env), val(args[1], env)), True
    if m in ("ineg", "bswap"): return "(.un .%s %s)" % (m, val(args[0], env)), True
    if m in ("ireduce", "uextend", "sextend"): return "(.un (.%s %s) %s)" % (m, ty(args[0]), val(args[1], env)), True
    if m == "icmp" and args[0].strip() == "intcc" and env.get("intcc"):
        return "(.icmp intcc %s %s)" % (val(args[1], env), val(args[2], env)), True
    if m == "icmp":
        cc = re.fullmatch(r"IntCC::([A-Za-z]+)", args[0].strip())
        return "(.icmp .%s %s %s)" % (CCS[cc.group(1)], val(args[1], env), val(args[2], env)), True
    if m == "icmp_imm":
        cc = re.fullmatch(r"IntCC::([A-Za-z]+)", args[0].strip())
        return "(.icmpImm .%s %s %s)" % (CCS[cc.group(1)], val(args[1], env), const(args[2])), True
    if m == "select": return "(.select %s %s %s)" % tuple(val(a, env) for a in args), True
    if m == "load":
        if args[1].strip() != "flags": raise SyntaxError("load flags")
        return "(.load %s %s %s)" % (ty(args[0]), val(args[2], env), offs(args[3])), True
    if m == "store":
        if args[0].strip() != "flags": raise SyntaxError("store flags")
        return "(.store %s %s %s)" % (val(args[1], env), val(args[2], env), offs(args[3])), False
    if m == "atomic_rmw":
        if args[1].strip() != "flags" or args[2].strip() != "AtomicRmwOp::Add": raise SyntaxError("atomic_rmw arguments")
        return "(.atomicAdd %s %s %s)" % (ty(args[0]), val(args[3], env), val(args[4], env)), True
    if m == "trapz":
        if args[1].strip() != "TrapCode::HEAP_OUT_OF_BOUNDS": raise SyntaxError("trap code")
        return "(.trapz %s)" % val(args[0], env), False
    raise SyntaxError("builder method `%s`" % m)

def rhs(e, env):
    """right-hand side / expression statement -> (monadic Lean action, has value?)"""
    e = " ".join(e.split()).replace("bcx .ins()", "bcx.ins()").replace("bcx.ins() .", "bcx.ins().")
    m = re.fullmatch(r"bcx\.ins\(\)\.([a-z_]+)\((.*)\)", e)
    if m:
        t, v = op_term(m.group(1), split_top(m.group(2), ","), env)
        return ("ins %s" if v else "emit %s") % t, v
    m = re.fullmatch(r"bcx\.use_var\(self\.registers\[insn\.(dst|src) as usize\]\)", e)
    if m: return "do useVar (← reg i.%s)" % m.group(1), True
    m = re.fullmatch(r"bcx\.use_var\(self\.([a-z_]+)\)", e)
    if m and m.group(1) in VARS: return "useVar %s" % VARS[m.group(1)], True
    m = re.fullmatch(r"bcx\.def_var\(self\.registers\[insn\.(dst|src) as usize\], ([a-z0-9_]+)\)", e)
    if m: return "do defVar (← reg i.%s) %s" % (m.group(1), val(m.group(2), env)), False
    m = re.fullmatch(r"self\.([a-z0-9_]+)\(bcx, (?:&insn|insn)(?:, (.*))?\)", e)
    if m and m.group(1) in TAKES_INSN:
        extra = [val(a, env) for a in split_top(m.group(2), ",")] if m.group(2) else []
        if len(extra) != HELPERS[m.group(1)]: raise SyntaxError("arity of " + m.group(1))
        return " ".join([camel(m.group(1)) + "Src", "i"] + extra), m.group(1).startswith("insn_")
    m = re.fullmatch(r"self\.(reg_load|reg_store|reg_atomic_add|insert_bounds_check)\(bcx, (.*)\)", e)
    if m:
        a = split_top(m.group(2), ",")
        if len(a) != HELPERS[m.group(1)]: raise SyntaxError("arity of " + m.group(1))
        t = [ty(a[0]), val(a[1], env), off16(a[2])] + [val(x, env) for x in a[3:]]
        return " ".join([camel(m.group(1)) + "Src"] + t), m.group(1) == "reg_load"
    raise SyntaxError("expression `%s`" % e[:80])

def cond(c, env):
    c = " ".join(c.split())
    if c == "ty != I64": return "ty ≠ .i64"
    if c in env and env[c].startswith("B:"): return env[c][2:]
    m = re.fullmatch(r"insn\.imm (==|!=) 0", c)
    if m: return "i.imm = 0" if m.group(1) == "==" else "i.imm ≠ 0"
    if c == "(insn.opc & BPF_ALU_OP_MASK) == BPF_JSET": return "i.opc.toNat &&& %d = %d" % (C["BPF_ALU_OP_MASK"], C["BPF_JSET"])
    raise SyntaxError("condition `%s`" % c)
def opc_pats(p):
    out = []
    for q in p.split("|"):
        q = q.strip(); m = re.fullmatch(r"ebpf::([A-Z0-9_]+)", q)
        if not m or m.group(1) not in C: raise SyntaxError("opcode pattern " + q)
        out.append(str(C[m.group(1)]))
    return " | ".join(out)
def match_arms(inner):
    arms = []
    for a in split_top(inner, ","):
        if a.strip() == "": continue
        l, _, r = a.partition("=>"); arms.append((l.strip(), r.strip()))
    return arms
def block_to_lean(body, env, ind):
    """a block `stmt; …; [value expression]` -> Lean do-lines (the last line is the block's value action, `pure ()` for a unit block without trailing action)"""
    env = dict(env); out = []
    st = split_top(body, ";")
    # a block-like statement (`if … { … }` without `;`) is not separated from what follows by `;`: split such pieces further
    pieces = []
    for s_ in st:
        s_ = s_.strip()
        while True:
            m = re.match(r"if [^{]*\{", s_)
            if not m: break
            e = balanced(s_, m.end() - 1)
            while True:
                m2 = re.match(r"\s*else if [^{]*\{", s_[e:]) or re.match(r"\s*else \{", s_[e:])
                if not m2: break
                e = balanced(s_, e + m2.end() - 1)
            if s_[e:].strip() == "": break
            pieces.append(s_[:e]); s_ = s_[e:].strip()
        pieces.append(s_)
    last_is_value = (st[-1].strip() != "")
    n = len(pieces)
    for k, s_ in enumerate(pieces):
        s_ = " ".join(s_.split()); is_last = (k == n - 1)
        if s_ == "":
            continue
        if s_ in ("let mut flags = MemFlags::new()", "flags.set_endianness(Endianness::Little)"): continue
        pad = " " * ind
        m = re.fullmatch(r"let ([a-z0-9_]+)(?:: Type)? = match insn\.(opc|imm) \{ (.*) \}", s_)
        if m and not (env.get("__ctl") and m.group(1) == "intcc"):
            name = camel(m.group(1)); arms = match_arms(m.group(3))
            vals = set(r for _, r in arms if r != "unreachable!()")
            if vals <= {"I8", "I16", "I32", "I64"}: tyname, conv = "Ty", (lambda r: "pure Ty." + r.lower())
            elif vals <= {"true", "false"}: tyname, conv = "Bool", (lambda r: "pure " + r)
            elif vals <= {"self.isa.endianness() == Endianness::Little", "self.isa.endianness() == Endianness::Big"}:
                tyname, conv = "Bool", (lambda r: "pure hostLittle" if r.endswith("Little") else "pure (!hostLittle)")
            else: raise SyntaxError("match values " + str(vals))
            out.append(pad + "let %s ← (match %s with" % (name, "i.opc.toNat" if m.group(2) == "opc" else "i.imm.toInt"))
            for l, r in arms:
                pat = "_" if l == "_" else (opc_pats(l) if m.group(2) == "opc" else " | ".join(str(int(x)) for x in l.split("|")))
                out.append(pad + "  | %s => %s" % (pat, "throw .panic" if r == "unreachable!()" else conv(r)))
            out[-1] += " : B %s)" % tyname
            env[m.group(1)] = ("B:" + name) if tyname == "Bool" else name
            continue
        if env.get("__ctl"):
            if s_ == "self.filled_blocks.insert(bcx.current_block().unwrap())": continue
            if s_ == "insn_ptr += 1": env["__bumped"] = "1"; continue
            if s_ == "let next_insn = ebpf::get_insn(prog, insn_ptr)" and env.get("__bumped"):
                out.append(pad + "let nextInsn ← (match getInsn? p (pc + 1) with | some x => pure x | none => throw .panic : B Insn)"); env["next_insn"] = "I:nextInsn"; continue
            if s_ == "let imm = (((insn.imm as u32) as u64) + ((next_insn.imm as u64) << 32)) as i64" and env.get("next_insn"):
                env["__imm64"] = "((BitVec.setWidth 64 i.imm) + ((BitVec.signExtend 64 nextInsn.imm) <<< 32))"; continue
            m = re.fullmatch(r"let ([a-z_]+) = bcx\.ins\(\)\.iconst\(I64, imm\)", s_)
            if m and env.get("__imm64"):
                env[m.group(1)] = camel(m.group(1)); out.append(pad + "let %s ← ins (.iconst .i64 %s)" % (camel(m.group(1)), env["__imm64"])); continue
            if s_ == "let (_, target_block) = self.insn_targets[&(insn_ptr as u32)]":
                out.append(pad + "let targetBlock ← lift (targetPc pc i)"); env["target_block"] = "targetBlock"; continue
            if s_ == "let (fallthrough, target) = self.insn_targets[&(insn_ptr as u32)]":
                out.append(pad + "let target ← lift (targetPc pc i)"); out.append(pad + "let fallthrough := pc + 1"); env["target"] = "target"; env["fallthrough"] = "fallthrough"; continue
            m = re.fullmatch(r"bcx\.ins\(\)\.jump\(([a-z_]+), &\[\]\)", s_)
            if m: out.append(pad + "emit (.jump %s)" % val(m.group(1), env)); continue
            m = re.fullmatch(r"bcx\.ins\(\)\.return_\(&\[([a-z_]+)\]\)", s_)
            if m: out.append(pad + "emit (.ret %s)" % val(m.group(1), env)); continue
            m = re.fullmatch(r"bcx\.ins\(\)\.brif\(([a-z_]+), ([a-z_]+), &\[\], ([a-z_]+), &\[\]\)", s_)
            if m: out.append(pad + "emit (.brif %s %s %s)" % tuple(val(x, env) for x in m.groups())); continue
            m = re.fullmatch(r"let ([a-z0-9_]+) = bcx\.use_var\(self\.registers\[(\d+)\]\)", s_)
            if m: env[m.group(1)] = camel(m.group(1)); out.append(pad + "let %s ← useVar %s" % (camel(m.group(1)), m.group(2))); continue
            if s_.startswith("unimplemented!("): out.append(pad + "throw .panic"); continue
            m = re.fullmatch(r"if insn\.src != 0 \{ return Err\(Error::new\(.*\)\); \}", s_)
            if m: out.append(pad + "if i.src ≠ 0 then throw .err"); continue
            m = re.fullmatch(r"let func_ref = self \.helper_func_refs \.get\(&\(insn\.imm as u32\)\) \.copied\(\) \.ok_or_else\(\|\| \{.*\}\)\?", s_)
            if m: out.append(pad + "if !helpers i.imm.toNat then throw .err"); env["func_ref"] = "F:"; continue
            m = re.fullmatch(r"let call = bcx\.ins\(\)\.call\(func_ref, &\[([a-z0-9_, ]+)\]\)", s_)
            if m and env.get("func_ref") == "F:":
                env["__call"] = "(.call i.imm.toNat [%s])" % ", ".join(val(x, env) for x in m.group(1).split(",")); continue
            m = re.fullmatch(r"let ([a-z_]+) = bcx\.inst_results\(call\)\[0\]", s_)
            if m and env.get("__call"):
                env[m.group(1)] = camel(m.group(1)); out.append(pad + "let %s ← ins %s" % (camel(m.group(1)), env["__call"])); continue
            m = re.fullmatch(r"let is_reg = \(insn\.opc & BPF_X\) != 0", s_)
            if m: out.append(pad + "let isReg : Bool := i.opc.toNat &&& %d != 0" % C["BPF_X"]); env["is_reg"] = "B:isReg"; continue
            m = re.fullmatch(r"let is_32 = \(insn\.opc & ebpf::BPF_CLS_MASK\) == BPF_JMP32", s_)
            if m: out.append(pad + "let is32 : Bool := i.opc.toNat &&& %d == %d" % (C["BPF_CLS_MASK"], C["BPF_JMP32"])); env["is_32"] = "B:is32"; continue
            m = re.fullmatch(r"let intcc = match insn\.opc \{ (.*) \}", s_)
            if m:
                out.append(pad + "let intcc ← (match i.opc.toNat &&& %d with" % C["BPF_ALU_OP_MASK"])
                for a_ in split_top(m.group(1), ","):
                    a_ = a_.strip()
                    if a_ == "": continue
                    q = re.fullmatch(r"c if \(c & BPF_ALU_OP_MASK\) == (BPF_[A-Z]+) => IntCC::([A-Za-z]+)", a_)
                    if q: out.append(pad + "  | %d => pure CC.%s" % (C[q.group(1)], CCS[q.group(2)])); continue
                    if a_ == "_ => unreachable!()": out.append(pad + "  | _ => throw .panic : B CC)"); continue
                    raise SyntaxError("intcc arm " + a_)
                env["intcc"] = "intcc"; continue
            m = re.fullmatch(r"let rhs = match \(is_reg, is_32\) \{ (.*) \}", s_)
            if m:
                out.append(pad + "let rhs ← match isReg, is32 with")
                for a_ in split_top(m.group(1), ","):
                    a_ = a_.strip()
                    if a_ == "": continue
                    q = re.fullmatch(r"\((true|false), (true|false)\) => (self\..*)", a_)
                    if not q: raise SyntaxError("rhs arm " + a_)
                    act, _v = rhs(q.group(3), env); out.append(pad + "  | %s, %s => %s" % (q.group(1), q.group(2), act))
                env["rhs"] = "rhs"; continue
        m = re.fullmatch(r"let is_ind = \(insn\.opc & BPF_IND\) != 0", s_)
        if m: out.append(pad + "let isInd : Bool := i.opc.toNat &&& %d != 0" % 0x40); env["is_ind"] = "B:isInd"; continue
        m = re.match(r"(?:let ([a-z0-9_]+) = )?if ([^{]*)\{", s_)
        if m:
            name = m.group(1); chain = []; pos = m.end() - 1; c_ = m.group(2)
            while True:
                e = balanced(s_, pos); chain.append((c_, s_[pos + 1:e - 1]))
                m2 = re.match(r"\s*else if ([^{]*)\{", s_[e:])
                if m2: c_ = m2.group(1); pos = e + m2.end() - 1; continue
                m3 = re.match(r"\s*else \{", s_[e:])
                if m3: pos = e + m3.end() - 1; e2 = balanced(s_, pos); chain.append((None, s_[pos + 1:e2 - 1])); e = e2
                if s_[e:].strip(): raise SyntaxError("after if: " + s_[e:][:30])
                break
            head = ("let %s ← " % camel(name)) if name else ""
            for j, (c2, blk) in enumerate(chain):
                kw = ("%sif %s then do" % (head, cond(c2, env))) if j == 0 else ("else if %s then do" % cond(c2, env) if c2 is not None else "else do")
                out.append(pad + ("  " if j > 0 and name else "") + kw)
                out += block_to_lean(blk, env, ind + (4 if name else 2))
            if chain[-1][0] is not None:
                if name: raise SyntaxError("value-if without else")
                out.append(pad + "else pure ()")
            if name: env[name] = camel(name)
            continue
        m = re.fullmatch(r"let ([a-z0-9_]+) = (.*)", s_)
        if m:
            act, v = rhs(m.group(2), env)
            if not v: raise SyntaxError("let of a unit action")
            env[m.group(1)] = camel(m.group(1)); out.append(pad + "let %s ← %s" % (camel(m.group(1)), act)); continue
        if is_last and last_is_value and re.fullmatch(r"[a-z0-9_]+", s_) and s_ in env:
            out.append(pad + "pure %s" % env[s_]); continue
        m = re.fullmatch(r"bcx\.def_var\(self\.registers\[0\], ([a-z0-9_]+)\)", s_)
        if m: out.append(pad + "defVar 0 %s" % val(m.group(1), env)); continue
        act, v = rhs(s_, env)
        if v and not (is_last and last_is_value): raise SyntaxError("value discarded: " + s_[:40])
        out.append(pad + act)
    if not out: out.append(" " * ind + "pure ()")
    return out

def body_to_lean(body, params, ind):
    return block_to_lean(body, dict((p, camel(p)) for p in params), ind)

def body_to_lean_old(body, params, ind):
    """straight-line body -> list of Lean do-lines; raises SyntaxError on anything else"""
    env = dict((p, camel(p)) for p in params)
    out = []
    st = [s.strip() for s in split_top(body, ";")]
    if any("{" in s for s in st): raise SyntaxError("not a straight line")
    for k, s in enumerate(st):
        s = " ".join(s.split())
        if s == "": continue
        if s in ("let mut flags = MemFlags::new()", "flags.set_endianness(Endianness::Little)"): continue
        m = re.fullmatch(r"let ([a-z0-9_]+) = (.*)", s)
        if m:
            act, v = rhs(m.group(2), env)
            if not v: raise SyntaxError("let of a unit action")
            name = camel(m.group(1)); env[m.group(1)] = name
            out.append(" " * ind + "let %s ← %s" % (name, act)); continue
        act, v = rhs(s, env)
        last = all(x.strip() == "" for x in st[k + 1:])
        if v and not last: raise SyntaxError("value discarded: " + s[:40])
        out.append(" " * ind + act)
    return out

lines = ["/- GENERATED by checklib/gen_clif.py from src/cranelift.rs on every run of ./check: do not edit -/",
         "import RbpfModel.Model.ClifAst", "set_option linter.unusedVariables false", "namespace Rbpf.Generated.Clif", "open Rbpf Rbpf.ClifAst", ""]
problems = []
SIGS = {"insn_imm64": ("(i : Insn)", "Arg", []), "insn_imm32": ("(i : Insn)", "Arg", []), "insn_dst": ("(i : Insn)", "Arg", []), "insn_dst32": ("(i : Insn)", "Arg", []),
        "insn_src": ("(i : Insn)", "Arg", []), "insn_src32": ("(i : Insn)", "Arg", []), "set_dst": ("(i : Insn) (val : Arg)", "Unit", ["val"]), "set_dst32": ("(i : Insn) (val : Arg)", "Unit", ["val"]),
        "insert_bounds_check": ("(ty : Ty) (base : Arg) (offset : BitVec 16)", "Unit", ["base"]), "reg_load": ("(ty : Ty) (base : Arg) (offset : BitVec 16)", "Arg", ["base"]),
        "reg_store": ("(ty : Ty) (base : Arg) (offset : BitVec 16) (val : Arg)", "Unit", ["base", "val"]), "reg_atomic_add": ("(ty : Ty) (base : Arg) (offset : BitVec 16) (val : Arg)", "Unit", ["base", "val"])}
ORDER = ["insn_imm64", "insn_imm32", "insn_dst", "insn_dst32", "insn_src", "insn_src32", "set_dst", "set_dst32", "insert_bounds_check", "reg_load", "reg_store", "reg_atomic_add"]
okflags = []
for fn in ORDER:
    sig, ret, params = SIGS[fn]
    try:
        m = re.search(r"fn %s\(" % fn, txt)
        if not m: raise SyntaxError("not found")
        b0 = txt.index("{", balanced(txt, m.end() - 1, "(", ")"))
        body = txt[b0 + 1:balanced(txt, b0) - 1]
        l = body_to_lean(body, params, 2)
        lines += ["/-- `%s` -/" % fn, "def %sSrc %s : B %s := do" % (camel(fn), sig, ret)] + l + [""]
        okflags.append("true")
    except Exception as ex:
        problems.append("%s: %s" % (fn, ex)); okflags.append("false")
        lines += ["def %sSrc %s : B %s := throw .err" % (camel(fn), sig, ret), ""]
lines += ["def helpersSrcOk : Bool := %s" % " && ".join(okflags), ""]
# the straight-line arms of translate_program
try:
    m = re.search(r"fn translate_program\(", txt)
    mm = re.compile(r"match insn\.opc \{").search(txt, m.end())
    mbody = txt[mm.end():balanced(txt, mm.end() - 1) - 1]
    arms = []; i = 0; n = len(mbody)
    while True:
        while i < n and mbody[i] in " \n\t,": i += 1
        if i >= n: break
        j = mbody.index("=>", i)
        pats = [p.strip() for p in mbody[i:j].split("|")]
        k = j + 2
        while mbody[k] in " \n\t": k += 1
        if mbody[k] != "{":
            d = 0; e = k
            while e < n and not (mbody[e] == "," and d == 0):
                if mbody[e] in "({[": d += 1
                elif mbody[e] in ")}]": d -= 1
                e += 1
            arms.append((pats, "{" + mbody[k:e] + "}")); i = e; continue      # a bare expression: never a straight line of builder calls here
        e = balanced(mbody, k); arms.append((pats, mbody[k + 1:e - 1])); i = e
    simple = []; complex_ = []
    arm_lines = []
    for pats, body in arms:
        if pats == ["_"]: continue
        ops = []
        for p_ in pats:
            q = re.fullmatch(r"ebpf::([A-Z0-9_]+)", p_)
            if not q or q.group(1) not in C: raise SyntaxError("arm pattern " + p_)
            ops.append(C[q.group(1)])
        try:
            l = body_to_lean(body, [], 6)
            arm_lines.append("  | %s => some (do" % " | ".join(str(o) for o in ops)); arm_lines += l
            arm_lines[-1] += ")"; simple += ops
        except SyntaxError:
            complex_ += ops
    ctl_lines = []; ctl_ops = []; rest_ops = []
    for pats, body in arms:
        if pats == ["_"]: continue
        ops = [C[re.fullmatch(r"ebpf::([A-Z0-9_]+)", p_).group(1)] for p_ in pats]
        if ops[0] in simple: continue
        try:
            b_ = body.strip()
            if b_.startswith("{") and balanced(b_, 0) == len(b_): b_ = b_[1:-1]
            l = block_to_lean(b_, {"__ctl": "1"}, 6)
            ctl_lines.append("  | %s => some (do" % " | ".join(str(o_) for o_ in ops)); ctl_lines += l; ctl_lines[-1] += ")"; ctl_ops += ops
        except SyntaxError as ex2:
            rest_ops += ops; ctl_lines.append("  -- not translated (%s): %s" % (ops[0], str(ex2).replace("\n", " ")[:100]))
    complex_ = rest_ops
    lines += ["/-- the arms with control flow of their own (`ja`, the conditional jumps, `call`, `tail_call`, `exit`): `insn_targets[&insn_ptr]` is the table `build_cfg` filled",
              "    (`targetPc`; the fall-through block is the next instruction's) -/",
              "def ctlArmSrc (helpers : Nat → Bool) (p : Bytes) (pc : Nat) (i : Insn) : Option (B Unit) :=", "  match i.opc.toNat with"] + ctl_lines + ["  | _ => none",
              "def ctlOpcodes : List Nat := %s" % str(sorted(ctl_ops)),
              "/-- the default arm is `unimplemented!(..)` -/", "def defaultArmPanics : Bool := %s" % ("true" if any(pt == ["_"] and " ".join(bd.split()).strip("{} ").startswith("unimplemented!(") for pt, bd in arms) else "false"), ""]
    lines += ["/-- the arms of `translate_program` that are a straight line of builder calls, by opcode; `none`: the arm has control flow of its own (or there is no such arm) -/",
              "def straightArmSrc (i : Insn) : Option (B Unit) :=", "  match i.opc.toNat with"] + arm_lines + ["  | _ => none",
              "def straightOpcodes : List Nat := %s" % str(sorted(simple)), "def otherOpcodes : List Nat := %s" % str(sorted(complex_)), "def armsSrcOk : Bool := true", ""]
except Exception as ex:
    problems.append("translate_program: %s" % ex)
    lines += ["def straightArmSrc (i : Insn) : Option (B Unit) := none", "def straightOpcodes : List Nat := []", "def otherOpcodes : List Nat := []", "def armsSrcOk : Bool := false", ""]
# ---- build_function_prelude: from the stack slot to the jump into the block of instruction 0
try:
    m = re.search(r"fn build_function_prelude\(", txt)
    b0 = txt.index("{", balanced(txt, m.end() - 1, "(", ")")); body = txt[b0 + 1:balanced(txt, b0) - 1]
    k = body.index("let ss = bcx.create_sized_stack_slot(")
    decl = " ".join(body[:k].split())
    decl_ok = bool(re.fullmatch(r"for var in self\.registers\.iter_mut\(\) \{ \*var = bcx\.declare_var\(I64\); \} self\.mem_start = bcx\.declare_var\(I64\); self\.mem_end = bcx\.declare_var\(I64\); "
                                r"self\.mbuf_start = bcx\.declare_var\(I64\); self\.mbuf_end = bcx\.declare_var\(I64\); self\.stack_start = bcx\.declare_var\(I64\); self\.stack_end = bcx\.declare_var\(I64\); "
                                r"for \(k, _\) in self\.helpers\.iter\(\) \{.*\}", decl))
    STACK = C["STACK_SIZE"]
    env = {}; pl = []
    for st_ in split_top(body[k:], ";"):
        st_ = " ".join(st_.split())
        if st_ == "": continue
        if st_ == "let ss = bcx.create_sized_stack_slot(StackSlotData::new( StackSlotKind::ExplicitSlot, STACK_SIZE as u32, 0, ))": continue
        if st_ == "let addr_ty = self.isa.pointer_type()": continue
        q = re.fullmatch(r"let ([a-z_]+) = bcx\.ins\(\)\.stack_addr\(addr_ty, ss, (STACK_SIZE as i32|0)\)", st_)
        if q: env[q.group(1)] = camel(q.group(1)); pl.append("  let %s ← ins (.stackAddr %d)" % (camel(q.group(1)), STACK if q.group(2) != "0" else 0)); continue
        q = re.fullmatch(r"bcx\.def_var\(self\.registers\[(\d+)\], ([a-z_]+)\)", st_)
        if q: pl.append("  defVar %s %s" % (q.group(1), val(q.group(2), env))); continue
        q = re.fullmatch(r"bcx\.def_var\(self\.([a-z_]+), ([a-z_]+)\)", st_)
        if q and q.group(1) in VARS: pl.append("  defVar %s %s" % (VARS[q.group(1)], val(q.group(2), env))); continue
        q = re.fullmatch(r"let ([a-z_]+) = bcx\.block_params\(entry\)\[(\d)\]", st_)
        if q: env[q.group(1)] = camel(q.group(1)); pl.append("  let %s := Arg.param %s" % (camel(q.group(1)), q.group(2))); continue
        if st_ == "let program_entry = *self .insn_blocks .entry(0) .or_insert_with(|| bcx.create_block())": continue
        if st_ == "bcx.ins().jump(program_entry, &[])": pl.append("  emit (.jump 0)"); continue
        if st_ in ("self.filled_blocks.insert(bcx.current_block().unwrap())", "Ok(())"): continue
        q = re.fullmatch(r"let ([a-z_]+) = (bcx\.ins\(\)\..*)", st_)
        if q:
            act, v = rhs(q.group(2), env); env[q.group(1)] = camel(q.group(1)); pl.append("  let %s ← %s" % (camel(q.group(1)), act)); continue
        raise SyntaxError("prelude statement `%s`" % st_[:80])
    lines += ["/-- `build_function_prelude` from the stack slot on: the stack addresses, the ends of the two memory areas, R1 and R2, the jump to the block of instruction 0 -/",
              "def preludeSrcB : B Unit := do"] + pl + ["def preludeSrcOk : Bool := %s" % ("true" if decl_ok else "false"), ""]
except Exception as ex:
    problems.append("build_function_prelude: %s" % ex); lines += ["def preludeSrcB : B Unit := throw .err", "def preludeSrcOk : Bool := false", ""]
# ---- build_cfg, prepare_jump_blocks and the head of translate_program's loop: the opcode classes are extracted, the rest is recognised as whole shapes
try:
    flat = " ".join(txt.split())
    m = re.search(r"fn build_cfg\(&mut self, bcx: &mut FunctionBuilder, prog: &\[u8\]\) -> Result<\(\), Error> \{ let mut insn_ptr: usize = 0; while insn_ptr \* ebpf::INSN_SIZE < prog\.len\(\) \{ "
                  r"let insn = ebpf::get_insn\(prog, insn_ptr\); match insn\.opc \{ ebpf::LD_DW_IMM => \{ insn_ptr \+= 1; \} ((?:ebpf::[A-Z0-9_]+ \| )*ebpf::[A-Z0-9_]+) => \{ self\.prepare_jump_blocks\(bcx, insn_ptr, &insn\); \} "
                  r"((?:ebpf::[A-Z0-9_]+ \| )*ebpf::[A-Z0-9_]+) => \{ self\.insn_blocks \.entry\(insn_ptr as u32 \+ 1\) \.or_insert_with\(\|\| bcx\.create_block\(\)\); \} _ => \{\} \} insn_ptr \+= 1; \} Ok\(\(\)\) \}", flat)
    if not m: raise SyntaxError("build_cfg has another shape")
    jl = [C[x.strip()[6:]] for x in m.group(1).split("|")]; nl = [C[x.strip()[6:]] for x in m.group(2).split("|")]
    pj = bool(re.search(r"fn prepare_jump_blocks\(&mut self, bcx: &mut FunctionBuilder, insn_ptr: usize, insn: &Insn\) \{ let insn_ptr = insn_ptr as u32; let next_pc: u32 = insn_ptr \+ 1; "
                        r"let target_pc: u32 = \(insn_ptr as isize \+ insn\.off as isize \+ 1\) \.try_into\(\) \.unwrap\(\); let fallthrough_block = \*self \.insn_blocks \.entry\(next_pc\) \.or_insert_with\(\|\| bcx\.create_block\(\)\); "
                        r"let target_block = \*self \.insn_blocks \.entry\(target_pc\) \.or_insert_with\(\|\| bcx\.create_block\(\)\); self\.insn_targets \.insert\(insn_ptr, \(fallthrough_block, target_block\)\); \}", flat))
    th = bool(re.search(r"fn translate_program\(&mut self, bcx: &mut FunctionBuilder, prog: &\[u8\]\) -> Result<\(\), Error> \{ let mut insn_ptr: usize = 0; while insn_ptr \* ebpf::INSN_SIZE < prog\.len\(\) \{ "
                        r"let insn = ebpf::get_insn\(prog, insn_ptr\); if let Some\(block\) = self\.insn_blocks\.get\(&\(insn_ptr as u32\)\) \{ let current_block = bcx\.current_block\(\)\.unwrap\(\); "
                        r"if !self\.filled_blocks\.contains\(&current_block\) \{ bcx\.ins\(\)\.jump\(\*block, &\[\]\); \} bcx\.switch_to_block\(\*block\); \} bcx\.set_srcloc\(SourceLoc::new\(insn_ptr as u32\)\); match insn\.opc \{", flat))
    tt = bool(re.search(r"_ => unimplemented!\(\"inst: \{:\?\}\", insn\), \} insn_ptr \+= 1; \} Ok\(\(\)\) \}", flat))
    lines += ["/-- `build_cfg`: the opcodes for which it calls `prepare_jump_blocks`, and those after which only the next instruction starts a block -/",
              "def cfgJumpOpcodesSrc : List Nat := %s" % str(sorted(jl)), "def cfgNextOnlySrc : List Nat := %s" % str(sorted(nl)),
              "/-- `prepare_jump_blocks` (blocks for the next instruction and for `insn_ptr + off + 1`, which must fit a `u32`: `try_into().unwrap()`), the head of the loop of",
              "    `translate_program` (switch to the instruction's block, closing an unterminated current block with `jump` first; `set_srcloc`) and its tail have the modelled shapes -/",
              "def prepareJumpBlocksShape : Bool := %s" % ("true" if pj else "false"), "def translateHeadShape : Bool := %s" % ("true" if th else "false"), "def translateTailShape : Bool := %s" % ("true" if tt else "false"), ""]
except Exception as ex:
    problems.append("build_cfg: %s" % ex)
    lines += ["def cfgJumpOpcodesSrc : List Nat := []", "def cfgNextOnlySrc : List Nat := []", "def prepareJumpBlocksShape : Bool := false", "def translateHeadShape : Bool := false", "def translateTailShape : Bool := false", ""]
# ---- helper symbols: the name under which `CraneliftCompiler::new` registers a helper's address and the name `build_function_prelude` imports must be the same function of the id
try:
    flat = " ".join(txt.split())
    m1 = re.search(r"for \(k, v\) in helpers\.iter\(\) \{ let name = format!\(\"([^\"]*)\", k\); jit_builder\.symbol\(name, \(\*v\) as usize as \*const u8\); \}", flat)
    m2 = re.search(r"for \(k, _\) in self\.helpers\.iter\(\) \{ let name = format!\(\"([^\"]*)\", k\); let sig = Signature \{ params: vec!\[ AbiParam::new\(I64\), AbiParam::new\(I64\), AbiParam::new\(I64\), AbiParam::new\(I64\), AbiParam::new\(I64\), \], "
                   r"returns: vec!\[AbiParam::new\(I64\)\], call_conv: self\.isa\.default_call_conv\(\), \}; let func_id = self \.module \.declare_function\(&name, Linkage::Import, &sig\) \.unwrap\(\); "
                   r"let func_ref = self\.module\.declare_func_in_func\(func_id, bcx\.func\); self\.helper_func_refs\.insert\(\*k, func_ref\); \}", flat)
    if not m1 or not m2: raise SyntaxError("helper registration / import loops")
    def chars(s_): return "[" + ", ".join("'%s'" % c for c in s_) + "]"
    lines += ["/-- the symbol name a helper's address is registered under (`CraneliftCompiler::new`) and the name the function imports (`build_function_prelude`): format strings over the id;",
              "    the import has five I64 parameters and one I64 result -/",
              "def helperSymbolDefSrc : List Char := %s" % chars(m1.group(1)), "def helperSymbolImportSrc : List Char := %s" % chars(m2.group(1)), "def helperSymbolsSrcOk : Bool := true", ""]
except Exception as ex:
    problems.append("helper symbols: %s" % ex); lines += ["def helperSymbolDefSrc : List Char := []", "def helperSymbolImportSrc : List Char := ['x']", "def helperSymbolsSrcOk : Bool := false", ""]
for p_ in problems: lines.append("/- not translated: %s -/" % p_.replace("-/", "- /"))
lines += ["end Rbpf.Generated.Clif", ""]
new = "\n".join(lines)
os.makedirs(os.path.dirname(os.path.abspath(OUT)), exist_ok=True)
if not os.path.exists(OUT) or open(OUT).read() != new: open(OUT, "w").write(new)
print("cranelift helpers and straight-line arms:", "ok" if not problems else "; ".join(problems))
