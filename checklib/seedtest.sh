#!/bin/sh
# development aid: apply a seeded change to /repo, run the given checks (quick tier), undo the change.
# usage: seedtest.sh <patch.diff> Cxx [Cyy ...]
P="$1"; shift
git -C /repo apply "$P" || { echo "patch does not apply"; exit 2; }
for c in "$@"; do
  /usr/bin/time -f "$c %es" /verif/check "$c" 2>&1 | grep -E "^VIOLATION|^KNOWN-FINDING|s$" | cut -c1-220
done
git -C /repo checkout -- .
(cd /verif/harness && RUSTFLAGS="--cfg rbpf_verif" cargo build --release --offline 2>&1 | grep -E "^error" -A5 || true)
(cd /verif/harness_nostd && RUSTFLAGS="--cfg rbpf_verif --cfg harness_nostd" cargo build --release --offline 2>&1 | grep -E "^error" -A5 || true)
git -C /repo status --short | head -3
