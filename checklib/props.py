"""Per-property configuration, oracles, verdict logic and evidence (DESIGN.md §5, §7)."""
import os, json, time, hashlib, re, sys

ROOT = os.path.dirname(os.path.dirname(os.path.abspath(__file__)))

TRUSTED_COMMON = [
    "Lean 4.33 kernel; axioms propext, Classical.choice, Quot.sound",
    "hand-written Lean model tied to /repo through this run's correspondence check (differential, sampled/enumerated as stated in 'rule') and, for the translated slices (Generated/*.lean, regenerated from the source on this run by checklib/gen_*.py), through the obligations proving the model equal to the translation",
    "the translators checklib/gen_*.py (what they do not recognise they refuse: the *_translated / shape obligations then fail)",
    "the Rust harness (/verif/harness), ./check and checklib (generation, canonicalisation, diffing)",
    "Rust integer cast / wrapping_* semantics as written into the model",
]

# ---------------------------------------------------------------------------- helpers

_CLIF_BOUNDS = re.compile(r"^(a0|a2|-\.[1-4])$")
def clif_relaxed_eq(a, b):
    """resolved canonical Cranelift IR, real vs model: equal line by line, except that where cranelift-frontend kept a block
    parameter for a bounds variable (a block with a predecessor unreachable from the entry) the real text has `x` where the
    model names the prelude value"""
    ra = a.split(" ;; "); rb = b.split(" ;; ")
    if len(ra) != len(rb): return False
    for x, y in zip(ra, rb):
        if x == y: continue
        tx = re.split(r"[ ,]+", x); ty = re.split(r"[ ,]+", y)
        if len(tx) != len(ty): return False
        for p, q in zip(tx, ty):
            if p != q and not (p == "x" and _CLIF_BOUNDS.match(q)): return False
    return True

def split_out(line):
    """'outcome | k=v | k=v' -> (outcome, {k:v})"""
    parts = [p.strip() for p in line.split(" | ")]
    kv = {}
    for p in parts[1:]:
        if "=" in p:
            k, v = p.split("=", 1); kv[k] = v
    return parts[0], kv

def fields(outcome):
    d = {}
    for tok in outcome.split():
        if "=" in tok:
            k, v = tok.split("=", 1); d[k] = v
    return d

# ---------------------------------------------------------------------------- C17

def py_decode(slot_hex):
    b = bytes.fromhex(slot_hex)
    return "%02x,%02x,%02x,%04x,%08x" % (b[0], b[1] & 0xf, b[1] >> 4, b[2] | (b[3] << 8), int.from_bytes(b[4:8], "little"))

def oracle_c17(line, impl, model_kv, impl_kv=None, model=None):
    t = line.split()
    f = fields(impl)
    if impl == "bad-op": return None
    if t[0] == "dec":
        if impl == "panic": return "get_insn panicked on a whole slot"
        if f.get("a") != t[1] or f.get("v") != t[1]: return "encode(decode(slot)) != slot"
        if f.get("i") != py_decode(t[1]): return "decoded fields differ from the slot's fields"
    elif t[0] == "enc":
        if impl == "panic": return "encoder panicked"
        if f.get("a") != f.get("v"): return "to_array and to_vec disagree"
        dst, src = int(t[2], 16), int(t[3], 16)
        if dst < 16 and src < 16:
            want = "%02x,%02x,%02x,%04x,%08x" % (int(t[1], 16), dst, src, int(t[4], 16), int(t[5], 16))
            if f.get("d") != want: return "decode(encode(insn)) != insn"
    elif t[0] == "idx":
        n = 0 if t[1] == "-" else len(t[1]) // 2
        k = int(t[2], 16)
        if (k + 1) * 8 > n:
            if impl != "panic": return "get_insn out of range did not panic"
        else:
            if f.get("i") != py_decode(t[1][16 * k:16 * k + 16]): return "get_insn(prog,k) is not slot k"
    elif t[0] == "vec":
        n = 0 if t[1] == "-" else len(t[1]) // 2
        if n % 8 != 0:
            if impl != "panic": return "to_insn_vec accepted a partial slot"
        else:
            want = "v=" + ";".join(py_decode(t[1][16 * k:16 * k + 16]) for k in range(n // 8))
            if impl != want: return "to_insn_vec differs from the slots"
    elif t[0] == "bld":
        if impl == "panic": return "the builder did not produce the 8-byte slot of the instruction the constructor call denotes (reading it panicked)"
        if f.get("b") != f.get("e"): return "builder bytes differ from the instruction encoder's"
        # the instruction a constructor denotes is fixed by its arguments (class | mode / source | size / operation, as the opcode constants of
        # ebpf.rs compose them): the model's builder is proved to emit the encoder's bytes for that instruction (C17_builder)
        mb = fields(model).get("b") if model else None
        if mb is not None and f.get("b") is not None and f.get("b") != mb:
            return "the builder emits %s for a constructor call that denotes the instruction the encoder emits as %s" % (f.get("b"), mb)
        if model_kv.get("canon") == "1" and f.get("a") not in (None, "skip") and f.get("a") != f.get("b"):
            return "the assembler gives '%s' for the text of an instruction the builder encodes as %s" % (f.get("a"), f.get("b"))
    return None

# ---------------------------------------------------------------------------- C06

def oracle_spec_only(line, impl, model_kv, impl_kv=None, model=None):
    """the driver printed the property's specification verdict as spec=…; generic comparison handles it"""
    return None

# ---------------------------------------------------------------------------- C14 / C15

def oracle_c14(line, impl, model_kv, impl_kv=None, model=None):
    if impl == "panic" or impl.startswith("crash"): return "assemble panicked"
    t = line.split()
    for tok in t[2:]:
        if tok.startswith("want="):
            w = tok[5:]
            got = "ok:" + impl[3:] if impl.startswith("ok ") else impl
            if w != got: return "assembler output '%s' differs from the bytes the documented syntax denotes '%s'" % (got[:80], w[:80])
    return None

def oracle_c16(line, impl, model_kv, impl_kv=None, model=None):
    if impl in ("asm-panic",) or impl.startswith("crash"): return "the assembler panicked on the disassembler's output"
    if impl.startswith("ok ") and model_kv.get("canon") is not None and impl[3:] != model_kv.get("canon"):
        return "the assembler accepted the disassembler's text but produced '%s', not the canonical form '%s'" % (impl[3:80], str(model_kv.get("canon"))[:80])
    return None

def oracle_c15(line, impl, model_kv, impl_kv=None, model=None):
    dom = model_kv.get("dom")
    if dom == "in" and (impl == "panic" or impl.startswith("crash")): return "disassembler panicked on a byte string of whole supported instructions"
    if dom == "in" and impl.startswith("ok"):
        # fields of every entry against the raw slots (independent decode)
        prog = line.split()[1]
        prog = "" if prog == "-" else prog
        ents = [e for e in impl[3:].split(";") if e] if len(impl) > 3 else []
        k = 0; i = 0
        while k * 16 < len(prog):
            if i >= len(ents): return "fewer entries than instructions"
            slot = bytes.fromhex(prog[16 * k:16 * k + 16]); f = ents[i].split("~")
            if len(f) != 7: return "malformed entry"
            if int(f[0], 16) != slot[0] or int(f[3], 16) != (slot[1] & 15) or int(f[4], 16) != (slot[1] >> 4) or int(f[5], 16) != int.from_bytes(slot[2:4], "little"):
                return "entry %d does not report the encoded opcode/registers/offset" % i
            imm = int.from_bytes(slot[4:8], "little", signed=True)
            if slot[0] == 0x18:
                nxt = bytes.fromhex(prog[16 * (k + 1):16 * (k + 1) + 16])
                want = (int.from_bytes(slot[4:8], "little") | (int.from_bytes(nxt[4:8], "little") << 32))
                k += 1
            else: want = imm & 0xffffffffffffffff
            if int(f[6], 16) != want: return "entry %d does not report the encoded immediate" % i
            k += 1; i += 1
        if i != len(ents): return "more entries than instructions"
        # names: the mnemonic of the opcode (the model's name table is the documented one: C15_names)
        if model and model.startswith("ok"):
            ments = [e for e in model[3:].split(";") if e] if len(model) > 3 else []
            for j, (a, b) in enumerate(zip(ents, ments)):
                if a.split("~")[1] != b.split("~")[1]:
                    return "entry %d is named '%s', the mnemonic of opcode 0x%s is '%s'" % (j, a.split("~")[1], a.split("~")[0], b.split("~")[1])
        # texts: read back by the assembler model (proved to implement the documented syntax), the texts must denote the
        # program's instructions with the fields the syntax cannot express cleared (RtSpec.canon; C16_canonical), whenever
        # the syntax can express them at all
        ta, tm, cn = model_kv.get("textasm"), model_kv.get("mtextasm"), model_kv.get("canon")
        if ta is not None and cn == "none" and ta not in ("err", "panic", "-") and tm in ("err", "panic"):
            # an operand the syntax cannot spell (a byte-swap width other than 16/32/64): a text the assembler reads without
            # complaint necessarily denotes another instruction
            return "the entries' texts read back as '%s' although an operand has no spelling in the assembler's syntax: the text does not render the encoded operands" % ta[:80]
        if ta is not None and cn not in (None, "none"):
            if ta not in ("err", "panic") and ta != cn:
                return "the entries' texts do not render the operands in the assembler's syntax: read back they give '%s', the instructions are '%s'" % (ta[:80], cn[:80])
            if ta in ("err", "panic") and tm == cn:
                return "the entries' texts are not in the assembler's syntax (read back: %s) although the syntax can express these operands" % ta
    return None

# ---------------------------------------------------------------------------- registry

EXEC_TRUST = ["host addresses of the buffers are taken from the run itself (echoed by the harness, incl. the interpreter's stack through the rbpf_verif hook)",
              "helpers registered by the harness are pure functions of their arguments"]

def engine_oracle(engines, check_align=False):
    """the generated code must agree with the interpreter on every in-claim case; compile outcomes must be the modelled ones;
    compilation never panics and is repeatable"""
    def f(line, impl, mkv, ikv=None, model=None):
        ikv = ikv or {}
        if impl == "panic" or impl.startswith("crash"): return "harness/interpreter panicked or crashed"
        fi = dict(x.split("=", 1) for x in impl.split()[1:] if "=" in x)
        corr = None
        if "jit" in engines and ikv.get("jitcode") and ikv.get("jitsizing"):
            n = int(ikv["jitcode"].split(".")[0]); p1, buf = (int(x) for x in ikv["jitsizing"].split("."))
            if p1 != n: return "the JIT's size-only first pass counted %d bytes but the second pass emitted %d: the buffer is sized from the first" % (p1, n)
            if buf < n or buf != (max(n, 4096) + 4095) // 4096 * 4096: return "the JIT's code buffer (%d bytes) is not the page-rounded size of the %d bytes emitted" % (buf, n)
        # second execution on the same VM with a shorter packet (again=L): the interpreter as the model of that second
        # execution, every engine as the interpreter (in claim)
        if mkv.get("againsem") is not None:
            if ikv.get("again") is not None and ikv["again"] != mkv["againsem"]:
                return "second execution on the same VM (packet cut to %s bytes): the interpreter gives '%s' where the model of that execution gives '%s'" % (fields(line).get("again"), ikv["again"], mkv["againsem"])
            if mkv.get("claim2") == "in" and mkv.get("claim") == "in":
                for e in engines:
                    v2 = ikv.get(e + "2")
                    if v2 is not None and v2 != mkv["againsem"]:
                        return "second execution on the same VM (packet cut to %s bytes): %s gives '%s' where the interpreter gives '%s'" % (fields(line).get("again"), e, v2, mkv["againsem"])
        for e in engines:
            val = ikv.get(e)
            if val is None: continue
            v0 = val.split(":code=")[0]
            sem = mkv.get(e + "sem")
            if " anyprog=" in line:
                # outside C12's claim (not accepted by the default verifier): only the compile models are validated here
                if v0 != sem: return "CORR:%s: compile outcome '%s' where the compile model says '%s'" % (e, v0, sem)
                if e == "jit" and ikv.get("jitcode") is not None and ikv.get("jitcode") != mkv.get("jitcodesem"):
                    return "CORR:the JIT's machine code differs from the emitter model's"
                if e == "clif" and ikv.get("clifir") is not None and mkv.get("clifirsem") is not None and ikv["clifir"] != mkv["clifirsem"]:
                    return "CORR:the Cranelift IR built by cranelift.rs (%s) differs from the translator model's (%s)" % (ikv["clifir"], mkv["clifirsem"])
                continue
            if v0.startswith("compile-panic"): return e + ": compilation panicked"
            if v0.startswith("nonrepeatable"): return e + ": compiling twice gave different results (" + v0 + ")"
            if v0 == "compile-err" or sem == "compile-err":
                if v0 != sem and not (v0 == "compile-err" and sem in ("compile-err",)): return "%s: compile outcome '%s' where the model says '%s'" % (e, v0, sem)
                continue
            if e == "jit" and ikv.get("jitcode") is not None and mkv.get("jitcodesem") is not None and ikv["jitcode"] != mkv["jitcodesem"]:
                corr = "CORR:the JIT's machine code (%s) differs from the byte-exact emitter model's (%s)" % (ikv["jitcode"], mkv["jitcodesem"])
            if e == "clif" and ikv.get("clifir") is not None and mkv.get("clifirsem") is not None and ikv["clifir"] != mkv["clifirsem"]:
                corr = corr or "CORR:the Cranelift IR built by cranelift.rs (%s lines.digest) differs from the translator model's (%s)" % (ikv["clifir"], mkv["clifirsem"])
            if e == "jit" and mkv.get("x86valid") == "0":
                corr = corr or "CORR:the emitter model's bytes do not decode (X86.decode) to the instruction-level description of the JIT (JitAst.validate)"
            if v0 == "compiled" or mkv.get("claim") != "in": continue
            want = "ok:r0=%s:mem=%s:mbuff=%s:LOG=%s" % (fi.get("r0"), fi.get("mem"), fi.get("mbuff"), fi.get("log"))
            got, _, al = v0.partition(":align=")
            if e == "jit" and mkv.get("x86sem") is not None:
                # the x86-64 model executing the emitter model's bytes must compute what the processor computed from the real bytes
                xs, _, mis = mkv["x86sem"].partition(":mis=")
                if xs != got: corr = corr or "CORR:the x86-64 model run on the emitted bytes gives '%s' where the processor gives '%s'" % (xs[:90], got[:90])
                if mis not in ("", "0") and check_align: return "jit: the emitted code enters a helper with rsp %% 16 != 0 at the call (x86-64 model, %s call(s))" % mis
            if check_align and al not in ("", "ff", "8"): return "%s: helper entered with rsp %% 16 = %s (the C ABI requires 8 at entry, i.e. 16-byte alignment at the call)" % (e, al)
            if got != want:
                mkv["engine_as_modelled"] = "1" if got == sem else "0"
                mkv["engine"] = e
                return "%s gives '%s' where the interpreter gives '%s'" % (e, got[:90], want[:90])
        return corr
    return f

def oracle_c11(line, impl, mkv, ikv=None, model=None):
    """Cranelift-compiled code: an access outside stack/packet/metadata traps before it happens, inside it is performed"""
    ikv = ikv or {}
    val = ikv.get("clif")
    if val is None: return None
    v0 = val.split(":code=")[0]; sem = mkv.get("clifsem")
    r = _oracle_c11(v0, sem, mkv)
    if r is None and ikv.get("clifir") is not None and mkv.get("clifirsem") is not None and ikv["clifir"] != mkv["clifirsem"]:
        return "CORR:the Cranelift IR built by cranelift.rs (%s) differs from the translator model's (%s)" % (ikv["clifir"], mkv["clifirsem"])
    return r

def _oracle_c11(v0, sem, mkv):
    if v0.startswith("compile"): return None if v0 == sem else "compile outcome '%s' where the model says '%s'" % (v0, sem)
    if sem == "trap":
        if v0 == "sig:4": return None
        return "Cranelift-compiled code did not trap on an access outside its regions: '%s'" % v0[:100]
    if sem is not None and sem.startswith("ok"):
        if v0.startswith("sig:") or v0 == "err": return "Cranelift-compiled code trapped/faulted ('%s') on an access entirely inside its regions" % v0
        got = v0.partition(":align=")[0]
        if mkv.get("claim") == "in" and got != sem: return "Cranelift-compiled code gives '%s' where the model gives '%s'" % (got[:90], sem[:90])
    return None

def oracle_no_panic(line, impl, model_kv, impl_kv=None, model=None):
    if impl == "panic" or impl.startswith("crash"): return "the interpreter panicked / crashed on a program the verifier accepted"
    return None

def oracle_c07(line, impl, mkv, ikv=None, model=None):
    """interpreter cases: never panic; engine cases (call graphs compiled by the x86-64 JIT): the engine oracle"""
    r = oracle_no_panic(line, impl, mkv, ikv, model)
    if r is None and ikv and ikv.get("jit") is not None: r = _ENGINE_JIT(line, impl, mkv, ikv, model)
    return r
_ENGINE_JIT = engine_oracle(["jit"])

PROPS = {
    "C01": dict(
        suites=["exec-matrix", "exec-memops", "exec-random", "exec-long", "exec-calls"], oracle=oracle_no_panic, level="proof", model_is_spec=True, case_suffix=" spec=isa",
        nontrivial=lambda line, impl: impl.split()[0] in ("ok",) or impl.startswith("err"),
        rule="suites exec-matrix + exec-memops + exec-random + exec-long + exec-calls (call chains of depth 0..9 incl. exactly the nesting limit): every ALU / byte-swap / jump opcode x all (dst,src) register pairs x boundary operand values (V64 x V64 for register forms, "
             "V64 x I32 for immediate forms, shift counts 31..65, i64::MIN, upper halves set), taken/not-taken x forward/backward for every conditional jump, lddw for every register, "
             "all load/store/xadd/ldabs/ldind widths x registers x offsets, random structured programs with loops, stack traffic, helpers, local calls, calculators, and programs of 33,000 and 66,000 "
             "(thorough: 140,000 and 999,999) instructions with maximal forward/backward jumps and wide loads across the 2^15/2^16 boundaries. Each case is compared with the interpreter model AND with the ISA "
             "specification (spec=). Non-trivial: distinct program that ran to a value or an error.",
        trusted=EXEC_TRUST,
    ),
    "C03": dict(
        suites=["exec-engines", "x86step", "api"], oracle=engine_oracle(["jit"]), level="proof", model_is_spec=True,
        nontrivial=lambda line, impl: impl.startswith("ok") or line.startswith("api "),
        rule="suite x86step (validation of the trusted machine model, not of rbpf: ~3,500 single instructions of every form the JIT emits - both widths, all registers, the three displacement encodings, boundary shift counts, arbitrary input flags - executed by the processor from a stub that installs and stores the whole register file, the condition flags and a scratch region, and by X86.step; all 16 registers, ZF/SF/CF/OF where the model defines them, memory and jump decisions compared) + suite exec-engines on the x86-64 JIT (generated code runs in forked children): a third of the C01 operation matrix (every opcode x register pairs x boundary operands, upper halves set before 32-bit "
             "operations and byte swaps), the memory-instruction matrix, call graphs, 12,000 random engine-safe programs on the four VM kinds with helpers, context probes, helper-contract programs, "
             "div/mod at instruction indexes 65534..131071. A case is compared only when the taint run of the model says it is inside the claim (no undefined register/stack byte, r1-r5 after a helper, "
             "or raw address reaches the result, a branch, a divisor or stored packet bytes) - the filtered fraction is in input_distribution. Oracle: same r0, packet and metadata bytes, helper log as the real "
             "interpreter. Suite api: the compiled code that runs is the code of the program and helpers in force - histories of loads, helper (re-)registrations, compilations and executions on the four VM kinds against the state-machine model. Non-trivial: distinct program the interpreter ran to a value, distinct API history.",
        trusted=EXEC_TRUST + ["the processor decodes and executes the ~30 instruction forms the JIT emits as Model/X86.lean says (the machine model is run on the emitted bytes of every case and compared with the processor); System V calling convention"],
    ),
    "C04": dict(
        suites=["exec-engines", "clifir", "api"], oracle=engine_oracle(["clif"]), level="proof", model_is_spec=True,
        nontrivial=lambda line, impl: impl.startswith("ok") or line.startswith("api "),
        rule="suite exec-engines on Cranelift (feature `cranelift`, generated code runs in forked children): same cases as C03, incl. CFG shapes (dead code after exit/ja, back edges, back edge to instruction 0, blocks "
             "reached only by fall-through, jumps over wide loads), mod by zero and le16/32 with upper halves set, helper ids equal to local-call displacements. Local calls must be refused at compile time. "
             "Compared only inside the claim (taint run). Suite api: the compiled code that runs is the code of the program and helpers in force (histories of loads, helper re-registrations, compilations, executions against the state-machine model). Non-trivial: distinct program the interpreter ran to a value, distinct API history. "
             "Cranelift IR: on every case the canonical text of the function cranelift.rs built (hook verif_clif_ir: blocks, opcodes, types, immediates, condition codes, offsets, intra-instruction data flow) is compared by digest with the translator model Model/ClifAst.lean; suite clifir prints the resolved form (which also names the variable an operand reads wherever the text shows it) in full for every distinct program of at most 64 slots and compares it line by line. ",
        trusted=EXEC_TRUST + ["Cranelift 0.127 IR semantics and its code generator (the theorems are about the IR-level model EngineSem)"],
    ),
    "C08": dict(
        suites=["exec-engines#helpers,engrandom,context", "exec-random", "api"], oracle=engine_oracle(["jit", "clif"], check_align=True), level="proof", model_is_spec=True,
        nontrivial=lambda line, impl: "log=0:" not in impl and impl.split()[0] in ("ok",) or impl.startswith("err:unknown-helper"),
        rule="suites exec-engines (helper-contract programs: ids 0, 1, 2^31-1, 2^31, 2^32-1 registered or not, call sites at local-call depth 0..3, arguments set per depth, r6..r9 folded after the call, "
             "ldabs after the call; random programs with several helper calls) + exec-random on the interpreter. The instrumented helpers log (function, a1..a5) and their entry rsp; compared: the log "
             "(count, order, arguments), r0, r6..r9 (folded), rsp alignment at helper entry, compile-time refusal of unregistered ids by both compilers, run-time error by the interpreter. "
             "Suite api ('the function registered under k' after any history): random API histories in which an id is registered again under a different function, before and after compilation, on the four VM kinds and three engines. "
             "Non-trivial: distinct program that called a helper (or hit the unknown-helper error).",
        trusted=EXEC_TRUST + ["the helper-entry stack pointer is observed by an assembly trampoline in the harness"],
    ),
    "C09": dict(
        suites=["exec-engines#context,engrandom", "api#kind=fixed"], oracle=engine_oracle(["jit", "clif"]), level="proof", model_is_spec=True,
        nontrivial=lambda line, impl: impl.startswith("ok"),
        rule="suite exec-engines#context: 4 VM kinds x 3 engines x packet lengths {0,1,8,64,1500} x (data_offset,data_end_offset) in {(0,8),(8,0),(0x40,0x50),(0x50,0x40),(0,4096),(65528,0),(16,24)} "
             "x metadata present/absent; probes: r1 null-ness, stack writable at r10-8 and r10-512, first byte through r1, first/last packet byte through ldabs and ldind, fixed-metadata slots "
             "(end - start = len, first and last byte through the slots); plus random programs per kind. The fixed-metadata buffer's real address is learnt by a probe program. "
             "Suite api on the fixed-metadata VM: histories that load programs with other offset pairs (same or different buffer length) and then read the slots and the bytes between them. Successive executions: every probe is executed a second time on the same VM and the same buffer with the packet cut to half its length (again=), under each engine. "
             "Non-trivial: distinct configuration x probe that ran to a value.",
        trusted=EXEC_TRUST,
    ),
    "C10": dict(
        suites=["api"], oracle=oracle_no_panic, level="proof", model_is_spec=True,
        nontrivial=lambda line, impl: ("sp:" in line) and (";x" in line or "=x" in line),
        rule="suite api: 20,000 (thorough 400,000) random histories of length 1..40 over {new(None|prog), set_program(valid | invalid | valid-only-for-another-verifier, with new fixed offsets), "
             "set_verifier(accept-all | reject-all | custom), register_helper (3 ids x 3 functions, re-registration), set_stack_usage_calculator, jit_compile, cranelift_compile, execute, execute_jit, "
             "execute_cranelift} on the four VM kinds; pool of 10 programs with distinguishable results (constants, helper calls, a program only accept-all/custom admit, invalid ones, and for the "
             "fixed-metadata VM a program reading its two slots so that a failed load that disturbed the offsets is visible); every call's Ok/Err/value compared with Vm.step. "
             "Non-trivial: distinct history containing a load and an execution.",
        trusted=["programs that would be unsafe to run (no exit, register r11) are only ever offered to verifiers that reject them (generator mini-model)"],
    ),
    "C11": dict(
        suites=["exec-clifprobe", "clifir"], oracle=oracle_c11, level="proof", model_is_spec=True,
        nontrivial=lambda line, impl: impl.split()[0] in ("ok", "err:oob", "err:unaligned"),
        rule="suite exec-clifprobe: the C02 boundary probes (every offset within 9 bytes of both ends of packet, metadata buffer and stack, null and wrap-around addresses, ldx/st/stx/xadd/ldabs/ldind x widths, "
             "6 layouts incl. empty packet / metadata) executed as Cranelift-compiled code in forked children, every 4th probe in the quick tier: an access the model's bounds check (clifBoundsOk = OwnMemory over "
             "stack/packet/metadata by C11_boundsOk_iff) refuses must kill the child with SIGILL (trap), an admitted one must complete with the model's value and buffer digests; a misaligned atomic add inside "
             "a region is performed. Non-trivial: distinct probe that reached the access."
             "Cranelift IR: on every case the canonical text of the function cranelift.rs built (hook verif_clif_ir: blocks, opcodes, types, immediates, condition codes, offsets, intra-instruction data flow) is compared by digest with the translator model Model/ClifAst.lean; suite clifir prints the resolved form (which also names the variable an operand reads wherever the text shows it) in full for every distinct program of at most 64 slots and compares it line by line. ",
        trusted=EXEC_TRUST + ["Cranelift lowers `trapz` to a trapping instruction (observed as SIGILL)"],
    ),
    "C12": dict(
        suites=["exec-accepted-engines", "exec-engines#farjump,calls,helpers", "exec-anyprog-engines", "exec-pageboundary", "api"], oracle=engine_oracle(["jit", "clif"]), level="proof", model_is_spec=True,
        nontrivial=lambda line, impl: impl.split()[0] not in ("rejected", "bad-op") or line.startswith("api "),
        rule="suites exec-accepted-engines + exec-engines: every byte string of the C06 verify suite that the REAL verifier accepts (every opcode/register byte in every position, every displacement around the "
             "bounds and wide loads, every last-instruction kind incl. final ja, dead code, back edges, exit with any offset field, soups, mutants) is compiled TWICE by the x86-64 JIT and by Cranelift under "
             "catch_unwind; compared: Ok/Err/panic equality with the compile models (JitEmit.compile, ClifCompile.compile), the JIT's machine code BYTE FOR BYTE with the emitter model's (hook verif_jit_code; length and digest) "
             "and identical across the two compilations, emitted size = sized buffer (the hook slices at the second "
             "pass' offset inside the buffer the first pass sized; emit asserts guard the end). Long programs: div/mod at indexes up to 131071. Page boundary: programs whose machine code size sweeps byte by byte across 4096 on three VM kinds (sizing pass vs emission pass; hook: first-pass count = emitted length, buffer = page-rounded). Model validation beyond the claim: every 3rd whole-slot byte string of the verify suite, loaded through an accept-all verifier and only compiled, "
             "must give the Ok/Err/panic the models predict (all panic sites exercised). Suite api: compilation depends on the program and helpers in force, not on earlier compilations (histories with re-registration and recompilation against the state-machine model). Non-trivial: distinct accepted program (it was compiled), distinct API history.",
        trusted=EXEC_TRUST + ["Cranelift-internal failures (define_function) are covered by the runs only"],
    ),
    "C18": dict(
        suites=["xadd", "exec-memops"], oracle=oracle_no_panic, level="proof", model_is_spec=True,
        nontrivial=lambda line, impl: line.startswith("xadd") and not line.startswith("xadd threads=1 ") or "c3" in line or "db" in line,
        rule="suite xadd: 1, 2, 4 and 16 concurrent executions on every mix of {interpreter, x86-64 JIT, Cranelift} x widths 4/8 x addends {1, u64::MAX, 0x1_0000_0001, random} x initial values, 3,000 "
             "(thorough 20,000) atomic adds each on one shared naturally aligned word between two canary words (a sampled-schedule stress test: the interleavings taken are whatever the hardware does); "
             "misaligned offsets on the interpreter (error, memory unchanged); plus the single-threaded xadd cases of exec-memops (width, truncation, neighbours). Expected final word from the model "
             "(schedule-independent by C18_interleaving_sum). Non-trivial: at least 2 threads, or a single-threaded xadd program.",
        trusted=["AtomicU32/AtomicU64::fetch_add, x86 `lock add` and Cranelift `atomic_rmw` are each one indivisible step (the model's unit of interleaving)"],
    ),
    "C20": dict(
        custom="run_c20", suites=["asm", "asmfuzz%4", "dis%2", "verify%3", "exec-matrix%4", "exec-memops", "exec-random%2", "exec-calls%3", "api%2", "exec-pageboundary", "helper%3"], level="proof",
        proof_of=["C01", "C06", "C13", "C14", "C15", "C10", "C19", "C12"],
        nontrivial=lambda line, impl: True,
        rule="both builds of the crate (default features; default-features = false, i.e. no_std) are driven over the same case files: the whole asm suite, every 4th asmfuzz text, every 2nd dis case, "
             "every 3rd verify byte string, every 4th case of the C01 operation matrix, the memory matrix, every 2nd random program and every 3rd call graph, the programs whose machine code is swept byte by byte across one 4096-byte page (the no_std JIT sizes and fills caller-supplied memory), every 2nd API history of the C10 suite (load / set_verifier / register_helper / jit_compile / execute / execute_jit on the four VM kinds; the Cranelift operations, absent without std, removed), every 3rd case of the helper suite for the helpers that exist in both builds (gather_bytes, memfrob, strcmp) - the interpreter on all of them and the x86-64 JIT "
             "(no_std: running from caller-supplied mmap'ed executable memory through set_jit_exec_memory). Each transcript is diffed against the one Lean model (each with its own echoed host addresses) and the two "
             "transcripts against each other wherever the outcome is address-independent. The quantifier over feature configurations {std, no_std} is enumerated completely. Non-trivial: distinct case line.",
        trusted=["the no_std harness is a separate small crate (harness_nostd) printing the same formats"], exhaustive=False,
    ),
    "C05": dict(
        suites=["exec-accepted", "exec-random", "exec-calls"], oracle=oracle_no_panic, level="proof", model_is_spec=True,
        nontrivial=lambda line, impl: impl.split()[0] not in ("rejected", "bad-op"),
        rule="suites exec-accepted + exec-random + exec-calls: every byte string of the C06 verify suite (every (opcode, register byte) in first/middle/penultimate/last position, every jump/call "
             "displacement around the bounds and around wide loads, every opcode as last instruction, soups, mutated valid programs) is offered to the REAL verifier and, when accepted, "
             "interpreted under an instruction budget with packet, metadata and helpers present; plus random structured programs and call graphs of depth 0..9. Oracle: never panic/abort. "
             "Non-trivial: distinct program the verifier accepted (it was executed).",
        trusted=EXEC_TRUST + ["C05_no_panic assumes HostOk (stack address in [2^20, 2^63), packet base + 2^32 < 2^64) and u16-valued stack-usage calculators"],
    ),
    "C07": dict(
        suites=["exec-calls", "api", "exec-engines#calls"], oracle=oracle_c07, level="proof", model_is_spec=True,
        nontrivial=lambda line, impl: impl.split()[0] in ("ok", "err:oob", "err:call-depth"),
        rule="suite exec-engines#calls (the JIT clause: call graphs in which every function clobbers r6..r9 with distinct values and folds them, compiled by the x86-64 JIT and compared with the register-transfer model of its local calls; the frame separation it lacks is the known finding F16) + suite api (the frame-size table is VM state: histories with set_stack_usage_calculator, failed and successful loads, then a program of nested local calls whose result is the frame size recorded for a function entry) + suite exec-calls: call chains of depth 0..9, functions placed after (forward displacement) or before (backward) the caller, every function clobbering r6..r9, passing arguments in r1..r5, "
             "measuring r10 distance to the caller's frame, storing/reloading a marker in its own frame; bounded recursion to depth 0..9 through a backward self call; stack-usage calculators absent, "
             "constant, per-entry tables incl. values above 512 and not multiples of 8. Results (r0 folds r6..r9, r10 restoration, frame distances, markers) compared with the proved model. "
             "Non-trivial: distinct program that ran to a value or to the expected error.",
        trusted=EXEC_TRUST,
    ),
    "C19": dict(
        suites=["helper"], oracle=None, level="proof", model_is_spec=True,
        nontrivial=lambda line, impl: impl.startswith("ok"),
        rule="suite helper: gather_bytes on boundary/random 5-tuples; memfrob on buffers of length 0..64 with every kind of sub-range; strcmp on equal / prefix / differing-at-k / high-byte / empty / null "
             "inputs in both argument orders; bpf_trace_printf around every power of 16, 2^52, 2^53, u64::MAX with stdout captured and counted; rand on boundary (min,max) pairs incl. (0,u64::MAX); "
             "sqrti on k^2-1,k^2,k^2+1 for thousands of k (all magnitudes) and large values, against the exact-integer IEEE model. Non-trivial: distinct argument tuple that ran.",
        trusted=["IEEE-754: f64::sqrt is correctly rounded and `u64 as f64` rounds to nearest-even (written into Helpers.toF64 / sqrtTrunc in exact integer arithmetic)"],
    ),
    "C02": dict(
        suites=["exec-memprobe", "exec-memops", "api#kind=fixed"], oracle=None, level="proof", model_is_spec=True,
        nontrivial=lambda line, impl: impl.split()[0] in ("ok", "err:oob", "err:unaligned"),
        rule="suites exec-memprobe + exec-memops: for each of ldx/st/stx/xadd/ldabs/ldind x widths 1,2,4,8: every offset within 9 bytes of both ends of the packet, "
             "the metadata buffer, the 512-byte stack and a registered allowed range lying inside a larger canaried buffer, split between base register and 16-bit offset "
             "(0, -8, 32767, ...), null and wrap-around addresses, on layouts (packet,metadata) in {(64,0),(64,32),(0,32),(0,0),(8,0),(1,8)}; in-bounds matrix of all access "
             "instructions x registers. Outcome, returned value and digests of packet / metadata / allowed-memory bytes are compared with the proved model run on the same host "
             "addresses; any difference is a violation (the model's verdict is OwnMemory by C02_checkMem_iff/C02_refused/C02_admitted). Suite api on the fixed-metadata VM (which metadata buffer an access is confined to after a history of loads with other offsets: a pool program reads just past the buffer the offsets in force give). Non-trivial: distinct probe that reached the access.",
        trusted=EXEC_TRUST,
    ),
    "C13": dict(
        suites=["asm", "asmfuzz"], oracle=oracle_c14, level="proof", model_is_spec=True,
        nontrivial=lambda line, impl: impl.startswith("ok ") or (impl == "err" and "want=err" in line),
        rule="suites asm + asmfuzz (the latter against the proved model: oversized decimal/hex literals incl. [2^63, 2^64] and beyond must be errors, never wrapped into range). asm: AST-directed texts - every documented mnemonic (92) x registers 0..17 x boundary offsets in/around [-32768,32767] x immediates in/around [-2^31,2^31-1] (64-bit boundary values for lddw) "
             "x register/immediate form x spellings (decimal, hex lower/upper case, leading zeros, explicit '+', '-') x whitespace variants (spaces, tabs, newlines, none after commas); every ordered pair of "
             "mnemonics (source order, 'exit' followed by 'rsh'); programs of 1..8 instructions; wrong operand shapes and unknown mnemonics. Oracle: the bytes computed by the generator's own encoder from the AST "
             "(want=ok:<hex>) or want=err for out-of-range operands; plus equality with the proved model. Non-trivial: distinct text with an expected result.",
        trusted=["Unicode classes are model parameters; the driver's instantiation is proved sane (saneClasses_drive)"],
    ),
    "C16": dict(
        suites=["rt"], oracle=oracle_c16, level="proof", model_is_spec=True,
        nontrivial=lambda line, impl: impl.startswith("ok "),
        rule="suite rt: bytes -> real disassembler -> lines joined by newlines -> real assembler. Single instructions: every supported opcode (and tail call) x boundary offsets x immediates of both signs x register "
             "pairs incl. 15/15; programs of 1..10 instructions over all opcodes in any order, two thirds canonical (unused fields zero, non-negative immediates, any 64-bit value for lddw), one third arbitrary. "
             "Oracles: (a) a Canonical program (decided by the Lean driver) must come back byte for byte (spec=); (b) whenever the assembler accepts, the result must equal canon(p) computed by the driver. "
             "Non-trivial: distinct program whose text the assembler accepted.",
        trusted=[],
    ),
    "C14": dict(
        suites=["asmfuzz", "asm"], oracle=oracle_c14, level="proof",
        nontrivial=lambda line, impl: impl != "bad-op" and len(line.split()[1]) > 2,
        rule="suites asmfuzz + asm: numeric literals of every length 1..40 x radix x sign in 20 operand templates, i64/u64 boundary literals, huge and malformed registers, "
             "truncated operands, random strings over an alphabet with non-ASCII whitespace/alphanumerics, mutated valid texts; AST-directed valid and out-of-range instructions. "
             "Oracle: never 'panic'. Non-trivial: distinct non-empty text.",
        trusted=["Unicode classes char::is_whitespace / is_alphanumeric / is_alphabetic are model parameters (theorems hold for every instantiation); the driver instantiates them for the generator's alphabet"],
    ),
    "C15": dict(
        suites=["dis"], oracle=oracle_c15, level="proof",
        nontrivial=lambda line, impl: impl.startswith("ok ") and len(impl) > 4,
        rule="suite dis: all 256 opcodes x 256 register bytes with boundary offsets/immediates, every supported opcode x boundary (off, imm) grid incl. -32768 and i32 extremes, "
             "random programs with merged wide loads, odd lengths, wide load in last slot, call kinds 0..15. Oracles: no panic on C15's domain (DisasmOk, decided by the Lean driver), "
             "entry fields vs an independent decode of the slots; full entries (name, text) vs the model. Non-trivial: distinct input that yields at least one entry.",
        trusted=[],
    ),
    "C06": dict(
        suites=["verify"], oracle=None, level="proof",
        nontrivial=lambda line, impl: impl in ("ok", "err") and len(line.split()[1]) % 16 == 0 and len(line.split()[1]) >= 16,
        rule="suite verify: every (opcode, register byte) pair in first/middle/penultimate/last position; every jump/call opcode x every "
             "displacement in [-n-3, n+3] for n <= 6, with wide loads at the target; call kinds 0..15; le/be immediates; xadd immediates; "
             "every opcode as the last instruction and after a wide load; length classes 0, 1..17, 8*999999, 8*10^6, 8*(10^6+1); random soups "
             "and mutated valid programs. Oracle: the declarative WellFormed predicate evaluated by the Lean driver on the same bytes "
             "(programs up to 4096 slots, and longer ones with at most 64 jumps or calls: the length-limit cases). Non-trivial: distinct byte string whose length is a positive multiple of 8.",
        trusted=["decide +kernel over the 256-opcode table (kernel evaluation, no extra axiom)"],
    ),
    "C17": dict(
        suites=["codec"], oracle=oracle_c17, level="proof",
        nontrivial=lambda line, impl: impl not in ("bad-op",),
        rule="suite codec: exhaustive per field (256 opcodes, 256 register bytes, 65536 offsets), immediates = all single-bit/single-byte "
             "patterns + boundaries + random, random whole slots; encode direction over all 256x256 (dst,src) bytes; get_insn/to_insn_vec at "
             "every index of random programs incl. incomplete ones; every insn_builder constructor x 16x16 registers x boundary off/imm. "
             "A case is non-trivial when it is a distinct case line that parsed (outcome != bad-op).",
        trusted=["bv_decide (LRAT certificate checked by compiled Lean code) for the bit-slicing identities, declared per theorem in lean/obligations.json"],
    ),
}

# ---------------------------------------------------------------------------- known findings

def load_known():
    p = os.path.join(ROOT, "known_findings.jsonl")
    out = []
    if os.path.exists(p):
        for l in open(p):
            l = l.strip()
            if l and not l.startswith("#"): out.append(json.loads(l))
    return out

def match_known(known, pid, line, impl, model_kv, mod=None):
    for k in known:
        if k.get("status") != "known" or k.get("property") != pid: continue
        m = k.get("match", {})
        ok = True
        if "case_regex" in m and not re.search(m["case_regex"], line): ok = False
        if "tag" in m and m["tag"] not in model_kv.get("tags", "").split(","): ok = False
        for kk, vv in m.get("kv", {}).items():
            if model_kv.get(kk) != vv: ok = False
        if "impl_regex" in m and not re.search(m["impl_regex"], impl): ok = False
        if m.get("model_agrees") and mod is not None and impl != mod: ok = False      # the model reproduces the finding exactly; anything else is new
        if ok and m: return k
    return None

# ---------------------------------------------------------------------------- run

def run_c20(core, pid, tier, seed, replay):
    """C20: the default build and the no_std build are both diffed against the one model, and against each other"""
    t0 = time.time()
    cfg = PROPS[pid]
    os.makedirs(os.path.join(ROOT, "replays"), exist_ok=True); os.makedirs(os.path.join(ROOT, "evidence"), exist_ok=True)
    proof = dict(obligations=0, discharged=0, failures=[], axioms={}, checker_cmd="")
    for dep in cfg["proof_of"]:
        pr = core.proof_step(dep, tier == "thorough")
        proof["obligations"] += pr["obligations"]; proof["discharged"] += pr["discharged"]; proof["failures"] += pr["failures"]
        proof["axioms"].update(pr.get("axioms", {})); proof["checker_cmd"] += pr.get("checker_cmd", "") + " ; "
    broken = [("proof", dict(theorem=t, why=w)) for (t, w) in proof["failures"]]
    for feat in (None, "nostd"):
        ok, msg = core.build_harness(feat)
        if not ok:
            rp = write_replay(pid, dict(kind="build", why="the %s harness failed to build from /repo's working tree" % (feat or "std"), log=msg))
            print("VIOLATION property=%s replay=%s no-failing-input-found" % (pid, rp))
            write_evidence(pid, tier, seed, cfg, proof, [], [], {}, t0, 1, {}); return 1
    if replay:
        rj = json.load(open(replay)); lines = rj.get("cases") or ([rj["case"]] if "case" in rj else [])
    else:
        lines = []
        for s in cfg["suites"]:
            name, _, sel = s.partition("%")
            got = core.gen_cases(name, tier, seed, [])
            if sel: got = got[::int(sel)]
            if name.startswith("exec"):
                # the no_std harness drives the metadata VM: cases that name it are kept as they are, cases of other kinds dropped
                got = [(l if " kind=mbuff" in l else l + " engines=jit kind=mbuff") for l in got
                       if " extra=" not in l and (" kind=" not in l or (" kind=mbuff" in l and " engines=" in l))]
            if name == "helper":
                # the helpers that exist without `std`
                got = [l for l in got if l.split()[1] in ("gather", "memfrob", "strcmp")]
            if name == "api":
                # the Cranelift entry points do not exist without `std`: the histories are run without those two operations, on both builds
                def strip(l):
                    pre, _, ops = l.partition(" ops=")
                    keep = [o for o in ops.split(";") if o.split(":")[0] not in ("cc", "xc")]
                    return pre + " ops=" + ";".join(keep) if keep else None
                got = [x for x in (strip(l) for l in got) if x]
            lines += got
    a = core.run_both(lines); b = core.run_both(lines, harn_bin=core.HARN_NOSTD_BIN)
    ai = a["impl"][0].split("\n")[:-1]; am = a["model"][0].split("\n")[:-1]
    bi = b["impl"][0].split("\n")[:-1]; bm = b["model"][0].split("\n")[:-1]
    viol = []; dist = {}; nontriv = set(); mism = []
    def jitpart(kv):
        v = kv.get("jit")
        if v is None: return None
        return v.split(":code=")[0].split(":align=")[0]
    n = min(len(lines), len(ai), len(am), len(bi), len(bm))
    if n < len(lines): broken.append(("harness", dict(why="transcripts shorter than the case list: std %d/%d nostd %d/%d" % (len(ai), len(lines), len(bi), len(lines)))))
    for i in range(n):
        line = lines[i]
        x, xkv = split_out(ai[i]); y, ykv = split_out(bi[i]); mx, mxkv = split_out(am[i]); my, mykv = split_out(bm[i])
        if y == "skip": continue
        x0 = x.split()[0].split(":")[0]
        if line.startswith("api "):   # a history's outcome is the list of its operations' results: classify, do not enumerate
            x0 = "%d-ops-%d-ok-%d-err-%d-ran" % (len(x0.split(",")), x0.split(",").count("ok"), x0.split(",").count("err"), sum(1 for t in x0.split(",") if t.startswith("v")))
        key = line.split()[0] + ":" + x0; dist[key] = dist.get(key, 0) + 1
        if x not in ("bad-op",): nontriv.add(line)
        why = None
        if x != mx: why = "default build gives '%s' where the model gives '%s'" % (x[:80], mx[:80])
        elif y != my: why = "no_std build gives '%s' where the model gives '%s'" % (y[:80], my[:80])
        else:
            indep = not line.startswith("exec") or mxkv.get("claim") == "in"
            if indep and x != y: why = "the two builds differ: default '%s' / no_std '%s'" % (x[:80], y[:80])
            jx, jy = jitpart(xkv), jitpart(ykv)
            if why is None and jx is not None and jy is not None and mxkv.get("claim") == "in" and jx != jy and not (jx.startswith("ok") != jy.startswith("ok") and False):
                why = "JIT results differ between the builds: default '%s' / no_std (caller-supplied memory) '%s'" % (jx[:80], jy[:80])
        if why: viol.append(dict(case=line, std=ai[i], nostd=bi[i], why=why))
    rc = 0
    if viol:
        v = min(viol, key=lambda d: len(d["case"]))
        rp = write_replay(pid, dict(kind="property", case=v["case"], std=v["std"], nostd=v["nostd"], why=v["why"], other_failing=len(viol) - 1))
        print("VIOLATION property=%s replay=%s" % (pid, rp)); rc = 1
    elif broken:
        rp = write_replay(pid, dict(kind="not-shown", why="no case differs between the builds, but a proof obligation or the harness no longer checks", broken=[dict(kind=k, **d) for (k, d) in broken]))
        print("VIOLATION property=%s replay=%s no-failing-input-found" % (pid, rp)); rc = 1
    if replay:
        for i in range(n): print("case  : " + lines[i][:300]); print("std   : " + ai[i][:300]); print("no_std: " + bi[i][:300]); print("model : " + am[i][:300])
    samples = [dict(case=lines[i][:300], std=ai[i][:200], no_std=bi[i][:200]) for i in range(0, n, max(1, n // 8))][:10]
    write_evidence(pid, tier, seed, cfg, proof, lines, samples, dist, t0, len(viol) + (1 if broken and not viol else 0),
                   dict(known_findings_hit={}, disagreements=len(mism), distinct_nontrivial=len(nontriv), traces=2 * n))
    return rc

def run_property(core, pid, tier, seed, replay):
    if PROPS[pid].get("custom"): return globals()[PROPS[pid]["custom"]](core, pid, tier, seed, replay)
    t0 = time.time()
    cfg = PROPS[pid]
    known = load_known()
    os.makedirs(os.path.join(ROOT, "replays"), exist_ok=True)
    os.makedirs(os.path.join(ROOT, "evidence"), exist_ok=True)
    violations = []          # (kind, detail dict)
    known_hit = {}
    # 1. proofs
    proof = core.proof_step(pid, tier == "thorough")
    for (thm, why) in proof["failures"]:
        violations.append(("proof", dict(theorem=thm, why=why)))
    # 2. build
    ok, msg = core.build_harness()
    if not ok:
        rp = write_replay(pid, dict(kind="build", why="the harness/implementation failed to build from /repo's working tree", log=msg))
        print("VIOLATION property=%s replay=%s no-failing-input-found" % (pid, rp))
        write_evidence(pid, tier, seed, cfg, proof, [], [], {}, t0, 1, {})
        return 1
    # 3. cases
    if replay:
        rj = json.load(open(replay))
        lines = rj.get("cases") or ([rj["case"]] if "case" in rj else [])
    else:
        lines = []
        for s in cfg["suites"]:
            name, _, flt = s.partition("#")
            got = core.gen_cases(name, tier, seed, cfg.get("corpus", [pid]))
            if flt:
                keep = tuple((" %s " % t) if "=" in t else (" tag=%s " % t) for t in flt.split(","))
                got = [l for l in got if any(k in l for k in keep)]
            lines += [l + cfg.get("case_suffix", "") for l in got]
    res = core.run_both(lines) if lines else {"impl": ("", "", 0), "model": ("", "", 0)}
    impl_lines = res["impl"][0].split("\n")[:-1]
    model_lines = res["model"][0].split("\n")[:-1]
    mism, pviol = [], []
    if len(impl_lines) != len(lines) or len(model_lines) != len(lines):
        violations.append(("harness", dict(why="transcript length differs from case count (impl %d, model %d, cases %d); impl rc=%s stderr=%s; model rc=%s stderr=%s"
            % (len(impl_lines), len(model_lines), len(lines), res["impl"][2], res["impl"][1][-300:], res["model"][2], res["model"][1][-300:]))))
    dist = {}
    nontriv = set()
    for i, line in enumerate(lines[:min(len(impl_lines), len(model_lines))]):
        impl, ikv = split_out(impl_lines[i])
        mod, mkv = split_out(model_lines[i])
        if line.startswith("x86 ") and impl.startswith("ok ") and mod.startswith("ok "):
            # one instruction on the processor vs the machine model: flags the model leaves undefined ('-') are not compared
            fi = dict(x.split("=", 1) for x in impl.split()[1:] if "=" in x); fm = dict(x.split("=", 1) for x in mod.split()[1:] if "=" in x)
            if len(fi.get("f", "")) == 4 and len(fm.get("f", "")) == 4:
                fi["f"] = "".join(a if b != "-" else "-" for a, b in zip(fi["f"], fm["f"]))
                impl = "ok r=%s f=%s t=%s m=%s" % (fi.get("r"), fi.get("f"), fi.get("t"), fi.get("m"))
        if line.startswith("clifdump ") and impl != mod and clif_relaxed_eq(impl, mod):
            mod = impl; dist["clifdump:relaxed"] = dist.get("clifdump:relaxed", 0) + 1
        key = line.split()[0] + ":" + ("panic" if impl == "panic" else "err" if impl.startswith("err") else "bad-op" if impl == "bad-op" else "ok")
        dist[key] = dist.get(key, 0) + 1
        if cfg["nontrivial"](line, impl): nontriv.add(line)
        if "claim" in mkv: dist["claim=" + mkv["claim"]] = dist.get("claim=" + mkv["claim"], 0) + 1
        for e in ("jit", "clif"):
            if e in ikv:
                ek = e + ":" + ikv[e].split(":")[0].split("=")[0]
                dist[ek] = dist.get(ek, 0) + 1
        why = None
        if impl == "hang": why = "the implementation did not return (no output for the idle timeout; the harness was killed inside this case)"
        elif "viol" in ikv: why = ikv["viol"]
        elif "spec" in mkv and mkv["spec"] != impl: why = "implementation gives '%s' where the property's specification gives '%s'" % (impl, mkv["spec"])
        elif cfg.get("oracle"): why = cfg["oracle"](line, impl, mkv, ikv, mod)
        if why is None and impl != mod and cfg.get("model_is_spec"):
            why = "implementation gives '%s' where the proved model gives '%s'" % (impl, mod)
        if line.startswith("clifdump ") and impl != mod and not (why or "").startswith("CORR:"):
            rl = impl.split(" ;; "); ml = mod.split(" ;; ")
            k = next((j for j in range(min(len(rl), len(ml))) if rl[j] != ml[j] and not clif_relaxed_eq(rl[j], ml[j])), min(len(rl), len(ml)))
            why = "CORR:the Cranelift IR built by cranelift.rs differs from the translator model (Model/ClifAst.lean) at line %d: real '%s', model '%s'" % (
                k, rl[k] if k < len(rl) else "<end>", ml[k] if k < len(ml) else "<end>")
        if why and line.startswith("x86 ") and not why.startswith("CORR:"):
            why = "CORR:the processor and the x86-64 machine model (Model/X86.lean) disagree on one instruction: " + why
        if why and why.startswith("CORR:"):
            mism.append(dict(case=line, impl=impl_lines[i][:400], model=model_lines[i][:400], why=why[5:])); why = None
        if why:
            k = match_known(known, pid, line, impl, mkv, mod)
            if k:
                known_hit.setdefault(k["what"], 0); known_hit[k["what"]] += 1
            else:
                pviol.append(dict(case=line, impl=impl, model=mod, why=why))
        elif impl != mod:
            k = match_known(known, pid, line, impl, mkv, mod)
            if k: known_hit.setdefault(k["what"], 0); known_hit[k["what"]] += 1
            else: mism.append(dict(case=line, impl=impl, model=mod))
    rc = 0
    for what, n in known_hit.items():
        print("KNOWN-FINDING: property=%s %s (%d cases)" % (pid, what, n))
    if pviol:
        v = min(pviol, key=lambda d: len(d["case"]))
        rp = write_replay(pid, dict(kind="property", case=v["case"], impl=v["impl"], model=v["model"], why=v["why"],
                                    other_failing=len(pviol) - 1, more=[d["case"] for d in pviol[1:6]]))
        print("VIOLATION property=%s replay=%s" % (pid, rp)); rc = 1
    elif mism or violations:
        # property no longer shown: the oracle found no failing input among this run's cases
        detail = dict(kind="not-shown", why="no case of this run violates the property's oracle, but the proof/correspondence no longer checks",
                      broken=[dict(kind=k, **d) for (k, d) in violations],
                      correspondence_suites=cfg["suites"] if mism else [],
                      theorems=json.load(open(os.path.join(ROOT, "lean", "obligations.json"))).get(pid, {}).get("theorems", []),
                      cases=[d["case"] for d in mism[:20]], disagreements=mism[:20], n_disagreements=len(mism))
        rp = write_replay(pid, detail)
        print("VIOLATION property=%s replay=%s no-failing-input-found" % (pid, rp)); rc = 1
    if replay:
        for i, line in enumerate(lines[:min(len(impl_lines), len(model_lines))]):
            print("case : " + line[:300]); print("impl : " + impl_lines[i][:300]); print("model: " + model_lines[i][:300])
    samples = []
    step = max(1, len(lines) // 8)
    for i in range(0, min(len(lines), len(impl_lines)), step):
        samples.append(dict(case=lines[i][:400], impl=impl_lines[i][:200]))
    write_evidence(pid, tier, seed, cfg, proof, lines, samples[:10], dist, t0, len(pviol) + (1 if (mism or violations) and not pviol else 0),
                   dict(known_findings_hit=known_hit, disagreements=len(mism), distinct_nontrivial=len(nontriv),
                        traces=min(len(impl_lines), len(model_lines)), max_gap=round(core.MAX_GAP, 2)))
    return rc

def write_replay(pid, detail):
    h = hashlib.sha1(json.dumps(detail, sort_keys=True).encode()).hexdigest()[:10]
    rel = os.path.join("replays", "%s-%s.json" % (pid, h))
    detail = dict(property=pid, **detail)
    json.dump(detail, open(os.path.join(ROOT, rel), "w"), indent=1)
    return rel

def write_evidence(pid, tier, seed, cfg, proof, lines, samples, dist, t0, nviol, extra):
    cov = dict(
        obligations=proof["obligations"], discharged=proof["discharged"],
        checker_cmd=proof.get("checker_cmd", "cd lean && lake build"),
        trusted_base=TRUSTED_COMMON + cfg.get("trusted", []),
        evaluations=len(lines), distinct_nontrivial=extra.get("distinct_nontrivial", 0),
        traces_validated_against_impl=extra.get("traces", 0),
        rule=cfg["rule"], samples=samples if samples else ["<no case ran>"],
        input_distribution=dist, disagreements_model_vs_impl=extra.get("disagreements", 0),
        known_findings_hit=extra.get("known_findings_hit", {}),
        theorems={t: ax for t, ax in proof.get("axioms", {}).items()},
        proof_failures=[list(f) for f in proof["failures"]],
        longest_case_s=extra.get("max_gap", 0),
    )
    if cfg.get("exhaustive"): cov["exhaustive"] = True
    ev = dict(property_id=pid, tier=tier, seed=seed, level=cfg["level"], coverage=cov,
              assumptions=TRUSTED_COMMON + cfg.get("trusted", []), wall_s=round(time.time() - t0, 2), violations=nviol)
    json.dump(ev, open(os.path.join(ROOT, "evidence", pid + ".json"), "w"), indent=1)
