#!/usr/bin/env python3
"""Regenerate /verif/MANIFEST.json from checklib/props.py (registry) + checklib/claims.py (per-property texts)."""
import json, os, sys
ROOT = os.path.dirname(os.path.dirname(os.path.abspath(__file__)))
sys.path.insert(0, os.path.join(ROOT, "checklib"))
import props, claims
allp = [json.loads(l) for l in open(os.path.join(ROOT, "properties.jsonl"))]
hooks_commits = claims.HOOK_COMMITS
obl = json.load(open(os.path.join(ROOT, "lean", "obligations.json")))
def has_obl(pid):
    cfg = props.PROPS[pid]
    return pid in obl or all(d in obl for d in cfg.get("proof_of", ["<none>"]))
claimed = [p for p in sorted(props.PROPS) if has_obl(p) and p in claims.CLAIMS]
checks = []
for pid in claimed:
    c = claims.CLAIMS[pid]
    checks.append(dict(property_id=pid, quick_cmd="./check %s --tier quick" % pid, thorough_cmd="./check %s --tier thorough" % pid,
        evidence_file="evidence/%s.json" % pid, replay_cmd_template="./check %s --replay {path}" % pid, engine="lean-model+harness",
        level_claimed=dict(category=c.get("category", "proof"), text=c["text"], design_ref="DESIGN.md §7 " + pid),
        level_note=c["note"], technique=c["technique"]))
na = [dict(property_id=p["id"], reason=claims.NOT_CLAIMED.get(p["id"], "not yet claimed: the Lean theorems for this property are still being proved (model and correspondence suite exist; DESIGN.md §9)")) for p in allp if p["id"] not in claimed]
m = dict(version=1, setup_cmd="./setup.sh",
    hooks=dict(guard="rbpf_verif", enable='RUSTFLAGS="--cfg rbpf_verif" (set by ./check for the harness build only)',
               baseline_off_cmd="cd /repo && cargo test --workspace --no-fail-fast --offline", source_commits=hooks_commits, add_only=True),
    engines=[dict(name="lean-model+harness", path="lean/ + harness/", serves_properties=claimed,
                  kind_free_text="Lean 4 model and theorems (lake project RbpfModel, compiled driver rbpf_model) tied to /repo by the Rust correspondence harness (path dependency on /repo, rebuilt on every run)")],
    checks=checks, not_applicable=na,
    notes="Proof obligations per property: lean/obligations.json. Known findings: known_findings.jsonl. See DESIGN.md.")
json.dump(m, open(os.path.join(ROOT, "MANIFEST.json"), "w"), indent=1)
print("claimed:", claimed, "| not claimed:", [x["property_id"] for x in na])
