#!/usr/bin/env python3
"""Translator (source -> Lean) for the tables of src/assembler.rs:
  * make_instruction_map: the function is executed symbolically (array literals of (name, ebpf constant) pairs, `for &(a, b) in &ARRAY { … }`,
    `for &size in &[..] { … }`, `entry(name | &format!("…{var}…"), Type | Type(var), opcode expression)`) into the flat list of insertions;
  * encode: the rows of `match (inst_type, a, b, c)` — instruction type, operand patterns, and the five arguments of `insn(..)`;
  * insn: the four range checks and the casts.
Output: lean/RbpfModel/Generated/AsmTables.lean."""
import re, sys, os
SRC = sys.argv[1] if len(sys.argv) > 1 else "/repo/src/assembler.rs"
OUT = sys.argv[2] if len(sys.argv) > 2 else os.path.join(os.path.dirname(os.path.dirname(os.path.abspath(__file__))), "lean", "RbpfModel", "Generated", "AsmTables.lean")
EBPF = os.path.join(os.path.dirname(SRC), "ebpf.rs")
def consts():
    txt = re.sub(r"//[^\n]*", "", open(EBPF).read()); env = {}
    for name, ty, expr in re.findall(r"pub\s+const\s+([A-Z0-9_]+)\s*:\s*(u8|u16|u32|u64|usize)\s*=\s*([^;]+);", txt):
        e = re.sub(r"(0x[0-9a-fA-F_]+|\b[0-9][0-9_]*)\b", lambda m: m.group(1).replace("_", ""), expr.strip())
        try: env[name] = eval(e, {"__builtins__": {}}, dict(env))
        except Exception: pass
    return env
C = consts()
txt = re.sub(r"//[^\n]*", "", open(SRC).read())
problems = []

def opc_expr(e, env):
    """`ebpf::A | ebpf::B | var` -> int"""
    v = 0
    for part in [p.strip() for p in e.split("|")]:
        if part.startswith("ebpf::") and part[6:] in C: v |= C[part[6:]]
        elif part in env and isinstance(env[part], int): v |= env[part]
        else: raise SyntaxError("opcode term `%s`" % part)
    return v

def block_end(s, i):
    """index just after the brace block starting at s[i] == '{'"""
    d = 0
    for j in range(i, len(s)):
        if s[j] == "{": d += 1
        elif s[j] == "}":
            d -= 1
            if d == 0: return j + 1
    raise SyntaxError("unbalanced braces")

def instruction_map():
    m = re.search(r"fn make_instruction_map\(\)[^{]*\{", txt)
    body = txt[m.end() - 1: block_end(txt, m.end() - 1)]
    arrays = {}
    for name, items in re.findall(r"let ([a-z_]+) = \[((?:\s*\(\"[a-z0-9]+\",\s*ebpf::[A-Z0-9_]+\),?)+)\s*\];", body):
        arrays[name] = [(a, C[b]) for a, b in re.findall(r"\(\"([a-z0-9]+)\",\s*ebpf::([A-Z0-9_]+)\)", items)]
    entries = []
    def fmt(arg, env):
        arg = arg.strip()
        m = re.fullmatch(r"\"([a-z0-9]+)\"", arg)
        if m: return m.group(1)
        m = re.fullmatch(r"&format!\(\"([^\"]*)\"\)", arg)
        if m: return re.sub(r"\{([a-z_]+)\}", lambda k: str(env[k.group(1)]), m.group(1))
        if arg in env and isinstance(env[arg], str): return env[arg]
        raise SyntaxError("entry name `%s`" % arg)
    def run(code, env):
        i = 0
        while i < len(code):
            rest = code[i:]
            m = re.match(r"\s*entry\(((?:[^()]|\([^()]*\))*)\)\s*;", rest)
            if m:
                args = [a.strip() for a in re.split(r",(?![^()]*\))", m.group(1)) if a.strip()]
                if len(args) != 3: raise SyntaxError("entry arity")
                ty = args[1]
                tm = re.fullmatch(r"([A-Za-z]+)\(([a-z_]+)\)", ty)
                tyv = (tm.group(1), env[tm.group(2)]) if tm else (ty, None)
                entries.append((fmt(args[0], env), tyv, opc_expr(args[2], env)))
                i += m.end(); continue
            m = re.match(r"\s*for &\(([a-z_]+), ([a-z_]+)\) in &([a-z_]+)\s*\{", rest)
            if m:
                j = block_end(rest, m.end() - 1)
                for (a, b) in arrays[m.group(3)]: run(rest[m.end():j - 1], dict(env, **{m.group(1): a, m.group(2): b}))
                i += j; continue
            m = re.match(r"\s*for &([a-z_]+) in &\[([0-9, ]+)\]\s*\{", rest)
            if m:
                j = block_end(rest, m.end() - 1)
                for v in [int(x) for x in m.group(2).split(",")]: run(rest[m.end():j - 1], dict(env, **{m.group(1): v}))
                i += j; continue
            m = re.match(r"\s*(let mut entry = \|[^|]*\|\s*\{[^{}]*\};|let mut result = HashMap::new\(\);|let [a-z_]+ = \[[^\]]*\];|result|\{|\})", rest, re.S)
            if m: i += m.end(); continue
            if rest.strip() == "": break
            raise SyntaxError("statement in make_instruction_map: " + rest.strip()[:50])
    run(body[1:-1], {})
    return entries

def encode_rows():
    m = re.search(r"fn encode\([^)]*\)[^{]*\{", txt)
    body = txt[m.end() - 1: block_end(txt, m.end() - 1)]
    mm = re.search(r"match \(inst_type, a, b, c\)\s*\{", body)
    arms = body[mm.end(): block_end(body, mm.end() - 1) - 1]
    rows = []
    arm_re = re.compile(r"((?:\s*\|?\s*\((?:[^()]|\([^()]*\))*\))+)\s*=>\s*(\{\s*insn\((?:[^()]|\((?:[^()]|\([^()]*\))*\))*\)\s*\}|insn\((?:[^()]|\((?:[^()]|\([^()]*\))*\))*\)|Err\((?:[^()]|\([^()]*\))*\))\s*,?")
    pos = 0
    for a in arm_re.finditer(arms):
        pats, rhs = a.group(1), " ".join(a.group(2).strip("{} \n").split())
        if rhs.startswith("Err"): continue
        args = [x.strip() for x in re.split(r",(?![^()]*\))", rhs[5:-1])]
        for pat in re.findall(r"\(((?:[^()]|\([^()]*\))*)\)", pats):
            comps = [x.strip() for x in re.split(r",(?![^()]*\))", pat)]
            rows.append((comps, args))
    dm = re.search(r"_\s*=>\s*Err\(", arms)
    return rows, bool(dm)

def lean_operand(p):
    m = re.fullmatch(r"Register\(([a-z]+)\)", p)
    if m: return ".register %s" % m.group(1)
    m = re.fullmatch(r"Integer\(([a-z]+)\)", p)
    if m: return ".integer %s" % m.group(1)
    m = re.fullmatch(r"Memory\(([a-z]+), ([a-z]+)\)", p)
    if m: return ".memory %s %s" % (m.group(1), m.group(2))
    if p == "Nil": return None
    raise SyntaxError("operand pattern " + p)
TY = {"AluBinary": ".aluBinary", "AluUnary": ".aluUnary", "LoadImm": ".loadImm", "LoadAbs": ".loadAbs", "LoadInd": ".loadInd", "LoadReg": ".loadReg",
      "StoreImm": ".storeImm", "StoreReg": ".storeReg", "JumpUnconditional": ".jumpUnconditional", "JumpConditional": ".jumpConditional",
      "Call": ".call", "Callx": ".callx", "NoOperand": ".noOperand"}
def lean_type(t):
    m = re.fullmatch(r"Endian\(([a-z]+)\)", t)
    if m: return ".endian %s" % m.group(1)
    return TY[t]
def lean_arg(a, first):
    if first:
        parts = [p.strip() for p in a.split("|")]
        out = []
        for p in parts:
            if p == "opc": out.append("opc")
            elif p.startswith("ebpf::") and p[6:] in C: out.append(str(C[p[6:]]))
            else: raise SyntaxError("opcode argument " + a)
        return out[0] if len(out) == 1 else "(" + " ||| ".join(out) + ")"
    if re.fullmatch(r"-?\d+", a) or re.fullmatch(r"[a-z]+", a): return a
    if a == "(imm << 32) >> 32": return "(Rbpf.Generated.shl32sar32 imm)"
    raise SyntaxError("insn argument " + a)

def insn_checks():
    m = re.search(r"fn insn\(opc: u8, dst: i64, src: i64, off: i64, imm: i64\)[^{]*\{", txt)
    body = " ".join(txt[m.end(): block_end(txt, m.end() - 1) - 1].split())
    conds = re.findall(r"if (.*?) \{ return Err\(format!\(\"[^\"]*\"\)\); \}", body)
    tail = re.search(r"Ok\(Insn \{ opc, dst: dst as u8, src: src as u8, off: off as i16, imm: imm as i32, \}\)$", body)
    out = []
    for c in conds:
        m = re.fullmatch(r"!\((-?\d+)\.\.(-?\d+)\)\.contains\(&([a-z]+)\)", c)
        if m: out.append("¬ (%s ≤ %s ∧ %s < %s)" % (m.group(1), m.group(3), m.group(3), m.group(2))); continue
        m = re.fullmatch(r"([a-z]+) < (-?\d+) \|\| ([a-z]+) >= (-?\d+)", c)
        if m: out.append("(%s < %s ∨ %s ≥ %s)" % m.groups()); continue
        raise SyntaxError("insn check " + c)
    rest = re.sub(r"if (.*?) \{ return Err\(format!\(\"[^\"]*\"\)\); \}", "", body).strip()
    if not tail or rest != tail.group(0): raise SyntaxError("insn tail")
    return out

lines = ["/- GENERATED by checklib/gen_asm.py from src/assembler.rs on every run of ./check: do not edit -/",
         "import RbpfModel.Model.Asm", "namespace Rbpf.Generated", "open Rbpf.Asm", "",
         "/-- `(imm << 32) >> 32` on an `i64`: shift left (wrapping), then arithmetic shift right -/",
         "def shl32sar32 (imm : Int) : Int := (BitVec.sshiftRight (BitVec.ofInt 64 imm <<< 32) 32).toInt", ""]
try:
    ents = instruction_map()
    lines += ["/-- the insertions `make_instruction_map` performs, in order: mnemonic, instruction type (with the byte-swap size), opcode -/",
              "def instructionMapSrc : List (String × InstType × Nat) := ["]
    def lt(t): return ".endian %d" % t[1] if t[0] == "Endian" else TY[t[0]]
    lines += ["  (\"%s\", %s, %d)%s" % (n, lt(t), o, "," if i + 1 < len(ents) else "") for i, (n, t, o) in enumerate(ents)]
    lines += ["]", "def instructionMapSrcOk : Bool := true", ""]
except Exception as ex:
    problems.append("make_instruction_map: " + str(ex)); lines += ["def instructionMapSrc : List (String × InstType × Nat) := []", "def instructionMapSrcOk : Bool := false", ""]
try:
    checks = insn_checks()
    lines += ["/-- `insn(opc, dst, src, off, imm)`: the range checks in source order, then the casts -/",
              "def mkInsnSrc (opc : Nat) (dst src off imm : Int) : Option Insn :="]
    for c in checks: lines.append("  if %s then none else" % c)
    lines += ["  some { opc := BitVec.ofNat 8 opc, dst := BitVec.ofInt 8 dst, src := BitVec.ofInt 8 src, off := BitVec.ofInt 16 off, imm := BitVec.ofInt 32 imm }",
              "def mkInsnSrcOk : Bool := true", ""]
except Exception as ex:
    problems.append("insn: " + str(ex)); lines += ["def mkInsnSrc (_opc : Nat) (_dst _src _off _imm : Int) : Option Insn := none", "def mkInsnSrcOk : Bool := false", ""]
try:
    rows, has_default = encode_rows()
    if not has_default: raise SyntaxError("no `_ => Err` arm")
    lines += ["/-- `encode`: the rows of `match (inst_type, a, b, c)` in source order -/",
              "def encodeSrc (t : InstType) (opc : Nat) (ops : List Operand) : Option Insn :=", "  match t, ops with"]
    for comps, args in rows:
        ops = [lean_operand(p) for p in comps[1:]]
        ops = [o for o in ops if o is not None]
        la = [lean_arg(a, k == 0) for k, a in enumerate(args)]
        lines.append("  | %s, [%s] => mkInsnSrc %s" % (lean_type(comps[0]), ", ".join(ops), " ".join(la)))
    lines += ["  | _, _ => none", "def encodeSrcOk : Bool := true", ""]
except Exception as ex:
    problems.append("encode: " + str(ex)); lines += ["def encodeSrc (_t : InstType) (_opc : Nat) (_ops : List Operand) : Option Insn := none", "def encodeSrcOk : Bool := false", ""]
# ---- the shape of `assemble_internal`, `operands_tuple` and `assemble`: recognised or not (what the model's assembleInternal / assemble mirror)
flat = " ".join(txt.split())
flat_nostr = re.sub(r'"(?:[^"\\]|\\.)*"', '""', flat)
loop_ok = ('fn assemble_internal(parsed: &[Instruction]) -> Result<Vec<Insn>, String> { let instruction_map = make_instruction_map(); let mut result: Vec<Insn> = vec![]; '
           'for instruction in parsed { let name = instruction.name.as_str(); match instruction_map.get(name) { Some(&(inst_type, opc)) => { '
           'match encode(inst_type, opc, &instruction.operands) { Ok(insn) => result.push(insn), Err(msg) => return Err(format!("")), } '
           'if let LoadImm = inst_type && let Integer(imm) = instruction.operands[1] { result.push(insn(0, 0, 0, 0, imm >> 32).unwrap()); } } '
           'None => return Err(format!("")), } } Ok(result) }') in flat_nostr
tuple_ok = ('fn operands_tuple(operands: &[Operand]) -> Result<(Operand, Operand, Operand), String> { match operands.len() { 0 => Ok((Nil, Nil, Nil)), 1 => Ok((operands[0], Nil, Nil)), '
            '2 => Ok((operands[0], operands[1], Nil)), 3 => Ok((operands[0], operands[1], operands[2])), _ => Err("".to_string()), } }') in flat_nostr
top_ok = ('pub fn assemble(src: &str) -> Result<Vec<u8>, String> { let parsed = (parse(src))?; let insns = (assemble_internal(&parsed))?; let mut result: Vec<u8> = vec![]; '
          'for insn in insns { result.extend_from_slice(&insn.to_array()); } Ok(result) }') in flat_nostr
enc_head_ok = bool(re.search(r"fn encode\( ?inst_type: InstructionType, opc: u8, operands: &\[Operand\],? ?\) -> Result<Insn, String> \{ let \(a, b, c\) = \(operands_tuple\(operands\)\)\?; match \(inst_type, a, b, c\) \{", flat_nostr))
lines += ["/-- `assemble_internal` has the shape the model's `assembleInternal` mirrors: per instruction a map lookup (unknown name: error), `encode` (error: error), the result",
          "    pushed, then for `LoadImm` with an integer second operand a second slot `insn(0, 0, 0, 0, imm >> 32).unwrap()`; `operands_tuple` pads up to three operands with `Nil`",
          "    and refuses more; `encode` starts from that tuple; `assemble` is parse, assemble_internal, concatenation of `to_array()` -/",
          "def assembleLoopShape : Bool := %s" % ("true" if loop_ok else "false"),
          "def operandsTupleShape : Bool := %s" % ("true" if tuple_ok else "false"),
          "def encodeHeadShape : Bool := %s" % ("true" if enc_head_ok else "false"),
          "def assembleTopShape : Bool := %s" % ("true" if top_ok else "false"), ""]
# ---- src/asm_parser.rs: the numeric meaning of literals — the final `and_then` of `integer()` (an if-chain over `is_hex`, the sign and the magnitude, translated branch by
# branch), the sign closure, and the shapes of the digit conversions of `integer()` and `register()` (u64 / i64 parses whose overflow is a parse error)
try:
    ptxt = " ".join(re.sub(r"//[^\n]*", "", open(os.path.join(os.path.dirname(SRC), "asm_parser.rs")).read()).split())
    m = re.search(r"\(sign, hex\.or\(dec\)\)\.and_then\(move \|\(s, \(x, is_hex\)\): \(i64, \(u64, bool\)\)\| \{ (.*?) \}\) \}", ptxt)
    if not m: raise SyntaxError("final and_then of integer()")
    chain = m.group(1)
    def expr(e):
        e = e.strip()
        if e == "x as i64": return "u64ToI64 x"
        q = re.fullmatch(r"s\.wrapping_mul\((.*)\)", e)
        if q: return "wrapI64 (s * %s)" % expr(q.group(1))
        q = re.fullmatch(r"\((.*)\)\.wrapping_neg\(\)", e)
        if q: return "wrapI64 (-(%s))" % expr(q.group(1))
        raise SyntaxError("literal value `%s`" % e)
    def cnd(c):
        c = c.strip()
        if c == "is_hex": return "isHex = true"
        q = re.fullmatch(r"s == (-?\d+) && x <= i64::MAX as u64( \+ (\d+))?", c)
        if q: return "s = %s ∧ x ≤ 2 ^ 63 - 1%s" % (q.group(1), (" + " + q.group(3)) if q.group(2) else "")
        raise SyntaxError("literal condition `%s`" % c)
    out = []; rest = chain
    while True:
        q = re.match(r"(?:else )?if (.*?) \{ Ok\((.*?)\) \} ", rest)
        if not q: break
        out.append("  %sif %s then some (%s)" % ("else " if out else "", cnd(q.group(1)), expr(q.group(2)))); rest = rest[q.end():]
    if not re.fullmatch(r"else \{ Err\(out_of_range\(\)\) \}", rest.strip()): raise SyntaxError("end of the if-chain: " + rest[:40])
    sign_ok = 'let sign = optional(one_of("-+".chars())).map(|x| match x { Some(\'-\') => -1, _ => 1, });' in ptxt
    hex_ok = 'let hex = attempt(string("0x").with(many1(hex_digit()))).and_then(move |x: String| { u64::from_str_radix(&x, 16) .map(|v| (v, true)) .map_err(|_| out_of_range()) });' in ptxt
    dec_ok = 'let dec = many1(digit()) .and_then(move |x: String| x.parse::<u64>().map(|v| (v, false)).map_err(|_| out_of_range()));' in ptxt
    reg_ok = "attempt(char('r').skip(not_followed_by(letter()))) .with(many1(digit())) .and_then(|x: String| { x.parse::<i64>() .map_err(|_| StreamErrorFor::<I>::message_static_message(\"register out of range\")) })" in ptxt
    ident_ok = "fn ident<I>() -> impl Parser<I, Output = String> where I: Stream<Token = char>, I::Error: ParseError<I::Token, I::Range, I::Position>, { many1(alpha_num()) }" in ptxt
    operand_ok = ("let register_operand = register().map(Operand::Register); let immediate = integer().map(Operand::Integer); let memory = between(char('['), char(']'), (register(), optional(integer()))) "
                  ".map(|t| Operand::Memory(t.0, t.1.unwrap_or(0))); register_operand.or(immediate).or(memory)") in ptxt
    instr_ok = "let operands = sep_by(operand(), char(',').skip(spaces())); (ident().skip(spaces()), operands, spaces()).map(|t| Instruction { name: t.0, operands: t.1, })" in ptxt
    parse_ok = ('pub fn parse(input: &str) -> Result<Vec<Instruction>, String> { let mut with = spaces().with(many(instruction()).skip(eof())); #[cfg(feature = "std")] { match with.easy_parse(position::Stream::new(input)) { '
                'Ok((insts, _)) => Ok(insts), Err(err) => Err(err.to_string()), } } #[cfg(not(feature = "std"))] { match with.parse(position::Stream::new(input)) { Ok((insts, _)) => Ok(insts), Err(err) => Err(err.to_string()), } } }') in ptxt and "use combine::parser::char::{alpha_num, char, digit, hex_digit, letter, spaces, string};" in ptxt
    lines += ["/-- the combinator structure of the parser (`ident` = `many1(alpha_num())`; `operand` = register, else integer, else `[register integer?]`; `instruction` = mnemonic, blanks, operands",
              "    separated by a comma and blanks, blanks; `parse` = blanks, instructions, end of input; `spaces` is combine's own, i.e. every `char::is_whitespace`) has the modelled shape -/",
              "def parserStructureShape : Bool := %s" % ("true" if ident_ok and operand_ok and instr_ok and parse_ok else "false")]
    lines += ["/-- the final `and_then` of `integer()`: `s` the sign (-1 or 1), `x` the magnitude (a `u64`), `isHex` how it was written -/",
              "def integerFinalSrc (s : Int) (x : Nat) (isHex : Bool) : Option Int :="] + out + ["  else none",
              "/-- the sign closure ('-' gives -1, anything else 1) and the digit conversions (`from_str_radix(.., 16)` / `parse::<u64>` for literals, `parse::<i64>` for register numbers; overflow is a parse error) have the modelled shapes -/",
              "def signShape : Bool := %s" % ("true" if sign_ok else "false"), "def hexParseShape : Bool := %s" % ("true" if hex_ok else "false"),
              "def decParseShape : Bool := %s" % ("true" if dec_ok else "false"), "def registerParseShape : Bool := %s" % ("true" if reg_ok else "false"), "def integerFinalSrcOk : Bool := true", ""]
except Exception as ex:
    problems.append("asm_parser integer(): %s" % ex)
    lines += ["def parserStructureShape : Bool := false", "def integerFinalSrc (s : Int) (x : Nat) (isHex : Bool) : Option Int := none", "def signShape : Bool := false", "def hexParseShape : Bool := false", "def decParseShape : Bool := false",
              "def registerParseShape : Bool := false", "def integerFinalSrcOk : Bool := false", ""]
for p in problems: lines.append("/- not translated: %s -/" % p.replace("-/", "- /"))
lines += ["end Rbpf.Generated", ""]
new = "\n".join(lines)
os.makedirs(os.path.dirname(OUT), exist_ok=True)
if not os.path.exists(OUT) or open(OUT).read() != new: open(OUT, "w").write(new)
print("assembler tables:", "ok" if not problems else "; ".join(problems))
