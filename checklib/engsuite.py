#!/usr/bin/env python3
"""development aid: engine comparison summary for the exec-engines suite"""
import sys, os, collections, importlib.util, importlib.machinery
ROOT = os.path.dirname(os.path.dirname(os.path.abspath(__file__)))
spec = importlib.util.spec_from_loader("core", importlib.machinery.SourceFileLoader("core", os.path.join(ROOT, "check")))
core = importlib.util.module_from_spec(spec); spec.loader.exec_module(core)
sys.path.insert(0, os.path.join(ROOT, "checklib"))
tier = sys.argv[1] if len(sys.argv) > 1 else "quick"
lines = core.gen_cases("exec-engines", tier, 1, [])
flt = os.environ.get("TAG")
if flt: lines = [l for l in lines if "tag=" + flt in l]
res = core.run_both(lines)
il = res["impl"][0].split("\n")[:-1]; ml = res["model"][0].split("\n")[:-1]
print("cases", len(lines), len(il), len(ml), res["impl"][1][-200:], res["model"][1][-200:])
cnt = collections.Counter(); ex = {}
for l, a, b in zip(lines, il, ml):
    tag = [t for t in l.split() if t.startswith("tag=")][0][4:]
    if tag in ("matrix",):
        prog = [t for t in l.split() if t.startswith("prog=")][0][5:]
        k = 0
        while prog[16*k:16*k+2] == "18": k += 2
        tag = tag + ":" + prog[16*k:16*k+2]
    ap = a.split(" | "); bp = b.split(" | ")
    kv = dict(p.split("=", 1) for p in bp[1:] if "=" in p)
    if ap[0] != bp[0]: cnt[(tag, "interp!=model")] += 1; ex.setdefault((tag, "interp!=model"), (l, a, b))
    claim = kv.get("claim", "?"); tags = kv.get("tags", "")
    for e in ap[1:]:
        name, val = e.split("=", 1)
        val = val.split(":code=")[0]
        if val in ("compiled",): cnt[(tag, name, "not-run")] += 1; continue
        if val == "compile-err": cnt[(tag, name, "compile-err", tags)] += 1; ex.setdefault((tag, name, "compile-err", tags), (l, a, b)); continue
        if claim != "in": cnt[(tag, name, "out-of-claim")] += 1; continue
        # compare with the interpreter's: ok r0=.. mem=.. mbuff=.. extra=.. log=N:D
        f = dict(x.split("=", 1) for x in ap[0].split()[1:] if "=" in x)
        want = "ok:r0=%s:mem=%s:mbuff=%s:LOG=%s" % (f.get("r0"), f.get("mem"), f.get("mbuff"), f.get("log"))
        got = val.rsplit(":align=", 1)[0]
        sem = kv.get(name + "sem", "?")
        if got == want: cnt[(tag, name, "agree")] += 1
        elif got == sem: cnt[(tag, name, "DIFF-as-modelled", tags)] += 1
        else:
            key = (tag, name, "DIFF", tags); cnt[key] += 1; ex.setdefault(key, (l, a, b))
        al = val.rsplit(":align=", 1)[1] if ":align=" in val else "ff"
        if al not in ("ff", "8"): cnt[(tag, name, "MISALIGNED", al)] += 1; ex.setdefault((tag, name, "MISALIGNED", al), (l, a, b))
for k in sorted(cnt, key=str): print(k, cnt[k])
W = int(os.environ.get("W", "300"))
for k, (l, a, b) in list(ex.items())[:int(os.environ.get("SHOW", "6"))]:
    print("EX", k); print("  case ", l[:W]); print("  impl ", a[:W]); print("  model", b[:W])
