import RbpfModel.Model.Insn
import RbpfModel.Model.Builder
import RbpfModel.Lemmas.Codec
import RbpfModel.Props.C17
