/-
  Lemmas about the helper model (`Rbpf.Helpers`): gather_bytes, memfrob, strcmp, bpf_trace_printf, rand's range
  reduction, sqrti.  Core Lean only (no Mathlib).
-/
import RbpfModel.Model.Helpers
namespace Rbpf
namespace HelperLemmas   -- sub-namespace: keeps generic names (`getD_of_lt`, `sqrt_unique`, …) from clashing with other lemma files
open Helpers

-- gather_bytes / memfrob ---------------------------------------------------------------------------------

theorem gather_bytes_eq (b1 b2 b3 b4 b5 : BitVec 8) :
    gatherBytes (b1.setWidth 64) (b2.setWidth 64) (b3.setWidth 64) (b4.setWidth 64) (b5.setWidth 64) = ((0 : BitVec 24) ++ b1 ++ b2 ++ b3 ++ b4 ++ b5 : BitVec 64) := by
  unfold gatherBytes
  apply BitVec.eq_of_getLsbD_eq
  intro i hi
  have hge : ∀ (b : BitVec 8) (j : Nat), 8 ≤ j → b.getLsbD j = false := fun b j h => BitVec.getLsbD_of_ge _ _ h
  simp only [BitVec.getLsbD_append, BitVec.getLsbD_or, BitVec.getLsbD_shiftLeft, BitVec.getLsbD_setWidth, Nat.sub_sub]
  by_cases h8 : i < 8
  · simp [h8, show i < 16 by omega, show i < 24 by omega, show i < 32 by omega, hi]
  by_cases h16 : i < 16
  · obtain ⟨j, rfl⟩ : ∃ j, i = 8 + j := ⟨i-8, by omega⟩
    have : j < 8 := by omega
    simp [this, hi, h8, show 8 + j < 16 by omega, show 8 + j < 24 by omega, show 8 + j < 32 by omega, show j < 64 by omega]
  by_cases h24 : i < 24
  · obtain ⟨j, rfl⟩ : ∃ j, i = 16 + j := ⟨i-16, by omega⟩
    have : j < 8 := by omega
    simp [hi, h8, show ¬ 16 + j - 8 < 8 by omega, hge b5 (16+j) (by omega), hge b4 (16 + j - 8) (by omega), this, show ¬ 16 + j < 16 by omega, show 16 + j < 24 by omega, show 16 + j < 32 by omega, show j < 64 by omega]
  by_cases h32 : i < 32
  · obtain ⟨j, rfl⟩ : ∃ j, i = 24 + j := ⟨i-24, by omega⟩
    have : j < 8 := by omega
    simp [hi, h8, show ¬ 24 + j - 8 < 8 by omega, show ¬ 24 + j - 16 < 8 by omega, hge b5 (24+j) (by omega), hge b4 (24 + j - 8) (by omega), hge b3 (24 + j - 16) (by omega), this, show ¬ 24 + j < 16 by omega, show ¬ 24 + j < 24 by omega, show 24 + j < 32 by omega, show j < 64 by omega]
  by_cases h40 : i < 40
  · obtain ⟨j, rfl⟩ : ∃ j, i = 32 + j := ⟨i-32, by omega⟩
    have : j < 8 := by omega
    simp [hi, h8, h32, show ¬ 32 + j - 8 < 8 by omega, show ¬ 32 + j - 16 < 8 by omega, show ¬ 32 + j - 24 < 8 by omega, hge b5 (32+j) (by omega), hge b4 (32 + j - 8) (by omega), hge b3 (32 + j - 16) (by omega), hge b2 (32 + j - 24) (by omega), this, show j < 64 by omega]
  · simp [hge b5 i (by omega), hge b4 (i - 8) (by omega), hge b3 (i - 16) (by omega), hge b2 (i - 24) (by omega), hge b1 (i - 32) (by omega), h8, h16, h24, h32, show ¬ i - 8 < 8 by omega, show ¬ i - 16 < 8 by omega, show ¬ i - 24 < 8 by omega,  show ¬ i - 32 < 8 by omega]

theorem getD_of_lt {α} (l : List α) (k : Nat) (d : α) (h : k < l.length) : l.getD k d = l[k] := by
  simp [List.getD_eq_getElem?_getD, h]

theorem memfrob_frame (buf : List (BitVec 8)) (base ptr len : Nat) (b' : List (BitVec 8)) (h : memfrob buf base ptr len = some b') :
    b'.length = buf.length ∧ ∀ k, k < buf.length →
      b'.getD k 0 = (if base + k ≥ ptr ∧ base + k < ptr + len then buf.getD k 0 ^^^ 0x2a else buf.getD k 0) := by
  unfold memfrob at h
  split at h
  · next h0 =>
    cases h; subst h0
    refine ⟨rfl, fun k hk => ?_⟩
    rw [if_neg (by omega)]
  · split at h
    · next hb =>
      cases h
      refine ⟨by simp, fun k hk => ?_⟩
      rw [getD_of_lt _ _ _ (by simpa using hk)]
      simp only [List.getElem_map, List.getElem_range]
      have : (ptr - base ≤ k ∧ k < ptr - base + len) ↔ (base + k ≥ ptr ∧ base + k < ptr + len) := by omega
      simp only [this]
    · cases h

theorem memfrob_total (buf : List (BitVec 8)) (base ptr len : Nat) (h : len = 0 ∨ (base ≤ ptr ∧ ptr + len ≤ base + buf.length)) : ∃ b', memfrob buf base ptr len = some b' := by
  unfold memfrob
  by_cases h0 : len = 0
  · exact ⟨_, if_pos h0⟩
  · rw [if_neg h0, if_pos (by omega)]; exact ⟨_, rfl⟩

theorem memfrob_twice (buf : List (BitVec 8)) (base ptr len : Nat) (b' : List (BitVec 8)) (h : memfrob buf base ptr len = some b') : memfrob b' base ptr len = some buf := by
  have ⟨hl, hf⟩ := memfrob_frame buf base ptr len b' h
  have hcond : len = 0 ∨ (base ≤ ptr ∧ ptr + len ≤ base + b'.length) := by
    unfold memfrob at h
    by_cases h0 : len = 0
    · exact Or.inl h0
    · rw [if_neg h0] at h
      split at h
      · next hb => right; omega
      · cases h
  obtain ⟨b'', h2⟩ := memfrob_total b' base ptr len hcond
  have ⟨hl2, hf2⟩ := memfrob_frame b' base ptr len b'' h2
  rw [h2]; congr 1
  apply List.ext_getElem (by omega)
  intro k hk1 hk2
  have := hf2 k (by omega)
  rw [hf k hk2] at this
  rw [getD_of_lt _ _ _ hk1, getD_of_lt _ _ _ hk2] at this
  rw [this]
  split
  · rw [BitVec.xor_assoc]; simp
  · rfl

-- strcmp / rand ------------------------------------------------------------------------------------------

theorem sub_eq_zero8 (x y : BitVec 8) : x - y = 0#8 ↔ x = y := by
  rw [BitVec.sub_eq_iff_eq_add]; simp

theorem setWidth64_eq_zero (x : BitVec 8) : x.setWidth 64 = 0#64 ↔ x = 0#8 := by
  constructor
  · intro h
    have := congrArg BitVec.toNat h
    simp at this
    have := x.isLt
    exact BitVec.eq_of_toNat_eq (by simp; omega)
  · rintro rfl; rfl

theorem strcmpBytes_nul_left (t1 r : List (BitVec 8)) (y : BitVec 8) :
    strcmpBytes (0#8 :: t1) (y :: r) = some (y.setWidth 64) := by
  unfold strcmpBytes
  rw [if_neg (by simp)]
  by_cases hy : y = 0#8
  · subst hy; simp
  · have : ¬ (y.ule 0#8 = true) := by
      rw [BitVec.ule_iff_toNat_le]
      have : y.toNat ≠ 0 := fun h => hy (BitVec.eq_of_toNat_eq (by simpa using h))
      simp; omega
    rw [if_neg this]; simp

theorem strcmpBytes_nul_right (t2 r : List (BitVec 8)) (x : BitVec 8) :
    strcmpBytes (x :: r) (0#8 :: t2) = some (x.setWidth 64) := by
  unfold strcmpBytes
  by_cases hx : x = 0#8
  · subst hx; simp
  · rw [if_neg (by simp [hx])]
    simp [BitVec.ule]

theorem strcmp_zero_iff (s1 s2 t1 t2 : List (BitVec 8)) (h1 : ∀ c ∈ s1, c ≠ 0) (h2 : ∀ c ∈ s2, c ≠ 0) :
    strcmpBytes (s1 ++ 0 :: t1) (s2 ++ 0 :: t2) = some 0 ↔ s1 = s2 := by
  induction s1 generalizing s2 with
  | nil =>
    cases s2 with
    | nil => simp [strcmpBytes]
    | cons y s2 =>
      have hy : y ≠ 0#8 := h2 y (by simp)
      simp only [List.nil_append, List.cons_append]
      rw [show (0 : BitVec 8) = 0#8 from rfl, strcmpBytes_nul_left]
      simp [setWidth64_eq_zero, hy]
  | cons x s1 ih =>
    have hx : x ≠ 0#8 := h1 x (by simp)
    cases s2 with
    | nil =>
      simp only [List.nil_append, List.cons_append]
      rw [show (0 : BitVec 8) = 0#8 from rfl, strcmpBytes_nul_right]
      simp [setWidth64_eq_zero, hx]
    | cons y s2 =>
      simp only [List.cons_append]
      unfold strcmpBytes
      by_cases hxy : x = y
      · subst hxy
        rw [if_pos ⟨rfl, hx⟩, ih s2 (fun c hc => h1 c (by simp [hc])) (fun c hc => h2 c (by simp [hc]))]
        simp
      · rw [if_neg (by simp [hxy])]
        have : (if y.ule x = true then BitVec.setWidth 64 (x - y) else BitVec.setWidth 64 (y - x)) ≠ 0#64 := by
          split
          · rw [Ne, setWidth64_eq_zero, sub_eq_zero8]; exact hxy
          · rw [Ne, setWidth64_eq_zero, sub_eq_zero8]; exact fun h => hxy h.symm
        simpa [hxy] using this

theorem strcmp_diff (pre r1 r2 : List (BitVec 8)) (x y : BitVec 8) (hp : ∀ c ∈ pre, c ≠ 0) (hxy : x ≠ y) :
    strcmpBytes (pre ++ x :: r1) (pre ++ y :: r2) = some (if y.ule x then (x - y).setWidth 64 else (y - x).setWidth 64) := by
  induction pre with
  | nil => simp [strcmpBytes, hxy]
  | cons c pre ih =>
    simp only [List.cons_append]
    unfold strcmpBytes
    rw [if_pos ⟨rfl, hp c (by simp)⟩]
    exact ih (fun d hd => hp d (by simp [hd]))

theorem strcmp_total (s1 s2 t1 t2 : List (BitVec 8)) (h1 : ∀ c ∈ s1, c ≠ 0) (h2 : ∀ c ∈ s2, c ≠ 0) : ∃ v, strcmpBytes (s1 ++ 0 :: t1) (s2 ++ 0 :: t2) = some v := by
  induction s1 generalizing s2 with
  | nil =>
    cases s2 with
    | nil => exact ⟨_, strcmpBytes_nul_left _ _ _⟩
    | cons y s2 => exact ⟨_, strcmpBytes_nul_left _ _ _⟩
  | cons x s1 ih =>
    cases s2 with
    | nil => exact ⟨_, strcmpBytes_nul_right _ _ _⟩
    | cons y s2 =>
      simp only [List.cons_append]
      unfold strcmpBytes
      split
      · exact ih s2 (fun c hc => h1 c (by simp [hc])) (fun c hc => h2 c (by simp [hc]))
      · exact ⟨_, rfl⟩

theorem rand_in_range (n min max : Nat) (hn : n < 2^64) (hmax : max < 2^64) (h : min < max) :
    min ≤ randRange n min max ∧ randRange n min max ≤ max := by
  unfold randRange
  rw [if_pos h]
  split
  · omega
  · have := Nat.mod_lt n (show max - min + 1 > 0 by omega)
    omega

-- bpf_trace_printf ---------------------------------------------------------------------------------------

theorem log2_div16 (x : Nat) (h : 16 ≤ x) : Nat.log2 (x / 16) + 4 = Nat.log2 x := by
  have hx : x ≠ 0 := by omega
  have hq : x / 16 ≠ 0 := by omega
  symm
  rw [Nat.log2_eq_iff hx]
  have h1 := Nat.log2_self_le hq
  have h2 := @Nat.lt_log2_self (x / 16)
  generalize Nat.log2 (x/16) = k at *
  rw [show k + 4 + 1 = (k + 1) + 4 from rfl, Nat.pow_add, Nat.pow_add]
  generalize 2 ^ k = a at *
  generalize 2 ^ (k+1) = b at *
  omega

theorem hexDigits_length (x : Nat) : (hexDigits x).length = if x = 0 then 1 else Nat.log2 x / 4 + 1 := by
  induction x using Nat.strongRecOn with
  | _ x ih =>
    unfold hexDigits
    by_cases h : x < 16
    · rw [dif_pos h]
      split
      · rfl
      · next h0 =>
        have : Nat.log2 x < 4 := (Nat.log2_lt h0).2 (by omega)
        simp; omega
    · rw [dif_neg h, List.length_append, ih (x / 16) (by omega), if_neg (by omega), if_neg (by omega)]
      have := log2_div16 x (by omega)
      simp; omega

theorem hexLen_eq (x : Nat) : hexLen x = (hexDigits x).length := by
  rw [hexDigits_length]; unfold hexLen
  split
  · rfl
  · omega

theorem printf_ret (a3 a4 a5 : Nat) : printfRet a3 a4 a5 = (printfText a3 a4 a5).length := by
  unfold printfRet printfText
  simp only [List.length_append, hexLen_eq]
  have h1 : "bpf_trace_printf: 0x".toList.length = 20 := by decide
  have h2 : ", 0x".toList.length = 4 := by decide
  rw [h1, h2]; simp; omega

-- sqrti --------------------------------------------------------------------------------------------------

theorem sqrt_unique (n k : Nat) (h1 : k * k ≤ n) (h2 : n < (k+1)*(k+1)) : Nat.sqrt n = k := by
  have a := Nat.sqrt_le n
  have b := Nat.lt_succ_sqrt n
  have c : Nat.sqrt n < k + 1 := Nat.mul_self_lt_mul_self_iff.1 (Nat.lt_of_le_of_lt a h2)
  have d : k < Nat.sqrt n + 1 := Nat.mul_self_lt_mul_self_iff.1 (Nat.lt_of_le_of_lt h1 b)
  omega

theorem sqrt_scale (n k M s : Nat) (hM : 0 < M)
    (hk1 : k*k ≤ n) (hk2 : n < (k+1)*(k+1)) (hs1 : s*s ≤ n*(M*M)) (hs2 : n*(M*M) < (s+1)*(s+1)) :
    k * M ≤ s ∧ s < (k+1) * M := by
  have hMM : 0 < M * M := Nat.mul_pos hM hM
  constructor
  · apply Nat.le_of_lt_succ
    apply Nat.mul_self_lt_mul_self_iff.1
    refine Nat.lt_of_le_of_lt ?_ hs2
    rw [Nat.mul_mul_mul_comm]
    exact Nat.mul_le_mul_right _ hk1
  · apply Nat.mul_self_lt_mul_self_iff.1
    refine Nat.lt_of_le_of_lt hs1 ?_
    rw [Nat.mul_mul_mul_comm]
    exact Nat.mul_lt_mul_of_pos_right hk2 hMM

theorem sqrt_core (n k M D E s : Nat) (hDE : D * E = M) (hD : 0 < D) (hkE : k + 1 < E)
    (hk1 : k*k ≤ n) (hk2 : n < (k+1)*(k+1)) (hs1 : s*s ≤ n*(M*M)) (hs2 : n*(M*M) < (s+1)*(s+1)) :
    (if (2*(s / D * D) + D)*(2*(s / D * D) + D) ≤ 4*(n*(M*M)) then s / D * D + D else s / D * D) / M = k := by
  have hM : 0 < M := by rw [← hDE]; exact Nat.mul_pos hD (by omega)
  have ⟨hA, hB⟩ := sqrt_scale n k M s hM hk1 hk2 hs1 hs2
  generalize hq : s / D = q
  have hq1 : k * E ≤ q := by
    rw [← hq, Nat.le_div_iff_mul_le hD, Nat.mul_assoc, Nat.mul_comm E D, hDE]; exact hA
  have hq2 : q < (k+1) * E := by
    rw [← hq, Nat.div_lt_iff_lt_mul hD, Nat.mul_assoc, Nat.mul_comm E D, hDE]; exact hB
  have hqs : q * D ≤ s := by rw [← hq]; exact Nat.div_mul_le_self s D
  have ha : k * M ≤ q * D := by
    rw [← hDE, Nat.mul_comm D E, ← Nat.mul_assoc]; exact Nat.mul_le_mul_right _ hq1
  have hc : q * D + D ≤ (k+1) * M := by
    rw [← hDE, Nat.mul_comm D E, ← Nat.mul_assoc, ← Nat.succ_mul]; exact Nat.mul_le_mul_right _ hq2
  split
  · next hup =>
    apply Nat.div_eq_of_lt_le (by omega)
    apply Nat.lt_of_le_of_ne hc
    intro heq
    generalize hT : (k+1) * M = T at heq
    generalize hL : q * D = L at heq hup
    generalize hmid : 2 * L + D = mid at hup
    have h1 : (n+1) * (M*M) ≤ (k+1)*(k+1)*(M*M) := Nat.mul_le_mul_right _ hk2
    rw [Nat.mul_mul_mul_comm, hT] at h1
    have h2 : mid + D = 2 * T := by omega
    have h3 : (mid + D) * (mid + D) = mid * mid + (2 * mid + D) * D := by grind
    have h4 : 4 * ((n+1) * (M*M)) = 4 * (n * (M*M)) + 4 * (M * M) := by grind
    have h5 : 4 * (T * T) = (mid + D) * (mid + D) := by rw [h2]; grind
    have h6 : 4 * (M * M) ≤ (2 * mid + D) * D := by omega
    have h7 : (2 * mid + D) * D ≤ (4 * T) * D := Nat.mul_le_mul_right _ (by omega)
    have h8 : M * (4 * M) ≤ M * (4 * (D * (k+1))) := by rw [← hT] at h7; grind
    have h9 := Nat.le_of_mul_le_mul_left h8 hM
    have h10 : D * E ≤ D * (k+1) := by omega
    have := Nat.le_of_mul_le_mul_left h10 hD
    omega
  · exact Nat.div_eq_of_lt_le ha (by omega)

theorem sqrtTrunc_eq (n : Nat) (h : n < 2^52) : sqrtTrunc n = Nat.sqrt n := by
  unfold sqrtTrunc
  by_cases h0 : n = 0
  · subst h0; exact (sqrt_unique 0 0 (by omega) (by omega)).symm
  rw [if_neg h0]
  have hk1 := Nat.sqrt_le n
  have hk2 := Nat.lt_succ_sqrt n
  generalize Nat.sqrt n = k at *
  dsimp only
  have h4 : (4:Nat)^60 = 2^60 * 2^60 := by decide
  rw [h4]
  have hs1 := Nat.sqrt_le (n * (2^60*2^60))
  have hs2 := Nat.lt_succ_sqrt (n * (2^60*2^60))
  generalize Nat.sqrt (n * (2^60*2^60)) = s at *
  have hk26 : k < 2^26 := Nat.mul_self_lt_mul_self_iff.1 (Nat.lt_of_le_of_lt hk1 h)
  have hkpos : 1 ≤ k := by
    apply Nat.pos_of_ne_zero; rintro rfl; omega
  have ⟨hA, hB⟩ := sqrt_scale n k (2^60) s (by decide) hk1 hk2 hs1 hs2
  have hs0 : s ≠ 0 := by omega
  have hL1 : 60 ≤ Nat.log2 s := (Nat.le_log2 hs0).2 (by omega)
  have hL2 : Nat.log2 s < 86 := (Nat.log2_lt hs0).2 (by omega)
  generalize Nat.log2 s = L at *
  rw [if_neg (by omega)]
  apply sqrt_core n k (2^60) (2^(L+1-53)) (2^(60-(L+1-53))) s _ (Nat.pow_pos (by decide)) _ hk1 hk2 hs1 hs2
  · rw [← Nat.pow_add]; congr 1; omega
  · have : 2^27 ≤ 2^(60-(L+1-53)) := Nat.pow_le_pow_right (by decide) (by omega)
    omega

theorem sqrti_exact (n : Nat) (h : n < 2^52) : sqrti n = Nat.sqrt n := by
  unfold sqrti toF64
  rw [if_pos (by omega)]
  exact sqrtTrunc_eq n h

end HelperLemmas
end Rbpf
