/-
  Program level of the Cranelift-IR simulation.

  1. `prelude_sim`: the entry block establishes `RelC` with the interpreter's initial state (r2 = the length).
  6. `whole_step`: one instruction at an instruction start (lemmas 2–5 are in `WholeAux.lean`).
  7. `whole_run`: with the per-instruction simulation `ArmSim` as a hypothesis, a run of `EngineSem.clifRun` that returns a
     value / is refused an access is a run of the translated program that returns the same value / traps.
     Needs `Verifier.check env.prog = .ok`: see `whole_run` for the program that refutes the statement without it.
-/
import RbpfModel.Lemmas.ClifSim.WholeAux
namespace Rbpf.ClifSim
open Rbpf.ClifAst Rbpf.ClifSem

/-! ## 1. the prelude -/

/-- the prelude: from the entry state the function reaches instruction 0 in a state that represents the interpreter's initial
    state with r2 = the length Cranelift puts there -/
def init2 (m : Memory) : State :=
  let s := Interp.init m
  { s with reg := s.reg.setIfInBounds 2 (BitVec.ofNat 64 (if m.mbuff.bytes.size ≠ 0 then m.mbuff.bytes.size else m.mem.bytes.size)) }

/-- the ops of `build_function_prelude` -/
theorem whole_prelude_eq : prelude =
    [ .stackAddr 512, .defVar 10 (.loc 0),
      .stackAddr 0, .defVar 15 (.loc 1),
      .stackAddr 512, .defVar 16 (.loc 2),
      .bin .iadd (.param 0) (.param 1), .defVar 11 (.param 0), .defVar 12 (.loc 3),
      .bin .iadd (.param 2) (.param 3), .defVar 13 (.param 2), .defVar 14 (.loc 4),
      .icmpImm .ne (.param 3) 0,
      .select (.loc 5) (.param 2) (.param 0), .defVar 1 (.loc 6),
      .select (.loc 5) (.param 3) (.param 1), .defVar 2 (.loc 7),
      .jump 0 ] := rfl

theorem whole_arg_param (σ : St) (loc : List Val) (k : Nat) (h : k < 4) :
    arg σ loc (.param k) = some ⟨.i64, σ.params[k]⟩ := by
  simp only [arg, Vector.getElem?_eq_getElem h, Option.map_some]

theorem whole_runOps_stackAddr {env : Env} {s : St} {loc : List Val} (off : Nat) (rest : List Op) :
    runOps env s loc (.stackAddr off :: rest) = runOps env s (loc ++ [⟨.i64, BitVec.ofNat 64 (s.stackBase + off)⟩]) rest := rfl

/-- the state after the prelude -/
def whole_afterPrelude (m : Memory) : St :=
  let p0 : BitVec 64 := BitVec.ofNat 64 (if m.mem.bytes.size = 0 then 0 else m.mem.base)
  let p1 : BitVec 64 := BitVec.ofNat 64 m.mem.bytes.size
  let p2 : BitVec 64 := BitVec.ofNat 64 m.mbuff.base
  let p3 : BitVec 64 := BitVec.ofNat 64 m.mbuff.bytes.size
  { entry m with
    vars := ((((((((((entry m).vars.setIfInBounds 10 (BitVec.ofNat 64 (m.stack.base + 512))).setIfInBounds 15
      (BitVec.ofNat 64 (m.stack.base + 0))).setIfInBounds 16 (BitVec.ofNat 64 (m.stack.base + 512))).setIfInBounds 11
      p0).setIfInBounds 12 (p0 + p1)).setIfInBounds 13 p2).setIfInBounds 14 (p2 + p3)).setIfInBounds 1
      (if (p3 != 0) = true then p2 else p0)).setIfInBounds 2 (if (p3 != 0) = true then p3 else p1)) }

theorem whole_prelude_run (env : Env) (m : Memory) :
    runOps env (entry m) [] prelude = (whole_afterPrelude m, .goto 0) := by
  rw [whole_prelude_eq]
  rw [whole_runOps_stackAddr, runOps_defVar _ (x := BitVec.ofNat 64 (m.stack.base + 512)) (by rfl) (by omega)]
  rw [whole_runOps_stackAddr, runOps_defVar _ (x := BitVec.ofNat 64 (m.stack.base + 0)) (by rfl) (by omega)]
  rw [whole_runOps_stackAddr, runOps_defVar _ (x := BitVec.ofNat 64 (m.stack.base + 512)) (by rfl) (by omega)]
  rw [runOps_bin _ (whole_arg_param _ _ 0 (by omega)) (whole_arg_param _ _ 1 (by omega)) (evalBin_iadd _ _ _), mk_i64]
  rw [runOps_defVar _ (whole_arg_param _ _ 0 (by omega)) (by omega)]
  rw [runOps_defVar _ (x := BitVec.ofNat 64 (if m.mem.bytes.size = 0 then 0 else m.mem.base) + BitVec.ofNat 64 m.mem.bytes.size)
    (by rfl) (by omega)]
  rw [runOps_bin _ (whole_arg_param _ _ 2 (by omega)) (whole_arg_param _ _ 3 (by omega)) (evalBin_iadd _ _ _), mk_i64]
  rw [runOps_defVar _ (whole_arg_param _ _ 2 (by omega)) (by omega)]
  rw [runOps_defVar _ (x := BitVec.ofNat 64 m.mbuff.base + BitVec.ofNat 64 m.mbuff.bytes.size) (by rfl) (by omega)]
  rw [runOps_icmpImm _ _ (whole_arg_param _ _ 3 (by omega))]
  rw [runOps_select _ (cv := bool (evalCC .ne ⟨.i64, BitVec.ofNat 64 m.mbuff.bytes.size⟩ (mk .i64 (BitVec.ofInt 64 0))))
    (by rfl) (whole_arg_param _ _ 2 (by omega)) (whole_arg_param _ _ 0 (by omega)) rfl]
  rw [runOps_defVar _ (x := if (BitVec.ofNat 64 m.mbuff.bytes.size != 0) = true then BitVec.ofNat 64 m.mbuff.base
      else BitVec.ofNat 64 (if m.mem.bytes.size = 0 then 0 else m.mem.base)) ?h1 (by omega)]
  rw [runOps_select _ (cv := bool (evalCC .ne ⟨.i64, BitVec.ofNat 64 m.mbuff.bytes.size⟩ (mk .i64 (BitVec.ofInt 64 0))))
    (by rfl) (whole_arg_param _ _ 3 (by omega)) (whole_arg_param _ _ 1 (by omega)) rfl]
  rw [runOps_defVar _ (x := if (BitVec.ofNat 64 m.mbuff.bytes.size != 0) = true then BitVec.ofNat 64 m.mbuff.bytes.size
      else BitVec.ofNat 64 m.mem.bytes.size) ?h2 (by omega)]
  · rfl
  case h1 =>
    simp only [arg_loc, bool_v_ne_zero, mk_i64, evalCC_ne_zero]
    show some (if _ then _ else _) = _
    split <;> rfl
  case h2 =>
    simp only [arg_loc, bool_v_ne_zero, mk_i64, evalCC_ne_zero]
    show some (if _ then _ else _) = _
    split <;> rfl

theorem whole_ofNat_bne_zero (n : Nat) (h : n < 2 ^ 64) : ((BitVec.ofNat 64 n != 0) = true) ↔ n ≠ 0 := by
  rw [ofNat_bne_zero, Nat.mod_eq_of_lt h]
  simp

theorem whole_afterPrelude_rel (m : Memory) (hm : MemOk m) : RelC (whole_afterPrelude m) (init2 m) := by
  have hsz : m.mbuff.bytes.size < 2 ^ 64 := by have := hm.mbuffTop; omega
  have hc' : (BitVec.ofNat 64 m.mbuff.bytes.size = 0#64) ↔ m.mbuff.bytes = #[] := by
    rw [← Array.size_eq_zero_iff]
    constructor
    · intro h
      have := congrArg BitVec.toNat h
      simp only [BitVec.toNat_ofNat, BitVec.toNat_ofNat] at this
      omega
    · intro h; rw [h]
  refine ⟨?_, ?_, ?_, ?_, ?_, ?_, ?_, rfl, rfl, rfl⟩
  · intro i
    obtain ⟨i, hi⟩ := i
    have h512 := hm.stack512
    show (whole_afterPrelude m).vars[i] = (init2 m).reg[i]
    have hcases : i = 0 ∨ i = 1 ∨ i = 2 ∨ i = 3 ∨ i = 4 ∨ i = 5 ∨ i = 6 ∨ i = 7 ∨ i = 8 ∨ i = 9 ∨ i = 10 := by omega
    rcases hcases with rfl | rfl | rfl | rfl | rfl | rfl | rfl | rfl | rfl | rfl | rfl
    all_goals simp [whole_afterPrelude, init2, Interp.init, entry, h512, hc']
    all_goals (split <;> rfl)
  · show (whole_afterPrelude m).vars[11] = _
    simp [whole_afterPrelude, init2, Interp.init, entry]
  · show (whole_afterPrelude m).vars[12] = (whole_afterPrelude m).vars[11] + _
    simp [whole_afterPrelude, init2, Interp.init, entry]
  · show (whole_afterPrelude m).vars[13] = _
    simp [whole_afterPrelude, init2, Interp.init, entry]
  · show (whole_afterPrelude m).vars[14] = _
    simp [whole_afterPrelude, init2, Interp.init, entry]
  · show (whole_afterPrelude m).vars[15] = _
    simp [whole_afterPrelude, init2, Interp.init, entry]
  · show (whole_afterPrelude m).vars[16] = _
    simp [whole_afterPrelude, init2, Interp.init, entry, hm.stack512, BitVec.ofNat_add]

theorem prelude_sim (env : Env) (m : Memory) (hm : MemOk m) :
    ∃ σ, runOps env (entry m) [] prelude = (σ, .goto 0) ∧ RelC σ (init2 m) :=
  ⟨_, whole_prelude_run env m, whole_afterPrelude_rel m hm⟩

/-! ## 6. one instruction of the translated program -/

theorem whole_run_succ {env : Env} {tr : List (Nat × List Op)} {σ σ' : St} {pc : Nat} {ops : List Op} {i : Insn} {f : Flow}
    (k : Nat) (hl : tr.lookup pc = some ops) (hg : getInsn? env.prog pc = some i) (hr : runOps env σ [] ops = (σ', f)) :
    run env tr σ pc (k + 1) =
      match f with
      | .fall => run env tr σ' (pc + width i) k
      | .goto t => run env tr σ' t k
      | .ret v => .ret v σ'
      | .trap => .trap σ'
      | .stuck => .stuck := by
  simp only [run, hl, hg, hr]
  cases f <;> rfl

/-- what one step of `run` does at an instruction start, given how the arm's op list runs: the block-closing `jump`,
    when present, goes where falling through goes -/
theorem whole_run_entry {env : Env} {tr : List (Nat × List Op)} {σ σ' : St} {pc : Nat} {ops : List Op} {i : Insn} {f : Flow}
    (k : Nat) (hg : getInsn? env.prog pc = some i)
    (hl : tr.lookup pc = some ops ∨ tr.lookup pc = some (ops ++ [.jump (pc + width i)]))
    (hr : runOps env σ [] ops = (σ', f)) :
    run env tr σ pc (k + 1) =
      match f with
      | .fall => run env tr σ' (pc + width i) k
      | .goto t => run env tr σ' t k
      | .ret v => .ret v σ'
      | .trap => .trap σ'
      | .stuck => .stuck := by
  rcases hl with hl | hl
  · exact whole_run_succ k hl hg hr
  · rw [whole_run_succ k hl hg (whole_runOps_jump _ hr)]
    cases f <;> rfl

/-- one step of the register-transfer semantics at an instruction start against one step of `run` -/
theorem whole_step (harm : ∀ i : Insn, ArmSim i) (env : Env) (tr : List (Nat × List Op))
    (htr : translate env.prog (helperSet env) = some tr) (σ : St) (s : State) (hrel : RelC σ s) (hm : MemOk s.mem)
    (hst : s.pc ∈ starts env.prog) :
    match EngineSem.clifStep env s with
    | .next s' => ∃ σ', RelC σ' s' ∧ MemOk s'.mem ∧ ∀ k, run env tr σ s.pc (k + 1) = run env tr σ' s'.pc k
    | .done r s' => ∃ σ', (∀ k, run env tr σ s.pc (k + 1) = .ret r σ') ∧ σ'.mem = s'.mem ∧ σ'.log = s'.log
    | .err .oob s' => ∃ σ', (∀ k, run env tr σ s.pc (k + 1) = .trap σ') ∧ σ'.mem = s'.mem ∧ σ'.log = s'.log
    | _ => True := by
  obtain ⟨i, ops, hget, harm', hl⟩ := whole_translate_entry htr s.pc hst
  have hs := harm i env σ s ops hget harm' hrel hm
  have herr := whole_clifStep_err env s
  generalize EngineSem.clifStep env s = o at hs herr
  cases o with
  | next s' =>
    obtain ⟨σ', f, hrun, hrel', hm', hf⟩ := hs
    refine ⟨σ', hrel', hm', fun k => ?_⟩
    rw [whole_run_entry k hget hl hrun]
    rcases hf with ⟨rfl, hpc⟩ | rfl
    · simp only [hpc]
    · rfl
  | done r s' =>
    obtain ⟨σ', hrun, hmem, hlog⟩ := hs
    exact ⟨σ', fun k => by rw [whole_run_entry k hget hl hrun], hmem, hlog⟩
  | err e s' =>
    cases e with
    | oob =>
      obtain ⟨σ', hrun, hmem, hlog⟩ := hs
      obtain ⟨h1, h2⟩ := herr _ _ rfl
      exact ⟨σ', fun k => by rw [whole_run_entry k hget hl hrun], by rw [hmem, h1], by rw [hlog, h2]⟩
    | _ => trivial
  | panic => trivial
  | fault => trivial

/-! ## 7. runs -/

/-- The program-level simulation, the per-instruction simulation being a hypothesis.

    `hv` (the verifier accepts the program) is needed: `translate` alone does not exclude a jump into the second slot of
    a wide load.  For `ja +1; lddw r0, …` where the second slot of the `lddw` reads as `exit` (opcode byte 0x95),
    `translate` succeeds (`[(0, [jump 2]), (1, [iconst, def_var])]`), `clifRun` from pc 0 returns r0, and `run` is
    stuck at pc 2, which has no entry.  (Cranelift itself refuses that function — `blocksFilled` — and so does the
    verifier: the second slot of a wide load must have opcode 0.) -/
theorem whole_run (harm : ∀ i : Insn, ArmSim i) (env : Env) (tr : List (Nat × List Op))
    (htr : translate env.prog (helperSet env) = some tr) (hv : Verifier.check env.prog = .ok)
    (σ : St) (s : State) (hrel : RelC σ s) (hm : MemOk s.mem) (fuel : Nat) :
    (∀ r s', EngineSem.clifRun env s fuel = .done r s' →
        ∃ k σ', run env tr σ s.pc k = .ret r σ' ∧ σ'.mem = s'.mem ∧ σ'.log = s'.log) ∧
    (∀ s', EngineSem.clifRun env s fuel = .err .oob s' →
        ∃ k σ', run env tr σ s.pc k = .trap σ' ∧ σ'.mem = s'.mem ∧ σ'.log = s'.log) := by
  induction fuel generalizing σ s with
  | zero => exact ⟨fun r s' h => (by cases h), fun s' h => (by cases h)⟩
  | succ fuel ih =>
    by_cases hst : s.pc ∈ starts env.prog
    · have hs := whole_step harm env tr htr σ s hrel hm hst
      simp only [EngineSem.clifRun]
      generalize EngineSem.clifStep env s = o at hs
      cases o with
      | next s1 =>
        obtain ⟨σ1, hrel1, hm1, hk⟩ := hs
        obtain ⟨ih1, ih2⟩ := ih σ1 s1 hrel1 hm1
        refine ⟨fun r s' h => ?_, fun s' h => ?_⟩
        · obtain ⟨k, σ', hr, hx⟩ := ih1 r s' h
          exact ⟨k + 1, σ', by rw [hk k, hr], hx⟩
        · obtain ⟨k, σ', hr, hx⟩ := ih2 s' h
          exact ⟨k + 1, σ', by rw [hk k, hr], hx⟩
      | done r s1 =>
        obtain ⟨σ', hr, hmem, hlog⟩ := hs
        refine ⟨fun r' s' h => ?_, fun s' h => by cases h⟩
        cases h
        exact ⟨1, σ', hr 0, hmem, hlog⟩
      | err e s1 =>
        refine ⟨fun r' s' h => (by cases h), fun s' h => ?_⟩
        cases h
        obtain ⟨σ', hr, hmem, hlog⟩ := hs
        exact ⟨1, σ', hr 0, hmem, hlog⟩
      | panic => exact ⟨fun r s' h => (by cases h), fun s' h => (by cases h)⟩
      | fault => exact ⟨fun r s' h => (by cases h), fun s' h => (by cases h)⟩
    · have hp := whole_nonstart_panic env hv s hst
      simp only [EngineSem.clifRun, hp]
      exact ⟨fun r s' h => (by cases h), fun s' h => (by cases h)⟩

end Rbpf.ClifSim
