/-
  C12 at the level of the Cranelift IR model (`Model/ClifAst.lean`): on a program the verifier accepts,
  `translateR` (`build_cfg; build_function_prelude; translate_program`) never panics (`clif_translate_total`), returns the
  error value exactly for an eBPF-to-eBPF call or an unregistered helper id (`clif_translate_err_iff`), and what it returns
  passes the condition under which Cranelift's `define_function` does not panic (`clif_blocks_filled`); hence
  `compileR` never panics (`clif_compile_total`).  The older compile-time models (`ClifCompile.compile` of C12,
  `EngineSem.clifCompile`) fail on exactly the same programs (`clif_compile_agrees`, `clif_translate_err_iff_clifCompile`).

  Method: a builder computation is `total_Good S` when it succeeds from every builder state and keeps "every op emitted so
  far branches only to pcs in `S`"; the property is closed under the builder's primitives and `>>=`, every helper of
  `cranelift.rs` has it (registers `< 11`), and so has every arm of `armB` on an instruction with the facts the verifier
  guarantees (`InsnFacts`), the `CALL` arm excepted, which is computed explicitly.
-/
import RbpfModel.Model.ClifAst
import RbpfModel.Model.ClifSim
import RbpfModel.Lemmas.CompileLemmas
import RbpfModel.Lemmas.EngineLemmas
namespace Rbpf.ClifSim
open Rbpf.ClifAst

/-! ## 1. builder computations that always succeed and only emit branches to allowed targets -/

/-- every branch target of the op satisfies `S` -/
def total_TgtOk (S : Nat → Prop) (o : Op) : Prop := ∀ t ∈ branchTargets o, S t

theorem total_tgtOk_nil {S : Nat → Prop} {o : Op} (h : branchTargets o = []) : total_TgtOk S o := by
  intro t ht; rw [h] at ht; cases ht

/-- the builder computation succeeds from every state, and keeps "all ops emitted so far branch into `S`" -/
def total_Good {α : Type} (S : Nat → Prop) (m : B α) : Prop :=
  ∀ st : BState, (∀ o ∈ st.ops, total_TgtOk S o) →
    ∃ a st', m st = .ok (a, st') ∧ ∀ o ∈ st'.ops, total_TgtOk S o

section Closure
variable {α β : Type} {S : Nat → Prop}

theorem total_good_pure (a : α) : total_Good S (pure a : B α) := fun st h => ⟨a, st, rfl, h⟩

theorem total_good_bind (x : B α) (f : α → B β) (hx : total_Good S x) (hf : ∀ a, total_Good S (f a)) :
    total_Good S (x >>= f) := by
  intro st h
  obtain ⟨a, st1, h1, h1'⟩ := hx st h
  obtain ⟨b, st2, h2, h2'⟩ := hf a st1 h1'
  refine ⟨b, st2, ?_, h2'⟩
  show (x st >>= fun p => f p.1 p.2) = _
  rw [h1]; exact h2

theorem total_mem_snoc {S : Nat → Prop} {ops : List Op} {o : Op} (h : ∀ o' ∈ ops, total_TgtOk S o') (ho : total_TgtOk S o) :
    ∀ o' ∈ ops ++ [o], total_TgtOk S o' := by
  intro o' hm
  rcases List.mem_append.1 hm with hm | hm
  · exact h _ hm
  · rw [List.mem_singleton.1 hm]; exact ho

theorem total_good_ins (o : Op) (h : total_TgtOk S o) : total_Good S (ins o) :=
  fun _ hs => ⟨_, _, rfl, total_mem_snoc hs h⟩

theorem total_good_emit (o : Op) (h : total_TgtOk S o) : total_Good S (emit o) :=
  fun _ hs => ⟨_, _, rfl, total_mem_snoc hs h⟩

theorem total_good_useVar (v : Nat) : total_Good S (useVar v) := fun _ hs => ⟨_, _, rfl, hs⟩

theorem total_good_defVar (v : Nat) (a : Arg) : total_Good S (ClifAst.defVar v a) :=
  fun _ hs => ⟨_, _, rfl, total_mem_snoc hs (total_tgtOk_nil rfl)⟩

theorem total_good_reg (r : BitVec 8) (h : r.toNat < 11) : total_Good S (reg r) := by
  intro st hs
  refine ⟨r.toNat, st, ?_, hs⟩
  simp only [reg, h, if_true]; rfl

theorem total_good_ite (c : Prop) [Decidable c] (a b : B α) (ha : total_Good S a) (hb : total_Good S b) :
    total_Good S (if c then a else b) := by split <;> assumption

/-- `lift x >>= f` when `x` is a value -/
theorem total_good_lift_bind (x : Except Fail α) (a : α) (hx : x = .ok a) (f : α → B β) (hf : total_Good S (f a)) :
    total_Good S (lift x >>= f) := by
  subst hx
  intro st h
  obtain ⟨b, st2, h2, h2'⟩ := hf st h
  exact ⟨b, st2, h2, h2'⟩

end Closure

macro "total_tac" : tactic => `(tactic|
  repeat' (first
    | assumption
    | exact total_tgtOk_nil rfl
    | with_reducible apply total_good_pure
    | with_reducible apply total_good_ins
    | with_reducible apply total_good_emit
    | with_reducible apply total_good_useVar
    | with_reducible apply total_good_defVar
    | with_reducible apply total_good_reg
    | with_reducible apply total_good_ite
    | with_reducible refine total_good_bind _ _ ?_ (fun _ => ?_)))

section Helpers
variable {S : Nat → Prop} (i : Insn)

theorem total_good_insnImm64 : total_Good S (insnImm64 i) := by unfold insnImm64; total_tac
theorem total_good_insnImm32 : total_Good S (insnImm32 i) := by unfold insnImm32; total_tac
theorem total_good_insnDst (hd : i.dst.toNat < 11) : total_Good S (insnDst i) := by unfold insnDst; total_tac
theorem total_good_insnSrc (hs : i.src.toNat < 11) : total_Good S (insnSrc i) := by unfold insnSrc; total_tac


macro "total_tac1" : tactic => `(tactic|
  repeat' (first
    | assumption
    | exact total_tgtOk_nil rfl
    | with_reducible apply total_good_insnImm64
    | with_reducible apply total_good_insnImm32
    | with_reducible apply total_good_insnDst
    | with_reducible apply total_good_insnSrc
    | with_reducible apply total_good_pure
    | with_reducible apply total_good_ins
    | with_reducible apply total_good_emit
    | with_reducible apply total_good_useVar
    | with_reducible apply total_good_defVar
    | with_reducible apply total_good_reg
    | with_reducible apply total_good_ite
    | with_reducible refine total_good_bind _ _ ?_ (fun _ => ?_)))

theorem total_good_insnDst32 (hd : i.dst.toNat < 11) : total_Good S (insnDst32 i) := by unfold insnDst32; total_tac1
theorem total_good_insnSrc32 (hs : i.src.toNat < 11) : total_Good S (insnSrc32 i) := by unfold insnSrc32; total_tac1
theorem total_good_setDst (hd : i.dst.toNat < 11) (v : Arg) : total_Good S (setDst i v) := by unfold setDst; total_tac1
theorem total_good_setDst32 (hd : i.dst.toNat < 11) (v : Arg) : total_Good S (setDst32 i v) := by
  unfold setDst32
  refine total_good_bind _ _ ?_ (fun _ => total_good_setDst i hd _)
  total_tac1
theorem total_good_insertBoundsCheck (ty : Ty) (base : Arg) (off : BitVec 16) :
    total_Good S (insertBoundsCheck ty base off) := by unfold insertBoundsCheck; total_tac1
theorem total_good_regLoad (ty : Ty) (base : Arg) (off : BitVec 16) : total_Good S (regLoad ty base off) := by
  unfold regLoad
  refine total_good_bind _ _ (total_good_insertBoundsCheck ty base off) (fun _ => ?_)
  total_tac1
theorem total_good_regStore (ty : Ty) (base : Arg) (off : BitVec 16) (v : Arg) : total_Good S (regStore ty base off v) := by
  unfold regStore
  refine total_good_bind _ _ (total_good_insertBoundsCheck ty base off) (fun _ => ?_)
  total_tac1
theorem total_good_regAtomicAdd (ty : Ty) (base : Arg) (off : BitVec 16) (v : Arg) :
    total_Good S (regAtomicAdd ty base off v) := by
  unfold regAtomicAdd
  refine total_good_bind _ _ (total_good_insertBoundsCheck ty base off) (fun _ => ?_)
  total_tac1

end Helpers

macro "total_step" : tactic => `(tactic|
  first
    | assumption
    | exact total_tgtOk_nil rfl
    | with_reducible apply total_good_insnImm64
    | with_reducible apply total_good_insnImm32
    | with_reducible apply total_good_insnDst
    | with_reducible apply total_good_insnSrc
    | with_reducible apply total_good_insnDst32
    | with_reducible apply total_good_insnSrc32
    | with_reducible apply total_good_setDst
    | with_reducible apply total_good_setDst32
    | with_reducible apply total_good_regLoad
    | with_reducible apply total_good_regStore
    | with_reducible apply total_good_regAtomicAdd
    | with_reducible apply total_good_pure
    | with_reducible apply total_good_ins
    | with_reducible apply total_good_emit
    | with_reducible apply total_good_useVar
    | with_reducible apply total_good_defVar
    | with_reducible apply total_good_reg
    | with_reducible apply total_good_ite
    | with_reducible refine total_good_bind _ _ ?_ (fun _ => ?_))

macro "total_tac2" : tactic => `(tactic| repeat' total_step)

section Shapes
variable {S : Nat → Prop} (i : Insn) (hd : i.dst.toNat < 11) (hs : i.src.toNat < 11)
include hd
theorem total_good_alu32Imm (o : BinOp) : total_Good S (alu32Imm o i) := by unfold alu32Imm; total_tac2
theorem total_good_alu64Imm (o : BinOp) : total_Good S (alu64Imm o i) := by unfold alu64Imm; total_tac2
include hs
theorem total_good_alu32Reg (o : BinOp) : total_Good S (alu32Reg o i) := by unfold alu32Reg; total_tac2
theorem total_good_alu64Reg (o : BinOp) : total_Good S (alu64Reg o i) := by unfold alu64Reg; total_tac2
omit hd in
theorem total_good_ldAbsInd : total_Good S (ldAbsInd i) := by unfold ldAbsInd; dsimp only; total_tac2
theorem total_good_ldxReg : total_Good S (ldxReg i) := by unfold ldxReg; dsimp only; total_tac2
theorem total_good_stImmReg (b : Bool) : total_Good S (stImmReg b i) := by unfold stImmReg; dsimp only; total_tac2
theorem total_good_divReg (b : Bool) : total_Good S (divReg b i) := by unfold divReg; dsimp only; total_tac2
theorem total_good_mod32Reg : total_Good S (mod32Reg i) := by unfold mod32Reg; total_tac2
theorem total_good_mod64Reg : total_Good S (mod64Reg i) := by unfold mod64Reg; total_tac2
end Shapes

section Special
variable {S : Nat → Prop} (i : Insn)

theorem total_good_endian (hd : i.dst.toNat < 11) (he : i.imm = 16 ∨ i.imm = 32 ∨ i.imm = 64) :
    total_Good S (endian i) := by
  unfold endian
  dsimp only
  refine total_good_bind _ _ ?_ (fun ty => ?_)
  · rcases he with h | h | h
    · rw [if_pos h]; exact total_good_pure _
    · rw [if_neg (by rw [h]; decide), if_pos h]; exact total_good_pure _
    · rw [if_neg (by rw [h]; decide), if_neg (by rw [h]; decide), if_pos h]; exact total_good_pure _
  · total_tac2

theorem total_good_condJump (pc : Nat) (hd : i.dst.toNat < 11) (hs : i.src.toNat < 11)
    (hcj : isCondJump i.opc.toNat = true) (t : Nat) (ht : targetPc pc i = .ok t) (hSt : S t) (hSf : S (pc + 1)) :
    total_Good S (condJump pc i) := by
  unfold condJump
  dsimp only
  refine total_good_lift_bind _ t ht _ ?_
  have hemit : ∀ c, total_Good S (emit (.brif c t (pc + 1))) := by
    intro c
    apply total_good_emit
    intro t' ht'
    simp only [branchTargets, List.mem_cons, List.not_mem_nil, or_false] at ht'
    rcases ht' with rfl | rfl <;> assumption
  repeat' (first
    | exact hemit _
    | total_step
    | split
    | (exfalso; simp_all [isCondJump]; done))

theorem total_callArm_err (helpers : Nat → Bool) (h : i.src ≠ 0 ∨ helpers i.imm.toNat = false) (st : BState) :
    callArm helpers i st = .error .err := by
  unfold callArm
  split
  · rfl
  · split
    · rfl
    · exfalso
      rename_i h1 h2
      rcases h with h | h
      · exact h1 h
      · rw [h] at h2; exact h2 rfl

theorem total_good_callArm (helpers : Nat → Bool) (h0 : i.src = 0) (hh : helpers i.imm.toNat = true) :
    total_Good S (callArm helpers i) := by
  unfold callArm
  simp only [h0, hh, ne_eq, not_true_eq_false, if_false, Bool.not_true, Bool.false_eq_true]
  total_tac2

end Special

/-! ## 2. one arm of `translate_program` on an instruction the verifier accepts -/

macro "total_tac3" : tactic => `(tactic|
  repeat' (first
    | with_reducible apply total_good_alu32Imm
    | with_reducible apply total_good_alu32Reg
    | with_reducible apply total_good_alu64Imm
    | with_reducible apply total_good_alu64Reg
    | with_reducible apply total_good_ldAbsInd
    | with_reducible apply total_good_ldxReg
    | with_reducible apply total_good_stImmReg
    | with_reducible apply total_good_divReg
    | with_reducible apply total_good_mod32Reg
    | with_reducible apply total_good_mod64Reg
    | total_step))

/-- the opcodes with an arm of their own in `armB`, `TAIL_CALL` excepted -/
def total_lits : List Nat :=
  [0x30, 0x28, 0x20, 0x38, 0x50, 0x48, 0x40, 0x58, 0x18, 0x71, 0x69, 0x61, 0x79, 0x72, 0x6a, 0x62, 0x7a, 0x73, 0x6b, 0x63,
   0x7b, 0xc3, 0xdb, 0x04, 0x0c, 0x14, 0x1c, 0x24, 0x2c, 0x34, 0x3c, 0x44, 0x4c, 0x54, 0x5c, 0x64, 0x6c, 0x74, 0x7c, 0x84,
   0x94, 0x9c, 0xa4, 0xac, 0xb4, 0xbc, 0xc4, 0xcc, 0xdc, 0xd4, 0x07, 0x0f, 0x17, 0x1f, 0x27, 0x2f, 0x37, 0x3f, 0x97, 0x9f,
   0x47, 0x4f, 0x57, 0x5f, 0x67, 0x6f, 0x77, 0x7f, 0x87, 0xa7, 0xaf, 0xb7, 0xbf, 0xc7, 0xcf, 0x05, 0x85, 0x95]

/-- the verifier's opcode table against the translator's: a known opcode that is not the tail call is a conditional
    jump or has an arm of its own -/
theorem total_known_lit : ∀ o : BitVec 8, Verifier.arm o.toNat ≠ .unknown → Verifier.arm o.toNat ≠ .tailCall →
    isCondJump o.toNat = false → o.toNat ∈ total_lits := by
  apply forall_bv8
  decide +kernel

theorem total_condJump_arm : ∀ o : BitVec 8, isCondJump o.toNat = true → Verifier.arm o.toNat = .jump := by
  apply forall_bv8
  decide +kernel

set_option maxRecDepth 4000 in
theorem total_good_armB {S : Nat → Prop} (helpers : Nat → Bool) (p : Bytes) (pc : Nat) (i : Insn)
    (hk : Verifier.arm i.opc.toNat ≠ .unknown) (ht : Verifier.arm i.opc.toNat ≠ .tailCall) (hne : i.opc.toNat ≠ 0x85)
    (hd : i.dst.toNat < 11) (hs : i.src.toNat < 11)
    (he : i.opc.toNat = 0xd4 ∨ i.opc.toNat = 0xdc → i.imm = 16 ∨ i.imm = 32 ∨ i.imm = 64)
    (hl : i.opc.toNat = 0x18 → ∃ y, getInsn? p (pc + 1) = some y)
    (hj : Verifier.arm i.opc.toNat = .jump → ∃ t, targetPc pc i = .ok t ∧ S t)
    (hf : isCondJump i.opc.toNat = true → S (pc + 1)) : total_Good S (armB helpers p pc i) := by
  unfold armB
  split
  all_goals first
    | (total_tac3; done)
    | (dsimp only; total_tac3; done)
    | (rename_i heq; exact total_good_endian i hd (he (Or.inl heq)))
    | (rename_i heq; exact total_good_endian i hd (he (Or.inr heq)))
    | (rename_i heq
       obtain ⟨y, hy⟩ := hl heq
       rw [hy]
       dsimp only
       total_tac3
       done)
    | (rename_i heq; exact absurd heq hne)
    | (rename_i heq; rw [heq] at ht; exact absurd rfl ht)
    | (rename_i heq
       obtain ⟨t, ht', hS⟩ := hj (by rw [heq]; rfl)
       refine total_good_lift_bind _ t ht' _ ?_
       apply total_good_emit
       intro t' h'
       simp only [branchTargets, List.mem_singleton] at h'
       subst h'
       exact hS)
    | (by_cases hcj : isCondJump i.opc.toNat = true
       · rw [if_pos hcj]
         obtain ⟨t, ht', hS⟩ := hj (total_condJump_arm _ hcj)
         exact total_good_condJump i pc hd hs hcj t ht' hS (hf hcj)
       · exfalso
         have hm := total_known_lit i.opc hk ht (by simpa using hcj)
         simp only [total_lits, List.mem_cons, List.not_mem_nil, or_false] at hm
         repeat (first
           | exact absurd hm (by assumption)
           | (rcases hm with h | hm
              · exact absurd h (by assumption))))

/-! ## 3. lists: `mapM` and `foldlM` in `Except Fail` -/

inductive total_All₂ {α β : Type} (R : α → β → Prop) : List α → List β → Prop
  | nil : total_All₂ R [] []
  | cons {a b l l'} : R a b → total_All₂ R l l' → total_All₂ R (a :: l) (b :: l')

section Lists
variable {α β γ : Type}

theorem total_all₂_mem {R : α → β → Prop} {l : List α} {l' : List β} (h : total_All₂ R l l') :
    ∀ b ∈ l', ∃ a ∈ l, R a b := by
  induction h with
  | nil => intro b hb; cases hb
  | cons hr _ ih =>
    intro b hb
    rcases List.mem_cons.1 hb with rfl | hb
    · exact ⟨_, List.mem_cons_self, hr⟩
    · obtain ⟨a, ha, hab⟩ := ih b hb
      exact ⟨a, List.mem_cons_of_mem _ ha, hab⟩

theorem total_all₂_map {R : α → β → Prop} {l : List α} {l' : List β} (h : total_All₂ R l l') (g : β → γ) (k : α → γ)
    (hgk : ∀ a b, R a b → g b = k a) : l'.map g = l.map k := by
  induction h with
  | nil => rfl
  | cons hr _ ih => simp only [List.map_cons, hgk _ _ hr, ih]

theorem total_all₂_getLast {R : α → β → Prop} {l : List α} {l' : List β} (h : total_All₂ R l l') (a : α)
    (ha : l.getLast? = some a) : ∃ b, l'.getLast? = some b ∧ R a b := by
  induction h with
  | nil => cases ha
  | cons hr ht ih =>
    cases ht with
    | nil =>
      simp only [List.getLast?_singleton, Option.some.injEq] at ha
      subst ha
      exact ⟨_, rfl, hr⟩
    | cons hr' ht' =>
      rw [List.getLast?_cons_cons] at ha ⊢
      exact ih ha

theorem total_mapM_ok (f : α → Except Fail β) : ∀ (l : List α) (tr : List β), l.mapM f = .ok tr →
    total_All₂ (fun a b => f a = .ok b) l tr := by
  intro l
  induction l with
  | nil => intro tr h; cases h; exact .nil
  | cons a l ih =>
    intro tr h
    rw [List.mapM_cons] at h
    cases ha : f a with
    | error e => rw [ha] at h; cases h
    | ok b =>
      rw [ha] at h
      cases hl : List.mapM f l with
      | error e => rw [hl] at h; cases h
      | ok tr' =>
        rw [hl] at h
        cases h
        exact .cons ha (ih tr' hl)

/-- `mapM` in `Except Fail`: no panic if no element panics; then it is an error iff some element is -/
theorem total_mapM_spec (f : α → Except Fail β) : ∀ l : List α, (∀ a ∈ l, f a ≠ .error .panic) →
    l.mapM f ≠ .error .panic ∧ (l.mapM f = .error .err ↔ ∃ a ∈ l, f a = .error .err) := by
  intro l
  induction l with
  | nil => intro _; exact ⟨fun h => (by cases h), ⟨fun h => (by cases h), fun ⟨a, ha, _⟩ => (by cases ha)⟩⟩
  | cons a l ih =>
    intro h
    obtain ⟨ih1, ih2⟩ := ih (fun x hx => h x (List.mem_cons_of_mem _ hx))
    have ha := h a List.mem_cons_self
    rw [List.mapM_cons]
    cases hfa : f a with
    | error e =>
      cases e with
      | panic => exact absurd hfa ha
      | err =>
        refine ⟨fun h => (by cases h), ⟨fun _ => ⟨a, List.mem_cons_self, hfa⟩, fun _ => rfl⟩⟩
    | ok b =>
      cases hl : List.mapM f l with
      | error e =>
        cases e with
        | panic => exact absurd hl ih1
        | err =>
          refine ⟨fun h => (by cases h), ⟨fun _ => ?_, fun _ => rfl⟩⟩
          obtain ⟨x, hx, hfx⟩ := ih2.1 hl
          exact ⟨x, List.mem_cons_of_mem _ hx, hfx⟩
      | ok tr' =>
        refine ⟨fun h => (by cases h), ⟨fun h => (by cases h), fun ⟨x, hx, hfx⟩ => ?_⟩⟩
        rcases List.mem_cons.1 hx with rfl | hx
        · rw [hfa] at hfx; cases hfx
        · have := ih2.2 ⟨x, hx, hfx⟩
          rw [hl] at this; cases this

theorem total_foldlM_ok (f : β → α → Except Fail β) : ∀ (l : List α), (∀ a ∈ l, ∀ b, ∃ r, f b a = .ok r) →
    ∀ b, ∃ r, l.foldlM f b = .ok r := by
  intro l
  induction l with
  | nil => intro _ b; exact ⟨b, rfl⟩
  | cons a l ih =>
    intro h b
    obtain ⟨r, hr⟩ := h a List.mem_cons_self b
    rw [List.foldlM_cons, hr]
    exact ih (fun x hx => h x (List.mem_cons_of_mem _ hx)) r

end Lists

/-! ## 4. the sweep and `build_cfg` on an accepted program -/

section Program
open Rbpf.Verifier (arm)

theorem total_sweep_ok (p : Bytes) (h8 : p.size % 8 = 0) : ∀ fuel s : Nat,
    ClifAst.sweep p fuel s = .ok (EngineSem.sweep p fuel s) := by
  intro fuel
  induction fuel with
  | zero => intro s; rfl
  | succ fuel ih =>
    intro s
    rw [ClifAst.sweep, EngineSem.sweep]
    by_cases hs : s * 8 < p.size
    · rw [if_pos hs, if_pos hs]
      obtain ⟨i, hi⟩ := getInsn?_isSome_iff.2 (show (s + 1) * 8 ≤ p.size by omega)
      rw [hi]
      simp only
      rw [ih]
      rfl
    · rw [if_neg hs, if_neg hs]

theorem total_insns_ok {p : Bytes} (hv : Verifier.check p = .ok) : ClifAst.insns p = .ok (EngineSem.insns p) :=
  total_sweep_ok p (check_ok_len hv).1 _ _

theorem total_isJump_arm : ∀ o : BitVec 8, ClifAst.isJump o.toNat = true → arm o.toNat = .jump := by
  apply forall_bv8
  decide +kernel

/-- the target of a jump of an accepted program: `try_into::<u32>().unwrap()` succeeds, and it is an instruction start -/
theorem total_targetPc {p : Bytes} (hv : Verifier.check p = .ok) {pc : Nat} {i : Insn} (hs : pc ∈ starts p)
    (hx : getInsn? p pc = some i) (hj : arm i.opc.toNat = .jump) : ∃ t, targetPc pc i = .ok t ∧ t ∈ starts p := by
  obtain ⟨h0, hm⟩ := (insnFacts_of_check hv hs hx).jump hj
  have h1 := starts_lt_slots hm
  have h2 := (check_ok_len hv).2.2
  have heq : (pc : Int) + i.off.toInt + 1 = (pc : Int) + 1 + i.off.toInt := by omega
  refine ⟨((pc : Int) + 1 + i.off.toInt).toNat, ?_, hm⟩
  unfold targetPc
  simp only [heq]
  rw [if_pos ⟨h0, by omega⟩]

theorem total_cfgStep_ok {p : Bytes} (hv : Verifier.check p = .ok) {e : Nat × Insn} (he : e ∈ EngineSem.insns p)
    (acc : List Nat) : ∃ r, cfgStep acc e = .ok r := by
  obtain ⟨pc, i⟩ := e
  obtain ⟨hs, hx⟩ := mem_insns he
  unfold cfgStep
  simp only
  split
  · rename_i hj
    obtain ⟨t, ht, -⟩ := total_targetPc hv hs hx (total_isJump_arm _ hj)
    rw [ht]
    exact ⟨_, rfl⟩
  · split <;> exact ⟨_, rfl⟩

theorem total_blockStarts_ok {p : Bytes} (hv : Verifier.check p = .ok) : ∃ blocks, blockStartsR p = .ok blocks := by
  obtain ⟨r, hr⟩ := total_foldlM_ok cfgStep (EngineSem.insns p) (fun e he b => total_cfgStep_ok hv he b) []
  refine ⟨insertPc 0 r, ?_⟩
  unfold blockStartsR buildCfg
  rw [total_insns_ok hv]
  show Except.map (insertPc 0) (List.foldlM cfgStep [] (EngineSem.insns p)) = _
  rw [hr]
  rfl

/-! ## 5. one iteration of `translate_program` -/

/-- the two `Err` exits of the `CALL` arm: an eBPF-to-eBPF call, a helper id that is not registered -/
def total_Bad (helpers : Nat → Bool) (e : Nat × Insn) : Prop :=
  e.2.opc = 0x85 ∧ (e.2.src ≠ 0 ∨ helpers e.2.imm.toNat = false)

instance (helpers : Nat → Bool) (e : Nat × Insn) : Decidable (total_Bad helpers e) := by
  unfold total_Bad; infer_instance

theorem total_armB_call (helpers : Nat → Bool) (p : Bytes) (pc : Nat) (i : Insn) (h : i.opc.toNat = 0x85) :
    armB helpers p pc i = callArm helpers i := by
  unfold armB
  split
  all_goals first
    | rfl
    | (rename_i heq; omega)
    | exact absurd h (by assumption)

theorem total_armR_of_good {S : Nat → Prop} {helpers : Nat → Bool} {p : Bytes} {pc : Nat} {i : Insn}
    (h : total_Good S (armB helpers p pc i)) : ∃ ops, armR helpers p pc i = .ok ops ∧ ∀ o ∈ ops, total_TgtOk S o := by
  obtain ⟨a, st', h1, h2⟩ := h {} (fun o ho => by cases ho)
  refine ⟨st'.ops, ?_, h2⟩
  show Except.map _ (armB helpers p pc i {}) = _
  rw [h1]
  rfl

theorem total_armR_spec {p : Bytes} (helpers : Nat → Bool) (hv : Verifier.check p = .ok) {e : Nat × Insn}
    (he : e ∈ EngineSem.insns p) :
    (total_Bad helpers e → armR helpers p e.1 e.2 = .error .err) ∧
    (¬ total_Bad helpers e → ∃ ops, armR helpers p e.1 e.2 = .ok ops ∧ ∀ o ∈ ops, total_TgtOk (· ∈ starts p) o) := by
  obtain ⟨pc, i⟩ := e
  obtain ⟨hs, hx⟩ := mem_insns he
  have hF := insnFacts_of_check hv hs hx
  simp only at hs hx hF ⊢
  have hsrc : i.src.toNat < 11 := by have := hF.src; omega
  have hdst : i.dst.toNat < 11 := by have := hF.dst; omega
  by_cases h85 : i.opc.toNat = 0x85
  · have h85' : i.opc = 0x85 := BitVec.eq_of_toNat_eq (by rw [h85]; rfl)
    constructor
    · intro hb
      show Except.map _ (armB helpers p pc i {}) = _
      rw [total_armB_call helpers p pc i h85, total_callArm_err i helpers hb.2]
      rfl
    · intro hnb
      apply total_armR_of_good
      rw [total_armB_call helpers p pc i h85]
      have h0 : i.src = 0 := Decidable.byContradiction fun h => hnb ⟨h85', Or.inl h⟩
      have hh : helpers i.imm.toNat = true := by
        cases hc : helpers i.imm.toNat with
        | true => rfl
        | false => exact absurd ⟨h85', Or.inr hc⟩ hnb
      exact total_good_callArm i helpers h0 hh
  · constructor
    · intro hb
      exact absurd (by rw [hb.1]; rfl) h85
    · intro _
      apply total_armR_of_good
      refine total_good_armB helpers p pc i hF.known (not_tailCall_of_check hv hs hx) h85 hdst hsrc hF.endian
        (fun h => (hF.lddw h).1) (fun hj => total_targetPc hv hs hx hj) (fun hcj => ?_)
      refine hF.next ?_ ?_ ?_ <;> (intro h; rw [h] at hcj; exact absurd hcj (by decide))

theorem total_armR_exit (helpers : Nat → Bool) (p : Bytes) (pc : Nat) (i : Insn) (h : i.opc = 0x95) :
    armR helpers p pc i = .ok [.ret (.var 0)] := by
  obtain ⟨opc, dst, src, off, imm⟩ := i
  simp only at h
  subst h
  rfl

theorem total_armR_ja (helpers : Nat → Bool) (p : Bytes) (pc : Nat) (i : Insn) (h : i.opc = 0x05) :
    armR helpers p pc i = (targetPc pc i).map (fun t => [.jump t]) := by
  obtain ⟨opc, dst, src, off, imm⟩ := i
  simp only at h
  subst h
  have : armB helpers p pc ⟨0x05, dst, src, off, imm⟩ =
      (lift (targetPc pc ⟨0x05, dst, src, off, imm⟩) >>= fun t => emit (.jump t)) := rfl
  unfold armR B.run'
  rw [this]
  generalize targetPc pc ⟨0x05, dst, src, off, imm⟩ = x
  cases x <;> rfl

theorem total_step_fst {helpers : Nat → Bool} {p : Bytes} {blocks : List Nat} {e : Nat × Insn} {b : Nat × List Op}
    (h : translateStep helpers p blocks e = .ok b) : b.1 = e.1 := by
  obtain ⟨pc, i⟩ := e
  simp only [translateStep] at h
  cases harm : armR helpers p pc i with
  | error x => rw [harm] at h; cases h
  | ok ops => rw [harm] at h; cases h; rfl

/-- one iteration of the loop of `translate_program` at an instruction start of an accepted program -/
theorem total_step_spec {p : Bytes} (helpers : Nat → Bool) (hv : Verifier.check p = .ok) (blocks : List Nat)
    {e : Nat × Insn} (he : e ∈ EngineSem.insns p) :
    (total_Bad helpers e → translateStep helpers p blocks e = .error .err) ∧
    (¬ total_Bad helpers e → ∃ ops, translateStep helpers p blocks e = .ok (e.1, ops) ∧
      (∀ o ∈ ops, total_TgtOk (· ∈ starts p) o) ∧
      ((e.2.opc = 0x95 ∨ e.2.opc = 0x05) → ∃ o, ops.getLast? = some o ∧ o.isTerminator = true)) := by
  obtain ⟨h1, h2⟩ := total_armR_spec helpers hv he
  obtain ⟨pc, i⟩ := e
  obtain ⟨hs, hx⟩ := mem_insns he
  simp only at h1 h2 hs hx ⊢
  constructor
  · intro hb
    simp only [translateStep, h1 hb]
    rfl
  · intro hnb
    obtain ⟨ops, harm, hops⟩ := h2 hnb
    by_cases hfall : ((pc + (if i.opc = 0x18 then 2 else 1)) * 8 < p.size && blocks.contains (pc + (if i.opc = 0x18 then 2 else 1)) &&
        !fillsBlock i.opc.toNat) = true
    · refine ⟨ops ++ [.jump (pc + (if i.opc = 0x18 then 2 else 1))], ?_, ?_, fun _ => ⟨_, List.getLast?_concat, rfl⟩⟩
      · simp only [translateStep, harm, hfall]
        rfl
      · apply total_mem_snoc hops
        intro t ht
        simp only [branchTargets, List.mem_singleton] at ht
        subst ht
        have hlt : (pc + (if i.opc = 0x18 then 2 else 1)) * 8 < p.size := by
          simp only [Bool.and_eq_true, decide_eq_true_eq] at hfall
          exact hfall.1.1
        rcases next_start hv pc hs i hx with h | h
        · exact h
        · have := (check_ok_len hv).1
          omega
    · refine ⟨ops, ?_, hops, fun hop => ?_⟩
      · simp only [translateStep, harm, hfall]
        rfl
      · rcases hop with hop | hop
        · rw [total_armR_exit helpers p pc i hop] at harm
          cases harm
          exact ⟨_, rfl, rfl⟩
        · rw [total_armR_ja helpers p pc i hop] at harm
          cases ht : targetPc pc i with
          | error e => rw [ht] at harm; cases harm
          | ok t =>
            rw [ht] at harm
            cases harm
            exact ⟨_, rfl, rfl⟩

/-! ## 6. the whole translation -/

theorem total_translateR_eq {p : Bytes} (helpers : Nat → Bool) (hv : Verifier.check p = .ok) :
    ∃ blocks, translateR helpers p = (EngineSem.insns p).mapM (translateStep helpers p blocks) := by
  obtain ⟨blocks, hb⟩ := total_blockStarts_ok hv
  refine ⟨blocks, ?_⟩
  unfold translateR
  rw [hb, total_insns_ok hv]
  rfl

theorem total_step_ne_panic {p : Bytes} (helpers : Nat → Bool) (hv : Verifier.check p = .ok) (blocks : List Nat)
    {e : Nat × Insn} (he : e ∈ EngineSem.insns p) : translateStep helpers p blocks e ≠ .error .panic := by
  obtain ⟨h1, h2⟩ := total_step_spec helpers hv blocks he
  by_cases hb : total_Bad helpers e
  · rw [h1 hb]; intro h; cases h
  · obtain ⟨ops, h, -⟩ := h2 hb
    rw [h]; intro h; cases h

theorem total_step_err_iff {p : Bytes} (helpers : Nat → Bool) (hv : Verifier.check p = .ok) (blocks : List Nat)
    {e : Nat × Insn} (he : e ∈ EngineSem.insns p) :
    translateStep helpers p blocks e = .error .err ↔ total_Bad helpers e := by
  obtain ⟨h1, h2⟩ := total_step_spec helpers hv blocks he
  refine ⟨fun h => Decidable.byContradiction fun hb => ?_, h1⟩
  obtain ⟨ops, h', -⟩ := h2 hb
  rw [h'] at h; cases h

/-- C12 at IR level: translating a program the verifier accepts never panics — no register index out of the array,
    no missing second slot of a wide load, no byte-swap width other than 16/32/64, no tail call or unknown opcode, every
    jump target converts to `u32` -/
theorem clif_translate_total (p : Bytes) (helpers : Nat → Bool) (hv : Verifier.check p = .ok) :
    ClifAst.translateR helpers p ≠ .error .panic := by
  obtain ⟨blocks, hb⟩ := total_translateR_eq helpers hv
  rw [hb]
  exact (total_mapM_spec _ _ (fun e he => total_step_ne_panic helpers hv blocks he)).1

/-- the error value is returned exactly for a call that is not a helper call (`src ≠ 0`) or whose helper id is not
    registered -/
theorem clif_translate_err_iff (p : Bytes) (helpers : Nat → Bool) (hv : Verifier.check p = .ok) :
    ClifAst.translateR helpers p = .error .err ↔
      ∃ e ∈ EngineSem.insns p, e.2.opc = 0x85 ∧ (e.2.src ≠ 0 ∨ helpers e.2.imm.toNat = false) := by
  obtain ⟨blocks, hb⟩ := total_translateR_eq helpers hv
  rw [hb, (total_mapM_spec _ _ (fun e he => total_step_ne_panic helpers hv blocks he)).2]
  constructor
  · rintro ⟨e, he, h⟩
    exact ⟨e, he, (total_step_err_iff helpers hv blocks he).1 h⟩
  · rintro ⟨e, he, h⟩
    exact ⟨e, he, (total_step_err_iff helpers hv blocks he).2 h⟩

/-! ## 7. what Cranelift's `define_function` insists on -/

theorem total_prelude_targets : ∀ o ∈ prelude, ∀ t ∈ branchTargets o, t = 0 := by
  have h : prelude =
      [ .stackAddr 512, .defVar 10 (.loc 0), .stackAddr 0, .defVar 15 (.loc 1), .stackAddr 512, .defVar 16 (.loc 2),
        .bin .iadd (.param 0) (.param 1), .defVar 11 (.param 0), .defVar 12 (.loc 3),
        .bin .iadd (.param 2) (.param 3), .defVar 13 (.param 2), .defVar 14 (.loc 4),
        .icmpImm .ne (.param 3) 0, .select (.loc 5) (.param 2) (.param 0), .defVar 1 (.loc 6),
        .select (.loc 5) (.param 3) (.param 1), .defVar 2 (.loc 7), .jump 0 ] := rfl
  rw [h]
  simp [branchTargets]

/-- every block that is entered or referenced ends in a terminator: the last instruction of an accepted program is
    `exit` or `ja`, and every branch — of the prelude, of a jump arm, or closing a block before the next instruction's —
    goes to an instruction start -/
theorem clif_blocks_filled (p : Bytes) (helpers : Nat → Bool) (hv : Verifier.check p = .ok)
    (tr : List (Nat × List Op)) (h : ClifAst.translateR helpers p = .ok tr) : ClifAst.blocksFilled tr = true := by
  obtain ⟨blocks, hb⟩ := total_translateR_eq helpers hv
  rw [hb] at h
  have hall := total_mapM_ok _ _ _ h
  obtain ⟨h8, h0, -⟩ := check_ok_len hv
  -- the keys of the translation are the instruction starts
  have hkeys : tr.map (·.1) = starts p := by
    rw [← insns_map_fst]
    exact total_all₂_map hall _ _ (fun a b hab => total_step_fst hab)
  -- what an entry of the translation is
  have hentry : ∀ a ∈ EngineSem.insns p, ∀ b, translateStep helpers p blocks a = .ok b →
      (∀ o ∈ b.2, total_TgtOk (· ∈ starts p) o) ∧
      ((a.2.opc = 0x95 ∨ a.2.opc = 0x05) → ∃ o, b.2.getLast? = some o ∧ o.isTerminator = true) := by
    intro a ha b hstep
    obtain ⟨s1, s2⟩ := total_step_spec helpers hv blocks ha
    have hnb : ¬ total_Bad helpers a := fun hbad => by rw [s1 hbad] at hstep; cases hstep
    obtain ⟨ops, hs', h1, h2⟩ := s2 hnb
    rw [hs'] at hstep
    cases hstep
    exact ⟨h1, h2⟩
  -- the last instruction
  obtain ⟨-, x, hx, hop⟩ := check_ok_last hv
  have hne : x.opc ≠ 0 := by rcases hop with h | h <;> rw [h] <;> decide
  have hl := getLast?_starts h8 h0 (check_ok_basic hv) (check_ok_loop hv).2 ⟨x, hx, hne⟩
  rw [← insns_map_fst, List.getLast?_map] at hl
  cases hg : (EngineSem.insns p).getLast? with
  | none => rw [hg] at hl; cases hl
  | some e =>
    rw [hg] at hl
    obtain ⟨q, i⟩ := e
    simp only [Option.map_some, Option.some.injEq] at hl
    have hmem := List.mem_of_getLast? hg
    have hqi := (mem_insns hmem).2
    simp only at hqi
    rw [hl, hx] at hqi
    cases hqi
    obtain ⟨b, hbl, hstep⟩ := total_all₂_getLast hall _ hg
    obtain ⟨o, ho, hot⟩ := (hentry _ hmem b hstep).2 hop
    unfold blocksFilled
    obtain ⟨bpc, bops⟩ := b
    simp only at ho
    simp only [hbl, ho, hot, Bool.true_and]
    apply List.all_eq_true.2
    intro o' ho'
    apply List.all_eq_true.2
    intro t ht
    rw [List.contains_iff_mem, hkeys]
    rcases List.mem_append.1 ho' with ho' | ho'
    · rw [total_prelude_targets o' ho' t ht]
      exact starts_ne_nil (by omega)
    · obtain ⟨b', hb', hob'⟩ := List.mem_flatMap.1 ho'
      obtain ⟨a', ha', hstep'⟩ := total_all₂_mem hall b' hb'
      exact (hentry a' ha' b' hstep').1 o' hob' t ht

/-- hence the whole of `compile_function` up to and including `define_function` does not panic -/
theorem clif_compile_total (p : Bytes) (helpers : Nat → Bool) (hv : Verifier.check p = .ok) :
    ClifAst.compileR helpers p ≠ .error .panic := by
  unfold compileR
  cases h : translateR helpers p with
  | error e =>
    cases e with
    | panic => exact absurd h (clif_translate_total p helpers hv)
    | err => intro h'; cases h'
  | ok tr =>
    show (if blocksFilled tr = true then pure tr else throw Fail.panic : Except Fail _) ≠ _
    rw [if_pos (clif_blocks_filled p helpers hv tr h)]
    intro h'; cases h'

/-- and its error value is that of the translation -/
theorem clif_compile_err_iff (p : Bytes) (helpers : Nat → Bool) (hv : Verifier.check p = .ok) :
    ClifAst.compileR helpers p = .error .err ↔
      ∃ e ∈ EngineSem.insns p, e.2.opc = 0x85 ∧ (e.2.src ≠ 0 ∨ helpers e.2.imm.toNat = false) := by
  rw [← clif_translate_err_iff p helpers hv]
  unfold compileR
  cases h : translateR helpers p with
  | error e => exact Iff.rfl
  | ok tr =>
    show (if blocksFilled tr = true then pure tr else throw Fail.panic : Except Fail _) = _ ↔ _
    rw [if_pos (clif_blocks_filled p helpers hv tr h)]
    exact ⟨fun h' => (by cases h'), fun h' => (by cases h')⟩

/-! ## 8. agreement with the older compile-time models -/

/-- the bookkeeping model of C12 (`ClifCompile.compile`) and the IR-level model fail with an error value on the same
    accepted programs, and neither panics -/
theorem clif_compile_agrees (p : Bytes) (helpers : Nat → Bool) (hv : Verifier.check p = .ok) :
    (ClifAst.compileR helpers p = .error .err ↔ ClifCompile.compile p helpers = .err) ∧
    (ClifAst.translateR helpers p = .error .err ↔ ClifCompile.compile p helpers = .err) := by
  have h := (ClifCompile.compile_spec helpers hv).2
  exact ⟨by rw [clif_compile_err_iff p helpers hv, h], by rw [clif_translate_err_iff p helpers hv, h]⟩

/-- … and so does the compile-time outcome of the register-transfer semantics (`EngineSem.clifCompile`) -/
theorem clif_translate_err_iff_clifCompile (env : Env) (hv : Verifier.check env.prog = .ok) :
    ClifAst.translateR (helperSet env) env.prog = .error .err ↔ EngineSem.clifCompile env = .err := by
  rw [clif_translate_err_iff env.prog (helperSet env) hv]
  constructor
  · rintro ⟨e, he, hop, hbad⟩
    refine compile_ne_ok (clifCompile_cases env) (fun hok => ?_)
    obtain ⟨h0, hh⟩ := (clifCompile_ok_iff env).1 hok e he hop
    rcases hbad with hbad | hbad
    · exact hbad h0
    · simp only [helperSet] at hbad
      rw [hh] at hbad
      cases hbad
  · intro herr
    refine Classical.byContradiction fun hne => ?_
    have hok : EngineSem.clifCompile env = .ok := by
      rw [clifCompile_ok_iff]
      intro e he hop
      by_cases h0 : e.2.src = 0
      · refine ⟨h0, ?_⟩
        cases hh : (env.helpers e.2.imm.toNat).isSome with
        | true => rfl
        | false => exact absurd ⟨e, he, hop, Or.inr hh⟩ hne
      · exact absurd ⟨e, he, hop, Or.inl h0⟩ hne
    rw [hok] at herr
    cases herr

end Program

/-! ## non-vacuity -/
namespace TotalEx

/-- `lddw r1, 0; jeq r1, 0, +1; div r0, r1; call 7; call local +1; exit; exit` (the program of `Props/C12.lean`) -/
def prog : Bytes :=
  #[0x18,1,0,0,0,0,0,0, 0,0,0,0,0,0,0,0, 0x15,1,1,0,0,0,0,0, 0x3f,0x10,0,0,0,0,0,0,
    0x85,0,0,0,7,0,0,0, 0x85,0x10,0,0,1,0,0,0, 0x95,0,0,0,0,0,0,0, 0x95,0,0,0,0,0,0,0]

/-- the same without the local call -/
def prog' : Bytes :=
  #[0x18,1,0,0,0,0,0,0, 0,0,0,0,0,0,0,0, 0x15,1,1,0,0,0,0,0, 0x3f,0x10,0,0,0,0,0,0,
    0x85,0,0,0,7,0,0,0, 0x95,0,0,0,0,0,0,0]

example : Verifier.check prog = .ok := by decide +kernel
example : Verifier.check prog' = .ok := by decide +kernel
-- accepted, with a local call: the error value; without it and with helper 7 registered: a function Cranelift accepts;
-- helper 7 not registered: the error value again
example : (compileR (fun k => k == 7) prog matches .error .err) = true := by decide +kernel
example : (compileR (fun k => k == 7) prog').toBool = true := by decide +kernel
example : (compileR (fun _ => false) prog' matches .error .err) = true := by decide +kernel
-- the hypothesis matters: register 11; a wide load in the last slot; a jump past the end; a jump into a wide load
-- (translated, but refused by `define_function`)
example : (translateR (fun _ => false) (#[0xb7,0x0b,0,0,0,0,0,0, 0x95,0,0,0,0,0,0,0] : Bytes) matches .error .panic) = true := by
  decide +kernel
example : (translateR (fun _ => false) (#[0x18,0,0,0,0,0,0,0] : Bytes) matches .error .panic) = true := by decide +kernel
example : (compileR (fun _ => false) (#[0x05,0,5,0,0,0,0,0, 0x95,0,0,0,0,0,0,0] : Bytes) matches .error .panic) = true := by
  decide +kernel
example : (translateR (fun _ => false) (#[0x05,0,1,0,0,0,0,0, 0x18,0,0,0,7,0,0,0, 0x95,0,0,0,0,0,0,0] : Bytes)).toBool = true ∧
    (compileR (fun _ => false) (#[0x05,0,1,0,0,0,0,0, 0x18,0,0,0,7,0,0,0, 0x95,0,0,0,0,0,0,0] : Bytes)
      matches .error .panic) = true := by decide +kernel

end TotalEx

end Rbpf.ClifSim
