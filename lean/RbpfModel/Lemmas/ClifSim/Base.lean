/-
  Shared base of the Cranelift-IR simulation proofs (`ArmSim i` for every opcode class).  Method: `Example.lean`.

  1. `runOps`: `runOps_cons_ok/_error`, `execOps` (the straight-line part, keeps the local list), `runOps_append`,
     `runOps_append_error`, `runOps_eq_execOps`, `runOps_append_defVar`; per `Op` constructor `step_<op>` and
     `runOps_<op>` (operands given by `arg … = some …`).
  2. operands under `RelC`: `arg_loc`, `arg_var`, `arg_var_reg`, `arg_var_memStart` (`'`: under `MemOk`) … `arg_var_stackEnd`,
     `arg_append`, `arg_mem`, `arg_log`; the interpreter's `rd_eq`, `rd_ge`, `wr_eq`, `wr_ge`.
  3. preservation: `relC_defVar`, `relC_wr`, `relC_pc(_iff)`, `relC_mem`, `relC_log`, `relC_writeBytes`, `relC_readBytes`,
     `writeBytes?_layout`, `memOk_writeBytes`, `setIfInBounds_self`, `memStart_eq`.
  4. values: `trunc_*`, `mk_*`, `evalBin_<op>`, `evalUn_*`, `toInt_i64/_i32`, `evalCC_<cc>` (unsigned, any type),
     `evalCC_s??64`, `evalCC_<cc>32`, `bool_v_ne_zero/_eq_zero`, `trunc32_<op>`, `sx32_mask`, `ofInt_sshr64`, `shamt64/32`,
     `lddw_const`, `trunc_bswap`, `leBytes_trunc`.
  5. builder: `B_bind_run`, `B_pure_run`, `B_throw_run`, `ins_run`, `emit_run`, `useVar_run(_nil)`, `defVar_run`,
     `reg_run(_ge)`, `lift_run_ok/_error`; `<helper>_run` / `<helper>_run_ge` / `<helper>_ok` for `insnDst`, `insnSrc`,
     `insnDst32`, `insnSrc32`, `insnImm64`, `insnImm32`, `setDst`, `setDst32`, `alu64Reg`, `alu64Imm`, `alu32Reg`, `alu32Imm`
     (`<shape>_arm`: registers in range and the explicit list from `harm`), `insertBoundsCheck_run` (`checkOps`),
     `regLoad_run`, `regStore_run`, `regAtomicAdd_run`; `arm_eq`, `arm_of_run(_error)`, `arm_eq_some`;
     `clifStep_eq`, `armSim_intro`, `ArmPost` with `armPost_next/_done/_oob/_panic/_fault/_err/_wr/_skip`.
  6. `boundsCheck_exec`, `boundsCheck_run_ok`, `boundsCheck_run_trap` (22 ops, 21 values), `clifBoundsOk_ir`,
     `clifBoundsOk_eq_checkMem`.
-/
import RbpfModel.Model.ClifSim
import RbpfModel.Lemmas.MemLemmas
import RbpfModel.Props.C11
namespace Rbpf.ClifSim
open Rbpf.ClifAst Rbpf.ClifSem
open Rbpf.Interp (lo32 zx32 sx32)

/-! ## 1. `runOps` -/

@[simp] theorem runOps_nil (env : Env) (s : St) (loc : List Val) : runOps env s loc [] = (s, .fall) := rfl

theorem runOps_cons_ok {env : Env} {s s' : St} {loc loc' : List Val} {op : Op} (rest : List Op)
    (h : step env s loc op = .ok (s', loc')) : runOps env s loc (op :: rest) = runOps env s' loc' rest := by
  simp only [runOps, h]

theorem runOps_cons_error {env : Env} {s : St} {loc : List Val} {op : Op} {f : Flow} (rest : List Op)
    (h : step env s loc op = .error f) : runOps env s loc (op :: rest) = (s, f) := by
  simp only [runOps, h]

/-- the straight-line part of an op list: the state and the local list after all of `ops`, or the state and the flow at
    the first op that leaves the list -/
def execOps (env : Env) (s : St) (loc : List Val) : List Op → Except (St × Flow) (St × List Val)
  | [] => .ok (s, loc)
  | op :: rest =>
    match step env s loc op with
    | .ok (s', loc') => execOps env s' loc' rest
    | .error f => .error (s, f)

@[simp] theorem execOps_nil (env : Env) (s : St) (loc : List Val) : execOps env s loc [] = .ok (s, loc) := rfl

theorem execOps_cons_ok {env : Env} {s s' : St} {loc loc' : List Val} {op : Op} (rest : List Op)
    (h : step env s loc op = .ok (s', loc')) : execOps env s loc (op :: rest) = execOps env s' loc' rest := by
  simp only [execOps, h]

theorem execOps_cons_error {env : Env} {s : St} {loc : List Val} {op : Op} {f : Flow} (rest : List Op)
    (h : step env s loc op = .error f) : execOps env s loc (op :: rest) = .error (s, f) := by
  simp only [execOps, h]

theorem runOps_eq_execOps (env : Env) (s : St) (loc : List Val) (ops : List Op) :
    runOps env s loc ops = match execOps env s loc ops with | .ok (s', _) => (s', .fall) | .error r => r := by
  induction ops generalizing s loc with
  | nil => rfl
  | cons op rest ih =>
    simp only [runOps, execOps]
    cases step env s loc op with
    | ok p => exact ih p.1 p.2
    | error f => rfl

theorem execOps_append (env : Env) (s : St) (loc : List Val) (xs ys : List Op) :
    execOps env s loc (xs ++ ys) =
      match execOps env s loc xs with | .ok (s', loc') => execOps env s' loc' ys | .error r => .error r := by
  induction xs generalizing s loc with
  | nil => rfl
  | cons op rest ih =>
    simp only [List.cons_append, execOps]
    cases step env s loc op with
    | ok p => exact ih p.1 p.2
    | error f => rfl

theorem runOps_append_eq (env : Env) (s : St) (loc : List Val) (xs ys : List Op) :
    runOps env s loc (xs ++ ys) =
      match execOps env s loc xs with | .ok (s', loc') => runOps env s' loc' ys | .error r => r := by
  induction xs generalizing s loc with
  | nil => rfl
  | cons op rest ih =>
    simp only [List.cons_append, execOps, runOps]
    cases step env s loc op with
    | ok p => exact ih p.1 p.2
    | error f => rfl

/-- `xs` falls through: continue with `ys` -/
theorem runOps_append {env : Env} {s s' : St} {loc loc' : List Val} {xs : List Op} (ys : List Op)
    (h : execOps env s loc xs = .ok (s', loc')) : runOps env s loc (xs ++ ys) = runOps env s' loc' ys := by
  rw [runOps_append_eq, h]

/-- `xs` leaves the list: `ys` is not reached -/
theorem runOps_append_error {env : Env} {s : St} {loc : List Val} {xs : List Op} {r : St × Flow} (ys : List Op)
    (h : execOps env s loc xs = .error r) : runOps env s loc (xs ++ ys) = r := by
  rw [runOps_append_eq, h]

theorem execOps_append_ok {env : Env} {s s' : St} {loc loc' : List Val} {xs : List Op} (ys : List Op)
    (h : execOps env s loc xs = .ok (s', loc')) : execOps env s loc (xs ++ ys) = execOps env s' loc' ys := by
  rw [execOps_append, h]

/-! ### one op at the head of the list, operands evaluated

Each lemma rewrites `runOps env s loc (op :: rest)`; the side conditions are `arg …  = some …` (closed by `simp` with
the `arg_*` lemmas below) and the value computed by `evalUn` / `evalBin`. -/

section Ops
variable {env : Env} {s : St} {loc : List Val}

theorem step_iconst (t : Ty) (v : BitVec 64) : step env s loc (.iconst t v) = .ok (s, loc ++ [mk t v]) := rfl

theorem step_un {o : UnOp} {a : Arg} {x r : Val} (ha : arg s loc a = some x) (he : evalUn o x = some r) :
    step env s loc (.un o a) = .ok (s, loc ++ [r]) := by
  simp only [step, ha, he]

theorem step_bin {o : BinOp} {a b : Arg} {x y r : Val} (ha : arg s loc a = some x) (hb : arg s loc b = some y)
    (he : evalBin o x y = some (some r)) : step env s loc (.bin o a b) = .ok (s, loc ++ [r]) := by
  simp only [step, ha, hb, he]

theorem step_bin_trap {o : BinOp} {a b : Arg} {x y : Val} (ha : arg s loc a = some x) (hb : arg s loc b = some y)
    (he : evalBin o x y = some none) : step env s loc (.bin o a b) = .error .trap := by
  simp only [step, ha, hb, he]

theorem step_icmp {c : CC} {a b : Arg} {x y : Val} (ha : arg s loc a = some x) (hb : arg s loc b = some y)
    (ht : x.ty = y.ty) : step env s loc (.icmp c a b) = .ok (s, loc ++ [bool (evalCC c x y)]) := by
  simp only [step, ha, hb, ht, if_true]

theorem step_icmpImm {c : CC} {a : Arg} {x : Val} (imm : Int) (ha : arg s loc a = some x) :
    step env s loc (.icmpImm c a imm) = .ok (s, loc ++ [bool (evalCC c x (mk x.ty (BitVec.ofInt 64 imm)))]) := by
  simp only [step, ha]

theorem step_select {c a b : Arg} {cv x y : Val} (hc : arg s loc c = some cv) (ha : arg s loc a = some x)
    (hb : arg s loc b = some y) (ht : x.ty = y.ty) :
    step env s loc (.select c a b) = .ok (s, loc ++ [if cv.v ≠ 0 then x else y]) := by
  simp only [step, hc, ha, hb, ht, if_true]

theorem step_load {t : Ty} {a : Arg} {x : BitVec 64} {bs : List (BitVec 8)} (off : Int)
    (ha : arg s loc a = some ⟨.i64, x⟩) (hr : s.mem.readBytes? (ea ⟨.i64, x⟩ off) t.bytes = some bs) :
    step env s loc (.load t a off) = .ok (s, loc ++ [⟨t, BitVec.ofNat 64 (leValue bs)⟩]) := by
  simp only [step, ha, hr, ne_eq, not_true_eq_false, if_false]

theorem step_store {v a : Arg} {x : Val} {b : BitVec 64} {m : Memory} (off : Int)
    (hv : arg s loc v = some x) (ha : arg s loc a = some ⟨.i64, b⟩)
    (hw : s.mem.writeBytes? (ea ⟨.i64, b⟩ off) (leBytes x.v.toNat x.ty.bytes) = some m) :
    step env s loc (.store v a off) = .ok ({ s with mem := m }, loc) := by
  simp only [step, hv, ha, hw, ne_eq, not_true_eq_false, if_false]

theorem step_atomicAdd {t : Ty} {a v : Arg} {b x : BitVec 64} {bs : List (BitVec 8)} {m : Memory}
    (ha : arg s loc a = some ⟨.i64, b⟩) (hv : arg s loc v = some ⟨t, x⟩)
    (hr : s.mem.readBytes? b.toNat t.bytes = some bs)
    (hw : s.mem.writeBytes? b.toNat (leBytes (leValue bs + x.toNat) t.bytes) = some m) :
    step env s loc (.atomicAdd t a v) = .ok ({ s with mem := m }, loc ++ [⟨t, BitVec.ofNat 64 (leValue bs)⟩]) := by
  simp only [step, ha, hv, hr, hw, ne_eq, not_true_eq_false, or_self, if_false]

theorem step_trapz_ok {a : Arg} {x : Val} (ha : arg s loc a = some x) (hx : x.v ≠ 0) :
    step env s loc (.trapz a) = .ok (s, loc) := by
  simp only [step, ha, hx, if_false]

theorem step_trapz_trap {a : Arg} {x : Val} (ha : arg s loc a = some x) (hx : x.v = 0) :
    step env s loc (.trapz a) = .error .trap := by
  simp only [step, ha, hx, if_true]

theorem step_defVar {v : Nat} {a : Arg} {x : BitVec 64} (ha : arg s loc a = some ⟨.i64, x⟩) (hv : v < 17) :
    step env s loc (.defVar v a) = .ok ({ s with vars := s.vars.setIfInBounds v x }, loc) := by
  simp only [step, ha, hv, and_self, if_true]

theorem step_brif {c : Arg} {x : Val} (t f : Nat) (hc : arg s loc c = some x) :
    step env s loc (.brif c t f) = .error (.goto (if x.v ≠ 0 then t else f)) := by
  simp only [step, hc]

theorem step_jump (t : Nat) : step env s loc (.jump t) = .error (.goto t) := rfl

theorem step_ret {a : Arg} {x : BitVec 64} (ha : arg s loc a = some ⟨.i64, x⟩) :
    step env s loc (.ret a) = .error (.ret x) := by
  simp only [step, ha, if_true]

theorem step_call {k : Nat} {a1 a2 a3 a4 a5 : Arg} {x1 x2 x3 x4 x5 : BitVec 64} {f : HelperFn}
    (hf : env.helpers k = some f)
    (h1 : arg s loc a1 = some ⟨.i64, x1⟩) (h2 : arg s loc a2 = some ⟨.i64, x2⟩) (h3 : arg s loc a3 = some ⟨.i64, x3⟩)
    (h4 : arg s loc a4 = some ⟨.i64, x4⟩) (h5 : arg s loc a5 = some ⟨.i64, x5⟩) :
    step env s loc (.call k [a1, a2, a3, a4, a5]) =
      .ok ({ s with log := s.log ++ [(k, [x1, x2, x3, x4, x5])] }, loc ++ [⟨.i64, f x1 x2 x3 x4 x5⟩]) := by
  simp [step, hf, h1, h2, h3, h4, h5]

/-! the same, as rewriting rules for `runOps` -/

@[simp] theorem runOps_iconst (t : Ty) (v : BitVec 64) (rest : List Op) :
    runOps env s loc (.iconst t v :: rest) = runOps env s (loc ++ [mk t v]) rest := rfl

theorem runOps_un {o : UnOp} {a : Arg} {x r : Val} (rest : List Op) (ha : arg s loc a = some x) (he : evalUn o x = some r) :
    runOps env s loc (.un o a :: rest) = runOps env s (loc ++ [r]) rest := runOps_cons_ok rest (step_un ha he)

theorem runOps_bin {o : BinOp} {a b : Arg} {x y r : Val} (rest : List Op) (ha : arg s loc a = some x)
    (hb : arg s loc b = some y) (he : evalBin o x y = some (some r)) :
    runOps env s loc (.bin o a b :: rest) = runOps env s (loc ++ [r]) rest := runOps_cons_ok rest (step_bin ha hb he)

theorem runOps_bin_trap {o : BinOp} {a b : Arg} {x y : Val} (rest : List Op) (ha : arg s loc a = some x)
    (hb : arg s loc b = some y) (he : evalBin o x y = some none) :
    runOps env s loc (.bin o a b :: rest) = (s, .trap) := runOps_cons_error rest (step_bin_trap ha hb he)

theorem runOps_icmp {c : CC} {a b : Arg} {x y : Val} (rest : List Op) (ha : arg s loc a = some x)
    (hb : arg s loc b = some y) (ht : x.ty = y.ty) :
    runOps env s loc (.icmp c a b :: rest) = runOps env s (loc ++ [bool (evalCC c x y)]) rest :=
  runOps_cons_ok rest (step_icmp ha hb ht)

theorem runOps_icmpImm {c : CC} {a : Arg} {x : Val} (imm : Int) (rest : List Op) (ha : arg s loc a = some x) :
    runOps env s loc (.icmpImm c a imm :: rest) =
      runOps env s (loc ++ [bool (evalCC c x (mk x.ty (BitVec.ofInt 64 imm)))]) rest :=
  runOps_cons_ok rest (step_icmpImm imm ha)

theorem runOps_select {c a b : Arg} {cv x y : Val} (rest : List Op) (hc : arg s loc c = some cv)
    (ha : arg s loc a = some x) (hb : arg s loc b = some y) (ht : x.ty = y.ty) :
    runOps env s loc (.select c a b :: rest) = runOps env s (loc ++ [if cv.v ≠ 0 then x else y]) rest :=
  runOps_cons_ok rest (step_select hc ha hb ht)

theorem runOps_load {t : Ty} {a : Arg} {x : BitVec 64} {bs : List (BitVec 8)} (off : Int) (rest : List Op)
    (ha : arg s loc a = some ⟨.i64, x⟩) (hr : s.mem.readBytes? (ea ⟨.i64, x⟩ off) t.bytes = some bs) :
    runOps env s loc (.load t a off :: rest) = runOps env s (loc ++ [⟨t, BitVec.ofNat 64 (leValue bs)⟩]) rest :=
  runOps_cons_ok rest (step_load off ha hr)

theorem runOps_store {v a : Arg} {x : Val} {b : BitVec 64} {m : Memory} (off : Int) (rest : List Op)
    (hv : arg s loc v = some x) (ha : arg s loc a = some ⟨.i64, b⟩)
    (hw : s.mem.writeBytes? (ea ⟨.i64, b⟩ off) (leBytes x.v.toNat x.ty.bytes) = some m) :
    runOps env s loc (.store v a off :: rest) = runOps env { s with mem := m } loc rest :=
  runOps_cons_ok rest (step_store off hv ha hw)

theorem runOps_atomicAdd {t : Ty} {a v : Arg} {b x : BitVec 64} {bs : List (BitVec 8)} {m : Memory} (rest : List Op)
    (ha : arg s loc a = some ⟨.i64, b⟩) (hv : arg s loc v = some ⟨t, x⟩)
    (hr : s.mem.readBytes? b.toNat t.bytes = some bs)
    (hw : s.mem.writeBytes? b.toNat (leBytes (leValue bs + x.toNat) t.bytes) = some m) :
    runOps env s loc (.atomicAdd t a v :: rest) =
      runOps env { s with mem := m } (loc ++ [⟨t, BitVec.ofNat 64 (leValue bs)⟩]) rest :=
  runOps_cons_ok rest (step_atomicAdd ha hv hr hw)

theorem runOps_trapz_ok {a : Arg} {x : Val} (rest : List Op) (ha : arg s loc a = some x) (hx : x.v ≠ 0) :
    runOps env s loc (.trapz a :: rest) = runOps env s loc rest := runOps_cons_ok rest (step_trapz_ok ha hx)

theorem runOps_trapz_trap {a : Arg} {x : Val} (rest : List Op) (ha : arg s loc a = some x) (hx : x.v = 0) :
    runOps env s loc (.trapz a :: rest) = (s, .trap) := runOps_cons_error rest (step_trapz_trap ha hx)

theorem runOps_defVar {v : Nat} {a : Arg} {x : BitVec 64} (rest : List Op) (ha : arg s loc a = some ⟨.i64, x⟩)
    (hv : v < 17) :
    runOps env s loc (.defVar v a :: rest) = runOps env { s with vars := s.vars.setIfInBounds v x } loc rest :=
  runOps_cons_ok rest (step_defVar ha hv)

/-- the usual end of an arm: `def_var` is the last op -/
theorem runOps_defVar_last {v : Nat} {a : Arg} {x : BitVec 64} (ha : arg s loc a = some ⟨.i64, x⟩) (hv : v < 17) :
    runOps env s loc [.defVar v a] = ({ s with vars := s.vars.setIfInBounds v x }, .fall) := by
  rw [runOps_defVar [] ha hv, runOps_nil]

theorem runOps_brif {c : Arg} {x : Val} (t f : Nat) (rest : List Op) (hc : arg s loc c = some x) :
    runOps env s loc (.brif c t f :: rest) = (s, .goto (if x.v ≠ 0 then t else f)) :=
  runOps_cons_error rest (step_brif t f hc)

@[simp] theorem runOps_jump (t : Nat) (rest : List Op) : runOps env s loc (.jump t :: rest) = (s, .goto t) := rfl

theorem runOps_ret {a : Arg} {x : BitVec 64} (rest : List Op) (ha : arg s loc a = some ⟨.i64, x⟩) :
    runOps env s loc (.ret a :: rest) = (s, .ret x) := runOps_cons_error rest (step_ret ha)

theorem runOps_call {k : Nat} {a1 a2 a3 a4 a5 : Arg} {x1 x2 x3 x4 x5 : BitVec 64} {f : HelperFn} (rest : List Op)
    (hf : env.helpers k = some f)
    (h1 : arg s loc a1 = some ⟨.i64, x1⟩) (h2 : arg s loc a2 = some ⟨.i64, x2⟩) (h3 : arg s loc a3 = some ⟨.i64, x3⟩)
    (h4 : arg s loc a4 = some ⟨.i64, x4⟩) (h5 : arg s loc a5 = some ⟨.i64, x5⟩) :
    runOps env s loc (.call k [a1, a2, a3, a4, a5] :: rest) =
      runOps env { s with log := s.log ++ [(k, [x1, x2, x3, x4, x5])] } (loc ++ [⟨.i64, f x1 x2 x3 x4 x5⟩]) rest :=
  runOps_cons_ok rest (step_call hf h1 h2 h3 h4 h5)

end Ops

/-! ## 2. operands under `RelC` -/

@[simp] theorem arg_loc (σ : St) (loc : List Val) (k : Nat) : arg σ loc (.loc k) = loc[k]? := rfl

/-- `arg` does not look at memory or log -/
@[simp] theorem arg_mem (σ : St) (m : Memory) (loc : List Val) (a : Arg) : arg { σ with mem := m } loc a = arg σ loc a := by
  cases a <;> rfl

@[simp] theorem arg_log (σ : St) (l : List (Nat × List (BitVec 64))) (loc : List Val) (a : Arg) :
    arg { σ with log := l } loc a = arg σ loc a := by
  cases a <;> rfl

theorem arg_var (σ : St) (loc : List Val) (v : Nat) (h : v < 17) : arg σ loc (.var v) = some ⟨.i64, σ.vars[v]⟩ := by
  simp only [arg, Vector.getElem?_eq_getElem h, Option.map_some]

/-- an eBPF register -/
theorem arg_var_reg {σ : St} {s : State} (h : RelC σ s) (loc : List Val) (r : Nat) (hr : r < 11) :
    arg σ loc (.var r) = some ⟨.i64, s.reg[r]⟩ := by
  rw [arg_var σ loc r (by omega), h.regs ⟨r, hr⟩]
  rfl

theorem arg_var_memStart {σ : St} {s : State} (h : RelC σ s) (loc : List Val) :
    arg σ loc (.var 11) = some ⟨.i64, BitVec.ofNat 64 (if s.mem.mem.bytes.size = 0 then 0 else s.mem.mem.base)⟩ := by
  rw [arg_var σ loc 11 (by omega), h.memStart]

theorem arg_var_memEnd {σ : St} {s : State} (h : RelC σ s) (loc : List Val) :
    arg σ loc (.var 12) = some ⟨.i64, BitVec.ofNat 64 (if s.mem.mem.bytes.size = 0 then 0 else s.mem.mem.base) +
      BitVec.ofNat 64 s.mem.mem.bytes.size⟩ := by
  rw [arg_var σ loc 12 (by omega), h.memEnd, h.memStart]

theorem arg_var_mbufStart {σ : St} {s : State} (h : RelC σ s) (loc : List Val) :
    arg σ loc (.var 13) = some ⟨.i64, BitVec.ofNat 64 s.mem.mbuff.base⟩ := by
  rw [arg_var σ loc 13 (by omega), h.mbufStart]

theorem arg_var_mbufEnd {σ : St} {s : State} (h : RelC σ s) (loc : List Val) :
    arg σ loc (.var 14) = some ⟨.i64, BitVec.ofNat 64 s.mem.mbuff.base + BitVec.ofNat 64 s.mem.mbuff.bytes.size⟩ := by
  rw [arg_var σ loc 14 (by omega), h.mbufEnd]

theorem arg_var_stackStart {σ : St} {s : State} (h : RelC σ s) (loc : List Val) :
    arg σ loc (.var 15) = some ⟨.i64, BitVec.ofNat 64 s.mem.stack.base⟩ := by
  rw [arg_var σ loc 15 (by omega), h.stackStart]

theorem arg_var_stackEnd {σ : St} {s : State} (h : RelC σ s) (loc : List Val) :
    arg σ loc (.var 16) = some ⟨.i64, BitVec.ofNat 64 s.mem.stack.base + BitVec.ofNat 64 s.mem.stack.bytes.size⟩ := by
  rw [arg_var σ loc 16 (by omega), h.stackEnd]

/-- the same with the names `ClifAst` uses for the variables -/
theorem arg_var_vMemStart {σ : St} {s : State} (h : RelC σ s) (loc : List Val) :
    arg σ loc (.var vMemStart) = some ⟨.i64, BitVec.ofNat 64 (if s.mem.mem.bytes.size = 0 then 0 else s.mem.mem.base)⟩ :=
  arg_var_memStart h loc

/-! ### the interpreter's register access at registers `< 11` -/

theorem rd_eq (s : State) (r : Nat) (k : BitVec 64 → Outcome) (hr : r < 11) : Interp.rd s r k = k s.reg[r] := by
  simp only [Interp.rd, Vector.getElem?_eq_getElem hr]

theorem rd_ge (s : State) (r : Nat) (k : BitVec 64 → Outcome) (hr : ¬ r < 11) : Interp.rd s r k = .panic := by
  have : s.reg[r]? = none := by simp only [Vector.getElem?_eq_none_iff]; omega
  simp only [Interp.rd, this]

theorem wr_eq (s : State) (r : Nat) (v : BitVec 64) (hr : r < 11) :
    Interp.wr s r v = .next { s with reg := s.reg.setIfInBounds r v } := by
  simp only [Interp.wr, hr, if_true]

theorem wr_ge (s : State) (r : Nat) (v : BitVec 64) (hr : ¬ r < 11) : Interp.wr s r v = .panic := by
  simp only [Interp.wr, hr, if_false]

/-! ## 3. `RelC` and `MemOk` are preserved -/

/-- `def_var r x` on the IR side is `wr s r x` on the eBPF side -/
theorem relC_defVar {σ : St} {s : State} (h : RelC σ s) (r : Nat) (hr : r < 11) (x : BitVec 64) :
    RelC { σ with vars := σ.vars.setIfInBounds r x } { s with reg := s.reg.setIfInBounds r x } := by
  have hv : ∀ k, (hk : k < 17) → k ≠ r → (σ.vars.setIfInBounds r x)[k] = σ.vars[k] := by
    intro k hk hne
    simp only [Vector.getElem_setIfInBounds, if_neg (Ne.symm hne)]
  refine ⟨?_, ?_, ?_, ?_, ?_, ?_, ?_, h.mem, h.log, h.depth0⟩
  · intro i
    show (σ.vars.setIfInBounds r x)[i.val] = (s.reg.setIfInBounds r x)[i.val]
    simp only [Vector.getElem_setIfInBounds]
    split
    · rfl
    · exact h.regs i
  · show (σ.vars.setIfInBounds r x)[11] = _
    rw [hv 11 (by omega) (by omega)]; exact h.memStart
  · show (σ.vars.setIfInBounds r x)[12] = (σ.vars.setIfInBounds r x)[11] + _
    rw [hv 11 (by omega) (by omega), hv 12 (by omega) (by omega)]; exact h.memEnd
  · show (σ.vars.setIfInBounds r x)[13] = _
    rw [hv 13 (by omega) (by omega)]; exact h.mbufStart
  · show (σ.vars.setIfInBounds r x)[14] = _
    rw [hv 14 (by omega) (by omega)]; exact h.mbufEnd
  · show (σ.vars.setIfInBounds r x)[15] = _
    rw [hv 15 (by omega) (by omega)]; exact h.stackStart
  · show (σ.vars.setIfInBounds r x)[16] = _
    rw [hv 16 (by omega) (by omega)]; exact h.stackEnd

/-- the form in which it is used: `wr` succeeds and the new IR state represents its result -/
theorem relC_wr {σ : St} {s : State} (h : RelC σ s) (r : Nat) (hr : r < 11) (x : BitVec 64) :
    ∃ s', Interp.wr s r x = .next s' ∧ RelC { σ with vars := σ.vars.setIfInBounds r x } s' ∧
      s'.pc = s.pc ∧ s'.mem = s.mem ∧ s'.log = s.log :=
  ⟨_, wr_eq s r x hr, relC_defVar h r hr x, rfl, rfl, rfl⟩

/-- `RelC` does not mention the program counter -/
theorem relC_pc {σ : St} {s : State} (h : RelC σ s) (pc : Nat) : RelC σ { s with pc := pc } :=
  ⟨h.regs, h.memStart, h.memEnd, h.mbufStart, h.mbufEnd, h.stackStart, h.stackEnd, h.mem, h.log, h.depth0⟩

theorem relC_pc_iff (σ : St) (s : State) (pc : Nat) : RelC σ { s with pc := pc } ↔ RelC σ s :=
  ⟨fun h => ⟨h.regs, h.memStart, h.memEnd, h.mbufStart, h.mbufEnd, h.stackStart, h.stackEnd, h.mem, h.log, h.depth0⟩,
   fun h => relC_pc h pc⟩

/-- writing a register its own value changes nothing -/
theorem setIfInBounds_self {n : Nat} (v : Vector (BitVec 64) n) (r : Nat) (hr : r < n) : v.setIfInBounds r v[r] = v := by
  ext k hk
  simp only [Vector.getElem_setIfInBounds]
  split
  · next h => subst h; rfl
  · rfl

/-- `writeBytes?` moves no region -/
theorem writeBytes?_layout {m m' : Memory} {a : Nat} {bs : List (BitVec 8)} (h : m.writeBytes? a bs = some m') :
    m'.mbuff.base = m.mbuff.base ∧ m'.mbuff.bytes.size = m.mbuff.bytes.size ∧
    m'.mem.base = m.mem.base ∧ m'.mem.bytes.size = m.mem.bytes.size ∧
    m'.stack.base = m.stack.base ∧ m'.stack.bytes.size = m.stack.bytes.size := by
  have hs := writeBytes?_shape m m' a bs h
  simp only [Memory.shape, Memory.regions, List.map_cons, List.cons.injEq, Prod.mk.injEq] at hs
  obtain ⟨⟨h1, h2⟩, ⟨h3, h4⟩, ⟨h5, h6⟩, _⟩ := hs
  exact ⟨h1, h2, h3, h4, h5, h6⟩

theorem memOk_writeBytes {m m' : Memory} {a : Nat} {bs : List (BitVec 8)} (hm : MemOk m)
    (h : m.writeBytes? a bs = some m') : MemOk m' := by
  obtain ⟨h1, h2, h3, h4, h5, h6⟩ := writeBytes?_layout h
  exact {
    mbuffTop := by rw [h1, h2]; exact hm.mbuffTop
    memTop := by rw [h3, h4]; exact hm.memTop
    stackTop := by rw [h5, h6]; exact hm.stackTop
    nullMem := by rw [h3, h4]; exact hm.nullMem
    emptyMem := by rw [h3, h4]; exact hm.emptyMem
    nullMbuff := by rw [h1, h2]; exact hm.nullMbuff
    below := by rw [h3, h1, h5]; exact hm.below
    stack512 := by rw [h6]; exact hm.stack512 }

/-- with `MemOk`, the variable `mem_start` is simply the packet's base (an empty packet has the null base) -/
theorem memStart_eq {m : Memory} (hm : MemOk m) : (if m.mem.bytes.size = 0 then 0 else m.mem.base) = m.mem.base := by
  split
  · next h => exact (hm.emptyMem h).symm
  · rfl

theorem arg_var_memStart' {σ : St} {s : State} (h : RelC σ s) (hm : MemOk s.mem) (loc : List Val) :
    arg σ loc (.var 11) = some ⟨.i64, BitVec.ofNat 64 s.mem.mem.base⟩ := by
  rw [arg_var σ loc 11 (by omega), h.memStart, memStart_eq hm]

/-- a store / atomic add: both sides hold the memory `writeBytes?` returned -/
theorem relC_mem {σ : St} {s : State} (h : RelC σ s) {a : Nat} {bs : List (BitVec 8)} {m : Memory}
    (hw : s.mem.writeBytes? a bs = some m) : RelC { σ with mem := m } { s with mem := m } := by
  obtain ⟨h1, h2, h3, h4, h5, h6⟩ := writeBytes?_layout hw
  refine ⟨h.regs, ?_, ?_, ?_, ?_, ?_, ?_, rfl, h.log, h.depth0⟩
  · show σ.vars[11] = _
    simp only [h3, h4]; exact h.memStart
  · show σ.vars[12] = σ.vars[11] + _
    simp only [h4]; exact h.memEnd
  · show σ.vars[13] = _
    simp only [h1]; exact h.mbufStart
  · show σ.vars[14] = _
    simp only [h1, h2]; exact h.mbufEnd
  · show σ.vars[15] = _
    simp only [h5]; exact h.stackStart
  · show σ.vars[16] = _
    simp only [h5, h6]; exact h.stackEnd

/-- the IR side writes through its own copy of the memory: same `writeBytes?` -/
theorem relC_writeBytes {σ : St} {s : State} (h : RelC σ s) (a : Nat) (bs : List (BitVec 8)) :
    σ.mem.writeBytes? a bs = s.mem.writeBytes? a bs := by rw [h.mem]

theorem relC_readBytes {σ : St} {s : State} (h : RelC σ s) (a w : Nat) :
    σ.mem.readBytes? a w = s.mem.readBytes? a w := by rw [h.mem]

/-- a helper call: the same entry is appended to both logs -/
theorem relC_log {σ : St} {s : State} (h : RelC σ s) (e : Nat × List (BitVec 64)) :
    RelC { σ with log := σ.log ++ [e] } { s with log := s.log ++ [e] } :=
  ⟨h.regs, h.memStart, h.memEnd, h.mbufStart, h.mbufEnd, h.stackStart, h.stackEnd, h.mem,
   by show σ.log ++ [e] = s.log ++ [e]; rw [h.log], h.depth0⟩

/-! ## 5. the builder monad -/

section Builder
variable {α β : Type}

theorem B_bind_run (x : B α) (f : α → B β) (st : BState) :
    (x >>= f).run st = match x.run st with | .ok (a, st') => (f a).run st' | .error e => .error e := by
  show (x st >>= fun p => f p.1 p.2) = (match x st with | .ok (a, st') => f a st' | .error e => .error e)
  cases x st <;> rfl

theorem B_pure_run (a : α) (st : BState) : (pure a : B α).run st = .ok (a, st) := rfl

theorem B_throw_run (e : Fail) (st : BState) : (throw e : B α).run st = .error e := rfl

theorem ins_run (o : Op) (st : BState) :
    (ins o).run st = .ok (.loc st.nvals, { st with ops := st.ops ++ [o], nvals := st.nvals + 1 }) := rfl

theorem emit_run (o : Op) (st : BState) : (emit o).run st = .ok ((), { st with ops := st.ops ++ [o] }) := rfl

theorem useVar_run (v : Nat) (st : BState) : (useVar v).run st = .ok ((st.defs.lookup v).getD (.var v), st) := rfl

/-- no `def_var` yet in this instruction (always the case when an arm reads a variable) -/
theorem useVar_run_nil (v : Nat) (ops : List Op) (n : Nat) : (useVar v).run ⟨ops, n, []⟩ = .ok (.var v, ⟨ops, n, []⟩) := rfl

theorem defVar_run (v : Nat) (a : Arg) (st : BState) :
    (ClifAst.defVar v a).run st = .ok ((), { st with ops := st.ops ++ [.defVar v a], defs := (v, a) :: st.defs }) := rfl

theorem reg_run (r : BitVec 8) (st : BState) (h : r.toNat < 11) : (reg r).run st = .ok (r.toNat, st) := by
  simp only [reg, h, if_true]; rfl

theorem reg_run_ge (r : BitVec 8) (st : BState) (h : ¬ r.toNat < 11) : (reg r).run st = .error .panic := by
  simp only [reg, h, if_false]; rfl

theorem lift_run_ok (x : Except Fail α) (a : α) (st : BState) (h : x = .ok a) : (lift x).run st = .ok (a, st) := by
  subst h; rfl

theorem lift_run_error (x : Except Fail α) (e : Fail) (st : BState) (h : x = .error e) :
    (lift x : B α).run st = .error e := by
  subst h; rfl

end Builder

/-! ### the helper functions of `cranelift.rs` on an explicit builder state

All of them are stated for a state without `def_var`s (`defs = []`), which is the state in which every arm calls them
(`set_dst*` is the last action of its arm; it is stated for any `defs`). -/

section Helpers
variable (i : Insn) (ops : List Op) (n : Nat)

theorem insnImm64_run (st : BState) :
    (insnImm64 i).run st = .ok (.loc st.nvals, { st with ops := st.ops ++ [.iconst .i64 (i.imm.signExtend 64)], nvals := st.nvals + 1 }) :=
  rfl

theorem insnImm32_run (st : BState) :
    (insnImm32 i).run st = .ok (.loc st.nvals, { st with ops := st.ops ++ [.iconst .i32 (i.imm.zeroExtend 64)], nvals := st.nvals + 1 }) :=
  rfl

theorem insnDst_run (hd : i.dst.toNat < 11) :
    (insnDst i).run ⟨ops, n, []⟩ = .ok (.var i.dst.toNat, ⟨ops, n, []⟩) := by
  simp only [insnDst, B_bind_run, reg_run _ _ hd, useVar_run_nil]

theorem insnDst_run_ge (st : BState) (hd : ¬ i.dst.toNat < 11) : (insnDst i).run st = .error .panic := by
  simp only [insnDst, B_bind_run, reg_run_ge _ _ hd]

theorem insnSrc_run (hs : i.src.toNat < 11) :
    (insnSrc i).run ⟨ops, n, []⟩ = .ok (.var i.src.toNat, ⟨ops, n, []⟩) := by
  simp only [insnSrc, B_bind_run, reg_run _ _ hs, useVar_run_nil]

theorem insnSrc_run_ge (st : BState) (hs : ¬ i.src.toNat < 11) : (insnSrc i).run st = .error .panic := by
  simp only [insnSrc, B_bind_run, reg_run_ge _ _ hs]

theorem insnDst32_run (hd : i.dst.toNat < 11) :
    (insnDst32 i).run ⟨ops, n, []⟩ = .ok (.loc n, ⟨ops ++ [.un (.ireduce .i32) (.var i.dst.toNat)], n + 1, []⟩) := by
  simp only [insnDst32, B_bind_run, insnDst_run i ops n hd, ins_run]

theorem insnDst32_run_ge (st : BState) (hd : ¬ i.dst.toNat < 11) : (insnDst32 i).run st = .error .panic := by
  simp only [insnDst32, B_bind_run, insnDst_run_ge i st hd]

theorem insnSrc32_run (hs : i.src.toNat < 11) :
    (insnSrc32 i).run ⟨ops, n, []⟩ = .ok (.loc n, ⟨ops ++ [.un (.ireduce .i32) (.var i.src.toNat)], n + 1, []⟩) := by
  simp only [insnSrc32, B_bind_run, insnSrc_run i ops n hs, ins_run]

theorem insnSrc32_run_ge (st : BState) (hs : ¬ i.src.toNat < 11) : (insnSrc32 i).run st = .error .panic := by
  simp only [insnSrc32, B_bind_run, insnSrc_run_ge i st hs]

theorem setDst_run (val : Arg) (defs : List (Nat × Arg)) (hd : i.dst.toNat < 11) :
    (setDst i val).run ⟨ops, n, defs⟩ = .ok ((), ⟨ops ++ [.defVar i.dst.toNat val], n, (i.dst.toNat, val) :: defs⟩) := by
  simp only [setDst, B_bind_run, reg_run _ _ hd, defVar_run]

theorem setDst_run_ge (val : Arg) (st : BState) (hd : ¬ i.dst.toNat < 11) : (setDst i val).run st = .error .panic := by
  simp only [setDst, B_bind_run, reg_run_ge _ _ hd]

theorem setDst32_run (val : Arg) (defs : List (Nat × Arg)) (hd : i.dst.toNat < 11) :
    (setDst32 i val).run ⟨ops, n, defs⟩ =
      .ok ((), ⟨ops ++ [.un (.uextend .i64) val, .defVar i.dst.toNat (.loc n)], n + 1, (i.dst.toNat, .loc n) :: defs⟩) := by
  simp only [setDst32, B_bind_run, ins_run, setDst_run i _ _ _ _ hd, List.append_assoc, List.cons_append, List.nil_append]

theorem setDst32_run_ge (val : Arg) (st : BState) (hd : ¬ i.dst.toNat < 11) : (setDst32 i val).run st = .error .panic := by
  simp only [setDst32, B_bind_run, ins_run, setDst_run_ge i _ _ hd]

end Helpers

/-! ### the two-operand shapes -/

section Shapes
variable (o : BinOp) (i : Insn) (ops : List Op) (n : Nat)

theorem alu64Reg_run (hd : i.dst.toNat < 11) (hs : i.src.toNat < 11) :
    (alu64Reg o i).run ⟨ops, n, []⟩ =
      .ok ((), ⟨ops ++ [.bin o (.var i.dst.toNat) (.var i.src.toNat), .defVar i.dst.toNat (.loc n)], n + 1,
                [(i.dst.toNat, .loc n)]⟩) := by
  simp only [alu64Reg, B_bind_run, insnDst_run i _ _ hd, insnSrc_run i _ _ hs, ins_run, setDst_run i _ _ _ _ hd,
    List.append_assoc, List.cons_append, List.nil_append]

theorem alu64Reg_run_ge (st : BState) (h : ¬ (i.dst.toNat < 11 ∧ i.src.toNat < 11)) :
    (alu64Reg o i).run st = .error .panic := by
  obtain ⟨ops, n, defs⟩ := st
  by_cases hd : i.dst.toNat < 11
  · have hs : ¬ i.src.toNat < 11 := fun hs => h ⟨hd, hs⟩
    simp only [alu64Reg, B_bind_run, insnDst, reg_run _ _ hd, useVar_run, insnSrc_run_ge i _ hs]
  · simp only [alu64Reg, B_bind_run, insnDst_run_ge i _ hd]

theorem alu64Imm_run (hd : i.dst.toNat < 11) :
    (alu64Imm o i).run ⟨ops, n, []⟩ =
      .ok ((), ⟨ops ++ [.iconst .i64 (i.imm.signExtend 64), .bin o (.var i.dst.toNat) (.loc n),
                        .defVar i.dst.toNat (.loc (n + 1))], n + 2, [(i.dst.toNat, .loc (n + 1))]⟩) := by
  simp only [alu64Imm, B_bind_run, insnImm64_run, insnDst_run i _ _ hd, ins_run, setDst_run i _ _ _ _ hd,
    List.append_assoc, List.cons_append, List.nil_append]

theorem alu64Imm_run_ge (st : BState) (hd : ¬ i.dst.toNat < 11) : (alu64Imm o i).run st = .error .panic := by
  simp only [alu64Imm, B_bind_run, insnImm64_run, insnDst_run_ge i _ hd]

theorem alu32Reg_run (hd : i.dst.toNat < 11) (hs : i.src.toNat < 11) :
    (alu32Reg o i).run ⟨ops, n, []⟩ =
      .ok ((), ⟨ops ++ [.un (.ireduce .i32) (.var i.dst.toNat), .un (.ireduce .i32) (.var i.src.toNat),
                        .bin o (.loc n) (.loc (n + 1)), .un (.uextend .i64) (.loc (n + 2)),
                        .defVar i.dst.toNat (.loc (n + 3))], n + 4, [(i.dst.toNat, .loc (n + 3))]⟩) := by
  simp only [alu32Reg, B_bind_run, insnDst32_run i _ _ hd, insnSrc32_run i _ _ hs, ins_run, setDst32_run i _ _ _ _ hd,
    List.append_assoc, List.cons_append, List.nil_append]

theorem alu32Reg_run_ge (st : BState) (h : ¬ (i.dst.toNat < 11 ∧ i.src.toNat < 11)) :
    (alu32Reg o i).run st = .error .panic := by
  obtain ⟨ops, n, defs⟩ := st
  by_cases hd : i.dst.toNat < 11
  · have hs : ¬ i.src.toNat < 11 := fun hs => h ⟨hd, hs⟩
    simp only [alu32Reg, B_bind_run, insnDst32, insnDst, reg_run _ _ hd, useVar_run, ins_run, insnSrc32_run_ge i _ hs]
  · simp only [alu32Reg, B_bind_run, insnDst32_run_ge i _ hd]

theorem alu32Imm_run (hd : i.dst.toNat < 11) :
    (alu32Imm o i).run ⟨ops, n, []⟩ =
      .ok ((), ⟨ops ++ [.un (.ireduce .i32) (.var i.dst.toNat), .iconst .i32 (i.imm.zeroExtend 64),
                        .bin o (.loc n) (.loc (n + 1)), .un (.uextend .i64) (.loc (n + 2)),
                        .defVar i.dst.toNat (.loc (n + 3))], n + 4, [(i.dst.toNat, .loc (n + 3))]⟩) := by
  simp only [alu32Imm, B_bind_run, insnDst32_run i _ _ hd, insnImm32_run, ins_run, setDst32_run i _ _ _ _ hd,
    List.append_assoc, List.cons_append, List.nil_append]

theorem alu32Imm_run_ge (st : BState) (hd : ¬ i.dst.toNat < 11) : (alu32Imm o i).run st = .error .panic := by
  simp only [alu32Imm, B_bind_run, insnDst32_run_ge i _ hd]

end Shapes

/-! ### from `arm … = some ops` to the builder run -/

/-- `arm` is the op list of the builder run from the empty state -/
theorem arm_eq (helpers : Nat → Bool) (p : Bytes) (pc : Nat) (i : Insn) :
    arm helpers p pc i = (((armB helpers p pc i).run ⟨[], 0, []⟩).map (·.2.ops)).toOption := rfl

@[simp] theorem toOption_map_ok {α β : Type} (f : α → β) (a : α) :
    (Except.map f (.ok a : Except Fail α)).toOption = some (f a) := rfl

@[simp] theorem toOption_map_error {α β : Type} (f : α → β) (e : Fail) :
    (Except.map f (.error e : Except Fail α)).toOption = none := rfl

theorem arm_of_run {helpers : Nat → Bool} {p : Bytes} {pc : Nat} {i : Insn} {st : BState}
    (h : (armB helpers p pc i).run ⟨[], 0, []⟩ = .ok ((), st)) : arm helpers p pc i = some st.ops := by
  rw [arm_eq, h]; rfl

theorem arm_of_run_error {helpers : Nat → Bool} {p : Bytes} {pc : Nat} {i : Insn} {e : Fail}
    (h : (armB helpers p pc i).run ⟨[], 0, []⟩ = .error e) : arm helpers p pc i = none := by
  rw [arm_eq, h]; rfl

/-! ### the eBPF side: one step at an instruction that decodes -/

theorem clifStep_eq {env : Env} {s : State} {i : Insn} (h : getInsn? env.prog s.pc = some i) :
    EngineSem.clifStep env s = EngineSem.clifExec env { s with pc := s.pc + 1 } i := by
  have hlt : s.pc * 8 < env.prog.size := by
    unfold getInsn? at h
    split at h
    · cases h
    · omega
  simp only [EngineSem.clifStep, hlt, if_true, h]

theorem width_eq_one (i : Insn) (h : i.opc ≠ 0x18) : width i = 1 := by
  simp only [width, h, if_false]

/-! ### the goal of `ArmSim`, outcome by outcome -/

/-- what `ArmSim` asks of the op list `ops`, given the outcome `o` of the eBPF step from `s` -/
def ArmPost (env : Env) (σ : St) (s : State) (ops : List Op) (i : Insn) (o : Outcome) : Prop :=
  match o with
  | .next s' => ∃ σ' f, runOps env σ [] ops = (σ', f) ∧ RelC σ' s' ∧ MemOk s'.mem ∧
      ((f = .fall ∧ s'.pc = s.pc + width i) ∨ f = .goto s'.pc)
  | .done r s' => ∃ σ', runOps env σ [] ops = (σ', .ret r) ∧ σ'.mem = s'.mem ∧ σ'.log = s'.log
  | .err .oob _ => ∃ σ', runOps env σ [] ops = (σ', .trap) ∧ σ'.mem = s.mem ∧ σ'.log = s.log
  | _ => True

/-- `ArmSim i` with the eBPF step already reduced to `clifExec` on the instruction -/
theorem armSim_intro (i : Insn)
    (h : ∀ (env : Env) (σ : St) (s : State) (ops : List Op), getInsn? env.prog s.pc = some i →
      arm (helperSet env) env.prog s.pc i = some ops → RelC σ s → MemOk s.mem →
      ArmPost env σ s ops i (EngineSem.clifExec env { s with pc := s.pc + 1 } i)) : ArmSim i := by
  intro env σ s ops hget harm hrel hm
  have := h env σ s ops hget harm hrel hm
  rw [← clifStep_eq hget] at this
  exact this

theorem armPost_next {env : Env} {σ σ' : St} {s s' : State} {ops : List Op} {i : Insn} {f : Flow}
    (hrun : runOps env σ [] ops = (σ', f)) (hrel : RelC σ' s') (hm : MemOk s'.mem)
    (hf : (f = .fall ∧ s'.pc = s.pc + width i) ∨ f = .goto s'.pc) : ArmPost env σ s ops i (.next s') :=
  ⟨σ', f, hrun, hrel, hm, hf⟩

theorem armPost_done {env : Env} {σ σ' : St} {s s' : State} {ops : List Op} {i : Insn} {r : BitVec 64}
    (hrun : runOps env σ [] ops = (σ', .ret r)) (hmem : σ'.mem = s'.mem) (hlog : σ'.log = s'.log) :
    ArmPost env σ s ops i (.done r s') :=
  ⟨σ', hrun, hmem, hlog⟩

theorem armPost_oob {env : Env} {σ σ' : St} {s s' : State} {ops : List Op} {i : Insn}
    (hrun : runOps env σ [] ops = (σ', .trap)) (hmem : σ'.mem = s.mem) (hlog : σ'.log = s.log) :
    ArmPost env σ s ops i (.err .oob s') :=
  ⟨σ', hrun, hmem, hlog⟩

theorem armPost_panic {env : Env} {σ : St} {s : State} {ops : List Op} {i : Insn} : ArmPost env σ s ops i .panic := trivial

theorem armPost_fault {env : Env} {σ : St} {s : State} {ops : List Op} {i : Insn} : ArmPost env σ s ops i .fault := trivial

theorem armPost_err {env : Env} {σ : St} {s s' : State} {ops : List Op} {i : Insn} {e : ErrKind} (he : e ≠ .oob) :
    ArmPost env σ s ops i (.err e s') := by
  cases e <;> first | trivial | exact absurd rfl he

/-- the usual end of an ALU arm: the eBPF side writes `v` to register `r` (after `pc := pc + 1`), the op list ends
    with the variable `r` set to `v` and falls through -/
theorem armPost_wr {env : Env} {σ : St} {s : State} {ops : List Op} {i : Insn} {r : Nat} {v : BitVec 64}
    (hrel : RelC σ s) (hm : MemOk s.mem) (hr : r < 11) (hw : width i = 1)
    (hrun : runOps env σ [] ops = ({ σ with vars := σ.vars.setIfInBounds r v }, .fall)) :
    ArmPost env σ s ops i (Interp.wr { s with pc := s.pc + 1 } r v) := by
  rw [wr_eq _ _ _ hr]
  exact armPost_next hrun (relC_pc (relC_defVar hrel r hr v) _) hm (Or.inl ⟨rfl, by rw [hw]⟩)

/-- an arm that changes nothing (`mod` by the immediate 0, `le64`) -/
theorem armPost_skip {env : Env} {σ : St} {s : State} {ops : List Op} {i : Insn}
    (hrel : RelC σ s) (hm : MemOk s.mem) (hw : width i = 1) (hrun : runOps env σ [] ops = (σ, .fall)) :
    ArmPost env σ s ops i (.next { s with pc := s.pc + 1 }) :=
  armPost_next hrun (relC_pc hrel _) hm (Or.inl ⟨rfl, by rw [hw]⟩)

/-! ## 4. values -/

theorem trunc_toNat (t : Ty) (x : BitVec 64) : (trunc t x).toNat = x.toNat % 2 ^ Ty.bits t := by
  have : x.toNat % 2 ^ Ty.bits t < 2 ^ 64 := Nat.lt_of_le_of_lt (Nat.mod_le _ _) x.isLt
  simp only [trunc, BitVec.toNat_ofNat, Nat.mod_eq_of_lt this]

@[simp] theorem trunc_i64 (x : BitVec 64) : trunc .i64 x = x := by
  apply BitVec.eq_of_toNat_eq
  rw [trunc_toNat]
  exact Nat.mod_eq_of_lt x.isLt

theorem trunc_i32 (x : BitVec 64) : trunc .i32 x = Interp.zx32 (Interp.lo32 x) := by
  apply BitVec.eq_of_toNat_eq
  rw [trunc_toNat]
  simp [Interp.zx32, Interp.lo32, Ty.bits]; omega

theorem trunc_i16 (x : BitVec 64) : trunc .i16 x = (x.setWidth 16).setWidth 64 := by
  apply BitVec.eq_of_toNat_eq
  rw [trunc_toNat]
  simp [Ty.bits]; omega

theorem trunc_i8 (x : BitVec 64) : trunc .i8 x = (x.setWidth 8).setWidth 64 := by
  apply BitVec.eq_of_toNat_eq
  rw [trunc_toNat]
  simp [Ty.bits]; omega

@[simp] theorem mk_i64 (x : BitVec 64) : mk .i64 x = ⟨.i64, x⟩ := by simp only [mk, trunc_i64]

theorem mk_i32 (x : BitVec 64) : mk .i32 x = ⟨.i32, Interp.zx32 (Interp.lo32 x)⟩ := by simp only [mk, trunc_i32]

@[simp] theorem mk_ty (t : Ty) (x : BitVec 64) : (mk t x).ty = t := rfl
@[simp] theorem mk_v (t : Ty) (x : BitVec 64) : (mk t x).v = trunc t x := rfl

@[simp] theorem lo32_zx32 (y : BitVec 32) : Interp.lo32 (Interp.zx32 y) = y := by
  simp [Interp.lo32, Interp.zx32]

/-- `insn_imm32`: the constant is the immediate, zero-extended -/
theorem mk_i32_imm (imm : BitVec 32) : mk .i32 (imm.zeroExtend 64) = ⟨.i32, Interp.zx32 imm⟩ := by
  rw [mk_i32]; congr 2; exact lo32_zx32 imm

/-! ### `evalBin`, `evalUn` on operands of the same type -/

section Eval
variable (t : Ty) (a b : BitVec 64)

theorem evalBin_iadd : evalBin .iadd ⟨t, a⟩ ⟨t, b⟩ = some (some (mk t (a + b))) := by simp [evalBin]
theorem evalBin_isub : evalBin .isub ⟨t, a⟩ ⟨t, b⟩ = some (some (mk t (a - b))) := by simp [evalBin]
theorem evalBin_imul : evalBin .imul ⟨t, a⟩ ⟨t, b⟩ = some (some (mk t (a * b))) := by simp [evalBin]
theorem evalBin_band : evalBin .band ⟨t, a⟩ ⟨t, b⟩ = some (some (mk t (a &&& b))) := by simp [evalBin]
theorem evalBin_bor : evalBin .bor ⟨t, a⟩ ⟨t, b⟩ = some (some (mk t (a ||| b))) := by simp [evalBin]
theorem evalBin_bxor : evalBin .bxor ⟨t, a⟩ ⟨t, b⟩ = some (some (mk t (a ^^^ b))) := by simp [evalBin]
theorem evalBin_ishl : evalBin .ishl ⟨t, a⟩ ⟨t, b⟩ = some (some (mk t (a <<< (b.toNat % Ty.bits t)))) := by simp [evalBin]
theorem evalBin_ushr : evalBin .ushr ⟨t, a⟩ ⟨t, b⟩ = some (some (mk t (a >>> (b.toNat % Ty.bits t)))) := by simp [evalBin]
theorem evalBin_sshr : evalBin .sshr ⟨t, a⟩ ⟨t, b⟩ =
    some (some (mk t (BitVec.ofInt 64 ((⟨t, a⟩ : Val).toInt >>> (b.toNat % Ty.bits t))))) := by simp [evalBin]
theorem evalBin_udiv (hb : b ≠ 0) : evalBin .udiv ⟨t, a⟩ ⟨t, b⟩ = some (some (mk t (a / b))) := by simpa [evalBin] using hb
theorem evalBin_urem (hb : b ≠ 0) : evalBin .urem ⟨t, a⟩ ⟨t, b⟩ = some (some (mk t (a % b))) := by simpa [evalBin] using hb
theorem evalBin_udiv_zero : evalBin .udiv ⟨t, a⟩ ⟨t, 0⟩ = some none := by simp [evalBin]
theorem evalBin_urem_zero : evalBin .urem ⟨t, a⟩ ⟨t, 0⟩ = some none := by simp [evalBin]

theorem evalUn_ineg : evalUn .ineg ⟨t, a⟩ = some (mk t (0 - a)) := rfl
theorem evalUn_ireduce (t' : Ty) (h : Ty.bits t' < Ty.bits t) : evalUn (.ireduce t') ⟨t, a⟩ = some (mk t' a) := by
  simp [evalUn, h]
theorem evalUn_uextend (t' : Ty) (h : Ty.bits t < Ty.bits t') : evalUn (.uextend t') ⟨t, a⟩ = some ⟨t', a⟩ := by
  simp [evalUn, h]
theorem evalUn_bswap (h : t ≠ .i8) :
    evalUn .bswap ⟨t, a⟩ = some (mk t (BitVec.ofNat 64 (bswapN t.bytes a.toNat))) := by
  simp [evalUn, h]

/-- the forms that occur: `ireduce.i32` of a register, `uextend.i64` of a 32-bit result -/
theorem evalUn_ireduce32 : evalUn (.ireduce .i32) ⟨.i64, a⟩ = some ⟨.i32, Interp.zx32 (Interp.lo32 a)⟩ := by
  rw [evalUn_ireduce _ _ _ (by decide), mk_i32]
theorem evalUn_uextend64 (h : t ≠ .i64) : evalUn (.uextend .i64) ⟨t, a⟩ = some ⟨.i64, a⟩ := by
  cases t <;> first | rfl | exact absurd rfl h

end Eval

/-! ### `insert_bounds_check` and the three access helpers -/

/-- the 22 ops of `insert_bounds_check ty base off` (21 values, then `trapz`), emitted when `n` values have been defined -/
def checkOps (ty : Ty) (base : Arg) (off : BitVec 16) (n : Nat) : List Op :=
  [ .iconst .i64 (BitVec.ofNat 64 ty.bytes),          -- n      access_size
    .iconst .i64 (off.signExtend 64),                 -- n+1    offset
    .bin .iadd base (.loc (n + 1)),                   -- n+2    start_addr
    .bin .iadd (.loc (n + 2)) (.loc n),               -- n+3    end_addr
    .icmp .uge (.loc (n + 3)) (.loc (n + 2)),         -- n+4    does_not_overflow
    .icmp .uge (.loc (n + 2)) (.var 15),              -- n+5
    .icmp .ule (.loc (n + 3)) (.var 16),              -- n+6
    .bin .band (.loc (n + 5)) (.loc (n + 6)),         -- n+7    stack_valid
    .icmpImm .ne (.var 11) 0,                         -- n+8    has_mem
    .icmp .uge (.loc (n + 2)) (.var 11),              -- n+9
    .icmp .ule (.loc (n + 3)) (.var 12),              -- n+10
    .bin .band (.loc (n + 9)) (.loc (n + 10)),        -- n+11
    .bin .band (.loc (n + 11)) (.loc (n + 8)),        -- n+12   mem_valid
    .icmpImm .ne (.var 13) 0,                         -- n+13   has_mbuf
    .icmp .uge (.loc (n + 2)) (.var 13),              -- n+14
    .icmp .ule (.loc (n + 3)) (.var 14),              -- n+15
    .bin .band (.loc (n + 14)) (.loc (n + 15)),       -- n+16
    .bin .band (.loc (n + 16)) (.loc (n + 13)),       -- n+17   mbuf_valid
    .bin .bor (.loc (n + 7)) (.loc (n + 12)),         -- n+18
    .bin .bor (.loc (n + 18)) (.loc (n + 17)),        -- n+19   valid_region
    .bin .band (.loc (n + 4)) (.loc (n + 19)),        -- n+20   valid
    .trapz (.loc (n + 20)) ]

theorem checkOps_length (ty : Ty) (base : Arg) (off : BitVec 16) (n : Nat) : (checkOps ty base off n).length = 22 := rfl

theorem insertBoundsCheck_run (ty : Ty) (base : Arg) (off : BitVec 16) (ops : List Op) (n : Nat) :
    (insertBoundsCheck ty base off).run ⟨ops, n, []⟩ = .ok ((), ⟨ops ++ checkOps ty base off n, n + 21, []⟩) := by
  simp only [insertBoundsCheck, B_bind_run, ins_run, emit_run, useVar_run_nil, vStackStart, vStackEnd, vMemStart, vMemEnd,
    vMbufStart, vMbufEnd, checkOps, List.append_assoc, List.cons_append, List.nil_append]

theorem regLoad_run (ty : Ty) (base : Arg) (off : BitVec 16) (ops : List Op) (n : Nat) :
    (regLoad ty base off).run ⟨ops, n, []⟩ =
      .ok (.loc (n + 21), ⟨ops ++ (checkOps ty base off n ++ [.load ty base off.toInt]), n + 22, []⟩) := by
  simp only [regLoad, B_bind_run, insertBoundsCheck_run, ins_run, List.append_assoc]

theorem regStore_run (ty : Ty) (base : Arg) (off : BitVec 16) (val : Arg) (ops : List Op) (n : Nat) :
    (regStore ty base off val).run ⟨ops, n, []⟩ =
      .ok ((), ⟨ops ++ (checkOps ty base off n ++ [.store val base off.toInt]), n + 21, []⟩) := by
  simp only [regStore, B_bind_run, insertBoundsCheck_run, emit_run, List.append_assoc]

theorem regAtomicAdd_run (ty : Ty) (base : Arg) (off : BitVec 16) (val : Arg) (ops : List Op) (n : Nat) :
    (regAtomicAdd ty base off val).run ⟨ops, n, []⟩ =
      .ok ((), ⟨ops ++ (checkOps ty base off n ++
        [.iconst .i64 (off.signExtend 64), .bin .iadd base (.loc (n + 21)), .atomicAdd ty (.loc (n + 22)) val]),
        n + 24, []⟩) := by
  simp only [regAtomicAdd, B_bind_run, insertBoundsCheck_run, ins_run, List.append_assoc, List.cons_append,
    List.nil_append, B_pure_run]

/-! ### signed reading, comparisons -/

theorem toInt_i64 (a : BitVec 64) : (⟨.i64, a⟩ : Val).toInt = a.toInt := by
  have := a.isLt
  by_cases h : a.toNat < 2 ^ 63
  · have h2 : 2 * a.toNat < 2 ^ 64 := by omega
    simp [Val.toInt, Ty.bits, BitVec.toInt, h, h2]
  · have h2 : ¬ 2 * a.toNat < 2 ^ 64 := by omega
    simp [Val.toInt, Ty.bits, BitVec.toInt, h, h2]

theorem zx32_toNat (y : BitVec 32) : (zx32 y).toNat = y.toNat := by
  simp only [zx32, BitVec.toNat_setWidth]
  have := y.isLt
  omega

theorem toInt_i32 (y : BitVec 32) : (⟨.i32, zx32 y⟩ : Val).toInt = y.toInt := by
  have := y.isLt
  by_cases h : y.toNat < 2 ^ 31
  · have h2 : 2 * y.toNat < 2 ^ 32 := by omega
    simp [Val.toInt, Ty.bits, BitVec.toInt, zx32_toNat, h, h2]
  · have h2 : ¬ 2 * y.toNat < 2 ^ 32 := by omega
    simp [Val.toInt, Ty.bits, BitVec.toInt, zx32_toNat, h, h2]

theorem zx32_eq_zero (y : BitVec 32) : zx32 y = 0 ↔ y = 0 := by
  constructor
  · intro h
    apply BitVec.eq_of_toNat_eq
    have := congrArg BitVec.toNat h
    rw [zx32_toNat] at this
    simpa using this
  · intro h; subst h; rfl

theorem zx32_inj (a b : BitVec 32) : zx32 a = zx32 b ↔ a = b := by
  constructor
  · intro h
    apply BitVec.eq_of_toNat_eq
    have := congrArg BitVec.toNat h
    rwa [zx32_toNat, zx32_toNat] at this
  · intro h; subst h; rfl

section CC
variable (t t' : Ty) (a b : BitVec 64)

/-- unsigned comparisons and equality look at the (zero-extended) payload only -/
theorem evalCC_eq : evalCC .eq ⟨t, a⟩ ⟨t', b⟩ = (a == b) := by rw [Bool.eq_iff_iff]; simp [evalCC]
theorem evalCC_ne : evalCC .ne ⟨t, a⟩ ⟨t', b⟩ = (a != b) := by rw [Bool.eq_iff_iff]; simp [evalCC]
theorem evalCC_ugt : evalCC .ugt ⟨t, a⟩ ⟨t', b⟩ = b.ult a := rfl
theorem evalCC_uge : evalCC .uge ⟨t, a⟩ ⟨t', b⟩ = b.ule a := rfl
theorem evalCC_ult : evalCC .ult ⟨t, a⟩ ⟨t', b⟩ = a.ult b := rfl
theorem evalCC_ule : evalCC .ule ⟨t, a⟩ ⟨t', b⟩ = a.ule b := rfl

theorem evalCC_sgt64 : evalCC .sgt ⟨.i64, a⟩ ⟨.i64, b⟩ = b.slt a := by simp only [evalCC, toInt_i64, BitVec.slt]
theorem evalCC_sge64 : evalCC .sge ⟨.i64, a⟩ ⟨.i64, b⟩ = b.sle a := by simp only [evalCC, toInt_i64, BitVec.sle]
theorem evalCC_slt64 : evalCC .slt ⟨.i64, a⟩ ⟨.i64, b⟩ = a.slt b := by simp only [evalCC, toInt_i64, BitVec.slt]
theorem evalCC_sle64 : evalCC .sle ⟨.i64, a⟩ ⟨.i64, b⟩ = a.sle b := by simp only [evalCC, toInt_i64, BitVec.sle]

end CC

section CC32
variable (a b : BitVec 32)

theorem evalCC_eq32 : evalCC .eq ⟨.i32, zx32 a⟩ ⟨.i32, zx32 b⟩ = (a == b) := by
  rw [Bool.eq_iff_iff]; simp [evalCC, zx32_inj]
theorem evalCC_ne32 : evalCC .ne ⟨.i32, zx32 a⟩ ⟨.i32, zx32 b⟩ = (a != b) := by
  rw [Bool.eq_iff_iff]; simp [evalCC, zx32_inj]
theorem evalCC_ugt32 : evalCC .ugt ⟨.i32, zx32 a⟩ ⟨.i32, zx32 b⟩ = b.ult a := by
  simp only [evalCC, zx32_toNat, BitVec.ult]
theorem evalCC_uge32 : evalCC .uge ⟨.i32, zx32 a⟩ ⟨.i32, zx32 b⟩ = b.ule a := by
  simp only [evalCC, zx32_toNat, BitVec.ule]
theorem evalCC_ult32 : evalCC .ult ⟨.i32, zx32 a⟩ ⟨.i32, zx32 b⟩ = a.ult b := by
  simp only [evalCC, zx32_toNat, BitVec.ult]
theorem evalCC_ule32 : evalCC .ule ⟨.i32, zx32 a⟩ ⟨.i32, zx32 b⟩ = a.ule b := by
  simp only [evalCC, zx32_toNat, BitVec.ule]
theorem evalCC_sgt32 : evalCC .sgt ⟨.i32, zx32 a⟩ ⟨.i32, zx32 b⟩ = b.slt a := by
  simp only [evalCC, toInt_i32, BitVec.slt]
theorem evalCC_sge32 : evalCC .sge ⟨.i32, zx32 a⟩ ⟨.i32, zx32 b⟩ = b.sle a := by
  simp only [evalCC, toInt_i32, BitVec.sle]
theorem evalCC_slt32 : evalCC .slt ⟨.i32, zx32 a⟩ ⟨.i32, zx32 b⟩ = a.slt b := by
  simp only [evalCC, toInt_i32, BitVec.slt]
theorem evalCC_sle32 : evalCC .sle ⟨.i32, zx32 a⟩ ⟨.i32, zx32 b⟩ = a.sle b := by
  simp only [evalCC, toInt_i32, BitVec.sle]

end CC32

/-- the value of a comparison as a branch / select condition -/
theorem bool_v_ne_zero (c : Bool) : ((bool c).v ≠ 0) ↔ c = true := by cases c <;> simp [ClifSem.bool]
theorem bool_v_eq_zero (c : Bool) : ((bool c).v = 0) ↔ c = false := by cases c <;> simp [ClifSem.bool]
@[simp] theorem bool_ty (c : Bool) : (bool c).ty = .i8 := rfl

theorem evalBin_band_bool (x y : Bool) : evalBin .band (bool x) (bool y) = some (some (bool (x && y))) := by
  cases x <;> cases y <;> decide
theorem evalBin_bor_bool (x y : Bool) : evalBin .bor (bool x) (bool y) = some (some (bool (x || y))) := by
  cases x <;> cases y <;> decide


/-! ### 32-bit arithmetic: the IR computes on zero-extended payloads and truncates, the interpreter computes in `u32` -/

section T32
variable (a b : BitVec 32) (k : Nat)

theorem trunc32_toNat (x : BitVec 64) : (trunc .i32 x).toNat = x.toNat % 2 ^ 32 := trunc_toNat .i32 x

theorem trunc32_zx32 : trunc .i32 (zx32 a) = zx32 a := by
  rw [trunc_i32, lo32_zx32]

theorem trunc32_add : trunc .i32 (zx32 a + zx32 b) = zx32 (a + b) := by
  apply BitVec.eq_of_toNat_eq
  simp only [trunc32_toNat, zx32_toNat, BitVec.toNat_add]
  omega

theorem trunc32_sub : trunc .i32 (zx32 a - zx32 b) = zx32 (a - b) := by
  apply BitVec.eq_of_toNat_eq
  simp only [trunc32_toNat, zx32_toNat, BitVec.toNat_sub]
  have := a.isLt; have := b.isLt
  omega

theorem trunc32_mul : trunc .i32 (zx32 a * zx32 b) = zx32 (a * b) := by
  apply BitVec.eq_of_toNat_eq
  simp only [trunc32_toNat, zx32_toNat, BitVec.toNat_mul]
  omega

theorem zx32_and : zx32 a &&& zx32 b = zx32 (a &&& b) := by
  simp only [zx32]; ext i; simp
theorem zx32_or : zx32 a ||| zx32 b = zx32 (a ||| b) := by
  simp only [zx32]; ext i; simp
theorem zx32_xor : zx32 a ^^^ zx32 b = zx32 (a ^^^ b) := by
  simp only [zx32]; ext i; simp

theorem trunc32_and : trunc .i32 (zx32 a &&& zx32 b) = zx32 (a &&& b) := by rw [zx32_and, trunc32_zx32]
theorem trunc32_or : trunc .i32 (zx32 a ||| zx32 b) = zx32 (a ||| b) := by rw [zx32_or, trunc32_zx32]
theorem trunc32_xor : trunc .i32 (zx32 a ^^^ zx32 b) = zx32 (a ^^^ b) := by rw [zx32_xor, trunc32_zx32]

theorem trunc32_udiv : trunc .i32 (zx32 a / zx32 b) = zx32 (a / b) := by
  apply BitVec.eq_of_toNat_eq
  simp only [trunc32_toNat, zx32_toNat, BitVec.toNat_udiv]
  have := a.isLt
  have : a.toNat / b.toNat ≤ a.toNat := Nat.div_le_self _ _
  generalize a.toNat / b.toNat = q at *
  omega

theorem trunc32_urem : trunc .i32 (zx32 a % zx32 b) = zx32 (a % b) := by
  apply BitVec.eq_of_toNat_eq
  simp only [trunc32_toNat, zx32_toNat, BitVec.toNat_umod]
  have := a.isLt
  have : a.toNat % b.toNat ≤ a.toNat := Nat.mod_le _ _
  omega

theorem trunc32_shl : trunc .i32 (zx32 a <<< k) = zx32 (a <<< k) := by
  apply BitVec.eq_of_toNat_eq
  simp only [trunc32_toNat, zx32_toNat, BitVec.toNat_shiftLeft]
  omega

theorem trunc32_ushr : trunc .i32 (zx32 a >>> k) = zx32 (a >>> k) := by
  apply BitVec.eq_of_toNat_eq
  simp only [trunc32_toNat, zx32_toNat, BitVec.toNat_ushiftRight]
  have := a.isLt
  have : a.toNat >>> k ≤ a.toNat := by rw [Nat.shiftRight_eq_div_pow]; exact Nat.div_le_self _ _
  generalize a.toNat >>> k = q at *
  omega

theorem sx32_mask (y : BitVec 32) : sx32 y &&& 0xffffffff#64 = zx32 y := Rbpf.sx32_and_mask y

/-- `sshr` on an `i32`: the interpreter's `((d as i32) >> k) as u64 & 0xffffffff` -/
theorem trunc32_sshr : trunc .i32 (BitVec.ofInt 64 ((⟨.i32, zx32 a⟩ : Val).toInt >>> k)) =
    sx32 (a.sshiftRight k) &&& 0xffffffff#64 := by
  rw [sx32_mask, toInt_i32, trunc_i32]
  congr 1
  show lo32 (BitVec.ofInt 64 (a.toInt >>> k)) = BitVec.ofInt 32 (a.toInt >>> k)
  generalize a.toInt >>> k = z
  apply BitVec.eq_of_toNat_eq
  simp only [lo32, BitVec.toNat_setWidth, BitVec.toNat_ofInt]
  omega

theorem trunc32_neg : trunc .i32 (0 - zx32 a) = sx32 (- a) &&& 0xffffffff#64 := by
  rw [sx32_mask]
  apply BitVec.eq_of_toNat_eq
  have h0 : (0 : BitVec 64).toNat = 0 := rfl
  simp only [trunc32_toNat, zx32_toNat, BitVec.toNat_sub, BitVec.toNat_neg, h0]
  have := a.isLt
  omega

end T32
/-- `sshr` on an `i64` is the interpreter's `(d as i64) >> k` -/
theorem ofInt_sshr64 (a : BitVec 64) (k : Nat) :
    BitVec.ofInt 64 ((⟨.i64, a⟩ : Val).toInt >>> k) = a.sshiftRight k := by
  rw [toInt_i64]; rfl

/-- shift amounts: the IR takes them modulo the width of the type -/
theorem shamt64 (b : BitVec 64) : b.toNat % Ty.bits .i64 = b.toNat % 64 := rfl
theorem shamt32 (b : BitVec 32) : (zx32 b).toNat % Ty.bits .i32 = b.toNat % 32 := by rw [zx32_toNat]; rfl

theorem zero_sub64 (a : BitVec 64) : (0 : BitVec 64) - a = - a := BitVec.zero_sub a

/-! ## 6. running the bounds check -/

theorem ofNat_bne_zero (x : Nat) : (BitVec.ofNat 64 x != 0) = (x % 2 ^ 64 != 0) := by
  rw [Bool.eq_iff_iff]
  simp only [bne_iff_ne, ne_eq]
  constructor
  · intro h h2; apply h; apply BitVec.eq_of_toNat_eq; simpa using h2
  · intro h h2; apply h; have := congrArg BitVec.toNat h2; simpa using this

theorem ty_bytes_range (ty : Ty) : 1 ≤ ty.bytes ∧ ty.bytes ≤ 8 := by cases ty <;> decide

/-- the condition the 21 values of `insert_bounds_check` compute (with the variables as `RelC` fixes them: the packet
    start is null for an empty packet) is `clifBoundsOk` -/
theorem clifBoundsOk_ir (m : Memory) (b : BitVec 64) (off : BitVec 16) (w : Nat) (hw : 1 ≤ w ∧ w ≤ 8) :
    (let start := b + off.signExtend 64
     let endA := start + BitVec.ofNat 64 w
     let MS := BitVec.ofNat 64 (if m.mem.bytes.size = 0 then 0 else m.mem.base)
     let BS := BitVec.ofNat 64 m.mbuff.base
     let SS := BitVec.ofNat 64 m.stack.base
     (start.ule endA &&
       (((SS.ule start && endA.ule (SS + BitVec.ofNat 64 m.stack.bytes.size)) ||
         ((MS.ule start && endA.ule (MS + BitVec.ofNat 64 m.mem.bytes.size)) && (MS != 0))) ||
         ((BS.ule start && endA.ule (BS + BitVec.ofNat 64 m.mbuff.bytes.size)) && (BS != 0)))))
    = EngineSem.clifBoundsOk m b off w := by
  simp only [EngineSem.clifBoundsOk, ← ofNat_bne_zero]
  by_cases hsz : m.mem.bytes.size = 0
  · simp only [hsz, if_true]
    generalize b + off.signExtend 64 = start
    cases hdno : start.ule (start + BitVec.ofNat 64 w) with
    | false => simp
    | true =>
      have hmem : ((BitVec.ofNat 64 m.mem.base).ule start &&
          (start + BitVec.ofNat 64 w).ule (BitVec.ofNat 64 m.mem.base)) = false := by
        rw [Bool.eq_false_iff]
        intro h
        simp only [Bool.and_eq_true, BitVec.ule, decide_eq_true_eq, BitVec.toNat_add, BitVec.toNat_ofNat] at h hdno
        have := start.isLt
        omega
      simp [hmem]
  · simp only [hsz, if_false]

/-- operands stay valid when the local list grows -/
theorem arg_append {σ : St} {loc : List Val} {a : Arg} {x : Val} (more : List Val) (h : arg σ loc a = some x) :
    arg σ (loc ++ more) a = some x := by
  cases a with
  | loc k =>
    simp only [arg_loc] at h ⊢
    rw [List.getElem?_append_left (by
      rcases Nat.lt_or_ge k loc.length with hk | hk
      · exact hk
      · rw [List.getElem?_eq_none hk] at h; cases h)]
    exact h
  | var v => exact h
  | param k => exact h

theorem getElem?_append_length_add {α : Type} (l l' : List α) (j : Nat) : (l ++ l')[l.length + j]? = l'[j]? := by
  rw [List.getElem?_append_right (by omega)]
  congr 1; omega

theorem evalCC_ne_zero (a : BitVec 64) : evalCC .ne ⟨.i64, a⟩ ⟨.i64, BitVec.ofInt 64 0⟩ = (a != 0) := by
  rw [Bool.eq_iff_iff]; simp [evalCC]

theorem getElem?_append_length {α : Type} (l l' : List α) : (l ++ l')[l.length]? = l'[0]? :=
  getElem?_append_length_add l l' 0

/-- the 21 values -/
def checkVals (m : Memory) (b : BitVec 64) (off : BitVec 16) (w : Nat) : List Val :=
  let start := b + off.signExtend 64
  let endA := start + BitVec.ofNat 64 w
  let MS := BitVec.ofNat 64 (if m.mem.bytes.size = 0 then 0 else m.mem.base)
  let ME := MS + BitVec.ofNat 64 m.mem.bytes.size
  let BS := BitVec.ofNat 64 m.mbuff.base
  let BE := BS + BitVec.ofNat 64 m.mbuff.bytes.size
  let SS := BitVec.ofNat 64 m.stack.base
  let SE := SS + BitVec.ofNat 64 m.stack.bytes.size
  [ ⟨.i64, BitVec.ofNat 64 w⟩, ⟨.i64, off.signExtend 64⟩, ⟨.i64, start⟩, ⟨.i64, endA⟩,
    bool (start.ule endA),
    bool (SS.ule start), bool (endA.ule SE), bool (SS.ule start && endA.ule SE),
    bool (MS != 0), bool (MS.ule start), bool (endA.ule ME), bool (MS.ule start && endA.ule ME),
    bool ((MS.ule start && endA.ule ME) && (MS != 0)),
    bool (BS != 0), bool (BS.ule start), bool (endA.ule BE), bool (BS.ule start && endA.ule BE),
    bool ((BS.ule start && endA.ule BE) && (BS != 0)),
    bool ((SS.ule start && endA.ule SE) || ((MS.ule start && endA.ule ME) && (MS != 0))),
    bool (((SS.ule start && endA.ule SE) || ((MS.ule start && endA.ule ME) && (MS != 0))) ||
      ((BS.ule start && endA.ule BE) && (BS != 0))),
    bool (EngineSem.clifBoundsOk m b off w) ]

theorem checkVals_length (m : Memory) (b : BitVec 64) (off : BitVec 16) (w : Nat) : (checkVals m b off w).length = 21 := rfl

theorem boundsCheck_values {env : Env} {σ : St} {s : State} (hrel : RelC σ s) (ty : Ty) (base : Arg)
    (off : BitVec 16) (loc : List Val) (b : BitVec 64) (hb : arg σ loc base = some ⟨.i64, b⟩) :
    execOps env σ loc ((checkOps ty base off loc.length).take 21) = .ok (σ, loc ++ checkVals s.mem b off ty.bytes) := by
  simp only [checkVals, ← clifBoundsOk_ir s.mem b off ty.bytes (ty_bytes_range ty)]
  have hb' : ∀ more, arg σ (loc ++ more) base = some ⟨.i64, b⟩ := fun more => arg_append more hb
  simp only [checkOps, List.take, execOps, step, arg_loc, hb', List.append_assoc, List.cons_append, List.nil_append,
    getElem?_append_length_add, getElem?_append_length, List.getElem?_cons_succ, List.getElem?_cons_zero,
    arg_var_memStart hrel, arg_var_memEnd hrel, arg_var_mbufStart hrel, arg_var_mbufEnd hrel,
    arg_var_stackStart hrel, arg_var_stackEnd hrel, mk_i64, evalBin_iadd, evalCC_uge, evalCC_ule, evalCC_ne_zero,
    evalBin_band_bool, evalBin_bor_bool, if_true]

theorem checkOps_split (ty : Ty) (base : Arg) (off : BitVec 16) (n : Nat) :
    checkOps ty base off n = (checkOps ty base off n).take 21 ++ [.trapz (.loc (n + 20))] := rfl

/-- the 22 ops of `insert_bounds_check`: when `clifBoundsOk` holds they fall through, state unchanged, 21 values added
    (the last one, `valid`, is `bool true`); otherwise `trapz` fires, state unchanged -/
theorem boundsCheck_exec {env : Env} {σ : St} {s : State} (hrel : RelC σ s) (ty : Ty) (base : Arg)
    (off : BitVec 16) (loc : List Val) (b : BitVec 64) (hb : arg σ loc base = some ⟨.i64, b⟩) :
    if EngineSem.clifBoundsOk s.mem b off ty.bytes = true then
      ∃ vals, vals.length = 21 ∧ execOps env σ loc (checkOps ty base off loc.length) = .ok (σ, loc ++ vals)
    else execOps env σ loc (checkOps ty base off loc.length) = .error (σ, .trap) := by
  have hlast : arg σ (loc ++ checkVals s.mem b off ty.bytes) (.loc (loc.length + 20)) =
      some (bool (EngineSem.clifBoundsOk s.mem b off ty.bytes)) := by
    rw [arg_loc, getElem?_append_length_add]; rfl
  rw [checkOps_split, execOps_append_ok _ (boundsCheck_values hrel ty base off loc b hb)]
  split
  · next hok =>
    refine ⟨checkVals s.mem b off ty.bytes, rfl, ?_⟩
    rw [execOps_cons_ok _ (step_trapz_ok hlast
      ((bool_v_ne_zero _).2 hok))]
    rfl
  · next hbad =>
    exact execOps_cons_error _ (step_trapz_trap hlast
      ((bool_v_eq_zero _).2 (by simpa using hbad)))

theorem boundsCheck_run_ok {env : Env} {σ : St} {s : State} (hrel : RelC σ s) (ty : Ty) (base : Arg)
    (off : BitVec 16) (loc : List Val) (b : BitVec 64) (hb : arg σ loc base = some ⟨.i64, b⟩)
    (hok : EngineSem.clifBoundsOk s.mem b off ty.bytes = true) (rest : List Op) :
    ∃ vals, vals.length = 21 ∧
      runOps env σ loc (checkOps ty base off loc.length ++ rest) = runOps env σ (loc ++ vals) rest := by
  have h := boundsCheck_exec (env := env) hrel ty base off loc b hb
  rw [if_pos hok] at h
  obtain ⟨vals, hlen, hex⟩ := h
  exact ⟨vals, hlen, runOps_append rest hex⟩

theorem boundsCheck_run_trap {env : Env} {σ : St} {s : State} (hrel : RelC σ s) (ty : Ty) (base : Arg)
    (off : BitVec 16) (loc : List Val) (b : BitVec 64) (hb : arg σ loc base = some ⟨.i64, b⟩)
    (hbad : EngineSem.clifBoundsOk s.mem b off ty.bytes = false) (rest : List Op) :
    runOps env σ loc (checkOps ty base off loc.length ++ rest) = (σ, .trap) := by
  have h := boundsCheck_exec (env := env) hrel ty base off loc b hb
  rw [if_neg (by simp [hbad])] at h
  exact runOps_append_error rest h

/-- `MemOk` gives the hypotheses of `C11_boundsOk_eq_checkMem`: the inserted check is `checkMem` without registered
    ranges, which is the test `Interp.load` / `store` / `xaddAnyAlign` make under `clifExec` -/
theorem clifBoundsOk_eq_checkMem {m : Memory} (hm : MemOk m) (b : BitVec 64) (off : BitVec 16) (ty : Ty) :
    EngineSem.clifBoundsOk m b off ty.bytes = checkMem m [] (b + off.signExtend 64) ty.bytes :=
  C11_boundsOk_eq_checkMem m b off ty.bytes (ty_bytes_range ty)
    ⟨hm.mbuffTop, hm.memTop, hm.stackTop, fun _ h => by cases h⟩ ⟨hm.nullMem, hm.nullMbuff⟩ hm.below

/-! ## 7. further conveniences -/

/-- a straight-line list followed by the final `def_var` -/
theorem runOps_append_defVar {env : Env} {s s' : St} {loc loc' : List Val} {xs : List Op} {v : Nat} {a : Arg}
    {x : BitVec 64} (h : execOps env s loc xs = .ok (s', loc')) (ha : arg s' loc' a = some ⟨.i64, x⟩) (hv : v < 17) :
    runOps env s loc (xs ++ [.defVar v a]) = ({ s' with vars := s'.vars.setIfInBounds v x }, .fall) := by
  rw [runOps_append _ h, runOps_defVar_last ha hv]

/-! ### a successful builder run read its register fields in range -/

section OkLt
variable {i : Insn} {st : BState}

theorem insnDst_ok {r : Arg × BState} (h : (insnDst i).run st = .ok r) : i.dst.toNat < 11 := by
  apply Decidable.byContradiction; intro hd; rw [insnDst_run_ge i st hd] at h; cases h
theorem insnSrc_ok {r : Arg × BState} (h : (insnSrc i).run st = .ok r) : i.src.toNat < 11 := by
  apply Decidable.byContradiction; intro hd; rw [insnSrc_run_ge i st hd] at h; cases h
theorem insnDst32_ok {r : Arg × BState} (h : (insnDst32 i).run st = .ok r) : i.dst.toNat < 11 := by
  apply Decidable.byContradiction; intro hd; rw [insnDst32_run_ge i st hd] at h; cases h
theorem insnSrc32_ok {r : Arg × BState} (h : (insnSrc32 i).run st = .ok r) : i.src.toNat < 11 := by
  apply Decidable.byContradiction; intro hd; rw [insnSrc32_run_ge i st hd] at h; cases h
theorem setDst_ok {v : Arg} {r : Unit × BState} (h : (setDst i v).run st = .ok r) : i.dst.toNat < 11 := by
  apply Decidable.byContradiction; intro hd; rw [setDst_run_ge i v st hd] at h; cases h
theorem setDst32_ok {v : Arg} {r : Unit × BState} (h : (setDst32 i v).run st = .ok r) : i.dst.toNat < 11 := by
  apply Decidable.byContradiction; intro hd; rw [setDst32_run_ge i v st hd] at h; cases h
theorem alu64Reg_ok {o : BinOp} {r : Unit × BState} (h : (alu64Reg o i).run st = .ok r) :
    i.dst.toNat < 11 ∧ i.src.toNat < 11 := by
  apply Decidable.byContradiction; intro hd; rw [alu64Reg_run_ge o i st hd] at h; cases h
theorem alu64Imm_ok {o : BinOp} {r : Unit × BState} (h : (alu64Imm o i).run st = .ok r) : i.dst.toNat < 11 := by
  apply Decidable.byContradiction; intro hd; rw [alu64Imm_run_ge o i st hd] at h; cases h
theorem alu32Reg_ok {o : BinOp} {r : Unit × BState} (h : (alu32Reg o i).run st = .ok r) :
    i.dst.toNat < 11 ∧ i.src.toNat < 11 := by
  apply Decidable.byContradiction; intro hd; rw [alu32Reg_run_ge o i st hd] at h; cases h
theorem alu32Imm_ok {o : BinOp} {r : Unit × BState} (h : (alu32Imm o i).run st = .ok r) : i.dst.toNat < 11 := by
  apply Decidable.byContradiction; intro hd; rw [alu32Imm_run_ge o i st hd] at h; cases h

end OkLt

/-- `arm … = some ops` as a statement about the builder run -/
theorem arm_eq_some {helpers : Nat → Bool} {p : Bytes} {pc : Nat} {i : Insn} {ops : List Op}
    (h : arm helpers p pc i = some ops) : ∃ st, (armB helpers p pc i).run ⟨[], 0, []⟩ = .ok ((), st) ∧ st.ops = ops := by
  rw [arm_eq] at h
  cases hr : (armB helpers p pc i).run ⟨[], 0, []⟩ with
  | error e => rw [hr] at h; cases h
  | ok r =>
    rw [hr] at h
    exact ⟨r.2, rfl, by simpa using h⟩

/-! ### the arms of `arm` for the four two-operand ALU shapes, ready to use

`harm : arm … i = some ops` with `armB … i = alu64Reg o i` (after `simp only [armB, BitVec.reduceToNat]`) gives the
registers in range and the explicit list. -/

theorem alu64Reg_arm {o : BinOp} {i : Insn} {ops : List Op}
    (h : (((alu64Reg o i).run ⟨[], 0, []⟩).map (·.2.ops)).toOption = some ops) :
    i.dst.toNat < 11 ∧ i.src.toNat < 11 ∧
      ops = [.bin o (.var i.dst.toNat) (.var i.src.toNat), .defVar i.dst.toNat (.loc 0)] := by
  by_cases hreg : i.dst.toNat < 11 ∧ i.src.toNat < 11
  · rw [alu64Reg_run o i _ _ hreg.1 hreg.2] at h
    exact ⟨hreg.1, hreg.2, by simpa using h.symm⟩
  · rw [alu64Reg_run_ge o i _ hreg] at h; cases h

theorem alu64Imm_arm {o : BinOp} {i : Insn} {ops : List Op}
    (h : (((alu64Imm o i).run ⟨[], 0, []⟩).map (·.2.ops)).toOption = some ops) :
    i.dst.toNat < 11 ∧
      ops = [.iconst .i64 (i.imm.signExtend 64), .bin o (.var i.dst.toNat) (.loc 0), .defVar i.dst.toNat (.loc 1)] := by
  by_cases hd : i.dst.toNat < 11
  · rw [alu64Imm_run o i _ _ hd] at h
    exact ⟨hd, by simpa using h.symm⟩
  · rw [alu64Imm_run_ge o i _ hd] at h; cases h

theorem alu32Reg_arm {o : BinOp} {i : Insn} {ops : List Op}
    (h : (((alu32Reg o i).run ⟨[], 0, []⟩).map (·.2.ops)).toOption = some ops) :
    i.dst.toNat < 11 ∧ i.src.toNat < 11 ∧
      ops = [.un (.ireduce .i32) (.var i.dst.toNat), .un (.ireduce .i32) (.var i.src.toNat),
             .bin o (.loc 0) (.loc 1), .un (.uextend .i64) (.loc 2), .defVar i.dst.toNat (.loc 3)] := by
  by_cases hreg : i.dst.toNat < 11 ∧ i.src.toNat < 11
  · rw [alu32Reg_run o i _ _ hreg.1 hreg.2] at h
    exact ⟨hreg.1, hreg.2, by simpa using h.symm⟩
  · rw [alu32Reg_run_ge o i _ hreg] at h; cases h

theorem alu32Imm_arm {o : BinOp} {i : Insn} {ops : List Op}
    (h : (((alu32Imm o i).run ⟨[], 0, []⟩).map (·.2.ops)).toOption = some ops) :
    i.dst.toNat < 11 ∧
      ops = [.un (.ireduce .i32) (.var i.dst.toNat), .iconst .i32 (i.imm.zeroExtend 64),
             .bin o (.loc 0) (.loc 1), .un (.uextend .i64) (.loc 2), .defVar i.dst.toNat (.loc 3)] := by
  by_cases hd : i.dst.toNat < 11
  · rw [alu32Imm_run o i _ _ hd] at h
    exact ⟨hd, by simpa using h.symm⟩
  · rw [alu32Imm_run_ge o i _ hd] at h; cases h

/-! ### more values -/

/-- `lddw`: the constant `next.imm ++ imm` is the interpreter's `(imm as u32 as u64) + ((next.imm as u64) << 32)` -/
theorem lddw_const (lo hi : BitVec 32) : zx32 lo + (sx32 hi <<< (32 : Nat)) = hi ++ lo := Rbpf.lddw_value lo hi

/-- `bswap` of the IR on a payload is the interpreter's `bswap` (same definition) -/
theorem bswapN_eq (d : BitVec 64) (w : Nat) : BitVec.ofNat 64 (bswapN w d.toNat) = Interp.bswap d w := rfl

theorem leBytes_mod256 (w v : Nat) : leBytes (v % 256 ^ w) w = leBytes v w := by
  induction w generalizing v with
  | zero => rfl
  | succ w ih =>
    simp only [leBytes]
    congr 1
    · apply BitVec.eq_of_toNat_eq
      simp only [BitVec.toNat_ofNat]
      have : 256 ^ (w + 1) = 2 ^ 8 * 256 ^ w := by rw [Nat.pow_succ, Nat.mul_comm]
      rw [this, Nat.mod_mul_right_mod]
    · have : v % 256 ^ (w + 1) / 256 = (v / 256) % 256 ^ w := by
        rw [Nat.pow_succ, Nat.mul_comm, Nat.mod_mul_right_div_self]
      rw [this, ih]

theorem bits_bytes (t : Ty) : 2 ^ Ty.bits t = 256 ^ t.bytes := by cases t <;> rfl

/-- the low-order bytes do not see `ireduce` -/
theorem leBytes_trunc (t : Ty) (v : BitVec 64) : leBytes (trunc t v).toNat t.bytes = leBytes v.toNat t.bytes := by
  rw [trunc_toNat, bits_bytes, leBytes_mod256]

theorem leValue_lt (l : List (BitVec 8)) : leValue l < 256 ^ l.length := by
  induction l with
  | nil => simp [leValue]
  | cons b rest ih =>
    simp only [leValue, List.length_cons, Nat.pow_succ]
    have := b.isLt
    omega

/-- `be16` / `be32` / `be64`: `ireduce; bswap; uextend` is the interpreter's `bswap d w` -/
theorem trunc_bswap (t : Ty) (d : BitVec 64) :
    trunc t (BitVec.ofNat 64 (bswapN t.bytes (trunc t d).toNat)) = Interp.bswap d t.bytes := by
  unfold bswapN Interp.bswap
  rw [leBytes_trunc]
  apply BitVec.eq_of_toNat_eq
  rw [trunc_toNat, bits_bytes]
  have h := leValue_lt (leBytes d.toNat t.bytes).reverse
  rw [List.length_reverse, leBytes_length] at h
  have h8 : 256 ^ t.bytes ≤ 2 ^ 64 := by cases t <;> decide
  simp only [BitVec.toNat_ofNat]
  rw [Nat.mod_eq_of_lt (a := leValue _ % 2 ^ 64) (by omega)]

end Rbpf.ClifSim
