/-
  Auxiliary facts for the memory / call class of the Cranelift-IR simulation (`Mem.lean`): addresses, byte lists, the
  width codes, and the run of the op lists of the four access shapes (load, store, atomic add) from a state in which
  the bounds check has been decided.
-/
import RbpfModel.Lemmas.ClifSim.Base
namespace Rbpf.ClifSim
open Rbpf.ClifAst Rbpf.ClifSem

/-! ### addresses -/

/-- the IR's `base + offset` (offset field sign-extended by `as i32`) is the interpreter's `wrapping_offset` -/
theorem mem_ea (b : BitVec 64) (off : BitVec 16) : ea ⟨.i64, b⟩ off.toInt = (b + off.signExtend 64).toNat := rfl

theorem mem_signExtend_zero : (0 : BitVec 16).signExtend 64 = 0 := by decide

theorem mem_ea_zero (b : BitVec 64) : ea ⟨.i64, b⟩ (0 : BitVec 16).toInt = b.toNat := by
  rw [mem_ea, mem_signExtend_zero]; simp

/-! ### byte lists -/

theorem mem_leBytes_mod (w v : Nat) : leBytes (v % 256 ^ w) w = leBytes v w := by
  induction w generalizing v with
  | zero => rfl
  | succ w ih =>
    simp only [leBytes]
    congr 1
    · apply BitVec.eq_of_toNat_eq
      simp only [BitVec.toNat_ofNat]
      have : 256 ^ (w + 1) = 2 ^ 8 * 256 ^ w := by rw [Nat.pow_succ, Nat.mul_comm]
      rw [this, Nat.mod_mul_right_mod]
    · have : v % 256 ^ (w + 1) / 256 = (v / 256) % 256 ^ w := by
        rw [Nat.pow_succ, Nat.mul_comm, Nat.mod_mul_right_div_self]
      rw [this, ih]

theorem mem_bits_bytes (t : Ty) : 2 ^ Ty.bits t = 256 ^ t.bytes := by cases t <;> rfl

/-- `ireduce` before a store changes nothing: the store writes the low-order bytes -/
theorem mem_leBytes_trunc (t : Ty) (v : BitVec 64) : leBytes (trunc t v).toNat t.bytes = leBytes v.toNat t.bytes := by
  rw [trunc_toNat, mem_bits_bytes, mem_leBytes_mod]

/-! ### the goal of `ArmSim` as a property of the result of the run -/

/-- `ArmPost` with the run of the op list as a parameter -/
def MemRunPost (s : State) (i : Insn) (r : St × Flow) (o : Outcome) : Prop :=
  match o with
  | .next s' => ∃ σ' f, r = (σ', f) ∧ RelC σ' s' ∧ MemOk s'.mem ∧
      ((f = .fall ∧ s'.pc = s.pc + width i) ∨ f = .goto s'.pc)
  | .done r0 s' => ∃ σ', r = (σ', .ret r0) ∧ σ'.mem = s'.mem ∧ σ'.log = s'.log
  | .err .oob _ => ∃ σ', r = (σ', .trap) ∧ σ'.mem = s.mem ∧ σ'.log = s.log
  | _ => True

theorem mem_armPost_of_runPost {env : Env} {σ : St} {s : State} {ops : List Op} {i : Insn} {o : Outcome}
    (h : MemRunPost s i (runOps env σ [] ops) o) : ArmPost env σ s ops i o := by
  cases o with
  | err e s' => cases e <;> exact h
  | _ => exact h

theorem mem_runPost_trap {σ : St} {s s' : State} {i : Insn} (hrel : RelC σ s) :
    MemRunPost s i (σ, .trap) (.err .oob s') := ⟨σ, rfl, hrel.mem, hrel.log⟩

theorem mem_getElem?_last (l : List Val) (v : Val) (n : Nat) (h : n = l.length) : (l ++ [v])[n]? = some v := by
  subst h; simp

/-! ### the access shapes, from the bounds check on -/

/-- what follows the `load`: widening unless 64-bit, then the destination -/
def memLoadTail (ty : Ty) (dst n : Nat) : List Op :=
  match ty with
  | .i64 => [.defVar dst (.loc n)]
  | _ => [.un (.uextend .i64) (.loc n), .defVar dst (.loc (n + 1))]

section Shapes
variable {env : Env} {σ : St} {s : State} {i : Insn}

/-- the tail of a load: the loaded value, zero-extended, goes to `dst` -/
theorem mem_loadTail_run (ty : Ty) (dst : Nat) (hd : dst < 11) (loc : List Val) (x : BitVec 64) :
    runOps env σ (loc ++ [⟨ty, x⟩]) (memLoadTail ty dst loc.length) = ({ σ with vars := σ.vars.setIfInBounds dst x }, .fall) := by
  have h0 : arg σ (loc ++ [⟨ty, x⟩]) (.loc loc.length) = some ⟨ty, x⟩ := by
    rw [arg_loc]; exact mem_getElem?_last _ _ _ rfl
  by_cases h64 : ty = .i64
  · subst h64
    exact runOps_defVar_last h0 (by omega)
  · have ht : memLoadTail ty dst loc.length = [.un (.uextend .i64) (.loc loc.length), .defVar dst (.loc (loc.length + 1))] := by
      cases ty <;> first | rfl | exact absurd rfl h64
    rw [ht, runOps_un _ h0 (evalUn_uextend64 ty x h64)]
    exact runOps_defVar_last (by rw [arg_loc]; exact mem_getElem?_last _ _ _ (by simp)) (by omega)

theorem mem_load_post (hrel : RelC σ s) (hm : MemOk s.mem) (hw : width i = 1) (ty : Ty) (base : Arg) (off : BitVec 16)
    (dst : Nat) (hd : dst < 11) (loc : List Val) (b : BitVec 64) (hb : arg σ loc base = some ⟨.i64, b⟩) :
    MemRunPost s i
      (runOps env σ loc (checkOps ty base off loc.length ++ (.load ty base off.toInt :: memLoadTail ty dst (loc.length + 21))))
      (Interp.load { env with allowed := [] } { s with pc := s.pc + 1 } (b + off.signExtend 64) ty.bytes dst) := by
  unfold Interp.load
  show MemRunPost s i _ (if checkMem s.mem [] (b + off.signExtend 64) ty.bytes = true then _ else _)
  rw [← clifBoundsOk_eq_checkMem hm]
  by_cases hok : EngineSem.clifBoundsOk s.mem b off ty.bytes = true
  · rw [if_pos hok]
    obtain ⟨vals, hlen, hrun⟩ := boundsCheck_run_ok (env := env) hrel ty base off loc b hb hok
      (.load ty base off.toInt :: memLoadTail ty dst (loc.length + 21))
    rw [hrun]
    show MemRunPost s i _ (match s.mem.readBytes? (b + off.signExtend 64).toNat ty.bytes with | some bs => _ | none => _)
    cases hr : s.mem.readBytes? (b + off.signExtend 64).toNat ty.bytes with
    | none => trivial
    | some bs =>
      dsimp only
      rw [runOps_load off.toInt _ (arg_append vals hb) (by rw [mem_ea, hrel.mem]; exact hr)]
      have hl : loc.length + 21 = (loc ++ vals).length := by rw [List.length_append, hlen]
      rw [hl, mem_loadTail_run ty dst hd, wr_eq _ _ _ hd]
      exact ⟨_, _, rfl, relC_pc (relC_defVar hrel dst hd _) _, hm, Or.inl ⟨rfl, by rw [hw]⟩⟩
  · rw [if_neg hok]
    rw [boundsCheck_run_trap hrel ty base off loc b hb (by simpa using hok)]
    exact mem_runPost_trap hrel

theorem mem_store_post (hrel : RelC σ s) (hm : MemOk s.mem) (hw : width i = 1) (ty : Ty) (base val : Arg) (off : BitVec 16)
    (loc : List Val) (b v : BitVec 64) (x : Val) (hb : arg σ loc base = some ⟨.i64, b⟩) (hv : arg σ loc val = some x)
    (hx : leBytes x.v.toNat x.ty.bytes = leBytes v.toNat ty.bytes) :
    MemRunPost s i
      (runOps env σ loc (checkOps ty base off loc.length ++ [.store val base off.toInt]))
      (Interp.store { env with allowed := [] } { s with pc := s.pc + 1 } (b + off.signExtend 64) ty.bytes v) := by
  unfold Interp.store
  show MemRunPost s i _ (if checkMem s.mem [] (b + off.signExtend 64) ty.bytes = true then _ else _)
  rw [← clifBoundsOk_eq_checkMem hm]
  by_cases hok : EngineSem.clifBoundsOk s.mem b off ty.bytes = true
  · rw [if_pos hok]
    obtain ⟨vals, hlen, hrun⟩ := boundsCheck_run_ok (env := env) hrel ty base off loc b hb hok [.store val base off.toInt]
    rw [hrun]
    show MemRunPost s i _ (match s.mem.writeBytes? (b + off.signExtend 64).toNat (leBytes v.toNat ty.bytes) with
      | some m => _ | none => _)
    cases hwr : s.mem.writeBytes? (b + off.signExtend 64).toNat (leBytes v.toNat ty.bytes) with
    | none => trivial
    | some m =>
      dsimp only
      rw [runOps_store off.toInt _ (arg_append vals hv) (arg_append vals hb)
        (by rw [mem_ea, hrel.mem, hx]; exact hwr), runOps_nil]
      exact ⟨_, _, rfl, relC_pc (relC_mem hrel hwr) _, memOk_writeBytes hm hwr, Or.inl ⟨rfl, by rw [hw]⟩⟩
  · rw [if_neg hok]
    rw [boundsCheck_run_trap hrel ty base off loc b hb (by simpa using hok)]
    exact mem_runPost_trap hrel

theorem mem_xadd_post (hrel : RelC σ s) (hm : MemOk s.mem) (hw : width i = 1) (ty : Ty) (base val : Arg) (off : BitVec 16)
    (loc : List Val) (b x : BitVec 64) (hb : arg σ loc base = some ⟨.i64, b⟩) (hv : arg σ loc val = some ⟨ty, x⟩) :
    MemRunPost s i
      (runOps env σ loc (checkOps ty base off loc.length ++
        [.iconst .i64 (off.signExtend 64), .bin .iadd base (.loc (loc.length + 21)),
         .atomicAdd ty (.loc (loc.length + 22)) val]))
      (EngineSem.xaddAnyAlign { env with allowed := [] } { s with pc := s.pc + 1 } (b + off.signExtend 64) ty.bytes x) := by
  unfold EngineSem.xaddAnyAlign
  show MemRunPost s i _ (if checkMem s.mem [] (b + off.signExtend 64) ty.bytes = true then _ else _)
  rw [← clifBoundsOk_eq_checkMem hm]
  by_cases hok : EngineSem.clifBoundsOk s.mem b off ty.bytes = true
  · rw [if_pos hok]
    obtain ⟨vals, hlen, hrun⟩ := boundsCheck_run_ok (env := env) hrel ty base off loc b hb hok
      [.iconst .i64 (off.signExtend 64), .bin .iadd base (.loc (loc.length + 21)),
         .atomicAdd ty (.loc (loc.length + 22)) val]
    rw [hrun]
    show MemRunPost s i _ (match s.mem.readBytes? (b + off.signExtend 64).toNat ty.bytes with | some bs => _ | none => _)
    cases hr : s.mem.readBytes? (b + off.signExtend 64).toNat ty.bytes with
    | none => trivial
    | some bs =>
      dsimp only
      show MemRunPost s i _ (match s.mem.writeBytes? (b + off.signExtend 64).toNat (leBytes (leValue bs + x.toNat) ty.bytes) with
        | some m => _ | none => _)
      cases hwr : s.mem.writeBytes? (b + off.signExtend 64).toNat (leBytes (leValue bs + x.toNat) ty.bytes) with
      | none => trivial
      | some m =>
        have hl : loc.length + 21 = (loc ++ vals).length := by rw [List.length_append, hlen]
        have hl2 : loc.length + 22 = (loc ++ vals ++ [(⟨.i64, off.signExtend 64⟩ : Val)]).length := by
          rw [List.length_append, List.length_append, hlen]; rfl
        dsimp only
        rw [runOps_iconst, mk_i64, hl,
          runOps_bin _ (arg_append _ (arg_append vals hb)) (by rw [arg_loc]; exact mem_getElem?_last _ _ _ rfl)
            (evalBin_iadd _ _ _), mk_i64, hl2,
          runOps_atomicAdd _ (by rw [arg_loc]; exact mem_getElem?_last _ _ _ rfl)
            (arg_append _ (arg_append _ (arg_append vals hv)))
            (by rw [hrel.mem]; exact hr) (by rw [hrel.mem]; exact hwr), runOps_nil]
        exact ⟨_, _, rfl, relC_pc (relC_mem hrel hwr) _, memOk_writeBytes hm hwr, Or.inl ⟨rfl, by rw [hw]⟩⟩
  · rw [if_neg hok]
    rw [boundsCheck_run_trap hrel ty base off loc b hb (by simpa using hok)]
    exact mem_runPost_trap hrel

end Shapes

end Rbpf.ClifSim
