/-
  The memory / call class of the Cranelift-IR simulation: `ArmSim i` for ldx, st, stx (four widths each), the two atomic
  adds, ldabs / ldind (four widths each) and the helper call.

  One theorem per shape (`mem_ldx_sim`, `mem_st_sim`, `mem_stx_sim`, `mem_xadd32_sim`, `mem_xadd64_sim`, `mem_ldabs_sim`,
  `mem_ldind_sim`, `mem_call_sim`), parametrised by the width `ty : Ty`; the hypotheses that tie an instruction to its shape
  (`armB … = ldxReg i`, `clifExec … = rd … load …`) hold by `rfl` for each literal opcode.
-/
import RbpfModel.Lemmas.ClifSim.MemAux
namespace Rbpf.ClifSim
open Rbpf.ClifAst Rbpf.ClifSem

def memOpcodes : List Nat :=
  [0x61, 0x69, 0x71, 0x79, 0x62, 0x6a, 0x72, 0x7a, 0x63, 0x6b, 0x73, 0x7b, 0xc3, 0xdb,
   0x20, 0x28, 0x30, 0x38, 0x40, 0x48, 0x50, 0x58, 0x85]

/-! ### the builder runs -/

theorem mem_ldxReg_run (i : Insn) (ty : Ty) (hty : sizeTy i.opc.toNat = ty) (hs : i.src.toNat < 11) (hd : i.dst.toNat < 11) :
    ∃ n defs, (ldxReg i).run ⟨[], 0, []⟩ = .ok ((), ⟨checkOps ty (.var i.src.toNat) i.off 0 ++
        (.load ty (.var i.src.toNat) i.off.toInt :: memLoadTail ty i.dst.toNat 21), n, defs⟩) := by
  simp only [ldxReg, hty, B_bind_run, insnSrc_run i _ _ hs, regLoad_run, List.nil_append]
  cases ty <;>
    simp only [ne_eq, reduceCtorEq, not_false_eq_true, not_true_eq_false, if_true, if_false, ins_run, B_bind_run,
      B_pure_run, setDst_run i _ _ _ _ hd, memLoadTail, List.append_assoc, List.cons_append, List.nil_append] <;>
    exact ⟨_, _, rfl⟩

theorem mem_ldxReg_run_ge (i : Insn) (h : ¬ (i.src.toNat < 11 ∧ i.dst.toNat < 11)) :
    (ldxReg i).run ⟨[], 0, []⟩ = .error .panic := by
  by_cases hs : i.src.toNat < 11
  · have hd : ¬ i.dst.toNat < 11 := fun hd => h ⟨hs, hd⟩
    simp only [ldxReg, B_bind_run, insnSrc_run i _ _ hs, regLoad_run]
    cases sizeTy i.opc.toNat <;>
      simp only [ne_eq, reduceCtorEq, not_false_eq_true, not_true_eq_false, if_true, if_false, ins_run, B_bind_run,
        B_pure_run, setDst_run_ge i _ _ hd]
  · simp only [ldxReg, B_bind_run, insnSrc_run_ge i _ hs]

/-- the value a store writes: the operand, narrowed unless 64-bit -/
def memStorePre (ty : Ty) (v : Arg) : List Op :=
  match ty with
  | .i64 => []
  | t => [.un (.ireduce t) v]

/-- the operand of the `store` -/
def memStoreArg (ty : Ty) (v : Arg) (n : Nat) : Arg :=
  match ty with
  | .i64 => v
  | _ => .loc n

theorem mem_stImm_run (i : Insn) (ty : Ty) (hty : sizeTy i.opc.toNat = ty) (hd : i.dst.toNat < 11) :
    ∃ n defs, (stImmReg true i).run ⟨[], 0, []⟩ = .ok ((), ⟨.iconst .i64 (i.imm.signExtend 64) :: (memStorePre ty (.loc 0) ++
        (checkOps ty (.var i.dst.toNat) i.off (1 + (memStorePre ty (.loc 0)).length) ++
          [.store (memStoreArg ty (.loc 0) 1) (.var i.dst.toNat) i.off.toInt])), n, defs⟩) := by
  simp only [stImmReg, hty, B_bind_run, if_true, insnImm64_run, List.nil_append]
  cases ty <;>
    simp only [ne_eq, reduceCtorEq, not_false_eq_true, not_true_eq_false, if_true, if_false, ins_run, B_bind_run,
      B_pure_run, insnDst_run i _ _ hd, regStore_run, memStorePre, memStoreArg, List.cons_append, List.nil_append,
      List.length_cons, List.length_nil] <;>
    exact ⟨_, _, rfl⟩

theorem mem_stImm_run_ge (i : Insn) (hd : ¬ i.dst.toNat < 11) : (stImmReg true i).run ⟨[], 0, []⟩ = .error .panic := by
  simp only [stImmReg, B_bind_run, if_true, insnImm64_run]
  cases sizeTy i.opc.toNat <;>
    simp only [ne_eq, reduceCtorEq, not_false_eq_true, not_true_eq_false, if_true, if_false, ins_run, B_bind_run,
      B_pure_run, insnDst_run_ge i _ hd]

theorem mem_stReg_run (i : Insn) (ty : Ty) (hty : sizeTy i.opc.toNat = ty) (hd : i.dst.toNat < 11) (hs : i.src.toNat < 11) :
    ∃ n defs, (stImmReg false i).run ⟨[], 0, []⟩ = .ok ((), ⟨memStorePre ty (.var i.src.toNat) ++
        (checkOps ty (.var i.dst.toNat) i.off (memStorePre ty (.var i.src.toNat)).length ++
          [.store (memStoreArg ty (.var i.src.toNat) 0) (.var i.dst.toNat) i.off.toInt]), n, defs⟩) := by
  simp only [stImmReg, hty, B_bind_run, Bool.false_eq_true, if_false, insnSrc_run i _ _ hs]
  cases ty <;>
    simp only [ne_eq, reduceCtorEq, not_false_eq_true, not_true_eq_false, if_true, if_false, ins_run, B_bind_run,
      B_pure_run, insnDst_run i _ _ hd, regStore_run, memStorePre, memStoreArg, List.cons_append,
      List.nil_append, List.length_cons, List.length_nil] <;>
    exact ⟨_, _, rfl⟩

theorem mem_stReg_run_ge (i : Insn) (h : ¬ (i.dst.toNat < 11 ∧ i.src.toNat < 11)) :
    (stImmReg false i).run ⟨[], 0, []⟩ = .error .panic := by
  by_cases hs : i.src.toNat < 11
  · have hd : ¬ i.dst.toNat < 11 := fun hd => h ⟨hd, hs⟩
    simp only [stImmReg, B_bind_run, Bool.false_eq_true, if_false, insnSrc_run i _ _ hs]
    cases sizeTy i.opc.toNat <;>
      simp only [ne_eq, reduceCtorEq, not_false_eq_true, not_true_eq_false, if_true, if_false, ins_run, B_bind_run,
        B_pure_run, insnDst_run_ge i _ hd]
  · simp only [stImmReg, B_bind_run, Bool.false_eq_true, if_false, insnSrc_run_ge i _ hs]


/-! ### ldx -/

theorem mem_ldx_sim (i : Insn) (ty : Ty) (hty : sizeTy i.opc.toNat = ty) (hw : width i = 1)
    (harmB : ∀ helpers p pc, armB helpers p pc i = ldxReg i)
    (hexec : ∀ env s, EngineSem.clifExec env s i = Interp.rd s i.src.toNat fun x =>
      Interp.load { env with allowed := [] } s (x + i.off.signExtend 64) ty.bytes i.dst.toNat) : ArmSim i := by
  apply armSim_intro
  intro env σ s ops _ harm hrel hm
  rw [arm_eq, harmB] at harm
  by_cases hreg : i.src.toNat < 11 ∧ i.dst.toNat < 11
  · obtain ⟨hs, hd⟩ := hreg
    obtain ⟨n, defs, hrun⟩ := mem_ldxReg_run i ty hty hs hd
    rw [hrun] at harm
    simp only [toOption_map_ok, Option.some.injEq] at harm
    subst harm
    rw [hexec, rd_eq _ _ _ hs]
    exact mem_armPost_of_runPost (mem_load_post hrel hm hw ty _ _ _ hd [] _ (arg_var_reg hrel [] _ hs))
  · rw [mem_ldxReg_run_ge i hreg] at harm
    simp at harm

/-! ### st, stx -/

theorem mem_storePre_post {env : Env} {σ : St} {s : State} {i : Insn} (hrel : RelC σ s) (hm : MemOk s.mem)
    (hw : width i = 1) (ty : Ty) (base src : Arg) (off : BitVec 16) (loc : List Val) (b v : BitVec 64)
    (hb : arg σ loc base = some ⟨.i64, b⟩) (hv : arg σ loc src = some ⟨.i64, v⟩) :
    MemRunPost s i
      (runOps env σ loc (memStorePre ty src ++ (checkOps ty base off (loc.length + (memStorePre ty src).length) ++
        [.store (memStoreArg ty src loc.length) base off.toInt])))
      (Interp.store { env with allowed := [] } { s with pc := s.pc + 1 } (b + off.signExtend 64) ty.bytes v) := by
  by_cases h64 : ty = .i64
  · subst h64
    exact mem_store_post hrel hm hw .i64 base src off loc b v ⟨.i64, v⟩ hb hv rfl
  · have hp : memStorePre ty src = [.un (.ireduce ty) src] := by cases ty <;> first | rfl | exact absurd rfl h64
    have ha : memStoreArg ty src loc.length = .loc loc.length := by cases ty <;> first | rfl | exact absurd rfl h64
    have hbits : Ty.bits ty < Ty.bits .i64 := by cases ty <;> first | decide | exact absurd rfl h64
    have hl : loc.length + 1 = (loc ++ [mk ty v]).length := by simp
    rw [hp, ha, List.cons_append, List.nil_append, runOps_un _ hv (evalUn_ireduce _ _ _ hbits), List.length_singleton, hl]
    exact mem_store_post hrel hm hw ty base (.loc loc.length) off _ b v (mk ty v) (arg_append _ hb)
      (by rw [arg_loc]; exact mem_getElem?_last _ _ _ rfl) (mem_leBytes_trunc ty v)

theorem mem_st_sim (i : Insn) (ty : Ty) (hty : sizeTy i.opc.toNat = ty) (hw : width i = 1)
    (harmB : ∀ helpers p pc, armB helpers p pc i = stImmReg true i)
    (hexec : ∀ env s, EngineSem.clifExec env s i = Interp.rd s i.dst.toNat fun d =>
      Interp.store { env with allowed := [] } s (d + i.off.signExtend 64) ty.bytes (Interp.sx32 i.imm)) : ArmSim i := by
  apply armSim_intro
  intro env σ s ops _ harm hrel hm
  rw [arm_eq, harmB] at harm
  by_cases hd : i.dst.toNat < 11
  · obtain ⟨n, defs, hrun⟩ := mem_stImm_run i ty hty hd
    rw [hrun] at harm
    simp only [toOption_map_ok, Option.some.injEq] at harm
    subst harm
    rw [hexec, rd_eq _ _ _ hd]
    apply mem_armPost_of_runPost
    rw [runOps_iconst, mk_i64]
    exact mem_storePre_post hrel hm hw ty _ (.loc 0) i.off [⟨.i64, i.imm.signExtend 64⟩] _ _ (arg_var_reg hrel _ _ hd) rfl
  · rw [mem_stImm_run_ge i hd] at harm
    simp at harm

theorem mem_stx_sim (i : Insn) (ty : Ty) (hty : sizeTy i.opc.toNat = ty) (hw : width i = 1)
    (harmB : ∀ helpers p pc, armB helpers p pc i = stImmReg false i)
    (hexec : ∀ env s, EngineSem.clifExec env s i = Interp.rd s i.dst.toNat fun d => Interp.rd s i.src.toNat fun x =>
      Interp.store { env with allowed := [] } s (d + i.off.signExtend 64) ty.bytes x) : ArmSim i := by
  apply armSim_intro
  intro env σ s ops _ harm hrel hm
  rw [arm_eq, harmB] at harm
  by_cases hreg : i.dst.toNat < 11 ∧ i.src.toNat < 11
  · obtain ⟨hd, hs⟩ := hreg
    obtain ⟨n, defs, hrun⟩ := mem_stReg_run i ty hty hd hs
    rw [hrun] at harm
    simp only [toOption_map_ok, Option.some.injEq] at harm
    subst harm
    rw [hexec, rd_eq _ _ _ hd, rd_eq _ _ _ hs]
    apply mem_armPost_of_runPost
    have := mem_storePre_post (env := env) hrel hm hw ty (.var i.dst.toNat) (.var i.src.toNat) i.off [] _ _
      (arg_var_reg hrel _ _ hd) (arg_var_reg hrel _ _ hs)
    rw [List.length_nil, Nat.zero_add] at this
    exact this
  · rw [mem_stReg_run_ge i hreg] at harm
    simp at harm


/-! ### atomic add -/

theorem mem_xadd32_sim (i : Insn) (hw : width i = 1)
    (harmB : ∀ helpers p pc, armB helpers p pc i = (do
      let base ← insnDst i
      let val ← insnSrc32 i
      regAtomicAdd .i32 base i.off val))
    (hexec : ∀ env s, EngineSem.clifExec env s i = Interp.rd s i.dst.toNat fun d => Interp.rd s i.src.toNat fun x =>
      EngineSem.xaddAnyAlign { env with allowed := [] } s (d + i.off.signExtend 64) 4 (Interp.zx32 (Interp.lo32 x))) :
    ArmSim i := by
  apply armSim_intro
  intro env σ s ops _ harm hrel hm
  rw [arm_eq, harmB] at harm
  by_cases hd : i.dst.toNat < 11
  · by_cases hs : i.src.toNat < 11
    · simp only [B_bind_run, insnDst_run i _ _ hd, insnSrc32_run i _ _ hs, regAtomicAdd_run, toOption_map_ok,
        List.nil_append, Option.some.injEq] at harm
      subst harm
      rw [hexec, rd_eq _ _ _ hd, rd_eq _ _ _ hs]
      apply mem_armPost_of_runPost
      rw [List.cons_append, List.nil_append, runOps_un _ (arg_var_reg hrel _ _ hs) (evalUn_ireduce32 _), List.nil_append]
      exact mem_xadd_post hrel hm hw .i32 (.var i.dst.toNat) (.loc 0) i.off [⟨.i32, _⟩] _ _ (arg_var_reg hrel _ _ hd) rfl
    · simp only [B_bind_run, insnDst_run i _ _ hd, insnSrc32_run_ge i _ hs] at harm
      simp at harm
  · simp only [B_bind_run, insnDst_run_ge i _ hd] at harm
    simp at harm

theorem mem_xadd64_sim (i : Insn) (hw : width i = 1)
    (harmB : ∀ helpers p pc, armB helpers p pc i = (do
      let base ← insnDst i
      let val ← insnSrc i
      regAtomicAdd .i64 base i.off val))
    (hexec : ∀ env s, EngineSem.clifExec env s i = Interp.rd s i.dst.toNat fun d => Interp.rd s i.src.toNat fun x =>
      EngineSem.xaddAnyAlign { env with allowed := [] } s (d + i.off.signExtend 64) 8 x) :
    ArmSim i := by
  apply armSim_intro
  intro env σ s ops _ harm hrel hm
  rw [arm_eq, harmB] at harm
  by_cases hd : i.dst.toNat < 11
  · by_cases hs : i.src.toNat < 11
    · simp only [B_bind_run, insnDst_run i _ _ hd, insnSrc_run i _ _ hs, regAtomicAdd_run, toOption_map_ok,
        List.nil_append, Option.some.injEq] at harm
      subst harm
      rw [hexec, rd_eq _ _ _ hd, rd_eq _ _ _ hs]
      apply mem_armPost_of_runPost
      exact mem_xadd_post hrel hm hw .i64 (.var i.dst.toNat) (.var i.src.toNat) i.off [] _ _ (arg_var_reg hrel _ _ hd)
        (arg_var_reg hrel _ _ hs)
    · simp only [B_bind_run, insnDst_run i _ _ hd, insnSrc_run_ge i _ hs] at harm
      simp at harm
  · simp only [B_bind_run, insnDst_run_ge i _ hd] at harm
    simp at harm

/-! ### ldabs, ldind -/

/-- an empty packet has the null base on both sides (`MemOk.emptyMem`) -/
theorem mem_memStart {m : Memory} (hm : MemOk m) : (if m.mem.bytes.size = 0 then 0 else m.mem.base) = m.mem.base := by
  split
  · next h => exact (hm.emptyMem h).symm
  · rfl

theorem mem_abs_addr (base : Nat) (imm : BitVec 32) :
    BitVec.ofNat 64 base + imm.zeroExtend 64 + (0 : BitVec 16).signExtend 64 = BitVec.ofNat 64 (base + imm.toNat) := by
  rw [mem_signExtend_zero]
  apply BitVec.eq_of_toNat_eq
  simp

theorem mem_ind_addr (base : Nat) (imm : BitVec 32) (x : BitVec 64) :
    BitVec.ofNat 64 base + imm.zeroExtend 64 + x + (0 : BitVec 16).signExtend 64 =
      BitVec.ofNat 64 base + x + Interp.zx32 imm := by
  have h0 : ∀ y : BitVec 64, y + 0 = y := fun y => by simp
  rw [mem_signExtend_zero, h0, BitVec.add_assoc, BitVec.add_comm (imm.zeroExtend 64) x, ← BitVec.add_assoc]
  rfl

theorem mem_ldAbs_run (i : Insn) (ty : Ty) (hty : sizeTy i.opc.toNat = ty) (hind : (i.opc.toNat &&& 0x40 != 0) = false) :
    ∃ n defs, (ldAbsInd i).run ⟨[], 0, []⟩ = .ok ((), ⟨.iconst .i64 (i.imm.zeroExtend 64) :: .bin .iadd (.var 11) (.loc 0) ::
        (checkOps ty (.loc 1) 0 2 ++ (.load ty (.loc 1) (0 : BitVec 16).toInt :: memLoadTail ty 0 23)), n, defs⟩) := by
  simp only [ldAbsInd, hty, hind, B_bind_run, useVar_run_nil, ins_run, vMemStart, Bool.false_eq_true, if_false,
    B_pure_run, regLoad_run, List.nil_append]
  cases ty <;>
    simp only [ne_eq, reduceCtorEq, not_false_eq_true, not_true_eq_false, if_true, if_false, ins_run, B_bind_run,
      B_pure_run, defVar_run, memLoadTail, List.append_assoc, List.cons_append, List.nil_append] <;>
    exact ⟨_, _, rfl⟩

theorem mem_ldInd_run (i : Insn) (ty : Ty) (hty : sizeTy i.opc.toNat = ty) (hind : (i.opc.toNat &&& 0x40 != 0) = true)
    (hs : i.src.toNat < 11) :
    ∃ n defs, (ldAbsInd i).run ⟨[], 0, []⟩ = .ok ((), ⟨.iconst .i64 (i.imm.zeroExtend 64) :: .bin .iadd (.var 11) (.loc 0) ::
        .bin .iadd (.loc 1) (.var i.src.toNat) ::
        (checkOps ty (.loc 2) 0 3 ++ (.load ty (.loc 2) (0 : BitVec 16).toInt :: memLoadTail ty 0 24)), n, defs⟩) := by
  simp only [ldAbsInd, hty, hind, B_bind_run, useVar_run_nil, ins_run, vMemStart, if_true,
    insnSrc_run i _ _ hs, regLoad_run, List.nil_append]
  cases ty <;>
    simp only [ne_eq, reduceCtorEq, not_false_eq_true, not_true_eq_false, if_true, if_false, ins_run, B_bind_run,
      B_pure_run, defVar_run, memLoadTail, List.append_assoc, List.cons_append, List.nil_append] <;>
    exact ⟨_, _, rfl⟩

theorem mem_ldInd_run_ge (i : Insn) (hind : (i.opc.toNat &&& 0x40 != 0) = true) (hs : ¬ i.src.toNat < 11) :
    (ldAbsInd i).run ⟨[], 0, []⟩ = .error .panic := by
  simp only [ldAbsInd, hind, B_bind_run, useVar_run_nil, ins_run, if_true, insnSrc_run_ge i _ hs]

theorem mem_ldabs_sim (i : Insn) (ty : Ty) (hty : sizeTy i.opc.toNat = ty) (hw : width i = 1)
    (hind : (i.opc.toNat &&& 0x40 != 0) = false)
    (harmB : ∀ helpers p pc, armB helpers p pc i = ldAbsInd i)
    (hexec : ∀ env s, EngineSem.clifExec env s i = Interp.pktAbs s i.imm fun a =>
      Interp.load { env with allowed := [] } s a ty.bytes 0) : ArmSim i := by
  apply armSim_intro
  intro env σ s ops _ harm hrel hm
  rw [arm_eq, harmB] at harm
  obtain ⟨n, defs, hrun⟩ := mem_ldAbs_run i ty hty hind
  rw [hrun] at harm
  simp only [toOption_map_ok, Option.some.injEq] at harm
  subst harm
  rw [hexec]
  unfold Interp.pktAbs
  show ArmPost env σ s _ i (if s.mem.mem.base + i.imm.toNat ≥ 2 ^ 64 then .panic else _)
  split
  · trivial
  · apply mem_armPost_of_runPost
    rw [runOps_iconst, mk_i64, runOps_bin _ (arg_var_memStart hrel _) (by rw [arg_loc]; rfl) (evalBin_iadd _ _ _), mk_i64,
      mem_memStart hm, ← mem_abs_addr]
    exact mem_load_post hrel hm hw ty (.loc 1) 0 0 (by omega) [_, _] _ rfl

theorem mem_ldind_sim (i : Insn) (ty : Ty) (hty : sizeTy i.opc.toNat = ty) (hw : width i = 1)
    (hind : (i.opc.toNat &&& 0x40 != 0) = true)
    (harmB : ∀ helpers p pc, armB helpers p pc i = ldAbsInd i)
    (hexec : ∀ env s, EngineSem.clifExec env s i = Interp.rd s i.src.toNat fun x =>
      Interp.load { env with allowed := [] } s (BitVec.ofNat 64 s.mem.mem.base + x + Interp.zx32 i.imm) ty.bytes 0) :
    ArmSim i := by
  apply armSim_intro
  intro env σ s ops _ harm hrel hm
  rw [arm_eq, harmB] at harm
  by_cases hs : i.src.toNat < 11
  · obtain ⟨n, defs, hrun⟩ := mem_ldInd_run i ty hty hind hs
    rw [hrun] at harm
    simp only [toOption_map_ok, Option.some.injEq] at harm
    subst harm
    rw [hexec, rd_eq _ _ _ hs]
    apply mem_armPost_of_runPost
    rw [runOps_iconst, mk_i64, runOps_bin _ (arg_var_memStart hrel _) (by rw [arg_loc]; rfl) (evalBin_iadd _ _ _), mk_i64,
      runOps_bin _ (by rw [arg_loc]; rfl) (arg_var_reg hrel _ _ hs) (evalBin_iadd _ _ _), mk_i64,
      mem_memStart hm]
    show MemRunPost s i _ (Interp.load _ _ (BitVec.ofNat 64 s.mem.mem.base + s.reg[i.src.toNat] + Interp.zx32 i.imm) _ _)
    rw [← mem_ind_addr]
    exact mem_load_post hrel hm hw ty (.loc 2) 0 0 (by omega) [_, _, _] _ rfl
  · rw [mem_ldInd_run_ge i hind hs] at harm
    simp at harm

/-! ### helper call -/

theorem mem_call_sim (i : Insn) (hw : width i = 1)
    (harmB : ∀ helpers p pc, armB helpers p pc i = callArm helpers i)
    (hexec : ∀ env s, EngineSem.clifExec env s i =
      if i.src.toNat = 0 then Interp.callHelper { env with allowed := [] } s i.imm
      else if i.src.toNat = 1 then Interp.callLocal s i.imm else .err .callType s) : ArmSim i := by
  apply armSim_intro
  intro env σ s ops _ harm hrel hm
  rw [arm_eq, harmB] at harm
  by_cases hsrc : i.src = 0
  · cases hh : helperSet env i.imm.toNat with
    | false =>
      simp only [callArm, B_bind_run, hsrc, ne_eq, not_true_eq_false, if_false, hh, Bool.not_false, if_true,
        B_throw_run] at harm
      simp at harm
    | true =>
      simp only [callArm, B_bind_run, hsrc, ne_eq, not_true_eq_false, if_false, hh, Bool.not_true,
        Bool.false_eq_true, useVar_run_nil, ins_run, defVar_run, toOption_map_ok, List.nil_append, List.cons_append,
        Option.some.injEq] at harm
      subst harm
      obtain ⟨f, hf⟩ := Option.isSome_iff_exists.1 hh
      have h0 : i.src.toNat = 0 := by rw [hsrc]; rfl
      rw [hexec, if_pos h0]
      unfold Interp.callHelper
      show ArmPost env σ s _ i (match env.helpers i.imm.toNat with | some f => _ | none => _)
      rw [hf]
      dsimp only
      rw [rd_eq _ 1 _ (by omega), rd_eq _ 2 _ (by omega), rd_eq _ 3 _ (by omega), rd_eq _ 4 _ (by omega),
        rd_eq _ 5 _ (by omega), wr_eq _ 0 _ (by omega)]
      refine armPost_next (f := .fall) ?_
        (relC_pc (relC_defVar (relC_log hrel (i.imm.toNat, [s.reg[1], s.reg[2], s.reg[3], s.reg[4], s.reg[5]])) 0 (by omega)
          (f s.reg[1] s.reg[2] s.reg[3] s.reg[4] s.reg[5])) (s.pc + 1)) hm (Or.inl ⟨rfl, by rw [hw]⟩)
      rw [runOps_call _ hf (arg_var_reg hrel _ 1 (by omega)) (arg_var_reg hrel _ 2 (by omega))
        (arg_var_reg hrel _ 3 (by omega)) (arg_var_reg hrel _ 4 (by omega)) (arg_var_reg hrel _ 5 (by omega))]
      exact runOps_defVar_last (by rw [arg_log, arg_loc]; rfl) (by omega)
  · simp only [callArm, B_bind_run, hsrc, ne_eq, not_false_eq_true, if_true, B_throw_run] at harm
    simp at harm


/-! ### the opcodes -/

section Opcodes
variable (dst src : BitVec 8) (off : BitVec 16) (imm : BitVec 32)

theorem mem_sim_61 : ArmSim ⟨0x61, dst, src, off, imm⟩ :=
  mem_ldx_sim _ .i32 (rfl : sizeTy (0x61 : BitVec 8).toNat = Ty.i32) rfl (fun _ _ _ => rfl) (fun _ _ => rfl)
theorem mem_sim_69 : ArmSim ⟨0x69, dst, src, off, imm⟩ :=
  mem_ldx_sim _ .i16 (rfl : sizeTy (0x69 : BitVec 8).toNat = Ty.i16) rfl (fun _ _ _ => rfl) (fun _ _ => rfl)
theorem mem_sim_71 : ArmSim ⟨0x71, dst, src, off, imm⟩ :=
  mem_ldx_sim _ .i8 (rfl : sizeTy (0x71 : BitVec 8).toNat = Ty.i8) rfl (fun _ _ _ => rfl) (fun _ _ => rfl)
theorem mem_sim_79 : ArmSim ⟨0x79, dst, src, off, imm⟩ :=
  mem_ldx_sim _ .i64 (rfl : sizeTy (0x79 : BitVec 8).toNat = Ty.i64) rfl (fun _ _ _ => rfl) (fun _ _ => rfl)
theorem mem_sim_62 : ArmSim ⟨0x62, dst, src, off, imm⟩ :=
  mem_st_sim _ .i32 (rfl : sizeTy (0x62 : BitVec 8).toNat = Ty.i32) rfl (fun _ _ _ => rfl) (fun _ _ => rfl)
theorem mem_sim_6a : ArmSim ⟨0x6a, dst, src, off, imm⟩ :=
  mem_st_sim _ .i16 (rfl : sizeTy (0x6a : BitVec 8).toNat = Ty.i16) rfl (fun _ _ _ => rfl) (fun _ _ => rfl)
theorem mem_sim_72 : ArmSim ⟨0x72, dst, src, off, imm⟩ :=
  mem_st_sim _ .i8 (rfl : sizeTy (0x72 : BitVec 8).toNat = Ty.i8) rfl (fun _ _ _ => rfl) (fun _ _ => rfl)
theorem mem_sim_7a : ArmSim ⟨0x7a, dst, src, off, imm⟩ :=
  mem_st_sim _ .i64 (rfl : sizeTy (0x7a : BitVec 8).toNat = Ty.i64) rfl (fun _ _ _ => rfl) (fun _ _ => rfl)
theorem mem_sim_63 : ArmSim ⟨0x63, dst, src, off, imm⟩ :=
  mem_stx_sim _ .i32 (rfl : sizeTy (0x63 : BitVec 8).toNat = Ty.i32) rfl (fun _ _ _ => rfl) (fun _ _ => rfl)
theorem mem_sim_6b : ArmSim ⟨0x6b, dst, src, off, imm⟩ :=
  mem_stx_sim _ .i16 (rfl : sizeTy (0x6b : BitVec 8).toNat = Ty.i16) rfl (fun _ _ _ => rfl) (fun _ _ => rfl)
theorem mem_sim_73 : ArmSim ⟨0x73, dst, src, off, imm⟩ :=
  mem_stx_sim _ .i8 (rfl : sizeTy (0x73 : BitVec 8).toNat = Ty.i8) rfl (fun _ _ _ => rfl) (fun _ _ => rfl)
theorem mem_sim_7b : ArmSim ⟨0x7b, dst, src, off, imm⟩ :=
  mem_stx_sim _ .i64 (rfl : sizeTy (0x7b : BitVec 8).toNat = Ty.i64) rfl (fun _ _ _ => rfl) (fun _ _ => rfl)
theorem mem_sim_c3 : ArmSim ⟨0xc3, dst, src, off, imm⟩ :=
  mem_xadd32_sim _ rfl (fun _ _ _ => rfl) (fun _ _ => rfl)
theorem mem_sim_db : ArmSim ⟨0xdb, dst, src, off, imm⟩ :=
  mem_xadd64_sim _ rfl (fun _ _ _ => rfl) (fun _ _ => rfl)
theorem mem_sim_20 : ArmSim ⟨0x20, dst, src, off, imm⟩ :=
  mem_ldabs_sim _ .i32 (rfl : sizeTy (0x20 : BitVec 8).toNat = Ty.i32) rfl
    (rfl : ((0x20 : BitVec 8).toNat &&& 0x40 != 0) = false) (fun _ _ _ => rfl) (fun _ _ => rfl)
theorem mem_sim_28 : ArmSim ⟨0x28, dst, src, off, imm⟩ :=
  mem_ldabs_sim _ .i16 (rfl : sizeTy (0x28 : BitVec 8).toNat = Ty.i16) rfl
    (rfl : ((0x28 : BitVec 8).toNat &&& 0x40 != 0) = false) (fun _ _ _ => rfl) (fun _ _ => rfl)
theorem mem_sim_30 : ArmSim ⟨0x30, dst, src, off, imm⟩ :=
  mem_ldabs_sim _ .i8 (rfl : sizeTy (0x30 : BitVec 8).toNat = Ty.i8) rfl
    (rfl : ((0x30 : BitVec 8).toNat &&& 0x40 != 0) = false) (fun _ _ _ => rfl) (fun _ _ => rfl)
theorem mem_sim_38 : ArmSim ⟨0x38, dst, src, off, imm⟩ :=
  mem_ldabs_sim _ .i64 (rfl : sizeTy (0x38 : BitVec 8).toNat = Ty.i64) rfl
    (rfl : ((0x38 : BitVec 8).toNat &&& 0x40 != 0) = false) (fun _ _ _ => rfl) (fun _ _ => rfl)
theorem mem_sim_40 : ArmSim ⟨0x40, dst, src, off, imm⟩ :=
  mem_ldind_sim _ .i32 (rfl : sizeTy (0x40 : BitVec 8).toNat = Ty.i32) rfl
    (rfl : ((0x40 : BitVec 8).toNat &&& 0x40 != 0) = true) (fun _ _ _ => rfl) (fun _ _ => rfl)
theorem mem_sim_48 : ArmSim ⟨0x48, dst, src, off, imm⟩ :=
  mem_ldind_sim _ .i16 (rfl : sizeTy (0x48 : BitVec 8).toNat = Ty.i16) rfl
    (rfl : ((0x48 : BitVec 8).toNat &&& 0x40 != 0) = true) (fun _ _ _ => rfl) (fun _ _ => rfl)
theorem mem_sim_50 : ArmSim ⟨0x50, dst, src, off, imm⟩ :=
  mem_ldind_sim _ .i8 (rfl : sizeTy (0x50 : BitVec 8).toNat = Ty.i8) rfl
    (rfl : ((0x50 : BitVec 8).toNat &&& 0x40 != 0) = true) (fun _ _ _ => rfl) (fun _ _ => rfl)
theorem mem_sim_58 : ArmSim ⟨0x58, dst, src, off, imm⟩ :=
  mem_ldind_sim _ .i64 (rfl : sizeTy (0x58 : BitVec 8).toNat = Ty.i64) rfl
    (rfl : ((0x58 : BitVec 8).toNat &&& 0x40 != 0) = true) (fun _ _ _ => rfl) (fun _ _ => rfl)
theorem mem_sim_85 : ArmSim ⟨0x85, dst, src, off, imm⟩ :=
  mem_call_sim _ rfl (fun _ _ _ => rfl) (fun _ _ => rfl)

end Opcodes

theorem armSim_mem (i : Insn) (h : i.opc.toNat ∈ memOpcodes) : ArmSim i := by
  obtain ⟨opc, dst, src, off, imm⟩ := i
  simp only [memOpcodes, List.mem_cons, List.not_mem_nil, or_false] at h
  rcases h with h | h | h | h | h | h | h | h | h | h | h | h | h | h | h | h | h | h | h | h | h | h | h <;>
    (obtain rfl := bv8_eq_of_toNat opc _ (by decide) h)
  · exact mem_sim_61 dst src off imm
  · exact mem_sim_69 dst src off imm
  · exact mem_sim_71 dst src off imm
  · exact mem_sim_79 dst src off imm
  · exact mem_sim_62 dst src off imm
  · exact mem_sim_6a dst src off imm
  · exact mem_sim_72 dst src off imm
  · exact mem_sim_7a dst src off imm
  · exact mem_sim_63 dst src off imm
  · exact mem_sim_6b dst src off imm
  · exact mem_sim_73 dst src off imm
  · exact mem_sim_7b dst src off imm
  · exact mem_sim_c3 dst src off imm
  · exact mem_sim_db dst src off imm
  · exact mem_sim_20 dst src off imm
  · exact mem_sim_28 dst src off imm
  · exact mem_sim_30 dst src off imm
  · exact mem_sim_38 dst src off imm
  · exact mem_sim_40 dst src off imm
  · exact mem_sim_48 dst src off imm
  · exact mem_sim_50 dst src off imm
  · exact mem_sim_58 dst src off imm
  · exact mem_sim_85 dst src off imm

end Rbpf.ClifSim
