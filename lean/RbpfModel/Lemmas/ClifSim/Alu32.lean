/-
  `ArmSim` for the 32-bit ALU class: add/sub/mul/or/and/lsh/rsh/xor/arsh/mov in immediate and register form, `neg32`,
  and the byte swaps `le` (0xd4) / `be` (0xdc).
-/
import RbpfModel.Lemmas.ClifSim.Base
namespace Rbpf.ClifSim
open Rbpf.ClifAst Rbpf.ClifSem

def alu32Opcodes : List Nat :=
  [0x04, 0x0c, 0x14, 0x1c, 0x24, 0x2c, 0x44, 0x4c, 0x54, 0x5c, 0x64, 0x6c, 0x74, 0x7c, 0x84, 0xa4, 0xac, 0xb4, 0xbc, 0xc4,
   0xcc, 0xd4, 0xdc]

/-! ## values: the IR operation at type `i32` on zero-extended payloads is the interpreter's `u32` / `i32` operation -/

section Values
open Interp
variable (a b : BitVec 32)

theorem alu32_ev_iadd : evalBin .iadd ⟨.i32, zx32 a⟩ ⟨.i32, zx32 b⟩ = some (some ⟨.i32, zx32 (a + b)⟩) := by
  rw [evalBin_iadd]; simp only [mk, trunc32_add]

theorem alu32_ev_isub : evalBin .isub ⟨.i32, zx32 a⟩ ⟨.i32, zx32 b⟩ = some (some ⟨.i32, zx32 (a - b)⟩) := by
  rw [evalBin_isub]; simp only [mk, trunc32_sub]

theorem alu32_ev_imul : evalBin .imul ⟨.i32, zx32 a⟩ ⟨.i32, zx32 b⟩ = some (some ⟨.i32, zx32 (a * b)⟩) := by
  rw [evalBin_imul]; simp only [mk, trunc32_mul]

theorem alu32_ev_bor : evalBin .bor ⟨.i32, zx32 a⟩ ⟨.i32, zx32 b⟩ = some (some ⟨.i32, zx32 (a ||| b)⟩) := by
  rw [evalBin_bor]; simp only [mk, trunc32_or]

theorem alu32_ev_band : evalBin .band ⟨.i32, zx32 a⟩ ⟨.i32, zx32 b⟩ = some (some ⟨.i32, zx32 (a &&& b)⟩) := by
  rw [evalBin_band]; simp only [mk, trunc32_and]

theorem alu32_ev_bxor : evalBin .bxor ⟨.i32, zx32 a⟩ ⟨.i32, zx32 b⟩ = some (some ⟨.i32, zx32 (a ^^^ b)⟩) := by
  rw [evalBin_bxor]; simp only [mk, trunc32_xor]

theorem alu32_ev_ishl :
    evalBin .ishl ⟨.i32, zx32 a⟩ ⟨.i32, zx32 b⟩ = some (some ⟨.i32, zx32 (a <<< (b.toNat % 32))⟩) := by
  rw [evalBin_ishl, shamt32]; simp only [mk, trunc32_shl]

theorem alu32_ev_ushr :
    evalBin .ushr ⟨.i32, zx32 a⟩ ⟨.i32, zx32 b⟩ = some (some ⟨.i32, zx32 (a >>> (b.toNat % 32))⟩) := by
  rw [evalBin_ushr, shamt32]; simp only [mk, trunc32_ushr]

theorem alu32_ev_sshr :
    evalBin .sshr ⟨.i32, zx32 a⟩ ⟨.i32, zx32 b⟩ =
      some (some ⟨.i32, sx32 (a.sshiftRight (b.toNat % 32)) &&& 0xffffffff#64⟩) := by
  rw [evalBin_sshr, shamt32]; simp only [mk, trunc32_sshr]

theorem alu32_ev_ineg : evalUn .ineg ⟨.i32, zx32 a⟩ = some ⟨.i32, sx32 (- a) &&& 0xffffffff#64⟩ := by
  rw [evalUn_ineg]; simp only [mk, trunc32_neg]

end Values

/-! ## the op lists -/

section Runs
open Interp
variable {env : Env} {σ : St} {s : State}

/-- `insn_dst32; insn_src32; op; set_dst32` -/
theorem alu32_run_reg (hrel : RelC σ s) (o : BinOp) (f : BitVec 32 → BitVec 32 → BitVec 64) (d r : Nat)
    (hd : d < 11) (hr : r < 11)
    (hev : ∀ a b, evalBin o ⟨.i32, zx32 a⟩ ⟨.i32, zx32 b⟩ = some (some ⟨.i32, f a b⟩)) :
    runOps env σ [] [.un (.ireduce .i32) (.var d), .un (.ireduce .i32) (.var r), .bin o (.loc 0) (.loc 1),
      .un (.uextend .i64) (.loc 2), .defVar d (.loc 3)] =
      ({ σ with vars := σ.vars.setIfInBounds d (f (lo32 s.reg[d]) (lo32 s.reg[r])) }, .fall) := by
  rw [runOps_un _ (arg_var_reg hrel _ _ hd) (evalUn_ireduce32 _),
    runOps_un _ (arg_var_reg hrel _ _ hr) (evalUn_ireduce32 _),
    runOps_bin _ (by rfl) (by rfl) (hev _ _),
    runOps_un _ (by rfl) (evalUn_uextend64 _ _ (by decide))]
  exact runOps_defVar_last (by rfl) (by omega)

/-- `insn_dst32; insn_imm32; op; set_dst32` -/
theorem alu32_run_imm (hrel : RelC σ s) (o : BinOp) (f : BitVec 32 → BitVec 32 → BitVec 64) (d : Nat) (imm : BitVec 32)
    (hd : d < 11)
    (hev : ∀ a b, evalBin o ⟨.i32, zx32 a⟩ ⟨.i32, zx32 b⟩ = some (some ⟨.i32, f a b⟩)) :
    runOps env σ [] [.un (.ireduce .i32) (.var d), .iconst .i32 (imm.zeroExtend 64), .bin o (.loc 0) (.loc 1),
      .un (.uextend .i64) (.loc 2), .defVar d (.loc 3)] =
      ({ σ with vars := σ.vars.setIfInBounds d (f (lo32 s.reg[d]) imm) }, .fall) := by
  rw [runOps_un _ (arg_var_reg hrel _ _ hd) (evalUn_ireduce32 _), runOps_iconst, mk_i32_imm,
    runOps_bin _ (by rfl) (by rfl) (hev _ _),
    runOps_un _ (by rfl) (evalUn_uextend64 _ _ (by decide))]
  exact runOps_defVar_last (by rfl) (by omega)

end Runs

/-! ## the two shapes -/

section Shapes
open Interp

theorem alu32_armSim_reg (o : BinOp) (f : BitVec 32 → BitVec 32 → BitVec 64)
    (hev : ∀ a b, evalBin o ⟨.i32, zx32 a⟩ ⟨.i32, zx32 b⟩ = some (some ⟨.i32, f a b⟩))
    (i : Insn) (hw : i.opc ≠ 0x18)
    (harmB : ∀ h p pc, armB h p pc i = alu32Reg o i)
    (hexec : ∀ env s, EngineSem.clifExec env s i =
      rd s i.dst.toNat fun d => rd s i.src.toNat fun x => wr s i.dst.toNat (f (lo32 d) (lo32 x))) : ArmSim i := by
  apply armSim_intro
  intro env σ s ops _hget harm hrel hm
  rw [arm_eq, harmB] at harm
  rw [hexec]
  by_cases hreg : i.dst.toNat < 11 ∧ i.src.toNat < 11
  · obtain ⟨hd, hs⟩ := hreg
    rw [alu32Reg_run _ _ _ _ hd hs] at harm
    simp only [toOption_map_ok, List.nil_append, Option.some.injEq] at harm
    subst harm
    rw [rd_eq _ _ _ hd, rd_eq _ _ _ hs]
    apply armPost_wr hrel hm hd (width_eq_one i hw)
    exact alu32_run_reg hrel o f _ _ hd hs hev
  · rw [alu32Reg_run_ge _ _ _ hreg] at harm
    simp at harm

theorem alu32_armSim_imm (o : BinOp) (f : BitVec 32 → BitVec 32 → BitVec 64)
    (hev : ∀ a b, evalBin o ⟨.i32, zx32 a⟩ ⟨.i32, zx32 b⟩ = some (some ⟨.i32, f a b⟩))
    (i : Insn) (hw : i.opc ≠ 0x18)
    (harmB : ∀ h p pc, armB h p pc i = alu32Imm o i)
    (hexec : ∀ env s, EngineSem.clifExec env s i =
      rd s i.dst.toNat fun d => wr s i.dst.toNat (f (lo32 d) i.imm)) : ArmSim i := by
  apply armSim_intro
  intro env σ s ops _hget harm hrel hm
  rw [arm_eq, harmB] at harm
  rw [hexec]
  by_cases hd : i.dst.toNat < 11
  · rw [alu32Imm_run _ _ _ _ hd] at harm
    simp only [toOption_map_ok, List.nil_append, Option.some.injEq] at harm
    subst harm
    rw [rd_eq _ _ _ hd]
    apply armPost_wr hrel hm hd (width_eq_one i hw)
    exact alu32_run_imm hrel o f _ _ hd hev
  · rw [alu32Imm_run_ge _ _ _ hd] at harm
    simp at harm

end Shapes

/-! ## `neg32`, `mov32` -/

section Unary
open Interp

/-- the arm of `NEG32` -/
def alu32_negB (i : Insn) : B Unit := do
  let src ← insnDst32 i
  let res ← ins (.un .ineg src)
  setDst32 i res

/-- the arm of `MOV32_IMM` -/
def alu32_movImmB (i : Insn) : B Unit := do
  let imm ← insnImm32 i
  setDst32 i imm

/-- the arm of `MOV32_REG` -/
def alu32_movRegB (i : Insn) : B Unit := do
  let src ← insnSrc32 i
  setDst32 i src

theorem alu32_armSim_neg (i : Insn) (hw : i.opc ≠ 0x18)
    (harmB : ∀ h p pc, armB h p pc i = alu32_negB i)
    (hexec : ∀ env s, EngineSem.clifExec env s i =
      rd s i.dst.toNat fun d => wr s i.dst.toNat (sx32 (- lo32 d) &&& 0xffffffff#64)) : ArmSim i := by
  apply armSim_intro
  intro env σ s ops _hget harm hrel hm
  rw [arm_eq, harmB] at harm
  rw [hexec]
  by_cases hd : i.dst.toNat < 11
  · simp only [alu32_negB, B_bind_run, insnDst32_run i _ _ hd, ins_run, setDst32_run i _ _ _ _ hd, toOption_map_ok,
      List.nil_append, List.cons_append, Option.some.injEq] at harm
    subst harm
    rw [rd_eq _ _ _ hd]
    apply armPost_wr hrel hm hd (width_eq_one i hw)
    rw [runOps_un _ (arg_var_reg hrel _ _ hd) (evalUn_ireduce32 _),
      runOps_un _ (by rfl) (alu32_ev_ineg _),
      runOps_un _ (by rfl) (evalUn_uextend64 _ _ (by decide))]
    exact runOps_defVar_last (by rfl) (by omega)
  · simp only [alu32_negB, B_bind_run, insnDst32_run_ge i _ hd] at harm
    simp at harm

theorem alu32_armSim_movImm (i : Insn) (hw : i.opc ≠ 0x18)
    (harmB : ∀ h p pc, armB h p pc i = alu32_movImmB i)
    (hexec : ∀ env s, EngineSem.clifExec env s i = wr s i.dst.toNat (zx32 i.imm)) : ArmSim i := by
  apply armSim_intro
  intro env σ s ops _hget harm hrel hm
  rw [arm_eq, harmB] at harm
  rw [hexec]
  by_cases hd : i.dst.toNat < 11
  · simp only [alu32_movImmB, B_bind_run, insnImm32_run, setDst32_run i _ _ _ _ hd, toOption_map_ok,
      List.nil_append, List.cons_append, Option.some.injEq] at harm
    subst harm
    apply armPost_wr hrel hm hd (width_eq_one i hw)
    rw [runOps_iconst, mk_i32_imm, runOps_un _ (by rfl) (evalUn_uextend64 _ _ (by decide))]
    exact runOps_defVar_last (by rfl) (by omega)
  · simp only [alu32_movImmB, B_bind_run, insnImm32_run, setDst32_run_ge i _ _ hd] at harm
    simp at harm

theorem alu32_armSim_movReg (i : Insn) (hw : i.opc ≠ 0x18)
    (harmB : ∀ h p pc, armB h p pc i = alu32_movRegB i)
    (hexec : ∀ env s, EngineSem.clifExec env s i =
      rd s i.src.toNat fun x => wr s i.dst.toNat (zx32 (lo32 x))) : ArmSim i := by
  apply armSim_intro
  intro env σ s ops _hget harm hrel hm
  rw [arm_eq, harmB] at harm
  rw [hexec]
  by_cases hs : i.src.toNat < 11
  · by_cases hd : i.dst.toNat < 11
    · simp only [alu32_movRegB, B_bind_run, insnSrc32_run i _ _ hs, setDst32_run i _ _ _ _ hd, toOption_map_ok,
        List.nil_append, List.cons_append, Option.some.injEq] at harm
      subst harm
      rw [rd_eq _ _ _ hs]
      apply armPost_wr hrel hm hd (width_eq_one i hw)
      rw [runOps_un _ (arg_var_reg hrel _ _ hs) (evalUn_ireduce32 _),
        runOps_un _ (by rfl) (evalUn_uextend64 _ _ (by decide))]
      exact runOps_defVar_last (by rfl) (by omega)
    · simp only [alu32_movRegB, B_bind_run, insnSrc32_run i _ _ hs, setDst32_run_ge i _ _ hd] at harm
      simp at harm
  · simp only [alu32_movRegB, B_bind_run, insnSrc32_run_ge i _ hs] at harm
    simp at harm

end Unary

/-! ## `le`, `be` -/

section Endian
open Interp

/-- `le`: no swap on this host; `le16`, `le32` truncate, `le64` emits nothing -/
theorem alu32_endian_le_run (i : Insn) (ops : List Op) (n : Nat) (hopc : ¬ i.opc = 0xdc) (hd : i.dst.toNat < 11) :
    (endian i).run ⟨ops, n, []⟩ =
      if i.imm = 16 then
        .ok ((), ⟨ops ++ [.un (.ireduce .i16) (.var i.dst.toNat), .un (.uextend .i64) (.loc n),
          .defVar i.dst.toNat (.loc (n + 1))], n + 2, [(i.dst.toNat, .loc (n + 1))]⟩)
      else if i.imm = 32 then
        .ok ((), ⟨ops ++ [.un (.ireduce .i32) (.var i.dst.toNat), .un (.uextend .i64) (.loc n),
          .defVar i.dst.toNat (.loc (n + 1))], n + 2, [(i.dst.toNat, .loc (n + 1))]⟩)
      else if i.imm = 64 then .ok ((), ⟨ops, n, []⟩)
      else .error .panic := by
  simp only [endian, hopc, if_false, hostLittle, Bool.not_true, B_bind_run]
  by_cases h16 : i.imm = 16
  · simp only [if_pos h16, B_pure_run, Bool.false_eq_true, if_false, ne_eq, reduceCtorEq, not_false_eq_true, if_true,
      B_bind_run, insnDst_run i _ _ hd, ins_run, setDst_run i _ _ _ _ hd, List.append_assoc, List.cons_append,
      List.nil_append]
  · by_cases h32 : i.imm = 32
    · simp only [if_neg h16, if_pos h32, B_pure_run, Bool.false_eq_true, if_false, ne_eq, reduceCtorEq,
        not_false_eq_true, if_true, B_bind_run, insnDst_run i _ _ hd, ins_run, setDst_run i _ _ _ _ hd,
        List.append_assoc, List.cons_append, List.nil_append]
    · by_cases h64 : i.imm = 64
      · simp only [if_neg h16, if_neg h32, if_pos h64, B_pure_run, Bool.false_eq_true, if_false, ne_eq,
          not_true_eq_false]
      · simp only [if_neg h16, if_neg h32, if_neg h64, B_throw_run]

/-- `be`: `bswap` at the width -/
theorem alu32_endian_be_run (i : Insn) (ops : List Op) (n : Nat) (hopc : i.opc = 0xdc) (hd : i.dst.toNat < 11) :
    (endian i).run ⟨ops, n, []⟩ =
      if i.imm = 16 then
        .ok ((), ⟨ops ++ [.un (.ireduce .i16) (.var i.dst.toNat), .un .bswap (.loc n), .un (.uextend .i64) (.loc (n + 1)),
          .defVar i.dst.toNat (.loc (n + 2))], n + 3, [(i.dst.toNat, .loc (n + 2))]⟩)
      else if i.imm = 32 then
        .ok ((), ⟨ops ++ [.un (.ireduce .i32) (.var i.dst.toNat), .un .bswap (.loc n), .un (.uextend .i64) (.loc (n + 1)),
          .defVar i.dst.toNat (.loc (n + 2))], n + 3, [(i.dst.toNat, .loc (n + 2))]⟩)
      else if i.imm = 64 then
        .ok ((), ⟨ops ++ [.un .bswap (.var i.dst.toNat), .defVar i.dst.toNat (.loc n)], n + 1, [(i.dst.toNat, .loc n)]⟩)
      else .error .panic := by
  simp only [endian, hopc, if_true, hostLittle, B_bind_run]
  by_cases h16 : i.imm = 16
  · simp only [if_pos h16, B_pure_run, ne_eq, reduceCtorEq, not_false_eq_true, if_true,
      B_bind_run, insnDst_run i _ _ hd, ins_run, setDst_run i _ _ _ _ hd, List.append_assoc, List.cons_append,
      List.nil_append]
  · by_cases h32 : i.imm = 32
    · simp only [if_neg h16, if_pos h32, B_pure_run, ne_eq, reduceCtorEq,
        not_false_eq_true, if_true, B_bind_run, insnDst_run i _ _ hd, ins_run, setDst_run i _ _ _ _ hd,
        List.append_assoc, List.cons_append, List.nil_append]
    · by_cases h64 : i.imm = 64
      · simp only [if_neg h16, if_neg h32, if_pos h64, B_pure_run, ne_eq, not_true_eq_false, if_false,
          B_bind_run, insnDst_run i _ _ hd, ins_run, setDst_run i _ _ _ _ hd, List.append_assoc, List.cons_append,
          List.nil_append]
      · simp only [if_neg h16, if_neg h32, if_neg h64, B_throw_run]

/-! the byte swaps as numbers -/

theorem alu32_leBytes_mod (w v : Nat) : leBytes (v % 256 ^ w) w = leBytes v w := by
  induction w generalizing v with
  | zero => rfl
  | succ w ih =>
    simp only [leBytes]
    congr 1
    · apply BitVec.eq_of_toNat_eq
      simp only [BitVec.toNat_ofNat]
      rw [Nat.pow_succ, Nat.mul_comm]
      exact Nat.mod_mul_right_mod v 256 (256 ^ w)
    · rw [Nat.pow_succ, Nat.mul_comm, Nat.mod_mul_right_div_self, ih]

theorem alu32_leValue_lt (bs : List (BitVec 8)) : leValue bs < 256 ^ bs.length := by
  induction bs with
  | nil => simp [leValue]
  | cons b rest ih =>
    simp only [leValue, List.length_cons, Nat.pow_succ]
    have := b.isLt
    omega

/-- the swap of the `w` low-order bytes fits in `w` bytes -/
theorem alu32_bswap_lt (v w : Nat) : leValue (leBytes v w).reverse < 256 ^ w := by
  have h := alu32_leValue_lt (leBytes v w).reverse
  rwa [List.length_reverse, leBytes_length] at h

theorem alu32_bswap16 (d : BitVec 64) :
    trunc .i16 (BitVec.ofNat 64 (bswapN (Ty.bytes .i16) (trunc .i16 d).toNat)) = Interp.bswap d 2 := by
  have h1 : (trunc .i16 d).toNat = d.toNat % 256 ^ 2 := trunc_toNat .i16 d
  show trunc .i16 (BitVec.ofNat 64 (leValue (leBytes (trunc .i16 d).toNat 2).reverse)) =
    BitVec.ofNat 64 (leValue (leBytes d.toNat 2).reverse)
  rw [h1, alu32_leBytes_mod]
  have hb := alu32_bswap_lt d.toNat 2
  apply BitVec.eq_of_toNat_eq
  rw [trunc_toNat]
  simp only [BitVec.toNat_ofNat, Ty.bits]
  generalize leValue (leBytes d.toNat 2).reverse = q at *
  omega

theorem alu32_bswap32 (d : BitVec 64) :
    trunc .i32 (BitVec.ofNat 64 (bswapN (Ty.bytes .i32) (zx32 (lo32 d)).toNat)) = Interp.bswap d 4 := by
  have h1 : (zx32 (lo32 d)).toNat = d.toNat % 256 ^ 4 := by
    simp only [zx32, lo32, BitVec.toNat_setWidth]
    omega
  show trunc .i32 (BitVec.ofNat 64 (leValue (leBytes (zx32 (lo32 d)).toNat 4).reverse)) =
    BitVec.ofNat 64 (leValue (leBytes d.toNat 4).reverse)
  rw [h1, alu32_leBytes_mod]
  have hb := alu32_bswap_lt d.toNat 4
  apply BitVec.eq_of_toNat_eq
  rw [trunc_toNat]
  simp only [BitVec.toNat_ofNat, Ty.bits]
  generalize leValue (leBytes d.toNat 4).reverse = q at *
  omega

theorem alu32_bswap64 (d : BitVec 64) :
    mk .i64 (BitVec.ofNat 64 (bswapN (Ty.bytes .i64) d.toNat)) = ⟨.i64, Interp.bswap d 8⟩ := by
  rw [mk_i64]; rfl

theorem alu32_armSim_le (i : Insn) (hw : i.opc ≠ 0x18) (hopc : ¬ i.opc = 0xdc)
    (harmB : ∀ h p pc, armB h p pc i = endian i)
    (hexec : ∀ env s, EngineSem.clifExec env s i =
      rd s i.dst.toNat fun d =>
        if i.imm = 16 then wr s i.dst.toNat ((d.setWidth 16).setWidth 64)
        else if i.imm = 32 then wr s i.dst.toNat (zx32 (lo32 d))
        else if i.imm = 64 then wr s i.dst.toNat d
        else .panic) : ArmSim i := by
  apply armSim_intro
  intro env σ s ops _hget harm hrel hm
  rw [arm_eq, harmB] at harm
  rw [hexec]
  by_cases hd : i.dst.toNat < 11
  · rw [alu32_endian_le_run i _ _ hopc hd] at harm
    rw [rd_eq _ _ _ hd]
    by_cases h16 : i.imm = 16
    · rw [if_pos h16] at harm ⊢
      simp only [toOption_map_ok, List.nil_append, Option.some.injEq] at harm
      subst harm
      apply armPost_wr hrel hm hd (width_eq_one i hw)
      rw [runOps_un _ (arg_var_reg hrel _ _ hd) (evalUn_ireduce _ _ .i16 (by decide)),
        runOps_un _ (by rfl) (evalUn_uextend64 _ _ (by decide)), ← trunc_i16]
      exact runOps_defVar_last (by rfl) (by omega)
    · by_cases h32 : i.imm = 32
      · rw [if_neg h16, if_pos h32] at harm ⊢
        simp only [toOption_map_ok, List.nil_append, Option.some.injEq] at harm
        subst harm
        apply armPost_wr hrel hm hd (width_eq_one i hw)
        rw [runOps_un _ (arg_var_reg hrel _ _ hd) (evalUn_ireduce32 _),
          runOps_un _ (by rfl) (evalUn_uextend64 _ _ (by decide))]
        exact runOps_defVar_last (by rfl) (by omega)
      · by_cases h64 : i.imm = 64
        · rw [if_neg h16, if_neg h32, if_pos h64] at harm ⊢
          simp only [toOption_map_ok, Option.some.injEq] at harm
          subst harm
          rw [wr_eq _ _ _ hd, setIfInBounds_self _ _ hd]
          exact armPost_skip hrel hm (width_eq_one i hw) rfl
        · rw [if_neg h16, if_neg h32, if_neg h64]
          exact armPost_panic
  · rw [rd_ge _ _ _ hd]
    exact armPost_panic

theorem alu32_armSim_be (i : Insn) (hw : i.opc ≠ 0x18) (hopc : i.opc = 0xdc)
    (harmB : ∀ h p pc, armB h p pc i = endian i)
    (hexec : ∀ env s, EngineSem.clifExec env s i =
      rd s i.dst.toNat fun d =>
        if i.imm = 16 then wr s i.dst.toNat (bswap d 2)
        else if i.imm = 32 then wr s i.dst.toNat (bswap d 4)
        else if i.imm = 64 then wr s i.dst.toNat (bswap d 8)
        else .panic) : ArmSim i := by
  apply armSim_intro
  intro env σ s ops _hget harm hrel hm
  rw [arm_eq, harmB] at harm
  rw [hexec]
  by_cases hd : i.dst.toNat < 11
  · rw [alu32_endian_be_run i _ _ hopc hd] at harm
    rw [rd_eq _ _ _ hd]
    by_cases h16 : i.imm = 16
    · rw [if_pos h16] at harm ⊢
      simp only [toOption_map_ok, List.nil_append, Option.some.injEq] at harm
      subst harm
      apply armPost_wr hrel hm hd (width_eq_one i hw)
      rw [runOps_un _ (arg_var_reg hrel _ _ hd) (evalUn_ireduce _ _ .i16 (by decide)),
        runOps_un _ (by rfl) (evalUn_bswap _ _ (by decide)),
        runOps_un _ (by rfl) (evalUn_uextend64 _ _ (by decide)), ← alu32_bswap16]
      exact runOps_defVar_last (by rfl) (by omega)
    · by_cases h32 : i.imm = 32
      · rw [if_neg h16, if_pos h32] at harm ⊢
        simp only [toOption_map_ok, List.nil_append, Option.some.injEq] at harm
        subst harm
        apply armPost_wr hrel hm hd (width_eq_one i hw)
        rw [runOps_un _ (arg_var_reg hrel _ _ hd) (evalUn_ireduce32 _),
          runOps_un _ (by rfl) (evalUn_bswap _ _ (by decide)),
          runOps_un _ (by rfl) (evalUn_uextend64 _ _ (by decide)), ← alu32_bswap32]
        exact runOps_defVar_last (by rfl) (by omega)
      · by_cases h64 : i.imm = 64
        · rw [if_neg h16, if_neg h32, if_pos h64] at harm ⊢
          simp only [toOption_map_ok, List.nil_append, Option.some.injEq] at harm
          subst harm
          apply armPost_wr hrel hm hd (width_eq_one i hw)
          rw [runOps_un _ (arg_var_reg hrel _ _ hd) (evalUn_bswap _ _ (by decide)), alu32_bswap64]
          exact runOps_defVar_last (by rfl) (by omega)
        · rw [if_neg h16, if_neg h32, if_neg h64]
          exact armPost_panic
  · rw [rd_ge _ _ _ hd]
    exact armPost_panic

end Endian

/-! ## opcode by opcode -/

section Opcodes
open Interp
variable (dst src : BitVec 8) (off : BitVec 16) (imm : BitVec 32)

theorem alu32_ne18 {opc dst src : BitVec 8} {off : BitVec 16} {imm : BitVec 32} (h : opc ≠ 0x18) :
    (⟨opc, dst, src, off, imm⟩ : Insn).opc ≠ 0x18 := h

theorem alu32_nedc {opc dst src : BitVec 8} {off : BitVec 16} {imm : BitVec 32} (h : opc ≠ 0xdc) :
    ¬ (⟨opc, dst, src, off, imm⟩ : Insn).opc = 0xdc := h

theorem alu32_armSim_04 : ArmSim ⟨0x04, dst, src, off, imm⟩ :=
  alu32_armSim_imm .iadd (fun a b => zx32 (a + b)) alu32_ev_iadd _ (alu32_ne18 (by decide))
    (fun _ _ _ => rfl) (fun _ _ => rfl)

theorem alu32_armSim_0c : ArmSim ⟨0x0c, dst, src, off, imm⟩ :=
  alu32_armSim_reg .iadd (fun a b => zx32 (a + b)) alu32_ev_iadd _ (alu32_ne18 (by decide))
    (fun _ _ _ => rfl) (fun _ _ => rfl)

theorem alu32_armSim_14 : ArmSim ⟨0x14, dst, src, off, imm⟩ :=
  alu32_armSim_imm .isub (fun a b => zx32 (a - b)) alu32_ev_isub _ (alu32_ne18 (by decide))
    (fun _ _ _ => rfl) (fun _ _ => rfl)

theorem alu32_armSim_1c : ArmSim ⟨0x1c, dst, src, off, imm⟩ :=
  alu32_armSim_reg .isub (fun a b => zx32 (a - b)) alu32_ev_isub _ (alu32_ne18 (by decide))
    (fun _ _ _ => rfl) (fun _ _ => rfl)

theorem alu32_armSim_24 : ArmSim ⟨0x24, dst, src, off, imm⟩ :=
  alu32_armSim_imm .imul (fun a b => zx32 (a * b)) alu32_ev_imul _ (alu32_ne18 (by decide))
    (fun _ _ _ => rfl) (fun _ _ => rfl)

theorem alu32_armSim_2c : ArmSim ⟨0x2c, dst, src, off, imm⟩ :=
  alu32_armSim_reg .imul (fun a b => zx32 (a * b)) alu32_ev_imul _ (alu32_ne18 (by decide))
    (fun _ _ _ => rfl) (fun _ _ => rfl)

theorem alu32_armSim_44 : ArmSim ⟨0x44, dst, src, off, imm⟩ :=
  alu32_armSim_imm .bor (fun a b => zx32 (a ||| b)) alu32_ev_bor _ (alu32_ne18 (by decide))
    (fun _ _ _ => rfl) (fun _ _ => rfl)

theorem alu32_armSim_4c : ArmSim ⟨0x4c, dst, src, off, imm⟩ :=
  alu32_armSim_reg .bor (fun a b => zx32 (a ||| b)) alu32_ev_bor _ (alu32_ne18 (by decide))
    (fun _ _ _ => rfl) (fun _ _ => rfl)

theorem alu32_armSim_54 : ArmSim ⟨0x54, dst, src, off, imm⟩ :=
  alu32_armSim_imm .band (fun a b => zx32 (a &&& b)) alu32_ev_band _ (alu32_ne18 (by decide))
    (fun _ _ _ => rfl) (fun _ _ => rfl)

theorem alu32_armSim_5c : ArmSim ⟨0x5c, dst, src, off, imm⟩ :=
  alu32_armSim_reg .band (fun a b => zx32 (a &&& b)) alu32_ev_band _ (alu32_ne18 (by decide))
    (fun _ _ _ => rfl) (fun _ _ => rfl)

theorem alu32_armSim_64 : ArmSim ⟨0x64, dst, src, off, imm⟩ :=
  alu32_armSim_imm .ishl (fun a b => zx32 (a <<< (b.toNat % 32))) alu32_ev_ishl _ (alu32_ne18 (by decide))
    (fun _ _ _ => rfl) (fun _ _ => rfl)

theorem alu32_armSim_6c : ArmSim ⟨0x6c, dst, src, off, imm⟩ :=
  alu32_armSim_reg .ishl (fun a b => zx32 (a <<< (b.toNat % 32))) alu32_ev_ishl _ (alu32_ne18 (by decide))
    (fun _ _ _ => rfl) (fun _ _ => rfl)

theorem alu32_armSim_74 : ArmSim ⟨0x74, dst, src, off, imm⟩ :=
  alu32_armSim_imm .ushr (fun a b => zx32 (a >>> (b.toNat % 32))) alu32_ev_ushr _ (alu32_ne18 (by decide))
    (fun _ _ _ => rfl) (fun _ _ => rfl)

theorem alu32_armSim_7c : ArmSim ⟨0x7c, dst, src, off, imm⟩ :=
  alu32_armSim_reg .ushr (fun a b => zx32 (a >>> (b.toNat % 32))) alu32_ev_ushr _ (alu32_ne18 (by decide))
    (fun _ _ _ => rfl) (fun _ _ => rfl)

theorem alu32_armSim_a4 : ArmSim ⟨0xa4, dst, src, off, imm⟩ :=
  alu32_armSim_imm .bxor (fun a b => zx32 (a ^^^ b)) alu32_ev_bxor _ (alu32_ne18 (by decide))
    (fun _ _ _ => rfl) (fun _ _ => rfl)

theorem alu32_armSim_ac : ArmSim ⟨0xac, dst, src, off, imm⟩ :=
  alu32_armSim_reg .bxor (fun a b => zx32 (a ^^^ b)) alu32_ev_bxor _ (alu32_ne18 (by decide))
    (fun _ _ _ => rfl) (fun _ _ => rfl)

theorem alu32_armSim_c4 : ArmSim ⟨0xc4, dst, src, off, imm⟩ :=
  alu32_armSim_imm .sshr (fun a b => sx32 (a.sshiftRight (b.toNat % 32)) &&& 0xffffffff#64) alu32_ev_sshr _ (alu32_ne18 (by decide))
    (fun _ _ _ => rfl) (fun _ _ => rfl)

theorem alu32_armSim_cc : ArmSim ⟨0xcc, dst, src, off, imm⟩ :=
  alu32_armSim_reg .sshr (fun a b => sx32 (a.sshiftRight (b.toNat % 32)) &&& 0xffffffff#64) alu32_ev_sshr _ (alu32_ne18 (by decide))
    (fun _ _ _ => rfl) (fun _ _ => rfl)

theorem alu32_armSim_84 : ArmSim ⟨0x84, dst, src, off, imm⟩ :=
  alu32_armSim_neg _ (alu32_ne18 (by decide)) (fun _ _ _ => rfl) (fun _ _ => rfl)

theorem alu32_armSim_b4 : ArmSim ⟨0xb4, dst, src, off, imm⟩ :=
  alu32_armSim_movImm _ (alu32_ne18 (by decide)) (fun _ _ _ => rfl) (fun _ _ => rfl)

theorem alu32_armSim_bc : ArmSim ⟨0xbc, dst, src, off, imm⟩ :=
  alu32_armSim_movReg _ (alu32_ne18 (by decide)) (fun _ _ _ => rfl) (fun _ _ => rfl)

theorem alu32_armSim_d4 : ArmSim ⟨0xd4, dst, src, off, imm⟩ :=
  alu32_armSim_le _ (alu32_ne18 (by decide)) (alu32_nedc (by decide)) (fun _ _ _ => rfl) (fun _ _ => rfl)

theorem alu32_armSim_dc : ArmSim ⟨0xdc, dst, src, off, imm⟩ :=
  alu32_armSim_be _ (alu32_ne18 (by decide)) rfl (fun _ _ _ => rfl) (fun _ _ => rfl)

end Opcodes

/-! ## the class -/

theorem armSim_alu32 (i : Insn) (h : i.opc.toNat ∈ alu32Opcodes) : ArmSim i := by
  obtain ⟨opc, dst, src, off, imm⟩ := i
  simp only [alu32Opcodes, List.mem_cons, List.not_mem_nil, or_false] at h
  rcases h with h | h | h | h | h | h | h | h | h | h | h | h | h | h | h | h | h | h | h | h | h | h | h
  · obtain rfl : opc = 0x04 := BitVec.eq_of_toNat_eq h
    exact alu32_armSim_04 dst src off imm
  · obtain rfl : opc = 0x0c := BitVec.eq_of_toNat_eq h
    exact alu32_armSim_0c dst src off imm
  · obtain rfl : opc = 0x14 := BitVec.eq_of_toNat_eq h
    exact alu32_armSim_14 dst src off imm
  · obtain rfl : opc = 0x1c := BitVec.eq_of_toNat_eq h
    exact alu32_armSim_1c dst src off imm
  · obtain rfl : opc = 0x24 := BitVec.eq_of_toNat_eq h
    exact alu32_armSim_24 dst src off imm
  · obtain rfl : opc = 0x2c := BitVec.eq_of_toNat_eq h
    exact alu32_armSim_2c dst src off imm
  · obtain rfl : opc = 0x44 := BitVec.eq_of_toNat_eq h
    exact alu32_armSim_44 dst src off imm
  · obtain rfl : opc = 0x4c := BitVec.eq_of_toNat_eq h
    exact alu32_armSim_4c dst src off imm
  · obtain rfl : opc = 0x54 := BitVec.eq_of_toNat_eq h
    exact alu32_armSim_54 dst src off imm
  · obtain rfl : opc = 0x5c := BitVec.eq_of_toNat_eq h
    exact alu32_armSim_5c dst src off imm
  · obtain rfl : opc = 0x64 := BitVec.eq_of_toNat_eq h
    exact alu32_armSim_64 dst src off imm
  · obtain rfl : opc = 0x6c := BitVec.eq_of_toNat_eq h
    exact alu32_armSim_6c dst src off imm
  · obtain rfl : opc = 0x74 := BitVec.eq_of_toNat_eq h
    exact alu32_armSim_74 dst src off imm
  · obtain rfl : opc = 0x7c := BitVec.eq_of_toNat_eq h
    exact alu32_armSim_7c dst src off imm
  · obtain rfl : opc = 0x84 := BitVec.eq_of_toNat_eq h
    exact alu32_armSim_84 dst src off imm
  · obtain rfl : opc = 0xa4 := BitVec.eq_of_toNat_eq h
    exact alu32_armSim_a4 dst src off imm
  · obtain rfl : opc = 0xac := BitVec.eq_of_toNat_eq h
    exact alu32_armSim_ac dst src off imm
  · obtain rfl : opc = 0xb4 := BitVec.eq_of_toNat_eq h
    exact alu32_armSim_b4 dst src off imm
  · obtain rfl : opc = 0xbc := BitVec.eq_of_toNat_eq h
    exact alu32_armSim_bc dst src off imm
  · obtain rfl : opc = 0xc4 := BitVec.eq_of_toNat_eq h
    exact alu32_armSim_c4 dst src off imm
  · obtain rfl : opc = 0xcc := BitVec.eq_of_toNat_eq h
    exact alu32_armSim_cc dst src off imm
  · obtain rfl : opc = 0xd4 := BitVec.eq_of_toNat_eq h
    exact alu32_armSim_d4 dst src off imm
  · obtain rfl : opc = 0xdc := BitVec.eq_of_toNat_eq h
    exact alu32_armSim_dc dst src off imm

end Rbpf.ClifSim
