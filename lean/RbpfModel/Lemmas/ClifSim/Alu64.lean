/-
  `ArmSim` for the 64-bit ALU class: add/sub/mul/or/and/lsh/rsh/xor/arsh/mov in immediate and register form, `neg`,
  and the wide load `lddw` (0x18).
-/
import RbpfModel.Lemmas.ClifSim.Base
namespace Rbpf.ClifSim
open Rbpf.ClifAst Rbpf.ClifSem

def alu64Opcodes : List Nat :=
  [0x07, 0x0f, 0x17, 0x1f, 0x27, 0x2f, 0x47, 0x4f, 0x57, 0x5f, 0x67, 0x6f, 0x77, 0x7f, 0x87, 0xa7, 0xaf, 0xb7, 0xbf,
   0xc7, 0xcf, 0x18]

/-! ### values -/

/-- a 64-bit IR value read as a signed number is `BitVec.toInt` -/
theorem alu64_toInt (a : BitVec 64) : (⟨.i64, a⟩ : Val).toInt = a.toInt := by
  have := a.isLt
  show (if a.toNat < 2 ^ 63 then (a.toNat : Int) else (a.toNat : Int) - 2 ^ 64) = a.toInt
  rw [BitVec.toInt_eq_toNat_cond]
  by_cases h : a.toNat < 2 ^ 63
  · rw [if_pos h, if_pos (by omega)]
  · rw [if_neg h, if_neg (by omega)]; omega

theorem alu64_evalBin_sshr (a b : BitVec 64) :
    evalBin .sshr ⟨.i64, a⟩ ⟨.i64, b⟩ = some (some ⟨.i64, a.sshiftRight (b.toNat % 64)⟩) := by
  rw [evalBin_sshr, mk_i64, alu64_toInt]
  rfl

theorem alu64_evalBin_ishl (a b : BitVec 64) :
    evalBin .ishl ⟨.i64, a⟩ ⟨.i64, b⟩ = some (some ⟨.i64, a <<< (b.toNat % 64)⟩) := by
  rw [evalBin_ishl, mk_i64]; rfl

theorem alu64_evalBin_ushr (a b : BitVec 64) :
    evalBin .ushr ⟨.i64, a⟩ ⟨.i64, b⟩ = some (some ⟨.i64, a >>> (b.toNat % 64)⟩) := by
  rw [evalBin_ushr, mk_i64]; rfl

theorem alu64_evalBin_iadd (a b : BitVec 64) : evalBin .iadd ⟨.i64, a⟩ ⟨.i64, b⟩ = some (some ⟨.i64, a + b⟩) := by
  rw [evalBin_iadd, mk_i64]
theorem alu64_evalBin_isub (a b : BitVec 64) : evalBin .isub ⟨.i64, a⟩ ⟨.i64, b⟩ = some (some ⟨.i64, a - b⟩) := by
  rw [evalBin_isub, mk_i64]
theorem alu64_evalBin_imul (a b : BitVec 64) : evalBin .imul ⟨.i64, a⟩ ⟨.i64, b⟩ = some (some ⟨.i64, a * b⟩) := by
  rw [evalBin_imul, mk_i64]
theorem alu64_evalBin_bor (a b : BitVec 64) : evalBin .bor ⟨.i64, a⟩ ⟨.i64, b⟩ = some (some ⟨.i64, a ||| b⟩) := by
  rw [evalBin_bor, mk_i64]
theorem alu64_evalBin_band (a b : BitVec 64) : evalBin .band ⟨.i64, a⟩ ⟨.i64, b⟩ = some (some ⟨.i64, a &&& b⟩) := by
  rw [evalBin_band, mk_i64]
theorem alu64_evalBin_bxor (a b : BitVec 64) : evalBin .bxor ⟨.i64, a⟩ ⟨.i64, b⟩ = some (some ⟨.i64, a ^^^ b⟩) := by
  rw [evalBin_bxor, mk_i64]

theorem alu64_evalUn_ineg (a : BitVec 64) : evalUn .ineg ⟨.i64, a⟩ = some ⟨.i64, - a⟩ := by
  rw [evalUn_ineg, mk_i64]
  exact congrArg (fun v => some (Val.mk .i64 v)) (BitVec.zero_sub a)

/-- `lddw`: the concatenation Cranelift's constant holds is the sum the interpreter computes -/
theorem alu64_lddw_val (lo hi : BitVec 32) : hi ++ lo = Interp.zx32 lo + (Interp.sx32 hi <<< (32 : Nat)) := by
  apply BitVec.eq_of_toNat_eq
  have h1 := lo.isLt
  have h2 := hi.isLt
  simp only [Interp.zx32, Interp.sx32, BitVec.toNat_append, BitVec.toNat_add, BitVec.toNat_shiftLeft,
    BitVec.toNat_setWidth, BitVec.toNat_signExtend, Nat.shiftLeft_eq]
  rw [← Nat.shiftLeft_eq, ← Nat.shiftLeft_add_eq_or_of_lt h1, Nat.shiftLeft_eq]
  split <;> omega

/-! ### the shapes, for any operation -/

section Shapes
variable {env : Env} {σ : St} {s : State} {ops : List Op}

/-- `op64 dst, src` -/
theorem alu64_reg_post {o : BinOp} {f : BitVec 64 → BitVec 64 → BitVec 64}
    (hev : ∀ a b, evalBin o ⟨.i64, a⟩ ⟨.i64, b⟩ = some (some ⟨.i64, f a b⟩))
    (i : Insn) (hw : width i = 1)
    (harm : (Except.map (fun x => x.2.ops) ((alu64Reg o i).run ⟨[], 0, []⟩)).toOption = some ops)
    (hrel : RelC σ s) (hm : MemOk s.mem) :
    ArmPost env σ s ops i
      (Interp.rd { s with pc := s.pc + 1 } i.dst.toNat fun d =>
        Interp.rd { s with pc := s.pc + 1 } i.src.toNat fun x =>
          Interp.wr { s with pc := s.pc + 1 } i.dst.toNat (f d x)) := by
  by_cases hreg : i.dst.toNat < 11 ∧ i.src.toNat < 11
  · obtain ⟨hd, hs⟩ := hreg
    rw [alu64Reg_run _ _ _ _ hd hs] at harm
    simp only [toOption_map_ok, List.nil_append, Option.some.injEq] at harm
    subst harm
    rw [rd_eq _ _ _ hd, rd_eq _ _ _ hs]
    apply armPost_wr hrel hm hd hw
    rw [runOps_bin _ (arg_var_reg hrel _ _ hd) (arg_var_reg hrel _ _ hs) (hev _ _)]
    exact runOps_defVar_last (by rfl) (by omega)
  · rw [alu64Reg_run_ge _ _ _ hreg] at harm
    simp at harm

/-- `op64 dst, imm` -/
theorem alu64_imm_post {o : BinOp} {f : BitVec 64 → BitVec 64 → BitVec 64}
    (hev : ∀ a b, evalBin o ⟨.i64, a⟩ ⟨.i64, b⟩ = some (some ⟨.i64, f a b⟩))
    (i : Insn) (hw : width i = 1)
    (harm : (Except.map (fun x => x.2.ops) ((alu64Imm o i).run ⟨[], 0, []⟩)).toOption = some ops)
    (hrel : RelC σ s) (hm : MemOk s.mem) :
    ArmPost env σ s ops i
      (Interp.rd { s with pc := s.pc + 1 } i.dst.toNat fun d =>
          Interp.wr { s with pc := s.pc + 1 } i.dst.toNat (f d (Interp.sx32 i.imm))) := by
  by_cases hd : i.dst.toNat < 11
  · rw [alu64Imm_run _ _ _ _ hd] at harm
    simp only [toOption_map_ok, List.nil_append, Option.some.injEq] at harm
    subst harm
    rw [rd_eq _ _ _ hd]
    apply armPost_wr hrel hm hd hw
    rw [runOps_iconst, mk_i64,
      runOps_bin _ (arg_var_reg hrel _ _ hd) (by rfl) (hev _ _)]
    exact runOps_defVar_last (by rfl) (by omega)
  · rw [alu64Imm_run_ge _ _ _ hd] at harm
    simp at harm

/-- `neg64 dst` -/
theorem alu64_neg_post (i : Insn) (hw : width i = 1)
    (harm : (Except.map (fun x => x.2.ops)
      ((do let src ← insnDst i; let res ← ins (.un .ineg src); setDst i res : B Unit).run ⟨[], 0, []⟩)).toOption = some ops)
    (hrel : RelC σ s) (hm : MemOk s.mem) :
    ArmPost env σ s ops i
      (Interp.rd { s with pc := s.pc + 1 } i.dst.toNat fun d => Interp.wr { s with pc := s.pc + 1 } i.dst.toNat (- d)) := by
  by_cases hd : i.dst.toNat < 11
  · simp only [B_bind_run, insnDst_run i _ _ hd, ins_run, setDst_run i _ _ _ _ hd, List.cons_append,
      List.nil_append] at harm
    simp only [toOption_map_ok, Option.some.injEq] at harm
    subst harm
    rw [rd_eq _ _ _ hd]
    apply armPost_wr hrel hm hd hw
    rw [runOps_un _ (arg_var_reg hrel _ _ hd) (alu64_evalUn_ineg _)]
    exact runOps_defVar_last (by rfl) (by omega)
  · simp only [B_bind_run, insnDst_run_ge i _ hd] at harm
    simp at harm

/-- `mov64 dst, imm` -/
theorem alu64_movImm_post (i : Insn) (hw : width i = 1)
    (harm : (Except.map (fun x => x.2.ops)
      ((do let imm ← insnImm64 i; ClifAst.defVar (← reg i.dst) imm : B Unit).run ⟨[], 0, []⟩)).toOption = some ops)
    (hrel : RelC σ s) (hm : MemOk s.mem) :
    ArmPost env σ s ops i (Interp.wr { s with pc := s.pc + 1 } i.dst.toNat (Interp.sx32 i.imm)) := by
  by_cases hd : i.dst.toNat < 11
  · simp only [B_bind_run, insnImm64_run, reg_run _ _ hd, defVar_run, List.cons_append, List.nil_append] at harm
    simp only [toOption_map_ok, Option.some.injEq] at harm
    subst harm
    apply armPost_wr hrel hm hd hw
    rw [runOps_iconst, mk_i64]
    exact runOps_defVar_last (by rfl) (by omega)
  · simp only [B_bind_run, insnImm64_run, reg_run_ge _ _ hd] at harm
    simp at harm

/-- `mov64 dst, src` -/
theorem alu64_movReg_post (i : Insn) (hw : width i = 1)
    (harm : (Except.map (fun x => x.2.ops)
      ((do let src ← insnSrc i; ClifAst.defVar (← reg i.dst) src : B Unit).run ⟨[], 0, []⟩)).toOption = some ops)
    (hrel : RelC σ s) (hm : MemOk s.mem) :
    ArmPost env σ s ops i
      (Interp.rd { s with pc := s.pc + 1 } i.src.toNat fun x => Interp.wr { s with pc := s.pc + 1 } i.dst.toNat x) := by
  by_cases hs : i.src.toNat < 11
  · by_cases hd : i.dst.toNat < 11
    · simp only [B_bind_run, insnSrc_run i _ _ hs, reg_run _ _ hd, defVar_run, List.nil_append] at harm
      simp only [toOption_map_ok, Option.some.injEq] at harm
      subst harm
      rw [rd_eq _ _ _ hs]
      apply armPost_wr hrel hm hd hw
      exact runOps_defVar_last (arg_var_reg hrel _ _ hs) (by omega)
    · simp only [B_bind_run, insnSrc_run i _ _ hs, reg_run_ge _ _ hd] at harm
      simp at harm
  · simp only [B_bind_run, insnSrc_run_ge i _ hs] at harm
    simp at harm

/-- `lddw dst, imm64`: the second slot supplies the upper half, the instruction takes two slots -/
theorem alu64_lddw_post (i next : Insn) (hw : width i = 2)
    (harm : (Except.map (fun x => x.2.ops)
      ((do let iconst ← ins (.iconst .i64 (next.imm ++ i.imm)); setDst i iconst : B Unit).run ⟨[], 0, []⟩)).toOption = some ops)
    (hrel : RelC σ s) (hm : MemOk s.mem) :
    ArmPost env σ s ops i
      (Interp.wr { s with pc := s.pc + 1 + 1 } i.dst.toNat
        (Interp.zx32 i.imm + (Interp.sx32 next.imm <<< (32 : Nat)))) := by
  by_cases hd : i.dst.toNat < 11
  · simp only [B_bind_run, ins_run, setDst_run i _ _ _ _ hd, List.cons_append, List.nil_append] at harm
    simp only [toOption_map_ok, Option.some.injEq] at harm
    subst harm
    rw [wr_eq _ _ _ hd, ← alu64_lddw_val]
    refine armPost_next (f := .fall) ?_ (relC_pc (relC_defVar hrel _ hd _) _) hm (Or.inl ⟨rfl, by rw [hw]⟩)
    rw [runOps_iconst, mk_i64]
    exact runOps_defVar_last (by rfl) (by omega)
  · simp only [B_bind_run, ins_run, setDst_run_ge i _ _ hd] at harm
    simp at harm

end Shapes

/-! ### opcode by opcode -/

theorem alu64_armSim_07 (dst src : BitVec 8) (off : BitVec 16) (imm : BitVec 32) : ArmSim ⟨0x07, dst, src, off, imm⟩ := by
  apply armSim_intro
  intro env σ s ops _hget harm hrel hm
  rw [arm_eq] at harm
  simp only [armB, BitVec.reduceToNat] at harm
  simp only [EngineSem.clifExec, EngineSem.cmpImmSigned, EngineSem.xaddInsn, Interp.exec, BitVec.reduceToNat]
  exact alu64_imm_post alu64_evalBin_iadd _ (by rfl) harm hrel hm

theorem alu64_armSim_0f (dst src : BitVec 8) (off : BitVec 16) (imm : BitVec 32) : ArmSim ⟨0x0f, dst, src, off, imm⟩ := by
  apply armSim_intro
  intro env σ s ops _hget harm hrel hm
  rw [arm_eq] at harm
  simp only [armB, BitVec.reduceToNat] at harm
  simp only [EngineSem.clifExec, EngineSem.cmpImmSigned, EngineSem.xaddInsn, Interp.exec, BitVec.reduceToNat]
  exact alu64_reg_post alu64_evalBin_iadd _ (by rfl) harm hrel hm

theorem alu64_armSim_17 (dst src : BitVec 8) (off : BitVec 16) (imm : BitVec 32) : ArmSim ⟨0x17, dst, src, off, imm⟩ := by
  apply armSim_intro
  intro env σ s ops _hget harm hrel hm
  rw [arm_eq] at harm
  simp only [armB, BitVec.reduceToNat] at harm
  simp only [EngineSem.clifExec, EngineSem.cmpImmSigned, EngineSem.xaddInsn, Interp.exec, BitVec.reduceToNat]
  exact alu64_imm_post alu64_evalBin_isub _ (by rfl) harm hrel hm

theorem alu64_armSim_1f (dst src : BitVec 8) (off : BitVec 16) (imm : BitVec 32) : ArmSim ⟨0x1f, dst, src, off, imm⟩ := by
  apply armSim_intro
  intro env σ s ops _hget harm hrel hm
  rw [arm_eq] at harm
  simp only [armB, BitVec.reduceToNat] at harm
  simp only [EngineSem.clifExec, EngineSem.cmpImmSigned, EngineSem.xaddInsn, Interp.exec, BitVec.reduceToNat]
  exact alu64_reg_post alu64_evalBin_isub _ (by rfl) harm hrel hm

theorem alu64_armSim_27 (dst src : BitVec 8) (off : BitVec 16) (imm : BitVec 32) : ArmSim ⟨0x27, dst, src, off, imm⟩ := by
  apply armSim_intro
  intro env σ s ops _hget harm hrel hm
  rw [arm_eq] at harm
  simp only [armB, BitVec.reduceToNat] at harm
  simp only [EngineSem.clifExec, EngineSem.cmpImmSigned, EngineSem.xaddInsn, Interp.exec, BitVec.reduceToNat]
  exact alu64_imm_post alu64_evalBin_imul _ (by rfl) harm hrel hm

theorem alu64_armSim_2f (dst src : BitVec 8) (off : BitVec 16) (imm : BitVec 32) : ArmSim ⟨0x2f, dst, src, off, imm⟩ := by
  apply armSim_intro
  intro env σ s ops _hget harm hrel hm
  rw [arm_eq] at harm
  simp only [armB, BitVec.reduceToNat] at harm
  simp only [EngineSem.clifExec, EngineSem.cmpImmSigned, EngineSem.xaddInsn, Interp.exec, BitVec.reduceToNat]
  exact alu64_reg_post alu64_evalBin_imul _ (by rfl) harm hrel hm

theorem alu64_armSim_47 (dst src : BitVec 8) (off : BitVec 16) (imm : BitVec 32) : ArmSim ⟨0x47, dst, src, off, imm⟩ := by
  apply armSim_intro
  intro env σ s ops _hget harm hrel hm
  rw [arm_eq] at harm
  simp only [armB, BitVec.reduceToNat] at harm
  simp only [EngineSem.clifExec, EngineSem.cmpImmSigned, EngineSem.xaddInsn, Interp.exec, BitVec.reduceToNat]
  exact alu64_imm_post alu64_evalBin_bor _ (by rfl) harm hrel hm

theorem alu64_armSim_4f (dst src : BitVec 8) (off : BitVec 16) (imm : BitVec 32) : ArmSim ⟨0x4f, dst, src, off, imm⟩ := by
  apply armSim_intro
  intro env σ s ops _hget harm hrel hm
  rw [arm_eq] at harm
  simp only [armB, BitVec.reduceToNat] at harm
  simp only [EngineSem.clifExec, EngineSem.cmpImmSigned, EngineSem.xaddInsn, Interp.exec, BitVec.reduceToNat]
  exact alu64_reg_post alu64_evalBin_bor _ (by rfl) harm hrel hm

theorem alu64_armSim_57 (dst src : BitVec 8) (off : BitVec 16) (imm : BitVec 32) : ArmSim ⟨0x57, dst, src, off, imm⟩ := by
  apply armSim_intro
  intro env σ s ops _hget harm hrel hm
  rw [arm_eq] at harm
  simp only [armB, BitVec.reduceToNat] at harm
  simp only [EngineSem.clifExec, EngineSem.cmpImmSigned, EngineSem.xaddInsn, Interp.exec, BitVec.reduceToNat]
  exact alu64_imm_post alu64_evalBin_band _ (by rfl) harm hrel hm

theorem alu64_armSim_5f (dst src : BitVec 8) (off : BitVec 16) (imm : BitVec 32) : ArmSim ⟨0x5f, dst, src, off, imm⟩ := by
  apply armSim_intro
  intro env σ s ops _hget harm hrel hm
  rw [arm_eq] at harm
  simp only [armB, BitVec.reduceToNat] at harm
  simp only [EngineSem.clifExec, EngineSem.cmpImmSigned, EngineSem.xaddInsn, Interp.exec, BitVec.reduceToNat]
  exact alu64_reg_post alu64_evalBin_band _ (by rfl) harm hrel hm

theorem alu64_armSim_67 (dst src : BitVec 8) (off : BitVec 16) (imm : BitVec 32) : ArmSim ⟨0x67, dst, src, off, imm⟩ := by
  apply armSim_intro
  intro env σ s ops _hget harm hrel hm
  rw [arm_eq] at harm
  simp only [armB, BitVec.reduceToNat] at harm
  simp only [EngineSem.clifExec, EngineSem.cmpImmSigned, EngineSem.xaddInsn, Interp.exec, BitVec.reduceToNat]
  exact alu64_imm_post alu64_evalBin_ishl _ (by rfl) harm hrel hm

theorem alu64_armSim_6f (dst src : BitVec 8) (off : BitVec 16) (imm : BitVec 32) : ArmSim ⟨0x6f, dst, src, off, imm⟩ := by
  apply armSim_intro
  intro env σ s ops _hget harm hrel hm
  rw [arm_eq] at harm
  simp only [armB, BitVec.reduceToNat] at harm
  simp only [EngineSem.clifExec, EngineSem.cmpImmSigned, EngineSem.xaddInsn, Interp.exec, BitVec.reduceToNat]
  exact alu64_reg_post alu64_evalBin_ishl _ (by rfl) harm hrel hm

theorem alu64_armSim_77 (dst src : BitVec 8) (off : BitVec 16) (imm : BitVec 32) : ArmSim ⟨0x77, dst, src, off, imm⟩ := by
  apply armSim_intro
  intro env σ s ops _hget harm hrel hm
  rw [arm_eq] at harm
  simp only [armB, BitVec.reduceToNat] at harm
  simp only [EngineSem.clifExec, EngineSem.cmpImmSigned, EngineSem.xaddInsn, Interp.exec, BitVec.reduceToNat]
  exact alu64_imm_post alu64_evalBin_ushr _ (by rfl) harm hrel hm

theorem alu64_armSim_7f (dst src : BitVec 8) (off : BitVec 16) (imm : BitVec 32) : ArmSim ⟨0x7f, dst, src, off, imm⟩ := by
  apply armSim_intro
  intro env σ s ops _hget harm hrel hm
  rw [arm_eq] at harm
  simp only [armB, BitVec.reduceToNat] at harm
  simp only [EngineSem.clifExec, EngineSem.cmpImmSigned, EngineSem.xaddInsn, Interp.exec, BitVec.reduceToNat]
  exact alu64_reg_post alu64_evalBin_ushr _ (by rfl) harm hrel hm

theorem alu64_armSim_87 (dst src : BitVec 8) (off : BitVec 16) (imm : BitVec 32) : ArmSim ⟨0x87, dst, src, off, imm⟩ := by
  apply armSim_intro
  intro env σ s ops _hget harm hrel hm
  rw [arm_eq] at harm
  simp only [armB, BitVec.reduceToNat] at harm
  simp only [EngineSem.clifExec, EngineSem.cmpImmSigned, EngineSem.xaddInsn, Interp.exec, BitVec.reduceToNat]
  exact alu64_neg_post _ (by rfl) harm hrel hm

theorem alu64_armSim_a7 (dst src : BitVec 8) (off : BitVec 16) (imm : BitVec 32) : ArmSim ⟨0xa7, dst, src, off, imm⟩ := by
  apply armSim_intro
  intro env σ s ops _hget harm hrel hm
  rw [arm_eq] at harm
  simp only [armB, BitVec.reduceToNat] at harm
  simp only [EngineSem.clifExec, EngineSem.cmpImmSigned, EngineSem.xaddInsn, Interp.exec, BitVec.reduceToNat]
  exact alu64_imm_post alu64_evalBin_bxor _ (by rfl) harm hrel hm

theorem alu64_armSim_af (dst src : BitVec 8) (off : BitVec 16) (imm : BitVec 32) : ArmSim ⟨0xaf, dst, src, off, imm⟩ := by
  apply armSim_intro
  intro env σ s ops _hget harm hrel hm
  rw [arm_eq] at harm
  simp only [armB, BitVec.reduceToNat] at harm
  simp only [EngineSem.clifExec, EngineSem.cmpImmSigned, EngineSem.xaddInsn, Interp.exec, BitVec.reduceToNat]
  exact alu64_reg_post alu64_evalBin_bxor _ (by rfl) harm hrel hm

theorem alu64_armSim_b7 (dst src : BitVec 8) (off : BitVec 16) (imm : BitVec 32) : ArmSim ⟨0xb7, dst, src, off, imm⟩ := by
  apply armSim_intro
  intro env σ s ops _hget harm hrel hm
  rw [arm_eq] at harm
  simp only [armB, BitVec.reduceToNat] at harm
  simp only [EngineSem.clifExec, EngineSem.cmpImmSigned, EngineSem.xaddInsn, Interp.exec, BitVec.reduceToNat]
  exact alu64_movImm_post _ (by rfl) harm hrel hm

theorem alu64_armSim_bf (dst src : BitVec 8) (off : BitVec 16) (imm : BitVec 32) : ArmSim ⟨0xbf, dst, src, off, imm⟩ := by
  apply armSim_intro
  intro env σ s ops _hget harm hrel hm
  rw [arm_eq] at harm
  simp only [armB, BitVec.reduceToNat] at harm
  simp only [EngineSem.clifExec, EngineSem.cmpImmSigned, EngineSem.xaddInsn, Interp.exec, BitVec.reduceToNat]
  exact alu64_movReg_post _ (by rfl) harm hrel hm

theorem alu64_armSim_c7 (dst src : BitVec 8) (off : BitVec 16) (imm : BitVec 32) : ArmSim ⟨0xc7, dst, src, off, imm⟩ := by
  apply armSim_intro
  intro env σ s ops _hget harm hrel hm
  rw [arm_eq] at harm
  simp only [armB, BitVec.reduceToNat] at harm
  simp only [EngineSem.clifExec, EngineSem.cmpImmSigned, EngineSem.xaddInsn, Interp.exec, BitVec.reduceToNat]
  exact alu64_imm_post alu64_evalBin_sshr _ (by rfl) harm hrel hm

theorem alu64_armSim_cf (dst src : BitVec 8) (off : BitVec 16) (imm : BitVec 32) : ArmSim ⟨0xcf, dst, src, off, imm⟩ := by
  apply armSim_intro
  intro env σ s ops _hget harm hrel hm
  rw [arm_eq] at harm
  simp only [armB, BitVec.reduceToNat] at harm
  simp only [EngineSem.clifExec, EngineSem.cmpImmSigned, EngineSem.xaddInsn, Interp.exec, BitVec.reduceToNat]
  exact alu64_reg_post alu64_evalBin_sshr _ (by rfl) harm hrel hm

theorem alu64_armSim_18 (dst src : BitVec 8) (off : BitVec 16) (imm : BitVec 32) : ArmSim ⟨0x18, dst, src, off, imm⟩ := by
  apply armSim_intro
  intro env σ s ops _hget harm hrel hm
  rw [arm_eq] at harm
  simp only [armB, BitVec.reduceToNat] at harm
  simp only [EngineSem.clifExec, EngineSem.cmpImmSigned, EngineSem.xaddInsn, Interp.exec, BitVec.reduceToNat]
  cases hn : getInsn? env.prog (s.pc + 1) with
  | none =>
    simp only [hn] at harm
    simp [B_throw_run] at harm
  | some next =>
    simp only [hn] at harm ⊢
    exact alu64_lddw_post _ next (by rfl) harm hrel hm

/-! ### the class -/

theorem armSim_alu64 (i : Insn) (h : i.opc.toNat ∈ alu64Opcodes) : ArmSim i := by
  obtain ⟨opc, dst, src, off, imm⟩ := i
  simp only [alu64Opcodes, List.mem_cons, List.mem_nil_iff, or_false] at h
  have hopc : ∀ n : Nat, opc.toNat = n → opc = BitVec.ofNat 8 n := fun n hn => by
    apply BitVec.eq_of_toNat_eq; rw [hn]; have := opc.isLt; simp only [BitVec.toNat_ofNat]; omega
  rcases h with h | h | h | h | h | h | h | h | h | h | h | h | h | h | h | h | h | h | h | h | h | h <;>
    (have := hopc _ h; subst this)
  · exact alu64_armSim_07 dst src off imm
  · exact alu64_armSim_0f dst src off imm
  · exact alu64_armSim_17 dst src off imm
  · exact alu64_armSim_1f dst src off imm
  · exact alu64_armSim_27 dst src off imm
  · exact alu64_armSim_2f dst src off imm
  · exact alu64_armSim_47 dst src off imm
  · exact alu64_armSim_4f dst src off imm
  · exact alu64_armSim_57 dst src off imm
  · exact alu64_armSim_5f dst src off imm
  · exact alu64_armSim_67 dst src off imm
  · exact alu64_armSim_6f dst src off imm
  · exact alu64_armSim_77 dst src off imm
  · exact alu64_armSim_7f dst src off imm
  · exact alu64_armSim_87 dst src off imm
  · exact alu64_armSim_a7 dst src off imm
  · exact alu64_armSim_af dst src off imm
  · exact alu64_armSim_b7 dst src off imm
  · exact alu64_armSim_bf dst src off imm
  · exact alu64_armSim_c7 dst src off imm
  · exact alu64_armSim_cf dst src off imm
  · exact alu64_armSim_18 dst src off imm

end Rbpf.ClifSim
