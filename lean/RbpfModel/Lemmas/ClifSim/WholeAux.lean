/-
  Auxiliary lemmas of the program-level Cranelift-IR simulation (`Whole.lean`):

  2. op lists with the block-closing `jump` appended (`whole_runOps_jump`);
  3. what `translate … = some tr` says about an instruction start (`whole_translate_entry`);
  4. the register-transfer side: a slot that is not an instruction start of an accepted program is not executed
     (`whole_nonstart_panic`);
  5. the state carried by an error is the state the instruction started in (`whole_clifStep_err`).
-/
import RbpfModel.Lemmas.ClifSim.Base
import RbpfModel.Lemmas.VerifierLemmas
namespace Rbpf.ClifSim
open Rbpf.ClifAst Rbpf.ClifSem

/-! ## 2. op lists with the block-closing `jump` appended -/

theorem whole_step_ne_fall (env : Env) (s : St) (loc : List Val) (op : Op) : step env s loc op ≠ .error .fall := by
  intro h
  cases op <;> simp only [step] at h <;> (repeat' (split at h)) <;> simp at h

theorem whole_execOps_error_ne_fall (env : Env) (ops : List Op) : ∀ (s : St) (loc : List Val) (r : St × Flow),
    execOps env s loc ops = .error r → r.2 ≠ .fall := by
  induction ops with
  | nil => intro s loc r h; cases h
  | cons op rest ih =>
    intro s loc r h
    simp only [execOps] at h
    cases hs : step env s loc op with
    | ok p => rw [hs] at h; exact ih p.1 p.2 r h
    | error f =>
      rw [hs] at h
      cases h
      intro hf
      exact whole_step_ne_fall env s loc op (by rw [hs]; exact congrArg _ hf)

/-- a list that falls through continues with the appended `jump`; one that leaves on its own does not reach it -/
theorem whole_runOps_jump {env : Env} {σ σ' : St} {ops : List Op} {f : Flow} (next : Nat)
    (h : runOps env σ [] ops = (σ', f)) :
    runOps env σ [] (ops ++ [.jump next]) = (σ', if f = .fall then .goto next else f) := by
  rw [runOps_eq_execOps] at h
  rw [runOps_append_eq]
  cases he : execOps env σ [] ops with
  | ok p =>
    rw [he] at h
    simp only at h ⊢
    cases h
    rfl
  | error r =>
    rw [he] at h
    simp only at h ⊢
    have := whole_execOps_error_ne_fall env ops σ [] r he
    subst h
    simp only at this
    rw [if_neg this]


/-! ## 3. what `translate … = some tr` says about an instruction start -/

/-- the entry of the translation at the instruction start `pc`: the ops of the arm, possibly followed by the `jump` that
    closes the block before the next instruction's -/
def whole_Entry (helpers : Nat → Bool) (p : Bytes) (tr : List (Nat × List Op)) (pc : Nat) : Prop :=
  ∃ i ops, getInsn? p pc = some i ∧ arm helpers p pc i = some ops ∧
    (tr.lookup pc = some ops ∨ tr.lookup pc = some (ops ++ [.jump (pc + width i)]))

theorem whole_sweep_lookup (helpers : Nat → Bool) (p : Bytes) (blocks : List Nat) :
    ∀ (fuel s : Nat) (is : List (Nat × Insn)) (tr : List (Nat × List Op)), p.size / 8 + 1 ≤ fuel + s →
      ClifAst.sweep p fuel s = .ok is → is.mapM (translateStep helpers p blocks) = .ok tr →
      ∀ pc ∈ sweepFrom p s, whole_Entry helpers p tr pc := by
  intro fuel
  induction fuel with
  | zero =>
    intro s is tr hf _ _ pc hpc
    have := mem_sweepFrom_bounds hpc
    omega
  | succ fuel ih =>
    intro s is tr hf hsw hmap pc hpc
    rw [ClifAst.sweep] at hsw
    rw [sweepFrom] at hpc
    by_cases hs : s * 8 < p.size
    · rw [if_pos hs] at hsw hpc
      cases hi : getInsn? p s with
      | none => rw [hi] at hsw; cases hsw
      | some i =>
        rw [hi] at hsw hpc
        simp only at hsw hpc
        cases hrest : ClifAst.sweep p fuel (s + (if i.opc = 0x18 then 2 else 1)) with
        | error e => rw [hrest] at hsw; cases hsw
        | ok is' =>
          rw [hrest] at hsw
          cases hsw
          rw [List.mapM_cons] at hmap
          cases hstep : translateStep helpers p blocks (s, i) with
          | error e => rw [hstep] at hmap; cases hmap
          | ok x =>
            rw [hstep] at hmap
            cases htl : List.mapM (translateStep helpers p blocks) is' with
            | error e => rw [htl] at hmap; cases hmap
            | ok tr' =>
              rw [htl] at hmap
              cases hmap
              -- the head
              simp only [translateStep] at hstep
              cases harm : armR helpers p s i with
              | error e => rw [harm] at hstep; cases hstep
              | ok ops =>
                rw [harm] at hstep
                cases hstep
                rcases List.mem_cons.1 hpc with rfl | hpc
                · refine ⟨i, ops, hi, by simp only [arm, harm]; rfl, ?_⟩
                  simp only [List.lookup_cons_self, width]
                  split <;> split <;> first | exact Or.inr rfl | exact Or.inl rfl
                · have hb := (mem_sweepFrom_bounds hpc).1
                  obtain ⟨j, ops', hj, harm', hl⟩ := ih _ is' tr' (by split <;> omega) hrest htl pc hpc
                  refine ⟨j, ops', hj, harm', ?_⟩
                  have hne : (pc == s) = false := by
                    rw [beq_eq_false_iff_ne]
                    split at hb <;> omega
                  simp only [List.lookup_cons, hne]
                  exact hl
    · rw [if_neg hs] at hpc; cases hpc

theorem whole_translate_entry {helpers : Nat → Bool} {p : Bytes} {tr : List (Nat × List Op)}
    (h : translate p helpers = some tr) : ∀ pc ∈ starts p, whole_Entry helpers p tr pc := by
  simp only [translate, translateR] at h
  cases hb : blockStartsR p with
  | error e => rw [hb] at h; cases h
  | ok blocks =>
    rw [hb] at h
    cases hi : ClifAst.insns p with
    | error e => rw [hi] at h; cases h
    | ok is =>
      rw [hi] at h
      change (List.mapM (translateStep helpers p blocks) is).toOption = some tr at h
      cases hm : List.mapM (translateStep helpers p blocks) is with
      | error e => rw [hm] at h; cases h
      | ok tr' =>
        rw [hm] at h
        cases h
        exact whole_sweep_lookup helpers p blocks _ 0 is _ (by omega) hi hm


/-! ## 4. the register-transfer side: slots that are not instruction starts, refused steps -/

theorem whole_clifExec_opc0 (env : Env) (s : State) (i : Insn) (h : i.opc = 0) : EngineSem.clifExec env s i = .panic := by
  obtain ⟨opc, dst, src, off, imm⟩ := i
  simp only at h
  subst h
  rfl

/-- in an accepted program a slot that is not an instruction start is the second half of a wide load: opcode 0, which
    the generated code's semantics do not execute -/
theorem whole_nonstart_panic (env : Env) (hv : Verifier.check env.prog = .ok) (s : State)
    (hns : s.pc ∉ starts env.prog) : EngineSem.clifStep env s = .panic := by
  obtain ⟨h8, _, _, hins, _⟩ := wellFormed_of_check_ok hv
  unfold EngineSem.clifStep
  by_cases hlt : s.pc * 8 < env.prog.size
  · rw [if_pos hlt]
    rcases sweepFrom_cover (p := env.prog) (pc := 0) (t := s.pc) (Nat.zero_le _) (by omega) with h | ⟨i, hi, x, hx, h18, ht⟩
    · exact absurd h hns
    · have hok := hins i hi
      unfold WF.InsnOk at hok
      rw [hx] at hok
      simp only at hok
      obtain ⟨-, -, -, hl, -⟩ := hok
      have hl := hl (by simp [WF.isLddw, h18])
      rw [ht]
      cases hy : getInsn? env.prog (i + 1) with
      | none => rfl
      | some y =>
        rw [hy] at hl
        simp only at hl ⊢
        exact whole_clifExec_opc0 env _ y hl
  · rw [if_neg hlt]


/-! ## 5. refused steps change nothing -/

section ErrSame
open Rbpf.Interp Rbpf.EngineSem

/-- an outcome that, when it is an error, carries the state `s` -/
def whole_ErrSame (s : State) (o : Outcome) : Prop := ∀ e s', o = .err e s' → s' = s

theorem whole_es_next (s t : State) : whole_ErrSame s (.next t) := by intro e s' h; cases h
theorem whole_es_done (s t : State) (r : BitVec 64) : whole_ErrSame s (.done r t) := by intro e s' h; cases h
theorem whole_es_panic (s : State) : whole_ErrSame s .panic := by intro e s' h; cases h
theorem whole_es_fault (s : State) : whole_ErrSame s .fault := by intro e s' h; cases h
theorem whole_es_err (s : State) (e : ErrKind) : whole_ErrSame s (.err e s) := by intro e' s' h; cases h; rfl

theorem whole_es_rd (s t : State) (i : Nat) (k : BitVec 64 → Outcome) (h : ∀ v, whole_ErrSame s (k v)) :
    whole_ErrSame s (rd t i k) := by
  show whole_ErrSame s (match t.reg[i]? with | some v => k v | none => .panic)
  cases t.reg[i]? with
  | none => exact whole_es_panic s
  | some v => exact h v

theorem whole_es_wr (s t : State) (i : Nat) (v : BitVec 64) : whole_ErrSame s (wr t i v) := by
  unfold wr; split
  · exact whole_es_next _ _
  · exact whole_es_panic s

theorem whole_es_jumpTo (s t : State) (x : Int) : whole_ErrSame s (jumpTo t x) := by
  unfold jumpTo; split
  · exact whole_es_panic s
  · exact whole_es_next _ _

theorem whole_es_branch (s t : State) (off : BitVec 16) (c : Bool) : whole_ErrSame s (branch t off c) := by
  unfold branch; split
  · exact whole_es_jumpTo s t _
  · exact whole_es_next _ _

theorem whole_es_load (env : Env) (s : State) (a : BitVec 64) (w d : Nat) : whole_ErrSame s (load env s a w d) := by
  unfold load; split
  · split
    · exact whole_es_wr s s _ _
    · exact whole_es_fault s
  · exact whole_es_err s _

theorem whole_es_store (env : Env) (s : State) (a : BitVec 64) (w : Nat) (v : BitVec 64) :
    whole_ErrSame s (store env s a w v) := by
  unfold store; split
  · split
    · exact whole_es_next _ _
    · exact whole_es_fault s
  · exact whole_es_err s _

theorem whole_es_xadd (env : Env) (s : State) (a : BitVec 64) (w : Nat) (v : BitVec 64) :
    whole_ErrSame s (xadd env s a w v) := by
  unfold xadd; split
  · split
    · split
      · split
        · exact whole_es_next _ _
        · exact whole_es_fault s
      · exact whole_es_fault s
    · exact whole_es_err s _
  · exact whole_es_err s _

theorem whole_es_xaddAnyAlign (env : Env) (s : State) (a : BitVec 64) (w : Nat) (v : BitVec 64) :
    whole_ErrSame s (xaddAnyAlign env s a w v) := by
  unfold xaddAnyAlign; split
  · split
    · split
      · exact whole_es_next _ _
      · exact whole_es_fault s
    · exact whole_es_fault s
  · exact whole_es_err s _

theorem whole_es_pktAbs (s : State) (imm : BitVec 32) (k : BitVec 64 → Outcome) (h : ∀ v, whole_ErrSame s (k v)) :
    whole_ErrSame s (pktAbs s imm k) := by
  unfold pktAbs; split
  · exact whole_es_panic s
  · exact h _

theorem whole_es_callHelper (env : Env) (s : State) (imm : BitVec 32) : whole_ErrSame s (callHelper env s imm) := by
  unfold callHelper; split
  · repeat (apply whole_es_rd; intro _)
    exact whole_es_wr _ _ 0 _
  · exact whole_es_err s _

theorem whole_es_callLocal (s : State) (imm : BitVec 32) : whole_ErrSame s (callLocal s imm) := by
  unfold callLocal; dsimp only; split
  · exact whole_es_err s _
  · repeat (apply whole_es_rd; intro _)
    split
    · exact whole_es_panic s
    · exact whole_es_jumpTo _ _ _

theorem whole_es_exit (s : State) : whole_ErrSame s (exitInsn s) := by
  unfold exitInsn; split
  · apply whole_es_rd; intro _; exact whole_es_done _ _ _
  · apply whole_es_rd; intro _
    dsimp only
    split
    · exact whole_es_panic s
    · exact whole_es_next _ _

theorem whole_es_ite (s : State) (c : Prop) [Decidable c] (a b : Outcome) (ha : whole_ErrSame s a) (hb : whole_ErrSame s b) :
    whole_ErrSame s (if c then a else b) := by split <;> assumption

macro "whole_es_tac" : tactic => `(tactic|
  repeat (first
    | apply whole_es_wr | apply whole_es_branch | apply whole_es_next | apply whole_es_panic | apply whole_es_err
    | apply whole_es_load | apply whole_es_store | apply whole_es_xadd | apply whole_es_xaddAnyAlign
    | (apply whole_es_rd; intro _) | (apply whole_es_pktAbs; intro _) | apply whole_es_ite))

attribute [local irreducible] rd wr load store xadd pktAbs branch callHelper callLocal exitInsn whole_ErrSame in
set_option maxRecDepth 4000 in
theorem whole_es_exec (env : Env) (s : State) (insn : Insn) : whole_ErrSame s (exec env s insn) := by
  unfold exec
  dsimp only
  split
  all_goals first
    | (whole_es_tac; done)
    | exact whole_es_exit s
    | (split
       · exact whole_es_panic s
       · exact whole_es_wr _ _ _ _)
    | (split
       · exact whole_es_callHelper env s _
       · split
         · exact whole_es_callLocal s _
         · exact whole_es_err s _)

attribute [local irreducible] rd branch whole_ErrSame in
theorem whole_es_cmpImm (s : State) (insn : Insn) (o : Outcome) (h : cmpImmSigned s insn = some o) : whole_ErrSame s o := by
  unfold cmpImmSigned at h
  dsimp only at h
  split at h
  all_goals first
    | (cases h; apply whole_es_rd; intro _; apply whole_es_branch)
    | cases h

attribute [local irreducible] rd xaddAnyAlign whole_ErrSame in
theorem whole_es_xaddInsn (env : Env) (s : State) (insn : Insn) (o : Outcome) (h : xaddInsn env s insn = some o) :
    whole_ErrSame s o := by
  unfold xaddInsn at h
  dsimp only at h
  split at h
  all_goals first
    | (cases h; apply whole_es_rd; intro _; apply whole_es_rd; intro _; apply whole_es_xaddAnyAlign)
    | cases h

/-- the state an error of the generated code's semantics carries is the state in which the instruction started -/
theorem whole_clifExec_err (env : Env) (s : State) (insn : Insn) : whole_ErrSame s (clifExec env s insn) := by
  unfold clifExec
  cases hc : cmpImmSigned s insn with
  | some o => exact whole_es_cmpImm s insn o hc
  | none =>
    dsimp only
    cases hx : xaddInsn { env with allowed := [] } s insn with
    | some o => exact whole_es_xaddInsn _ s insn o hx
    | none => exact whole_es_exec _ s insn

theorem whole_clifStep_err (env : Env) (s : State) (e : ErrKind) (s' : State) (h : clifStep env s = .err e s') :
    s'.mem = s.mem ∧ s'.log = s.log := by
  unfold clifStep at h
  split at h
  · split at h
    · cases h
    · have := whole_clifExec_err env _ _ e s' h
      subst this
      exact ⟨rfl, rfl⟩
  · cases h


end ErrSame

end Rbpf.ClifSim
