/-
  The method, end to end, on one opcode: `add64 dst, src` (0x0f).  Copy this pattern.

  1. `armSim_intro` reduces `ArmSim i` to a goal `ArmPost env σ s ops i (clifExec env {s with pc := s.pc+1} i)`.
  2. translator side: `rw [arm_eq] at harm`, `simp only [armB, BitVec.reduceToNat] at harm` selects the arm of the literal
     opcode; `by_cases` on the registers being `< 11`; `<shape>_run` gives `ops = [explicit list]`, `<shape>_run_ge` gives
     `none = some ops` when a register field is out of range.
  3. eBPF side: `simp only [clifExec, cmpImmSigned, xaddInsn, Interp.exec, BitVec.reduceToNat]` selects the interpreter's
     arm; `rd_eq`, `wr_eq` (registers `< 11`).
  4. `armPost_wr` (or `armPost_next` / `armPost_done` / `armPost_oob`) leaves the run of the op list; step through it with
     `runOps_<op>` and the operand lemmas `arg_var_reg hrel`, `arg_loc`.
-/
import RbpfModel.Lemmas.ClifSim.Base
namespace Rbpf.ClifSim
open Rbpf.ClifAst Rbpf.ClifSem

theorem example_armSim_0f (dst src : BitVec 8) (off : BitVec 16) (imm : BitVec 32) :
    ArmSim ⟨0x0f, dst, src, off, imm⟩ := by
  apply armSim_intro
  intro env σ s ops _hget harm hrel hm
  -- translator side
  rw [arm_eq] at harm
  simp only [armB, BitVec.reduceToNat] at harm
  by_cases hreg : dst.toNat < 11 ∧ src.toNat < 11
  · obtain ⟨hd, hs⟩ := hreg
    rw [alu64Reg_run _ _ _ _ hd hs] at harm
    simp only [toOption_map_ok, List.nil_append, Option.some.injEq] at harm
    subst harm
    -- eBPF side
    simp only [EngineSem.clifExec, EngineSem.cmpImmSigned, EngineSem.xaddInsn, Interp.exec, BitVec.reduceToNat]
    rw [rd_eq _ _ _ hd, rd_eq _ _ _ hs]
    -- the two ops
    apply armPost_wr hrel hm hd (by rfl)
    rw [runOps_bin _ (arg_var_reg hrel _ _ hd) (arg_var_reg hrel _ _ hs) (evalBin_iadd _ _ _), mk_i64]
    exact runOps_defVar_last (by rfl) (by omega)
  · -- a register field ≥ 11: `self.registers[r]` panics, `arm` is `none`
    rw [alu64Reg_run_ge _ _ _ hreg] at harm
    simp at harm

end Rbpf.ClifSim
