/-
  The Cranelift-IR simulation, assembled: `armSim_all` (every instruction for which `arm` produces ops is in one of the five
  proved classes), then the program-level theorems `clif_ir_run` and `clif_ir_function` of `CLIFSIM_TASK.md`.

  Both program-level theorems carry the hypothesis `hv : Verifier.check env.prog = .ok`, which the task statement does not
  have: without it they are false (see `whole_run` in `Whole.lean` for the program).
-/
import RbpfModel.Lemmas.ClifSim.Whole
import RbpfModel.Lemmas.ClifSim.Alu64
import RbpfModel.Lemmas.ClifSim.Alu32
import RbpfModel.Lemmas.ClifSim.DivMod
import RbpfModel.Lemmas.ClifSim.Jump
import RbpfModel.Lemmas.ClifSim.Mem
namespace Rbpf.ClifSim
open Rbpf.ClifAst Rbpf.ClifSem

/-! ## every arm is in a class -/

/-- the opcodes with an arm of their own in `armB` that emits ops (all but the conditional jumps, which share the
    default arm, and `0x8d`, whose arm panics) -/
def whole_armOpcodes : List Nat := alu64Opcodes ++ alu32Opcodes ++ divModOpcodes ++ [0x05, 0x95] ++ memOpcodes

/-- the 256 opcode bytes: in a class, or without arm -/
theorem whole_opc_cover : ∀ o : BitVec 8,
    o.toNat ∈ alu64Opcodes ∨ o.toNat ∈ alu32Opcodes ∨ o.toNat ∈ divModOpcodes ∨ o.toNat ∈ jumpOpcodes ∨
    o.toNat ∈ memOpcodes ∨ (isCondJump o.toNat = false ∧ o.toNat ∉ whole_armOpcodes) := by
  apply forall_bv8
  decide +kernel

/-- outside the classes `translate_program` panics: `TAIL_CALL` (`unimplemented!()`) and the default arm -/
theorem whole_arm_none (helpers : Nat → Bool) (p : Bytes) (pc : Nat) (i : Insn)
    (hcj : isCondJump i.opc.toNat = false) (hn : i.opc.toNat ∉ whole_armOpcodes) : arm helpers p pc i = none := by
  rw [arm_eq]
  unfold armB
  split
  all_goals first
    | (rename_i heq
       rw [heq] at hn
       exact absurd hn (by decide))
    | rfl
    | (simp only [hcj]; rfl)

theorem armSim_all (i : Insn) : ArmSim i := by
  rcases whole_opc_cover i.opc with h | h | h | h | h | ⟨hcj, hn⟩
  · exact armSim_alu64 i h
  · exact armSim_alu32 i h
  · exact armSim_divmod i h
  · exact armSim_jump i h
  · exact armSim_mem i h
  · intro env σ s ops _ harm
    rw [whole_arm_none _ _ _ _ hcj hn] at harm
    cases harm

/-! ## the program -/

/-- runs: a value returned by the register-transfer semantics is returned by the IR, with the same memory and helper calls;
    an access they refuse is a trap of the IR with the memory and the helper calls made until then -/
theorem clif_ir_run (env : Env) (tr : List (Nat × List Op)) (htr : translate env.prog (helperSet env) = some tr)
    (hv : Verifier.check env.prog = .ok)
    (σ : St) (s : State) (hrel : RelC σ s) (hm : MemOk s.mem) (fuel : Nat) :
    (∀ r s', EngineSem.clifRun env s fuel = .done r s' →
        ∃ k σ', run env tr σ s.pc k = .ret r σ' ∧ σ'.mem = s'.mem ∧ σ'.log = s'.log) ∧
    (∀ s', EngineSem.clifRun env s fuel = .err .oob s' →
        ∃ k σ', run env tr σ s.pc k = .trap σ' ∧ σ'.mem = s'.mem ∧ σ'.log = s'.log) :=
  whole_run armSim_all env tr htr hv σ s hrel hm fuel

theorem whole_runFunction_eq {env : Env} {tr : List (Nat × List Op)} {m : Memory} {σ : St} {t : Nat}
    (h : runOps env (entry m) [] prelude = (σ, .goto t)) (k : Nat) : runFunction env tr m k = run env tr σ t k := by
  simp only [runFunction, h]

/-- the whole function, from the entry state `CraneliftProgram::execute` sets up -/
theorem clif_ir_function (env : Env) (tr : List (Nat × List Op)) (htr : translate env.prog (helperSet env) = some tr)
    (hv : Verifier.check env.prog = .ok) (m : Memory) (hm : MemOk m) (fuel : Nat) :
    (∀ r s', EngineSem.clifRun env (init2 m) fuel = .done r s' →
        ∃ k σ', runFunction env tr m k = .ret r σ' ∧ σ'.mem = s'.mem ∧ σ'.log = s'.log) ∧
    (∀ s', EngineSem.clifRun env (init2 m) fuel = .err .oob s' →
        ∃ k σ', runFunction env tr m k = .trap σ' ∧ σ'.mem = s'.mem ∧ σ'.log = s'.log) := by
  obtain ⟨σ0, hpre, hrel⟩ := prelude_sim env m hm
  obtain ⟨h1, h2⟩ := clif_ir_run env tr htr hv σ0 (init2 m) hrel hm fuel
  refine ⟨fun r s' h => ?_, fun s' h => ?_⟩
  · obtain ⟨k, σ', hr, hx⟩ := h1 r s' h
    exact ⟨k, σ', by rw [whole_runFunction_eq hpre]; exact hr, hx⟩
  · obtain ⟨k, σ', hr, hx⟩ := h2 s' h
    exact ⟨k, σ', by rw [whole_runFunction_eq hpre]; exact hr, hx⟩

/-! ## non-vacuity: the hypotheses hold of a program with a taken conditional jump, and the conclusion is a real run -/
namespace WholeEx

/-- `0: mov r0,7  1: jeq r0,7,+1  2: mov r0,0  3: exit` -/
def prog : Bytes := #[0xb7,0,0,0,7,0,0,0, 0x15,0,1,0,7,0,0,0, 0xb7,0,0,0,0,0,0,0, 0x95,0,0,0,0,0,0,0]
def env : Env := { prog := prog, helpers := fun _ => none, allowed := [], usage := fun _ => none }
def mem : Memory := { mbuff := ⟨0, #[]⟩, mem := ⟨0, #[]⟩, stack := ⟨0x3000, Array.replicate 512 0⟩, extra := [] }

theorem memOk : MemOk mem := by constructor <;> simp [mem]

def value : Interp.Result → Option (BitVec 64)
  | .done r _ => some r
  | _ => none

theorem runs : value (EngineSem.clifRun env (init2 mem) 10) = some 7 := by decide +kernel

/-- the translated function returns 7 as well -/
example : ∃ tr k σ', translate env.prog (helperSet env) = some tr ∧ runFunction env tr mem k = .ret 7 σ' := by
  have hv : Verifier.check env.prog = .ok := by decide +kernel
  have hs : (translate env.prog (helperSet env)).isSome = true := by decide +kernel
  cases htr : translate env.prog (helperSet env) with
  | none => rw [htr] at hs; cases hs
  | some tr =>
    have hr := runs
    cases hrun : EngineSem.clifRun env (init2 mem) 10 with
    | done r s' =>
      rw [hrun] at hr
      have : r = 7 := Option.some.inj hr
      subst this
      obtain ⟨k, σ', h, -⟩ := (clif_ir_function env tr htr hv mem memOk 10).1 _ _ hrun
      exact ⟨tr, k, σ', rfl, h⟩
    | _ => rw [hrun] at hr; cases hr

/-- `0: ldxdw r0,[r1+0]  1: exit` on an empty packet (r1 = 0): the access is refused -/
def prog2 : Bytes := #[0x79,0x10,0,0,0,0,0,0, 0x95,0,0,0,0,0,0,0]
def env2 : Env := { env with prog := prog2 }

def refused : Interp.Result → Bool
  | .err .oob _ => true
  | _ => false

theorem runs2 : refused (EngineSem.clifRun env2 (init2 mem) 10) = true := by decide +kernel

/-- the translated function traps -/
example : ∃ tr k σ', translate env2.prog (helperSet env2) = some tr ∧ runFunction env2 tr mem k = .trap σ' := by
  have hv : Verifier.check env2.prog = .ok := by decide +kernel
  have hs : (translate env2.prog (helperSet env2)).isSome = true := by decide +kernel
  cases htr : translate env2.prog (helperSet env2) with
  | none => rw [htr] at hs; cases hs
  | some tr =>
    have hr := runs2
    cases hrun : EngineSem.clifRun env2 (init2 mem) 10 with
    | err e s' =>
      rw [hrun] at hr
      cases e <;> first | cases hr | skip
      obtain ⟨k, σ', h, -⟩ := (clif_ir_function env2 tr htr hv mem memOk 10).2 _ hrun
      exact ⟨tr, k, σ', rfl, h⟩
    | _ => rw [hrun] at hr; cases hr

end WholeEx
end Rbpf.ClifSim
