/-
  `ArmSim` for unsigned division and remainder: 0x34 0x3c 0x37 0x3f 0x94 0x9c 0x97 0x9f.

  * immediate forms: the zero immediate is decided by the translator (`div` → the constant 0, `mod` → no op at all), a
    non-zero immediate is a non-zero constant at its type (`dm_sx_ne`, `dm_zx_ne`), so `udiv`/`urem` do not trap;
  * register forms (`dm_run_*Reg`): `icmp eq` / `select` replace a zero divisor by 1 before `udiv`/`urem`, the second
    `select` yields 0 (`div`) or the unreduced 64-bit destination (`mod`, also `mod32`: `dm_armPost_keep`);
  * 32-bit forms: `ireduce.i32` = `zx32 ∘ lo32`, quotient and remainder of zero-extended operands need no reduction
    (`dm_div32`, `dm_mod32`), `uextend.i64` keeps the value.
-/
import RbpfModel.Lemmas.ClifSim.Base
namespace Rbpf.ClifSim
open Rbpf.ClifAst Rbpf.ClifSem

set_option linter.unusedSimpArgs false

def divModOpcodes : List Nat := [0x34, 0x3c, 0x37, 0x3f, 0x94, 0x9c, 0x97, 0x9f]

/-! ### values -/

theorem dm_sx_ne (imm : BitVec 32) (h : imm ≠ 0) : Interp.sx32 imm ≠ 0 := by
  intro h0
  apply h
  apply BitVec.eq_of_toNat_eq
  have := congrArg BitVec.toNat h0
  simp only [Interp.sx32, BitVec.toNat_signExtend, BitVec.toNat_setWidth] at this
  have h2 := imm.isLt
  change _ = 0 at this
  show imm.toNat = 0
  omega

theorem dm_zx_ne (y : BitVec 32) (h : y ≠ 0) : Interp.zx32 y ≠ 0 := by
  intro h0
  apply h
  have := congrArg Interp.lo32 h0
  rw [lo32_zx32] at this
  rw [this]; rfl

theorem dm_width (i : Insn) (k : BitVec 8) (hopc : i.opc = k) (hk : k ≠ 0x18) : width i = 1 :=
  width_eq_one i (by rw [hopc]; exact hk)

theorem dm_mk32_zero : mk .i32 0 = ⟨.i32, 0⟩ := by decide
theorem dm_mk32_one : mk .i32 1 = ⟨.i32, 1⟩ := by decide
theorem dm_bool_true_v : (bool true).v ≠ 0 := by decide
theorem dm_bool_false_v : ¬ (bool false).v ≠ 0 := by decide
theorem dm_one_ne : (1 : BitVec 64) ≠ 0 := by decide

theorem dm_evalCC_eq (t : Ty) (a b : BitVec 64) : evalCC .eq ⟨t, a⟩ ⟨t, b⟩ = decide (a = b) := rfl

theorem dm_zx_eq_zero (y : BitVec 32) : Interp.zx32 y = 0 ↔ y = 0 :=
  ⟨fun h => Classical.byContradiction fun hn => dm_zx_ne y hn h, fun h => by rw [h]; rfl⟩

theorem dm_div32 (a b : BitVec 32) : mk .i32 (Interp.zx32 a / Interp.zx32 b) = ⟨.i32, Interp.zx32 (a / b)⟩ := by
  rw [mk_i32]
  congr 1
  apply BitVec.eq_of_toNat_eq
  have h1 : a.toNat / b.toNat ≤ a.toNat := Nat.div_le_self _ _
  have ha := a.isLt
  have hb := b.isLt
  simp only [Interp.zx32, Interp.lo32, BitVec.toNat_setWidth, BitVec.toNat_udiv]
  rw [Nat.mod_eq_of_lt (show a.toNat < 2 ^ 64 by omega), Nat.mod_eq_of_lt (show b.toNat < 2 ^ 64 by omega),
    Nat.mod_eq_of_lt (show a.toNat / b.toNat < 2 ^ 32 by omega)]

theorem dm_mod32 (a b : BitVec 32) : mk .i32 (Interp.zx32 a % Interp.zx32 b) = ⟨.i32, Interp.zx32 (a % b)⟩ := by
  rw [mk_i32]
  congr 1
  apply BitVec.eq_of_toNat_eq
  have h1 : a.toNat % b.toNat ≤ a.toNat := Nat.mod_le _ _
  have ha := a.isLt
  have hb := b.isLt
  simp only [Interp.zx32, Interp.lo32, BitVec.toNat_setWidth, BitVec.toNat_umod]
  rw [Nat.mod_eq_of_lt (show a.toNat < 2 ^ 64 by omega), Nat.mod_eq_of_lt (show b.toNat < 2 ^ 64 by omega),
    Nat.mod_eq_of_lt (show a.toNat % b.toNat < 2 ^ 32 by omega)]

/-! ### the eBPF side: a zero divisor of `mod` leaves the state alone -/

theorem dm_armPost_keep {env : Env} {σ : St} {s : State} {ops : List Op} {i : Insn} {r : Nat}
    (hrel : RelC σ s) (hm : MemOk s.mem) (hr : r < 11) (hw : width i = 1)
    (hrun : runOps env σ [] ops = ({ σ with vars := σ.vars.setIfInBounds r s.reg[r] }, .fall)) :
    ArmPost env σ s ops i (.next { s with pc := s.pc + 1 }) := by
  have h := armPost_wr (i := i) (v := s.reg[r]) hrel hm hr hw hrun
  rw [wr_eq _ _ _ hr] at h
  have e : ({ s with pc := s.pc + 1 } : State).reg.setIfInBounds r s.reg[r] = s.reg := setIfInBounds_self s.reg r hr
  rw [e] at h
  exact h

/-! ### the IR side: the op lists, on abstract operand values -/

section Run
variable {env : Env} {σ : St} (rd rs : Nat) (d x : BitVec 64)

theorem dm_run_div64Reg (hd : ∀ loc, arg σ loc (.var rd) = some ⟨.i64, d⟩) (hs : ∀ loc, arg σ loc (.var rs) = some ⟨.i64, x⟩)
    (hr : rd < 17) :
    runOps env σ [] [.iconst .i64 0, .iconst .i64 1, .icmp .eq (.var rs) (.loc 0), .select (.loc 2) (.loc 1) (.var rs),
      .bin .udiv (.var rd) (.loc 3), .select (.loc 2) (.loc 0) (.loc 4), .defVar rd (.loc 5)] =
    ({ σ with vars := σ.vars.setIfInBounds rd (if x = 0 then 0 else d / x) }, .fall) := by
  rw [runOps_iconst, runOps_iconst, mk_i64, mk_i64]
  rw [runOps_icmp _ (hs _) (by rfl) (by rfl), dm_evalCC_eq]
  by_cases hx : x = 0
  · rw [decide_eq_true hx, if_pos hx]
    rw [runOps_select _ (by rfl) (by rfl) (hs _) (by rfl), if_pos dm_bool_true_v]
    rw [runOps_bin _ (hd _) (by rfl) (evalBin_udiv _ _ _ dm_one_ne), mk_i64]
    rw [runOps_select _ (by rfl) (by rfl) (by rfl) (by rfl), if_pos dm_bool_true_v]
    exact runOps_defVar_last (by rfl) hr
  · rw [decide_eq_false hx, if_neg hx]
    rw [runOps_select _ (by rfl) (by rfl) (hs _) (by rfl), if_neg dm_bool_false_v]
    rw [runOps_bin _ (hd _) (by rfl) (evalBin_udiv _ _ _ hx), mk_i64]
    rw [runOps_select _ (by rfl) (by rfl) (by rfl) (by rfl), if_neg dm_bool_false_v]
    exact runOps_defVar_last (by rfl) hr

theorem dm_run_mod64Reg (hd : ∀ loc, arg σ loc (.var rd) = some ⟨.i64, d⟩) (hs : ∀ loc, arg σ loc (.var rs) = some ⟨.i64, x⟩)
    (hr : rd < 17) :
    runOps env σ [] [.iconst .i64 0, .iconst .i64 1, .icmp .eq (.var rs) (.loc 0), .select (.loc 2) (.loc 1) (.var rs),
      .bin .urem (.var rd) (.loc 3), .select (.loc 2) (.var rd) (.loc 4), .defVar rd (.loc 5)] =
    ({ σ with vars := σ.vars.setIfInBounds rd (if x = 0 then d else d % x) }, .fall) := by
  rw [runOps_iconst, runOps_iconst, mk_i64, mk_i64]
  rw [runOps_icmp _ (hs _) (by rfl) (by rfl), dm_evalCC_eq]
  by_cases hx : x = 0
  · rw [decide_eq_true hx, if_pos hx]
    rw [runOps_select _ (by rfl) (by rfl) (hs _) (by rfl), if_pos dm_bool_true_v]
    rw [runOps_bin _ (hd _) (by rfl) (evalBin_urem _ _ _ dm_one_ne), mk_i64]
    rw [runOps_select _ (by rfl) (hd _) (by rfl) (by rfl), if_pos dm_bool_true_v]
    exact runOps_defVar_last (by rfl) hr
  · rw [decide_eq_false hx, if_neg hx]
    rw [runOps_select _ (by rfl) (by rfl) (hs _) (by rfl), if_neg dm_bool_false_v]
    rw [runOps_bin _ (hd _) (by rfl) (evalBin_urem _ _ _ hx), mk_i64]
    rw [runOps_select _ (by rfl) (hd _) (by rfl) (by rfl), if_neg dm_bool_false_v]
    exact runOps_defVar_last (by rfl) hr

theorem dm_run_div32Reg (hd : ∀ loc, arg σ loc (.var rd) = some ⟨.i64, d⟩) (hs : ∀ loc, arg σ loc (.var rs) = some ⟨.i64, x⟩)
    (hr : rd < 17) :
    runOps env σ [] [.iconst .i32 0, .iconst .i32 1, .un (.ireduce .i32) (.var rd), .un (.ireduce .i32) (.var rs),
      .icmp .eq (.loc 3) (.loc 0), .select (.loc 4) (.loc 1) (.loc 3), .bin .udiv (.loc 2) (.loc 5),
      .select (.loc 4) (.loc 0) (.loc 6), .un (.uextend .i64) (.loc 7), .defVar rd (.loc 8)] =
    ({ σ with vars := σ.vars.setIfInBounds rd (if Interp.lo32 x = 0 then 0 else Interp.zx32 (Interp.lo32 d / Interp.lo32 x)) },
      .fall) := by
  rw [runOps_iconst, runOps_iconst, dm_mk32_zero, dm_mk32_one]
  rw [runOps_un _ (hd _) (evalUn_ireduce32 _), runOps_un _ (hs _) (evalUn_ireduce32 _)]
  rw [runOps_icmp _ (by rfl) (by rfl) (by rfl), dm_evalCC_eq]
  by_cases hx : Interp.lo32 x = 0
  · rw [decide_eq_true ((dm_zx_eq_zero _).2 hx), if_pos hx]
    rw [runOps_select _ (by rfl) (by rfl) (by rfl) (by rfl), if_pos dm_bool_true_v]
    rw [runOps_bin _ (by rfl) (by rfl) (evalBin_udiv _ _ _ dm_one_ne)]
    rw [runOps_select _ (by rfl) (by rfl) (by rfl) (by rfl), if_pos dm_bool_true_v]
    rw [runOps_un _ (by rfl) (evalUn_uextend64 _ _ (by decide))]
    exact runOps_defVar_last (by rfl) hr
  · rw [decide_eq_false (fun h => hx ((dm_zx_eq_zero _).1 h)), if_neg hx]
    rw [runOps_select _ (by rfl) (by rfl) (by rfl) (by rfl), if_neg dm_bool_false_v]
    rw [runOps_bin _ (by rfl) (by rfl) (evalBin_udiv _ _ _ (dm_zx_ne _ hx)), dm_div32]
    rw [runOps_select _ (by rfl) (by rfl) (by rfl) (by rfl), if_neg dm_bool_false_v]
    rw [runOps_un _ (by rfl) (evalUn_uextend64 _ _ (by decide))]
    exact runOps_defVar_last (by rfl) hr

theorem dm_run_mod32Reg (hd : ∀ loc, arg σ loc (.var rd) = some ⟨.i64, d⟩) (hs : ∀ loc, arg σ loc (.var rs) = some ⟨.i64, x⟩)
    (hr : rd < 17) :
    runOps env σ [] [.iconst .i32 0, .iconst .i32 1, .un (.ireduce .i32) (.var rd), .un (.ireduce .i32) (.var rs),
      .icmp .eq (.loc 3) (.loc 0), .select (.loc 4) (.loc 1) (.loc 3), .bin .urem (.loc 2) (.loc 5),
      .un (.uextend .i64) (.loc 6), .select (.loc 4) (.var rd) (.loc 7), .defVar rd (.loc 8)] =
    ({ σ with vars := σ.vars.setIfInBounds rd (if Interp.lo32 x = 0 then d else Interp.zx32 (Interp.lo32 d % Interp.lo32 x)) },
      .fall) := by
  rw [runOps_iconst, runOps_iconst, dm_mk32_zero, dm_mk32_one]
  rw [runOps_un _ (hd _) (evalUn_ireduce32 _), runOps_un _ (hs _) (evalUn_ireduce32 _)]
  rw [runOps_icmp _ (by rfl) (by rfl) (by rfl), dm_evalCC_eq]
  by_cases hx : Interp.lo32 x = 0
  · rw [decide_eq_true ((dm_zx_eq_zero _).2 hx), if_pos hx]
    rw [runOps_select _ (by rfl) (by rfl) (by rfl) (by rfl), if_pos dm_bool_true_v]
    rw [runOps_bin _ (by rfl) (by rfl) (evalBin_urem _ _ _ dm_one_ne)]
    rw [runOps_un _ (by rfl) (evalUn_uextend64 _ _ (by decide))]
    rw [runOps_select _ (by rfl) (hd _) (by rfl) (by rfl), if_pos dm_bool_true_v]
    exact runOps_defVar_last (by rfl) hr
  · rw [decide_eq_false (fun h => hx ((dm_zx_eq_zero _).1 h)), if_neg hx]
    rw [runOps_select _ (by rfl) (by rfl) (by rfl) (by rfl), if_neg dm_bool_false_v]
    rw [runOps_bin _ (by rfl) (by rfl) (evalBin_urem _ _ _ (dm_zx_ne _ hx)), dm_mod32]
    rw [runOps_un _ (by rfl) (evalUn_uextend64 _ _ (by decide))]
    rw [runOps_select _ (by rfl) (hd _) (by rfl) (by rfl), if_neg dm_bool_false_v]
    exact runOps_defVar_last (by rfl) hr

/-- the immediate forms with a non-zero immediate -/
theorem dm_run_64Imm (o : BinOp) (v r : BitVec 64) (hd : ∀ loc, arg σ loc (.var rd) = some ⟨.i64, d⟩) (hr : rd < 17)
    (he : evalBin o ⟨.i64, d⟩ ⟨.i64, v⟩ = some (some (mk .i64 r))) :
    runOps env σ [] [.iconst .i64 v, .bin o (.var rd) (.loc 0), .defVar rd (.loc 1)] =
    ({ σ with vars := σ.vars.setIfInBounds rd r }, .fall) := by
  rw [runOps_iconst, mk_i64]
  rw [runOps_bin _ (hd _) (by rfl) he, mk_i64]
  exact runOps_defVar_last (by rfl) hr

theorem dm_run_32Imm (o : BinOp) (imm : BitVec 32) (r : BitVec 64) (hd : ∀ loc, arg σ loc (.var rd) = some ⟨.i64, d⟩)
    (hr : rd < 17)
    (he : evalBin o ⟨.i32, Interp.zx32 (Interp.lo32 d)⟩ ⟨.i32, Interp.zx32 imm⟩ = some (some ⟨.i32, r⟩)) :
    runOps env σ [] [.iconst .i32 (imm.zeroExtend 64), .un (.ireduce .i32) (.var rd), .bin o (.loc 1) (.loc 0),
      .un (.uextend .i64) (.loc 2), .defVar rd (.loc 3)] =
    ({ σ with vars := σ.vars.setIfInBounds rd r }, .fall) := by
  rw [runOps_iconst, mk_i32_imm]
  rw [runOps_un _ (hd _) (evalUn_ireduce32 _)]
  rw [runOps_bin _ (by rfl) (by rfl) he]
  rw [runOps_un _ (by rfl) (evalUn_uextend64 _ _ (by decide))]
  exact runOps_defVar_last (by rfl) hr

end Run

theorem dm_37 (i : Insn) (hopc : i.opc = 0x37) : ArmSim i := by
  apply armSim_intro
  intro env σ s ops _hget harm hrel hm
  have hw : width i = 1 := dm_width i _ hopc (by decide)
  rw [arm_eq] at harm
  simp only [armB, hopc, BitVec.reduceToNat] at harm
  simp only [EngineSem.clifExec, EngineSem.cmpImmSigned, EngineSem.xaddInsn, Interp.exec, hopc, BitVec.reduceToNat]
  by_cases hd : i.dst.toNat < 11
  · by_cases himm : i.imm = 0
    · simp only [if_pos himm, B_bind_run, ins_run, setDst_run _ _ _ _ _ hd, toOption_map_ok, List.nil_append,
        List.cons_append, Option.some.injEq] at harm
      subst harm
      simp only [if_pos himm]
      apply armPost_wr hrel hm hd hw
      rw [runOps_iconst, mk_i64]
      exact runOps_defVar_last (by rfl) (by omega)
    · simp only [if_neg himm, B_bind_run, ins_run, insnImm64_run, insnDst_run _ _ _ hd, setDst_run _ _ _ _ _ hd,
        toOption_map_ok, List.nil_append, List.cons_append, Option.some.injEq] at harm
      subst harm
      simp only [if_neg himm]
      rw [rd_eq _ _ _ hd]
      apply armPost_wr hrel hm hd hw
      rw [runOps_iconst, mk_i64]
      rw [runOps_bin _ (arg_var_reg hrel _ _ hd) (by rfl) (evalBin_udiv _ _ _ (dm_sx_ne _ himm)), mk_i64]
      exact runOps_defVar_last (by rfl) (by omega)
  · by_cases himm : i.imm = 0
    · simp only [if_pos himm, B_bind_run, ins_run, setDst_run_ge _ _ _ hd, toOption_map_error] at harm
      cases harm
    · simp only [if_neg himm, B_bind_run, insnImm64_run, insnDst_run_ge _ _ hd, toOption_map_error] at harm
      cases harm

theorem dm_3f (i : Insn) (hopc : i.opc = 0x3f) : ArmSim i := by
  apply armSim_intro
  intro env σ s ops _hget harm hrel hm
  have hw : width i = 1 := dm_width i _ hopc (by decide)
  rw [arm_eq] at harm
  simp only [armB, hopc, BitVec.reduceToNat] at harm
  simp only [EngineSem.clifExec, EngineSem.cmpImmSigned, EngineSem.xaddInsn, Interp.exec, hopc, BitVec.reduceToNat]
  by_cases hd : i.dst.toNat < 11
  · by_cases hs : i.src.toNat < 11
    · simp only [divReg, Bool.false_eq_true, ↓reduceIte, B_bind_run, ins_run, insnDst_run _ _ _ hd, insnSrc_run _ _ _ hs,
        setDst_run _ _ _ _ _ hd, toOption_map_ok, List.nil_append, List.cons_append, List.append_assoc, Nat.zero_add,
        Nat.reduceAdd, Option.some.injEq] at harm
      subst harm
      simp only [rd_eq _ _ _ hs, rd_eq _ _ _ hd]
      have hrun := dm_run_div64Reg (env := env) i.dst.toNat i.src.toNat s.reg[i.dst.toNat] s.reg[i.src.toNat]
        (fun loc => arg_var_reg hrel loc _ hd) (fun loc => arg_var_reg hrel loc _ hs) (by omega)
      by_cases hx : s.reg[i.src.toNat] = 0
      · rw [if_pos hx] at hrun ⊢
        exact armPost_wr hrel hm hd hw hrun
      · rw [if_neg hx] at hrun ⊢
        exact armPost_wr hrel hm hd hw hrun
    · simp only [divReg, Bool.false_eq_true, ↓reduceIte, B_bind_run, ins_run, insnDst, reg_run _ _ hd, useVar_run, insnSrc_run_ge _ _ hs,
        toOption_map_error] at harm
      cases harm
  · simp only [divReg, Bool.false_eq_true, ↓reduceIte, B_bind_run, ins_run, insnDst_run_ge _ _ hd, toOption_map_error] at harm
    cases harm

theorem dm_3c (i : Insn) (hopc : i.opc = 0x3c) : ArmSim i := by
  apply armSim_intro
  intro env σ s ops _hget harm hrel hm
  have hw : width i = 1 := dm_width i _ hopc (by decide)
  rw [arm_eq] at harm
  simp only [armB, hopc, BitVec.reduceToNat] at harm
  simp only [EngineSem.clifExec, EngineSem.cmpImmSigned, EngineSem.xaddInsn, Interp.exec, hopc, BitVec.reduceToNat]
  by_cases hd : i.dst.toNat < 11
  · by_cases hs : i.src.toNat < 11
    · simp only [divReg, Bool.false_eq_true, ↓reduceIte, B_bind_run, ins_run, insnDst32_run _ _ _ hd, insnSrc32_run _ _ _ hs,
        setDst32_run _ _ _ _ _ hd, toOption_map_ok, List.nil_append, List.cons_append, List.append_assoc, Nat.zero_add,
        Nat.reduceAdd, Option.some.injEq] at harm
      subst harm
      simp only [rd_eq _ _ _ hs, rd_eq _ _ _ hd]
      have hrun := dm_run_div32Reg (env := env) i.dst.toNat i.src.toNat s.reg[i.dst.toNat] s.reg[i.src.toNat]
        (fun loc => arg_var_reg hrel loc _ hd) (fun loc => arg_var_reg hrel loc _ hs) (by omega)
      by_cases hx : Interp.lo32 s.reg[i.src.toNat] = 0
      · rw [if_pos hx] at hrun ⊢
        exact armPost_wr hrel hm hd hw hrun
      · rw [if_neg hx] at hrun ⊢
        exact armPost_wr hrel hm hd hw hrun
    · simp only [divReg, Bool.false_eq_true, ↓reduceIte, B_bind_run, ins_run, insnDst32, insnDst, reg_run _ _ hd, useVar_run, ins_run, insnSrc32_run_ge _ _ hs,
        toOption_map_error] at harm
      cases harm
  · simp only [divReg, Bool.false_eq_true, ↓reduceIte, B_bind_run, ins_run, insnDst32_run_ge _ _ hd, toOption_map_error] at harm
    cases harm

theorem dm_9f (i : Insn) (hopc : i.opc = 0x9f) : ArmSim i := by
  apply armSim_intro
  intro env σ s ops _hget harm hrel hm
  have hw : width i = 1 := dm_width i _ hopc (by decide)
  rw [arm_eq] at harm
  simp only [armB, hopc, BitVec.reduceToNat] at harm
  simp only [EngineSem.clifExec, EngineSem.cmpImmSigned, EngineSem.xaddInsn, Interp.exec, hopc, BitVec.reduceToNat]
  by_cases hd : i.dst.toNat < 11
  · by_cases hs : i.src.toNat < 11
    · simp only [mod64Reg, Bool.false_eq_true, ↓reduceIte, B_bind_run, ins_run, insnDst_run _ _ _ hd, insnSrc_run _ _ _ hs,
        setDst_run _ _ _ _ _ hd, toOption_map_ok, List.nil_append, List.cons_append, List.append_assoc, Nat.zero_add,
        Nat.reduceAdd, Option.some.injEq] at harm
      subst harm
      simp only [rd_eq _ _ _ hs, rd_eq _ _ _ hd]
      have hrun := dm_run_mod64Reg (env := env) i.dst.toNat i.src.toNat s.reg[i.dst.toNat] s.reg[i.src.toNat]
        (fun loc => arg_var_reg hrel loc _ hd) (fun loc => arg_var_reg hrel loc _ hs) (by omega)
      by_cases hx : s.reg[i.src.toNat] = 0
      · rw [if_pos hx] at hrun ⊢
        exact dm_armPost_keep hrel hm hd hw hrun
      · rw [if_neg hx] at hrun ⊢
        exact armPost_wr hrel hm hd hw hrun
    · simp only [mod64Reg, Bool.false_eq_true, ↓reduceIte, B_bind_run, ins_run, insnDst, reg_run _ _ hd, useVar_run, insnSrc_run_ge _ _ hs,
        toOption_map_error] at harm
      cases harm
  · simp only [mod64Reg, Bool.false_eq_true, ↓reduceIte, B_bind_run, ins_run, insnDst_run_ge _ _ hd, toOption_map_error] at harm
    cases harm

theorem dm_9c (i : Insn) (hopc : i.opc = 0x9c) : ArmSim i := by
  apply armSim_intro
  intro env σ s ops _hget harm hrel hm
  have hw : width i = 1 := dm_width i _ hopc (by decide)
  rw [arm_eq] at harm
  simp only [armB, hopc, BitVec.reduceToNat] at harm
  simp only [EngineSem.clifExec, EngineSem.cmpImmSigned, EngineSem.xaddInsn, Interp.exec, hopc, BitVec.reduceToNat]
  by_cases hd : i.dst.toNat < 11
  · by_cases hs : i.src.toNat < 11
    · simp only [mod32Reg, Bool.false_eq_true, ↓reduceIte, B_bind_run, ins_run, insnDst32_run _ _ _ hd, insnSrc32_run _ _ _ hs, insnDst_run _ _ _ hd,
        setDst_run _ _ _ _ _ hd, toOption_map_ok, List.nil_append, List.cons_append, List.append_assoc, Nat.zero_add,
        Nat.reduceAdd, Option.some.injEq] at harm
      subst harm
      simp only [rd_eq _ _ _ hs, rd_eq _ _ _ hd]
      have hrun := dm_run_mod32Reg (env := env) i.dst.toNat i.src.toNat s.reg[i.dst.toNat] s.reg[i.src.toNat]
        (fun loc => arg_var_reg hrel loc _ hd) (fun loc => arg_var_reg hrel loc _ hs) (by omega)
      by_cases hx : Interp.lo32 s.reg[i.src.toNat] = 0
      · rw [if_pos hx] at hrun ⊢
        exact dm_armPost_keep hrel hm hd hw hrun
      · rw [if_neg hx] at hrun ⊢
        exact armPost_wr hrel hm hd hw hrun
    · simp only [mod32Reg, Bool.false_eq_true, ↓reduceIte, B_bind_run, ins_run, insnDst32, insnDst, reg_run _ _ hd, useVar_run, ins_run, insnSrc32_run_ge _ _ hs,
        toOption_map_error] at harm
      cases harm
  · simp only [mod32Reg, Bool.false_eq_true, ↓reduceIte, B_bind_run, ins_run, insnDst32_run_ge _ _ hd, toOption_map_error] at harm
    cases harm

theorem dm_34 (i : Insn) (hopc : i.opc = 0x34) : ArmSim i := by
  apply armSim_intro
  intro env σ s ops _hget harm hrel hm
  have hw : width i = 1 := dm_width i _ hopc (by decide)
  rw [arm_eq] at harm
  simp only [armB, hopc, BitVec.reduceToNat] at harm
  simp only [EngineSem.clifExec, EngineSem.cmpImmSigned, EngineSem.xaddInsn, Interp.exec, hopc, BitVec.reduceToNat]
  by_cases hd : i.dst.toNat < 11
  · by_cases himm : i.imm = 0
    · simp only [if_pos himm, B_bind_run, ins_run, setDst32_run _ _ _ _ _ hd, toOption_map_ok, List.nil_append,
        List.cons_append, Nat.zero_add, Nat.reduceAdd, Option.some.injEq] at harm
      subst harm
      simp only [if_pos himm]
      apply armPost_wr hrel hm hd hw
      rw [runOps_iconst, dm_mk32_zero, runOps_un _ (by rfl) (evalUn_uextend64 _ _ (by decide))]
      exact runOps_defVar_last (by rfl) (by omega)
    · simp only [if_neg himm, B_bind_run, ins_run, insnImm32_run, insnDst32_run _ _ _ hd, setDst32_run _ _ _ _ _ hd,
        toOption_map_ok, List.nil_append, List.cons_append, Nat.zero_add, Nat.reduceAdd, Option.some.injEq] at harm
      subst harm
      simp only [if_neg himm, rd_eq _ _ _ hd]
      apply armPost_wr hrel hm hd hw
      exact dm_run_32Imm _ _ _ _ _ (fun loc => arg_var_reg hrel loc _ hd) (by omega)
        (by rw [evalBin_udiv _ _ _ (dm_zx_ne _ himm), dm_div32])
  · by_cases himm : i.imm = 0
    · simp only [if_pos himm, B_bind_run, ins_run, setDst32_run_ge _ _ _ hd, toOption_map_error] at harm
      cases harm
    · simp only [if_neg himm, B_bind_run, insnImm32_run, insnDst32_run_ge _ _ hd, toOption_map_error] at harm
      cases harm

theorem dm_94 (i : Insn) (hopc : i.opc = 0x94) : ArmSim i := by
  apply armSim_intro
  intro env σ s ops _hget harm hrel hm
  have hw : width i = 1 := dm_width i _ hopc (by decide)
  rw [arm_eq] at harm
  simp only [armB, hopc, BitVec.reduceToNat] at harm
  simp only [EngineSem.clifExec, EngineSem.cmpImmSigned, EngineSem.xaddInsn, Interp.exec, hopc, BitVec.reduceToNat]
  by_cases himm : i.imm = 0
  · simp only [if_neg (show ¬ (i.imm ≠ 0) from fun h => h himm), B_pure_run, toOption_map_ok, Option.some.injEq] at harm
    subst harm
    simp only [if_pos himm]
    exact armPost_skip hrel hm hw (runOps_nil _ _ _)
  · by_cases hd : i.dst.toNat < 11
    · simp only [if_pos (show i.imm ≠ 0 from himm), B_bind_run, ins_run, insnImm32_run, insnDst32_run _ _ _ hd,
        setDst32_run _ _ _ _ _ hd, toOption_map_ok, List.nil_append, List.cons_append, Nat.zero_add, Nat.reduceAdd,
        Option.some.injEq] at harm
      subst harm
      simp only [if_neg himm, rd_eq _ _ _ hd]
      apply armPost_wr hrel hm hd hw
      exact dm_run_32Imm _ _ _ _ _ (fun loc => arg_var_reg hrel loc _ hd) (by omega)
        (by rw [evalBin_urem _ _ _ (dm_zx_ne _ himm), dm_mod32])
    · simp only [if_pos (show i.imm ≠ 0 from himm), B_bind_run, insnImm32_run, insnDst32_run_ge _ _ hd,
        toOption_map_error] at harm
      cases harm

theorem dm_97 (i : Insn) (hopc : i.opc = 0x97) : ArmSim i := by
  apply armSim_intro
  intro env σ s ops _hget harm hrel hm
  have hw : width i = 1 := dm_width i _ hopc (by decide)
  rw [arm_eq] at harm
  simp only [armB, hopc, BitVec.reduceToNat] at harm
  simp only [EngineSem.clifExec, EngineSem.cmpImmSigned, EngineSem.xaddInsn, Interp.exec, hopc, BitVec.reduceToNat]
  by_cases himm : i.imm = 0
  · simp only [if_neg (show ¬ (i.imm ≠ 0) from fun h => h himm), B_pure_run, toOption_map_ok, Option.some.injEq] at harm
    subst harm
    simp only [if_pos himm]
    exact armPost_skip hrel hm hw (runOps_nil _ _ _)
  · by_cases hd : i.dst.toNat < 11
    · simp only [if_pos (show i.imm ≠ 0 from himm), B_bind_run, ins_run, insnImm64_run, insnDst_run _ _ _ hd,
        setDst_run _ _ _ _ _ hd, toOption_map_ok, List.nil_append, List.cons_append, Nat.zero_add, Nat.reduceAdd,
        Option.some.injEq] at harm
      subst harm
      simp only [if_neg himm, rd_eq _ _ _ hd]
      apply armPost_wr hrel hm hd hw
      exact dm_run_64Imm _ _ _ _ _ (fun loc => arg_var_reg hrel loc _ hd) (by omega)
        (evalBin_urem _ _ _ (dm_sx_ne _ himm))
    · simp only [if_pos (show i.imm ≠ 0 from himm), B_bind_run, insnImm64_run, insnDst_run_ge _ _ hd,
        toOption_map_error] at harm
      cases harm

/-! ### the class -/

theorem armSim_divmod (i : Insn) (h : i.opc.toNat ∈ divModOpcodes) : ArmSim i := by
  have hopc : ∀ k : BitVec 8, i.opc.toNat = k.toNat → i.opc = k := fun k hk => BitVec.eq_of_toNat_eq hk
  simp only [divModOpcodes, List.mem_cons, List.not_mem_nil, or_false] at h
  rcases h with h | h | h | h | h | h | h | h
  · exact dm_34 i (hopc 0x34 h)
  · exact dm_3c i (hopc 0x3c h)
  · exact dm_37 i (hopc 0x37 h)
  · exact dm_3f i (hopc 0x3f h)
  · exact dm_94 i (hopc 0x94 h)
  · exact dm_9c i (hopc 0x9c h)
  · exact dm_97 i (hopc 0x97 h)
  · exact dm_9f i (hopc 0x9f h)

end Rbpf.ClifSim
