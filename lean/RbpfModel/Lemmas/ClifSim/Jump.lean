/-
  `ArmSim` for the jump class: `ja` (0x05), `exit` (0x95) and the 44 conditional jumps.

  Structure
  1. `jumpOpcodes`, `condJumpOpcodes` (= the opcodes with `isCondJump`).
  2. the target: `targetPc` against `Interp.branch` (`jmp_post_branch`).
  3. the conditional-jump arm with its three opcode-dependent choices made explicit (`jmp_condB`), its run in the four
     shapes (register/immediate × 64/32 bits).
  4. what the compare op must do (`jmp_CmpOk64`, `jmp_CmpOk32`), one lemma per condition code and width, `band` for `jset`.
  5. the four generic simulation theorems (one per shape).
  6. the 44 instances, `ja`, `exit`.
  7. `armSim_jump`.

  64-bit compares with an immediate use the sign-extended immediate on both sides: `insn_imm64` in the IR,
  `EngineSem.cmpImmSigned` (0x15 0x25 0x35 0x55 0xa5 0xb5) or `immS` in `Interp.exec` (0x45 0x65 0x75 0xc5 0xd5).
-/
import RbpfModel.Lemmas.ClifSim.Base
namespace Rbpf.ClifSim
open Rbpf.ClifAst Rbpf.ClifSem

/-! ## 1. the opcodes -/

/-- the opcodes of the conditional-jump arm: classes 0x05 / 0x06, immediate / register, eleven comparison codes -/
def condJumpOpcodes : List Nat :=
  [0x15, 0x1d, 0x25, 0x2d, 0x35, 0x3d, 0x45, 0x4d, 0x55, 0x5d, 0x65, 0x6d, 0x75, 0x7d, 0xa5, 0xad, 0xb5, 0xbd, 0xc5, 0xcd, 0xd5, 0xdd,
   0x16, 0x1e, 0x26, 0x2e, 0x36, 0x3e, 0x46, 0x4e, 0x56, 0x5e, 0x66, 0x6e, 0x76, 0x7e, 0xa6, 0xae, 0xb6, 0xbe, 0xc6, 0xce, 0xd6, 0xde]

def jumpOpcodes : List Nat := 0x05 :: 0x95 :: condJumpOpcodes

theorem jmp_isCondJump_iff : ∀ opc < 256, isCondJump opc = true ↔ opc ∈ condJumpOpcodes := by
  set_option maxRecDepth 100000 in decide

/-! ## 2. the target -/

theorem jmp_targetPc_ok {pc : Nat} {i : Insn} {t : Nat} (h : targetPc pc i = .ok t) :
    0 ≤ (pc : Int) + i.off.toInt + 1 ∧ t = ((pc : Int) + i.off.toInt + 1).toNat := by
  simp only [targetPc] at h
  split at h
  · next hc => injection h with h; exact ⟨hc.1, h.symm⟩
  · cases h

/-- both outcomes of a branch are `goto`s of the op list -/
theorem jmp_post_branch {env : Env} {σ : St} {s : State} {ops : List Op} {i : Insn} {j : Insn} (c : Bool) {t : Nat}
    (hrel : RelC σ s) (hm : MemOk s.mem) (ht : targetPc s.pc i = .ok t)
    (hrun : runOps env σ [] ops = (σ, .goto (if c = true then t else s.pc + 1))) :
    ArmPost env σ s ops j (Interp.branch { s with pc := s.pc + 1 } i.off c) := by
  obtain ⟨h0, rfl⟩ := jmp_targetPc_ok ht
  cases c
  · simp only [Interp.branch, Bool.false_eq_true, if_false] at hrun ⊢
    exact armPost_next hrun (relC_pc hrel _) hm (Or.inr rfl)
  · simp only [Interp.branch, Interp.jumpTo, if_true] at hrun ⊢
    have hn : ¬ ((s.pc + 1 : Nat) : Int) + i.off.toInt < 0 := by omega
    rw [if_neg hn]
    refine armPost_next hrun (relC_pc hrel _) hm (Or.inr ?_)
    show Flow.goto (((s.pc : Nat) : Int) + i.off.toInt + 1).toNat = Flow.goto (((s.pc + 1 : Nat) : Int) + i.off.toInt).toNat
    congr 1
    omega

/-! ## 3. the conditional-jump arm -/

/-- `condJump` with the choices that depend on the opcode made explicit: register or immediate, width, compare op -/
def jmp_condB (isReg is32 : Bool) (mkop : Arg → Arg → Op) (pc : Nat) (i : Insn) : B Unit := do
  let target ← lift (targetPc pc i)
  let lhs ← if is32 then insnDst32 i else insnDst i
  let rhs ← match isReg, is32 with
    | true, false => insnSrc i
    | true, true => insnSrc32 i
    | false, false => insnImm64 i
    | false, true => insnImm32 i
  let cmpRes ← ins (mkop lhs rhs)
  emit (.brif cmpRes target (pc + 1))

theorem jmp_condB_error (isReg is32 : Bool) (mkop : Arg → Arg → Op) (pc : Nat) (i : Insn) (st : BState) (e : Fail)
    (ht : targetPc pc i = .error e) : (jmp_condB isReg is32 mkop pc i).run st = .error e := by
  simp only [jmp_condB, B_bind_run, lift_run_error _ _ _ ht]

section Run
variable (mkop : Arg → Arg → Op) (pc : Nat) (i : Insn) (t : Nat)

theorem jmp_condB_run_reg64 (ht : targetPc pc i = .ok t) (hd : i.dst.toNat < 11) (hs : i.src.toNat < 11) :
    (jmp_condB true false mkop pc i).run ⟨[], 0, []⟩ =
      .ok ((), ⟨[mkop (.var i.dst.toNat) (.var i.src.toNat), .brif (.loc 0) t (pc + 1)], 1, []⟩) := by
  simp only [jmp_condB, B_bind_run, lift_run_ok _ _ _ ht, Bool.false_eq_true, if_false, insnDst_run i _ _ hd,
    insnSrc_run i _ _ hs, ins_run, emit_run, List.nil_append, List.cons_append]

theorem jmp_condB_run_imm64 (ht : targetPc pc i = .ok t) (hd : i.dst.toNat < 11) :
    (jmp_condB false false mkop pc i).run ⟨[], 0, []⟩ =
      .ok ((), ⟨[.iconst .i64 (i.imm.signExtend 64), mkop (.var i.dst.toNat) (.loc 0), .brif (.loc 1) t (pc + 1)], 2, []⟩) := by
  simp only [jmp_condB, B_bind_run, lift_run_ok _ _ _ ht, Bool.false_eq_true, if_false, insnDst_run i _ _ hd,
    insnImm64_run, ins_run, emit_run, List.nil_append, List.cons_append]

theorem jmp_condB_run_reg32 (ht : targetPc pc i = .ok t) (hd : i.dst.toNat < 11) (hs : i.src.toNat < 11) :
    (jmp_condB true true mkop pc i).run ⟨[], 0, []⟩ =
      .ok ((), ⟨[.un (.ireduce .i32) (.var i.dst.toNat), .un (.ireduce .i32) (.var i.src.toNat), mkop (.loc 0) (.loc 1),
                 .brif (.loc 2) t (pc + 1)], 3, []⟩) := by
  simp only [jmp_condB, B_bind_run, lift_run_ok _ _ _ ht, if_true, insnDst32_run i _ _ hd,
    insnSrc32_run i _ _ hs, ins_run, emit_run, List.nil_append, List.cons_append]

theorem jmp_condB_run_imm32 (ht : targetPc pc i = .ok t) (hd : i.dst.toNat < 11) :
    (jmp_condB false true mkop pc i).run ⟨[], 0, []⟩ =
      .ok ((), ⟨[.un (.ireduce .i32) (.var i.dst.toNat), .iconst .i32 (i.imm.zeroExtend 64), mkop (.loc 0) (.loc 1),
                 .brif (.loc 2) t (pc + 1)], 3, []⟩) := by
  simp only [jmp_condB, B_bind_run, lift_run_ok _ _ _ ht, if_true, insnDst32_run i _ _ hd,
    insnImm32_run, ins_run, emit_run, List.nil_append, List.cons_append]

end Run

/-! ## 4. the compare op -/

/-- at 64 bits: on operands `x`, `y` the op defines a value that is non-zero exactly when `c x y` -/
def jmp_CmpOk64 (mkop : Arg → Arg → Op) (c : BitVec 64 → BitVec 64 → Bool) : Prop :=
  ∀ (env : Env) (s : St) (loc : List Val) (a b : Arg) (x y : BitVec 64),
    arg s loc a = some ⟨.i64, x⟩ → arg s loc b = some ⟨.i64, y⟩ →
    ∃ r, step env s loc (mkop a b) = .ok (s, loc ++ [r]) ∧ (r.v ≠ 0 ↔ c x y = true)

/-- at 32 bits: the operands are i32 values (kept zero-extended) -/
def jmp_CmpOk32 (mkop : Arg → Arg → Op) (c : BitVec 32 → BitVec 32 → Bool) : Prop :=
  ∀ (env : Env) (s : St) (loc : List Val) (a b : Arg) (x y : BitVec 32),
    arg s loc a = some ⟨.i32, Interp.zx32 x⟩ → arg s loc b = some ⟨.i32, Interp.zx32 y⟩ →
    ∃ r, step env s loc (mkop a b) = .ok (s, loc ++ [r]) ∧ (r.v ≠ 0 ↔ c x y = true)

/-- compare, then `brif` on the value just defined -/
theorem jmp_run_cmp_brif {env : Env} {σ : St} {loc : List Val} {mkop : Arg → Arg → Op} {a b : Arg} {r : Val} {c : Bool}
    (t f : Nat) (hstep : step env σ loc (mkop a b) = .ok (σ, loc ++ [r])) (hr : r.v ≠ 0 ↔ c = true) :
    runOps env σ loc [mkop a b, .brif (.loc loc.length) t f] = (σ, .goto (if c = true then t else f)) := by
  rw [runOps_cons_ok _ hstep, runOps_brif t f [] (x := r) (by simp)]
  by_cases hc : c = true
  · rw [if_pos hc, if_pos (hr.2 hc)]
  · rw [if_neg hc, if_neg (fun h => hc (hr.1 h))]

theorem jmp_bool_ne_zero (b : Bool) : (bool b).v ≠ 0 ↔ b = true := by
  cases b <;> decide

/-- `icmp cc` is a compare op for `c` when `evalCC cc` computes `c` -/
theorem jmp_cmpOk64_icmp (cc : CC) (c : BitVec 64 → BitVec 64 → Bool)
    (h : ∀ x y, evalCC cc ⟨.i64, x⟩ ⟨.i64, y⟩ = c x y) : jmp_CmpOk64 (fun a b => .icmp cc a b) c := by
  intro env s loc a b x y ha hb
  exact ⟨_, step_icmp ha hb rfl, by rw [jmp_bool_ne_zero, h]⟩

theorem jmp_cmpOk32_icmp (cc : CC) (c : BitVec 32 → BitVec 32 → Bool)
    (h : ∀ x y, evalCC cc ⟨.i32, Interp.zx32 x⟩ ⟨.i32, Interp.zx32 y⟩ = c x y) : jmp_CmpOk32 (fun a b => .icmp cc a b) c := by
  intro env s loc a b x y ha hb
  exact ⟨_, step_icmp ha hb rfl, by rw [jmp_bool_ne_zero, h]⟩

/-! ### values read as signed numbers -/

theorem jmp_toInt64 (x : BitVec 64) : (⟨.i64, x⟩ : Val).toInt = x.toInt := by
  have := x.isLt
  have h1 : (x.toNat < 2 ^ (64 - 1)) ↔ (2 * x.toNat < 2 ^ 64) := by omega
  simp only [Val.toInt, Ty.bits, BitVec.toInt_eq_toNat_cond, h1]
  by_cases h : 2 * x.toNat < 2 ^ 64 <;> simp only [h, if_true, if_false] <;> omega

theorem jmp_zx32_toNat (x : BitVec 32) : (Interp.zx32 x).toNat = x.toNat := by
  have := x.isLt
  simp only [Interp.zx32, BitVec.toNat_setWidth]
  omega

theorem jmp_toInt32 (x : BitVec 32) : (⟨.i32, Interp.zx32 x⟩ : Val).toInt = x.toInt := by
  have := x.isLt
  have h1 : (x.toNat < 2 ^ (32 - 1)) ↔ (2 * x.toNat < 2 ^ 32) := by omega
  simp only [Val.toInt, Ty.bits, BitVec.toInt_eq_toNat_cond, jmp_zx32_toNat, h1]
  by_cases h : 2 * x.toNat < 2 ^ 32 <;> simp only [h, if_true, if_false] <;> omega

theorem jmp_zx32_inj (x y : BitVec 32) : Interp.zx32 x = Interp.zx32 y ↔ x = y := by
  constructor
  · intro h
    apply BitVec.eq_of_toNat_eq
    rw [← jmp_zx32_toNat x, ← jmp_zx32_toNat y, h]
  · intro h; rw [h]

/-! ### one lemma per condition code and width -/

theorem jmp_decide_eq {n : Nat} (x y : BitVec n) : decide (x = y) = (x == y) := by
  by_cases h : x = y <;> simp [h]

section CC64
variable (x y : BitVec 64)

theorem jmp_cc64_eq : evalCC .eq ⟨.i64, x⟩ ⟨.i64, y⟩ = (x == y) := by simp [evalCC, jmp_decide_eq]
theorem jmp_cc64_ne : evalCC .ne ⟨.i64, x⟩ ⟨.i64, y⟩ = (x != y) := by simp [evalCC, bne, jmp_decide_eq]
theorem jmp_cc64_ugt : evalCC .ugt ⟨.i64, x⟩ ⟨.i64, y⟩ = y.ult x := by simp [evalCC, BitVec.ult]
theorem jmp_cc64_uge : evalCC .uge ⟨.i64, x⟩ ⟨.i64, y⟩ = y.ule x := by simp [evalCC, BitVec.ule]
theorem jmp_cc64_ult : evalCC .ult ⟨.i64, x⟩ ⟨.i64, y⟩ = x.ult y := by simp [evalCC, BitVec.ult]
theorem jmp_cc64_ule : evalCC .ule ⟨.i64, x⟩ ⟨.i64, y⟩ = x.ule y := by simp [evalCC, BitVec.ule]
theorem jmp_cc64_sgt : evalCC .sgt ⟨.i64, x⟩ ⟨.i64, y⟩ = y.slt x := by simp only [evalCC, jmp_toInt64, BitVec.slt]
theorem jmp_cc64_sge : evalCC .sge ⟨.i64, x⟩ ⟨.i64, y⟩ = y.sle x := by simp only [evalCC, jmp_toInt64, BitVec.sle]
theorem jmp_cc64_slt : evalCC .slt ⟨.i64, x⟩ ⟨.i64, y⟩ = x.slt y := by simp only [evalCC, jmp_toInt64, BitVec.slt]
theorem jmp_cc64_sle : evalCC .sle ⟨.i64, x⟩ ⟨.i64, y⟩ = x.sle y := by simp only [evalCC, jmp_toInt64, BitVec.sle]

end CC64

section CC32
variable (x y : BitVec 32)
open Interp (zx32)

theorem jmp_cc32_eq : evalCC .eq ⟨.i32, zx32 x⟩ ⟨.i32, zx32 y⟩ = (x == y) := by simp [evalCC, jmp_zx32_inj, jmp_decide_eq]
theorem jmp_cc32_ne : evalCC .ne ⟨.i32, zx32 x⟩ ⟨.i32, zx32 y⟩ = (x != y) := by simp [evalCC, bne, jmp_zx32_inj, jmp_decide_eq]
theorem jmp_cc32_ugt : evalCC .ugt ⟨.i32, zx32 x⟩ ⟨.i32, zx32 y⟩ = y.ult x := by simp only [evalCC, jmp_zx32_toNat, BitVec.ult]
theorem jmp_cc32_uge : evalCC .uge ⟨.i32, zx32 x⟩ ⟨.i32, zx32 y⟩ = y.ule x := by simp only [evalCC, jmp_zx32_toNat, BitVec.ule]
theorem jmp_cc32_ult : evalCC .ult ⟨.i32, zx32 x⟩ ⟨.i32, zx32 y⟩ = x.ult y := by simp only [evalCC, jmp_zx32_toNat, BitVec.ult]
theorem jmp_cc32_ule : evalCC .ule ⟨.i32, zx32 x⟩ ⟨.i32, zx32 y⟩ = x.ule y := by simp only [evalCC, jmp_zx32_toNat, BitVec.ule]
theorem jmp_cc32_sgt : evalCC .sgt ⟨.i32, zx32 x⟩ ⟨.i32, zx32 y⟩ = y.slt x := by simp only [evalCC, jmp_toInt32, BitVec.slt]
theorem jmp_cc32_sge : evalCC .sge ⟨.i32, zx32 x⟩ ⟨.i32, zx32 y⟩ = y.sle x := by simp only [evalCC, jmp_toInt32, BitVec.sle]
theorem jmp_cc32_slt : evalCC .slt ⟨.i32, zx32 x⟩ ⟨.i32, zx32 y⟩ = x.slt y := by simp only [evalCC, jmp_toInt32, BitVec.slt]
theorem jmp_cc32_sle : evalCC .sle ⟨.i32, zx32 x⟩ ⟨.i32, zx32 y⟩ = x.sle y := by simp only [evalCC, jmp_toInt32, BitVec.sle]

end CC32

/-! ### `jset`: `band`, then `brif` on the i64 / i32 result -/

theorem jmp_cmpOk64_band : jmp_CmpOk64 (fun a b => .bin .band a b) (fun x y => x &&& y != 0) := by
  intro env s loc a b x y ha hb
  refine ⟨_, step_bin ha hb (evalBin_band _ _ _), ?_⟩
  simp [bne]

theorem jmp_band32 (x y : BitVec 32) : trunc .i32 (Interp.zx32 x &&& Interp.zx32 y) = Interp.zx32 (x &&& y) := by
  rw [trunc_i32]
  congr 1
  simp only [Interp.lo32, Interp.zx32]
  ext k hk
  simp

theorem jmp_cmpOk32_band : jmp_CmpOk32 (fun a b => .bin .band a b) (fun x y => x &&& y != 0) := by
  intro env s loc a b x y ha hb
  refine ⟨_, step_bin ha hb (evalBin_band _ _ _), ?_⟩
  rw [mk_v, jmp_band32]
  have : Interp.zx32 (x &&& y) = 0 ↔ x &&& y = 0 := jmp_zx32_inj (x &&& y) 0
  simp only [bne, ne_eq, Bool.not_eq_true', beq_eq_false_iff_ne]
  exact not_congr this

/-! ## 5. simulation, shape by shape

Each theorem takes the three facts that depend on the literal opcode — which builder program `armB` selects, which arm of
the register-transfer semantics `clifExec` selects, and that the compare op computes that arm's condition — and gives
`ArmSim`.  A register field `≥ 11` makes the semantics panic; a target outside `[0, 2^32)` makes `arm` `none`. -/

theorem jmp_armSim_reg64 (i : Insn) (mkop : Arg → Arg → Op) (c : BitVec 64 → BitVec 64 → Bool)
    (hB : ∀ helpers p pc, armB helpers p pc i = jmp_condB true false mkop pc i)
    (hexec : ∀ env s, EngineSem.clifExec env s i =
      Interp.rd s i.dst.toNat fun d => Interp.rd s i.src.toNat fun x => Interp.branch s i.off (c d x))
    (hc : jmp_CmpOk64 mkop c) : ArmSim i := by
  apply armSim_intro
  intro env σ s ops _hget harm hrel hm
  rw [arm_eq, hB] at harm
  rw [hexec]
  by_cases hd : ¬ i.dst.toNat < 11
  · rw [rd_ge _ _ _ hd]; exact armPost_panic
  replace hd := Decidable.of_not_not hd
  by_cases hs : ¬ i.src.toNat < 11
  · rw [rd_eq _ _ _ hd, rd_ge _ _ _ hs]; exact armPost_panic
  replace hs := Decidable.of_not_not hs
  rw [rd_eq _ _ _ hd, rd_eq _ _ _ hs]
  cases ht : targetPc s.pc i with
  | error e => rw [jmp_condB_error _ _ _ _ _ _ _ ht] at harm; simp at harm
  | ok t =>
    rw [jmp_condB_run_reg64 _ _ _ _ ht hd hs] at harm
    simp only [toOption_map_ok, Option.some.injEq] at harm
    subst harm
    obtain ⟨r, hstep, hr⟩ := hc env σ [] (.var i.dst.toNat) (.var i.src.toNat) _ _
      (arg_var_reg hrel _ _ hd) (arg_var_reg hrel _ _ hs)
    exact jmp_post_branch _ hrel hm ht (jmp_run_cmp_brif _ _ hstep hr)

theorem jmp_armSim_imm64 (i : Insn) (mkop : Arg → Arg → Op) (c : BitVec 64 → BitVec 64 → Bool)
    (hB : ∀ helpers p pc, armB helpers p pc i = jmp_condB false false mkop pc i)
    (hexec : ∀ env s, EngineSem.clifExec env s i =
      Interp.rd s i.dst.toNat fun d => Interp.branch s i.off (c d (Interp.sx32 i.imm)))
    (hc : jmp_CmpOk64 mkop c) : ArmSim i := by
  apply armSim_intro
  intro env σ s ops _hget harm hrel hm
  rw [arm_eq, hB] at harm
  rw [hexec]
  by_cases hd : ¬ i.dst.toNat < 11
  · rw [rd_ge _ _ _ hd]; exact armPost_panic
  replace hd := Decidable.of_not_not hd
  rw [rd_eq _ _ _ hd]
  cases ht : targetPc s.pc i with
  | error e => rw [jmp_condB_error _ _ _ _ _ _ _ ht] at harm; simp at harm
  | ok t =>
    rw [jmp_condB_run_imm64 _ _ _ _ ht hd] at harm
    simp only [toOption_map_ok, Option.some.injEq] at harm
    subst harm
    obtain ⟨r, hstep, hr⟩ := hc env σ [⟨.i64, Interp.sx32 i.imm⟩] (.var i.dst.toNat) (.loc 0) _ _
      (arg_var_reg hrel _ _ hd) rfl
    apply jmp_post_branch _ hrel hm ht
    rw [runOps_iconst, mk_i64]
    exact jmp_run_cmp_brif _ _ hstep hr

theorem jmp_armSim_reg32 (i : Insn) (mkop : Arg → Arg → Op) (c : BitVec 32 → BitVec 32 → Bool)
    (hB : ∀ helpers p pc, armB helpers p pc i = jmp_condB true true mkop pc i)
    (hexec : ∀ env s, EngineSem.clifExec env s i =
      Interp.rd s i.dst.toNat fun d => Interp.rd s i.src.toNat fun x =>
        Interp.branch s i.off (c (Interp.lo32 d) (Interp.lo32 x)))
    (hc : jmp_CmpOk32 mkop c) : ArmSim i := by
  apply armSim_intro
  intro env σ s ops _hget harm hrel hm
  rw [arm_eq, hB] at harm
  rw [hexec]
  by_cases hd : ¬ i.dst.toNat < 11
  · rw [rd_ge _ _ _ hd]; exact armPost_panic
  replace hd := Decidable.of_not_not hd
  by_cases hs : ¬ i.src.toNat < 11
  · rw [rd_eq _ _ _ hd, rd_ge _ _ _ hs]; exact armPost_panic
  replace hs := Decidable.of_not_not hs
  rw [rd_eq _ _ _ hd, rd_eq _ _ _ hs]
  cases ht : targetPc s.pc i with
  | error e => rw [jmp_condB_error _ _ _ _ _ _ _ ht] at harm; simp at harm
  | ok t =>
    rw [jmp_condB_run_reg32 _ _ _ _ ht hd hs] at harm
    simp only [toOption_map_ok, Option.some.injEq] at harm
    subst harm
    obtain ⟨r, hstep, hr⟩ := hc env σ
      [⟨.i32, Interp.zx32 (Interp.lo32 s.reg[i.dst.toNat])⟩, ⟨.i32, Interp.zx32 (Interp.lo32 s.reg[i.src.toNat])⟩]
      (.loc 0) (.loc 1) _ _ rfl rfl
    apply jmp_post_branch _ hrel hm ht
    rw [runOps_un _ (arg_var_reg hrel _ _ hd) (evalUn_ireduce32 _),
      runOps_un _ (arg_var_reg hrel _ _ hs) (evalUn_ireduce32 _)]
    exact jmp_run_cmp_brif _ _ hstep hr

theorem jmp_armSim_imm32 (i : Insn) (mkop : Arg → Arg → Op) (c : BitVec 32 → BitVec 32 → Bool)
    (hB : ∀ helpers p pc, armB helpers p pc i = jmp_condB false true mkop pc i)
    (hexec : ∀ env s, EngineSem.clifExec env s i =
      Interp.rd s i.dst.toNat fun d => Interp.branch s i.off (c (Interp.lo32 d) i.imm))
    (hc : jmp_CmpOk32 mkop c) : ArmSim i := by
  apply armSim_intro
  intro env σ s ops _hget harm hrel hm
  rw [arm_eq, hB] at harm
  rw [hexec]
  by_cases hd : ¬ i.dst.toNat < 11
  · rw [rd_ge _ _ _ hd]; exact armPost_panic
  replace hd := Decidable.of_not_not hd
  rw [rd_eq _ _ _ hd]
  cases ht : targetPc s.pc i with
  | error e => rw [jmp_condB_error _ _ _ _ _ _ _ ht] at harm; simp at harm
  | ok t =>
    rw [jmp_condB_run_imm32 _ _ _ _ ht hd] at harm
    simp only [toOption_map_ok, Option.some.injEq] at harm
    subst harm
    obtain ⟨r, hstep, hr⟩ := hc env σ
      [⟨.i32, Interp.zx32 (Interp.lo32 s.reg[i.dst.toNat])⟩, ⟨.i32, Interp.zx32 i.imm⟩]
      (.loc 0) (.loc 1) _ _ rfl rfl
    apply jmp_post_branch _ hrel hm ht
    rw [runOps_un _ (arg_var_reg hrel _ _ hd) (evalUn_ireduce32 _), runOps_iconst, mk_i32_imm]
    exact jmp_run_cmp_brif _ _ hstep hr

/-! ## 6. the 44 opcodes

For a literal opcode the two matches reduce by evaluation: `armB` to the fall-through arm `if isCondJump opc then condJump …`
(`rfl`), `clifExec` to the arm of `cmpImmSigned` or of `Interp.exec` (`rfl`); `condJump` with the opcode's bits evaluated is
`jmp_condB` with the flags and the compare op of that opcode. -/

theorem jmp_armB_cond (i : Insn) (helpers : Nat → Bool) (p : Bytes) (pc : Nat)
    (h1 : armB helpers p pc i = if isCondJump i.opc.toNat = true then condJump pc i else throw .panic)
    (h2 : isCondJump i.opc.toNat = true) : armB helpers p pc i = condJump pc i := by
  rw [h1, if_pos h2]

/-- `armB` at a literal conditional-jump opcode is `jmp_condB` with the flags and the compare op of that opcode -/
macro "jmp_hB" : tactic => `(tactic|
  (intro helpers p pc
   refine Eq.trans (jmp_armB_cond _ helpers p pc rfl (by simp only [BitVec.reduceToNat]; rfl)) ?_
   simp only [condJump, jmp_condB, BitVec.reduceToNat, Nat.reduceAnd, jumpCC]
   rfl))

section Instances
variable (dst src : BitVec 8) (off : BitVec 16) (imm : BitVec 32)

/-- `jeq` imm -/
theorem jmp_armSim_15 : ArmSim ⟨0x15, dst, src, off, imm⟩ :=
  jmp_armSim_imm64 _ _ (fun d x => d == x) (by jmp_hB) (fun _ _ => rfl) (jmp_cmpOk64_icmp .eq _ jmp_cc64_eq)

/-- `jeq` reg -/
theorem jmp_armSim_1d : ArmSim ⟨0x1d, dst, src, off, imm⟩ :=
  jmp_armSim_reg64 _ _ (fun d x => d == x) (by jmp_hB) (fun _ _ => rfl) (jmp_cmpOk64_icmp .eq _ jmp_cc64_eq)

/-- `jgt` imm -/
theorem jmp_armSim_25 : ArmSim ⟨0x25, dst, src, off, imm⟩ :=
  jmp_armSim_imm64 _ _ (fun d x => x.ult d) (by jmp_hB) (fun _ _ => rfl) (jmp_cmpOk64_icmp .ugt _ jmp_cc64_ugt)

/-- `jgt` reg -/
theorem jmp_armSim_2d : ArmSim ⟨0x2d, dst, src, off, imm⟩ :=
  jmp_armSim_reg64 _ _ (fun d x => x.ult d) (by jmp_hB) (fun _ _ => rfl) (jmp_cmpOk64_icmp .ugt _ jmp_cc64_ugt)

/-- `jge` imm -/
theorem jmp_armSim_35 : ArmSim ⟨0x35, dst, src, off, imm⟩ :=
  jmp_armSim_imm64 _ _ (fun d x => x.ule d) (by jmp_hB) (fun _ _ => rfl) (jmp_cmpOk64_icmp .uge _ jmp_cc64_uge)

/-- `jge` reg -/
theorem jmp_armSim_3d : ArmSim ⟨0x3d, dst, src, off, imm⟩ :=
  jmp_armSim_reg64 _ _ (fun d x => x.ule d) (by jmp_hB) (fun _ _ => rfl) (jmp_cmpOk64_icmp .uge _ jmp_cc64_uge)

/-- `jset` imm -/
theorem jmp_armSim_45 : ArmSim ⟨0x45, dst, src, off, imm⟩ :=
  jmp_armSim_imm64 _ _ (fun d x => d &&& x != 0) (by jmp_hB) (fun _ _ => rfl) jmp_cmpOk64_band

/-- `jset` reg -/
theorem jmp_armSim_4d : ArmSim ⟨0x4d, dst, src, off, imm⟩ :=
  jmp_armSim_reg64 _ _ (fun d x => d &&& x != 0) (by jmp_hB) (fun _ _ => rfl) jmp_cmpOk64_band

/-- `jne` imm -/
theorem jmp_armSim_55 : ArmSim ⟨0x55, dst, src, off, imm⟩ :=
  jmp_armSim_imm64 _ _ (fun d x => d != x) (by jmp_hB) (fun _ _ => rfl) (jmp_cmpOk64_icmp .ne _ jmp_cc64_ne)

/-- `jne` reg -/
theorem jmp_armSim_5d : ArmSim ⟨0x5d, dst, src, off, imm⟩ :=
  jmp_armSim_reg64 _ _ (fun d x => d != x) (by jmp_hB) (fun _ _ => rfl) (jmp_cmpOk64_icmp .ne _ jmp_cc64_ne)

/-- `jsgt` imm -/
theorem jmp_armSim_65 : ArmSim ⟨0x65, dst, src, off, imm⟩ :=
  jmp_armSim_imm64 _ _ (fun d x => x.slt d) (by jmp_hB) (fun _ _ => rfl) (jmp_cmpOk64_icmp .sgt _ jmp_cc64_sgt)

/-- `jsgt` reg -/
theorem jmp_armSim_6d : ArmSim ⟨0x6d, dst, src, off, imm⟩ :=
  jmp_armSim_reg64 _ _ (fun d x => x.slt d) (by jmp_hB) (fun _ _ => rfl) (jmp_cmpOk64_icmp .sgt _ jmp_cc64_sgt)

/-- `jsge` imm -/
theorem jmp_armSim_75 : ArmSim ⟨0x75, dst, src, off, imm⟩ :=
  jmp_armSim_imm64 _ _ (fun d x => x.sle d) (by jmp_hB) (fun _ _ => rfl) (jmp_cmpOk64_icmp .sge _ jmp_cc64_sge)

/-- `jsge` reg -/
theorem jmp_armSim_7d : ArmSim ⟨0x7d, dst, src, off, imm⟩ :=
  jmp_armSim_reg64 _ _ (fun d x => x.sle d) (by jmp_hB) (fun _ _ => rfl) (jmp_cmpOk64_icmp .sge _ jmp_cc64_sge)

/-- `jlt` imm -/
theorem jmp_armSim_a5 : ArmSim ⟨0xa5, dst, src, off, imm⟩ :=
  jmp_armSim_imm64 _ _ (fun d x => d.ult x) (by jmp_hB) (fun _ _ => rfl) (jmp_cmpOk64_icmp .ult _ jmp_cc64_ult)

/-- `jlt` reg -/
theorem jmp_armSim_ad : ArmSim ⟨0xad, dst, src, off, imm⟩ :=
  jmp_armSim_reg64 _ _ (fun d x => d.ult x) (by jmp_hB) (fun _ _ => rfl) (jmp_cmpOk64_icmp .ult _ jmp_cc64_ult)

/-- `jle` imm -/
theorem jmp_armSim_b5 : ArmSim ⟨0xb5, dst, src, off, imm⟩ :=
  jmp_armSim_imm64 _ _ (fun d x => d.ule x) (by jmp_hB) (fun _ _ => rfl) (jmp_cmpOk64_icmp .ule _ jmp_cc64_ule)

/-- `jle` reg -/
theorem jmp_armSim_bd : ArmSim ⟨0xbd, dst, src, off, imm⟩ :=
  jmp_armSim_reg64 _ _ (fun d x => d.ule x) (by jmp_hB) (fun _ _ => rfl) (jmp_cmpOk64_icmp .ule _ jmp_cc64_ule)

/-- `jslt` imm -/
theorem jmp_armSim_c5 : ArmSim ⟨0xc5, dst, src, off, imm⟩ :=
  jmp_armSim_imm64 _ _ (fun d x => d.slt x) (by jmp_hB) (fun _ _ => rfl) (jmp_cmpOk64_icmp .slt _ jmp_cc64_slt)

/-- `jslt` reg -/
theorem jmp_armSim_cd : ArmSim ⟨0xcd, dst, src, off, imm⟩ :=
  jmp_armSim_reg64 _ _ (fun d x => d.slt x) (by jmp_hB) (fun _ _ => rfl) (jmp_cmpOk64_icmp .slt _ jmp_cc64_slt)

/-- `jsle` imm -/
theorem jmp_armSim_d5 : ArmSim ⟨0xd5, dst, src, off, imm⟩ :=
  jmp_armSim_imm64 _ _ (fun d x => d.sle x) (by jmp_hB) (fun _ _ => rfl) (jmp_cmpOk64_icmp .sle _ jmp_cc64_sle)

/-- `jsle` reg -/
theorem jmp_armSim_dd : ArmSim ⟨0xdd, dst, src, off, imm⟩ :=
  jmp_armSim_reg64 _ _ (fun d x => d.sle x) (by jmp_hB) (fun _ _ => rfl) (jmp_cmpOk64_icmp .sle _ jmp_cc64_sle)

/-- `jeq32` imm -/
theorem jmp_armSim_16 : ArmSim ⟨0x16, dst, src, off, imm⟩ :=
  jmp_armSim_imm32 _ _ (fun d x => d == x) (by jmp_hB) (fun _ _ => rfl) (jmp_cmpOk32_icmp .eq _ jmp_cc32_eq)

/-- `jeq32` reg -/
theorem jmp_armSim_1e : ArmSim ⟨0x1e, dst, src, off, imm⟩ :=
  jmp_armSim_reg32 _ _ (fun d x => d == x) (by jmp_hB) (fun _ _ => rfl) (jmp_cmpOk32_icmp .eq _ jmp_cc32_eq)

/-- `jgt32` imm -/
theorem jmp_armSim_26 : ArmSim ⟨0x26, dst, src, off, imm⟩ :=
  jmp_armSim_imm32 _ _ (fun d x => x.ult d) (by jmp_hB) (fun _ _ => rfl) (jmp_cmpOk32_icmp .ugt _ jmp_cc32_ugt)

/-- `jgt32` reg -/
theorem jmp_armSim_2e : ArmSim ⟨0x2e, dst, src, off, imm⟩ :=
  jmp_armSim_reg32 _ _ (fun d x => x.ult d) (by jmp_hB) (fun _ _ => rfl) (jmp_cmpOk32_icmp .ugt _ jmp_cc32_ugt)

/-- `jge32` imm -/
theorem jmp_armSim_36 : ArmSim ⟨0x36, dst, src, off, imm⟩ :=
  jmp_armSim_imm32 _ _ (fun d x => x.ule d) (by jmp_hB) (fun _ _ => rfl) (jmp_cmpOk32_icmp .uge _ jmp_cc32_uge)

/-- `jge32` reg -/
theorem jmp_armSim_3e : ArmSim ⟨0x3e, dst, src, off, imm⟩ :=
  jmp_armSim_reg32 _ _ (fun d x => x.ule d) (by jmp_hB) (fun _ _ => rfl) (jmp_cmpOk32_icmp .uge _ jmp_cc32_uge)

/-- `jset32` imm -/
theorem jmp_armSim_46 : ArmSim ⟨0x46, dst, src, off, imm⟩ :=
  jmp_armSim_imm32 _ _ (fun d x => d &&& x != 0) (by jmp_hB) (fun _ _ => rfl) jmp_cmpOk32_band

/-- `jset32` reg -/
theorem jmp_armSim_4e : ArmSim ⟨0x4e, dst, src, off, imm⟩ :=
  jmp_armSim_reg32 _ _ (fun d x => d &&& x != 0) (by jmp_hB) (fun _ _ => rfl) jmp_cmpOk32_band

/-- `jne32` imm -/
theorem jmp_armSim_56 : ArmSim ⟨0x56, dst, src, off, imm⟩ :=
  jmp_armSim_imm32 _ _ (fun d x => d != x) (by jmp_hB) (fun _ _ => rfl) (jmp_cmpOk32_icmp .ne _ jmp_cc32_ne)

/-- `jne32` reg -/
theorem jmp_armSim_5e : ArmSim ⟨0x5e, dst, src, off, imm⟩ :=
  jmp_armSim_reg32 _ _ (fun d x => d != x) (by jmp_hB) (fun _ _ => rfl) (jmp_cmpOk32_icmp .ne _ jmp_cc32_ne)

/-- `jsgt32` imm -/
theorem jmp_armSim_66 : ArmSim ⟨0x66, dst, src, off, imm⟩ :=
  jmp_armSim_imm32 _ _ (fun d x => x.slt d) (by jmp_hB) (fun _ _ => rfl) (jmp_cmpOk32_icmp .sgt _ jmp_cc32_sgt)

/-- `jsgt32` reg -/
theorem jmp_armSim_6e : ArmSim ⟨0x6e, dst, src, off, imm⟩ :=
  jmp_armSim_reg32 _ _ (fun d x => x.slt d) (by jmp_hB) (fun _ _ => rfl) (jmp_cmpOk32_icmp .sgt _ jmp_cc32_sgt)

/-- `jsge32` imm -/
theorem jmp_armSim_76 : ArmSim ⟨0x76, dst, src, off, imm⟩ :=
  jmp_armSim_imm32 _ _ (fun d x => x.sle d) (by jmp_hB) (fun _ _ => rfl) (jmp_cmpOk32_icmp .sge _ jmp_cc32_sge)

/-- `jsge32` reg -/
theorem jmp_armSim_7e : ArmSim ⟨0x7e, dst, src, off, imm⟩ :=
  jmp_armSim_reg32 _ _ (fun d x => x.sle d) (by jmp_hB) (fun _ _ => rfl) (jmp_cmpOk32_icmp .sge _ jmp_cc32_sge)

/-- `jlt32` imm -/
theorem jmp_armSim_a6 : ArmSim ⟨0xa6, dst, src, off, imm⟩ :=
  jmp_armSim_imm32 _ _ (fun d x => d.ult x) (by jmp_hB) (fun _ _ => rfl) (jmp_cmpOk32_icmp .ult _ jmp_cc32_ult)

/-- `jlt32` reg -/
theorem jmp_armSim_ae : ArmSim ⟨0xae, dst, src, off, imm⟩ :=
  jmp_armSim_reg32 _ _ (fun d x => d.ult x) (by jmp_hB) (fun _ _ => rfl) (jmp_cmpOk32_icmp .ult _ jmp_cc32_ult)

/-- `jle32` imm -/
theorem jmp_armSim_b6 : ArmSim ⟨0xb6, dst, src, off, imm⟩ :=
  jmp_armSim_imm32 _ _ (fun d x => d.ule x) (by jmp_hB) (fun _ _ => rfl) (jmp_cmpOk32_icmp .ule _ jmp_cc32_ule)

/-- `jle32` reg -/
theorem jmp_armSim_be : ArmSim ⟨0xbe, dst, src, off, imm⟩ :=
  jmp_armSim_reg32 _ _ (fun d x => d.ule x) (by jmp_hB) (fun _ _ => rfl) (jmp_cmpOk32_icmp .ule _ jmp_cc32_ule)

/-- `jslt32` imm -/
theorem jmp_armSim_c6 : ArmSim ⟨0xc6, dst, src, off, imm⟩ :=
  jmp_armSim_imm32 _ _ (fun d x => d.slt x) (by jmp_hB) (fun _ _ => rfl) (jmp_cmpOk32_icmp .slt _ jmp_cc32_slt)

/-- `jslt32` reg -/
theorem jmp_armSim_ce : ArmSim ⟨0xce, dst, src, off, imm⟩ :=
  jmp_armSim_reg32 _ _ (fun d x => d.slt x) (by jmp_hB) (fun _ _ => rfl) (jmp_cmpOk32_icmp .slt _ jmp_cc32_slt)

/-- `jsle32` imm -/
theorem jmp_armSim_d6 : ArmSim ⟨0xd6, dst, src, off, imm⟩ :=
  jmp_armSim_imm32 _ _ (fun d x => d.sle x) (by jmp_hB) (fun _ _ => rfl) (jmp_cmpOk32_icmp .sle _ jmp_cc32_sle)

/-- `jsle32` reg -/
theorem jmp_armSim_de : ArmSim ⟨0xde, dst, src, off, imm⟩ :=
  jmp_armSim_reg32 _ _ (fun d x => d.sle x) (by jmp_hB) (fun _ _ => rfl) (jmp_cmpOk32_icmp .sle _ jmp_cc32_sle)

/-- `ja`: one `jump` to the target -/
theorem jmp_armSim_05 : ArmSim ⟨0x05, dst, src, off, imm⟩ := by
  apply armSim_intro
  intro env σ s ops _hget harm hrel hm
  rw [arm_eq] at harm
  have hB : armB (helperSet env) env.prog s.pc ⟨0x05, dst, src, off, imm⟩ =
      (do let target ← lift (targetPc s.pc ⟨0x05, dst, src, off, imm⟩); emit (.jump target)) := rfl
  have hexec : EngineSem.clifExec env { s with pc := s.pc + 1 } ⟨0x05, dst, src, off, imm⟩ =
      Interp.branch { s with pc := s.pc + 1 } off true := rfl
  rw [hB] at harm
  rw [hexec]
  cases ht : targetPc s.pc ⟨0x05, dst, src, off, imm⟩ with
  | error e => simp only [B_bind_run, lift_run_error _ _ _ ht] at harm; simp at harm
  | ok t =>
    simp only [B_bind_run, lift_run_ok _ _ _ ht, emit_run, toOption_map_ok, List.nil_append, Option.some.injEq] at harm
    subst harm
    exact jmp_post_branch (i := ⟨0x05, dst, src, off, imm⟩) true hrel hm ht (runOps_jump t [])

/-- `exit` (at depth 0, the only depth Cranelift-compiled code has): `return r0` -/
theorem jmp_armSim_95 : ArmSim ⟨0x95, dst, src, off, imm⟩ := by
  apply armSim_intro
  intro env σ s ops _hget harm hrel hm
  rw [arm_eq] at harm
  have hB : armB (helperSet env) env.prog s.pc ⟨0x95, dst, src, off, imm⟩ =
      (do let ret ← useVar 0; emit (.ret ret)) := rfl
  have hexec : EngineSem.clifExec env { s with pc := s.pc + 1 } ⟨0x95, dst, src, off, imm⟩ =
      Interp.exitInsn { s with pc := s.pc + 1 } := rfl
  rw [hB] at harm
  simp only [B_bind_run, useVar_run_nil, emit_run, toOption_map_ok, List.nil_append, Option.some.injEq] at harm
  subst harm
  have hexit : Interp.exitInsn { s with pc := s.pc + 1 } = .done s.reg[0] { s with pc := s.pc + 1 } := by
    simp only [Interp.exitInsn, hrel.depth0]
    exact rd_eq _ 0 _ (by omega)
  rw [hexec, hexit]
  exact armPost_done (runOps_ret [] (arg_var_reg hrel [] 0 (by omega))) hrel.mem hrel.log

end Instances

/-! ## 7. the class -/

theorem armSim_jump (i : Insn) (h : i.opc.toNat ∈ jumpOpcodes) : ArmSim i := by
  obtain ⟨opc, dst, src, off, imm⟩ := i
  have hopc : ∀ n : Nat, opc.toNat = n → opc = BitVec.ofNat 8 n := by
    intro n hn; subst hn; exact BitVec.eq_of_toNat_eq (by simp)
  simp only [jumpOpcodes, condJumpOpcodes, List.mem_cons, List.not_mem_nil, or_false] at h
  rcases h with h | h | h | h | h | h | h | h | h | h | h | h | h | h | h | h | h | h | h | h | h | h | h | h | h | h | h | h | h | h | h | h | h | h | h | h | h | h | h | h | h | h | h | h | h | h <;> cases hopc _ h
  · exact jmp_armSim_05 dst src off imm
  · exact jmp_armSim_95 dst src off imm
  · exact jmp_armSim_15 dst src off imm
  · exact jmp_armSim_1d dst src off imm
  · exact jmp_armSim_25 dst src off imm
  · exact jmp_armSim_2d dst src off imm
  · exact jmp_armSim_35 dst src off imm
  · exact jmp_armSim_3d dst src off imm
  · exact jmp_armSim_45 dst src off imm
  · exact jmp_armSim_4d dst src off imm
  · exact jmp_armSim_55 dst src off imm
  · exact jmp_armSim_5d dst src off imm
  · exact jmp_armSim_65 dst src off imm
  · exact jmp_armSim_6d dst src off imm
  · exact jmp_armSim_75 dst src off imm
  · exact jmp_armSim_7d dst src off imm
  · exact jmp_armSim_a5 dst src off imm
  · exact jmp_armSim_ad dst src off imm
  · exact jmp_armSim_b5 dst src off imm
  · exact jmp_armSim_bd dst src off imm
  · exact jmp_armSim_c5 dst src off imm
  · exact jmp_armSim_cd dst src off imm
  · exact jmp_armSim_d5 dst src off imm
  · exact jmp_armSim_dd dst src off imm
  · exact jmp_armSim_16 dst src off imm
  · exact jmp_armSim_1e dst src off imm
  · exact jmp_armSim_26 dst src off imm
  · exact jmp_armSim_2e dst src off imm
  · exact jmp_armSim_36 dst src off imm
  · exact jmp_armSim_3e dst src off imm
  · exact jmp_armSim_46 dst src off imm
  · exact jmp_armSim_4e dst src off imm
  · exact jmp_armSim_56 dst src off imm
  · exact jmp_armSim_5e dst src off imm
  · exact jmp_armSim_66 dst src off imm
  · exact jmp_armSim_6e dst src off imm
  · exact jmp_armSim_76 dst src off imm
  · exact jmp_armSim_7e dst src off imm
  · exact jmp_armSim_a6 dst src off imm
  · exact jmp_armSim_ae dst src off imm
  · exact jmp_armSim_b6 dst src off imm
  · exact jmp_armSim_be dst src off imm
  · exact jmp_armSim_c6 dst src off imm
  · exact jmp_armSim_ce dst src off imm
  · exact jmp_armSim_d6 dst src off imm
  · exact jmp_armSim_de dst src off imm

end Rbpf.ClifSim
