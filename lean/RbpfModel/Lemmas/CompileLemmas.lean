/-
  Lemmas for property C12: the compile-time models (`JitEmit.compile`, `ClifCompile.compile`) never panic on a
  program accepted by the verifier model, and their error values are exactly the documented ones.
  The property theorems are in `Props/C12.lean`.
-/
import RbpfModel.Model.JitEmit
import RbpfModel.Model.ClifCompile
import RbpfModel.Lemmas.VerifierLemmas
import RbpfModel.Lemmas.SafetyLemmas
namespace Rbpf
open Verifier

/-! ### the compilers' sweep is the verifier's sweep -/

theorem sweep_map_fst (p : Bytes) : ∀ fuel pc, p.size / 8 + 1 ≤ pc + fuel →
    (EngineSem.sweep p fuel pc).map (·.1) = sweepFrom p pc := by
  intro fuel
  induction fuel with
  | zero =>
    intro pc h
    rw [sweepFrom, if_neg (by omega)]; rfl
  | succ n ih =>
    intro pc h
    rw [sweepFrom, EngineSem.sweep]
    split
    · cases hx : getInsn? p pc with
      | none => rfl
      | some i =>
        simp only [List.map_cons]
        rw [ih _ (by split <;> omega)]
    · rfl

theorem insns_map_fst (p : Bytes) : (EngineSem.insns p).map (·.1) = starts p :=
  sweep_map_fst p _ 0 (by omega)

theorem mem_sweep_getInsn {p : Bytes} : ∀ {fuel pc} {e : Nat × Insn}, e ∈ EngineSem.sweep p fuel pc →
    getInsn? p e.1 = some e.2 := by
  intro fuel
  induction fuel with
  | zero => intro pc e h; simp [EngineSem.sweep] at h
  | succ n ih =>
    intro pc e h
    rw [EngineSem.sweep] at h
    split at h
    · cases hx : getInsn? p pc with
      | none => simp [hx] at h
      | some i =>
        simp only [hx, List.mem_cons] at h
        rcases h with rfl | h
        · exact hx
        · exact ih h
    · simp at h

theorem mem_insns {p : Bytes} {e : Nat × Insn} (h : e ∈ EngineSem.insns p) :
    e.1 ∈ starts p ∧ getInsn? p e.1 = some e.2 :=
  ⟨by rw [← insns_map_fst]; exact List.mem_map_of_mem h, mem_sweep_getInsn h⟩

theorem mem_insns_of_start {p : Bytes} {pc : Nat} (h : pc ∈ starts p) : ∃ i, (pc, i) ∈ EngineSem.insns p := by
  rw [← insns_map_fst] at h
  obtain ⟨⟨q, i⟩, hm, rfl⟩ := List.mem_map.1 h
  exact ⟨i, hm⟩

/-- call kinds of an accepted program -/
theorem call_kind_of_check {p : Bytes} (hc : check p = .ok) {i : Nat} (hi : i ∈ starts p) {x : Insn}
    (hx : getInsn? p i = some x) (h85 : x.opc = 0x85) : x.src = 0 ∨ x.src = 1 := by
  have hok := check_ok_insn hc i hi
  unfold insnCheck at hok
  simp only [hx] at hok
  have : arm x.opc.toNat = .call := by rw [h85]; rfl
  rw [this] at hok
  simp only at hok
  by_cases h0 : x.src = 0
  · exact Or.inl h0
  · by_cases h1 : x.src = 1
    · exact Or.inr h1
    · rw [if_neg h0, if_neg h1] at hok; cases hok

theorem starts_lt_slots {p : Bytes} {i : Nat} (hi : i ∈ starts p) : i < p.size / 8 := by
  have := (mem_sweepFrom_bounds hi).2
  omega

theorem not_tailCall_of_check {p : Bytes} (hc : check p = .ok) {i : Nat} (hi : i ∈ starts p) {x : Insn}
    (hx : getInsn? p i = some x) : arm x.opc.toNat ≠ .tailCall := by
  have hok := check_ok_insn hc i hi
  unfold insnCheck at hok
  simp only [hx] at hok
  intro h
  rw [h] at hok
  cases hok

/-! ### Cranelift front end -/

namespace ClifCompile
open EngineSem (Compile insns)

theorem jump_iff_arm (o : BitVec 8) : (o = 0x05 ∨ isCondJump o.toNat = true) ↔ arm o.toNat = .jump := by
  revert o; apply forall_bv8; decide +kernel

theorem ite_ne_of {α : Sort _} {c : Prop} [Decidable c] {a b x : α} (ha : a ≠ x) (hb : b ≠ x) :
    (if c then a else b) ≠ x := by split <;> assumption

theorem armCheck_err_iff (helpers : Nat → Bool) (i : Insn) (next : Option Insn) :
    armCheck helpers i next = .err ↔ i.opc = 0x85 ∧ (i.src ≠ 0 ∨ helpers i.imm.toNat = false) := by
  by_cases h85 : i.opc.toNat = 0x85
  · have h85' : i.opc = 0x85 := BitVec.eq_of_toNat_eq (by rw [h85]; rfl)
    unfold armCheck
    simp only [h85']
    simp [isCondJump]
    exact Decidable.imp_iff_not_or
  · have h85' : i.opc ≠ 0x85 := by intro h; rw [h] at h85; exact h85 rfl
    refine iff_of_false ?_ (fun h => h85' h.1)
    unfold armCheck
    simp only [h85, if_false]
    cases next <;>
    repeat' (first | apply ite_ne_of | (intro h; cases h; done))

theorem armCheck_ne_panic (helpers : Nat → Bool) (i : Insn) (next : Option Insn)
    (hk : arm i.opc.toNat ≠ .unknown) (ht : arm i.opc.toNat ≠ .tailCall)
    (hs : i.src.toNat ≤ 10) (hd : i.dst.toNat ≤ 10)
    (hen : i.opc.toNat = 0xd4 ∨ i.opc.toNat = 0xdc → i.imm = 16 ∨ i.imm = 32 ∨ i.imm = 64)
    (hl : i.opc.toNat = 0x18 → ∃ y, next = some y) : armCheck helpers i next ≠ .panic := by
  have hrs : regOk i.src = true := by simp [regOk]; omega
  have hrd : regOk i.dst = true := by simp [regOk]; omega
  unfold armCheck
  simp only [hrs, hrd]
  generalize i.opc.toNat = o at *
  unfold arm at hk ht
  split at hk
  all_goals first
    | exact absurd rfl hk
    | exact absurd rfl ht
    | skip
  all_goals clear hk ht
  all_goals first
    | (simp [isCondJump]; done)
    | (obtain ⟨y, rfl⟩ := hl rfl; simp; done)
    | (rcases hen (by simp) with h | h | h <;> simp [h]; done)
    | (simp [isCondJump]; repeat' (first | apply ite_ne_of | (intro h; cases h; done)))

/-- the jump target of an accepted program's jump instruction is a start -/
theorem jump_target {p : Bytes} (hc : check p = .ok) {e : Nat × Insn} (he : e ∈ insns p)
    (hj : e.2.opc = 0x05 ∨ isCondJump e.2.opc.toNat = true) :
    0 ≤ (e.1 : Int) + e.2.off.toInt + 1 ∧ ((e.1 : Int) + e.2.off.toInt + 1).toNat ∈ starts p := by
  obtain ⟨hs, hx⟩ := mem_insns he
  have hF := insnFacts_of_check hc hs hx
  have := hF.jump ((jump_iff_arm _).1 hj)
  have heq : (e.1 : Int) + e.2.off.toInt + 1 = (e.1 : Int) + 1 + e.2.off.toInt := by omega
  rw [heq]; exact this

theorem cfgCheck_ok {p : Bytes} (hc : check p = .ok) : cfgCheck p = .ok := by
  unfold cfgCheck
  rw [if_pos]
  apply List.all_eq_true.2
  intro e he
  obtain ⟨pc, i⟩ := e
  simp only
  split
  · rename_i hj
    obtain ⟨h0, hm⟩ := jump_target hc he hj
    have h1 := starts_lt_slots hm
    have h2 := (check_ok_len hc).2.2
    dsimp only at h0 h1
    apply decide_eq_true
    omega
  · rfl

theorem blocksFilled_true {p : Bytes} (hc : check p = .ok) : blocksFilled p = true := by
  obtain ⟨h8, h0, -⟩ := check_ok_len hc
  obtain ⟨-, x, hx, hop⟩ := check_ok_last hc
  have hne : x.opc ≠ 0 := by rcases hop with h | h <;> rw [h] <;> decide
  have hl := getLast?_starts h8 h0 (check_ok_basic hc) (check_ok_loop hc).2 ⟨x, hx, hne⟩
  unfold blocksFilled
  simp only [Bool.and_eq_true]
  constructor
  · rw [← insns_map_fst, List.getLast?_map] at hl
    cases hg : (insns p).getLast? with
    | none => rw [hg] at hl; cases hl
    | some e =>
      rw [hg] at hl
      obtain ⟨q, i⟩ := e
      simp only [Option.map_some, Option.some.injEq] at hl
      have := (mem_insns (List.mem_of_getLast? hg)).2
      simp only at this
      rw [hl, hx] at this
      cases this
      simp only
      rcases hop with h | h <;> simp [h]
  · apply List.all_eq_true.2
    intro e he
    obtain ⟨pc, i⟩ := e
    simp only
    split
    · rename_i hj
      obtain ⟨h0, hm⟩ := jump_target hc he hj
      obtain ⟨i', hi'⟩ := mem_insns_of_start hm
      apply List.any_eq_true.2
      refine ⟨_, hi', ?_⟩
      dsimp only at h0 ⊢
      apply decide_eq_true
      omega
    · rfl

theorem translate_spec (p : Bytes) (helpers : Nat → Bool) : ∀ l : List (Nat × Insn),
    (∀ e ∈ l, armCheck helpers e.2 (getInsn? p (e.1 + 1)) ≠ .panic) →
    translate p helpers l ≠ .panic ∧
      (translate p helpers l = .err ↔ ∃ e ∈ l, armCheck helpers e.2 (getInsn? p (e.1 + 1)) = .err) := by
  intro l
  induction l with
  | nil => intro _; simp [translate]
  | cons a l ih =>
    intro h
    obtain ⟨pc, i⟩ := a
    have ha := h (pc, i) List.mem_cons_self
    have := ih (fun e he => h e (List.mem_cons_of_mem _ he))
    rw [translate]
    simp only at ha
    cases hac : armCheck helpers i (getInsn? p (pc + 1)) with
    | ok => simpa [hac] using this
    | err => simp [hac]
    | panic => exact absurd hac ha

theorem armCheck_ne_panic_of_check {p : Bytes} (helpers : Nat → Bool) (hc : check p = .ok)
    {e : Nat × Insn} (he : e ∈ insns p) : armCheck helpers e.2 (getInsn? p (e.1 + 1)) ≠ .panic := by
  obtain ⟨hs, hx⟩ := mem_insns he
  have hF := insnFacts_of_check hc hs hx
  refine armCheck_ne_panic helpers _ _ hF.known (not_tailCall_of_check hc hs hx) hF.src ?_ hF.endian ?_
  · have := hF.dst; omega
  · intro h; exact (hF.lddw h).1

theorem compile_spec {p : Bytes} (helpers : Nat → Bool) (hc : check p = .ok) :
    compile p helpers ≠ .panic ∧
      (compile p helpers = .err ↔
        ∃ e ∈ insns p, e.2.opc = 0x85 ∧ (e.2.src ≠ 0 ∨ helpers e.2.imm.toNat = false)) := by
  obtain ⟨h1, h2⟩ := translate_spec p helpers (insns p) (fun e he => armCheck_ne_panic_of_check helpers hc he)
  simp only [armCheck_err_iff] at h2
  unfold compile
  rw [cfgCheck_ok hc]
  simp only [blocksFilled_true hc, if_true]
  rw [← h2]
  cases ht : translate p helpers (insns p) with
  | ok => simp
  | err => simp
  | panic => exact absurd ht h1

end ClifCompile

/-! ### x86-64 JIT: what the emit functions do to the jump table -/

namespace JitEmit

/-- the bookkeeping part of the emitter state: size of the code-offset table, the exit anchor, and a predicate on
    every recorded jump target -/
def Inv (T : Int → Prop) (n : Nat) (A : Option Nat) (e : Em) : Prop :=
  e.pcLocs.size = n ∧ e.exitAnchor = A ∧ ∀ j ∈ e.jumps, T j.2

section
variable {T : Int → Prop} {n : Nat} {A : Option Nat} {e : Em}

@[simp] theorem inv_ite {c : Prop} [Decidable c] {a b : Em} :
    Inv T n A (if c then a else b) ↔ if c then Inv T n A a else Inv T n A b := by split <;> rfl

@[simp] theorem inv_emit1 {b : Nat} : Inv T n A (emit1 e b) ↔ Inv T n A e := Iff.rfl

@[simp] theorem inv_emitLE {v k : Nat} : Inv T n A (emitLE e v k) ↔ Inv T n A e := by
  unfold emitLE
  generalize List.range k = l
  induction l generalizing e with
  | nil => rfl
  | cons a l ih => rw [List.foldl_cons, ih, inv_emit1]

@[simp] theorem inv_emit2 {v : Nat} : Inv T n A (emit2 e v) ↔ Inv T n A e := inv_emitLE
@[simp] theorem inv_emit4 {v : Nat} : Inv T n A (emit4 e v) ↔ Inv T n A e := inv_emitLE
@[simp] theorem inv_emit8 {v : Nat} : Inv T n A (emit8 e v) ↔ Inv T n A e := inv_emitLE
@[simp] theorem inv_emitModrm {a b c : Nat} : Inv T n A (emitModrm e a b c) ↔ Inv T n A e := by simp [emitModrm]
@[simp] theorem inv_emitModrmReg2reg {a b : Nat} : Inv T n A (emitModrmReg2reg e a b) ↔ Inv T n A e := by
  simp [emitModrmReg2reg]
@[simp] theorem inv_emitModrmAndDisplacement {a b : Nat} {d : Int} :
    Inv T n A (emitModrmAndDisplacement e a b d) ↔ Inv T n A e := by simp [emitModrmAndDisplacement]
@[simp] theorem inv_emitRex {w r x b : Nat} : Inv T n A (emitRex e w r x b) ↔ Inv T n A e := by simp [emitRex]
@[simp] theorem inv_emitBasicRex {w s d : Nat} : Inv T n A (emitBasicRex e w s d) ↔ Inv T n A e := by
  simp [emitBasicRex]
@[simp] theorem inv_emitPush {r : Nat} : Inv T n A (emitPush e r) ↔ Inv T n A e := by simp [emitPush]
@[simp] theorem inv_emitPop {r : Nat} : Inv T n A (emitPop e r) ↔ Inv T n A e := by simp [emitPop]
@[simp] theorem inv_emitAlu32 {o s d : Nat} : Inv T n A (emitAlu32 e o s d) ↔ Inv T n A e := by simp [emitAlu32]
@[simp] theorem inv_emitAlu32Imm32 {o s d : Nat} {i : Int} : Inv T n A (emitAlu32Imm32 e o s d i) ↔ Inv T n A e := by
  simp [emitAlu32Imm32]
@[simp] theorem inv_emitAlu32Imm8 {o s d : Nat} {i : Int} : Inv T n A (emitAlu32Imm8 e o s d i) ↔ Inv T n A e := by
  simp [emitAlu32Imm8]
@[simp] theorem inv_emitAlu64 {o s d : Nat} : Inv T n A (emitAlu64 e o s d) ↔ Inv T n A e := by simp [emitAlu64]
@[simp] theorem inv_emitAlu64Imm32 {o s d : Nat} {i : Int} : Inv T n A (emitAlu64Imm32 e o s d i) ↔ Inv T n A e := by
  simp [emitAlu64Imm32]
@[simp] theorem inv_emitAlu64Imm8 {o s d : Nat} {i : Int} : Inv T n A (emitAlu64Imm8 e o s d i) ↔ Inv T n A e := by
  simp [emitAlu64Imm8]
@[simp] theorem inv_emitMov {s d : Nat} : Inv T n A (emitMov e s d) ↔ Inv T n A e := by simp [emitMov]
@[simp] theorem inv_emitCmpImm32 {d : Nat} {i : Int} : Inv T n A (emitCmpImm32 e d i) ↔ Inv T n A e := by
  simp [emitCmpImm32]
@[simp] theorem inv_emitCmp {s d : Nat} : Inv T n A (emitCmp e s d) ↔ Inv T n A e := by simp [emitCmp]
@[simp] theorem inv_emitCmp32Imm32 {d : Nat} {i : Int} : Inv T n A (emitCmp32Imm32 e d i) ↔ Inv T n A e := by
  simp [emitCmp32Imm32]
@[simp] theorem inv_emitCmp32 {s d : Nat} : Inv T n A (emitCmp32 e s d) ↔ Inv T n A e := by simp [emitCmp32]
@[simp] theorem inv_emitLoad {z s d : Nat} {o : Int} : Inv T n A (emitLoad e z s d o) ↔ Inv T n A e := by
  simp [emitLoad]
@[simp] theorem inv_emitLoadImm {d : Nat} {i : Int} : Inv T n A (emitLoadImm e d i) ↔ Inv T n A e := by
  simp [emitLoadImm]
@[simp] theorem inv_emitLoadPacket {z b : Nat} {i : Int} : Inv T n A (emitLoadPacket e z b i) ↔ Inv T n A e := by
  unfold emitLoadPacket
  split <;> simp
@[simp] theorem inv_emitStore {z s d : Nat} {o : Int} : Inv T n A (emitStore e z s d o) ↔ Inv T n A e := by
  simp [emitStore]
@[simp] theorem inv_emitStoreImm32 {z d : Nat} {o i : Int} : Inv T n A (emitStoreImm32 e z d o i) ↔ Inv T n A e := by
  simp [emitStoreImm32]
@[simp] theorem inv_emitDirectJcc {c o : Nat} : Inv T n A (emitDirectJcc e c o) ↔ Inv T n A e := by
  simp [emitDirectJcc]
@[simp] theorem inv_emitCall {t : Nat} : Inv T n A (emitCall e t) ↔ Inv T n A e := by simp [emitCall]

@[simp] theorem inv_emitJumpOffset {t : Int} : Inv T n A (emitJumpOffset e t) ↔ T t ∧ Inv T n A e := by
  unfold emitJumpOffset
  rw [inv_emit4]
  simp only [Inv, Array.mem_push]
  constructor
  · rintro ⟨h1, h2, h3⟩
    exact ⟨h3 _ (Or.inr rfl), h1, h2, fun j hj => h3 j (Or.inl hj)⟩
  · rintro ⟨h0, h1, h2, h3⟩
    refine ⟨h1, h2, fun j hj => ?_⟩
    rcases hj with hj | rfl
    · exact h3 j hj
    · exact h0
@[simp] theorem inv_emitJcc {c : Nat} {t : Int} : Inv T n A (emitJcc e c t) ↔ T t ∧ Inv T n A e := by simp [emitJcc]
@[simp] theorem inv_emitJmp {t : Int} : Inv T n A (emitJmp e t) ↔ T t ∧ Inv T n A e := by simp [emitJmp]
@[simp] theorem inv_emitLocalCall {t : Int} : Inv T n A (emitLocalCall e t) ↔ T t ∧ Inv T n A e := by
  simp [emitLocalCall]

theorem inv_emitMuldivmod {pc opc src dst : Nat} {imm : Int} (hT : T ((pc : Int) + 1)) :
    Inv T n A (emitMuldivmod e pc opc src dst imm) ↔ Inv T n A e := by
  unfold emitMuldivmod
  simp [hT]

end

/-- the result of an opcode arm: `m` slots consumed, bookkeeping intact -/
def ArmOk (T : Int → Prop) (n : Nat) (A : Option Nat) (m : Nat) : Except Fail (Em × Nat) → Prop
  | .ok (e', k) => k = m ∧ Inv T n A e'
  | .error _ => False

@[simp] theorem armOk_ok {T : Int → Prop} {n : Nat} {A : Option Nat} {m k : Nat} {e' : Em} :
    ArmOk T n A m (.ok (e', k)) ↔ k = m ∧ Inv T n A e' := Iff.rfl
@[simp] theorem armOk_error {T : Int → Prop} {n : Nat} {A : Option Nat} {m : Nat} {f : Fail} :
    ArmOk T n A m (.error f) ↔ False := Iff.rfl

set_option maxRecDepth 4000 in
theorem arm_ok {T : Int → Prop} {n : Nat} {A : Option Nat} (haddr : Nat → Option Nat) (pc : Nat) (i : Insn)
    (next : Option Insn) (e : Em)
    (hk : Verifier.arm i.opc.toNat ≠ .unknown) (ht : Verifier.arm i.opc.toNat ≠ .tailCall)
    (hs : i.src.toNat ≤ 10) (hd : i.dst.toNat ≤ 10)
    (hen : i.opc.toNat = 0xd4 ∨ i.opc.toNat = 0xdc → i.imm = 16 ∨ i.imm = 32 ∨ i.imm = 64)
    (hl : i.opc.toNat = 0x18 → ∃ y, next = some y)
    (hj : Verifier.arm i.opc.toNat = .jump → T ((pc : Int) + i.off.toInt + 1))
    (hcall : i.opc.toNat = 0x85 →
      (i.src = 0 ∧ ∃ a, haddr i.imm.toNat = some a) ∨ (i.src = 1 ∧ T ((pc : Int) + i.imm.toInt + 1)))
    (hnext : i.opc.toNat ≠ 0x95 → i.opc.toNat ≠ 0x05 → i.opc.toNat ≠ 0x18 → T ((pc : Int) + 1))
    (hinv : Inv T n A e) :
    ArmOk T n A (if i.opc.toNat = 0x18 then 2 else 1) (JitEmit.arm e haddr pc i next) := by
  obtain ⟨d, hd'⟩ : ∃ d, mapRegister? i.dst.toNat = some d := ⟨_, if_pos (by omega)⟩
  obtain ⟨s, hs'⟩ : ∃ s, mapRegister? i.src.toNat = some s := ⟨_, if_pos (by omega)⟩
  unfold JitEmit.arm
  simp only [hd', hs']
  generalize i.opc.toNat = o at *
  generalize hm : (if o = 0x18 then 2 else 1) = m
  split
  all_goals subst hm
  all_goals first
    | (simp [hinv]; done)
    | (have hj' := hj rfl; simp [hinv, hj']; done)
    | (have hT1 := hnext (by decide) (by decide) (by decide); simp [hinv, inv_emitMuldivmod hT1]; done)
    | (obtain ⟨y, rfl⟩ := hl rfl; simp [hinv]; done)
    | (rcases hen (by simp) with h | h | h <;> simp [h, hinv]; done)
    | (rcases hcall rfl with ⟨h0, a, ha⟩ | ⟨h1, hT⟩
       · simp [h0, ha, hinv]
       · simp [h1, hT, hinv]
       done)
    | exact absurd rfl ht
    | (refine absurd ?_ hk
       clear hk ht hen hl hj hcall hnext hinv hd' hs'
       unfold Verifier.arm
       split <;> first | rfl | exact absurd rfl (by assumption))

theorem arm_err (haddr : Nat → Option Nat) (pc : Nat) (i : Insn) (next : Option Insn) (e : Em)
    (hs : i.src.toNat ≤ 10) (hd : i.dst.toNat ≤ 10)
    (h85 : i.opc = 0x85) (h0 : i.src = 0) (hn : haddr i.imm.toNat = none) :
    JitEmit.arm e haddr pc i next = .error .err := by
  obtain ⟨d, hd'⟩ : ∃ d, mapRegister? i.dst.toNat = some d := ⟨_, if_pos (by omega)⟩
  obtain ⟨s, hs'⟩ : ∃ s, mapRegister? i.src.toNat = some s := ⟨_, if_pos (by omega)⟩
  have : i.opc.toNat = 0x85 := by rw [h85]; rfl
  unfold JitEmit.arm
  simp only [hd', this, h0, hn]
  rfl

/-- admissible jump targets: the exit anchor, or an index into the code-offset table -/
def Tgt (n : Nat) (t : Int) : Prop := t = targetPcExit ∨ (0 ≤ t ∧ t < n)

/-- the one compile-time error of the x86-64 JIT on accepted programs: a helper call with an unregistered id -/
def Bad (haddr : Nat → Option Nat) (i : Insn) : Prop := i.opc = 0x85 ∧ i.src = 0 ∧ haddr i.imm.toNat = none

theorem arm_of_check {p : Bytes} (hc : check p = .ok) (haddr : Nat → Option Nat) {pc : Nat} (hpc : pc ∈ starts p)
    {i : Insn} (hx : getInsn? p pc = some i) {A : Option Nat} {e : Em}
    (hinv : Inv (Tgt (p.size / 8 + 1)) (p.size / 8 + 1) A e) :
    (Bad haddr i ∧ JitEmit.arm e haddr pc i (getInsn? p (pc + 1)) = .error .err) ∨
    (¬ Bad haddr i ∧ ArmOk (Tgt (p.size / 8 + 1)) (p.size / 8 + 1) A (if i.opc = 0x18 then 2 else 1)
        (JitEmit.arm e haddr pc i (getInsn? p (pc + 1)))) := by
  have hF := insnFacts_of_check hc hpc hx
  have hd : i.dst.toNat ≤ 10 := by have := hF.dst; omega
  by_cases hb : Bad haddr i
  · exact Or.inl ⟨hb, arm_err haddr pc i _ e hF.src hd hb.1 hb.2.1 hb.2.2⟩
  · refine Or.inr ⟨hb, ?_⟩
    have hif : (if i.opc = 0x18 then 2 else 1) = (if i.opc.toNat = 0x18 then 2 else 1) := by
      by_cases h : i.opc = 0x18
      · rw [if_pos h, h]; rfl
      · rw [if_neg h, if_neg]
        intro h'; exact h (BitVec.eq_of_toNat_eq (by rw [h']; rfl))
    rw [hif]
    have hst : ∀ t : Int, 0 ≤ t → t.toNat ∈ starts p → Tgt (p.size / 8 + 1) t := by
      intro t h0 hm
      have := starts_lt_slots hm
      exact Or.inr ⟨h0, by omega⟩
    refine arm_ok haddr pc i _ e hF.known (not_tailCall_of_check hc hpc hx) hF.src hd hF.endian
      (fun h => (hF.lddw h).1) ?_ ?_ ?_ hinv
    · intro h
      obtain ⟨h0, hm⟩ := hF.jump h
      have heq : (pc : Int) + i.off.toInt + 1 = (pc : Int) + 1 + i.off.toInt := by omega
      rw [heq]; exact hst _ h0 hm
    · intro h
      have h85 : i.opc = 0x85 := BitVec.eq_of_toNat_eq (by rw [h]; rfl)
      rcases call_kind_of_check hc hpc hx h85 with h0 | h1
      · refine Or.inl ⟨h0, ?_⟩
        cases ha : haddr i.imm.toNat with
        | none => exact absurd ⟨h85, h0, ha⟩ hb
        | some a => exact ⟨a, rfl⟩
      · refine Or.inr ⟨h1, ?_⟩
        obtain ⟨h0, hm⟩ := hF.call h (by rw [h1]; rfl)
        have heq : (pc : Int) + i.imm.toInt + 1 = (pc : Int) + 1 + i.imm.toInt := by omega
        rw [heq]; exact hst _ h0 hm
    · intro a b c
      have hm := hF.next a b c
      refine hst _ (by omega) ?_
      have : ((pc : Int) + 1).toNat = pc + 1 := by omega
      rw [this]; exact hm

theorem inv_setPcLoc {T : Int → Prop} {n : Nat} {A : Option Nat} {e : Em} {k v : Nat} :
    Inv T n A { e with pcLocs := e.pcLocs.setIfInBounds k v } ↔ Inv T n A e := by
  simp [Inv]

/-- the compile loop on an accepted program, started at an instruction start (or the end): an error exactly when the
    rest of the sweep contains an unregistered helper call, otherwise a state whose jump table can be resolved -/
theorem body_spec {p : Bytes} (hc : check p = .ok) (haddr : Nat → Option Nat) (A : Option Nat) :
    ∀ (fuel pc : Nat) (e : Em), (pc ∈ starts p ∨ pc = p.size / 8) →
      Inv (Tgt (p.size / 8 + 1)) (p.size / 8 + 1) A e →
      ((∃ x ∈ EngineSem.sweep p fuel pc, Bad haddr x.2) ∧ body p haddr fuel pc e = .error .err) ∨
      ((¬ ∃ x ∈ EngineSem.sweep p fuel pc, Bad haddr x.2) ∧
        ∃ e', body p haddr fuel pc e = .ok e' ∧ Inv (Tgt (p.size / 8 + 1)) (p.size / 8 + 1) A e') := by
  obtain ⟨h8, -, -⟩ := check_ok_len hc
  intro fuel
  induction fuel with
  | zero =>
    intro pc e _ hinv
    exact Or.inr ⟨by simp [EngineSem.sweep], e, rfl, hinv⟩
  | succ k ih =>
    intro pc e hpc hinv
    rw [body, EngineSem.sweep]
    by_cases hlt : pc * 8 < p.size
    · have hst : pc ∈ starts p := by
        rcases hpc with h | h
        · exact h
        · omega
      obtain ⟨i, hx⟩ := getInsn?_isSome_iff.2 (mem_sweepFrom_bounds hst).2
      simp only [hlt, if_true, hx]
      have hinv' := (inv_setPcLoc (k := pc) (v := e.code.size)).2 hinv
      rcases arm_of_check hc haddr hst hx hinv' with ⟨hb, he⟩ | ⟨hb, hok⟩
      · rw [he]
        exact Or.inl ⟨⟨(pc, i), List.mem_cons_self, hb⟩, rfl⟩
      · cases ha : JitEmit.arm { e with pcLocs := e.pcLocs.setIfInBounds pc e.code.size } haddr pc i
            (getInsn? p (pc + 1)) with
        | error f => rw [ha] at hok; exact hok.elim
        | ok r =>
          obtain ⟨e1, m⟩ := r
          rw [ha] at hok
          obtain ⟨rfl, hinv1⟩ := hok
          simp only
          have hn := next_start hc pc hst i hx
          rcases ih (pc + (if i.opc = 0x18 then 2 else 1)) e1 hn hinv1 with ⟨⟨x, hm, hbx⟩, he⟩ | ⟨hno, hr⟩
          · exact Or.inl ⟨⟨x, List.mem_cons_of_mem _ hm, hbx⟩, he⟩
          · refine Or.inr ⟨?_, hr⟩
            rintro ⟨x, hm, hbx⟩
            rcases List.mem_cons.1 hm with rfl | hm
            · exact hb hbx
            · exact hno ⟨x, hm, hbx⟩
    · simp only [hlt, if_false]
      exact Or.inr ⟨by simp, e, rfl, hinv⟩

theorem inv_withPcLocs {T : Int → Prop} {n m : Nat} {A : Option Nat} {e : Em} (h : Inv T n A e) {L : Array Nat}
    (hL : L.size = m) : Inv T m A { e with pcLocs := L } := ⟨hL, h.2.1, h.2.2⟩

theorem inv_prologue (n : Nat) (um ud : Bool) : Inv (Tgt n) 0 none (prologue um ud) := by
  have h0 : Inv (Tgt n) 0 none ({} : Em) := ⟨rfl, rfl, by intro j hj; simp at hj⟩
  have hT : Tgt n targetPcExit := Or.inl rfl
  unfold prologue
  simp [h0, hT]

theorem inv_epilogue {T : Int → Prop} {n : Nat} {A : Option Nat} {e : Em} (h : Inv T n A e) :
    Inv T n (some e.code.size) (epilogue e) := by
  have h' : Inv T n (some e.code.size) { e with exitAnchor := some e.code.size } := ⟨h.1, rfl, h.2.2⟩
  unfold epilogue
  simp [h']

theorem resolveJumps_ok {n a : Nat} {e : Em} (h : Inv (Tgt n) n (some a) e) : ∃ code, resolveJumps e = .ok code := by
  obtain ⟨h1, h2, h3⟩ := h
  unfold resolveJumps
  refine Array.foldl_induction (motive := fun _ acc => ∃ c, acc = Except.ok c) ⟨_, rfl⟩ ?_
  rintro i b ⟨c, rfl⟩
  have hm : e.jumps[i] ∈ e.jumps := Array.getElem_mem i.2
  rcases hj : e.jumps[i] with ⟨loc, target⟩
  rw [hj] at hm
  have hT : Tgt n target := h3 _ hm
  simp only
  rcases hT with rfl | ⟨h0, hlt⟩
  · simp [h2]
  · by_cases hx : target = targetPcExit
    · simp [hx, h2]
    · have hlt' : target.toNat < e.pcLocs.size := by omega
      simp [hx, Int.not_lt.2 h0, hlt']

theorem resolveJumps_size {e : Em} {code : Array UInt8} (h : resolveJumps e = .ok code) : code.size = e.code.size := by
  have : ∀ c : Array UInt8, resolveJumps e = .ok c → c.size = e.code.size := by
    unfold resolveJumps
    refine Array.foldl_induction
      (motive := fun _ (acc : Except Fail (Array UInt8)) => ∀ c : Array UInt8, acc = Except.ok c → c.size = e.code.size)
      (fun c hc => by cases hc; rfl) ?_
    intro i b ih c hc
    rcases e.jumps[i] with ⟨loc, target⟩
    cases b with
    | error f => simp at hc
    | ok c0 =>
      have h0 := ih c0 rfl
      simp only at hc
      split at hc
      · cases hc
      · cases hc
        simp [List.range_succ, h0]
  exact this code h

/-- the x86-64 JIT on an accepted program -/
theorem compile_spec {p : Bytes} (hc : check p = .ok) (haddr : Nat → Option Nat) (um ud : Bool) :
    ((∃ x ∈ EngineSem.insns p, Bad haddr x.2) ∧ compile p haddr um ud = .error .err) ∨
    ((¬ ∃ x ∈ EngineSem.insns p, Bad haddr x.2) ∧ ∃ code, compile p haddr um ud = .ok code) := by
  obtain ⟨h8, h0, -⟩ := check_ok_len hc
  have hinv0 : Inv (Tgt (p.size / 8 + 1)) (p.size / 8 + 1) none
      { prologue um ud with pcLocs := Array.replicate (p.size / 8 + 1) 0 } :=
    inv_withPcLocs (e := prologue um ud) (inv_prologue (p.size / 8 + 1) um ud) (Array.size_replicate ..)
  unfold compile EngineSem.insns
  simp only
  rcases body_spec hc haddr none (p.size / 8 + 1) 0 _ (Or.inl (starts_ne_nil (by omega))) hinv0 with
    ⟨hb, he⟩ | ⟨hb, e', he, hinv⟩
  · rw [he]; exact Or.inl ⟨hb, rfl⟩
  · rw [he]
    exact Or.inr ⟨hb, resolveJumps_ok (inv_epilogue hinv)⟩

end JitEmit

end Rbpf
