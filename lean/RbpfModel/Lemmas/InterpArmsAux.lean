/-
  Support for `Props/InterpArms.lean`: the hand-written interpreter model `Interp.exec` against the arms translated from
  `src/interpreter.rs` (`Generated/InterpArms.lean`), one opcode at a time.

  * `ia_and63`, `ia_bswap16/32/64`: the only places where the model and the translated source write the same function in
    different ways (shift counts `& 0x3f` vs `% 64`; byte swaps as shifts and masks vs reversal of the little-endian bytes).
  * `ex_N`: `Interp.exec` on the literal opcode `N` is the model's arm (`rfl`, copied from `Model/Interp.lean`).
  * `arm_N`: `aluArm N` / `jmpArm N` is the translated arm (`rfl`, copied from `Generated/InterpArms.lean`).
  * `ia_N`: the two agree for opcode `N`; `ia_alu_all` / `ia_jmp_all` dispatch over the opcode lists.
  The `ex_N` / `arm_N` / `ia_N` blocks are mechanical (one stanza per opcode).
-/
import RbpfModel.Generated.InterpArms
import RbpfModel.Model.Interp
namespace Rbpf.InterpArmsAux
open Rbpf.Generated Rbpf.Interp

/-! ## arithmetic: shift counts and byte swaps -/

/-- a register read in range (as `ClifSim.rd_eq`; restated here to keep the imports of this file small) -/
theorem rd_eq (s : State) (r : Nat) (k : BitVec 64 → Outcome) (hr : r < 11) : Interp.rd s r k = k s.reg[r] := by
  simp only [Interp.rd, Vector.getElem?_eq_getElem hr]

/-- `x & 0x3f` (the source's 64-bit shift count) is `x % 64` (the model's) -/
theorem ia_and63 (x : BitVec 64) : (x &&& (0x3f : BitVec 64)).toNat = x.toNat % 64 := by
  rw [BitVec.toNat_and]
  exact Nat.and_two_pow_sub_one_eq_mod x.toNat 6

/-- a byte picked by the mask `0xff << k` -/
theorem ia_mask (n k : Nat) : n &&& (255 <<< k) = (n >>> k % 256) <<< k := by
  apply Nat.eq_of_testBit_eq; intro i
  rw [show (255 : Nat) = 2 ^ 8 - 1 from rfl, show (256 : Nat) = 2 ^ 8 from rfl]
  simp only [Nat.testBit_and, Nat.testBit_shiftLeft, Nat.testBit_two_pow_sub_one, Nat.testBit_mod_two_pow,
    Nat.testBit_shiftRight]
  by_cases h : k ≤ i
  · simp [h, Nat.add_sub_cancel' h, Bool.and_comm]
  · simp [h]

/-- `|||` of two numbers with no common bits is `+` -/
theorem ia_or_disj (hi lo k : Nat) (h : lo < 2 ^ k) (h2 : hi % 2 ^ k = 0) : hi ||| lo = hi + lo := by
  have e : hi = 2 ^ k * (hi / 2 ^ k) := by
    have := Nat.div_add_mod hi (2 ^ k); omega
  rw [e, Nat.two_pow_add_eq_or_of_lt h]

/-- a byte picked by a mask, as arithmetic -/
theorem ia_mask_lit (n k : Nat) (m : Nat) (hm : m = 255 <<< k) : n &&& m = n / 2 ^ k % 256 * 2 ^ k := by
  rw [hm, ia_mask, Nat.shiftLeft_eq, Nat.shiftRight_eq_div_pow]

theorem ia_or2 (b0 b1 : Nat) (h1 : b1 < 256) : b0 * 2 ^ 8 ||| b1 = b0 * 2 ^ 8 + b1 :=
  ia_or_disj _ _ 8 (by omega) (by omega)

theorem ia_or4 (b0 b1 b2 b3 : Nat) (h1 : b1 < 256) (h2 : b2 < 256) (h3 : b3 < 256) :
    b0 * 2 ^ 24 ||| b1 * 2 ^ 16 ||| b2 * 2 ^ 8 ||| b3 = b0 * 2 ^ 24 + b1 * 2 ^ 16 + b2 * 2 ^ 8 + b3 := by
  rw [ia_or_disj (b0 * 2 ^ 24) (b1 * 2 ^ 16) 24 (by omega) (by omega),
    ia_or_disj (b0 * 2 ^ 24 + b1 * 2 ^ 16) (b2 * 2 ^ 8) 16 (by omega) (by omega),
    ia_or_disj (b0 * 2 ^ 24 + b1 * 2 ^ 16 + b2 * 2 ^ 8) b3 8 (by omega) (by omega)]

theorem ia_or8 (b0 b1 b2 b3 b4 b5 b6 b7 : Nat) (h1 : b1 < 256) (h2 : b2 < 256) (h3 : b3 < 256) (h4 : b4 < 256)
    (h5 : b5 < 256) (h6 : b6 < 256) (h7 : b7 < 256) :
    b0 * 2 ^ 56 ||| b1 * 2 ^ 48 ||| b2 * 2 ^ 40 ||| b3 * 2 ^ 32 ||| b4 * 2 ^ 24 ||| b5 * 2 ^ 16 ||| b6 * 2 ^ 8 ||| b7 =
      b0 * 2 ^ 56 + b1 * 2 ^ 48 + b2 * 2 ^ 40 + b3 * 2 ^ 32 + b4 * 2 ^ 24 + b5 * 2 ^ 16 + b6 * 2 ^ 8 + b7 := by
  rw [ia_or_disj (b0 * 2 ^ 56) (b1 * 2 ^ 48) 56 (by omega) (by omega),
    ia_or_disj (b0 * 2 ^ 56 + b1 * 2 ^ 48) (b2 * 2 ^ 40) 48 (by omega) (by omega),
    ia_or_disj (b0 * 2 ^ 56 + b1 * 2 ^ 48 + b2 * 2 ^ 40) (b3 * 2 ^ 32) 40 (by omega) (by omega),
    ia_or_disj (b0 * 2 ^ 56 + b1 * 2 ^ 48 + b2 * 2 ^ 40 + b3 * 2 ^ 32) (b4 * 2 ^ 24) 32 (by omega) (by omega),
    ia_or_disj (b0 * 2 ^ 56 + b1 * 2 ^ 48 + b2 * 2 ^ 40 + b3 * 2 ^ 32 + b4 * 2 ^ 24) (b5 * 2 ^ 16) 24 (by omega) (by omega),
    ia_or_disj (b0 * 2 ^ 56 + b1 * 2 ^ 48 + b2 * 2 ^ 40 + b3 * 2 ^ 32 + b4 * 2 ^ 24 + b5 * 2 ^ 16) (b6 * 2 ^ 8) 16
      (by omega) (by omega),
    ia_or_disj (b0 * 2 ^ 56 + b1 * 2 ^ 48 + b2 * 2 ^ 40 + b3 * 2 ^ 32 + b4 * 2 ^ 24 + b5 * 2 ^ 16 + b6 * 2 ^ 8) b7 8
      (by omega) (by omega)]

/-- `be16`: the model's reversal of the two low-order bytes is `u16::swap_bytes` of the truncation, zero-extended -/
theorem ia_bswap16 (d : BitVec 64) : Interp.bswap d 2 = BitVec.setWidth 64 (bswap16 (BitVec.setWidth 16 d)) := by
  apply BitVec.eq_of_toNat_eq
  simp only [Interp.bswap, leBytes, leValue, List.reverse_cons, List.reverse_nil, List.nil_append, List.cons_append,
    bswap16, BitVec.toNat_setWidth, BitVec.toNat_or, BitVec.toNat_shiftLeft, BitVec.toNat_ushiftRight, BitVec.toNat_ofNat,
    Nat.shiftLeft_eq, Nat.shiftRight_eq_div_pow, Nat.reducePow]
  rw [show d.toNat % 65536 * 256 % 65536 = d.toNat % 256 * 2 ^ 8 from by omega,
    show d.toNat % 65536 / 256 = d.toNat / 256 % 256 from by omega, ia_or2 _ _ (by omega)]
  generalize d.toNat / 256 % 256 = b1
  omega

/-- `be32` -/
theorem ia_bswap32 (d : BitVec 64) : Interp.bswap d 4 = BitVec.setWidth 64 (bswap32 (BitVec.setWidth 32 d)) := by
  apply BitVec.eq_of_toNat_eq
  simp only [Interp.bswap, leBytes, leValue, List.reverse_cons, List.reverse_nil, List.nil_append, List.cons_append,
    bswap32, BitVec.toNat_setWidth, BitVec.toNat_or, BitVec.toNat_and, BitVec.toNat_shiftLeft, BitVec.toNat_ushiftRight,
    BitVec.toNat_ofNat, Nat.shiftLeft_eq, Nat.shiftRight_eq_div_pow, Nat.div_div_eq_div_mul, Nat.reducePow, Nat.reduceMul,
    BitVec.reduceToNat, BitVec.natCast_eq_ofNat, Nat.reduceMod]
  rw [ia_mask_lit _ 8 65280 (by decide), ia_mask_lit _ 8 65280 (by decide)]
  simp only [Nat.reducePow]
  rw [show d.toNat % 4294967296 * 16777216 % 4294967296 = d.toNat % 256 * 2 ^ 24 from by omega,
    show d.toNat % 4294967296 / 256 % 256 * 256 * 256 % 4294967296 = d.toNat / 256 % 256 * 2 ^ 16 from by omega,
    show d.toNat % 4294967296 / 256 / 256 % 256 * 256 = d.toNat / 65536 % 256 * 2 ^ 8 from by omega,
    show d.toNat % 4294967296 / 16777216 = d.toNat / 16777216 % 256 from by omega,
    ia_or4 _ _ _ _ (by omega) (by omega) (by omega)]
  generalize d.toNat / 256 % 256 = b1
  generalize d.toNat / 65536 % 256 = b2
  generalize d.toNat / 16777216 % 256 = b3
  omega

theorem ia_sum8 (b0 b1 b2 b3 b4 b5 b6 b7 : Nat) (h0 : b0 < 256) (h1 : b1 < 256) (h2 : b2 < 256) (h3 : b3 < 256)
    (h4 : b4 < 256) (h5 : b5 < 256) (h6 : b6 < 256) (h7 : b7 < 256) :
    (b7 + 256 * (b6 + 256 * (b5 + 256 * (b4 + 256 * (b3 + 256 * (b2 + 256 * (b1 + 256 * (b0 + 0)))))))) %
      18446744073709551616 =
      b0 * 2 ^ 56 + b1 * 2 ^ 48 + b2 * 2 ^ 40 + b3 * 2 ^ 32 + b4 * 2 ^ 24 + b5 * 2 ^ 16 + b6 * 2 ^ 8 + b7 := by
  omega

/-- `be64` -/
theorem ia_bswap64 (d : BitVec 64) : Interp.bswap d 8 = bswap64 d := by
  apply BitVec.eq_of_toNat_eq
  simp only [Interp.bswap, leBytes, leValue, List.reverse_cons, List.reverse_nil, List.nil_append, List.cons_append,
    bswap64, BitVec.toNat_or, BitVec.toNat_and, BitVec.toNat_shiftLeft, BitVec.toNat_ushiftRight, BitVec.toNat_ofNat,
    Nat.shiftLeft_eq, Nat.shiftRight_eq_div_pow, Nat.div_div_eq_div_mul, Nat.reducePow, Nat.reduceMul, BitVec.reduceToNat,
    BitVec.natCast_eq_ofNat, Nat.reduceMod]
  rw [ia_mask_lit _ 8 65280 (by decide), ia_mask_lit _ 16 16711680 (by decide), ia_mask_lit _ 24 4278190080 (by decide),
    ia_mask_lit _ 24 4278190080 (by decide), ia_mask_lit _ 16 16711680 (by decide), ia_mask_lit _ 8 65280 (by decide)]
  simp only [Nat.div_div_eq_div_mul, Nat.reducePow, Nat.reduceMul]
  have hlt := d.isLt
  generalize d.toNat = t at hlt ⊢
  rw [show t * 72057594037927936 % 18446744073709551616 = t % 256 * 2 ^ 56 from by omega,
    show t / 256 % 256 * 256 * 1099511627776 % 18446744073709551616 = t / 256 % 256 * 2 ^ 48 from by omega,
    show t / 65536 % 256 * 65536 * 16777216 % 18446744073709551616 = t / 65536 % 256 * 2 ^ 40 from by omega,
    show t / 16777216 % 256 * 16777216 * 256 % 18446744073709551616 = t / 16777216 % 256 * 2 ^ 32 from by omega,
    show t / 4294967296 % 256 * 16777216 = t / 4294967296 % 256 * 2 ^ 24 from rfl,
    show t / 1099511627776 % 256 * 65536 = t / 1099511627776 % 256 * 2 ^ 16 from rfl,
    show t / 281474976710656 % 256 * 256 = t / 281474976710656 % 256 * 2 ^ 8 from rfl,
    Nat.mod_eq_of_lt (show t / 72057594037927936 < 256 from by omega),
    ia_or8 _ _ _ _ _ _ _ _ (by omega) (by omega) (by omega) (by omega) (by omega) (by omega) (by omega)]
  exact ia_sum8 _ _ _ _ _ _ _ _ (by omega) (by omega) (by omega) (by omega) (by omega) (by omega) (by omega) (by omega)
theorem ex_4 (env : Env) (s : State) (dstb srcb : BitVec 8) (off : BitVec 16) (imm : BitVec 32) :
    Interp.exec env s ⟨4, dstb, srcb, off, imm⟩ = (rd s dstb.toNat fun d => wr s dstb.toNat (zx32 (lo32 d + imm))) := by rfl
theorem ex_12 (env : Env) (s : State) (dstb srcb : BitVec 8) (off : BitVec 16) (imm : BitVec 32) :
    Interp.exec env s ⟨12, dstb, srcb, off, imm⟩ = (rd s dstb.toNat fun d => rd s srcb.toNat fun x => wr s dstb.toNat (zx32 (lo32 d + lo32 x))) := by rfl
theorem ex_20 (env : Env) (s : State) (dstb srcb : BitVec 8) (off : BitVec 16) (imm : BitVec 32) :
    Interp.exec env s ⟨20, dstb, srcb, off, imm⟩ = (rd s dstb.toNat fun d => wr s dstb.toNat (zx32 (lo32 d - imm))) := by rfl
theorem ex_28 (env : Env) (s : State) (dstb srcb : BitVec 8) (off : BitVec 16) (imm : BitVec 32) :
    Interp.exec env s ⟨28, dstb, srcb, off, imm⟩ = (rd s dstb.toNat fun d => rd s srcb.toNat fun x => wr s dstb.toNat (zx32 (lo32 d - lo32 x))) := by rfl
theorem ex_36 (env : Env) (s : State) (dstb srcb : BitVec 8) (off : BitVec 16) (imm : BitVec 32) :
    Interp.exec env s ⟨36, dstb, srcb, off, imm⟩ = (rd s dstb.toNat fun d => wr s dstb.toNat (zx32 (lo32 d * imm))) := by rfl
theorem ex_44 (env : Env) (s : State) (dstb srcb : BitVec 8) (off : BitVec 16) (imm : BitVec 32) :
    Interp.exec env s ⟨44, dstb, srcb, off, imm⟩ = (rd s dstb.toNat fun d => rd s srcb.toNat fun x => wr s dstb.toNat (zx32 (lo32 d * lo32 x))) := by rfl
theorem ex_52 (env : Env) (s : State) (dstb srcb : BitVec 8) (off : BitVec 16) (imm : BitVec 32) :
    Interp.exec env s ⟨52, dstb, srcb, off, imm⟩ = (if imm = 0 then wr s dstb.toNat 0 else rd s dstb.toNat fun d => wr s dstb.toNat (zx32 (lo32 d / imm))) := by rfl
theorem ex_60 (env : Env) (s : State) (dstb srcb : BitVec 8) (off : BitVec 16) (imm : BitVec 32) :
    Interp.exec env s ⟨60, dstb, srcb, off, imm⟩ = (rd s srcb.toNat fun x => if lo32 x = 0 then wr s dstb.toNat 0 else rd s dstb.toNat fun d => wr s dstb.toNat (zx32 (lo32 d / lo32 x))) := by rfl
theorem ex_68 (env : Env) (s : State) (dstb srcb : BitVec 8) (off : BitVec 16) (imm : BitVec 32) :
    Interp.exec env s ⟨68, dstb, srcb, off, imm⟩ = (rd s dstb.toNat fun d => wr s dstb.toNat (zx32 (lo32 d ||| imm))) := by rfl
theorem ex_76 (env : Env) (s : State) (dstb srcb : BitVec 8) (off : BitVec 16) (imm : BitVec 32) :
    Interp.exec env s ⟨76, dstb, srcb, off, imm⟩ = (rd s dstb.toNat fun d => rd s srcb.toNat fun x => wr s dstb.toNat (zx32 (lo32 d ||| lo32 x))) := by rfl
theorem ex_84 (env : Env) (s : State) (dstb srcb : BitVec 8) (off : BitVec 16) (imm : BitVec 32) :
    Interp.exec env s ⟨84, dstb, srcb, off, imm⟩ = (rd s dstb.toNat fun d => wr s dstb.toNat (zx32 (lo32 d &&& imm))) := by rfl
theorem ex_92 (env : Env) (s : State) (dstb srcb : BitVec 8) (off : BitVec 16) (imm : BitVec 32) :
    Interp.exec env s ⟨92, dstb, srcb, off, imm⟩ = (rd s dstb.toNat fun d => rd s srcb.toNat fun x => wr s dstb.toNat (zx32 (lo32 d &&& lo32 x))) := by rfl
theorem ex_100 (env : Env) (s : State) (dstb srcb : BitVec 8) (off : BitVec 16) (imm : BitVec 32) :
    Interp.exec env s ⟨100, dstb, srcb, off, imm⟩ = (rd s dstb.toNat fun d => wr s dstb.toNat (zx32 (lo32 d <<< (imm.toNat % 32)))) := by rfl
theorem ex_108 (env : Env) (s : State) (dstb srcb : BitVec 8) (off : BitVec 16) (imm : BitVec 32) :
    Interp.exec env s ⟨108, dstb, srcb, off, imm⟩ = (rd s dstb.toNat fun d => rd s srcb.toNat fun x => wr s dstb.toNat (zx32 (lo32 d <<< ((lo32 x).toNat % 32)))) := by rfl
theorem ex_116 (env : Env) (s : State) (dstb srcb : BitVec 8) (off : BitVec 16) (imm : BitVec 32) :
    Interp.exec env s ⟨116, dstb, srcb, off, imm⟩ = (rd s dstb.toNat fun d => wr s dstb.toNat (zx32 (lo32 d >>> (imm.toNat % 32)))) := by rfl
theorem ex_124 (env : Env) (s : State) (dstb srcb : BitVec 8) (off : BitVec 16) (imm : BitVec 32) :
    Interp.exec env s ⟨124, dstb, srcb, off, imm⟩ = (rd s dstb.toNat fun d => rd s srcb.toNat fun x => wr s dstb.toNat (zx32 (lo32 d >>> ((lo32 x).toNat % 32)))) := by rfl
theorem ex_132 (env : Env) (s : State) (dstb srcb : BitVec 8) (off : BitVec 16) (imm : BitVec 32) :
    Interp.exec env s ⟨132, dstb, srcb, off, imm⟩ = (rd s dstb.toNat fun d => wr s dstb.toNat (sx32 (- lo32 d) &&& 0xffffffff#64)) := by rfl
theorem ex_148 (env : Env) (s : State) (dstb srcb : BitVec 8) (off : BitVec 16) (imm : BitVec 32) :
    Interp.exec env s ⟨148, dstb, srcb, off, imm⟩ = (if imm = 0 then .next s else rd s dstb.toNat fun d => wr s dstb.toNat (zx32 (lo32 d % imm))) := by rfl
theorem ex_156 (env : Env) (s : State) (dstb srcb : BitVec 8) (off : BitVec 16) (imm : BitVec 32) :
    Interp.exec env s ⟨156, dstb, srcb, off, imm⟩ = (rd s srcb.toNat fun x => if lo32 x = 0 then .next s else rd s dstb.toNat fun d => wr s dstb.toNat (zx32 (lo32 d % lo32 x))) := by rfl
theorem ex_164 (env : Env) (s : State) (dstb srcb : BitVec 8) (off : BitVec 16) (imm : BitVec 32) :
    Interp.exec env s ⟨164, dstb, srcb, off, imm⟩ = (rd s dstb.toNat fun d => wr s dstb.toNat (zx32 (lo32 d ^^^ imm))) := by rfl
theorem ex_172 (env : Env) (s : State) (dstb srcb : BitVec 8) (off : BitVec 16) (imm : BitVec 32) :
    Interp.exec env s ⟨172, dstb, srcb, off, imm⟩ = (rd s dstb.toNat fun d => rd s srcb.toNat fun x => wr s dstb.toNat (zx32 (lo32 d ^^^ lo32 x))) := by rfl
theorem ex_180 (env : Env) (s : State) (dstb srcb : BitVec 8) (off : BitVec 16) (imm : BitVec 32) :
    Interp.exec env s ⟨180, dstb, srcb, off, imm⟩ = (wr s dstb.toNat (zx32 imm)) := by rfl
theorem ex_188 (env : Env) (s : State) (dstb srcb : BitVec 8) (off : BitVec 16) (imm : BitVec 32) :
    Interp.exec env s ⟨188, dstb, srcb, off, imm⟩ = (rd s srcb.toNat fun x => wr s dstb.toNat (zx32 (lo32 x))) := by rfl
theorem ex_196 (env : Env) (s : State) (dstb srcb : BitVec 8) (off : BitVec 16) (imm : BitVec 32) :
    Interp.exec env s ⟨196, dstb, srcb, off, imm⟩ = (rd s dstb.toNat fun d => wr s dstb.toNat (sx32 ((lo32 d).sshiftRight (imm.toNat % 32)) &&& 0xffffffff#64)) := by rfl
theorem ex_204 (env : Env) (s : State) (dstb srcb : BitVec 8) (off : BitVec 16) (imm : BitVec 32) :
    Interp.exec env s ⟨204, dstb, srcb, off, imm⟩ = (rd s dstb.toNat fun d => rd s srcb.toNat fun x => wr s dstb.toNat (sx32 ((lo32 d).sshiftRight ((lo32 x).toNat % 32)) &&& 0xffffffff#64)) := by rfl
theorem ex_212 (env : Env) (s : State) (dstb srcb : BitVec 8) (off : BitVec 16) (imm : BitVec 32) :
    Interp.exec env s ⟨212, dstb, srcb, off, imm⟩ = (rd s dstb.toNat fun d => if imm = 16 then wr s dstb.toNat ((d.setWidth 16).setWidth 64) else if imm = 32 then wr s dstb.toNat (zx32 (lo32 d)) else if imm = 64 then wr s dstb.toNat d else .panic) := by rfl
theorem ex_220 (env : Env) (s : State) (dstb srcb : BitVec 8) (off : BitVec 16) (imm : BitVec 32) :
    Interp.exec env s ⟨220, dstb, srcb, off, imm⟩ = (rd s dstb.toNat fun d => if imm = 16 then wr s dstb.toNat (bswap d 2) else if imm = 32 then wr s dstb.toNat (bswap d 4) else if imm = 64 then wr s dstb.toNat (bswap d 8) else .panic) := by rfl
theorem ex_7 (env : Env) (s : State) (dstb srcb : BitVec 8) (off : BitVec 16) (imm : BitVec 32) :
    Interp.exec env s ⟨7, dstb, srcb, off, imm⟩ = (rd s dstb.toNat fun d => wr s dstb.toNat (d + (sx32 imm))) := by rfl
theorem ex_15 (env : Env) (s : State) (dstb srcb : BitVec 8) (off : BitVec 16) (imm : BitVec 32) :
    Interp.exec env s ⟨15, dstb, srcb, off, imm⟩ = (rd s dstb.toNat fun d => rd s srcb.toNat fun x => wr s dstb.toNat (d + x)) := by rfl
theorem ex_23 (env : Env) (s : State) (dstb srcb : BitVec 8) (off : BitVec 16) (imm : BitVec 32) :
    Interp.exec env s ⟨23, dstb, srcb, off, imm⟩ = (rd s dstb.toNat fun d => wr s dstb.toNat (d - (sx32 imm))) := by rfl
theorem ex_31 (env : Env) (s : State) (dstb srcb : BitVec 8) (off : BitVec 16) (imm : BitVec 32) :
    Interp.exec env s ⟨31, dstb, srcb, off, imm⟩ = (rd s dstb.toNat fun d => rd s srcb.toNat fun x => wr s dstb.toNat (d - x)) := by rfl
theorem ex_39 (env : Env) (s : State) (dstb srcb : BitVec 8) (off : BitVec 16) (imm : BitVec 32) :
    Interp.exec env s ⟨39, dstb, srcb, off, imm⟩ = (rd s dstb.toNat fun d => wr s dstb.toNat (d * (sx32 imm))) := by rfl
theorem ex_47 (env : Env) (s : State) (dstb srcb : BitVec 8) (off : BitVec 16) (imm : BitVec 32) :
    Interp.exec env s ⟨47, dstb, srcb, off, imm⟩ = (rd s dstb.toNat fun d => rd s srcb.toNat fun x => wr s dstb.toNat (d * x)) := by rfl
theorem ex_55 (env : Env) (s : State) (dstb srcb : BitVec 8) (off : BitVec 16) (imm : BitVec 32) :
    Interp.exec env s ⟨55, dstb, srcb, off, imm⟩ = (if imm = 0 then wr s dstb.toNat 0 else rd s dstb.toNat fun d => wr s dstb.toNat (d / (sx32 imm))) := by rfl
theorem ex_63 (env : Env) (s : State) (dstb srcb : BitVec 8) (off : BitVec 16) (imm : BitVec 32) :
    Interp.exec env s ⟨63, dstb, srcb, off, imm⟩ = (rd s srcb.toNat fun x => if x = 0 then wr s dstb.toNat 0 else rd s dstb.toNat fun d => wr s dstb.toNat (d / x)) := by rfl
theorem ex_71 (env : Env) (s : State) (dstb srcb : BitVec 8) (off : BitVec 16) (imm : BitVec 32) :
    Interp.exec env s ⟨71, dstb, srcb, off, imm⟩ = (rd s dstb.toNat fun d => wr s dstb.toNat (d ||| (sx32 imm))) := by rfl
theorem ex_79 (env : Env) (s : State) (dstb srcb : BitVec 8) (off : BitVec 16) (imm : BitVec 32) :
    Interp.exec env s ⟨79, dstb, srcb, off, imm⟩ = (rd s dstb.toNat fun d => rd s srcb.toNat fun x => wr s dstb.toNat (d ||| x)) := by rfl
theorem ex_87 (env : Env) (s : State) (dstb srcb : BitVec 8) (off : BitVec 16) (imm : BitVec 32) :
    Interp.exec env s ⟨87, dstb, srcb, off, imm⟩ = (rd s dstb.toNat fun d => wr s dstb.toNat (d &&& (sx32 imm))) := by rfl
theorem ex_95 (env : Env) (s : State) (dstb srcb : BitVec 8) (off : BitVec 16) (imm : BitVec 32) :
    Interp.exec env s ⟨95, dstb, srcb, off, imm⟩ = (rd s dstb.toNat fun d => rd s srcb.toNat fun x => wr s dstb.toNat (d &&& x)) := by rfl
theorem ex_103 (env : Env) (s : State) (dstb srcb : BitVec 8) (off : BitVec 16) (imm : BitVec 32) :
    Interp.exec env s ⟨103, dstb, srcb, off, imm⟩ = (rd s dstb.toNat fun d => wr s dstb.toNat (d <<< ((sx32 imm).toNat % 64))) := by rfl
theorem ex_111 (env : Env) (s : State) (dstb srcb : BitVec 8) (off : BitVec 16) (imm : BitVec 32) :
    Interp.exec env s ⟨111, dstb, srcb, off, imm⟩ = (rd s dstb.toNat fun d => rd s srcb.toNat fun x => wr s dstb.toNat (d <<< (x.toNat % 64))) := by rfl
theorem ex_119 (env : Env) (s : State) (dstb srcb : BitVec 8) (off : BitVec 16) (imm : BitVec 32) :
    Interp.exec env s ⟨119, dstb, srcb, off, imm⟩ = (rd s dstb.toNat fun d => wr s dstb.toNat (d >>> ((sx32 imm).toNat % 64))) := by rfl
theorem ex_127 (env : Env) (s : State) (dstb srcb : BitVec 8) (off : BitVec 16) (imm : BitVec 32) :
    Interp.exec env s ⟨127, dstb, srcb, off, imm⟩ = (rd s dstb.toNat fun d => rd s srcb.toNat fun x => wr s dstb.toNat (d >>> (x.toNat % 64))) := by rfl
theorem ex_135 (env : Env) (s : State) (dstb srcb : BitVec 8) (off : BitVec 16) (imm : BitVec 32) :
    Interp.exec env s ⟨135, dstb, srcb, off, imm⟩ = (rd s dstb.toNat fun d => wr s dstb.toNat (- d)) := by rfl
theorem ex_151 (env : Env) (s : State) (dstb srcb : BitVec 8) (off : BitVec 16) (imm : BitVec 32) :
    Interp.exec env s ⟨151, dstb, srcb, off, imm⟩ = (if imm = 0 then .next s else rd s dstb.toNat fun d => wr s dstb.toNat (d % (sx32 imm))) := by rfl
theorem ex_159 (env : Env) (s : State) (dstb srcb : BitVec 8) (off : BitVec 16) (imm : BitVec 32) :
    Interp.exec env s ⟨159, dstb, srcb, off, imm⟩ = (rd s srcb.toNat fun x => if x = 0 then .next s else rd s dstb.toNat fun d => wr s dstb.toNat (d % x)) := by rfl
theorem ex_167 (env : Env) (s : State) (dstb srcb : BitVec 8) (off : BitVec 16) (imm : BitVec 32) :
    Interp.exec env s ⟨167, dstb, srcb, off, imm⟩ = (rd s dstb.toNat fun d => wr s dstb.toNat (d ^^^ (sx32 imm))) := by rfl
theorem ex_175 (env : Env) (s : State) (dstb srcb : BitVec 8) (off : BitVec 16) (imm : BitVec 32) :
    Interp.exec env s ⟨175, dstb, srcb, off, imm⟩ = (rd s dstb.toNat fun d => rd s srcb.toNat fun x => wr s dstb.toNat (d ^^^ x)) := by rfl
theorem ex_183 (env : Env) (s : State) (dstb srcb : BitVec 8) (off : BitVec 16) (imm : BitVec 32) :
    Interp.exec env s ⟨183, dstb, srcb, off, imm⟩ = (wr s dstb.toNat (sx32 imm)) := by rfl
theorem ex_191 (env : Env) (s : State) (dstb srcb : BitVec 8) (off : BitVec 16) (imm : BitVec 32) :
    Interp.exec env s ⟨191, dstb, srcb, off, imm⟩ = (rd s srcb.toNat fun x => wr s dstb.toNat x) := by rfl
theorem ex_199 (env : Env) (s : State) (dstb srcb : BitVec 8) (off : BitVec 16) (imm : BitVec 32) :
    Interp.exec env s ⟨199, dstb, srcb, off, imm⟩ = (rd s dstb.toNat fun d => wr s dstb.toNat (d.sshiftRight ((sx32 imm).toNat % 64))) := by rfl
theorem ex_207 (env : Env) (s : State) (dstb srcb : BitVec 8) (off : BitVec 16) (imm : BitVec 32) :
    Interp.exec env s ⟨207, dstb, srcb, off, imm⟩ = (rd s dstb.toNat fun d => rd s srcb.toNat fun x => wr s dstb.toNat (d.sshiftRight (x.toNat % 64))) := by rfl
theorem ex_5 (env : Env) (s : State) (dstb srcb : BitVec 8) (off : BitVec 16) (imm : BitVec 32) :
    Interp.exec env s ⟨5, dstb, srcb, off, imm⟩ = (branch s off true) := by rfl
theorem ex_21 (env : Env) (s : State) (dstb srcb : BitVec 8) (off : BitVec 16) (imm : BitVec 32) :
    Interp.exec env s ⟨21, dstb, srcb, off, imm⟩ = (rd s dstb.toNat fun d => branch s off (d == (zx32 imm))) := by rfl
theorem ex_29 (env : Env) (s : State) (dstb srcb : BitVec 8) (off : BitVec 16) (imm : BitVec 32) :
    Interp.exec env s ⟨29, dstb, srcb, off, imm⟩ = (rd s dstb.toNat fun d => rd s srcb.toNat fun x => branch s off (d == x)) := by rfl
theorem ex_37 (env : Env) (s : State) (dstb srcb : BitVec 8) (off : BitVec 16) (imm : BitVec 32) :
    Interp.exec env s ⟨37, dstb, srcb, off, imm⟩ = (rd s dstb.toNat fun d => branch s off ((zx32 imm).ult d)) := by rfl
theorem ex_45 (env : Env) (s : State) (dstb srcb : BitVec 8) (off : BitVec 16) (imm : BitVec 32) :
    Interp.exec env s ⟨45, dstb, srcb, off, imm⟩ = (rd s dstb.toNat fun d => rd s srcb.toNat fun x => branch s off (x.ult d)) := by rfl
theorem ex_53 (env : Env) (s : State) (dstb srcb : BitVec 8) (off : BitVec 16) (imm : BitVec 32) :
    Interp.exec env s ⟨53, dstb, srcb, off, imm⟩ = (rd s dstb.toNat fun d => branch s off ((zx32 imm).ule d)) := by rfl
theorem ex_61 (env : Env) (s : State) (dstb srcb : BitVec 8) (off : BitVec 16) (imm : BitVec 32) :
    Interp.exec env s ⟨61, dstb, srcb, off, imm⟩ = (rd s dstb.toNat fun d => rd s srcb.toNat fun x => branch s off (x.ule d)) := by rfl
theorem ex_165 (env : Env) (s : State) (dstb srcb : BitVec 8) (off : BitVec 16) (imm : BitVec 32) :
    Interp.exec env s ⟨165, dstb, srcb, off, imm⟩ = (rd s dstb.toNat fun d => branch s off (d.ult (zx32 imm))) := by rfl
theorem ex_173 (env : Env) (s : State) (dstb srcb : BitVec 8) (off : BitVec 16) (imm : BitVec 32) :
    Interp.exec env s ⟨173, dstb, srcb, off, imm⟩ = (rd s dstb.toNat fun d => rd s srcb.toNat fun x => branch s off (d.ult x)) := by rfl
theorem ex_181 (env : Env) (s : State) (dstb srcb : BitVec 8) (off : BitVec 16) (imm : BitVec 32) :
    Interp.exec env s ⟨181, dstb, srcb, off, imm⟩ = (rd s dstb.toNat fun d => branch s off (d.ule (zx32 imm))) := by rfl
theorem ex_189 (env : Env) (s : State) (dstb srcb : BitVec 8) (off : BitVec 16) (imm : BitVec 32) :
    Interp.exec env s ⟨189, dstb, srcb, off, imm⟩ = (rd s dstb.toNat fun d => rd s srcb.toNat fun x => branch s off (d.ule x)) := by rfl
theorem ex_69 (env : Env) (s : State) (dstb srcb : BitVec 8) (off : BitVec 16) (imm : BitVec 32) :
    Interp.exec env s ⟨69, dstb, srcb, off, imm⟩ = (rd s dstb.toNat fun d => branch s off (d &&& (sx32 imm) != 0)) := by rfl
theorem ex_77 (env : Env) (s : State) (dstb srcb : BitVec 8) (off : BitVec 16) (imm : BitVec 32) :
    Interp.exec env s ⟨77, dstb, srcb, off, imm⟩ = (rd s dstb.toNat fun d => rd s srcb.toNat fun x => branch s off (d &&& x != 0)) := by rfl
theorem ex_85 (env : Env) (s : State) (dstb srcb : BitVec 8) (off : BitVec 16) (imm : BitVec 32) :
    Interp.exec env s ⟨85, dstb, srcb, off, imm⟩ = (rd s dstb.toNat fun d => branch s off (d != (zx32 imm))) := by rfl
theorem ex_93 (env : Env) (s : State) (dstb srcb : BitVec 8) (off : BitVec 16) (imm : BitVec 32) :
    Interp.exec env s ⟨93, dstb, srcb, off, imm⟩ = (rd s dstb.toNat fun d => rd s srcb.toNat fun x => branch s off (d != x)) := by rfl
theorem ex_101 (env : Env) (s : State) (dstb srcb : BitVec 8) (off : BitVec 16) (imm : BitVec 32) :
    Interp.exec env s ⟨101, dstb, srcb, off, imm⟩ = (rd s dstb.toNat fun d => branch s off ((sx32 imm).slt d)) := by rfl
theorem ex_109 (env : Env) (s : State) (dstb srcb : BitVec 8) (off : BitVec 16) (imm : BitVec 32) :
    Interp.exec env s ⟨109, dstb, srcb, off, imm⟩ = (rd s dstb.toNat fun d => rd s srcb.toNat fun x => branch s off (x.slt d)) := by rfl
theorem ex_117 (env : Env) (s : State) (dstb srcb : BitVec 8) (off : BitVec 16) (imm : BitVec 32) :
    Interp.exec env s ⟨117, dstb, srcb, off, imm⟩ = (rd s dstb.toNat fun d => branch s off ((sx32 imm).sle d)) := by rfl
theorem ex_125 (env : Env) (s : State) (dstb srcb : BitVec 8) (off : BitVec 16) (imm : BitVec 32) :
    Interp.exec env s ⟨125, dstb, srcb, off, imm⟩ = (rd s dstb.toNat fun d => rd s srcb.toNat fun x => branch s off (x.sle d)) := by rfl
theorem ex_197 (env : Env) (s : State) (dstb srcb : BitVec 8) (off : BitVec 16) (imm : BitVec 32) :
    Interp.exec env s ⟨197, dstb, srcb, off, imm⟩ = (rd s dstb.toNat fun d => branch s off (d.slt (sx32 imm))) := by rfl
theorem ex_205 (env : Env) (s : State) (dstb srcb : BitVec 8) (off : BitVec 16) (imm : BitVec 32) :
    Interp.exec env s ⟨205, dstb, srcb, off, imm⟩ = (rd s dstb.toNat fun d => rd s srcb.toNat fun x => branch s off (d.slt x)) := by rfl
theorem ex_213 (env : Env) (s : State) (dstb srcb : BitVec 8) (off : BitVec 16) (imm : BitVec 32) :
    Interp.exec env s ⟨213, dstb, srcb, off, imm⟩ = (rd s dstb.toNat fun d => branch s off (d.sle (sx32 imm))) := by rfl
theorem ex_221 (env : Env) (s : State) (dstb srcb : BitVec 8) (off : BitVec 16) (imm : BitVec 32) :
    Interp.exec env s ⟨221, dstb, srcb, off, imm⟩ = (rd s dstb.toNat fun d => rd s srcb.toNat fun x => branch s off (d.sle x)) := by rfl
theorem ex_22 (env : Env) (s : State) (dstb srcb : BitVec 8) (off : BitVec 16) (imm : BitVec 32) :
    Interp.exec env s ⟨22, dstb, srcb, off, imm⟩ = (rd s dstb.toNat fun d => branch s off (lo32 d == imm)) := by rfl
theorem ex_30 (env : Env) (s : State) (dstb srcb : BitVec 8) (off : BitVec 16) (imm : BitVec 32) :
    Interp.exec env s ⟨30, dstb, srcb, off, imm⟩ = (rd s dstb.toNat fun d => rd s srcb.toNat fun x => branch s off (lo32 d == lo32 x)) := by rfl
theorem ex_38 (env : Env) (s : State) (dstb srcb : BitVec 8) (off : BitVec 16) (imm : BitVec 32) :
    Interp.exec env s ⟨38, dstb, srcb, off, imm⟩ = (rd s dstb.toNat fun d => branch s off (imm.ult (lo32 d))) := by rfl
theorem ex_46 (env : Env) (s : State) (dstb srcb : BitVec 8) (off : BitVec 16) (imm : BitVec 32) :
    Interp.exec env s ⟨46, dstb, srcb, off, imm⟩ = (rd s dstb.toNat fun d => rd s srcb.toNat fun x => branch s off ((lo32 x).ult (lo32 d))) := by rfl
theorem ex_54 (env : Env) (s : State) (dstb srcb : BitVec 8) (off : BitVec 16) (imm : BitVec 32) :
    Interp.exec env s ⟨54, dstb, srcb, off, imm⟩ = (rd s dstb.toNat fun d => branch s off (imm.ule (lo32 d))) := by rfl
theorem ex_62 (env : Env) (s : State) (dstb srcb : BitVec 8) (off : BitVec 16) (imm : BitVec 32) :
    Interp.exec env s ⟨62, dstb, srcb, off, imm⟩ = (rd s dstb.toNat fun d => rd s srcb.toNat fun x => branch s off ((lo32 x).ule (lo32 d))) := by rfl
theorem ex_166 (env : Env) (s : State) (dstb srcb : BitVec 8) (off : BitVec 16) (imm : BitVec 32) :
    Interp.exec env s ⟨166, dstb, srcb, off, imm⟩ = (rd s dstb.toNat fun d => branch s off ((lo32 d).ult imm)) := by rfl
theorem ex_174 (env : Env) (s : State) (dstb srcb : BitVec 8) (off : BitVec 16) (imm : BitVec 32) :
    Interp.exec env s ⟨174, dstb, srcb, off, imm⟩ = (rd s dstb.toNat fun d => rd s srcb.toNat fun x => branch s off ((lo32 d).ult (lo32 x))) := by rfl
theorem ex_182 (env : Env) (s : State) (dstb srcb : BitVec 8) (off : BitVec 16) (imm : BitVec 32) :
    Interp.exec env s ⟨182, dstb, srcb, off, imm⟩ = (rd s dstb.toNat fun d => branch s off ((lo32 d).ule imm)) := by rfl
theorem ex_190 (env : Env) (s : State) (dstb srcb : BitVec 8) (off : BitVec 16) (imm : BitVec 32) :
    Interp.exec env s ⟨190, dstb, srcb, off, imm⟩ = (rd s dstb.toNat fun d => rd s srcb.toNat fun x => branch s off ((lo32 d).ule (lo32 x))) := by rfl
theorem ex_70 (env : Env) (s : State) (dstb srcb : BitVec 8) (off : BitVec 16) (imm : BitVec 32) :
    Interp.exec env s ⟨70, dstb, srcb, off, imm⟩ = (rd s dstb.toNat fun d => branch s off (lo32 d &&& imm != 0)) := by rfl
theorem ex_78 (env : Env) (s : State) (dstb srcb : BitVec 8) (off : BitVec 16) (imm : BitVec 32) :
    Interp.exec env s ⟨78, dstb, srcb, off, imm⟩ = (rd s dstb.toNat fun d => rd s srcb.toNat fun x => branch s off (lo32 d &&& lo32 x != 0)) := by rfl
theorem ex_86 (env : Env) (s : State) (dstb srcb : BitVec 8) (off : BitVec 16) (imm : BitVec 32) :
    Interp.exec env s ⟨86, dstb, srcb, off, imm⟩ = (rd s dstb.toNat fun d => branch s off (lo32 d != imm)) := by rfl
theorem ex_94 (env : Env) (s : State) (dstb srcb : BitVec 8) (off : BitVec 16) (imm : BitVec 32) :
    Interp.exec env s ⟨94, dstb, srcb, off, imm⟩ = (rd s dstb.toNat fun d => rd s srcb.toNat fun x => branch s off (lo32 d != lo32 x)) := by rfl
theorem ex_102 (env : Env) (s : State) (dstb srcb : BitVec 8) (off : BitVec 16) (imm : BitVec 32) :
    Interp.exec env s ⟨102, dstb, srcb, off, imm⟩ = (rd s dstb.toNat fun d => branch s off (imm.slt (lo32 d))) := by rfl
theorem ex_110 (env : Env) (s : State) (dstb srcb : BitVec 8) (off : BitVec 16) (imm : BitVec 32) :
    Interp.exec env s ⟨110, dstb, srcb, off, imm⟩ = (rd s dstb.toNat fun d => rd s srcb.toNat fun x => branch s off ((lo32 x).slt (lo32 d))) := by rfl
theorem ex_118 (env : Env) (s : State) (dstb srcb : BitVec 8) (off : BitVec 16) (imm : BitVec 32) :
    Interp.exec env s ⟨118, dstb, srcb, off, imm⟩ = (rd s dstb.toNat fun d => branch s off (imm.sle (lo32 d))) := by rfl
theorem ex_126 (env : Env) (s : State) (dstb srcb : BitVec 8) (off : BitVec 16) (imm : BitVec 32) :
    Interp.exec env s ⟨126, dstb, srcb, off, imm⟩ = (rd s dstb.toNat fun d => rd s srcb.toNat fun x => branch s off ((lo32 x).sle (lo32 d))) := by rfl
theorem ex_198 (env : Env) (s : State) (dstb srcb : BitVec 8) (off : BitVec 16) (imm : BitVec 32) :
    Interp.exec env s ⟨198, dstb, srcb, off, imm⟩ = (rd s dstb.toNat fun d => branch s off ((lo32 d).slt imm)) := by rfl
theorem ex_206 (env : Env) (s : State) (dstb srcb : BitVec 8) (off : BitVec 16) (imm : BitVec 32) :
    Interp.exec env s ⟨206, dstb, srcb, off, imm⟩ = (rd s dstb.toNat fun d => rd s srcb.toNat fun x => branch s off ((lo32 d).slt (lo32 x))) := by rfl
theorem ex_214 (env : Env) (s : State) (dstb srcb : BitVec 8) (off : BitVec 16) (imm : BitVec 32) :
    Interp.exec env s ⟨214, dstb, srcb, off, imm⟩ = (rd s dstb.toNat fun d => branch s off ((lo32 d).sle imm)) := by rfl
theorem ex_222 (env : Env) (s : State) (dstb srcb : BitVec 8) (off : BitVec 16) (imm : BitVec 32) :
    Interp.exec env s ⟨222, dstb, srcb, off, imm⟩ = (rd s dstb.toNat fun d => rd s srcb.toNat fun x => branch s off ((lo32 d).sle (lo32 x))) := by rfl

/-! ## the translated arm for each opcode -/

theorem arm_4 (d s : BitVec 64) (imm : BitVec 32) :
    aluArm 4 d s imm = (some (some (BitVec.setWidth 64 ((BitVec.setWidth 32 d) + imm)))) := rfl
theorem arm_12 (d s : BitVec 64) (imm : BitVec 32) :
    aluArm 12 d s imm = (some (some (BitVec.setWidth 64 ((BitVec.setWidth 32 d) + (BitVec.setWidth 32 s))))) := rfl
theorem arm_20 (d s : BitVec 64) (imm : BitVec 32) :
    aluArm 20 d s imm = (some (some (BitVec.setWidth 64 ((BitVec.setWidth 32 d) - imm)))) := rfl
theorem arm_28 (d s : BitVec 64) (imm : BitVec 32) :
    aluArm 28 d s imm = (some (some (BitVec.setWidth 64 ((BitVec.setWidth 32 d) - (BitVec.setWidth 32 s))))) := rfl
theorem arm_36 (d s : BitVec 64) (imm : BitVec 32) :
    aluArm 36 d s imm = (some (some (BitVec.setWidth 64 ((BitVec.setWidth 32 d) * imm)))) := rfl
theorem arm_44 (d s : BitVec 64) (imm : BitVec 32) :
    aluArm 44 d s imm = (some (some (BitVec.setWidth 64 ((BitVec.setWidth 32 d) * (BitVec.setWidth 32 s))))) := rfl
theorem arm_52 (d s : BitVec 64) (imm : BitVec 32) :
    aluArm 52 d s imm = (if (imm == (0 : BitVec 32)) then (some (some (0 : BitVec 64))) else (some (some (BitVec.setWidth 64 ((BitVec.setWidth 32 d) / imm))))) := rfl
theorem arm_60 (d s : BitVec 64) (imm : BitVec 32) :
    aluArm 60 d s imm = (if ((BitVec.setWidth 32 s) == (0 : BitVec 32)) then (some (some (0 : BitVec 64))) else (some (some (BitVec.setWidth 64 ((BitVec.setWidth 32 d) / (BitVec.setWidth 32 s)))))) := rfl
theorem arm_68 (d s : BitVec 64) (imm : BitVec 32) :
    aluArm 68 d s imm = (some (some (BitVec.setWidth 64 ((BitVec.setWidth 32 d) ||| imm)))) := rfl
theorem arm_76 (d s : BitVec 64) (imm : BitVec 32) :
    aluArm 76 d s imm = (some (some (BitVec.setWidth 64 ((BitVec.setWidth 32 d) ||| (BitVec.setWidth 32 s))))) := rfl
theorem arm_84 (d s : BitVec 64) (imm : BitVec 32) :
    aluArm 84 d s imm = (some (some (BitVec.setWidth 64 ((BitVec.setWidth 32 d) &&& imm)))) := rfl
theorem arm_92 (d s : BitVec 64) (imm : BitVec 32) :
    aluArm 92 d s imm = (some (some (BitVec.setWidth 64 ((BitVec.setWidth 32 d) &&& (BitVec.setWidth 32 s))))) := rfl
theorem arm_100 (d s : BitVec 64) (imm : BitVec 32) :
    aluArm 100 d s imm = (some (some (BitVec.setWidth 64 ((BitVec.setWidth 32 d) <<< (BitVec.toNat imm % 32))))) := rfl
theorem arm_108 (d s : BitVec 64) (imm : BitVec 32) :
    aluArm 108 d s imm = (some (some (BitVec.setWidth 64 ((BitVec.setWidth 32 d) <<< (BitVec.toNat (BitVec.setWidth 32 s) % 32))))) := rfl
theorem arm_116 (d s : BitVec 64) (imm : BitVec 32) :
    aluArm 116 d s imm = (some (some (BitVec.setWidth 64 ((BitVec.setWidth 32 d) >>> (BitVec.toNat imm % 32))))) := rfl
theorem arm_124 (d s : BitVec 64) (imm : BitVec 32) :
    aluArm 124 d s imm = (some (some (BitVec.setWidth 64 ((BitVec.setWidth 32 d) >>> (BitVec.toNat (BitVec.setWidth 32 s) % 32))))) := rfl
theorem arm_132 (d s : BitVec 64) (imm : BitVec 32) :
    aluArm 132 d s imm = (some (some (let d := (BitVec.signExtend 64 (-(BitVec.setWidth 32 d))); (d &&& (0xffffffff : BitVec 64))))) := rfl
theorem arm_148 (d s : BitVec 64) (imm : BitVec 32) :
    aluArm 148 d s imm = (if (imm == (0 : BitVec 32)) then (some (none)) else (some (some (BitVec.setWidth 64 ((BitVec.setWidth 32 d) % imm))))) := rfl
theorem arm_156 (d s : BitVec 64) (imm : BitVec 32) :
    aluArm 156 d s imm = (if ((BitVec.setWidth 32 s) == (0 : BitVec 32)) then (some (none)) else (some (some (BitVec.setWidth 64 ((BitVec.setWidth 32 d) % (BitVec.setWidth 32 s)))))) := rfl
theorem arm_164 (d s : BitVec 64) (imm : BitVec 32) :
    aluArm 164 d s imm = (some (some (BitVec.setWidth 64 ((BitVec.setWidth 32 d) ^^^ imm)))) := rfl
theorem arm_172 (d s : BitVec 64) (imm : BitVec 32) :
    aluArm 172 d s imm = (some (some (BitVec.setWidth 64 ((BitVec.setWidth 32 d) ^^^ (BitVec.setWidth 32 s))))) := rfl
theorem arm_180 (d s : BitVec 64) (imm : BitVec 32) :
    aluArm 180 d s imm = (some (some (BitVec.setWidth 64 imm))) := rfl
theorem arm_188 (d s : BitVec 64) (imm : BitVec 32) :
    aluArm 188 d s imm = (some (some (BitVec.setWidth 64 (BitVec.setWidth 32 s)))) := rfl
theorem arm_196 (d s : BitVec 64) (imm : BitVec 32) :
    aluArm 196 d s imm = (some (some (let d := (BitVec.signExtend 64 (BitVec.sshiftRight (BitVec.setWidth 32 d) (BitVec.toNat imm % 32))); (d &&& (0xffffffff : BitVec 64))))) := rfl
theorem arm_204 (d s : BitVec 64) (imm : BitVec 32) :
    aluArm 204 d s imm = (some (some (let d := (BitVec.signExtend 64 (BitVec.sshiftRight (BitVec.setWidth 32 d) (BitVec.toNat (BitVec.setWidth 32 s) % 32))); (d &&& (0xffffffff : BitVec 64))))) := rfl
theorem arm_212 (d s : BitVec 64) (imm : BitVec 32) :
    aluArm 212 d s imm = (if imm = 16 then some (some (BitVec.setWidth 64 (BitVec.setWidth 16 d))) else (if imm = 32 then some (some (BitVec.setWidth 64 (BitVec.setWidth 32 d))) else (if imm = 64 then some (some d) else none))) := rfl
theorem arm_220 (d s : BitVec 64) (imm : BitVec 32) :
    aluArm 220 d s imm = (if imm = 16 then some (some (BitVec.setWidth 64 (Rbpf.Generated.bswap16 (BitVec.setWidth 16 d)))) else (if imm = 32 then some (some (BitVec.setWidth 64 (Rbpf.Generated.bswap32 (BitVec.setWidth 32 d)))) else (if imm = 64 then some (some (Rbpf.Generated.bswap64 d)) else none))) := rfl
theorem arm_7 (d s : BitVec 64) (imm : BitVec 32) :
    aluArm 7 d s imm = (some (some (d + (BitVec.signExtend 64 imm)))) := rfl
theorem arm_15 (d s : BitVec 64) (imm : BitVec 32) :
    aluArm 15 d s imm = (some (some (d + s))) := rfl
theorem arm_23 (d s : BitVec 64) (imm : BitVec 32) :
    aluArm 23 d s imm = (some (some (d - (BitVec.signExtend 64 imm)))) := rfl
theorem arm_31 (d s : BitVec 64) (imm : BitVec 32) :
    aluArm 31 d s imm = (some (some (d - s))) := rfl
theorem arm_39 (d s : BitVec 64) (imm : BitVec 32) :
    aluArm 39 d s imm = (some (some (d * (BitVec.signExtend 64 imm)))) := rfl
theorem arm_47 (d s : BitVec 64) (imm : BitVec 32) :
    aluArm 47 d s imm = (some (some (d * s))) := rfl
theorem arm_55 (d s : BitVec 64) (imm : BitVec 32) :
    aluArm 55 d s imm = (if (imm == (0 : BitVec 32)) then (some (some (0 : BitVec 64))) else (some (some (d / (BitVec.signExtend 64 imm))))) := rfl
theorem arm_63 (d s : BitVec 64) (imm : BitVec 32) :
    aluArm 63 d s imm = (if (s == (0 : BitVec 64)) then (some (some (0 : BitVec 64))) else (some (some (d / s)))) := rfl
theorem arm_71 (d s : BitVec 64) (imm : BitVec 32) :
    aluArm 71 d s imm = (some (some (d ||| (BitVec.signExtend 64 imm)))) := rfl
theorem arm_79 (d s : BitVec 64) (imm : BitVec 32) :
    aluArm 79 d s imm = (some (some (d ||| s))) := rfl
theorem arm_87 (d s : BitVec 64) (imm : BitVec 32) :
    aluArm 87 d s imm = (some (some (d &&& (BitVec.signExtend 64 imm)))) := rfl
theorem arm_95 (d s : BitVec 64) (imm : BitVec 32) :
    aluArm 95 d s imm = (some (some (d &&& s))) := rfl
theorem arm_103 (d s : BitVec 64) (imm : BitVec 32) :
    aluArm 103 d s imm = (some (some (d <<< (BitVec.toNat ((BitVec.signExtend 64 imm) &&& (0x3f : BitVec 64)))))) := rfl
theorem arm_111 (d s : BitVec 64) (imm : BitVec 32) :
    aluArm 111 d s imm = (some (some (d <<< (BitVec.toNat (s &&& (0x3f : BitVec 64)))))) := rfl
theorem arm_119 (d s : BitVec 64) (imm : BitVec 32) :
    aluArm 119 d s imm = (some (some (d >>> (BitVec.toNat ((BitVec.signExtend 64 imm) &&& (0x3f : BitVec 64)))))) := rfl
theorem arm_127 (d s : BitVec 64) (imm : BitVec 32) :
    aluArm 127 d s imm = (some (some (d >>> (BitVec.toNat (s &&& (0x3f : BitVec 64)))))) := rfl
theorem arm_135 (d s : BitVec 64) (imm : BitVec 32) :
    aluArm 135 d s imm = (some (some (-d))) := rfl
theorem arm_151 (d s : BitVec 64) (imm : BitVec 32) :
    aluArm 151 d s imm = (if (imm == (0 : BitVec 32)) then (some (none)) else (some (some (d % (BitVec.signExtend 64 imm))))) := rfl
theorem arm_159 (d s : BitVec 64) (imm : BitVec 32) :
    aluArm 159 d s imm = (if (s == (0 : BitVec 64)) then (some (none)) else (some (some (d % s)))) := rfl
theorem arm_167 (d s : BitVec 64) (imm : BitVec 32) :
    aluArm 167 d s imm = (some (some (d ^^^ (BitVec.signExtend 64 imm)))) := rfl
theorem arm_175 (d s : BitVec 64) (imm : BitVec 32) :
    aluArm 175 d s imm = (some (some (d ^^^ s))) := rfl
theorem arm_183 (d s : BitVec 64) (imm : BitVec 32) :
    aluArm 183 d s imm = (some (some (BitVec.signExtend 64 imm))) := rfl
theorem arm_191 (d s : BitVec 64) (imm : BitVec 32) :
    aluArm 191 d s imm = (some (some s)) := rfl
theorem arm_199 (d s : BitVec 64) (imm : BitVec 32) :
    aluArm 199 d s imm = (some (some (BitVec.sshiftRight d (BitVec.toNat ((BitVec.signExtend 64 imm) &&& (0x3f : BitVec 64)))))) := rfl
theorem arm_207 (d s : BitVec 64) (imm : BitVec 32) :
    aluArm 207 d s imm = (some (some (BitVec.sshiftRight d (BitVec.toNat (s &&& (0x3f : BitVec 64)))))) := rfl
theorem arm_5 (d s : BitVec 64) (imm : BitVec 32) :
    jmpArm 5 d s imm = (some true) := rfl
theorem arm_21 (d s : BitVec 64) (imm : BitVec 32) :
    jmpArm 21 d s imm = (some (d == (BitVec.setWidth 64 imm))) := rfl
theorem arm_29 (d s : BitVec 64) (imm : BitVec 32) :
    jmpArm 29 d s imm = (some (d == s)) := rfl
theorem arm_37 (d s : BitVec 64) (imm : BitVec 32) :
    jmpArm 37 d s imm = (some (BitVec.ult (BitVec.setWidth 64 imm) d)) := rfl
theorem arm_45 (d s : BitVec 64) (imm : BitVec 32) :
    jmpArm 45 d s imm = (some (BitVec.ult s d)) := rfl
theorem arm_53 (d s : BitVec 64) (imm : BitVec 32) :
    jmpArm 53 d s imm = (some (BitVec.ule (BitVec.setWidth 64 imm) d)) := rfl
theorem arm_61 (d s : BitVec 64) (imm : BitVec 32) :
    jmpArm 61 d s imm = (some (BitVec.ule s d)) := rfl
theorem arm_165 (d s : BitVec 64) (imm : BitVec 32) :
    jmpArm 165 d s imm = (some (BitVec.ult d (BitVec.setWidth 64 imm))) := rfl
theorem arm_173 (d s : BitVec 64) (imm : BitVec 32) :
    jmpArm 173 d s imm = (some (BitVec.ult d s)) := rfl
theorem arm_181 (d s : BitVec 64) (imm : BitVec 32) :
    jmpArm 181 d s imm = (some (BitVec.ule d (BitVec.setWidth 64 imm))) := rfl
theorem arm_189 (d s : BitVec 64) (imm : BitVec 32) :
    jmpArm 189 d s imm = (some (BitVec.ule d s)) := rfl
theorem arm_69 (d s : BitVec 64) (imm : BitVec 32) :
    jmpArm 69 d s imm = (some ((d &&& (BitVec.signExtend 64 imm)) != (0 : BitVec 64))) := rfl
theorem arm_77 (d s : BitVec 64) (imm : BitVec 32) :
    jmpArm 77 d s imm = (some ((d &&& s) != (0 : BitVec 64))) := rfl
theorem arm_85 (d s : BitVec 64) (imm : BitVec 32) :
    jmpArm 85 d s imm = (some (d != (BitVec.setWidth 64 imm))) := rfl
theorem arm_93 (d s : BitVec 64) (imm : BitVec 32) :
    jmpArm 93 d s imm = (some (d != s)) := rfl
theorem arm_101 (d s : BitVec 64) (imm : BitVec 32) :
    jmpArm 101 d s imm = (some (BitVec.slt (BitVec.signExtend 64 imm) d)) := rfl
theorem arm_109 (d s : BitVec 64) (imm : BitVec 32) :
    jmpArm 109 d s imm = (some (BitVec.slt s d)) := rfl
theorem arm_117 (d s : BitVec 64) (imm : BitVec 32) :
    jmpArm 117 d s imm = (some (BitVec.sle (BitVec.signExtend 64 imm) d)) := rfl
theorem arm_125 (d s : BitVec 64) (imm : BitVec 32) :
    jmpArm 125 d s imm = (some (BitVec.sle s d)) := rfl
theorem arm_197 (d s : BitVec 64) (imm : BitVec 32) :
    jmpArm 197 d s imm = (some (BitVec.slt d (BitVec.signExtend 64 imm))) := rfl
theorem arm_205 (d s : BitVec 64) (imm : BitVec 32) :
    jmpArm 205 d s imm = (some (BitVec.slt d s)) := rfl
theorem arm_213 (d s : BitVec 64) (imm : BitVec 32) :
    jmpArm 213 d s imm = (some (BitVec.sle d (BitVec.signExtend 64 imm))) := rfl
theorem arm_221 (d s : BitVec 64) (imm : BitVec 32) :
    jmpArm 221 d s imm = (some (BitVec.sle d s)) := rfl
theorem arm_22 (d s : BitVec 64) (imm : BitVec 32) :
    jmpArm 22 d s imm = (some ((BitVec.setWidth 32 d) == imm)) := rfl
theorem arm_30 (d s : BitVec 64) (imm : BitVec 32) :
    jmpArm 30 d s imm = (some ((BitVec.setWidth 32 d) == (BitVec.setWidth 32 s))) := rfl
theorem arm_38 (d s : BitVec 64) (imm : BitVec 32) :
    jmpArm 38 d s imm = (some (BitVec.ult imm (BitVec.setWidth 32 d))) := rfl
theorem arm_46 (d s : BitVec 64) (imm : BitVec 32) :
    jmpArm 46 d s imm = (some (BitVec.ult (BitVec.setWidth 32 s) (BitVec.setWidth 32 d))) := rfl
theorem arm_54 (d s : BitVec 64) (imm : BitVec 32) :
    jmpArm 54 d s imm = (some (BitVec.ule imm (BitVec.setWidth 32 d))) := rfl
theorem arm_62 (d s : BitVec 64) (imm : BitVec 32) :
    jmpArm 62 d s imm = (some (BitVec.ule (BitVec.setWidth 32 s) (BitVec.setWidth 32 d))) := rfl
theorem arm_166 (d s : BitVec 64) (imm : BitVec 32) :
    jmpArm 166 d s imm = (some (BitVec.ult (BitVec.setWidth 32 d) imm)) := rfl
theorem arm_174 (d s : BitVec 64) (imm : BitVec 32) :
    jmpArm 174 d s imm = (some (BitVec.ult (BitVec.setWidth 32 d) (BitVec.setWidth 32 s))) := rfl
theorem arm_182 (d s : BitVec 64) (imm : BitVec 32) :
    jmpArm 182 d s imm = (some (BitVec.ule (BitVec.setWidth 32 d) imm)) := rfl
theorem arm_190 (d s : BitVec 64) (imm : BitVec 32) :
    jmpArm 190 d s imm = (some (BitVec.ule (BitVec.setWidth 32 d) (BitVec.setWidth 32 s))) := rfl
theorem arm_70 (d s : BitVec 64) (imm : BitVec 32) :
    jmpArm 70 d s imm = (some (((BitVec.setWidth 32 d) &&& imm) != (0 : BitVec 32))) := rfl
theorem arm_78 (d s : BitVec 64) (imm : BitVec 32) :
    jmpArm 78 d s imm = (some (((BitVec.setWidth 32 d) &&& (BitVec.setWidth 32 s)) != (0 : BitVec 32))) := rfl
theorem arm_86 (d s : BitVec 64) (imm : BitVec 32) :
    jmpArm 86 d s imm = (some ((BitVec.setWidth 32 d) != imm)) := rfl
theorem arm_94 (d s : BitVec 64) (imm : BitVec 32) :
    jmpArm 94 d s imm = (some ((BitVec.setWidth 32 d) != (BitVec.setWidth 32 s))) := rfl
theorem arm_102 (d s : BitVec 64) (imm : BitVec 32) :
    jmpArm 102 d s imm = (some (BitVec.slt imm (BitVec.setWidth 32 d))) := rfl
theorem arm_110 (d s : BitVec 64) (imm : BitVec 32) :
    jmpArm 110 d s imm = (some (BitVec.slt (BitVec.setWidth 32 s) (BitVec.setWidth 32 d))) := rfl
theorem arm_118 (d s : BitVec 64) (imm : BitVec 32) :
    jmpArm 118 d s imm = (some (BitVec.sle imm (BitVec.setWidth 32 d))) := rfl
theorem arm_126 (d s : BitVec 64) (imm : BitVec 32) :
    jmpArm 126 d s imm = (some (BitVec.sle (BitVec.setWidth 32 s) (BitVec.setWidth 32 d))) := rfl
theorem arm_198 (d s : BitVec 64) (imm : BitVec 32) :
    jmpArm 198 d s imm = (some (BitVec.slt (BitVec.setWidth 32 d) imm)) := rfl
theorem arm_206 (d s : BitVec 64) (imm : BitVec 32) :
    jmpArm 206 d s imm = (some (BitVec.slt (BitVec.setWidth 32 d) (BitVec.setWidth 32 s))) := rfl
theorem arm_214 (d s : BitVec 64) (imm : BitVec 32) :
    jmpArm 214 d s imm = (some (BitVec.sle (BitVec.setWidth 32 d) imm)) := rfl
theorem arm_222 (d s : BitVec 64) (imm : BitVec 32) :
    jmpArm 222 d s imm = (some (BitVec.sle (BitVec.setWidth 32 d) (BitVec.setWidth 32 s))) := rfl

/-! ## agreement, opcode by opcode -/

/-- the statement of `InterpArms_alu` for one instruction -/
abbrev AluOk (env : Env) (s : State) (opc dstb srcb : BitVec 8) (off : BitVec 16) (imm : BitVec 32) : Prop :=
  ∀ (hd : dstb.toNat < 11) (hs : srcb.toNat < 11),
    Interp.exec env s ⟨opc, dstb, srcb, off, imm⟩ =
      (match aluArm opc.toNat (s.reg[dstb.toNat]'hd) (s.reg[srcb.toNat]'hs) imm with
       | some (some v) => Interp.wr s dstb.toNat v
       | some none => .next s
       | none => .panic)

/-- the statement of `InterpArms_jmp` for one instruction -/
abbrev JmpOk (env : Env) (s : State) (opc dstb srcb : BitVec 8) (off : BitVec 16) (imm : BitVec 32) : Prop :=
  ∀ (hd : dstb.toNat < 11) (hs : srcb.toNat < 11),
    Interp.exec env s ⟨opc, dstb, srcb, off, imm⟩ =
      (match jmpArm opc.toNat (s.reg[dstb.toNat]'hd) (s.reg[srcb.toNat]'hs) imm with
       | some c => Interp.branch s off c
       | none => .panic)

variable {env : Env} {s : State} {opc dstb srcb : BitVec 8} {off : BitVec 16} {imm : BitVec 32}

theorem ia_4 (h : opc.toNat = 4) : AluOk env s opc dstb srcb off imm := by
  intro hd hs
  obtain rfl : opc = 4 := BitVec.eq_of_toNat_eq h
  rw [ex_4, show BitVec.toNat (4 : BitVec 8) = 4 from rfl, arm_4]
  simp only [rd_eq _ _ _ hd]
  rfl
theorem ia_12 (h : opc.toNat = 12) : AluOk env s opc dstb srcb off imm := by
  intro hd hs
  obtain rfl : opc = 12 := BitVec.eq_of_toNat_eq h
  rw [ex_12, show BitVec.toNat (12 : BitVec 8) = 12 from rfl, arm_12]
  simp only [rd_eq _ _ _ hd, rd_eq _ _ _ hs]
  rfl
theorem ia_20 (h : opc.toNat = 20) : AluOk env s opc dstb srcb off imm := by
  intro hd hs
  obtain rfl : opc = 20 := BitVec.eq_of_toNat_eq h
  rw [ex_20, show BitVec.toNat (20 : BitVec 8) = 20 from rfl, arm_20]
  simp only [rd_eq _ _ _ hd]
  rfl
theorem ia_28 (h : opc.toNat = 28) : AluOk env s opc dstb srcb off imm := by
  intro hd hs
  obtain rfl : opc = 28 := BitVec.eq_of_toNat_eq h
  rw [ex_28, show BitVec.toNat (28 : BitVec 8) = 28 from rfl, arm_28]
  simp only [rd_eq _ _ _ hd, rd_eq _ _ _ hs]
  rfl
theorem ia_36 (h : opc.toNat = 36) : AluOk env s opc dstb srcb off imm := by
  intro hd hs
  obtain rfl : opc = 36 := BitVec.eq_of_toNat_eq h
  rw [ex_36, show BitVec.toNat (36 : BitVec 8) = 36 from rfl, arm_36]
  simp only [rd_eq _ _ _ hd]
  rfl
theorem ia_44 (h : opc.toNat = 44) : AluOk env s opc dstb srcb off imm := by
  intro hd hs
  obtain rfl : opc = 44 := BitVec.eq_of_toNat_eq h
  rw [ex_44, show BitVec.toNat (44 : BitVec 8) = 44 from rfl, arm_44]
  simp only [rd_eq _ _ _ hd, rd_eq _ _ _ hs]
  rfl
theorem ia_52 (h : opc.toNat = 52) : AluOk env s opc dstb srcb off imm := by
  intro hd hs
  obtain rfl : opc = 52 := BitVec.eq_of_toNat_eq h
  rw [ex_52, show BitVec.toNat (52 : BitVec 8) = 52 from rfl, arm_52]
  simp only [rd_eq _ _ _ hd]
  simp only [beq_iff_eq]
  by_cases hz : imm = 0
  · rw [if_pos hz, if_pos hz]
  · rw [if_neg hz, if_neg hz]; rfl
theorem ia_60 (h : opc.toNat = 60) : AluOk env s opc dstb srcb off imm := by
  intro hd hs
  obtain rfl : opc = 60 := BitVec.eq_of_toNat_eq h
  rw [ex_60, show BitVec.toNat (60 : BitVec 8) = 60 from rfl, arm_60]
  simp only [rd_eq _ _ _ hd, rd_eq _ _ _ hs]
  simp only [beq_iff_eq]
  by_cases hz : lo32 s.reg[srcb.toNat] = 0
  · rw [if_pos hz, if_pos (show BitVec.setWidth 32 s.reg[srcb.toNat] = 0 from hz)]
  · rw [if_neg hz, if_neg (show ¬ BitVec.setWidth 32 s.reg[srcb.toNat] = 0 from hz)]; rfl
theorem ia_68 (h : opc.toNat = 68) : AluOk env s opc dstb srcb off imm := by
  intro hd hs
  obtain rfl : opc = 68 := BitVec.eq_of_toNat_eq h
  rw [ex_68, show BitVec.toNat (68 : BitVec 8) = 68 from rfl, arm_68]
  simp only [rd_eq _ _ _ hd]
  rfl
theorem ia_76 (h : opc.toNat = 76) : AluOk env s opc dstb srcb off imm := by
  intro hd hs
  obtain rfl : opc = 76 := BitVec.eq_of_toNat_eq h
  rw [ex_76, show BitVec.toNat (76 : BitVec 8) = 76 from rfl, arm_76]
  simp only [rd_eq _ _ _ hd, rd_eq _ _ _ hs]
  rfl
theorem ia_84 (h : opc.toNat = 84) : AluOk env s opc dstb srcb off imm := by
  intro hd hs
  obtain rfl : opc = 84 := BitVec.eq_of_toNat_eq h
  rw [ex_84, show BitVec.toNat (84 : BitVec 8) = 84 from rfl, arm_84]
  simp only [rd_eq _ _ _ hd]
  rfl
theorem ia_92 (h : opc.toNat = 92) : AluOk env s opc dstb srcb off imm := by
  intro hd hs
  obtain rfl : opc = 92 := BitVec.eq_of_toNat_eq h
  rw [ex_92, show BitVec.toNat (92 : BitVec 8) = 92 from rfl, arm_92]
  simp only [rd_eq _ _ _ hd, rd_eq _ _ _ hs]
  rfl
theorem ia_100 (h : opc.toNat = 100) : AluOk env s opc dstb srcb off imm := by
  intro hd hs
  obtain rfl : opc = 100 := BitVec.eq_of_toNat_eq h
  rw [ex_100, show BitVec.toNat (100 : BitVec 8) = 100 from rfl, arm_100]
  simp only [rd_eq _ _ _ hd]
  rfl
theorem ia_108 (h : opc.toNat = 108) : AluOk env s opc dstb srcb off imm := by
  intro hd hs
  obtain rfl : opc = 108 := BitVec.eq_of_toNat_eq h
  rw [ex_108, show BitVec.toNat (108 : BitVec 8) = 108 from rfl, arm_108]
  simp only [rd_eq _ _ _ hd, rd_eq _ _ _ hs]
  rfl
theorem ia_116 (h : opc.toNat = 116) : AluOk env s opc dstb srcb off imm := by
  intro hd hs
  obtain rfl : opc = 116 := BitVec.eq_of_toNat_eq h
  rw [ex_116, show BitVec.toNat (116 : BitVec 8) = 116 from rfl, arm_116]
  simp only [rd_eq _ _ _ hd]
  rfl
theorem ia_124 (h : opc.toNat = 124) : AluOk env s opc dstb srcb off imm := by
  intro hd hs
  obtain rfl : opc = 124 := BitVec.eq_of_toNat_eq h
  rw [ex_124, show BitVec.toNat (124 : BitVec 8) = 124 from rfl, arm_124]
  simp only [rd_eq _ _ _ hd, rd_eq _ _ _ hs]
  rfl
theorem ia_132 (h : opc.toNat = 132) : AluOk env s opc dstb srcb off imm := by
  intro hd hs
  obtain rfl : opc = 132 := BitVec.eq_of_toNat_eq h
  rw [ex_132, show BitVec.toNat (132 : BitVec 8) = 132 from rfl, arm_132]
  simp only [rd_eq _ _ _ hd]
  rfl
theorem ia_148 (h : opc.toNat = 148) : AluOk env s opc dstb srcb off imm := by
  intro hd hs
  obtain rfl : opc = 148 := BitVec.eq_of_toNat_eq h
  rw [ex_148, show BitVec.toNat (148 : BitVec 8) = 148 from rfl, arm_148]
  simp only [rd_eq _ _ _ hd]
  simp only [beq_iff_eq]
  by_cases hz : imm = 0
  · rw [if_pos hz, if_pos hz]
  · rw [if_neg hz, if_neg hz]; rfl
theorem ia_156 (h : opc.toNat = 156) : AluOk env s opc dstb srcb off imm := by
  intro hd hs
  obtain rfl : opc = 156 := BitVec.eq_of_toNat_eq h
  rw [ex_156, show BitVec.toNat (156 : BitVec 8) = 156 from rfl, arm_156]
  simp only [rd_eq _ _ _ hd, rd_eq _ _ _ hs]
  simp only [beq_iff_eq]
  by_cases hz : lo32 s.reg[srcb.toNat] = 0
  · rw [if_pos hz, if_pos (show BitVec.setWidth 32 s.reg[srcb.toNat] = 0 from hz)]
  · rw [if_neg hz, if_neg (show ¬ BitVec.setWidth 32 s.reg[srcb.toNat] = 0 from hz)]; rfl
theorem ia_164 (h : opc.toNat = 164) : AluOk env s opc dstb srcb off imm := by
  intro hd hs
  obtain rfl : opc = 164 := BitVec.eq_of_toNat_eq h
  rw [ex_164, show BitVec.toNat (164 : BitVec 8) = 164 from rfl, arm_164]
  simp only [rd_eq _ _ _ hd]
  rfl
theorem ia_172 (h : opc.toNat = 172) : AluOk env s opc dstb srcb off imm := by
  intro hd hs
  obtain rfl : opc = 172 := BitVec.eq_of_toNat_eq h
  rw [ex_172, show BitVec.toNat (172 : BitVec 8) = 172 from rfl, arm_172]
  simp only [rd_eq _ _ _ hd, rd_eq _ _ _ hs]
  rfl
theorem ia_180 (h : opc.toNat = 180) : AluOk env s opc dstb srcb off imm := by
  intro hd hs
  obtain rfl : opc = 180 := BitVec.eq_of_toNat_eq h
  rw [ex_180, show BitVec.toNat (180 : BitVec 8) = 180 from rfl, arm_180]
  rfl
theorem ia_188 (h : opc.toNat = 188) : AluOk env s opc dstb srcb off imm := by
  intro hd hs
  obtain rfl : opc = 188 := BitVec.eq_of_toNat_eq h
  rw [ex_188, show BitVec.toNat (188 : BitVec 8) = 188 from rfl, arm_188]
  simp only [rd_eq _ _ _ hs]
  rfl
theorem ia_196 (h : opc.toNat = 196) : AluOk env s opc dstb srcb off imm := by
  intro hd hs
  obtain rfl : opc = 196 := BitVec.eq_of_toNat_eq h
  rw [ex_196, show BitVec.toNat (196 : BitVec 8) = 196 from rfl, arm_196]
  simp only [rd_eq _ _ _ hd]
  rfl
theorem ia_204 (h : opc.toNat = 204) : AluOk env s opc dstb srcb off imm := by
  intro hd hs
  obtain rfl : opc = 204 := BitVec.eq_of_toNat_eq h
  rw [ex_204, show BitVec.toNat (204 : BitVec 8) = 204 from rfl, arm_204]
  simp only [rd_eq _ _ _ hd, rd_eq _ _ _ hs]
  rfl
theorem ia_212 (h : opc.toNat = 212) : AluOk env s opc dstb srcb off imm := by
  intro hd hs
  obtain rfl : opc = 212 := BitVec.eq_of_toNat_eq h
  rw [ex_212, show BitVec.toNat (212 : BitVec 8) = 212 from rfl, arm_212]
  simp only [rd_eq _ _ _ hd]
  by_cases h1 : imm = 16
  · rw [if_pos h1, if_pos h1]
  rw [if_neg h1, if_neg h1]
  by_cases h2 : imm = 32
  · rw [if_pos h2, if_pos h2]; rfl
  rw [if_neg h2, if_neg h2]
  by_cases h3 : imm = 64
  · rw [if_pos h3, if_pos h3]
  · rw [if_neg h3, if_neg h3]
theorem ia_220 (h : opc.toNat = 220) : AluOk env s opc dstb srcb off imm := by
  intro hd hs
  obtain rfl : opc = 220 := BitVec.eq_of_toNat_eq h
  rw [ex_220, show BitVec.toNat (220 : BitVec 8) = 220 from rfl, arm_220]
  simp only [rd_eq _ _ _ hd]
  rw [ia_bswap16, ia_bswap32, ia_bswap64]
  by_cases h1 : imm = 16
  · rw [if_pos h1, if_pos h1]
  rw [if_neg h1, if_neg h1]
  by_cases h2 : imm = 32
  · rw [if_pos h2, if_pos h2]
  rw [if_neg h2, if_neg h2]
  by_cases h3 : imm = 64
  · rw [if_pos h3, if_pos h3]
  · rw [if_neg h3, if_neg h3]
theorem ia_7 (h : opc.toNat = 7) : AluOk env s opc dstb srcb off imm := by
  intro hd hs
  obtain rfl : opc = 7 := BitVec.eq_of_toNat_eq h
  rw [ex_7, show BitVec.toNat (7 : BitVec 8) = 7 from rfl, arm_7]
  simp only [rd_eq _ _ _ hd]
  rfl
theorem ia_15 (h : opc.toNat = 15) : AluOk env s opc dstb srcb off imm := by
  intro hd hs
  obtain rfl : opc = 15 := BitVec.eq_of_toNat_eq h
  rw [ex_15, show BitVec.toNat (15 : BitVec 8) = 15 from rfl, arm_15]
  simp only [rd_eq _ _ _ hd, rd_eq _ _ _ hs]
theorem ia_23 (h : opc.toNat = 23) : AluOk env s opc dstb srcb off imm := by
  intro hd hs
  obtain rfl : opc = 23 := BitVec.eq_of_toNat_eq h
  rw [ex_23, show BitVec.toNat (23 : BitVec 8) = 23 from rfl, arm_23]
  simp only [rd_eq _ _ _ hd]
  rfl
theorem ia_31 (h : opc.toNat = 31) : AluOk env s opc dstb srcb off imm := by
  intro hd hs
  obtain rfl : opc = 31 := BitVec.eq_of_toNat_eq h
  rw [ex_31, show BitVec.toNat (31 : BitVec 8) = 31 from rfl, arm_31]
  simp only [rd_eq _ _ _ hd, rd_eq _ _ _ hs]
theorem ia_39 (h : opc.toNat = 39) : AluOk env s opc dstb srcb off imm := by
  intro hd hs
  obtain rfl : opc = 39 := BitVec.eq_of_toNat_eq h
  rw [ex_39, show BitVec.toNat (39 : BitVec 8) = 39 from rfl, arm_39]
  simp only [rd_eq _ _ _ hd]
  rfl
theorem ia_47 (h : opc.toNat = 47) : AluOk env s opc dstb srcb off imm := by
  intro hd hs
  obtain rfl : opc = 47 := BitVec.eq_of_toNat_eq h
  rw [ex_47, show BitVec.toNat (47 : BitVec 8) = 47 from rfl, arm_47]
  simp only [rd_eq _ _ _ hd, rd_eq _ _ _ hs]
theorem ia_55 (h : opc.toNat = 55) : AluOk env s opc dstb srcb off imm := by
  intro hd hs
  obtain rfl : opc = 55 := BitVec.eq_of_toNat_eq h
  rw [ex_55, show BitVec.toNat (55 : BitVec 8) = 55 from rfl, arm_55]
  simp only [rd_eq _ _ _ hd]
  simp only [beq_iff_eq]
  by_cases hz : imm = 0
  · rw [if_pos hz, if_pos hz]
  · rw [if_neg hz, if_neg hz]; rfl
theorem ia_63 (h : opc.toNat = 63) : AluOk env s opc dstb srcb off imm := by
  intro hd hs
  obtain rfl : opc = 63 := BitVec.eq_of_toNat_eq h
  rw [ex_63, show BitVec.toNat (63 : BitVec 8) = 63 from rfl, arm_63]
  simp only [rd_eq _ _ _ hd, rd_eq _ _ _ hs]
  simp only [beq_iff_eq]
  by_cases hz : s.reg[srcb.toNat] = 0
  · rw [if_pos hz, if_pos hz]
  · rw [if_neg hz, if_neg hz]
theorem ia_71 (h : opc.toNat = 71) : AluOk env s opc dstb srcb off imm := by
  intro hd hs
  obtain rfl : opc = 71 := BitVec.eq_of_toNat_eq h
  rw [ex_71, show BitVec.toNat (71 : BitVec 8) = 71 from rfl, arm_71]
  simp only [rd_eq _ _ _ hd]
  rfl
theorem ia_79 (h : opc.toNat = 79) : AluOk env s opc dstb srcb off imm := by
  intro hd hs
  obtain rfl : opc = 79 := BitVec.eq_of_toNat_eq h
  rw [ex_79, show BitVec.toNat (79 : BitVec 8) = 79 from rfl, arm_79]
  simp only [rd_eq _ _ _ hd, rd_eq _ _ _ hs]
theorem ia_87 (h : opc.toNat = 87) : AluOk env s opc dstb srcb off imm := by
  intro hd hs
  obtain rfl : opc = 87 := BitVec.eq_of_toNat_eq h
  rw [ex_87, show BitVec.toNat (87 : BitVec 8) = 87 from rfl, arm_87]
  simp only [rd_eq _ _ _ hd]
  rfl
theorem ia_95 (h : opc.toNat = 95) : AluOk env s opc dstb srcb off imm := by
  intro hd hs
  obtain rfl : opc = 95 := BitVec.eq_of_toNat_eq h
  rw [ex_95, show BitVec.toNat (95 : BitVec 8) = 95 from rfl, arm_95]
  simp only [rd_eq _ _ _ hd, rd_eq _ _ _ hs]
theorem ia_103 (h : opc.toNat = 103) : AluOk env s opc dstb srcb off imm := by
  intro hd hs
  obtain rfl : opc = 103 := BitVec.eq_of_toNat_eq h
  rw [ex_103, show BitVec.toNat (103 : BitVec 8) = 103 from rfl, arm_103]
  simp only [rd_eq _ _ _ hd]
  rw [ia_and63]; rfl
theorem ia_111 (h : opc.toNat = 111) : AluOk env s opc dstb srcb off imm := by
  intro hd hs
  obtain rfl : opc = 111 := BitVec.eq_of_toNat_eq h
  rw [ex_111, show BitVec.toNat (111 : BitVec 8) = 111 from rfl, arm_111]
  simp only [rd_eq _ _ _ hd, rd_eq _ _ _ hs]
  rw [ia_and63]
theorem ia_119 (h : opc.toNat = 119) : AluOk env s opc dstb srcb off imm := by
  intro hd hs
  obtain rfl : opc = 119 := BitVec.eq_of_toNat_eq h
  rw [ex_119, show BitVec.toNat (119 : BitVec 8) = 119 from rfl, arm_119]
  simp only [rd_eq _ _ _ hd]
  rw [ia_and63]; rfl
theorem ia_127 (h : opc.toNat = 127) : AluOk env s opc dstb srcb off imm := by
  intro hd hs
  obtain rfl : opc = 127 := BitVec.eq_of_toNat_eq h
  rw [ex_127, show BitVec.toNat (127 : BitVec 8) = 127 from rfl, arm_127]
  simp only [rd_eq _ _ _ hd, rd_eq _ _ _ hs]
  rw [ia_and63]
theorem ia_135 (h : opc.toNat = 135) : AluOk env s opc dstb srcb off imm := by
  intro hd hs
  obtain rfl : opc = 135 := BitVec.eq_of_toNat_eq h
  rw [ex_135, show BitVec.toNat (135 : BitVec 8) = 135 from rfl, arm_135]
  simp only [rd_eq _ _ _ hd]
theorem ia_151 (h : opc.toNat = 151) : AluOk env s opc dstb srcb off imm := by
  intro hd hs
  obtain rfl : opc = 151 := BitVec.eq_of_toNat_eq h
  rw [ex_151, show BitVec.toNat (151 : BitVec 8) = 151 from rfl, arm_151]
  simp only [rd_eq _ _ _ hd]
  simp only [beq_iff_eq]
  by_cases hz : imm = 0
  · rw [if_pos hz, if_pos hz]
  · rw [if_neg hz, if_neg hz]; rfl
theorem ia_159 (h : opc.toNat = 159) : AluOk env s opc dstb srcb off imm := by
  intro hd hs
  obtain rfl : opc = 159 := BitVec.eq_of_toNat_eq h
  rw [ex_159, show BitVec.toNat (159 : BitVec 8) = 159 from rfl, arm_159]
  simp only [rd_eq _ _ _ hd, rd_eq _ _ _ hs]
  simp only [beq_iff_eq]
  by_cases hz : s.reg[srcb.toNat] = 0
  · rw [if_pos hz, if_pos hz]
  · rw [if_neg hz, if_neg hz]
theorem ia_167 (h : opc.toNat = 167) : AluOk env s opc dstb srcb off imm := by
  intro hd hs
  obtain rfl : opc = 167 := BitVec.eq_of_toNat_eq h
  rw [ex_167, show BitVec.toNat (167 : BitVec 8) = 167 from rfl, arm_167]
  simp only [rd_eq _ _ _ hd]
  rfl
theorem ia_175 (h : opc.toNat = 175) : AluOk env s opc dstb srcb off imm := by
  intro hd hs
  obtain rfl : opc = 175 := BitVec.eq_of_toNat_eq h
  rw [ex_175, show BitVec.toNat (175 : BitVec 8) = 175 from rfl, arm_175]
  simp only [rd_eq _ _ _ hd, rd_eq _ _ _ hs]
theorem ia_183 (h : opc.toNat = 183) : AluOk env s opc dstb srcb off imm := by
  intro hd hs
  obtain rfl : opc = 183 := BitVec.eq_of_toNat_eq h
  rw [ex_183, show BitVec.toNat (183 : BitVec 8) = 183 from rfl, arm_183]
  rfl
theorem ia_191 (h : opc.toNat = 191) : AluOk env s opc dstb srcb off imm := by
  intro hd hs
  obtain rfl : opc = 191 := BitVec.eq_of_toNat_eq h
  rw [ex_191, show BitVec.toNat (191 : BitVec 8) = 191 from rfl, arm_191]
  simp only [rd_eq _ _ _ hs]
theorem ia_199 (h : opc.toNat = 199) : AluOk env s opc dstb srcb off imm := by
  intro hd hs
  obtain rfl : opc = 199 := BitVec.eq_of_toNat_eq h
  rw [ex_199, show BitVec.toNat (199 : BitVec 8) = 199 from rfl, arm_199]
  simp only [rd_eq _ _ _ hd]
  rw [ia_and63]; rfl
theorem ia_207 (h : opc.toNat = 207) : AluOk env s opc dstb srcb off imm := by
  intro hd hs
  obtain rfl : opc = 207 := BitVec.eq_of_toNat_eq h
  rw [ex_207, show BitVec.toNat (207 : BitVec 8) = 207 from rfl, arm_207]
  simp only [rd_eq _ _ _ hd, rd_eq _ _ _ hs]
  rw [ia_and63]
theorem ia_5 (h : opc.toNat = 5) : JmpOk env s opc dstb srcb off imm := by
  intro hd hs
  obtain rfl : opc = 5 := BitVec.eq_of_toNat_eq h
  rw [ex_5, show BitVec.toNat (5 : BitVec 8) = 5 from rfl, arm_5]
theorem ia_21 (h : opc.toNat = 21) : JmpOk env s opc dstb srcb off imm := by
  intro hd hs
  obtain rfl : opc = 21 := BitVec.eq_of_toNat_eq h
  rw [ex_21, show BitVec.toNat (21 : BitVec 8) = 21 from rfl, arm_21]
  simp only [rd_eq _ _ _ hd]
  rfl
theorem ia_29 (h : opc.toNat = 29) : JmpOk env s opc dstb srcb off imm := by
  intro hd hs
  obtain rfl : opc = 29 := BitVec.eq_of_toNat_eq h
  rw [ex_29, show BitVec.toNat (29 : BitVec 8) = 29 from rfl, arm_29]
  simp only [rd_eq _ _ _ hd, rd_eq _ _ _ hs]
theorem ia_37 (h : opc.toNat = 37) : JmpOk env s opc dstb srcb off imm := by
  intro hd hs
  obtain rfl : opc = 37 := BitVec.eq_of_toNat_eq h
  rw [ex_37, show BitVec.toNat (37 : BitVec 8) = 37 from rfl, arm_37]
  simp only [rd_eq _ _ _ hd]
  rfl
theorem ia_45 (h : opc.toNat = 45) : JmpOk env s opc dstb srcb off imm := by
  intro hd hs
  obtain rfl : opc = 45 := BitVec.eq_of_toNat_eq h
  rw [ex_45, show BitVec.toNat (45 : BitVec 8) = 45 from rfl, arm_45]
  simp only [rd_eq _ _ _ hd, rd_eq _ _ _ hs]
theorem ia_53 (h : opc.toNat = 53) : JmpOk env s opc dstb srcb off imm := by
  intro hd hs
  obtain rfl : opc = 53 := BitVec.eq_of_toNat_eq h
  rw [ex_53, show BitVec.toNat (53 : BitVec 8) = 53 from rfl, arm_53]
  simp only [rd_eq _ _ _ hd]
  rfl
theorem ia_61 (h : opc.toNat = 61) : JmpOk env s opc dstb srcb off imm := by
  intro hd hs
  obtain rfl : opc = 61 := BitVec.eq_of_toNat_eq h
  rw [ex_61, show BitVec.toNat (61 : BitVec 8) = 61 from rfl, arm_61]
  simp only [rd_eq _ _ _ hd, rd_eq _ _ _ hs]
theorem ia_165 (h : opc.toNat = 165) : JmpOk env s opc dstb srcb off imm := by
  intro hd hs
  obtain rfl : opc = 165 := BitVec.eq_of_toNat_eq h
  rw [ex_165, show BitVec.toNat (165 : BitVec 8) = 165 from rfl, arm_165]
  simp only [rd_eq _ _ _ hd]
  rfl
theorem ia_173 (h : opc.toNat = 173) : JmpOk env s opc dstb srcb off imm := by
  intro hd hs
  obtain rfl : opc = 173 := BitVec.eq_of_toNat_eq h
  rw [ex_173, show BitVec.toNat (173 : BitVec 8) = 173 from rfl, arm_173]
  simp only [rd_eq _ _ _ hd, rd_eq _ _ _ hs]
theorem ia_181 (h : opc.toNat = 181) : JmpOk env s opc dstb srcb off imm := by
  intro hd hs
  obtain rfl : opc = 181 := BitVec.eq_of_toNat_eq h
  rw [ex_181, show BitVec.toNat (181 : BitVec 8) = 181 from rfl, arm_181]
  simp only [rd_eq _ _ _ hd]
  rfl
theorem ia_189 (h : opc.toNat = 189) : JmpOk env s opc dstb srcb off imm := by
  intro hd hs
  obtain rfl : opc = 189 := BitVec.eq_of_toNat_eq h
  rw [ex_189, show BitVec.toNat (189 : BitVec 8) = 189 from rfl, arm_189]
  simp only [rd_eq _ _ _ hd, rd_eq _ _ _ hs]
theorem ia_69 (h : opc.toNat = 69) : JmpOk env s opc dstb srcb off imm := by
  intro hd hs
  obtain rfl : opc = 69 := BitVec.eq_of_toNat_eq h
  rw [ex_69, show BitVec.toNat (69 : BitVec 8) = 69 from rfl, arm_69]
  simp only [rd_eq _ _ _ hd]
  rfl
theorem ia_77 (h : opc.toNat = 77) : JmpOk env s opc dstb srcb off imm := by
  intro hd hs
  obtain rfl : opc = 77 := BitVec.eq_of_toNat_eq h
  rw [ex_77, show BitVec.toNat (77 : BitVec 8) = 77 from rfl, arm_77]
  simp only [rd_eq _ _ _ hd, rd_eq _ _ _ hs]
theorem ia_85 (h : opc.toNat = 85) : JmpOk env s opc dstb srcb off imm := by
  intro hd hs
  obtain rfl : opc = 85 := BitVec.eq_of_toNat_eq h
  rw [ex_85, show BitVec.toNat (85 : BitVec 8) = 85 from rfl, arm_85]
  simp only [rd_eq _ _ _ hd]
  rfl
theorem ia_93 (h : opc.toNat = 93) : JmpOk env s opc dstb srcb off imm := by
  intro hd hs
  obtain rfl : opc = 93 := BitVec.eq_of_toNat_eq h
  rw [ex_93, show BitVec.toNat (93 : BitVec 8) = 93 from rfl, arm_93]
  simp only [rd_eq _ _ _ hd, rd_eq _ _ _ hs]
theorem ia_101 (h : opc.toNat = 101) : JmpOk env s opc dstb srcb off imm := by
  intro hd hs
  obtain rfl : opc = 101 := BitVec.eq_of_toNat_eq h
  rw [ex_101, show BitVec.toNat (101 : BitVec 8) = 101 from rfl, arm_101]
  simp only [rd_eq _ _ _ hd]
  rfl
theorem ia_109 (h : opc.toNat = 109) : JmpOk env s opc dstb srcb off imm := by
  intro hd hs
  obtain rfl : opc = 109 := BitVec.eq_of_toNat_eq h
  rw [ex_109, show BitVec.toNat (109 : BitVec 8) = 109 from rfl, arm_109]
  simp only [rd_eq _ _ _ hd, rd_eq _ _ _ hs]
theorem ia_117 (h : opc.toNat = 117) : JmpOk env s opc dstb srcb off imm := by
  intro hd hs
  obtain rfl : opc = 117 := BitVec.eq_of_toNat_eq h
  rw [ex_117, show BitVec.toNat (117 : BitVec 8) = 117 from rfl, arm_117]
  simp only [rd_eq _ _ _ hd]
  rfl
theorem ia_125 (h : opc.toNat = 125) : JmpOk env s opc dstb srcb off imm := by
  intro hd hs
  obtain rfl : opc = 125 := BitVec.eq_of_toNat_eq h
  rw [ex_125, show BitVec.toNat (125 : BitVec 8) = 125 from rfl, arm_125]
  simp only [rd_eq _ _ _ hd, rd_eq _ _ _ hs]
theorem ia_197 (h : opc.toNat = 197) : JmpOk env s opc dstb srcb off imm := by
  intro hd hs
  obtain rfl : opc = 197 := BitVec.eq_of_toNat_eq h
  rw [ex_197, show BitVec.toNat (197 : BitVec 8) = 197 from rfl, arm_197]
  simp only [rd_eq _ _ _ hd]
  rfl
theorem ia_205 (h : opc.toNat = 205) : JmpOk env s opc dstb srcb off imm := by
  intro hd hs
  obtain rfl : opc = 205 := BitVec.eq_of_toNat_eq h
  rw [ex_205, show BitVec.toNat (205 : BitVec 8) = 205 from rfl, arm_205]
  simp only [rd_eq _ _ _ hd, rd_eq _ _ _ hs]
theorem ia_213 (h : opc.toNat = 213) : JmpOk env s opc dstb srcb off imm := by
  intro hd hs
  obtain rfl : opc = 213 := BitVec.eq_of_toNat_eq h
  rw [ex_213, show BitVec.toNat (213 : BitVec 8) = 213 from rfl, arm_213]
  simp only [rd_eq _ _ _ hd]
  rfl
theorem ia_221 (h : opc.toNat = 221) : JmpOk env s opc dstb srcb off imm := by
  intro hd hs
  obtain rfl : opc = 221 := BitVec.eq_of_toNat_eq h
  rw [ex_221, show BitVec.toNat (221 : BitVec 8) = 221 from rfl, arm_221]
  simp only [rd_eq _ _ _ hd, rd_eq _ _ _ hs]
theorem ia_22 (h : opc.toNat = 22) : JmpOk env s opc dstb srcb off imm := by
  intro hd hs
  obtain rfl : opc = 22 := BitVec.eq_of_toNat_eq h
  rw [ex_22, show BitVec.toNat (22 : BitVec 8) = 22 from rfl, arm_22]
  simp only [rd_eq _ _ _ hd]
  rfl
theorem ia_30 (h : opc.toNat = 30) : JmpOk env s opc dstb srcb off imm := by
  intro hd hs
  obtain rfl : opc = 30 := BitVec.eq_of_toNat_eq h
  rw [ex_30, show BitVec.toNat (30 : BitVec 8) = 30 from rfl, arm_30]
  simp only [rd_eq _ _ _ hd, rd_eq _ _ _ hs]
  rfl
theorem ia_38 (h : opc.toNat = 38) : JmpOk env s opc dstb srcb off imm := by
  intro hd hs
  obtain rfl : opc = 38 := BitVec.eq_of_toNat_eq h
  rw [ex_38, show BitVec.toNat (38 : BitVec 8) = 38 from rfl, arm_38]
  simp only [rd_eq _ _ _ hd]
  rfl
theorem ia_46 (h : opc.toNat = 46) : JmpOk env s opc dstb srcb off imm := by
  intro hd hs
  obtain rfl : opc = 46 := BitVec.eq_of_toNat_eq h
  rw [ex_46, show BitVec.toNat (46 : BitVec 8) = 46 from rfl, arm_46]
  simp only [rd_eq _ _ _ hd, rd_eq _ _ _ hs]
  rfl
theorem ia_54 (h : opc.toNat = 54) : JmpOk env s opc dstb srcb off imm := by
  intro hd hs
  obtain rfl : opc = 54 := BitVec.eq_of_toNat_eq h
  rw [ex_54, show BitVec.toNat (54 : BitVec 8) = 54 from rfl, arm_54]
  simp only [rd_eq _ _ _ hd]
  rfl
theorem ia_62 (h : opc.toNat = 62) : JmpOk env s opc dstb srcb off imm := by
  intro hd hs
  obtain rfl : opc = 62 := BitVec.eq_of_toNat_eq h
  rw [ex_62, show BitVec.toNat (62 : BitVec 8) = 62 from rfl, arm_62]
  simp only [rd_eq _ _ _ hd, rd_eq _ _ _ hs]
  rfl
theorem ia_166 (h : opc.toNat = 166) : JmpOk env s opc dstb srcb off imm := by
  intro hd hs
  obtain rfl : opc = 166 := BitVec.eq_of_toNat_eq h
  rw [ex_166, show BitVec.toNat (166 : BitVec 8) = 166 from rfl, arm_166]
  simp only [rd_eq _ _ _ hd]
  rfl
theorem ia_174 (h : opc.toNat = 174) : JmpOk env s opc dstb srcb off imm := by
  intro hd hs
  obtain rfl : opc = 174 := BitVec.eq_of_toNat_eq h
  rw [ex_174, show BitVec.toNat (174 : BitVec 8) = 174 from rfl, arm_174]
  simp only [rd_eq _ _ _ hd, rd_eq _ _ _ hs]
  rfl
theorem ia_182 (h : opc.toNat = 182) : JmpOk env s opc dstb srcb off imm := by
  intro hd hs
  obtain rfl : opc = 182 := BitVec.eq_of_toNat_eq h
  rw [ex_182, show BitVec.toNat (182 : BitVec 8) = 182 from rfl, arm_182]
  simp only [rd_eq _ _ _ hd]
  rfl
theorem ia_190 (h : opc.toNat = 190) : JmpOk env s opc dstb srcb off imm := by
  intro hd hs
  obtain rfl : opc = 190 := BitVec.eq_of_toNat_eq h
  rw [ex_190, show BitVec.toNat (190 : BitVec 8) = 190 from rfl, arm_190]
  simp only [rd_eq _ _ _ hd, rd_eq _ _ _ hs]
  rfl
theorem ia_70 (h : opc.toNat = 70) : JmpOk env s opc dstb srcb off imm := by
  intro hd hs
  obtain rfl : opc = 70 := BitVec.eq_of_toNat_eq h
  rw [ex_70, show BitVec.toNat (70 : BitVec 8) = 70 from rfl, arm_70]
  simp only [rd_eq _ _ _ hd]
  rfl
theorem ia_78 (h : opc.toNat = 78) : JmpOk env s opc dstb srcb off imm := by
  intro hd hs
  obtain rfl : opc = 78 := BitVec.eq_of_toNat_eq h
  rw [ex_78, show BitVec.toNat (78 : BitVec 8) = 78 from rfl, arm_78]
  simp only [rd_eq _ _ _ hd, rd_eq _ _ _ hs]
  rfl
theorem ia_86 (h : opc.toNat = 86) : JmpOk env s opc dstb srcb off imm := by
  intro hd hs
  obtain rfl : opc = 86 := BitVec.eq_of_toNat_eq h
  rw [ex_86, show BitVec.toNat (86 : BitVec 8) = 86 from rfl, arm_86]
  simp only [rd_eq _ _ _ hd]
  rfl
theorem ia_94 (h : opc.toNat = 94) : JmpOk env s opc dstb srcb off imm := by
  intro hd hs
  obtain rfl : opc = 94 := BitVec.eq_of_toNat_eq h
  rw [ex_94, show BitVec.toNat (94 : BitVec 8) = 94 from rfl, arm_94]
  simp only [rd_eq _ _ _ hd, rd_eq _ _ _ hs]
  rfl
theorem ia_102 (h : opc.toNat = 102) : JmpOk env s opc dstb srcb off imm := by
  intro hd hs
  obtain rfl : opc = 102 := BitVec.eq_of_toNat_eq h
  rw [ex_102, show BitVec.toNat (102 : BitVec 8) = 102 from rfl, arm_102]
  simp only [rd_eq _ _ _ hd]
  rfl
theorem ia_110 (h : opc.toNat = 110) : JmpOk env s opc dstb srcb off imm := by
  intro hd hs
  obtain rfl : opc = 110 := BitVec.eq_of_toNat_eq h
  rw [ex_110, show BitVec.toNat (110 : BitVec 8) = 110 from rfl, arm_110]
  simp only [rd_eq _ _ _ hd, rd_eq _ _ _ hs]
  rfl
theorem ia_118 (h : opc.toNat = 118) : JmpOk env s opc dstb srcb off imm := by
  intro hd hs
  obtain rfl : opc = 118 := BitVec.eq_of_toNat_eq h
  rw [ex_118, show BitVec.toNat (118 : BitVec 8) = 118 from rfl, arm_118]
  simp only [rd_eq _ _ _ hd]
  rfl
theorem ia_126 (h : opc.toNat = 126) : JmpOk env s opc dstb srcb off imm := by
  intro hd hs
  obtain rfl : opc = 126 := BitVec.eq_of_toNat_eq h
  rw [ex_126, show BitVec.toNat (126 : BitVec 8) = 126 from rfl, arm_126]
  simp only [rd_eq _ _ _ hd, rd_eq _ _ _ hs]
  rfl
theorem ia_198 (h : opc.toNat = 198) : JmpOk env s opc dstb srcb off imm := by
  intro hd hs
  obtain rfl : opc = 198 := BitVec.eq_of_toNat_eq h
  rw [ex_198, show BitVec.toNat (198 : BitVec 8) = 198 from rfl, arm_198]
  simp only [rd_eq _ _ _ hd]
  rfl
theorem ia_206 (h : opc.toNat = 206) : JmpOk env s opc dstb srcb off imm := by
  intro hd hs
  obtain rfl : opc = 206 := BitVec.eq_of_toNat_eq h
  rw [ex_206, show BitVec.toNat (206 : BitVec 8) = 206 from rfl, arm_206]
  simp only [rd_eq _ _ _ hd, rd_eq _ _ _ hs]
  rfl
theorem ia_214 (h : opc.toNat = 214) : JmpOk env s opc dstb srcb off imm := by
  intro hd hs
  obtain rfl : opc = 214 := BitVec.eq_of_toNat_eq h
  rw [ex_214, show BitVec.toNat (214 : BitVec 8) = 214 from rfl, arm_214]
  simp only [rd_eq _ _ _ hd]
  rfl
theorem ia_222 (h : opc.toNat = 222) : JmpOk env s opc dstb srcb off imm := by
  intro hd hs
  obtain rfl : opc = 222 := BitVec.eq_of_toNat_eq h
  rw [ex_222, show BitVec.toNat (222 : BitVec 8) = 222 from rfl, arm_222]
  simp only [rd_eq _ _ _ hd, rd_eq _ _ _ hs]
  rfl

/-! ## dispatch -/

theorem ia_alu_all (h : opc.toNat ∈ aluOpcodes) : AluOk env s opc dstb srcb off imm := by
  intro hd hs
  simp only [aluOpcodes, List.mem_cons, List.not_mem_nil, or_false] at h
  rcases h with h | h | h | h | h | h | h | h | h | h | h | h | h | h | h | h | h | h | h | h | h | h | h | h | h | h | h | h | h | h |
    h | h | h | h | h | h | h | h | h | h | h | h | h | h | h | h | h | h | h | h | h | h
  · exact ia_4 h hd hs
  · exact ia_12 h hd hs
  · exact ia_20 h hd hs
  · exact ia_28 h hd hs
  · exact ia_36 h hd hs
  · exact ia_44 h hd hs
  · exact ia_52 h hd hs
  · exact ia_60 h hd hs
  · exact ia_68 h hd hs
  · exact ia_76 h hd hs
  · exact ia_84 h hd hs
  · exact ia_92 h hd hs
  · exact ia_100 h hd hs
  · exact ia_108 h hd hs
  · exact ia_116 h hd hs
  · exact ia_124 h hd hs
  · exact ia_132 h hd hs
  · exact ia_148 h hd hs
  · exact ia_156 h hd hs
  · exact ia_164 h hd hs
  · exact ia_172 h hd hs
  · exact ia_180 h hd hs
  · exact ia_188 h hd hs
  · exact ia_196 h hd hs
  · exact ia_204 h hd hs
  · exact ia_212 h hd hs
  · exact ia_220 h hd hs
  · exact ia_7 h hd hs
  · exact ia_15 h hd hs
  · exact ia_23 h hd hs
  · exact ia_31 h hd hs
  · exact ia_39 h hd hs
  · exact ia_47 h hd hs
  · exact ia_55 h hd hs
  · exact ia_63 h hd hs
  · exact ia_71 h hd hs
  · exact ia_79 h hd hs
  · exact ia_87 h hd hs
  · exact ia_95 h hd hs
  · exact ia_103 h hd hs
  · exact ia_111 h hd hs
  · exact ia_119 h hd hs
  · exact ia_127 h hd hs
  · exact ia_135 h hd hs
  · exact ia_151 h hd hs
  · exact ia_159 h hd hs
  · exact ia_167 h hd hs
  · exact ia_175 h hd hs
  · exact ia_183 h hd hs
  · exact ia_191 h hd hs
  · exact ia_199 h hd hs
  · exact ia_207 h hd hs
theorem ia_jmp_all (h : opc.toNat ∈ jmpOpcodes) : JmpOk env s opc dstb srcb off imm := by
  intro hd hs
  simp only [jmpOpcodes, List.mem_cons, List.not_mem_nil, or_false] at h
  rcases h with h | h | h | h | h | h | h | h | h | h | h | h | h | h | h | h | h | h | h | h | h | h | h | h | h | h | h | h | h | h |
    h | h | h | h | h | h | h | h | h | h | h | h | h | h | h
  · exact ia_5 h hd hs
  · exact ia_21 h hd hs
  · exact ia_29 h hd hs
  · exact ia_37 h hd hs
  · exact ia_45 h hd hs
  · exact ia_53 h hd hs
  · exact ia_61 h hd hs
  · exact ia_165 h hd hs
  · exact ia_173 h hd hs
  · exact ia_181 h hd hs
  · exact ia_189 h hd hs
  · exact ia_69 h hd hs
  · exact ia_77 h hd hs
  · exact ia_85 h hd hs
  · exact ia_93 h hd hs
  · exact ia_101 h hd hs
  · exact ia_109 h hd hs
  · exact ia_117 h hd hs
  · exact ia_125 h hd hs
  · exact ia_197 h hd hs
  · exact ia_205 h hd hs
  · exact ia_213 h hd hs
  · exact ia_221 h hd hs
  · exact ia_22 h hd hs
  · exact ia_30 h hd hs
  · exact ia_38 h hd hs
  · exact ia_46 h hd hs
  · exact ia_54 h hd hs
  · exact ia_62 h hd hs
  · exact ia_166 h hd hs
  · exact ia_174 h hd hs
  · exact ia_182 h hd hs
  · exact ia_190 h hd hs
  · exact ia_70 h hd hs
  · exact ia_78 h hd hs
  · exact ia_86 h hd hs
  · exact ia_94 h hd hs
  · exact ia_102 h hd hs
  · exact ia_110 h hd hs
  · exact ia_118 h hd hs
  · exact ia_126 h hd hs
  · exact ia_198 h hd hs
  · exact ia_206 h hd hs
  · exact ia_214 h hd hs
  · exact ia_222 h hd hs

end Rbpf.InterpArmsAux
