/-
  Lemmas for `InterpCtlAux.lean`, part 1: what the model's `Interp.exec` does on the opcodes the translated control skeleton does not
  handle itself.  (a) On the 119 ALU / JMP / memory opcodes (`isOther`) the outcome `Keeps` the frames, the frame sizes and the call
  log, returns the input state with an error, and is never `.done` — shown through the arms `ex_N` of `InterpArmsAux` /
  `InterpMemAux` and closure lemmas for the model's primitives.  (b) On every opcode byte that is none of the 123 instructions the
  model reaches its final `.panic` arm.  The per-opcode stanzas are mechanical.
-/
import RbpfModel.Lemmas.InterpCtlDefs
import RbpfModel.Lemmas.InterpArmsAux
import RbpfModel.Lemmas.InterpMemAux
namespace Rbpf.Src
open Rbpf.Generated Rbpf.Interp

/-- what the 119 data arms leave alone: frames, frame sizes and the call log on `.next`; the whole state on an error; and
    they never end the program -/
def Keeps (s : State) : Outcome → Prop
  | .next s' => s'.frames = s.frames ∧ s'.usage = s.usage ∧ s'.log = s.log
  | .done _ _ => False
  | .err _ s' => s' = s
  | .panic => True
  | .fault => True

theorem keeps_next (s : State) : Keeps s (.next s) := ⟨rfl, rfl, rfl⟩
theorem keeps_panic (s : State) : Keeps s .panic := trivial
theorem keeps_ite (s : State) (c : Prop) [Decidable c] (a b : Outcome) (ha : Keeps s a) (hb : Keeps s b) :
    Keeps s (if c then a else b) := by split <;> assumption
theorem keeps_rd (s : State) (i : Nat) (k : BitVec 64 → Outcome) (h : ∀ v, Keeps s (k v)) : Keeps s (rd s i k) := by
  unfold rd; split
  · exact h _
  · trivial
theorem keeps_wr (s : State) (i : Nat) (v : BitVec 64) : Keeps s (wr s i v) := by
  unfold wr; split
  · exact ⟨rfl, rfl, rfl⟩
  · trivial
theorem keeps_jumpTo (s : State) (t : Int) : Keeps s (jumpTo s t) := by
  unfold jumpTo; split
  · trivial
  · exact ⟨rfl, rfl, rfl⟩
theorem keeps_branch (s : State) (off : BitVec 16) (c : Bool) : Keeps s (branch s off c) := by
  unfold branch; split
  · exact keeps_jumpTo _ _
  · exact keeps_next s
theorem keeps_load (env : Env) (s : State) (a : BitVec 64) (w d : Nat) : Keeps s (load env s a w d) := by
  unfold load; split
  · split
    · exact keeps_wr _ _ _
    · trivial
  · rfl
theorem keeps_store (env : Env) (s : State) (a : BitVec 64) (w : Nat) (v : BitVec 64) : Keeps s (store env s a w v) := by
  unfold store; split
  · split
    · exact ⟨rfl, rfl, rfl⟩
    · trivial
  · rfl
theorem keeps_xadd (env : Env) (s : State) (a : BitVec 64) (w : Nat) (v : BitVec 64) : Keeps s (xadd env s a w v) := by
  unfold xadd; split
  · split
    · split
      · split
        · exact ⟨rfl, rfl, rfl⟩
        · trivial
      · trivial
    · rfl
  · rfl
theorem keeps_pktAbs (s : State) (imm : BitVec 32) (k : BitVec 64 → Outcome) (h : ∀ v, Keeps s (k v)) :
    Keeps s (pktAbs s imm k) := by
  unfold pktAbs; split
  · trivial
  · exact h _

/-- closes `Keeps s arm` for an arm built from the model's primitives -/
macro "keeps_arm" : tactic => `(tactic|
  repeat (first
    | exact keeps_wr _ _ _ | exact keeps_branch _ _ _ | exact keeps_load _ _ _ _ _ | exact keeps_store _ _ _ _ _
    | exact keeps_xadd _ _ _ _ _ | exact keeps_next _ | exact keeps_panic _
    | (apply keeps_rd; intro _) | (apply keeps_pktAbs; intro _) | apply keeps_ite))

/-! ## the 119 data arms keep frames, frame sizes and log -/

variable {env : Env} {s : State} {opc dstb srcb : BitVec 8} {off : BitVec 16} {imm : BitVec 32}

theorem keeps_4 (h : opc.toNat = 4) : Keeps s (Interp.exec env s ⟨opc, dstb, srcb, off, imm⟩) := by
  obtain rfl : opc = 4 := BitVec.eq_of_toNat_eq h; rw [InterpArmsAux.ex_4]; keeps_arm
theorem keeps_12 (h : opc.toNat = 12) : Keeps s (Interp.exec env s ⟨opc, dstb, srcb, off, imm⟩) := by
  obtain rfl : opc = 12 := BitVec.eq_of_toNat_eq h; rw [InterpArmsAux.ex_12]; keeps_arm
theorem keeps_20 (h : opc.toNat = 20) : Keeps s (Interp.exec env s ⟨opc, dstb, srcb, off, imm⟩) := by
  obtain rfl : opc = 20 := BitVec.eq_of_toNat_eq h; rw [InterpArmsAux.ex_20]; keeps_arm
theorem keeps_28 (h : opc.toNat = 28) : Keeps s (Interp.exec env s ⟨opc, dstb, srcb, off, imm⟩) := by
  obtain rfl : opc = 28 := BitVec.eq_of_toNat_eq h; rw [InterpArmsAux.ex_28]; keeps_arm
theorem keeps_36 (h : opc.toNat = 36) : Keeps s (Interp.exec env s ⟨opc, dstb, srcb, off, imm⟩) := by
  obtain rfl : opc = 36 := BitVec.eq_of_toNat_eq h; rw [InterpArmsAux.ex_36]; keeps_arm
theorem keeps_44 (h : opc.toNat = 44) : Keeps s (Interp.exec env s ⟨opc, dstb, srcb, off, imm⟩) := by
  obtain rfl : opc = 44 := BitVec.eq_of_toNat_eq h; rw [InterpArmsAux.ex_44]; keeps_arm
theorem keeps_52 (h : opc.toNat = 52) : Keeps s (Interp.exec env s ⟨opc, dstb, srcb, off, imm⟩) := by
  obtain rfl : opc = 52 := BitVec.eq_of_toNat_eq h; rw [InterpArmsAux.ex_52]; keeps_arm
theorem keeps_60 (h : opc.toNat = 60) : Keeps s (Interp.exec env s ⟨opc, dstb, srcb, off, imm⟩) := by
  obtain rfl : opc = 60 := BitVec.eq_of_toNat_eq h; rw [InterpArmsAux.ex_60]; keeps_arm
theorem keeps_68 (h : opc.toNat = 68) : Keeps s (Interp.exec env s ⟨opc, dstb, srcb, off, imm⟩) := by
  obtain rfl : opc = 68 := BitVec.eq_of_toNat_eq h; rw [InterpArmsAux.ex_68]; keeps_arm
theorem keeps_76 (h : opc.toNat = 76) : Keeps s (Interp.exec env s ⟨opc, dstb, srcb, off, imm⟩) := by
  obtain rfl : opc = 76 := BitVec.eq_of_toNat_eq h; rw [InterpArmsAux.ex_76]; keeps_arm
theorem keeps_84 (h : opc.toNat = 84) : Keeps s (Interp.exec env s ⟨opc, dstb, srcb, off, imm⟩) := by
  obtain rfl : opc = 84 := BitVec.eq_of_toNat_eq h; rw [InterpArmsAux.ex_84]; keeps_arm
theorem keeps_92 (h : opc.toNat = 92) : Keeps s (Interp.exec env s ⟨opc, dstb, srcb, off, imm⟩) := by
  obtain rfl : opc = 92 := BitVec.eq_of_toNat_eq h; rw [InterpArmsAux.ex_92]; keeps_arm
theorem keeps_100 (h : opc.toNat = 100) : Keeps s (Interp.exec env s ⟨opc, dstb, srcb, off, imm⟩) := by
  obtain rfl : opc = 100 := BitVec.eq_of_toNat_eq h; rw [InterpArmsAux.ex_100]; keeps_arm
theorem keeps_108 (h : opc.toNat = 108) : Keeps s (Interp.exec env s ⟨opc, dstb, srcb, off, imm⟩) := by
  obtain rfl : opc = 108 := BitVec.eq_of_toNat_eq h; rw [InterpArmsAux.ex_108]; keeps_arm
theorem keeps_116 (h : opc.toNat = 116) : Keeps s (Interp.exec env s ⟨opc, dstb, srcb, off, imm⟩) := by
  obtain rfl : opc = 116 := BitVec.eq_of_toNat_eq h; rw [InterpArmsAux.ex_116]; keeps_arm
theorem keeps_124 (h : opc.toNat = 124) : Keeps s (Interp.exec env s ⟨opc, dstb, srcb, off, imm⟩) := by
  obtain rfl : opc = 124 := BitVec.eq_of_toNat_eq h; rw [InterpArmsAux.ex_124]; keeps_arm
theorem keeps_132 (h : opc.toNat = 132) : Keeps s (Interp.exec env s ⟨opc, dstb, srcb, off, imm⟩) := by
  obtain rfl : opc = 132 := BitVec.eq_of_toNat_eq h; rw [InterpArmsAux.ex_132]; keeps_arm
theorem keeps_148 (h : opc.toNat = 148) : Keeps s (Interp.exec env s ⟨opc, dstb, srcb, off, imm⟩) := by
  obtain rfl : opc = 148 := BitVec.eq_of_toNat_eq h; rw [InterpArmsAux.ex_148]; keeps_arm
theorem keeps_156 (h : opc.toNat = 156) : Keeps s (Interp.exec env s ⟨opc, dstb, srcb, off, imm⟩) := by
  obtain rfl : opc = 156 := BitVec.eq_of_toNat_eq h; rw [InterpArmsAux.ex_156]; keeps_arm
theorem keeps_164 (h : opc.toNat = 164) : Keeps s (Interp.exec env s ⟨opc, dstb, srcb, off, imm⟩) := by
  obtain rfl : opc = 164 := BitVec.eq_of_toNat_eq h; rw [InterpArmsAux.ex_164]; keeps_arm
theorem keeps_172 (h : opc.toNat = 172) : Keeps s (Interp.exec env s ⟨opc, dstb, srcb, off, imm⟩) := by
  obtain rfl : opc = 172 := BitVec.eq_of_toNat_eq h; rw [InterpArmsAux.ex_172]; keeps_arm
theorem keeps_180 (h : opc.toNat = 180) : Keeps s (Interp.exec env s ⟨opc, dstb, srcb, off, imm⟩) := by
  obtain rfl : opc = 180 := BitVec.eq_of_toNat_eq h; rw [InterpArmsAux.ex_180]; keeps_arm
theorem keeps_188 (h : opc.toNat = 188) : Keeps s (Interp.exec env s ⟨opc, dstb, srcb, off, imm⟩) := by
  obtain rfl : opc = 188 := BitVec.eq_of_toNat_eq h; rw [InterpArmsAux.ex_188]; keeps_arm
theorem keeps_196 (h : opc.toNat = 196) : Keeps s (Interp.exec env s ⟨opc, dstb, srcb, off, imm⟩) := by
  obtain rfl : opc = 196 := BitVec.eq_of_toNat_eq h; rw [InterpArmsAux.ex_196]; keeps_arm
theorem keeps_204 (h : opc.toNat = 204) : Keeps s (Interp.exec env s ⟨opc, dstb, srcb, off, imm⟩) := by
  obtain rfl : opc = 204 := BitVec.eq_of_toNat_eq h; rw [InterpArmsAux.ex_204]; keeps_arm
theorem keeps_212 (h : opc.toNat = 212) : Keeps s (Interp.exec env s ⟨opc, dstb, srcb, off, imm⟩) := by
  obtain rfl : opc = 212 := BitVec.eq_of_toNat_eq h; rw [InterpArmsAux.ex_212]; keeps_arm
theorem keeps_220 (h : opc.toNat = 220) : Keeps s (Interp.exec env s ⟨opc, dstb, srcb, off, imm⟩) := by
  obtain rfl : opc = 220 := BitVec.eq_of_toNat_eq h; rw [InterpArmsAux.ex_220]; keeps_arm
theorem keeps_7 (h : opc.toNat = 7) : Keeps s (Interp.exec env s ⟨opc, dstb, srcb, off, imm⟩) := by
  obtain rfl : opc = 7 := BitVec.eq_of_toNat_eq h; rw [InterpArmsAux.ex_7]; keeps_arm
theorem keeps_15 (h : opc.toNat = 15) : Keeps s (Interp.exec env s ⟨opc, dstb, srcb, off, imm⟩) := by
  obtain rfl : opc = 15 := BitVec.eq_of_toNat_eq h; rw [InterpArmsAux.ex_15]; keeps_arm
theorem keeps_23 (h : opc.toNat = 23) : Keeps s (Interp.exec env s ⟨opc, dstb, srcb, off, imm⟩) := by
  obtain rfl : opc = 23 := BitVec.eq_of_toNat_eq h; rw [InterpArmsAux.ex_23]; keeps_arm
theorem keeps_31 (h : opc.toNat = 31) : Keeps s (Interp.exec env s ⟨opc, dstb, srcb, off, imm⟩) := by
  obtain rfl : opc = 31 := BitVec.eq_of_toNat_eq h; rw [InterpArmsAux.ex_31]; keeps_arm
theorem keeps_39 (h : opc.toNat = 39) : Keeps s (Interp.exec env s ⟨opc, dstb, srcb, off, imm⟩) := by
  obtain rfl : opc = 39 := BitVec.eq_of_toNat_eq h; rw [InterpArmsAux.ex_39]; keeps_arm
theorem keeps_47 (h : opc.toNat = 47) : Keeps s (Interp.exec env s ⟨opc, dstb, srcb, off, imm⟩) := by
  obtain rfl : opc = 47 := BitVec.eq_of_toNat_eq h; rw [InterpArmsAux.ex_47]; keeps_arm
theorem keeps_55 (h : opc.toNat = 55) : Keeps s (Interp.exec env s ⟨opc, dstb, srcb, off, imm⟩) := by
  obtain rfl : opc = 55 := BitVec.eq_of_toNat_eq h; rw [InterpArmsAux.ex_55]; keeps_arm
theorem keeps_63 (h : opc.toNat = 63) : Keeps s (Interp.exec env s ⟨opc, dstb, srcb, off, imm⟩) := by
  obtain rfl : opc = 63 := BitVec.eq_of_toNat_eq h; rw [InterpArmsAux.ex_63]; keeps_arm
theorem keeps_71 (h : opc.toNat = 71) : Keeps s (Interp.exec env s ⟨opc, dstb, srcb, off, imm⟩) := by
  obtain rfl : opc = 71 := BitVec.eq_of_toNat_eq h; rw [InterpArmsAux.ex_71]; keeps_arm
theorem keeps_79 (h : opc.toNat = 79) : Keeps s (Interp.exec env s ⟨opc, dstb, srcb, off, imm⟩) := by
  obtain rfl : opc = 79 := BitVec.eq_of_toNat_eq h; rw [InterpArmsAux.ex_79]; keeps_arm
theorem keeps_87 (h : opc.toNat = 87) : Keeps s (Interp.exec env s ⟨opc, dstb, srcb, off, imm⟩) := by
  obtain rfl : opc = 87 := BitVec.eq_of_toNat_eq h; rw [InterpArmsAux.ex_87]; keeps_arm
theorem keeps_95 (h : opc.toNat = 95) : Keeps s (Interp.exec env s ⟨opc, dstb, srcb, off, imm⟩) := by
  obtain rfl : opc = 95 := BitVec.eq_of_toNat_eq h; rw [InterpArmsAux.ex_95]; keeps_arm
theorem keeps_103 (h : opc.toNat = 103) : Keeps s (Interp.exec env s ⟨opc, dstb, srcb, off, imm⟩) := by
  obtain rfl : opc = 103 := BitVec.eq_of_toNat_eq h; rw [InterpArmsAux.ex_103]; keeps_arm
theorem keeps_111 (h : opc.toNat = 111) : Keeps s (Interp.exec env s ⟨opc, dstb, srcb, off, imm⟩) := by
  obtain rfl : opc = 111 := BitVec.eq_of_toNat_eq h; rw [InterpArmsAux.ex_111]; keeps_arm
theorem keeps_119 (h : opc.toNat = 119) : Keeps s (Interp.exec env s ⟨opc, dstb, srcb, off, imm⟩) := by
  obtain rfl : opc = 119 := BitVec.eq_of_toNat_eq h; rw [InterpArmsAux.ex_119]; keeps_arm
theorem keeps_127 (h : opc.toNat = 127) : Keeps s (Interp.exec env s ⟨opc, dstb, srcb, off, imm⟩) := by
  obtain rfl : opc = 127 := BitVec.eq_of_toNat_eq h; rw [InterpArmsAux.ex_127]; keeps_arm
theorem keeps_135 (h : opc.toNat = 135) : Keeps s (Interp.exec env s ⟨opc, dstb, srcb, off, imm⟩) := by
  obtain rfl : opc = 135 := BitVec.eq_of_toNat_eq h; rw [InterpArmsAux.ex_135]; keeps_arm
theorem keeps_151 (h : opc.toNat = 151) : Keeps s (Interp.exec env s ⟨opc, dstb, srcb, off, imm⟩) := by
  obtain rfl : opc = 151 := BitVec.eq_of_toNat_eq h; rw [InterpArmsAux.ex_151]; keeps_arm
theorem keeps_159 (h : opc.toNat = 159) : Keeps s (Interp.exec env s ⟨opc, dstb, srcb, off, imm⟩) := by
  obtain rfl : opc = 159 := BitVec.eq_of_toNat_eq h; rw [InterpArmsAux.ex_159]; keeps_arm
theorem keeps_167 (h : opc.toNat = 167) : Keeps s (Interp.exec env s ⟨opc, dstb, srcb, off, imm⟩) := by
  obtain rfl : opc = 167 := BitVec.eq_of_toNat_eq h; rw [InterpArmsAux.ex_167]; keeps_arm
theorem keeps_175 (h : opc.toNat = 175) : Keeps s (Interp.exec env s ⟨opc, dstb, srcb, off, imm⟩) := by
  obtain rfl : opc = 175 := BitVec.eq_of_toNat_eq h; rw [InterpArmsAux.ex_175]; keeps_arm
theorem keeps_183 (h : opc.toNat = 183) : Keeps s (Interp.exec env s ⟨opc, dstb, srcb, off, imm⟩) := by
  obtain rfl : opc = 183 := BitVec.eq_of_toNat_eq h; rw [InterpArmsAux.ex_183]; keeps_arm
theorem keeps_191 (h : opc.toNat = 191) : Keeps s (Interp.exec env s ⟨opc, dstb, srcb, off, imm⟩) := by
  obtain rfl : opc = 191 := BitVec.eq_of_toNat_eq h; rw [InterpArmsAux.ex_191]; keeps_arm
theorem keeps_199 (h : opc.toNat = 199) : Keeps s (Interp.exec env s ⟨opc, dstb, srcb, off, imm⟩) := by
  obtain rfl : opc = 199 := BitVec.eq_of_toNat_eq h; rw [InterpArmsAux.ex_199]; keeps_arm
theorem keeps_207 (h : opc.toNat = 207) : Keeps s (Interp.exec env s ⟨opc, dstb, srcb, off, imm⟩) := by
  obtain rfl : opc = 207 := BitVec.eq_of_toNat_eq h; rw [InterpArmsAux.ex_207]; keeps_arm
theorem keeps_alu (h : opc.toNat ∈ aluOpcodes) : Keeps s (Interp.exec env s ⟨opc, dstb, srcb, off, imm⟩) := by
  simp only [aluOpcodes, List.mem_cons, List.not_mem_nil, or_false] at h
  rcases h with h | h | h | h | h | h | h | h | h | h | h | h | h | h | h | h | h | h | h | h | h | h | h | h | h | h | h | h | h | h |
    h | h | h | h | h | h | h | h | h | h | h | h | h | h | h | h | h | h | h | h | h | h
  · exact keeps_4 h
  · exact keeps_12 h
  · exact keeps_20 h
  · exact keeps_28 h
  · exact keeps_36 h
  · exact keeps_44 h
  · exact keeps_52 h
  · exact keeps_60 h
  · exact keeps_68 h
  · exact keeps_76 h
  · exact keeps_84 h
  · exact keeps_92 h
  · exact keeps_100 h
  · exact keeps_108 h
  · exact keeps_116 h
  · exact keeps_124 h
  · exact keeps_132 h
  · exact keeps_148 h
  · exact keeps_156 h
  · exact keeps_164 h
  · exact keeps_172 h
  · exact keeps_180 h
  · exact keeps_188 h
  · exact keeps_196 h
  · exact keeps_204 h
  · exact keeps_212 h
  · exact keeps_220 h
  · exact keeps_7 h
  · exact keeps_15 h
  · exact keeps_23 h
  · exact keeps_31 h
  · exact keeps_39 h
  · exact keeps_47 h
  · exact keeps_55 h
  · exact keeps_63 h
  · exact keeps_71 h
  · exact keeps_79 h
  · exact keeps_87 h
  · exact keeps_95 h
  · exact keeps_103 h
  · exact keeps_111 h
  · exact keeps_119 h
  · exact keeps_127 h
  · exact keeps_135 h
  · exact keeps_151 h
  · exact keeps_159 h
  · exact keeps_167 h
  · exact keeps_175 h
  · exact keeps_183 h
  · exact keeps_191 h
  · exact keeps_199 h
  · exact keeps_207 h

theorem keeps_5 (h : opc.toNat = 5) : Keeps s (Interp.exec env s ⟨opc, dstb, srcb, off, imm⟩) := by
  obtain rfl : opc = 5 := BitVec.eq_of_toNat_eq h; rw [InterpArmsAux.ex_5]; keeps_arm
theorem keeps_21 (h : opc.toNat = 21) : Keeps s (Interp.exec env s ⟨opc, dstb, srcb, off, imm⟩) := by
  obtain rfl : opc = 21 := BitVec.eq_of_toNat_eq h; rw [InterpArmsAux.ex_21]; keeps_arm
theorem keeps_29 (h : opc.toNat = 29) : Keeps s (Interp.exec env s ⟨opc, dstb, srcb, off, imm⟩) := by
  obtain rfl : opc = 29 := BitVec.eq_of_toNat_eq h; rw [InterpArmsAux.ex_29]; keeps_arm
theorem keeps_37 (h : opc.toNat = 37) : Keeps s (Interp.exec env s ⟨opc, dstb, srcb, off, imm⟩) := by
  obtain rfl : opc = 37 := BitVec.eq_of_toNat_eq h; rw [InterpArmsAux.ex_37]; keeps_arm
theorem keeps_45 (h : opc.toNat = 45) : Keeps s (Interp.exec env s ⟨opc, dstb, srcb, off, imm⟩) := by
  obtain rfl : opc = 45 := BitVec.eq_of_toNat_eq h; rw [InterpArmsAux.ex_45]; keeps_arm
theorem keeps_53 (h : opc.toNat = 53) : Keeps s (Interp.exec env s ⟨opc, dstb, srcb, off, imm⟩) := by
  obtain rfl : opc = 53 := BitVec.eq_of_toNat_eq h; rw [InterpArmsAux.ex_53]; keeps_arm
theorem keeps_61 (h : opc.toNat = 61) : Keeps s (Interp.exec env s ⟨opc, dstb, srcb, off, imm⟩) := by
  obtain rfl : opc = 61 := BitVec.eq_of_toNat_eq h; rw [InterpArmsAux.ex_61]; keeps_arm
theorem keeps_165 (h : opc.toNat = 165) : Keeps s (Interp.exec env s ⟨opc, dstb, srcb, off, imm⟩) := by
  obtain rfl : opc = 165 := BitVec.eq_of_toNat_eq h; rw [InterpArmsAux.ex_165]; keeps_arm
theorem keeps_173 (h : opc.toNat = 173) : Keeps s (Interp.exec env s ⟨opc, dstb, srcb, off, imm⟩) := by
  obtain rfl : opc = 173 := BitVec.eq_of_toNat_eq h; rw [InterpArmsAux.ex_173]; keeps_arm
theorem keeps_181 (h : opc.toNat = 181) : Keeps s (Interp.exec env s ⟨opc, dstb, srcb, off, imm⟩) := by
  obtain rfl : opc = 181 := BitVec.eq_of_toNat_eq h; rw [InterpArmsAux.ex_181]; keeps_arm
theorem keeps_189 (h : opc.toNat = 189) : Keeps s (Interp.exec env s ⟨opc, dstb, srcb, off, imm⟩) := by
  obtain rfl : opc = 189 := BitVec.eq_of_toNat_eq h; rw [InterpArmsAux.ex_189]; keeps_arm
theorem keeps_69 (h : opc.toNat = 69) : Keeps s (Interp.exec env s ⟨opc, dstb, srcb, off, imm⟩) := by
  obtain rfl : opc = 69 := BitVec.eq_of_toNat_eq h; rw [InterpArmsAux.ex_69]; keeps_arm
theorem keeps_77 (h : opc.toNat = 77) : Keeps s (Interp.exec env s ⟨opc, dstb, srcb, off, imm⟩) := by
  obtain rfl : opc = 77 := BitVec.eq_of_toNat_eq h; rw [InterpArmsAux.ex_77]; keeps_arm
theorem keeps_85 (h : opc.toNat = 85) : Keeps s (Interp.exec env s ⟨opc, dstb, srcb, off, imm⟩) := by
  obtain rfl : opc = 85 := BitVec.eq_of_toNat_eq h; rw [InterpArmsAux.ex_85]; keeps_arm
theorem keeps_93 (h : opc.toNat = 93) : Keeps s (Interp.exec env s ⟨opc, dstb, srcb, off, imm⟩) := by
  obtain rfl : opc = 93 := BitVec.eq_of_toNat_eq h; rw [InterpArmsAux.ex_93]; keeps_arm
theorem keeps_101 (h : opc.toNat = 101) : Keeps s (Interp.exec env s ⟨opc, dstb, srcb, off, imm⟩) := by
  obtain rfl : opc = 101 := BitVec.eq_of_toNat_eq h; rw [InterpArmsAux.ex_101]; keeps_arm
theorem keeps_109 (h : opc.toNat = 109) : Keeps s (Interp.exec env s ⟨opc, dstb, srcb, off, imm⟩) := by
  obtain rfl : opc = 109 := BitVec.eq_of_toNat_eq h; rw [InterpArmsAux.ex_109]; keeps_arm
theorem keeps_117 (h : opc.toNat = 117) : Keeps s (Interp.exec env s ⟨opc, dstb, srcb, off, imm⟩) := by
  obtain rfl : opc = 117 := BitVec.eq_of_toNat_eq h; rw [InterpArmsAux.ex_117]; keeps_arm
theorem keeps_125 (h : opc.toNat = 125) : Keeps s (Interp.exec env s ⟨opc, dstb, srcb, off, imm⟩) := by
  obtain rfl : opc = 125 := BitVec.eq_of_toNat_eq h; rw [InterpArmsAux.ex_125]; keeps_arm
theorem keeps_197 (h : opc.toNat = 197) : Keeps s (Interp.exec env s ⟨opc, dstb, srcb, off, imm⟩) := by
  obtain rfl : opc = 197 := BitVec.eq_of_toNat_eq h; rw [InterpArmsAux.ex_197]; keeps_arm
theorem keeps_205 (h : opc.toNat = 205) : Keeps s (Interp.exec env s ⟨opc, dstb, srcb, off, imm⟩) := by
  obtain rfl : opc = 205 := BitVec.eq_of_toNat_eq h; rw [InterpArmsAux.ex_205]; keeps_arm
theorem keeps_213 (h : opc.toNat = 213) : Keeps s (Interp.exec env s ⟨opc, dstb, srcb, off, imm⟩) := by
  obtain rfl : opc = 213 := BitVec.eq_of_toNat_eq h; rw [InterpArmsAux.ex_213]; keeps_arm
theorem keeps_221 (h : opc.toNat = 221) : Keeps s (Interp.exec env s ⟨opc, dstb, srcb, off, imm⟩) := by
  obtain rfl : opc = 221 := BitVec.eq_of_toNat_eq h; rw [InterpArmsAux.ex_221]; keeps_arm
theorem keeps_22 (h : opc.toNat = 22) : Keeps s (Interp.exec env s ⟨opc, dstb, srcb, off, imm⟩) := by
  obtain rfl : opc = 22 := BitVec.eq_of_toNat_eq h; rw [InterpArmsAux.ex_22]; keeps_arm
theorem keeps_30 (h : opc.toNat = 30) : Keeps s (Interp.exec env s ⟨opc, dstb, srcb, off, imm⟩) := by
  obtain rfl : opc = 30 := BitVec.eq_of_toNat_eq h; rw [InterpArmsAux.ex_30]; keeps_arm
theorem keeps_38 (h : opc.toNat = 38) : Keeps s (Interp.exec env s ⟨opc, dstb, srcb, off, imm⟩) := by
  obtain rfl : opc = 38 := BitVec.eq_of_toNat_eq h; rw [InterpArmsAux.ex_38]; keeps_arm
theorem keeps_46 (h : opc.toNat = 46) : Keeps s (Interp.exec env s ⟨opc, dstb, srcb, off, imm⟩) := by
  obtain rfl : opc = 46 := BitVec.eq_of_toNat_eq h; rw [InterpArmsAux.ex_46]; keeps_arm
theorem keeps_54 (h : opc.toNat = 54) : Keeps s (Interp.exec env s ⟨opc, dstb, srcb, off, imm⟩) := by
  obtain rfl : opc = 54 := BitVec.eq_of_toNat_eq h; rw [InterpArmsAux.ex_54]; keeps_arm
theorem keeps_62 (h : opc.toNat = 62) : Keeps s (Interp.exec env s ⟨opc, dstb, srcb, off, imm⟩) := by
  obtain rfl : opc = 62 := BitVec.eq_of_toNat_eq h; rw [InterpArmsAux.ex_62]; keeps_arm
theorem keeps_166 (h : opc.toNat = 166) : Keeps s (Interp.exec env s ⟨opc, dstb, srcb, off, imm⟩) := by
  obtain rfl : opc = 166 := BitVec.eq_of_toNat_eq h; rw [InterpArmsAux.ex_166]; keeps_arm
theorem keeps_174 (h : opc.toNat = 174) : Keeps s (Interp.exec env s ⟨opc, dstb, srcb, off, imm⟩) := by
  obtain rfl : opc = 174 := BitVec.eq_of_toNat_eq h; rw [InterpArmsAux.ex_174]; keeps_arm
theorem keeps_182 (h : opc.toNat = 182) : Keeps s (Interp.exec env s ⟨opc, dstb, srcb, off, imm⟩) := by
  obtain rfl : opc = 182 := BitVec.eq_of_toNat_eq h; rw [InterpArmsAux.ex_182]; keeps_arm
theorem keeps_190 (h : opc.toNat = 190) : Keeps s (Interp.exec env s ⟨opc, dstb, srcb, off, imm⟩) := by
  obtain rfl : opc = 190 := BitVec.eq_of_toNat_eq h; rw [InterpArmsAux.ex_190]; keeps_arm
theorem keeps_70 (h : opc.toNat = 70) : Keeps s (Interp.exec env s ⟨opc, dstb, srcb, off, imm⟩) := by
  obtain rfl : opc = 70 := BitVec.eq_of_toNat_eq h; rw [InterpArmsAux.ex_70]; keeps_arm
theorem keeps_78 (h : opc.toNat = 78) : Keeps s (Interp.exec env s ⟨opc, dstb, srcb, off, imm⟩) := by
  obtain rfl : opc = 78 := BitVec.eq_of_toNat_eq h; rw [InterpArmsAux.ex_78]; keeps_arm
theorem keeps_86 (h : opc.toNat = 86) : Keeps s (Interp.exec env s ⟨opc, dstb, srcb, off, imm⟩) := by
  obtain rfl : opc = 86 := BitVec.eq_of_toNat_eq h; rw [InterpArmsAux.ex_86]; keeps_arm
theorem keeps_94 (h : opc.toNat = 94) : Keeps s (Interp.exec env s ⟨opc, dstb, srcb, off, imm⟩) := by
  obtain rfl : opc = 94 := BitVec.eq_of_toNat_eq h; rw [InterpArmsAux.ex_94]; keeps_arm
theorem keeps_102 (h : opc.toNat = 102) : Keeps s (Interp.exec env s ⟨opc, dstb, srcb, off, imm⟩) := by
  obtain rfl : opc = 102 := BitVec.eq_of_toNat_eq h; rw [InterpArmsAux.ex_102]; keeps_arm
theorem keeps_110 (h : opc.toNat = 110) : Keeps s (Interp.exec env s ⟨opc, dstb, srcb, off, imm⟩) := by
  obtain rfl : opc = 110 := BitVec.eq_of_toNat_eq h; rw [InterpArmsAux.ex_110]; keeps_arm
theorem keeps_118 (h : opc.toNat = 118) : Keeps s (Interp.exec env s ⟨opc, dstb, srcb, off, imm⟩) := by
  obtain rfl : opc = 118 := BitVec.eq_of_toNat_eq h; rw [InterpArmsAux.ex_118]; keeps_arm
theorem keeps_126 (h : opc.toNat = 126) : Keeps s (Interp.exec env s ⟨opc, dstb, srcb, off, imm⟩) := by
  obtain rfl : opc = 126 := BitVec.eq_of_toNat_eq h; rw [InterpArmsAux.ex_126]; keeps_arm
theorem keeps_198 (h : opc.toNat = 198) : Keeps s (Interp.exec env s ⟨opc, dstb, srcb, off, imm⟩) := by
  obtain rfl : opc = 198 := BitVec.eq_of_toNat_eq h; rw [InterpArmsAux.ex_198]; keeps_arm
theorem keeps_206 (h : opc.toNat = 206) : Keeps s (Interp.exec env s ⟨opc, dstb, srcb, off, imm⟩) := by
  obtain rfl : opc = 206 := BitVec.eq_of_toNat_eq h; rw [InterpArmsAux.ex_206]; keeps_arm
theorem keeps_214 (h : opc.toNat = 214) : Keeps s (Interp.exec env s ⟨opc, dstb, srcb, off, imm⟩) := by
  obtain rfl : opc = 214 := BitVec.eq_of_toNat_eq h; rw [InterpArmsAux.ex_214]; keeps_arm
theorem keeps_222 (h : opc.toNat = 222) : Keeps s (Interp.exec env s ⟨opc, dstb, srcb, off, imm⟩) := by
  obtain rfl : opc = 222 := BitVec.eq_of_toNat_eq h; rw [InterpArmsAux.ex_222]; keeps_arm
theorem keeps_jmp (h : opc.toNat ∈ jmpOpcodes) : Keeps s (Interp.exec env s ⟨opc, dstb, srcb, off, imm⟩) := by
  simp only [jmpOpcodes, List.mem_cons, List.not_mem_nil, or_false] at h
  rcases h with h | h | h | h | h | h | h | h | h | h | h | h | h | h | h | h | h | h | h | h | h | h | h | h | h | h | h | h | h | h |
    h | h | h | h | h | h | h | h | h | h | h | h | h | h | h
  · exact keeps_5 h
  · exact keeps_21 h
  · exact keeps_29 h
  · exact keeps_37 h
  · exact keeps_45 h
  · exact keeps_53 h
  · exact keeps_61 h
  · exact keeps_165 h
  · exact keeps_173 h
  · exact keeps_181 h
  · exact keeps_189 h
  · exact keeps_69 h
  · exact keeps_77 h
  · exact keeps_85 h
  · exact keeps_93 h
  · exact keeps_101 h
  · exact keeps_109 h
  · exact keeps_117 h
  · exact keeps_125 h
  · exact keeps_197 h
  · exact keeps_205 h
  · exact keeps_213 h
  · exact keeps_221 h
  · exact keeps_22 h
  · exact keeps_30 h
  · exact keeps_38 h
  · exact keeps_46 h
  · exact keeps_54 h
  · exact keeps_62 h
  · exact keeps_166 h
  · exact keeps_174 h
  · exact keeps_182 h
  · exact keeps_190 h
  · exact keeps_70 h
  · exact keeps_78 h
  · exact keeps_86 h
  · exact keeps_94 h
  · exact keeps_102 h
  · exact keeps_110 h
  · exact keeps_118 h
  · exact keeps_126 h
  · exact keeps_198 h
  · exact keeps_206 h
  · exact keeps_214 h
  · exact keeps_222 h

theorem keeps_48 (h : opc.toNat = 48) : Keeps s (Interp.exec env s ⟨opc, dstb, srcb, off, imm⟩) := by
  obtain rfl : opc = 48 := BitVec.eq_of_toNat_eq h; rw [InterpMemAux.ex_48]; keeps_arm
theorem keeps_40 (h : opc.toNat = 40) : Keeps s (Interp.exec env s ⟨opc, dstb, srcb, off, imm⟩) := by
  obtain rfl : opc = 40 := BitVec.eq_of_toNat_eq h; rw [InterpMemAux.ex_40]; keeps_arm
theorem keeps_32 (h : opc.toNat = 32) : Keeps s (Interp.exec env s ⟨opc, dstb, srcb, off, imm⟩) := by
  obtain rfl : opc = 32 := BitVec.eq_of_toNat_eq h; rw [InterpMemAux.ex_32]; keeps_arm
theorem keeps_56 (h : opc.toNat = 56) : Keeps s (Interp.exec env s ⟨opc, dstb, srcb, off, imm⟩) := by
  obtain rfl : opc = 56 := BitVec.eq_of_toNat_eq h; rw [InterpMemAux.ex_56]; keeps_arm
theorem keeps_80 (h : opc.toNat = 80) : Keeps s (Interp.exec env s ⟨opc, dstb, srcb, off, imm⟩) := by
  obtain rfl : opc = 80 := BitVec.eq_of_toNat_eq h; rw [InterpMemAux.ex_80]; keeps_arm
theorem keeps_72 (h : opc.toNat = 72) : Keeps s (Interp.exec env s ⟨opc, dstb, srcb, off, imm⟩) := by
  obtain rfl : opc = 72 := BitVec.eq_of_toNat_eq h; rw [InterpMemAux.ex_72]; keeps_arm
theorem keeps_64 (h : opc.toNat = 64) : Keeps s (Interp.exec env s ⟨opc, dstb, srcb, off, imm⟩) := by
  obtain rfl : opc = 64 := BitVec.eq_of_toNat_eq h; rw [InterpMemAux.ex_64]; keeps_arm
theorem keeps_88 (h : opc.toNat = 88) : Keeps s (Interp.exec env s ⟨opc, dstb, srcb, off, imm⟩) := by
  obtain rfl : opc = 88 := BitVec.eq_of_toNat_eq h; rw [InterpMemAux.ex_88]; keeps_arm
theorem keeps_113 (h : opc.toNat = 113) : Keeps s (Interp.exec env s ⟨opc, dstb, srcb, off, imm⟩) := by
  obtain rfl : opc = 113 := BitVec.eq_of_toNat_eq h; rw [InterpMemAux.ex_113]; keeps_arm
theorem keeps_105 (h : opc.toNat = 105) : Keeps s (Interp.exec env s ⟨opc, dstb, srcb, off, imm⟩) := by
  obtain rfl : opc = 105 := BitVec.eq_of_toNat_eq h; rw [InterpMemAux.ex_105]; keeps_arm
theorem keeps_97 (h : opc.toNat = 97) : Keeps s (Interp.exec env s ⟨opc, dstb, srcb, off, imm⟩) := by
  obtain rfl : opc = 97 := BitVec.eq_of_toNat_eq h; rw [InterpMemAux.ex_97]; keeps_arm
theorem keeps_121 (h : opc.toNat = 121) : Keeps s (Interp.exec env s ⟨opc, dstb, srcb, off, imm⟩) := by
  obtain rfl : opc = 121 := BitVec.eq_of_toNat_eq h; rw [InterpMemAux.ex_121]; keeps_arm
theorem keeps_114 (h : opc.toNat = 114) : Keeps s (Interp.exec env s ⟨opc, dstb, srcb, off, imm⟩) := by
  obtain rfl : opc = 114 := BitVec.eq_of_toNat_eq h; rw [InterpMemAux.ex_114]; keeps_arm
theorem keeps_106 (h : opc.toNat = 106) : Keeps s (Interp.exec env s ⟨opc, dstb, srcb, off, imm⟩) := by
  obtain rfl : opc = 106 := BitVec.eq_of_toNat_eq h; rw [InterpMemAux.ex_106]; keeps_arm
theorem keeps_98 (h : opc.toNat = 98) : Keeps s (Interp.exec env s ⟨opc, dstb, srcb, off, imm⟩) := by
  obtain rfl : opc = 98 := BitVec.eq_of_toNat_eq h; rw [InterpMemAux.ex_98]; keeps_arm
theorem keeps_122 (h : opc.toNat = 122) : Keeps s (Interp.exec env s ⟨opc, dstb, srcb, off, imm⟩) := by
  obtain rfl : opc = 122 := BitVec.eq_of_toNat_eq h; rw [InterpMemAux.ex_122]; keeps_arm
theorem keeps_115 (h : opc.toNat = 115) : Keeps s (Interp.exec env s ⟨opc, dstb, srcb, off, imm⟩) := by
  obtain rfl : opc = 115 := BitVec.eq_of_toNat_eq h; rw [InterpMemAux.ex_115]; keeps_arm
theorem keeps_107 (h : opc.toNat = 107) : Keeps s (Interp.exec env s ⟨opc, dstb, srcb, off, imm⟩) := by
  obtain rfl : opc = 107 := BitVec.eq_of_toNat_eq h; rw [InterpMemAux.ex_107]; keeps_arm
theorem keeps_99 (h : opc.toNat = 99) : Keeps s (Interp.exec env s ⟨opc, dstb, srcb, off, imm⟩) := by
  obtain rfl : opc = 99 := BitVec.eq_of_toNat_eq h; rw [InterpMemAux.ex_99]; keeps_arm
theorem keeps_123 (h : opc.toNat = 123) : Keeps s (Interp.exec env s ⟨opc, dstb, srcb, off, imm⟩) := by
  obtain rfl : opc = 123 := BitVec.eq_of_toNat_eq h; rw [InterpMemAux.ex_123]; keeps_arm
theorem keeps_195 (h : opc.toNat = 195) : Keeps s (Interp.exec env s ⟨opc, dstb, srcb, off, imm⟩) := by
  obtain rfl : opc = 195 := BitVec.eq_of_toNat_eq h; rw [InterpMemAux.ex_195]; keeps_arm
theorem keeps_219 (h : opc.toNat = 219) : Keeps s (Interp.exec env s ⟨opc, dstb, srcb, off, imm⟩) := by
  obtain rfl : opc = 219 := BitVec.eq_of_toNat_eq h; rw [InterpMemAux.ex_219]; keeps_arm
theorem keeps_mem (h : opc.toNat ∈ memOpcodes) : Keeps s (Interp.exec env s ⟨opc, dstb, srcb, off, imm⟩) := by
  simp only [memOpcodes, List.mem_cons, List.not_mem_nil, or_false] at h
  rcases h with h | h | h | h | h | h | h | h | h | h | h | h | h | h | h | h | h | h | h | h | h | h
  · exact keeps_48 h
  · exact keeps_40 h
  · exact keeps_32 h
  · exact keeps_56 h
  · exact keeps_80 h
  · exact keeps_72 h
  · exact keeps_64 h
  · exact keeps_88 h
  · exact keeps_113 h
  · exact keeps_105 h
  · exact keeps_97 h
  · exact keeps_121 h
  · exact keeps_114 h
  · exact keeps_106 h
  · exact keeps_98 h
  · exact keeps_122 h
  · exact keeps_115 h
  · exact keeps_107 h
  · exact keeps_99 h
  · exact keeps_123 h
  · exact keeps_195 h
  · exact keeps_219 h

/-! ## every other opcode byte reaches the final `unreachable!()` arm -/

theorem px_0 (h : opc.toNat = 0) : Interp.exec env s ⟨opc, dstb, srcb, off, imm⟩ = .panic := by
  obtain rfl : opc = 0 := BitVec.eq_of_toNat_eq h; rfl
theorem px_1 (h : opc.toNat = 1) : Interp.exec env s ⟨opc, dstb, srcb, off, imm⟩ = .panic := by
  obtain rfl : opc = 1 := BitVec.eq_of_toNat_eq h; rfl
theorem px_2 (h : opc.toNat = 2) : Interp.exec env s ⟨opc, dstb, srcb, off, imm⟩ = .panic := by
  obtain rfl : opc = 2 := BitVec.eq_of_toNat_eq h; rfl
theorem px_3 (h : opc.toNat = 3) : Interp.exec env s ⟨opc, dstb, srcb, off, imm⟩ = .panic := by
  obtain rfl : opc = 3 := BitVec.eq_of_toNat_eq h; rfl
theorem px_6 (h : opc.toNat = 6) : Interp.exec env s ⟨opc, dstb, srcb, off, imm⟩ = .panic := by
  obtain rfl : opc = 6 := BitVec.eq_of_toNat_eq h; rfl
theorem px_8 (h : opc.toNat = 8) : Interp.exec env s ⟨opc, dstb, srcb, off, imm⟩ = .panic := by
  obtain rfl : opc = 8 := BitVec.eq_of_toNat_eq h; rfl
theorem px_9 (h : opc.toNat = 9) : Interp.exec env s ⟨opc, dstb, srcb, off, imm⟩ = .panic := by
  obtain rfl : opc = 9 := BitVec.eq_of_toNat_eq h; rfl
theorem px_10 (h : opc.toNat = 10) : Interp.exec env s ⟨opc, dstb, srcb, off, imm⟩ = .panic := by
  obtain rfl : opc = 10 := BitVec.eq_of_toNat_eq h; rfl
theorem px_11 (h : opc.toNat = 11) : Interp.exec env s ⟨opc, dstb, srcb, off, imm⟩ = .panic := by
  obtain rfl : opc = 11 := BitVec.eq_of_toNat_eq h; rfl
theorem px_13 (h : opc.toNat = 13) : Interp.exec env s ⟨opc, dstb, srcb, off, imm⟩ = .panic := by
  obtain rfl : opc = 13 := BitVec.eq_of_toNat_eq h; rfl
theorem px_14 (h : opc.toNat = 14) : Interp.exec env s ⟨opc, dstb, srcb, off, imm⟩ = .panic := by
  obtain rfl : opc = 14 := BitVec.eq_of_toNat_eq h; rfl
theorem px_16 (h : opc.toNat = 16) : Interp.exec env s ⟨opc, dstb, srcb, off, imm⟩ = .panic := by
  obtain rfl : opc = 16 := BitVec.eq_of_toNat_eq h; rfl
theorem px_17 (h : opc.toNat = 17) : Interp.exec env s ⟨opc, dstb, srcb, off, imm⟩ = .panic := by
  obtain rfl : opc = 17 := BitVec.eq_of_toNat_eq h; rfl
theorem px_18 (h : opc.toNat = 18) : Interp.exec env s ⟨opc, dstb, srcb, off, imm⟩ = .panic := by
  obtain rfl : opc = 18 := BitVec.eq_of_toNat_eq h; rfl
theorem px_19 (h : opc.toNat = 19) : Interp.exec env s ⟨opc, dstb, srcb, off, imm⟩ = .panic := by
  obtain rfl : opc = 19 := BitVec.eq_of_toNat_eq h; rfl
theorem px_25 (h : opc.toNat = 25) : Interp.exec env s ⟨opc, dstb, srcb, off, imm⟩ = .panic := by
  obtain rfl : opc = 25 := BitVec.eq_of_toNat_eq h; rfl
theorem px_26 (h : opc.toNat = 26) : Interp.exec env s ⟨opc, dstb, srcb, off, imm⟩ = .panic := by
  obtain rfl : opc = 26 := BitVec.eq_of_toNat_eq h; rfl
theorem px_27 (h : opc.toNat = 27) : Interp.exec env s ⟨opc, dstb, srcb, off, imm⟩ = .panic := by
  obtain rfl : opc = 27 := BitVec.eq_of_toNat_eq h; rfl
theorem px_33 (h : opc.toNat = 33) : Interp.exec env s ⟨opc, dstb, srcb, off, imm⟩ = .panic := by
  obtain rfl : opc = 33 := BitVec.eq_of_toNat_eq h; rfl
theorem px_34 (h : opc.toNat = 34) : Interp.exec env s ⟨opc, dstb, srcb, off, imm⟩ = .panic := by
  obtain rfl : opc = 34 := BitVec.eq_of_toNat_eq h; rfl
theorem px_35 (h : opc.toNat = 35) : Interp.exec env s ⟨opc, dstb, srcb, off, imm⟩ = .panic := by
  obtain rfl : opc = 35 := BitVec.eq_of_toNat_eq h; rfl
theorem px_41 (h : opc.toNat = 41) : Interp.exec env s ⟨opc, dstb, srcb, off, imm⟩ = .panic := by
  obtain rfl : opc = 41 := BitVec.eq_of_toNat_eq h; rfl
theorem px_42 (h : opc.toNat = 42) : Interp.exec env s ⟨opc, dstb, srcb, off, imm⟩ = .panic := by
  obtain rfl : opc = 42 := BitVec.eq_of_toNat_eq h; rfl
theorem px_43 (h : opc.toNat = 43) : Interp.exec env s ⟨opc, dstb, srcb, off, imm⟩ = .panic := by
  obtain rfl : opc = 43 := BitVec.eq_of_toNat_eq h; rfl
theorem px_49 (h : opc.toNat = 49) : Interp.exec env s ⟨opc, dstb, srcb, off, imm⟩ = .panic := by
  obtain rfl : opc = 49 := BitVec.eq_of_toNat_eq h; rfl
theorem px_50 (h : opc.toNat = 50) : Interp.exec env s ⟨opc, dstb, srcb, off, imm⟩ = .panic := by
  obtain rfl : opc = 50 := BitVec.eq_of_toNat_eq h; rfl
theorem px_51 (h : opc.toNat = 51) : Interp.exec env s ⟨opc, dstb, srcb, off, imm⟩ = .panic := by
  obtain rfl : opc = 51 := BitVec.eq_of_toNat_eq h; rfl
theorem px_57 (h : opc.toNat = 57) : Interp.exec env s ⟨opc, dstb, srcb, off, imm⟩ = .panic := by
  obtain rfl : opc = 57 := BitVec.eq_of_toNat_eq h; rfl
theorem px_58 (h : opc.toNat = 58) : Interp.exec env s ⟨opc, dstb, srcb, off, imm⟩ = .panic := by
  obtain rfl : opc = 58 := BitVec.eq_of_toNat_eq h; rfl
theorem px_59 (h : opc.toNat = 59) : Interp.exec env s ⟨opc, dstb, srcb, off, imm⟩ = .panic := by
  obtain rfl : opc = 59 := BitVec.eq_of_toNat_eq h; rfl
theorem px_65 (h : opc.toNat = 65) : Interp.exec env s ⟨opc, dstb, srcb, off, imm⟩ = .panic := by
  obtain rfl : opc = 65 := BitVec.eq_of_toNat_eq h; rfl
theorem px_66 (h : opc.toNat = 66) : Interp.exec env s ⟨opc, dstb, srcb, off, imm⟩ = .panic := by
  obtain rfl : opc = 66 := BitVec.eq_of_toNat_eq h; rfl
theorem px_67 (h : opc.toNat = 67) : Interp.exec env s ⟨opc, dstb, srcb, off, imm⟩ = .panic := by
  obtain rfl : opc = 67 := BitVec.eq_of_toNat_eq h; rfl
theorem px_73 (h : opc.toNat = 73) : Interp.exec env s ⟨opc, dstb, srcb, off, imm⟩ = .panic := by
  obtain rfl : opc = 73 := BitVec.eq_of_toNat_eq h; rfl
theorem px_74 (h : opc.toNat = 74) : Interp.exec env s ⟨opc, dstb, srcb, off, imm⟩ = .panic := by
  obtain rfl : opc = 74 := BitVec.eq_of_toNat_eq h; rfl
theorem px_75 (h : opc.toNat = 75) : Interp.exec env s ⟨opc, dstb, srcb, off, imm⟩ = .panic := by
  obtain rfl : opc = 75 := BitVec.eq_of_toNat_eq h; rfl
theorem px_81 (h : opc.toNat = 81) : Interp.exec env s ⟨opc, dstb, srcb, off, imm⟩ = .panic := by
  obtain rfl : opc = 81 := BitVec.eq_of_toNat_eq h; rfl
theorem px_82 (h : opc.toNat = 82) : Interp.exec env s ⟨opc, dstb, srcb, off, imm⟩ = .panic := by
  obtain rfl : opc = 82 := BitVec.eq_of_toNat_eq h; rfl
theorem px_83 (h : opc.toNat = 83) : Interp.exec env s ⟨opc, dstb, srcb, off, imm⟩ = .panic := by
  obtain rfl : opc = 83 := BitVec.eq_of_toNat_eq h; rfl
theorem px_89 (h : opc.toNat = 89) : Interp.exec env s ⟨opc, dstb, srcb, off, imm⟩ = .panic := by
  obtain rfl : opc = 89 := BitVec.eq_of_toNat_eq h; rfl
theorem px_90 (h : opc.toNat = 90) : Interp.exec env s ⟨opc, dstb, srcb, off, imm⟩ = .panic := by
  obtain rfl : opc = 90 := BitVec.eq_of_toNat_eq h; rfl
theorem px_91 (h : opc.toNat = 91) : Interp.exec env s ⟨opc, dstb, srcb, off, imm⟩ = .panic := by
  obtain rfl : opc = 91 := BitVec.eq_of_toNat_eq h; rfl
theorem px_96 (h : opc.toNat = 96) : Interp.exec env s ⟨opc, dstb, srcb, off, imm⟩ = .panic := by
  obtain rfl : opc = 96 := BitVec.eq_of_toNat_eq h; rfl
theorem px_104 (h : opc.toNat = 104) : Interp.exec env s ⟨opc, dstb, srcb, off, imm⟩ = .panic := by
  obtain rfl : opc = 104 := BitVec.eq_of_toNat_eq h; rfl
theorem px_112 (h : opc.toNat = 112) : Interp.exec env s ⟨opc, dstb, srcb, off, imm⟩ = .panic := by
  obtain rfl : opc = 112 := BitVec.eq_of_toNat_eq h; rfl
theorem px_120 (h : opc.toNat = 120) : Interp.exec env s ⟨opc, dstb, srcb, off, imm⟩ = .panic := by
  obtain rfl : opc = 120 := BitVec.eq_of_toNat_eq h; rfl
theorem px_128 (h : opc.toNat = 128) : Interp.exec env s ⟨opc, dstb, srcb, off, imm⟩ = .panic := by
  obtain rfl : opc = 128 := BitVec.eq_of_toNat_eq h; rfl
theorem px_129 (h : opc.toNat = 129) : Interp.exec env s ⟨opc, dstb, srcb, off, imm⟩ = .panic := by
  obtain rfl : opc = 129 := BitVec.eq_of_toNat_eq h; rfl
theorem px_130 (h : opc.toNat = 130) : Interp.exec env s ⟨opc, dstb, srcb, off, imm⟩ = .panic := by
  obtain rfl : opc = 130 := BitVec.eq_of_toNat_eq h; rfl
theorem px_131 (h : opc.toNat = 131) : Interp.exec env s ⟨opc, dstb, srcb, off, imm⟩ = .panic := by
  obtain rfl : opc = 131 := BitVec.eq_of_toNat_eq h; rfl
theorem px_134 (h : opc.toNat = 134) : Interp.exec env s ⟨opc, dstb, srcb, off, imm⟩ = .panic := by
  obtain rfl : opc = 134 := BitVec.eq_of_toNat_eq h; rfl
theorem px_136 (h : opc.toNat = 136) : Interp.exec env s ⟨opc, dstb, srcb, off, imm⟩ = .panic := by
  obtain rfl : opc = 136 := BitVec.eq_of_toNat_eq h; rfl
theorem px_137 (h : opc.toNat = 137) : Interp.exec env s ⟨opc, dstb, srcb, off, imm⟩ = .panic := by
  obtain rfl : opc = 137 := BitVec.eq_of_toNat_eq h; rfl
theorem px_138 (h : opc.toNat = 138) : Interp.exec env s ⟨opc, dstb, srcb, off, imm⟩ = .panic := by
  obtain rfl : opc = 138 := BitVec.eq_of_toNat_eq h; rfl
theorem px_139 (h : opc.toNat = 139) : Interp.exec env s ⟨opc, dstb, srcb, off, imm⟩ = .panic := by
  obtain rfl : opc = 139 := BitVec.eq_of_toNat_eq h; rfl
theorem px_140 (h : opc.toNat = 140) : Interp.exec env s ⟨opc, dstb, srcb, off, imm⟩ = .panic := by
  obtain rfl : opc = 140 := BitVec.eq_of_toNat_eq h; rfl
theorem px_142 (h : opc.toNat = 142) : Interp.exec env s ⟨opc, dstb, srcb, off, imm⟩ = .panic := by
  obtain rfl : opc = 142 := BitVec.eq_of_toNat_eq h; rfl
theorem px_143 (h : opc.toNat = 143) : Interp.exec env s ⟨opc, dstb, srcb, off, imm⟩ = .panic := by
  obtain rfl : opc = 143 := BitVec.eq_of_toNat_eq h; rfl
theorem px_144 (h : opc.toNat = 144) : Interp.exec env s ⟨opc, dstb, srcb, off, imm⟩ = .panic := by
  obtain rfl : opc = 144 := BitVec.eq_of_toNat_eq h; rfl
theorem px_145 (h : opc.toNat = 145) : Interp.exec env s ⟨opc, dstb, srcb, off, imm⟩ = .panic := by
  obtain rfl : opc = 145 := BitVec.eq_of_toNat_eq h; rfl
theorem px_146 (h : opc.toNat = 146) : Interp.exec env s ⟨opc, dstb, srcb, off, imm⟩ = .panic := by
  obtain rfl : opc = 146 := BitVec.eq_of_toNat_eq h; rfl
theorem px_147 (h : opc.toNat = 147) : Interp.exec env s ⟨opc, dstb, srcb, off, imm⟩ = .panic := by
  obtain rfl : opc = 147 := BitVec.eq_of_toNat_eq h; rfl
theorem px_150 (h : opc.toNat = 150) : Interp.exec env s ⟨opc, dstb, srcb, off, imm⟩ = .panic := by
  obtain rfl : opc = 150 := BitVec.eq_of_toNat_eq h; rfl
theorem px_152 (h : opc.toNat = 152) : Interp.exec env s ⟨opc, dstb, srcb, off, imm⟩ = .panic := by
  obtain rfl : opc = 152 := BitVec.eq_of_toNat_eq h; rfl
theorem px_153 (h : opc.toNat = 153) : Interp.exec env s ⟨opc, dstb, srcb, off, imm⟩ = .panic := by
  obtain rfl : opc = 153 := BitVec.eq_of_toNat_eq h; rfl
theorem px_154 (h : opc.toNat = 154) : Interp.exec env s ⟨opc, dstb, srcb, off, imm⟩ = .panic := by
  obtain rfl : opc = 154 := BitVec.eq_of_toNat_eq h; rfl
theorem px_155 (h : opc.toNat = 155) : Interp.exec env s ⟨opc, dstb, srcb, off, imm⟩ = .panic := by
  obtain rfl : opc = 155 := BitVec.eq_of_toNat_eq h; rfl
theorem px_157 (h : opc.toNat = 157) : Interp.exec env s ⟨opc, dstb, srcb, off, imm⟩ = .panic := by
  obtain rfl : opc = 157 := BitVec.eq_of_toNat_eq h; rfl
theorem px_158 (h : opc.toNat = 158) : Interp.exec env s ⟨opc, dstb, srcb, off, imm⟩ = .panic := by
  obtain rfl : opc = 158 := BitVec.eq_of_toNat_eq h; rfl
theorem px_160 (h : opc.toNat = 160) : Interp.exec env s ⟨opc, dstb, srcb, off, imm⟩ = .panic := by
  obtain rfl : opc = 160 := BitVec.eq_of_toNat_eq h; rfl
theorem px_161 (h : opc.toNat = 161) : Interp.exec env s ⟨opc, dstb, srcb, off, imm⟩ = .panic := by
  obtain rfl : opc = 161 := BitVec.eq_of_toNat_eq h; rfl
theorem px_162 (h : opc.toNat = 162) : Interp.exec env s ⟨opc, dstb, srcb, off, imm⟩ = .panic := by
  obtain rfl : opc = 162 := BitVec.eq_of_toNat_eq h; rfl
theorem px_163 (h : opc.toNat = 163) : Interp.exec env s ⟨opc, dstb, srcb, off, imm⟩ = .panic := by
  obtain rfl : opc = 163 := BitVec.eq_of_toNat_eq h; rfl
theorem px_168 (h : opc.toNat = 168) : Interp.exec env s ⟨opc, dstb, srcb, off, imm⟩ = .panic := by
  obtain rfl : opc = 168 := BitVec.eq_of_toNat_eq h; rfl
theorem px_169 (h : opc.toNat = 169) : Interp.exec env s ⟨opc, dstb, srcb, off, imm⟩ = .panic := by
  obtain rfl : opc = 169 := BitVec.eq_of_toNat_eq h; rfl
theorem px_170 (h : opc.toNat = 170) : Interp.exec env s ⟨opc, dstb, srcb, off, imm⟩ = .panic := by
  obtain rfl : opc = 170 := BitVec.eq_of_toNat_eq h; rfl
theorem px_171 (h : opc.toNat = 171) : Interp.exec env s ⟨opc, dstb, srcb, off, imm⟩ = .panic := by
  obtain rfl : opc = 171 := BitVec.eq_of_toNat_eq h; rfl
theorem px_176 (h : opc.toNat = 176) : Interp.exec env s ⟨opc, dstb, srcb, off, imm⟩ = .panic := by
  obtain rfl : opc = 176 := BitVec.eq_of_toNat_eq h; rfl
theorem px_177 (h : opc.toNat = 177) : Interp.exec env s ⟨opc, dstb, srcb, off, imm⟩ = .panic := by
  obtain rfl : opc = 177 := BitVec.eq_of_toNat_eq h; rfl
theorem px_178 (h : opc.toNat = 178) : Interp.exec env s ⟨opc, dstb, srcb, off, imm⟩ = .panic := by
  obtain rfl : opc = 178 := BitVec.eq_of_toNat_eq h; rfl
theorem px_179 (h : opc.toNat = 179) : Interp.exec env s ⟨opc, dstb, srcb, off, imm⟩ = .panic := by
  obtain rfl : opc = 179 := BitVec.eq_of_toNat_eq h; rfl
theorem px_184 (h : opc.toNat = 184) : Interp.exec env s ⟨opc, dstb, srcb, off, imm⟩ = .panic := by
  obtain rfl : opc = 184 := BitVec.eq_of_toNat_eq h; rfl
theorem px_185 (h : opc.toNat = 185) : Interp.exec env s ⟨opc, dstb, srcb, off, imm⟩ = .panic := by
  obtain rfl : opc = 185 := BitVec.eq_of_toNat_eq h; rfl
theorem px_186 (h : opc.toNat = 186) : Interp.exec env s ⟨opc, dstb, srcb, off, imm⟩ = .panic := by
  obtain rfl : opc = 186 := BitVec.eq_of_toNat_eq h; rfl
theorem px_187 (h : opc.toNat = 187) : Interp.exec env s ⟨opc, dstb, srcb, off, imm⟩ = .panic := by
  obtain rfl : opc = 187 := BitVec.eq_of_toNat_eq h; rfl
theorem px_192 (h : opc.toNat = 192) : Interp.exec env s ⟨opc, dstb, srcb, off, imm⟩ = .panic := by
  obtain rfl : opc = 192 := BitVec.eq_of_toNat_eq h; rfl
theorem px_193 (h : opc.toNat = 193) : Interp.exec env s ⟨opc, dstb, srcb, off, imm⟩ = .panic := by
  obtain rfl : opc = 193 := BitVec.eq_of_toNat_eq h; rfl
theorem px_194 (h : opc.toNat = 194) : Interp.exec env s ⟨opc, dstb, srcb, off, imm⟩ = .panic := by
  obtain rfl : opc = 194 := BitVec.eq_of_toNat_eq h; rfl
theorem px_200 (h : opc.toNat = 200) : Interp.exec env s ⟨opc, dstb, srcb, off, imm⟩ = .panic := by
  obtain rfl : opc = 200 := BitVec.eq_of_toNat_eq h; rfl
theorem px_201 (h : opc.toNat = 201) : Interp.exec env s ⟨opc, dstb, srcb, off, imm⟩ = .panic := by
  obtain rfl : opc = 201 := BitVec.eq_of_toNat_eq h; rfl
theorem px_202 (h : opc.toNat = 202) : Interp.exec env s ⟨opc, dstb, srcb, off, imm⟩ = .panic := by
  obtain rfl : opc = 202 := BitVec.eq_of_toNat_eq h; rfl
theorem px_203 (h : opc.toNat = 203) : Interp.exec env s ⟨opc, dstb, srcb, off, imm⟩ = .panic := by
  obtain rfl : opc = 203 := BitVec.eq_of_toNat_eq h; rfl
theorem px_208 (h : opc.toNat = 208) : Interp.exec env s ⟨opc, dstb, srcb, off, imm⟩ = .panic := by
  obtain rfl : opc = 208 := BitVec.eq_of_toNat_eq h; rfl
theorem px_209 (h : opc.toNat = 209) : Interp.exec env s ⟨opc, dstb, srcb, off, imm⟩ = .panic := by
  obtain rfl : opc = 209 := BitVec.eq_of_toNat_eq h; rfl
theorem px_210 (h : opc.toNat = 210) : Interp.exec env s ⟨opc, dstb, srcb, off, imm⟩ = .panic := by
  obtain rfl : opc = 210 := BitVec.eq_of_toNat_eq h; rfl
theorem px_211 (h : opc.toNat = 211) : Interp.exec env s ⟨opc, dstb, srcb, off, imm⟩ = .panic := by
  obtain rfl : opc = 211 := BitVec.eq_of_toNat_eq h; rfl
theorem px_215 (h : opc.toNat = 215) : Interp.exec env s ⟨opc, dstb, srcb, off, imm⟩ = .panic := by
  obtain rfl : opc = 215 := BitVec.eq_of_toNat_eq h; rfl
theorem px_216 (h : opc.toNat = 216) : Interp.exec env s ⟨opc, dstb, srcb, off, imm⟩ = .panic := by
  obtain rfl : opc = 216 := BitVec.eq_of_toNat_eq h; rfl
theorem px_217 (h : opc.toNat = 217) : Interp.exec env s ⟨opc, dstb, srcb, off, imm⟩ = .panic := by
  obtain rfl : opc = 217 := BitVec.eq_of_toNat_eq h; rfl
theorem px_218 (h : opc.toNat = 218) : Interp.exec env s ⟨opc, dstb, srcb, off, imm⟩ = .panic := by
  obtain rfl : opc = 218 := BitVec.eq_of_toNat_eq h; rfl
theorem px_223 (h : opc.toNat = 223) : Interp.exec env s ⟨opc, dstb, srcb, off, imm⟩ = .panic := by
  obtain rfl : opc = 223 := BitVec.eq_of_toNat_eq h; rfl
theorem px_224 (h : opc.toNat = 224) : Interp.exec env s ⟨opc, dstb, srcb, off, imm⟩ = .panic := by
  obtain rfl : opc = 224 := BitVec.eq_of_toNat_eq h; rfl
theorem px_225 (h : opc.toNat = 225) : Interp.exec env s ⟨opc, dstb, srcb, off, imm⟩ = .panic := by
  obtain rfl : opc = 225 := BitVec.eq_of_toNat_eq h; rfl
theorem px_226 (h : opc.toNat = 226) : Interp.exec env s ⟨opc, dstb, srcb, off, imm⟩ = .panic := by
  obtain rfl : opc = 226 := BitVec.eq_of_toNat_eq h; rfl
theorem px_227 (h : opc.toNat = 227) : Interp.exec env s ⟨opc, dstb, srcb, off, imm⟩ = .panic := by
  obtain rfl : opc = 227 := BitVec.eq_of_toNat_eq h; rfl
theorem px_228 (h : opc.toNat = 228) : Interp.exec env s ⟨opc, dstb, srcb, off, imm⟩ = .panic := by
  obtain rfl : opc = 228 := BitVec.eq_of_toNat_eq h; rfl
theorem px_229 (h : opc.toNat = 229) : Interp.exec env s ⟨opc, dstb, srcb, off, imm⟩ = .panic := by
  obtain rfl : opc = 229 := BitVec.eq_of_toNat_eq h; rfl
theorem px_230 (h : opc.toNat = 230) : Interp.exec env s ⟨opc, dstb, srcb, off, imm⟩ = .panic := by
  obtain rfl : opc = 230 := BitVec.eq_of_toNat_eq h; rfl
theorem px_231 (h : opc.toNat = 231) : Interp.exec env s ⟨opc, dstb, srcb, off, imm⟩ = .panic := by
  obtain rfl : opc = 231 := BitVec.eq_of_toNat_eq h; rfl
theorem px_232 (h : opc.toNat = 232) : Interp.exec env s ⟨opc, dstb, srcb, off, imm⟩ = .panic := by
  obtain rfl : opc = 232 := BitVec.eq_of_toNat_eq h; rfl
theorem px_233 (h : opc.toNat = 233) : Interp.exec env s ⟨opc, dstb, srcb, off, imm⟩ = .panic := by
  obtain rfl : opc = 233 := BitVec.eq_of_toNat_eq h; rfl
theorem px_234 (h : opc.toNat = 234) : Interp.exec env s ⟨opc, dstb, srcb, off, imm⟩ = .panic := by
  obtain rfl : opc = 234 := BitVec.eq_of_toNat_eq h; rfl
theorem px_235 (h : opc.toNat = 235) : Interp.exec env s ⟨opc, dstb, srcb, off, imm⟩ = .panic := by
  obtain rfl : opc = 235 := BitVec.eq_of_toNat_eq h; rfl
theorem px_236 (h : opc.toNat = 236) : Interp.exec env s ⟨opc, dstb, srcb, off, imm⟩ = .panic := by
  obtain rfl : opc = 236 := BitVec.eq_of_toNat_eq h; rfl
theorem px_237 (h : opc.toNat = 237) : Interp.exec env s ⟨opc, dstb, srcb, off, imm⟩ = .panic := by
  obtain rfl : opc = 237 := BitVec.eq_of_toNat_eq h; rfl
theorem px_238 (h : opc.toNat = 238) : Interp.exec env s ⟨opc, dstb, srcb, off, imm⟩ = .panic := by
  obtain rfl : opc = 238 := BitVec.eq_of_toNat_eq h; rfl
theorem px_239 (h : opc.toNat = 239) : Interp.exec env s ⟨opc, dstb, srcb, off, imm⟩ = .panic := by
  obtain rfl : opc = 239 := BitVec.eq_of_toNat_eq h; rfl
theorem px_240 (h : opc.toNat = 240) : Interp.exec env s ⟨opc, dstb, srcb, off, imm⟩ = .panic := by
  obtain rfl : opc = 240 := BitVec.eq_of_toNat_eq h; rfl
theorem px_241 (h : opc.toNat = 241) : Interp.exec env s ⟨opc, dstb, srcb, off, imm⟩ = .panic := by
  obtain rfl : opc = 241 := BitVec.eq_of_toNat_eq h; rfl
theorem px_242 (h : opc.toNat = 242) : Interp.exec env s ⟨opc, dstb, srcb, off, imm⟩ = .panic := by
  obtain rfl : opc = 242 := BitVec.eq_of_toNat_eq h; rfl
theorem px_243 (h : opc.toNat = 243) : Interp.exec env s ⟨opc, dstb, srcb, off, imm⟩ = .panic := by
  obtain rfl : opc = 243 := BitVec.eq_of_toNat_eq h; rfl
theorem px_244 (h : opc.toNat = 244) : Interp.exec env s ⟨opc, dstb, srcb, off, imm⟩ = .panic := by
  obtain rfl : opc = 244 := BitVec.eq_of_toNat_eq h; rfl
theorem px_245 (h : opc.toNat = 245) : Interp.exec env s ⟨opc, dstb, srcb, off, imm⟩ = .panic := by
  obtain rfl : opc = 245 := BitVec.eq_of_toNat_eq h; rfl
theorem px_246 (h : opc.toNat = 246) : Interp.exec env s ⟨opc, dstb, srcb, off, imm⟩ = .panic := by
  obtain rfl : opc = 246 := BitVec.eq_of_toNat_eq h; rfl
theorem px_247 (h : opc.toNat = 247) : Interp.exec env s ⟨opc, dstb, srcb, off, imm⟩ = .panic := by
  obtain rfl : opc = 247 := BitVec.eq_of_toNat_eq h; rfl
theorem px_248 (h : opc.toNat = 248) : Interp.exec env s ⟨opc, dstb, srcb, off, imm⟩ = .panic := by
  obtain rfl : opc = 248 := BitVec.eq_of_toNat_eq h; rfl
theorem px_249 (h : opc.toNat = 249) : Interp.exec env s ⟨opc, dstb, srcb, off, imm⟩ = .panic := by
  obtain rfl : opc = 249 := BitVec.eq_of_toNat_eq h; rfl
theorem px_250 (h : opc.toNat = 250) : Interp.exec env s ⟨opc, dstb, srcb, off, imm⟩ = .panic := by
  obtain rfl : opc = 250 := BitVec.eq_of_toNat_eq h; rfl
theorem px_251 (h : opc.toNat = 251) : Interp.exec env s ⟨opc, dstb, srcb, off, imm⟩ = .panic := by
  obtain rfl : opc = 251 := BitVec.eq_of_toNat_eq h; rfl
theorem px_252 (h : opc.toNat = 252) : Interp.exec env s ⟨opc, dstb, srcb, off, imm⟩ = .panic := by
  obtain rfl : opc = 252 := BitVec.eq_of_toNat_eq h; rfl
theorem px_253 (h : opc.toNat = 253) : Interp.exec env s ⟨opc, dstb, srcb, off, imm⟩ = .panic := by
  obtain rfl : opc = 253 := BitVec.eq_of_toNat_eq h; rfl
theorem px_254 (h : opc.toNat = 254) : Interp.exec env s ⟨opc, dstb, srcb, off, imm⟩ = .panic := by
  obtain rfl : opc = 254 := BitVec.eq_of_toNat_eq h; rfl
theorem px_255 (h : opc.toNat = 255) : Interp.exec env s ⟨opc, dstb, srcb, off, imm⟩ = .panic := by
  obtain rfl : opc = 255 := BitVec.eq_of_toNat_eq h; rfl

/-- the opcode bytes that are none of the 123 instructions (in eight parts, to keep the case splits small) -/
def unknown0 : List Nat := [0, 1, 2, 3, 6, 8, 9, 10, 11, 13, 14, 16, 17, 18, 19, 25, 26]
def unknown1 : List Nat := [27, 33, 34, 35, 41, 42, 43, 49, 50, 51, 57, 58, 59, 65, 66, 67, 73]
def unknown2 : List Nat := [74, 75, 81, 82, 83, 89, 90, 91, 96, 104, 112, 120, 128, 129, 130, 131, 134]
def unknown3 : List Nat := [136, 137, 138, 139, 140, 142, 143, 144, 145, 146, 147, 150, 152, 153, 154, 155, 157]
def unknown4 : List Nat := [158, 160, 161, 162, 163, 168, 169, 170, 171, 176, 177, 178, 179, 184, 185, 186, 187]
def unknown5 : List Nat := [192, 193, 194, 200, 201, 202, 203, 208, 209, 210, 211, 215, 216, 217, 218, 223, 224]
def unknown6 : List Nat := [225, 226, 227, 228, 229, 230, 231, 232, 233, 234, 235, 236, 237, 238, 239, 240, 241]
def unknown7 : List Nat := [242, 243, 244, 245, 246, 247, 248, 249, 250, 251, 252, 253, 254, 255]

theorem exec_unknown0 (h : opc.toNat ∈ unknown0) : Interp.exec env s ⟨opc, dstb, srcb, off, imm⟩ = .panic := by
  simp only [unknown0, List.mem_cons, List.not_mem_nil, or_false] at h
  rcases h with h | h | h | h | h | h | h | h | h | h | h | h | h | h | h | h | h
  · exact px_0 h
  · exact px_1 h
  · exact px_2 h
  · exact px_3 h
  · exact px_6 h
  · exact px_8 h
  · exact px_9 h
  · exact px_10 h
  · exact px_11 h
  · exact px_13 h
  · exact px_14 h
  · exact px_16 h
  · exact px_17 h
  · exact px_18 h
  · exact px_19 h
  · exact px_25 h
  · exact px_26 h

theorem exec_unknown1 (h : opc.toNat ∈ unknown1) : Interp.exec env s ⟨opc, dstb, srcb, off, imm⟩ = .panic := by
  simp only [unknown1, List.mem_cons, List.not_mem_nil, or_false] at h
  rcases h with h | h | h | h | h | h | h | h | h | h | h | h | h | h | h | h | h
  · exact px_27 h
  · exact px_33 h
  · exact px_34 h
  · exact px_35 h
  · exact px_41 h
  · exact px_42 h
  · exact px_43 h
  · exact px_49 h
  · exact px_50 h
  · exact px_51 h
  · exact px_57 h
  · exact px_58 h
  · exact px_59 h
  · exact px_65 h
  · exact px_66 h
  · exact px_67 h
  · exact px_73 h

theorem exec_unknown2 (h : opc.toNat ∈ unknown2) : Interp.exec env s ⟨opc, dstb, srcb, off, imm⟩ = .panic := by
  simp only [unknown2, List.mem_cons, List.not_mem_nil, or_false] at h
  rcases h with h | h | h | h | h | h | h | h | h | h | h | h | h | h | h | h | h
  · exact px_74 h
  · exact px_75 h
  · exact px_81 h
  · exact px_82 h
  · exact px_83 h
  · exact px_89 h
  · exact px_90 h
  · exact px_91 h
  · exact px_96 h
  · exact px_104 h
  · exact px_112 h
  · exact px_120 h
  · exact px_128 h
  · exact px_129 h
  · exact px_130 h
  · exact px_131 h
  · exact px_134 h

theorem exec_unknown3 (h : opc.toNat ∈ unknown3) : Interp.exec env s ⟨opc, dstb, srcb, off, imm⟩ = .panic := by
  simp only [unknown3, List.mem_cons, List.not_mem_nil, or_false] at h
  rcases h with h | h | h | h | h | h | h | h | h | h | h | h | h | h | h | h | h
  · exact px_136 h
  · exact px_137 h
  · exact px_138 h
  · exact px_139 h
  · exact px_140 h
  · exact px_142 h
  · exact px_143 h
  · exact px_144 h
  · exact px_145 h
  · exact px_146 h
  · exact px_147 h
  · exact px_150 h
  · exact px_152 h
  · exact px_153 h
  · exact px_154 h
  · exact px_155 h
  · exact px_157 h

theorem exec_unknown4 (h : opc.toNat ∈ unknown4) : Interp.exec env s ⟨opc, dstb, srcb, off, imm⟩ = .panic := by
  simp only [unknown4, List.mem_cons, List.not_mem_nil, or_false] at h
  rcases h with h | h | h | h | h | h | h | h | h | h | h | h | h | h | h | h | h
  · exact px_158 h
  · exact px_160 h
  · exact px_161 h
  · exact px_162 h
  · exact px_163 h
  · exact px_168 h
  · exact px_169 h
  · exact px_170 h
  · exact px_171 h
  · exact px_176 h
  · exact px_177 h
  · exact px_178 h
  · exact px_179 h
  · exact px_184 h
  · exact px_185 h
  · exact px_186 h
  · exact px_187 h

theorem exec_unknown5 (h : opc.toNat ∈ unknown5) : Interp.exec env s ⟨opc, dstb, srcb, off, imm⟩ = .panic := by
  simp only [unknown5, List.mem_cons, List.not_mem_nil, or_false] at h
  rcases h with h | h | h | h | h | h | h | h | h | h | h | h | h | h | h | h | h
  · exact px_192 h
  · exact px_193 h
  · exact px_194 h
  · exact px_200 h
  · exact px_201 h
  · exact px_202 h
  · exact px_203 h
  · exact px_208 h
  · exact px_209 h
  · exact px_210 h
  · exact px_211 h
  · exact px_215 h
  · exact px_216 h
  · exact px_217 h
  · exact px_218 h
  · exact px_223 h
  · exact px_224 h

theorem exec_unknown6 (h : opc.toNat ∈ unknown6) : Interp.exec env s ⟨opc, dstb, srcb, off, imm⟩ = .panic := by
  simp only [unknown6, List.mem_cons, List.not_mem_nil, or_false] at h
  rcases h with h | h | h | h | h | h | h | h | h | h | h | h | h | h | h | h | h
  · exact px_225 h
  · exact px_226 h
  · exact px_227 h
  · exact px_228 h
  · exact px_229 h
  · exact px_230 h
  · exact px_231 h
  · exact px_232 h
  · exact px_233 h
  · exact px_234 h
  · exact px_235 h
  · exact px_236 h
  · exact px_237 h
  · exact px_238 h
  · exact px_239 h
  · exact px_240 h
  · exact px_241 h

theorem exec_unknown7 (h : opc.toNat ∈ unknown7) : Interp.exec env s ⟨opc, dstb, srcb, off, imm⟩ = .panic := by
  simp only [unknown7, List.mem_cons, List.not_mem_nil, or_false] at h
  rcases h with h | h | h | h | h | h | h | h | h | h | h | h | h | h
  · exact px_242 h
  · exact px_243 h
  · exact px_244 h
  · exact px_245 h
  · exact px_246 h
  · exact px_247 h
  · exact px_248 h
  · exact px_249 h
  · exact px_250 h
  · exact px_251 h
  · exact px_252 h
  · exact px_253 h
  · exact px_254 h
  · exact px_255 h

theorem unknown_cover : ∀ n, n < 256 →
    (isOther n || n == 24 || n == 133 || n == 141 || n == 149 ||
      unknown0.contains n ||
      unknown1.contains n ||
      unknown2.contains n ||
      unknown3.contains n ||
      unknown4.contains n ||
      unknown5.contains n ||
      unknown6.contains n ||
      unknown7.contains n) = true := by
  decide +kernel

/-- an opcode byte that is none of the 123 instructions makes the model panic -/
theorem exec_unknown (h1 : isOther opc.toNat = false) (h2 : opc.toNat ≠ 24) (h3 : opc.toNat ≠ 133) (h4 : opc.toNat ≠ 141)
    (h5 : opc.toNat ≠ 149) : Interp.exec env s ⟨opc, dstb, srcb, off, imm⟩ = .panic := by
  have h := unknown_cover opc.toNat opc.isLt
  simp only [h1, Bool.false_or, Bool.or_eq_true, beq_iff_eq, List.contains_iff_mem, h2, h3, h4, h5, false_or] at h
  rcases h with (((((((h | h) | h) | h) | h) | h) | h) | h)
  · exact exec_unknown0 h
  · exact exec_unknown1 h
  · exact exec_unknown2 h
  · exact exec_unknown3 h
  · exact exec_unknown4 h
  · exact exec_unknown5 h
  · exact exec_unknown6 h
  · exact exec_unknown7 h

/-- the 119 data arms -/
theorem exec_keeps (h : isOther opc.toNat = true) : Keeps s (Interp.exec env s ⟨opc, dstb, srcb, off, imm⟩) := by
  simp only [isOther, Bool.or_eq_true, List.contains_iff_mem] at h
  rcases h with (h | h) | h
  · exact keeps_alu h
  · exact keeps_jmp h
  · exact keeps_mem h

end Rbpf.Src
