/-
  Lemmas for property C05: the interpreter model (`Interp.step`) never reaches a `.panic` on a program
  accepted by the verifier model (`Verifier.check`).  The property theorems themselves (and the invariant `Safe`, which unfolds to
  `StartInv` below) are in `Props/C05.lean`.
-/
import RbpfModel.Model.Interp
import RbpfModel.Model.Verifier
import RbpfModel.Model.WellFormed
import RbpfModel.Lemmas.VerifierLemmas
namespace Rbpf
open Verifier Interp

/-! ### the invariant -/

/-- the part of the invariant that does not mention `pc`: every saved return address is an instruction
    start, at most 8 frames, every recorded frame size is a `u16`, and
    r10 = stack top − Σ frame sizes of the active callers -/
def Inv (env : Env) (top : Nat) (s : State) : Prop :=
  (∀ f ∈ s.frames, f.ret ∈ starts env.prog) ∧ s.frames.length ≤ 8 ∧
  (∀ k, k < 8 → ∀ u, s.usage[k]? = some u → u < 65536) ∧
  (∃ r10, s.reg[10]? = some r10 ∧
    r10.toNat + ((List.range s.frames.length).map (fun k => (s.usage[k]?).getD 0)).sum = top)

/-- the invariant of C05 (`Safe` in `Props/C05.lean` is this, written out): pc is an instruction start, and `Inv` -/
def StartInv (env : Env) (top : Nat) (s : State) : Prop := s.pc ∈ starts env.prog ∧ Inv env top s

/-! ### outcomes that are not a panic and whose successor state satisfies `P` -/

def Good (P : State → Prop) : Outcome → Prop
  | .next s' => P s'
  | .panic => False
  | _ => True

theorem Good.mono {P Q : State → Prop} {o : Outcome} (h : ∀ s', P s' → Q s') (g : Good P o) : Good Q o := by
  cases o <;> simp_all [Good]

theorem Good.ne_panic {P : State → Prop} {o : Outcome} (g : Good P o) : o ≠ .panic := by
  intro h; subst h; exact g

theorem Good.of_next {P : State → Prop} {o : Outcome} {s' : State} (g : Good P o) (h : o = .next s') : P s' := by
  subst h; exact g

/-- what every instruction other than a local call / return preserves -/
def Keeps (s s' : State) : Prop :=
  s'.frames = s.frames ∧ s'.usage = s.usage ∧ s'.reg[10]? = s.reg[10]? ∧ s'.mem.mem.base = s.mem.mem.base

theorem Keeps.refl (s : State) : Keeps s s := ⟨rfl, rfl, rfl, rfl⟩

theorem Inv.of_keeps {env : Env} {top : Nat} {s s' : State} (h : Inv env top s) (k : Keeps s s') : Inv env top s' := by
  obtain ⟨kf, ku, kr, -⟩ := k
  unfold Inv
  rw [kf, ku, kr]
  exact h

/-- postcondition "nothing but registers r0..r9, memory contents, the log changed; pc is `pc'`" -/
def Post (s : State) (pc' : Nat) : State → Prop := fun s' => Keeps s s' ∧ s'.pc = pc'

/-! ### the building blocks of `Interp.exec` -/

theorem good_rd {P : State → Prop} {s : State} {i : Nat} {k : BitVec 64 → Outcome} (hi : i ≤ 10)
    (hk : ∀ v, Good P (k v)) : Good P (rd s i k) := by
  unfold rd
  rw [Vector.getElem?_eq_getElem (by omega)]
  exact hk _

theorem good_wr {s s0 : State} {pc' d : Nat} {v : BitVec 64} (hk : Keeps s s0) (hpc : s0.pc = pc') (hd : d ≤ 9) :
    Good (Post s pc') (wr s0 d v) := by
  unfold wr
  rw [if_pos (by omega)]
  obtain ⟨kf, ku, kr, km⟩ := hk
  refine ⟨⟨kf, ku, ?_, km⟩, hpc⟩
  show (s0.reg.setIfInBounds d v)[10]? = _
  rw [Vector.getElem?_setIfInBounds_ne (by omega)]
  exact kr

theorem good_next {s : State} : Good (Post s s.pc) (.next s) := ⟨Keeps.refl s, rfl⟩

theorem good_load {env : Env} {s : State} {a : BitVec 64} {w d : Nat} (hd : d ≤ 9) :
    Good (Post s s.pc) (load env s a w d) := by
  unfold load
  split
  · split
    · exact good_wr (Keeps.refl s) rfl hd
    · trivial
  · trivial

theorem writeRegion_base (r : Region) (a : Nat) (bs : List (BitVec 8)) : (Memory.writeRegion r a bs).base = r.base := rfl

theorem writeBytes?_mem_base {m m' : Memory} {a : Nat} {bs : List (BitVec 8)} (h : m.writeBytes? a bs = some m') :
    m'.mem.base = m.mem.base := by
  unfold Memory.writeBytes? at h
  split at h
  · cases h; rfl
  · split at h
    · cases h; rfl
    · split at h
      · cases h; rfl
      · cases he : Memory.writeExtra m.extra a bs with
        | none => simp [he] at h
        | some e => simp [he] at h; subst h; rfl

theorem good_store {env : Env} {s : State} {a v : BitVec 64} {w : Nat} :
    Good (Post s s.pc) (store env s a w v) := by
  unfold store
  split
  · split
    · rename_i m hm
      exact ⟨⟨rfl, rfl, rfl, writeBytes?_mem_base hm⟩, rfl⟩
    · trivial
  · trivial

theorem good_xadd {env : Env} {s : State} {a v : BitVec 64} {w : Nat} :
    Good (Post s s.pc) (xadd env s a w v) := by
  unfold xadd
  split
  · split
    · split
      · split
        · rename_i m hm
          exact ⟨⟨rfl, rfl, rfl, writeBytes?_mem_base hm⟩, rfl⟩
        · trivial
      · trivial
    · trivial
  · trivial

theorem good_pktAbs {P : State → Prop} {s : State} {imm : BitVec 32} {k : BitVec 64 → Outcome}
    (hmem : s.mem.mem.base + 2 ^ 32 < 2 ^ 64) (hk : ∀ a, Good P (k a)) : Good P (pktAbs s imm k) := by
  unfold pktAbs
  have := imm.isLt
  rw [if_neg (by omega)]
  exact hk _

theorem good_branch {P : State → Prop} {s : State} {off : BitVec 16} {c : Bool}
    (hfall : c = false → P s)
    (hjump : 0 ≤ (s.pc : Int) + off.toInt ∧ P { s with pc := ((s.pc : Int) + off.toInt).toNat }) :
    Good P (branch s off c) := by
  unfold branch jumpTo
  cases c
  · exact hfall rfl
  · simp only [if_true]
    rw [if_neg (by omega)]
    exact hjump.2

/-! ### what acceptance by the verifier says about the instruction at a start -/

theorem arm_store_xadd_opc (o : BitVec 8) (h : arm o.toNat = .store ∨ arm o.toNat = .xadd) :
    o.toNat = 0x72 ∨ o.toNat = 0x6a ∨ o.toNat = 0x62 ∨ o.toNat = 0x7a ∨ o.toNat = 0x73 ∨ o.toNat = 0x6b ∨
    o.toNat = 0x63 ∨ o.toNat = 0x7b ∨ o.toNat = 0xc3 ∨ o.toNat = 0xdb := by
  revert o; apply forall_bv8; decide +kernel

theorem arm_endian_of_opc (o : BitVec 8) (h : o.toNat = 0xd4 ∨ o.toNat = 0xdc) : arm o.toNat = .endian := by
  rcases h with h | h <;> rw [h] <;> rfl

/-- the facts about the instruction `x` at start `i` of an accepted program that the interpreter relies on,
    keyed by the numeric opcode -/
structure InsnFacts (p : Bytes) (i : Nat) (x : Insn) : Prop where
  known : arm x.opc.toNat ≠ .unknown
  src : x.src.toNat ≤ 10
  dst : x.dst.toNat ≤ 9 ∨ (x.dst.toNat = 10 ∧
    (x.opc.toNat = 0x72 ∨ x.opc.toNat = 0x6a ∨ x.opc.toNat = 0x62 ∨ x.opc.toNat = 0x7a ∨ x.opc.toNat = 0x73 ∨
     x.opc.toNat = 0x6b ∨ x.opc.toNat = 0x63 ∨ x.opc.toNat = 0x7b ∨ x.opc.toNat = 0xc3 ∨ x.opc.toNat = 0xdb))
  endian : x.opc.toNat = 0xd4 ∨ x.opc.toNat = 0xdc → x.imm = 16 ∨ x.imm = 32 ∨ x.imm = 64
  jump : arm x.opc.toNat = .jump →
    0 ≤ (i : Int) + 1 + x.off.toInt ∧ ((i : Int) + 1 + x.off.toInt).toNat ∈ starts p
  call : x.opc.toNat = 0x85 → x.src.toNat = 1 →
    0 ≤ (i : Int) + 1 + x.imm.toInt ∧ ((i : Int) + 1 + x.imm.toInt).toNat ∈ starts p
  lddw : x.opc.toNat = 0x18 → (∃ y, getInsn? p (i + 1) = some y) ∧ i + 2 ∈ starts p
  next : x.opc.toNat ≠ 0x95 → x.opc.toNat ≠ 0x05 → x.opc.toNat ≠ 0x18 → i + 1 ∈ starts p

theorem target_start {p : Bytes} (hc : check p = .ok) {d : Int} (h : checkTarget p d = .ok) :
    0 ≤ d ∧ d.toNat ∈ starts p := by
  obtain ⟨h0, h1, h2⟩ := (checkTarget_ok_iff p d).1 h
  exact ⟨h0, (start_iff_opc_ne_zero hc _ h1).2 h2⟩

theorem dst_of_nostore {d : Nat} {Q : Prop} (h : d ≤ 9 ∨ (d = 10 ∧ false = true)) : d ≤ 9 ∨ (d = 10 ∧ Q) :=
  h.elim Or.inl (fun h => absurd h.2 (by decide))

theorem insnFacts_of_check {p : Bytes} (hc : check p = .ok) {i : Nat} (hi : i ∈ starts p) {x : Insn}
    (hx : getInsn? p i = some x) : InsnFacts p i x := by
  have hok := check_ok_insn hc i hi
  have hnx := next_start hc i hi x hx
  obtain ⟨hlastmem, l, hl, hlop⟩ := check_ok_last hc
  obtain ⟨h8, h0, -⟩ := check_ok_len hc
  unfold insnCheck at hok
  simp only [hx] at hok
  -- facts that do not depend on the arm
  have hnext : x.opc.toNat ≠ 0x95 → x.opc.toNat ≠ 0x05 → x.opc.toNat ≠ 0x18 → i + 1 ∈ starts p := by
    intro h95 h05 h18
    have h18' : x.opc ≠ 0x18 := by intro h; rw [h] at h18; exact h18 rfl
    simp only [h18', if_false] at hnx
    rcases hnx with h | h
    · exact h
    · exfalso
      have : i = p.size / 8 - 1 := by omega
      subst this
      rw [hx] at hl; cases hl
      rcases hlop with h | h <;> rw [h] at h95 h05 <;> simp at h95 h05
  have hlddw : x.opc.toNat = 0x18 → (∃ y, getInsn? p (i + 1) = some y) ∧ i + 2 ∈ starts p := by
    intro h18
    have h18' : x.opc = 0x18 := BitVec.eq_of_toNat_eq (by rw [h18]; rfl)
    obtain ⟨-, hy⟩ := insnCheck_ok_basic (check_ok_insn hc i hi) hx
    obtain ⟨y, hy, hy0⟩ := hy h18'
    refine ⟨⟨y, hy⟩, ?_⟩
    simp only [h18', if_true] at hnx
    rcases hnx with h | h
    · exact h
    · exfalso
      have : i + 1 = p.size / 8 - 1 := by omega
      rw [this] at hy
      rw [hy] at hl; cases hl
      rcases hlop with h | h <;> rw [h] at hy0 <;> simp at hy0
  have hsx := arm_store_xadd_opc x.opc
  have hen := arm_endian_of_opc x.opc
  have hcall : x.opc.toNat = 0x85 → arm x.opc.toNat = .call := by intro h; rw [h]; rfl
  have hsrc1 : x.src.toNat = 1 → x.src = 1 := fun h => BitVec.eq_of_toNat_eq (by rw [h]; rfl)
  have hsrc0 : x.src = 0 → x.src.toNat ≠ 1 := by intro h; rw [h]; decide
  cases ha : arm x.opc.toNat <;> rw [ha] at hok hsx hen hcall <;> simp only at hok
  case plain =>
    rw [checkRegisters_ok_iff] at hok
    exact ⟨by rw [ha]; decide, hok.1, dst_of_nostore hok.2, fun h => absurd (hen h) (by decide),
      fun h => absurd h (by rw [ha]; decide), fun h => absurd (hcall h) (by decide), hlddw, hnext⟩
  case exit =>
    rw [checkRegisters_ok_iff] at hok
    exact ⟨by rw [ha]; decide, hok.1, dst_of_nostore hok.2, fun h => absurd (hen h) (by decide),
      fun h => absurd h (by rw [ha]; decide), fun h => absurd (hcall h) (by decide), hlddw, hnext⟩
  case lddw =>
    cases hld : checkLoadDw p i <;> rw [hld] at hok <;> simp only at hok <;> try cases hok
    rw [checkRegisters_ok_iff] at hok
    exact ⟨by rw [ha]; decide, hok.1, dst_of_nostore hok.2, fun h => absurd (hen h) (by decide),
      fun h => absurd h (by rw [ha]; decide), fun h => absurd (hcall h) (by decide), hlddw, hnext⟩
  case store =>
    rw [checkRegisters_ok_iff] at hok
    refine ⟨by rw [ha]; decide, hok.1, ?_, fun h => absurd (hen h) (by decide),
      fun h => absurd h (by rw [ha]; decide), fun h => absurd (hcall h) (by decide), hlddw, hnext⟩
    rcases hok.2 with h | h
    · exact Or.inl h
    · exact Or.inr ⟨h.1, hsx (Or.inl rfl)⟩
  case xadd =>
    split at hok
    · cases hok
    rw [checkRegisters_ok_iff] at hok
    refine ⟨by rw [ha]; decide, hok.1, ?_, fun h => absurd (hen h) (by decide),
      fun h => absurd h (by rw [ha]; decide), fun h => absurd (hcall h) (by decide), hlddw, hnext⟩
    rcases hok.2 with h | h
    · exact Or.inl h
    · exact Or.inr ⟨h.1, hsx (Or.inr rfl)⟩
  case endian =>
    split at hok
    · rename_i himm
      rw [checkRegisters_ok_iff] at hok
      exact ⟨by rw [ha]; decide, hok.1, dst_of_nostore hok.2, fun _ => himm,
        fun h => absurd h (by rw [ha]; decide), fun h => absurd (hcall h) (by decide), hlddw, hnext⟩
    · cases hok
  case jump =>
    unfold checkJmpOffset at hok
    by_cases hoff : x.off = -1
    · rw [if_pos hoff] at hok; cases hok
    rw [if_neg hoff] at hok
    cases ht : checkTarget p ((i : Int) + 1 + x.off.toInt) <;> rw [ht] at hok <;> simp only at hok <;> try cases hok
    rw [checkRegisters_ok_iff] at hok
    exact ⟨by rw [ha]; decide, hok.1, dst_of_nostore hok.2, fun h => absurd (hen h) (by decide),
      fun _ => target_start hc ht, fun h => absurd (hcall h) (by decide), hlddw, hnext⟩
  case call =>
    split at hok
    · rename_i h0
      rw [checkRegisters_ok_iff] at hok
      exact ⟨by rw [ha]; decide, hok.1, dst_of_nostore hok.2, fun h => absurd (hen h) (by decide),
        fun h => absurd h (by rw [ha]; decide), fun _ h1 => absurd h1 (hsrc0 h0), hlddw, hnext⟩
    · split at hok
      · cases ht : checkTarget p ((i : Int) + 1 + x.imm.toInt) <;> rw [ht] at hok <;> simp only at hok <;>
          try cases hok
        rw [checkRegisters_ok_iff] at hok
        exact ⟨by rw [ha]; decide, hok.1, dst_of_nostore hok.2, fun h => absurd (hen h) (by decide),
          fun h => absurd h (by rw [ha]; decide), fun _ _ => target_start hc ht, hlddw, hnext⟩
      · cases hok
  case tailCall => cases hok
  case unknown => cases hok

/-! ### frame sizes -/

theorem sum_range_succ (f : Nat → Nat) (n : Nat) :
    ((List.range (n + 1)).map f).sum = ((List.range n).map f).sum + f n := by
  simp [List.range_succ]

theorem sum_range_le (f : Nat → Nat) (c n : Nat) (h : ∀ k, f k ≤ c) : ((List.range n).map f).sum ≤ n * c := by
  induction n with
  | zero => simp
  | succ n ih => rw [sum_range_succ, Nat.succ_mul]; have := h n; omega

theorem usage_getD_le {u : Vector Nat 8} (h : ∀ k, k < 8 → ∀ v, u[k]? = some v → v < 65536) (k : Nat) :
    (u[k]?).getD 0 ≤ 65535 := by
  by_cases hk : k < 8
  · have := h k hk _ (Vector.getElem?_eq_getElem hk)
    rw [Vector.getElem?_eq_getElem hk]; simp; omega
  · rw [Vector.getElem?_eq_none_iff.2 (by omega)]; simp

/-! ### local calls and returns -/

theorem good_callLocal {env : Env} {top : Nat} {s : State} {i : Nat} {imm : BitVec 32}
    (hinv : Inv env top s) (htop : 2 ^ 20 ≤ top ∧ top < 2 ^ 63) (hpc : s.pc = i + 1)
    (hret : i + 1 ∈ starts env.prog)
    (htgt : 0 ≤ (i : Int) + 1 + imm.toInt ∧ ((i : Int) + 1 + imm.toInt).toNat ∈ starts env.prog) :
    Good (fun s' => StartInv env top s' ∧ s'.mem.mem.base = s.mem.mem.base) (callLocal s imm) := by
  obtain ⟨hfr, hlen, hus, r10, h10, hsum⟩ := hinv
  unfold callLocal State.depth
  split
  · trivial
  rename_i hdepth
  refine good_rd (by omega) fun r6 => good_rd (by omega) fun r7 => good_rd (by omega) fun r8 =>
    good_rd (by omega) fun r9 => ?_
  unfold rd
  rw [h10]
  simp only
  have hu := usage_getD_le hus s.frames.length
  have hs := sum_range_le (fun k => (s.usage[k]?).getD 0) 65535 s.frames.length (usage_getD_le hus)
  have hmul : s.frames.length * 65535 ≤ 7 * 65535 := Nat.mul_le_mul_right _ (by omega)
  rw [if_neg (by omega)]
  unfold jumpTo
  have hpc' : (s.pc : Int) + imm.toInt = (i : Int) + 1 + imm.toInt := by omega
  rw [hpc']
  rw [if_neg (by omega)]
  refine ⟨⟨htgt.2, ?_, ?_, hus, r10 - BitVec.ofNat 64 ((s.usage[s.frames.length]?).getD 0), ?_, ?_⟩, rfl⟩
  · intro f hf
    rcases List.mem_cons.1 hf with rfl | hf
    · show s.pc ∈ _; rw [hpc]; exact hret
    · exact hfr f hf
  · show s.frames.length + 1 ≤ 8; omega
  · show (s.reg.setIfInBounds 10 _)[10]? = _
    rw [Vector.getElem?_setIfInBounds]; simp
  · show _ + ((List.range (s.frames.length + 1)).map (fun k => (s.usage[k]?).getD 0)).sum = top
    rw [sum_range_succ]
    have : (r10 - BitVec.ofNat 64 ((s.usage[s.frames.length]?).getD 0)).toNat
        = r10.toNat - (s.usage[s.frames.length]?).getD 0 := by
      rw [BitVec.toNat_sub_of_le]
      · simp; omega
      · rw [BitVec.le_def]; simp; omega
    rw [this]
    omega

theorem good_exitInsn {env : Env} {top : Nat} {s : State}
    (hinv : Inv env top s) (htop : 2 ^ 20 ≤ top ∧ top < 2 ^ 63) :
    Good (fun s' => StartInv env top s' ∧ s'.mem.mem.base = s.mem.mem.base) (exitInsn s) := by
  obtain ⟨hfr, hlen, hus, r10, h10, hsum⟩ := hinv
  unfold exitInsn
  split
  · exact good_rd (by omega) fun _ => trivial
  rename_i f rest hfrs
  rw [hfrs] at hfr hlen hsum
  unfold rd
  rw [h10]
  simp only
  rw [List.length_cons, sum_range_succ] at hsum
  rw [if_neg (by omega)]
  refine ⟨⟨hfr f (List.mem_cons_self), fun g hg => hfr g (List.mem_cons_of_mem _ hg), ?_, hus,
    r10 + BitVec.ofNat 64 ((s.usage[rest.length]?).getD 0), ?_, ?_⟩, rfl⟩
  · show rest.length ≤ 8; simp at hlen; omega
  · show (Vector.setIfInBounds _ 10 _)[10]? = _
    rw [Vector.getElem?_setIfInBounds]; simp
  · show _ + ((List.range rest.length).map (fun k => (s.usage[k]?).getD 0)).sum = top
    have : (r10 + BitVec.ofNat 64 ((s.usage[rest.length]?).getD 0)).toNat
        = r10.toNat + (s.usage[rest.length]?).getD 0 := by
      rw [BitVec.toNat_add]; simp; omega
    rw [this]
    omega

/-! ### helper calls, wide loads, byte swaps -/

theorem good_callHelper {env : Env} {s : State} {imm : BitVec 32} : Good (Post s s.pc) (callHelper env s imm) := by
  unfold callHelper
  split
  · exact good_rd (by omega) fun _ => good_rd (by omega) fun _ => good_rd (by omega) fun _ =>
      good_rd (by omega) fun _ => good_rd (by omega) fun _ => good_wr ⟨rfl, rfl, rfl, rfl⟩ rfl (by omega)
  · trivial

theorem good_lddw {env : Env} {s : State} {i d : Nat} {f : Insn → BitVec 64} (hpc : s.pc = i + 1)
    (hy : ∃ y, getInsn? env.prog (i + 1) = some y) (hd : d ≤ 9) :
    Good (Post s (s.pc + 1))
      (match getInsn? env.prog s.pc with
       | none => Outcome.panic
       | some next => wr { s with pc := s.pc + 1 } d (f next)) := by
  obtain ⟨y, hy⟩ := hy
  rw [hpc, hy]
  exact good_wr ⟨rfl, rfl, rfl, rfl⟩ rfl hd

theorem good_endian {P : State → Prop} {imm : BitVec 32} (h : imm = 16 ∨ imm = 32 ∨ imm = 64) {a b c : Outcome}
    (ha : Good P a) (hb : Good P b) (hc : Good P c) :
    Good P (if imm = 16 then a else if imm = 32 then b else if imm = 64 then c else .panic) := by
  rcases h with h | h | h <;> subst h <;> simp [ha, hb, hc]

theorem post_safe {env : Env} {top : Nat} {s s' : State} {pc' : Nat} (hinv : Inv env top s)
    (hpc : pc' ∈ starts env.prog) (h : Post s pc' s') : StartInv env top s' ∧ s'.mem.mem.base = s.mem.mem.base := by
  obtain ⟨hk, hp⟩ := h
  exact ⟨⟨hp ▸ hpc, hinv.of_keeps hk⟩, hk.2.2.2⟩

theorem good_err {P : State → Prop} {e : ErrKind} {s : State} : Good P (.err e s) := trivial

/-! ### one instruction -/

attribute [local irreducible] Good rd wr load store xadd pktAbs branch callHelper callLocal exitInsn in
set_option maxRecDepth 4000 in
theorem exec_good (env : Env) (top : Nat) (s : State) (i : Nat) (x : Insn)
    (hF : InsnFacts env.prog i x) (hpc : s.pc = i + 1) (hinv : Inv env top s)
    (htop : 2 ^ 20 ≤ top ∧ top < 2 ^ 63) (hmem : s.mem.mem.base + 2 ^ 32 < 2 ^ 64) :
    Good (fun s' => StartInv env top s' ∧ s'.mem.mem.base = s.mem.mem.base) (exec env s x) := by
  have hsrc := hF.src
  have hdst := hF.dst
  have hd10 : x.dst.toNat ≤ 10 := by omega
  have hd9 : (x.opc.toNat = 0x72 ∨ x.opc.toNat = 0x6a ∨ x.opc.toNat = 0x62 ∨ x.opc.toNat = 0x7a ∨
      x.opc.toNat = 0x73 ∨ x.opc.toNat = 0x6b ∨ x.opc.toNat = 0x63 ∨ x.opc.toNat = 0x7b ∨ x.opc.toNat = 0xc3 ∨
      x.opc.toNat = 0xdb) = False → x.dst.toNat ≤ 9 := by
    intro h
    rcases hdst with h9 | ⟨_, hs⟩
    · exact h9
    · exact (cast h hs).elim
  clear hdst
  have hft : x.opc.toNat ≠ 0x95 → x.opc.toNat ≠ 0x05 → x.opc.toNat ≠ 0x18 →
      ∀ s', Post s s.pc s' → StartInv env top s' ∧ s'.mem.mem.base = s.mem.mem.base :=
    fun a b c _ h => post_safe hinv (hpc ▸ hF.next a b c) h
  have hjmp : arm x.opc.toNat = .jump → 0 ≤ (s.pc : Int) + x.off.toInt ∧
      (StartInv env top { s with pc := ((s.pc : Int) + x.off.toInt).toNat } ∧ s.mem.mem.base = s.mem.mem.base) := by
    intro h
    obtain ⟨h0, h1⟩ := hF.jump h
    have : (s.pc : Int) + x.off.toInt = (i : Int) + 1 + x.off.toInt := by omega
    rw [this]
    exact ⟨h0, ⟨h1, hinv.of_keeps ⟨rfl, rfl, rfl, rfl⟩⟩, rfl⟩
  unfold exec
  dsimp only
  split
  all_goals first
    | exact good_exitInsn hinv htop
    | exact good_err
    | -- instructions that fall through to the next slot
      (rename_i heq
       refine Good.mono (hft (by rw [heq]; decide) (by rw [heq]; decide) (by rw [heq]; decide)) ?_
       repeat' (first
        | exact good_next
        | exact good_store
        | exact good_xadd
        | exact good_load (by decide)
        | exact good_load (hd9 (by rw [heq]; decide))
        | exact good_wr (Keeps.refl _) rfl (hd9 (by rw [heq]; decide))
        | refine good_rd hsrc (fun _ => ?_)
        | refine good_rd hd10 (fun _ => ?_)
        | refine good_pktAbs hmem (fun _ => ?_)
        | refine good_endian (hF.endian (Or.inl heq)) ?_ ?_ ?_
        | refine good_endian (hF.endian (Or.inr heq)) ?_ ?_ ?_
        | split)
       done)
    | -- jumps
      (rename_i heq
       repeat' (first
        | refine good_rd hsrc (fun _ => ?_)
        | refine good_rd hd10 (fun _ => ?_)
        | refine good_branch ?_ (hjmp (by rw [heq]; rfl)))
       first
        | exact fun h => Bool.noConfusion h
        | exact fun _ => hft (by rw [heq]; decide) (by rw [heq]; decide) (by rw [heq]; decide) s ⟨Keeps.refl s, rfl⟩)
    | -- call
      (rename_i heq
       have hn := hF.next (by rw [heq]; decide) (by rw [heq]; decide) (by rw [heq]; decide)
       split
       · exact Good.mono (fun _ => post_safe hinv (hpc ▸ hn)) good_callHelper
       · split
         · exact good_callLocal hinv htop hpc hn (hF.call heq (by assumption))
         · exact good_err)
    | -- lddw
      (rename_i heq
       exact Good.mono (fun _ => post_safe hinv (hpc ▸ (hF.lddw heq).2))
         (good_lddw hpc (hF.lddw heq).1 (hd9 (by rw [heq]; decide))))
    | -- no other opcode passes the verifier
      (refine absurd ?_ hF.known
       clear hjmp hft hF hd9 hd10 hsrc hinv hmem hpc htop
       unfold arm
       split <;> first | rfl | (rename_i h; exact absurd h (by assumption)))

/-! ### one step -/

theorem sum_range_congr (f g : Nat → Nat) (n : Nat) (h : ∀ k, k < n → f k = g k) :
    ((List.range n).map f).sum = ((List.range n).map g).sum := by
  induction n with
  | zero => rfl
  | succ n ih =>
    rw [sum_range_succ, sum_range_succ, ih (fun k hk => h k (by omega)), h n (by omega)]

/-- recording the frame size of the current function (slot `depth` of `usage`) keeps the invariant -/
theorem Inv.setUsage {env : Env} {top : Nat} {s : State} {u : Nat} (hinv : Inv env top s) (hu : u < 65536) :
    Inv env top { s with usage := s.usage.setIfInBounds s.depth u } := by
  obtain ⟨hfr, hlen, hus, r10, h10, hsum⟩ := hinv
  refine ⟨hfr, hlen, ?_, r10, h10, ?_⟩
  · intro k hk v hv
    have hv' : (s.usage.setIfInBounds s.depth u)[k]? = some v := hv
    rw [Vector.getElem?_setIfInBounds] at hv'
    split at hv'
    · split at hv'
      · cases hv'; exact hu
      · cases hv'
    · exact hus k hk v hv'
  · show _ + ((List.range s.frames.length).map
        (fun k => ((s.usage.setIfInBounds s.depth u)[k]?).getD 0)).sum = top
    rw [sum_range_congr _ (fun k => (s.usage[k]?).getD 0)]
    · exact hsum
    · intro k hk
      rw [Vector.getElem?_setIfInBounds_ne]
      unfold State.depth; omega

/-- the state `step` hands to `exec`, before `pc` is advanced -/
def preState (env : Env) (s : State) : State :=
  if s.depth < 8 then
    match env.usage s.pc with
    | some u => { s with usage := s.usage.setIfInBounds s.depth u }
    | none => s
  else s

theorem step_eq (env : Env) (s : State) :
    step env s =
      if s.pc * 8 < env.prog.size then
        match getInsn? env.prog s.pc with
        | none => .panic
        | some insn => exec env { preState env s with pc := s.pc + 1 } insn
      else .panic := rfl

theorem preState_inv {env : Env} {top : Nat} {s : State} (hu : ∀ pc u, env.usage pc = some u → u < 65536)
    (hinv : Inv env top s) : Inv env top (preState env s) ∧ (preState env s).mem = s.mem := by
  unfold preState
  split
  · split
    · rename_i u hu'
      exact ⟨hinv.setUsage (hu _ _ hu'), rfl⟩
    · exact ⟨hinv, rfl⟩
  · exact ⟨hinv, rfl⟩

theorem step_good (env : Env) (top : Nat) (s : State) (hc : Verifier.check env.prog = .ok)
    (hu : ∀ pc u, env.usage pc = some u → u < 65536)
    (htop : 2 ^ 20 ≤ top ∧ top < 2 ^ 63) (hmem : s.mem.mem.base + 2 ^ 32 < 2 ^ 64)
    (hs : StartInv env top s) :
    Good (fun s' => StartInv env top s' ∧ s'.mem.mem.base = s.mem.mem.base) (step env s) := by
  obtain ⟨hpcs, hinv⟩ := hs
  have hlt := starts_lt s.pc hpcs
  obtain ⟨x, hx⟩ := getInsn?_isSome_iff.2 (mem_sweepFrom_bounds hpcs).2
  obtain ⟨hpi, hpm⟩ := preState_inv hu hinv
  rw [step_eq, if_pos hlt, hx]
  have hmem' : ({ preState env s with pc := s.pc + 1 } : State).mem.mem.base + 2 ^ 32 < 2 ^ 64 := by
    show (preState env s).mem.mem.base + 2 ^ 32 < 2 ^ 64
    rw [hpm]; exact hmem
  have := exec_good env top { preState env s with pc := s.pc + 1 } s.pc x (insnFacts_of_check hc hpcs hx) rfl
    (hpi.of_keeps ⟨rfl, rfl, rfl, rfl⟩) htop hmem'
  refine Good.mono ?_ this
  intro s' h
  refine ⟨h.1, ?_⟩
  rw [h.2]
  show (preState env s).mem.mem.base = _
  rw [hpm]

/-! ### the initial state, and runs -/

theorem init_startInv (env : Env) (m : Memory) (hc : Verifier.check env.prog = .ok)
    (hm : m.stack.base + m.stack.bytes.size < 2 ^ 63) :
    StartInv env (m.stack.base + m.stack.bytes.size) (Interp.init m) := by
  obtain ⟨h8, h0, -⟩ := check_ok_len hc
  refine ⟨starts_ne_nil (by omega), ?_, ?_, ?_, BitVec.ofNat 64 (m.stack.base + m.stack.bytes.size), ?_, ?_⟩
  · intro f hf; cases hf
  · show 0 ≤ 8; omega
  · intro k hk u hu
    have hu' : (Vector.replicate 8 256)[k]? = some u := hu
    rw [Vector.getElem?_eq_getElem hk] at hu'
    simp at hu'
    omega
  · show (Vector.setIfInBounds _ 10 _)[10]? = _
    rw [Vector.getElem?_setIfInBounds]; simp
  · show _ + ((List.range 0).map _).sum = _
    simp
    omega

theorem run_ne_panic (env : Env) (top : Nat) (hc : Verifier.check env.prog = .ok)
    (hu : ∀ pc u, env.usage pc = some u → u < 65536) (htop : 2 ^ 20 ≤ top ∧ top < 2 ^ 63) (fuel : Nat) :
    ∀ s : State, s.mem.mem.base + 2 ^ 32 < 2 ^ 64 → StartInv env top s → run env s fuel ≠ .panic := by
  induction fuel with
  | zero => intro s _ _; simp [run]
  | succ n ih =>
    intro s hmem hs
    have hg := step_good env top s hc hu htop hmem hs
    rw [run]
    cases hst : step env s with
    | next s' =>
      obtain ⟨h1, h2⟩ := hg.of_next hst
      exact ih s' (by rw [h2]; exact hmem) h1
    | done r s' => simp
    | err e s' => simp
    | panic => exact absurd hst hg.ne_panic
    | fault => simp

end Rbpf
