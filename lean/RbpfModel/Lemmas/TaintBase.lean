/-
  Soundness of the dynamic taint analysis (`Model/Taint.lean`), part 1: the low-equivalence between two runs
  (`taint_LowEq`: equal on everything the tags call defined), the simulation relation on outcomes (`taint_Sim`),
  and the facts about tag arrays, memory reads / writes and the access primitives the per-instruction lemmas
  (`TaintStep.lean`) are assembled from.
-/
import RbpfModel.Model.Taint
import RbpfModel.Model.JitSimC
import RbpfModel.Lemmas.EngineLemmas
namespace Rbpf
open Interp
open Taint (Tag TState)

/-! ### tag arrays -/

theorem taint_getD_set {α} (a : Array α) (i j : Nat) (v d : α) :
    (a.setIfInBounds i v).getD j d = if i = j ∧ i < a.size then v else a.getD j d := by
  simp only [Array.getD_eq_getD_getElem?, Array.getElem?_setIfInBounds]
  by_cases h : i = j
  · subst h; by_cases h2 : i < a.size <;> simp [h2]
  · simp [h]

theorem taint_foldl_set_size {α} (f : Nat → α) (o n : Nat) (arr : Array α) :
    ((List.range n).foldl (fun acc k => acc.setIfInBounds (o + k) (f k)) arr).size = arr.size := by
  induction n with
  | zero => rfl
  | succ n ih => simp [List.range_succ, List.foldl_append, ih]

theorem taint_foldl_set_getD {α} (f : Nat → α) (o n : Nat) (arr : Array α) (j : Nat) (d : α) :
    ((List.range n).foldl (fun acc k => acc.setIfInBounds (o + k) (f k)) arr).getD j d =
      if o ≤ j ∧ j < o + n ∧ j < arr.size then f (j - o) else arr.getD j d := by
  induction n with
  | zero =>
    have : ¬ (o ≤ j ∧ j < o + 0 ∧ j < arr.size) := by omega
    simp only [List.range_zero, List.foldl_nil, if_neg this]
  | succ n ih =>
    simp only [List.range_succ, List.foldl_append, List.foldl_cons, List.foldl_nil]
    rw [taint_getD_set, ih, taint_foldl_set_size]
    by_cases h1 : o + n = j
    · subst h1
      by_cases h2 : o + n < arr.size
      · simp [h2]
      · have : arr.getD (o + n) d = d := by
          rw [Array.getD_eq_getD_getElem?, Array.getElem?_eq_none (by omega)]; rfl
        simp [h2, this]
    · by_cases h3 : o ≤ j ∧ j < o + n ∧ j < arr.size
      · have : o ≤ j ∧ j < o + (n + 1) ∧ j < arr.size := by omega
        simp [h1, h3, this]
      · have : ¬ (o ≤ j ∧ j < o + (n + 1) ∧ j < arr.size) := by omega
        simp [h1, h3, this]

theorem taint_combine_low (ts : List Tag) (w : Nat) (h : Taint.combine ts w ≠ .dirty) : ∀ g ∈ ts, g ≠ .dirty := by
  intro g hg
  unfold Taint.combine at h
  split at h
  · rename_i hall
    have := List.all_eq_true.1 hall g hg
    simp at this; subst this; simp
  · split at h
    · rename_i hall
      have := List.all_eq_true.1 hall.2 g hg
      simp at this; subst this; simp
    · split at h
      · rename_i hall
        have := List.all_eq_true.1 hall.2 g hg
        simp at this; subst this; simp
      · exact absurd rfl h

/-! ### the relation between the analysed run (`a`) and any other run (`b`) -/

/-- two regions share no byte -/
def taint_Apart (r s : Region) : Prop :=
  r.base + r.bytes.size ≤ s.base ∨ s.base + s.bytes.size ≤ r.base ∨ r.bytes.size = 0 ∨ s.bytes.size = 0

/-- the private stack shares no byte with the metadata buffer nor with the packet (they are separate allocations;
    the model's `readBytes?` / `writeBytes?` would give the other two priority) -/
def StackApart (m : Memory) : Prop := taint_Apart m.mbuff m.stack ∧ taint_Apart m.mem m.stack

/-- same packet, metadata, registered ranges; same stack placement; same stack bytes wherever the tag is not `dirty` -/
structure taint_MemEq (st : Array Tag) (ma mb : Memory) : Prop where
  mbuff : mb.mbuff = ma.mbuff
  mem : mb.mem = ma.mem
  extra : mb.extra = ma.extra
  sbase : mb.stack.base = ma.stack.base
  ssize : mb.stack.bytes.size = ma.stack.bytes.size
  sbytes : ∀ k, st.getD k .dirty ≠ .dirty → mb.stack.bytes.getD k 0 = ma.stack.bytes.getD k 0
  apart : StackApart ma

/-- low-equivalence: same control state, same helper log, same registers wherever the tag is not `dirty`, memories
    related by `taint_MemEq`; both at call depth 0 -/
structure taint_LowEq (rt st : Array Tag) (a b : State) : Prop where
  pc : b.pc = a.pc
  fra : a.frames = []
  frb : b.frames = []
  log : b.log = a.log
  regs : ∀ r, rt.getD r .dirty ≠ .dirty → b.reg[r]? = a.reg[r]?
  mem : taint_MemEq st a.mem b.mem

/-- what the final states of two runs share -/
def taint_Fin (a b : State) : Prop :=
  b.log = a.log ∧ b.mem.mbuff = a.mem.mbuff ∧ b.mem.mem = a.mem.mem ∧ b.mem.extra = a.mem.extra

/-- whenever run `a` continues / returns, run `b` continues in a related state / returns the same value -/
def taint_Sim (P : State → State → Prop) (oa ob : Outcome) : Prop :=
  match oa with
  | .next a' => ∃ b', ob = .next b' ∧ P a' b'
  | .done r a' => ∃ b', ob = .done r b' ∧ taint_Fin a' b'
  | _ => True

theorem taint_memEq_refl (st : Array Tag) (m : Memory) (h : StackApart m) : taint_MemEq st m m :=
  ⟨rfl, rfl, rfl, rfl, rfl, fun _ _ => rfl, h⟩

theorem taint_lowEq_fin {rt st : Array Tag} {a b : State} (h : taint_LowEq rt st a b) : taint_Fin a b :=
  ⟨h.log, h.mem.mbuff, h.mem.mem, h.mem.extra⟩

/-! ### `taint_Sim` through the primitives -/

theorem taint_sim_next {P : State → State → Prop} {a b : State} (h : P a b) : taint_Sim P (.next a) (.next b) :=
  ⟨b, rfl, h⟩

theorem taint_sim_mono {P P' : State → State → Prop} {oa ob : Outcome} (h : taint_Sim P oa ob)
    (hp : ∀ a b, P a b → P' a b) : taint_Sim P' oa ob := by
  cases oa with
  | next a' => obtain ⟨b', h1, h2⟩ := h; exact ⟨b', h1, hp _ _ h2⟩
  | done r a' => exact h
  | _ => trivial

/-- generated code performs what the interpreter performs, or the interpreter refuses (so run `a` did not continue) -/
theorem taint_sim_or {P : State → State → Prop} {oa ob ob' : Outcome} {e : ErrKind} {s : State}
    (h : taint_Sim P oa ob') (ho : ob = ob' ∨ ob' = .err e s) : taint_Sim P oa ob := by
  rcases ho with rfl | ho
  · exact h
  · subst ho
    cases oa with
    | next a' => obtain ⟨b', h1, _⟩ := h; cases h1
    | done r a' => obtain ⟨b', h1, _⟩ := h; cases h1
    | _ => trivial

theorem taint_sim_rd {P : State → State → Prop} (a b : State) (i : Nat) (ka kb : BitVec 64 → Outcome)
    (h : ∀ va vb, a.reg[i]? = some va → b.reg[i]? = some vb → taint_Sim P (ka va) (kb vb)) :
    taint_Sim P (rd a i ka) (rd b i kb) := by
  unfold rd
  by_cases hi : i < 11
  · have h1 : a.reg[i]? = some a.reg[i] := Vector.getElem?_eq_getElem hi
    have h2 : b.reg[i]? = some b.reg[i] := Vector.getElem?_eq_getElem hi
    rw [h1, h2]
    exact h _ _ h1 h2
  · have h1 : a.reg[i]? = none := by simp; omega
    rw [h1]; trivial

theorem taint_sim_wr {P : State → State → Prop} (a b : State) (d : Nat) (va vb : BitVec 64)
    (h : P { a with reg := a.reg.setIfInBounds d va } { b with reg := b.reg.setIfInBounds d vb }) :
    taint_Sim P (wr a d va) (wr b d vb) := by
  unfold wr
  split
  · exact ⟨_, rfl, h⟩
  · trivial

theorem taint_sim_jumpTo {P : State → State → Prop} (a b : State) (t : Int)
    (h : P { a with pc := t.toNat } { b with pc := t.toNat }) : taint_Sim P (jumpTo a t) (jumpTo b t) := by
  unfold jumpTo
  split
  · trivial
  · exact ⟨_, rfl, h⟩

/-! ### updating the relation -/

theorem taint_lowEq_wr {rt st : Array Tag} {a b : State} (h : taint_LowEq rt st a b) (d : Nat) (g : Tag)
    (va vb : BitVec 64) (hv : g ≠ .dirty → vb = va) :
    taint_LowEq (rt.setIfInBounds d g) st { a with reg := a.reg.setIfInBounds d va }
      { b with reg := b.reg.setIfInBounds d vb } := by
  refine ⟨h.pc, h.fra, h.frb, h.log, ?_, h.mem⟩
  intro r hr
  rw [taint_getD_set] at hr
  by_cases hrd : d = r
  · subst hrd
    by_cases hsz : d < rt.size
    · rw [if_pos ⟨rfl, hsz⟩] at hr
      rw [hv hr]
      simp [Vector.getElem?_setIfInBounds]
    · rw [if_neg (by omega)] at hr
      exact absurd (by rw [Array.getD_eq_getD_getElem?, Array.getElem?_eq_none (by omega)]; rfl) hr
  · rw [if_neg (by omega)] at hr
    simp only [Vector.getElem?_setIfInBounds_ne hrd]
    exact h.regs r hr

/-- give register `d` the tag `g` without writing it -/
theorem taint_lowEq_retag {rt st : Array Tag} {a b : State} (h : taint_LowEq rt st a b) (d : Nat) (g : Tag)
    (hv : g ≠ .dirty → b.reg[d]? = a.reg[d]?) : taint_LowEq (rt.setIfInBounds d g) st a b := by
  refine ⟨h.pc, h.fra, h.frb, h.log, ?_, h.mem⟩
  intro r hr
  rw [taint_getD_set] at hr
  by_cases hrd : d = r ∧ d < rt.size
  · rw [if_pos hrd] at hr; rw [← hrd.1]; exact hv hr
  · rw [if_neg hrd] at hr; exact h.regs r hr

theorem taint_lowEq_pc {rt st : Array Tag} {a b : State} (h : taint_LowEq rt st a b) (p : Nat) :
    taint_LowEq rt st { a with pc := p } { b with pc := p } :=
  ⟨rfl, h.fra, h.frb, h.log, h.regs, h.mem⟩

theorem taint_lowEq_mem {rt st st' : Array Tag} {a b : State} (h : taint_LowEq rt st a b) (ma mb : Memory)
    (hm : taint_MemEq st' ma mb) : taint_LowEq rt st' { a with mem := ma } { b with mem := mb } :=
  ⟨h.pc, h.fra, h.frb, h.log, h.regs, hm⟩

/-! ### memory -/

theorem taint_contains_stack {st : Array Tag} {ma mb : Memory} (h : taint_MemEq st ma mb) (a w : Nat) :
    mb.stack.contains a w = ma.stack.contains a w := by
  simp [Region.contains, h.sbase, h.ssize]

theorem taint_checkMem {st : Array Tag} {ma mb : Memory} (h : taint_MemEq st ma mb) (al : List (Nat × Nat))
    (addr : BitVec 64) (w : Nat) : checkMem mb al addr w = checkMem ma al addr w := by
  unfold checkMem
  simp only [h.mbuff, h.mem, taint_contains_stack h]

/-- a read the analysed run performs is performed by the other run; it yields the same bytes when it is not served
    by the stack, or when every stack byte it covers has a tag other than `dirty` -/
theorem taint_read {st : Array Tag} {ma mb : Memory} (h : taint_MemEq st ma mb) (a w : Nat) (bsa : List (BitVec 8))
    (hr : ma.readBytes? a w = some bsa) :
    ∃ bsb, mb.readBytes? a w = some bsb ∧
      ((ma.stack.contains a w = false ∨ ∀ k, k < w → st.getD (a - ma.stack.base + k) .dirty ≠ .dirty) → bsb = bsa) := by
  unfold Memory.readBytes? Memory.regions at hr ⊢
  simp only [List.find?_cons, h.mbuff, h.mem, h.extra, taint_contains_stack h] at hr ⊢
  cases h1 : ma.mbuff.contains a w with
  | true => simp only [h1] at hr ⊢; exact ⟨_, rfl, fun _ => Option.some.inj hr⟩
  | false =>
    simp only [h1] at hr ⊢
    cases h2 : ma.mem.contains a w with
    | true => simp only [h2] at hr ⊢; exact ⟨_, rfl, fun _ => Option.some.inj hr⟩
    | false =>
      simp only [h2] at hr ⊢
      cases h3 : ma.stack.contains a w with
      | true =>
        simp only [h3] at hr ⊢
        refine ⟨_, rfl, ?_⟩
        intro hc
        rcases hc with hc | hc
        · cases hc
        · rw [← Option.some.inj hr]
          apply List.map_congr_left
          intro k hk
          rw [h.sbase]; exact h.sbytes _ (hc k (List.mem_range.1 hk))
      | false => simp only [h3] at hr ⊢; exact ⟨bsa, hr, fun _ => rfl⟩

theorem taint_writeRegion_size (r : Region) (a : Nat) (bs : List (BitVec 8)) :
    (Memory.writeRegion r a bs).bytes.size = r.bytes.size :=
  taint_foldl_set_size (fun k => bs.getD k 0) (a - r.base) bs.length r.bytes

theorem taint_writeRegion_getD (r : Region) (a : Nat) (bs : List (BitVec 8)) (j : Nat) :
    (Memory.writeRegion r a bs).bytes.getD j 0 =
      if a - r.base ≤ j ∧ j < a - r.base + bs.length ∧ j < r.bytes.size then bs.getD (j - (a - r.base)) 0
      else r.bytes.getD j 0 :=
  taint_foldl_set_getD (fun k => bs.getD k 0) (a - r.base) bs.length r.bytes j 0

theorem taint_setStack_getD (st : Array Tag) (off w : Nat) (g : Tag) (j : Nat) :
    (Taint.setStack st off w g).getD j .dirty = if off ≤ j ∧ j < off + w ∧ j < st.size then g else st.getD j .dirty :=
  taint_foldl_set_getD (fun _ => g) off w st j .dirty

theorem taint_apart_of_contains {r s : Region} (h : taint_Apart r s) (a w : Nat) (hw : 0 < w)
    (hs : s.contains a w = true) : r.contains a w = false := by
  unfold taint_Apart at h
  simp only [Region.contains, Bool.and_eq_true, decide_eq_true_eq] at hs
  simp only [Region.contains, Bool.and_eq_false_iff, decide_eq_false_iff_not]
  omega

/-- a write the analysed run performs is performed by the other run, with other bytes `bsb` only if it goes to the
    stack; the covered stack bytes then get the tag `g`, which may be other than `dirty` only if `bsb = bsa` -/
theorem taint_write {st : Array Tag} {ma mb : Memory} (h : taint_MemEq st ma mb) (a : Nat) (bsa bsb : List (BitVec 8))
    (ma' : Memory) (hlen : bsb.length = bsa.length) (hpos : 0 < bsa.length) (hw : ma.writeBytes? a bsa = some ma')
    (g : Tag) (hg : g ≠ .dirty → bsb = bsa) (hns : ma.stack.contains a bsa.length = false → bsb = bsa) :
    ∃ mb', mb.writeBytes? a bsb = some mb' ∧
      taint_MemEq (if ma.stack.contains a bsa.length then Taint.setStack st (a - ma.stack.base) bsa.length g else st)
        ma' mb' := by
  unfold Memory.writeBytes? at hw ⊢
  rw [hlen]
  simp only [h.mbuff, h.mem, h.extra, taint_contains_stack h]
  cases h3 : ma.stack.contains a bsa.length with
  | true =>
    have h1 := taint_apart_of_contains h.apart.1 a _ hpos h3
    have h2 := taint_apart_of_contains h.apart.2 a _ hpos h3
    simp only [h1, h2, h3, Bool.false_eq_true, ↓reduceIte] at hw ⊢
    cases hw
    refine ⟨_, rfl, rfl, rfl, rfl, h.sbase, ?_, ?_, ?_⟩
    · show (Memory.writeRegion _ _ _).bytes.size = (Memory.writeRegion _ _ _).bytes.size
      rw [taint_writeRegion_size, taint_writeRegion_size, h.ssize]
    · intro k hk
      show (Memory.writeRegion _ _ _).bytes.getD k 0 = (Memory.writeRegion _ _ _).bytes.getD k 0
      rw [taint_writeRegion_getD, taint_writeRegion_getD, h.sbase, h.ssize, hlen]
      rw [taint_setStack_getD] at hk
      simp only [Region.contains, Bool.and_eq_true, decide_eq_true_eq] at h3
      by_cases hin : a - ma.stack.base ≤ k ∧ k < a - ma.stack.base + bsa.length
      · have hsz : k < ma.stack.bytes.size := by omega
        rw [if_pos ⟨hin.1, hin.2, hsz⟩, if_pos ⟨hin.1, hin.2, hsz⟩]
        by_cases hst : k < st.size
        · rw [if_pos ⟨hin.1, hin.2, hst⟩] at hk; rw [hg hk]
        · rw [if_neg (by omega)] at hk
          exact absurd (by rw [Array.getD_eq_getD_getElem?, Array.getElem?_eq_none (by omega)]; rfl) hk
      · rw [if_neg (by omega), if_neg (by omega)]
        rw [if_neg (by omega)] at hk
        exact h.sbytes k hk
    · obtain ⟨p1, p2⟩ := h.apart
      refine ⟨?_, ?_⟩
      · unfold taint_Apart at p1 ⊢; show _ ∨ _ ∨ _ ∨ (Memory.writeRegion _ _ _).bytes.size = 0
        rw [taint_writeRegion_size]; exact p1
      · unfold taint_Apart at p2 ⊢; show _ ∨ _ ∨ _ ∨ (Memory.writeRegion _ _ _).bytes.size = 0
        rw [taint_writeRegion_size]; exact p2
  | false =>
    have hb := hns h3
    subst hb
    simp only [h3, Bool.false_eq_true, ↓reduceIte] at hw ⊢
    obtain ⟨p1, p2⟩ := h.apart
    unfold taint_Apart at p1 p2
    by_cases c1 : ma.mbuff.contains a bsb.length = true
    · rw [if_pos c1] at hw ⊢
      cases hw
      refine ⟨_, rfl, rfl, rfl, rfl, h.sbase, h.ssize, h.sbytes, ?_, p2⟩
      unfold taint_Apart; show (Memory.writeRegion _ _ _).base + (Memory.writeRegion _ _ _).bytes.size ≤ _ ∨ _
      rw [taint_writeRegion_size]; exact p1
    · rw [if_neg c1] at hw ⊢
      by_cases c2 : ma.mem.contains a bsb.length = true
      · rw [if_pos c2] at hw ⊢
        cases hw
        refine ⟨_, rfl, rfl, rfl, rfl, h.sbase, h.ssize, h.sbytes, p1, ?_⟩
        unfold taint_Apart; show (Memory.writeRegion _ _ _).base + (Memory.writeRegion _ _ _).bytes.size ≤ _ ∨ _
        rw [taint_writeRegion_size]; exact p2
      · rw [if_neg c2] at hw ⊢
        cases he : Memory.writeExtra ma.extra a bsb with
        | none => rw [he] at hw; cases hw
        | some e =>
          rw [he] at hw
          cases hw
          exact ⟨_, rfl, rfl, rfl, rfl, h.sbase, h.ssize, h.sbytes, p1, p2⟩

/-! ### the access primitives, helper calls, exit -/

theorem taint_sim_load (env : Env) {rt st : Array Tag} {a b : State} (h : taint_LowEq rt st a b) (addr : BitVec 64)
    (w dst : Nat) (g : Tag)
    (hg : g ≠ .dirty → a.mem.stack.contains addr.toNat w = false ∨
      ∀ k, k < w → st.getD (addr.toNat - a.mem.stack.base + k) .dirty ≠ .dirty) :
    taint_Sim (taint_LowEq (rt.setIfInBounds dst g) st) (load env a addr w dst) (load env b addr w dst) := by
  unfold load
  rw [taint_checkMem h.mem]
  split
  · cases hr : a.mem.readBytes? addr.toNat w with
    | none => trivial
    | some bsa =>
      obtain ⟨bsb, hrb, heq⟩ := taint_read h.mem _ _ _ hr
      rw [hrb]
      exact taint_sim_wr _ _ _ _ _ (taint_lowEq_wr h dst g _ _ (fun hlow => by rw [heq (hg hlow)]))
  · trivial

theorem taint_sim_store (env : Env) {rt st : Array Tag} {a b : State} (h : taint_LowEq rt st a b) (addr : BitVec 64)
    (w : Nat) (hw : 0 < w) (va vb : BitVec 64) (g : Tag) (hg : g ≠ .dirty → vb = va)
    (hns : a.mem.stack.contains addr.toNat w = false → vb = va) :
    taint_Sim (taint_LowEq rt
        (if a.mem.stack.contains addr.toNat w then Taint.setStack st (addr.toNat - a.mem.stack.base) w g else st))
      (store env a addr w va) (store env b addr w vb) := by
  unfold store
  rw [taint_checkMem h.mem]
  by_cases hc : checkMem a.mem env.allowed addr w = true
  · rw [if_pos hc, if_pos hc]
    cases hwr : a.mem.writeBytes? addr.toNat (leBytes va.toNat w) with
    | none => trivial
    | some ma' =>
      obtain ⟨mb', hwb, hm⟩ := taint_write h.mem addr.toNat (leBytes va.toNat w) (leBytes vb.toNat w) ma'
        (by rw [leBytes_length, leBytes_length]) (by rw [leBytes_length]; exact hw) hwr g
        (fun hl => by rw [hg hl]) (fun hn => by rw [leBytes_length] at hn; rw [hns hn])
      rw [leBytes_length] at hm
      rw [hwb]
      exact taint_sim_next (taint_lowEq_mem h _ _ hm)
  · rw [if_neg hc]; trivial

theorem taint_sim_xadd (env : Env) {rt st : Array Tag} {a b : State} (h : taint_LowEq rt st a b) (addr : BitVec 64)
    (w : Nat) (hw : 0 < w) (va vb : BitVec 64) (g : Tag)
    (hg : g ≠ .dirty → vb = va ∧ ∀ k, k < w → st.getD (addr.toNat - a.mem.stack.base + k) .dirty ≠ .dirty)
    (hns : a.mem.stack.contains addr.toNat w = false → vb = va) :
    taint_Sim (taint_LowEq rt
        (if a.mem.stack.contains addr.toNat w then Taint.setStack st (addr.toNat - a.mem.stack.base) w g else st))
      (xadd env a addr w va) (xadd env b addr w vb) := by
  unfold xadd
  rw [taint_checkMem h.mem]
  by_cases hc : checkMem a.mem env.allowed addr w = true
  · rw [if_pos hc, if_pos hc]
    by_cases hal : addr.toNat % w = 0
    · rw [if_pos hal, if_pos hal]
      cases hr : a.mem.readBytes? addr.toNat w with
      | none => trivial
      | some bsa =>
        obtain ⟨bsb, hrb, heq⟩ := taint_read h.mem _ _ _ hr
        rw [hrb]
        dsimp only
        cases hwr : a.mem.writeBytes? addr.toNat (leBytes (leValue bsa + va.toNat) w) with
        | none => trivial
        | some ma' =>
          obtain ⟨mb', hwb, hm⟩ := taint_write h.mem addr.toNat (leBytes (leValue bsa + va.toNat) w)
            (leBytes (leValue bsb + vb.toNat) w) ma'
            (by rw [leBytes_length, leBytes_length]) (by rw [leBytes_length]; exact hw) hwr g
            (fun hl => by rw [(hg hl).1, heq (Or.inr (hg hl).2)])
            (fun hn => by rw [leBytes_length] at hn; rw [hns hn, heq (Or.inl hn)])
          rw [leBytes_length] at hm
          rw [hwb]
          exact taint_sim_next (taint_lowEq_mem h _ _ hm)
    · rw [if_neg hal]; trivial
  · rw [if_neg hc]; trivial

theorem taint_sim_callHelper (env : Env) {rt st : Array Tag} {a b : State} (h : taint_LowEq rt st a b)
    (imm : BitVec 32) (hc : ∀ k, 1 ≤ k → k ≤ 5 → rt.getD k .dirty ≠ .dirty) (rt' : Array Tag)
    (hrt' : ∀ r, rt'.getD r .dirty ≠ .dirty → (r = 0 ∨ 6 ≤ r) ∧ (r ≠ 0 → rt.getD r .dirty ≠ .dirty)) :
    taint_Sim (fun a' b' => ∀ regs' : Vector (BitVec 64) 11, (∀ r, r = 0 ∨ 6 ≤ r → regs'[r]? = b'.reg[r]?) →
        taint_LowEq rt' st a' { b' with reg := regs' })
      (callHelper env a imm) (callHelper env b imm) := by
  unfold callHelper
  cases env.helpers imm.toNat with
  | none => trivial
  | some f =>
    dsimp only
    refine taint_sim_rd _ _ _ _ _ fun a1 b1 ha1 hb1 => ?_
    refine taint_sim_rd _ _ _ _ _ fun a2 b2 ha2 hb2 => ?_
    refine taint_sim_rd _ _ _ _ _ fun a3 b3 ha3 hb3 => ?_
    refine taint_sim_rd _ _ _ _ _ fun a4 b4 ha4 hb4 => ?_
    refine taint_sim_rd _ _ _ _ _ fun a5 b5 ha5 hb5 => ?_
    have e1 : b1 = a1 := by have := h.regs 1 (hc 1 (by omega) (by omega)); rw [ha1, hb1] at this; exact Option.some.inj this
    have e2 : b2 = a2 := by have := h.regs 2 (hc 2 (by omega) (by omega)); rw [ha2, hb2] at this; exact Option.some.inj this
    have e3 : b3 = a3 := by have := h.regs 3 (hc 3 (by omega) (by omega)); rw [ha3, hb3] at this; exact Option.some.inj this
    have e4 : b4 = a4 := by have := h.regs 4 (hc 4 (by omega) (by omega)); rw [ha4, hb4] at this; exact Option.some.inj this
    have e5 : b5 = a5 := by have := h.regs 5 (hc 5 (by omega) (by omega)); rw [ha5, hb5] at this; exact Option.some.inj this
    subst e1 e2 e3 e4 e5
    refine taint_sim_wr _ _ _ _ _ ?_
    intro regs' hregs
    refine ⟨h.pc, h.fra, h.frb, ?_, ?_, h.mem⟩
    · show b.log ++ _ = a.log ++ _
      rw [h.log]
    · intro r hr
      obtain ⟨hr1, hr2⟩ := hrt' r hr
      show regs'[r]? = (a.reg.setIfInBounds 0 _)[r]?
      rw [hregs r hr1]
      show (b.reg.setIfInBounds 0 _)[r]? = _
      by_cases h0 : r = 0
      · subst h0; simp
      · rw [Vector.getElem?_setIfInBounds_ne (Ne.symm h0), Vector.getElem?_setIfInBounds_ne (Ne.symm h0)]
        exact h.regs r (hr2 h0)

theorem taint_sim_exit {P : State → State → Prop} {rt st : Array Tag} {a b : State} (h : taint_LowEq rt st a b)
    (h0 : rt.getD 0 .dirty ≠ .dirty) : taint_Sim P (exitInsn a) (exitInsn b) := by
  unfold exitInsn
  rw [h.fra, h.frb]
  dsimp only
  unfold rd
  rw [h.regs 0 h0]
  cases a.reg[0]? with
  | none => trivial
  | some r => exact ⟨b, rfl, taint_lowEq_fin h⟩

end Rbpf
