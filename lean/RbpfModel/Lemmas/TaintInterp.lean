/-
  Soundness of the dynamic taint analysis, part 4: the INTERPRETER's own run does not depend on the registers the tags call
  undefined at entry (r0, r2 … r9) when the taint run accepts.  Same simulation argument as `TaintRun.lean`, with
  `Interp.step` on both sides (no clobbering, no alignment alternative); `State.usage` plays no role at call depth 0.
-/
import RbpfModel.Lemmas.TaintLemmas
namespace Rbpf
open Interp
open Taint (Tag TState stepTags)

theorem taint_lowEq_pre2 (env : Env) {rt st : Array Tag} {s u : State} (h : taint_LowEq rt st s u) :
    taint_LowEq rt st (stepPre env s) (stepPre env u) :=
  ⟨by rw [stepPre_pc, stepPre_pc, h.pc], (stepPre_frames env s).trans h.fra, (stepPre_frames env u).trans h.frb,
    by rw [taint_stepPre_log, taint_stepPre_log]; exact h.log,
    fun r hr => by rw [stepPre_reg, stepPre_reg]; exact h.regs r hr,
    by rw [taint_stepPre_mem, taint_stepPre_mem]; exact h.mem⟩

/-- one instruction, interpreter against interpreter -/
theorem taint_interp_exec_sim (env : Env) (t : TState) (ps : List Nat) (insn : Insn) (i : Isa.Instr) {a b : State}
    (hd : Isa.decode insn = some i) (hl : ¬ (insn.opc = 0x85 ∧ insn.src = 1)) (h7 : Isa.isF7 insn = false)
    (hreg : a.reg = t.s.reg) (hmem : a.mem = t.s.mem) (hsv : t.saved = []) (hfr : t.s.frames = [])
    (h : taint_LowEq t.rt t.st a b) (hin : (stepTags t i ps).inClaim = true) :
    taint_Sim (taint_LowEq (stepTags t i ps).rt (stepTags t i ps).st) (Interp.exec env a insn)
      (Interp.exec env b insn) := by
  rw [taint_exec_isa env a insn i hd h7, taint_exec_isa env b insn i hd h7]
  by_cases hcall : insn.opc = 0x85
  · have hd' := taint_decode_of_call insn hcall
    rw [hd] at hd'
    have hi : i = .call insn.src.toNat insn.imm := Option.some.inj hd'
    subst hi
    by_cases hs0 : insn.src = 0
    · have hk : insn.src.toNat = 0 := by rw [hs0]; rfl
      rw [hk] at hin ⊢
      have hsim := taint_sim_call0 env t ps insn.imm h hin
      have ea : Isa.exec env a (.call 0 insn.imm) = callHelper env a insn.imm := by simp only [Isa.exec, ↓reduceIte]
      have eb : Isa.exec env b (.call 0 insn.imm) = callHelper env b insn.imm := by simp only [Isa.exec, ↓reduceIte]
      rw [ea, eb]
      exact taint_sim_mono hsim fun a' b' hp => hp b'.reg fun _ _ => rfl
    · have hk0 : insn.src.toNat ≠ 0 := fun hk => hs0 (BitVec.eq_of_toNat_eq (by rw [hk]; rfl))
      have hk1 : insn.src.toNat ≠ 1 := fun hk => hl ⟨hcall, BitVec.eq_of_toNat_eq (by rw [hk]; rfl)⟩
      simp only [Isa.exec, if_neg hk0, if_neg hk1]
      trivial
  · have hnc : ∀ k imm, i ≠ .call k imm := by
      intro k imm hi
      subst hi
      exact hcall (bv8_eq_of_toNat _ _ (by decide) (taint_decode_call insn k imm hd).1)
    exact taint_sim_exec env t ps i hreg hmem hsv hfr (taint_decode_width insn i hd) hnc h hin

theorem taint_interp_step_of_exec (env : Env) {P : State → State → Prop} {rt st : Array Tag} {s u : State}
    (h : taint_LowEq rt st s u) (insn : Insn) (hi : getInsn? env.prog s.pc = some insn)
    (hex : taint_Sim P (Interp.exec env (stepPre env s) insn) (Interp.exec env (stepPre env u) insn)) :
    taint_Sim P (Interp.step env s) (Interp.step env u) := by
  rw [step_unfold, step_unfold, h.pc]
  by_cases hlt : s.pc * 8 < env.prog.size
  · rw [if_pos hlt, if_pos hlt, hi]
    exact hex
  · rw [if_neg hlt]; trivial

theorem taint_interp_step_sim (env : Env) (t : TState) (ps : List Nat) (hl : NoLocalCall env.prog)
    (h7 : NoF7 env.prog) {u : State} (hsv : t.saved = []) (h : taint_LowEq t.rt t.st t.s u) (insn : Insn)
    (hi : getInsn? env.prog t.s.pc = some insn) (i : Isa.Instr) (hd : Isa.decode insn = some i)
    (hin : (stepTags t i ps).inClaim = true) :
    taint_Sim (taint_LowEq (stepTags t i ps).rt (stepTags t i ps).st) (Interp.step env t.s) (Interp.step env u) :=
  taint_interp_step_of_exec env h insn hi
    (taint_interp_exec_sim env t ps insn i hd (hl _ _ hi) (h7 _ _ hi) (stepPre_reg env t.s) (taint_stepPre_mem env t.s)
      hsv h.fra (taint_lowEq_pre2 env h) hin)

theorem taint_interp_step_sim_patched (env : Env) (t : TState) (ps : List Nat) (h7 : NoF7 env.prog) {u : State}
    (h : taint_LowEq t.rt t.st t.s u) (insn : Insn) (hi : getInsn? env.prog t.s.pc = some insn) (i : Isa.Instr)
    (hd : Isa.decode insn = some i) (hop : insn.opc = 0x18) :
    taint_Sim (taint_LowEq ((stepTags t i ps).rt.setIfInBounds insn.dst.toNat .pkt) (stepTags t i ps).st)
      (Interp.step env t.s) (Interp.step env u) := by
  have hd' := taint_decode_of_lddw insn hop
  rw [hd] at hd'
  have hi' : i = .lddw insn.dst.toNat insn.imm := Option.some.inj hd'
  subst hi'
  obtain ⟨hrt, hst, -, -⟩ := taint_tags_lddw t insn.dst.toNat insn.imm ps
  rw [hrt, hst, Array.setIfInBounds_setIfInBounds]
  refine taint_interp_step_of_exec env h insn hi ?_
  rw [taint_exec_isa env _ insn _ hd (h7 _ _ hi), taint_exec_isa env _ insn _ hd (h7 _ _ hi)]
  exact taint_sim_lddw env (taint_lowEq_pre2 env h) _ _ .pkt

/-- non-interference of accepted runs, for the interpreter itself -/
theorem taint_interp_run_sim (env : Env) (ps pa : List Nat) (hl : NoLocalCall env.prog) (h7 : NoF7 env.prog) :
    ∀ (fuel : Nat) (t : TState) (u : State) (tf : TState) (r0 : BitVec 64) (sfin : State),
      Taint.run env ps pa fuel t = (tf, .done r0 sfin) → tf.inClaim = true → t.saved = [] →
      taint_LowEq t.rt t.st t.s u → ∃ ufin, Interp.run env u fuel = .done r0 ufin ∧ taint_Fin sfin ufin := by
  intro fuel
  induction fuel with
  | zero =>
    intro t u tf r0 sfin hrun
    have : Taint.run env ps pa 0 t = (t, .timeout t.s) := rfl
    rw [this] at hrun; cases hrun
  | succ n ih =>
    intro t u tf r0 sfin hrun hin hsv h
    have hfr := h.fra
    rw [taint_run_succ] at hrun
    cases hi : getInsn? env.prog t.s.pc with
    | none => rw [hi] at hrun; cases hrun
    | some insn =>
      rw [hi] at hrun; dsimp only at hrun
      cases hs : Interp.step env t.s with
      | next s' =>
        rw [hs] at hrun; dsimp only at hrun
        cases hd : Isa.decode insn with
        | none => rw [taint_step_undecodable env t.s insn h7 hi hd] at hs; cases hs
        | some i =>
          have hk := taint_not_localCall env hl hi hd
          have hsv' : (taint_nextTags t insn ps pa).saved = [] := by
            rw [taint_nextTags_saved t insn ps pa i hd]; exact taint_saved_nil t ps i hsv hfr hk
          have hfr' := step_frames_nil env t.s s' hl hfr hs
          have hin' : (stepTags t i ps).inClaim = true := by
            have h1 := taint_run_mono env ps pa hl h7 n _ tf _ hrun hin hsv' hfr'
            have h2 : (taint_nextTags t insn ps pa).inClaim = true := h1
            rwa [taint_nextTags_inClaim t insn ps pa i hd] at h2
          have hsim : taint_Sim (taint_LowEq (taint_nextTags t insn ps pa).rt (taint_nextTags t insn ps pa).st)
              (Interp.step env t.s) (Interp.step env u) := by
            unfold taint_nextTags
            rw [hd]; dsimp only
            split
            · next hp => exact taint_interp_step_sim_patched env t ps h7 h insn hi i hd hp.1
            · exact taint_interp_step_sim env t ps hl h7 hsv h insn hi i hd hin'
          rw [hs] at hsim
          obtain ⟨u', hu', hle'⟩ := hsim
          obtain ⟨ufin, hrunB, hfin⟩ := ih _ u' tf r0 sfin hrun hin hsv' hle'
          refine ⟨ufin, ?_, hfin⟩
          show (match Interp.step env u with
            | .next s' => Interp.run env s' n
            | .done r s' => .done r s'
            | .err e s' => .err e s'
            | .panic => .panic
            | .fault => .fault) = _
          rw [hu']
          exact hrunB
      | done r s' =>
        rw [hs] at hrun; dsimp only at hrun
        cases hrun
        cases hd : Isa.decode insn with
        | none => rw [taint_step_undecodable env t.s insn h7 hi hd] at hs; cases hs
        | some i =>
          rw [hd] at hin
          have hsim := taint_interp_step_sim env t ps hl h7 hsv h insn hi i hd hin
          rw [hs] at hsim
          obtain ⟨u', hu', hfin⟩ := hsim
          refine ⟨u', ?_, hfin⟩
          show (match Interp.step env u with
            | .next s' => Interp.run env s' n
            | .done r s' => .done r s'
            | .err e s' => .err e s'
            | .panic => .panic
            | .fault => .fault) = _
          rw [hu']
      | err e s' => rw [hs] at hrun; cases hrun
      | panic => rw [hs] at hrun; cases hrun
      | fault => rw [hs] at hrun; cases hrun

/-- **the interpreter's run does not depend on r0, r2 … r9 at entry** when the taint run accepts: from any state that agrees
    with the initial state on pc, frames, memory, log, r1 and r10 the interpreter returns the same value, leaves the same
    packet / metadata / registered ranges and makes the same helper calls.  (`State.usage` may differ: it is only read by
    eBPF-to-eBPF calls.) -/
theorem taint_interpIndep (env : Env) (m : Memory) (fuel : Nat) (ptrSlots patched : List Nat) (t : Taint.TState)
    (r0 : BitVec 64) (sfin : State)
    (hl : NoLocalCall env.prog) (h7 : NoF7 env.prog)
    (hdisj : ∀ a w, 0 < w → m.stack.contains a w = true → m.mbuff.contains a w = false ∧ m.mem.contains a w = false)
    (hrun : Taint.run env ptrSlots patched fuel (Taint.init m) = (t, .done r0 sfin)) (hin : t.inClaim = true) :
    ∀ s : State, s.pc = 0 → s.frames = [] → s.mem = m → s.log = [] →
      s.reg[1]? = (Interp.init m).reg[1]? → s.reg[10]? = (Interp.init m).reg[10]? →
      ∃ a b, Interp.run env (Interp.init m) fuel = .done r0 a ∧ Interp.run env s fuel = .done r0 b ∧
        SameData b.mem a.mem ∧ b.log = a.log := by
  intro s hpc hfr hmem hlog h1 h10
  have hap : StackApart m :=
    ⟨taint_apart_of_disj _ _ fun a w hw hs => (hdisj a w hw hs).1,
     taint_apart_of_disj _ _ fun a w hw hs => (hdisj a w hw hs).2⟩
  have hB : taint_LowEq (Taint.init m).rt (Taint.init m).st (Taint.init m).s s := by
    refine ⟨hpc, rfl, hfr, hlog, ?_, ?_⟩
    · intro r hr
      rcases taint_init_low m r hr with rfl | rfl
      · exact h1
      · exact h10
    · show taint_MemEq _ m s.mem
      rw [hmem]; exact taint_memEq_refl _ _ hap
  have hA : Interp.run env (Interp.init m) fuel = .done r0 sfin :=
    taint_run_interp env ptrSlots patched fuel (Taint.init m) t r0 sfin hrun
  obtain ⟨ub, hub, hfb⟩ := taint_interp_run_sim env ptrSlots patched hl h7 fuel _ _ t r0 sfin hrun hin rfl hB
  exact ⟨sfin, ub, hA, hub, ⟨hfb.2.1, hfb.2.2.1, hfb.2.2.2⟩, hfb.1⟩

end Rbpf
