/-
  Soundness of the dynamic taint analysis, part 3: one step and whole runs.  The other run (`b`) executes the
  register-transfer semantics of generated code: `EngineSem.jitStep`, or `JitSim.jitStepC clob` (r1 … r5 overwritten by
  every helper call) — `taint_stepB` covers both.
-/
import RbpfModel.Lemmas.TaintStep
namespace Rbpf
open Interp EngineSem JitSim
open Taint (Tag TState stepTags)

/-! ### the semantics of the other run -/

def taint_execB (c : Option (Nat → Nat → BitVec 64)) (env : Env) (s : State) (insn : Insn) : Outcome :=
  match c with
  | none => jitExec env s insn
  | some clob => jitExecC clob env s insn

def taint_stepB (c : Option (Nat → Nat → BitVec 64)) (env : Env) (s : State) : Outcome :=
  if s.pc * 8 < env.prog.size then
    match getInsn? env.prog s.pc with
    | none => .panic
    | some insn => taint_execB c env { s with pc := s.pc + 1 } insn
  else .panic

def taint_runB (c : Option (Nat → Nat → BitVec 64)) (env : Env) (s : State) : Nat → Interp.Result
  | 0 => .timeout s
  | fuel + 1 =>
    match taint_stepB c env s with
    | .next s' => taint_runB c env s' fuel
    | .done r s' => .done r s'
    | .err e s' => .err e s'
    | .panic => .panic
    | .fault => .fault

theorem taint_runB_none (env : Env) (s : State) (fuel : Nat) : taint_runB none env s fuel = jitRun env s fuel := by
  induction fuel generalizing s with
  | zero => rfl
  | succ n ih =>
    have hs : taint_stepB none env s = jitStep env s := rfl
    unfold taint_runB jitRun
    rw [hs]
    cases jitStep env s <;> simp only [ih]

theorem taint_runB_some (clob : Nat → Nat → BitVec 64) (env : Env) (s : State) (fuel : Nat) :
    taint_runB (some clob) env s fuel = jitRunC clob env s fuel := by
  induction fuel generalizing s with
  | zero => rfl
  | succ n ih =>
    have hs : taint_stepB (some clob) env s = jitStepC clob env s := rfl
    unfold taint_runB jitRunC
    rw [hs]
    cases jitStepC clob env s <;> simp only [ih]

theorem taint_clobberRegs (clob : Nat → Nat → BitVec 64) (n : Nat) (reg : Vector (BitVec 64) 11) (r : Nat)
    (hr : r = 0 ∨ 6 ≤ r) : (clobberRegs clob n reg)[r]? = reg[r]? := by
  unfold clobberRegs
  rw [taint_range5]
  simp only [List.foldl_cons, List.foldl_nil]
  rw [Vector.getElem?_setIfInBounds_ne (by omega), Vector.getElem?_setIfInBounds_ne (by omega),
    Vector.getElem?_setIfInBounds_ne (by omega), Vector.getElem?_setIfInBounds_ne (by omega),
    Vector.getElem?_setIfInBounds_ne (by omega)]

/-! ### one instruction -/

theorem taint_exec_isa (env : Env) (s : State) (insn : Insn) (i : Isa.Instr) (hd : Isa.decode insn = some i)
    (h7 : Isa.isF7 insn = false) : Interp.exec env s insn = Isa.exec env s i := by
  rw [exec_eq_spec env s insn h7, Isa.spec, hd]; rfl

/-- an instruction that is not a call: generated code does what `Isa.exec` does (or the interpreter refuses) -/
theorem taint_execB_of_core (c : Option (Nat → Nat → BitVec 64)) (env : Env) {P : State → State → Prop}
    (insn : Insn) (i : Isa.Instr) {a b : State} (hd : Isa.decode insn = some i) (h7 : Isa.isF7 insn = false)
    (hcall : insn.opc ≠ 0x85) (hfb : b.frames = [])
    (hcore : taint_Sim P (Isa.exec env a i) (Isa.exec env b i)) :
    taint_Sim P (Interp.exec env a insn) (taint_execB c env b insn) := by
  have hl : ¬ (insn.opc = 0x85 ∧ insn.src = 1) := fun h => hcall h.1
  have hj := jitExec_eq_exec env b insn hl h7 hfb
  have hB : taint_execB c env b insn = jitExec env b insn := by
    cases c with
    | none => rfl
    | some clob =>
      show jitExecC clob env b insn = _
      unfold jitExecC
      rw [if_neg (fun h => hcall h.1)]
  rw [taint_exec_isa env a insn i hd h7, hB]
  rw [taint_exec_isa env b insn i hd h7] at hj
  exact taint_sim_or hcore hj

theorem taint_execB_sim (c : Option (Nat → Nat → BitVec 64)) (env : Env) (t : TState) (ps : List Nat) (insn : Insn)
    (i : Isa.Instr) {a b : State} (hd : Isa.decode insn = some i) (hl : ¬ (insn.opc = 0x85 ∧ insn.src = 1))
    (h7 : Isa.isF7 insn = false) (hreg : a.reg = t.s.reg) (hmem : a.mem = t.s.mem) (hsv : t.saved = [])
    (hfr : t.s.frames = []) (h : taint_LowEq t.rt t.st a b) (hin : (stepTags t i ps).inClaim = true) :
    taint_Sim (taint_LowEq (stepTags t i ps).rt (stepTags t i ps).st) (Interp.exec env a insn)
      (taint_execB c env b insn) := by
  by_cases hcall : insn.opc = 0x85
  · have hd' := taint_decode_of_call insn hcall
    rw [hd] at hd'
    have hi : i = .call insn.src.toNat insn.imm := Option.some.inj hd'
    subst hi
    have hj := jitExec_eq_exec env b insn hl h7 h.frb
    rw [taint_exec_isa env b insn _ hd h7] at hj
    rw [taint_exec_isa env a insn _ hd h7]
    by_cases hs0 : insn.src = 0
    · have hk : insn.src.toNat = 0 := by rw [hs0]; rfl
      rw [hk] at hin hj ⊢
      have hsim := taint_sim_call0 env t ps insn.imm h hin
      have ea : Isa.exec env a (.call 0 insn.imm) = callHelper env a insn.imm := by simp only [Isa.exec, ↓reduceIte]
      have eb : Isa.exec env b (.call 0 insn.imm) = callHelper env b insn.imm := by simp only [Isa.exec, ↓reduceIte]
      rw [ea]
      rw [eb] at hj
      cases c with
      | none =>
        exact taint_sim_or (taint_sim_mono hsim fun a' b' hp => hp b'.reg fun _ _ => rfl) hj
      | some clob =>
        have hB : taint_execB (some clob) env b insn = callHelperC clob env b insn.imm := by
          show jitExecC clob env b insn = _
          unfold jitExecC
          rw [if_pos ⟨hcall, hs0⟩]
        rw [hB]
        unfold callHelperC
        cases hoa : callHelper env a insn.imm with
        | next a' =>
          rw [hoa] at hsim
          obtain ⟨b', hb', hp⟩ := hsim
          rw [hb']
          exact ⟨_, rfl, hp _ fun r hr => taint_clobberRegs clob _ _ r hr⟩
        | done r a' =>
          rw [hoa] at hsim
          obtain ⟨b', hb', hp⟩ := hsim
          rw [hb']
          exact ⟨_, rfl, hp⟩
        | err e s => trivial
        | panic => trivial
        | fault => trivial
    · have hk0 : insn.src.toNat ≠ 0 := fun hk => hs0 (BitVec.eq_of_toNat_eq (by rw [hk]; rfl))
      have hk1 : insn.src.toNat ≠ 1 := fun hk => hl ⟨hcall, BitVec.eq_of_toNat_eq (by rw [hk]; rfl)⟩
      simp only [Isa.exec, if_neg hk0, if_neg hk1]
      trivial
  · have hnc : ∀ k imm, i ≠ .call k imm := by
      intro k imm hi
      subst hi
      exact hcall (bv8_eq_of_toNat _ _ (by decide) (taint_decode_call insn k imm hd).1)
    exact taint_execB_of_core c env insn i hd h7 hcall h.frb
      (taint_sim_exec env t ps i hreg hmem hsv hfr (taint_decode_width insn i hd) hnc h hin)

/-! ### one step -/

theorem taint_stepPre_mem (env : Env) (s : State) : (stepPre env s).mem = s.mem := by
  unfold stepPre; split
  · split <;> rfl
  · rfl

theorem taint_stepPre_log (env : Env) (s : State) : (stepPre env s).log = s.log := by
  unfold stepPre; split
  · split <;> rfl
  · rfl

theorem taint_lowEq_pre (env : Env) {rt st : Array Tag} {s u : State} (h : taint_LowEq rt st s u) :
    taint_LowEq rt st (stepPre env s) { u with pc := s.pc + 1 } :=
  ⟨rfl, (stepPre_frames env s).trans h.fra, h.frb, h.log.trans (taint_stepPre_log env s).symm,
    fun r hr => by rw [stepPre_reg]; exact h.regs r hr, by rw [taint_stepPre_mem]; exact h.mem⟩

/-- a step, given what the instruction does from low-equivalent states -/
theorem taint_step_of_exec (c : Option (Nat → Nat → BitVec 64)) (env : Env) {P : State → State → Prop}
    {rt st : Array Tag} {s u : State} (h : taint_LowEq rt st s u) (insn : Insn)
    (hi : getInsn? env.prog s.pc = some insn)
    (hex : taint_Sim P (Interp.exec env (stepPre env s) insn) (taint_execB c env { u with pc := s.pc + 1 } insn)) :
    taint_Sim P (Interp.step env s) (taint_stepB c env u) := by
  rw [step_unfold]
  unfold taint_stepB
  rw [h.pc]
  by_cases hlt : s.pc * 8 < env.prog.size
  · rw [if_pos hlt, if_pos hlt, hi]
    exact hex
  · rw [if_neg hlt]; trivial

theorem taint_step_sim (c : Option (Nat → Nat → BitVec 64)) (env : Env) (t : TState) (ps : List Nat)
    (hl : NoLocalCall env.prog) (h7 : NoF7 env.prog) {u : State} (hsv : t.saved = [])
    (h : taint_LowEq t.rt t.st t.s u) (insn : Insn) (hi : getInsn? env.prog t.s.pc = some insn) (i : Isa.Instr)
    (hd : Isa.decode insn = some i) (hin : (stepTags t i ps).inClaim = true) :
    taint_Sim (taint_LowEq (stepTags t i ps).rt (stepTags t i ps).st) (Interp.step env t.s) (taint_stepB c env u) :=
  taint_step_of_exec c env h insn hi
    (taint_execB_sim c env t ps insn i hd (hl _ _ hi) (h7 _ _ hi) (stepPre_reg env t.s) (taint_stepPre_mem env t.s) hsv
      h.fra (taint_lowEq_pre env h) hin)

/-- the same for a wide load whose destination the driver retags as a buffer address -/
theorem taint_step_sim_patched (c : Option (Nat → Nat → BitVec 64)) (env : Env) (t : TState) (ps : List Nat)
    (h7 : NoF7 env.prog) {u : State} (h : taint_LowEq t.rt t.st t.s u) (insn : Insn)
    (hi : getInsn? env.prog t.s.pc = some insn) (i : Isa.Instr) (hd : Isa.decode insn = some i)
    (hop : insn.opc = 0x18) :
    taint_Sim (taint_LowEq ((stepTags t i ps).rt.setIfInBounds insn.dst.toNat .pkt) (stepTags t i ps).st)
      (Interp.step env t.s) (taint_stepB c env u) := by
  have hd' := taint_decode_of_lddw insn hop
  rw [hd] at hd'
  have hi' : i = .lddw insn.dst.toNat insn.imm := Option.some.inj hd'
  subst hi'
  obtain ⟨hrt, hst, -, -⟩ := taint_tags_lddw t insn.dst.toNat insn.imm ps
  rw [hrt, hst, Array.setIfInBounds_setIfInBounds]
  refine taint_step_of_exec c env h insn hi ?_
  have hcall : insn.opc ≠ 0x85 := by rw [hop]; decide
  exact taint_execB_of_core c env insn _ hd (h7 _ _ hi) hcall h.frb
    (taint_sim_lddw env (taint_lowEq_pre env h) _ _ .pkt)

/-! ### whole runs -/

/-- the tags after one step of `Taint.run` -/
def taint_nextTags (t : TState) (insn : Insn) (ps pa : List Nat) : TState :=
  match Isa.decode insn with
  | some i =>
    if insn.opc = 0x18 ∧ pa.contains t.s.pc then
      { stepTags t i ps with rt := (stepTags t i ps).rt.setIfInBounds insn.dst.toNat .pkt }
    else stepTags t i ps
  | none => t

theorem taint_run_succ (env : Env) (ps pa : List Nat) (fuel : Nat) (t : TState) :
    Taint.run env ps pa (fuel + 1) t =
      match getInsn? env.prog t.s.pc with
      | none => (t, .panic)
      | some insn =>
        match Interp.step env t.s with
        | .next s' => Taint.run env ps pa fuel { taint_nextTags t insn ps pa with s := s' }
        | .done r s' =>
          ({ (match Isa.decode insn with | some i => stepTags t i ps | none => t) with s := s' }, .done r s')
        | .err e s' => (t, .err e s')
        | .panic => (t, .panic)
        | .fault => (t, .fault) := rfl

theorem taint_not_localCall (env : Env) (hl : NoLocalCall env.prog) {pc : Nat} {insn : Insn} {i : Isa.Instr}
    (hi : getInsn? env.prog pc = some insn) (hd : Isa.decode insn = some i) : ∀ imm, i ≠ .call 1 imm := by
  intro imm h
  subst h
  obtain ⟨h1, h2, -⟩ := taint_decode_call insn 1 imm hd
  exact hl _ _ hi ⟨bv8_eq_of_toNat _ _ (by decide) h1, BitVec.eq_of_toNat_eq (by rw [← h2]; rfl)⟩

theorem taint_nextTags_inClaim (t : TState) (insn : Insn) (ps pa : List Nat) (i : Isa.Instr)
    (hd : Isa.decode insn = some i) : (taint_nextTags t insn ps pa).inClaim = (stepTags t i ps).inClaim := by
  unfold taint_nextTags; rw [hd]; dsimp only; split <;> rfl

theorem taint_nextTags_saved (t : TState) (insn : Insn) (ps pa : List Nat) (i : Isa.Instr)
    (hd : Isa.decode insn = some i) : (taint_nextTags t insn ps pa).saved = (stepTags t i ps).saved := by
  unfold taint_nextTags; rw [hd]; dsimp only; split <;> rfl

theorem taint_step_undecodable (env : Env) (s : State) (insn : Insn) (h7 : NoF7 env.prog)
    (hi : getInsn? env.prog s.pc = some insn) (hd : Isa.decode insn = none) : Interp.step env s = .panic := by
  rw [step_unfold]
  split
  · rw [hi]; dsimp only
    rw [exec_eq_spec _ _ _ (h7 _ _ hi), Isa.spec, hd]; rfl
  · rfl

/-- `inClaim` at the end of the analysed run implies `inClaim` all along -/
theorem taint_run_mono (env : Env) (ps pa : List Nat) (hl : NoLocalCall env.prog) (h7 : NoF7 env.prog) :
    ∀ (fuel : Nat) (t tf : TState) (res : Interp.Result), Taint.run env ps pa fuel t = (tf, res) →
      tf.inClaim = true → t.saved = [] → t.s.frames = [] → t.inClaim = true := by
  intro fuel
  induction fuel with
  | zero =>
    intro t tf res hrun hin _ _
    have : Taint.run env ps pa 0 t = (t, .timeout t.s) := rfl
    rw [this] at hrun; cases hrun; exact hin
  | succ n ih =>
    intro t tf res hrun hin hsv hfr
    rw [taint_run_succ] at hrun
    cases hi : getInsn? env.prog t.s.pc with
    | none => rw [hi] at hrun; cases hrun; exact hin
    | some insn =>
      rw [hi] at hrun; dsimp only at hrun
      cases hs : Interp.step env t.s with
      | next s' =>
        rw [hs] at hrun; dsimp only at hrun
        cases hd : Isa.decode insn with
        | none => rw [taint_step_undecodable env t.s insn h7 hi hd] at hs; cases hs
        | some i =>
          have hk := taint_not_localCall env hl hi hd
          have h1 := ih _ tf res hrun hin
            (by show (taint_nextTags t insn ps pa).saved = []
                rw [taint_nextTags_saved t insn ps pa i hd]; exact taint_saved_nil t ps i hsv hfr hk)
            (step_frames_nil env t.s s' hl hfr hs)
          have h2 : (taint_nextTags t insn ps pa).inClaim = true := h1
          rw [taint_nextTags_inClaim t insn ps pa i hd] at h2
          exact taint_stepTags_mono t ps i hsv hfr hk h2
      | done r s' =>
        rw [hs] at hrun; dsimp only at hrun
        cases hrun
        cases hd : Isa.decode insn with
        | none => rw [hd] at hin; exact hin
        | some i =>
          rw [hd] at hin
          exact taint_stepTags_mono t ps i hsv hfr (taint_not_localCall env hl hi hd) hin
      | err e s' => rw [hs] at hrun; cases hrun; exact hin
      | panic => rw [hs] at hrun; cases hrun; exact hin
      | fault => rw [hs] at hrun; cases hrun; exact hin

/-- **non-interference of accepted runs.**  If the analysed run returns `r0` inside the claim, every low-equivalent
    run of generated code returns `r0` too, with the same packet / metadata / registered ranges and the same helper log -/
theorem taint_run_sim (c : Option (Nat → Nat → BitVec 64)) (env : Env) (ps pa : List Nat) (hl : NoLocalCall env.prog)
    (h7 : NoF7 env.prog) :
    ∀ (fuel : Nat) (t : TState) (u : State) (tf : TState) (r0 : BitVec 64) (sfin : State),
      Taint.run env ps pa fuel t = (tf, .done r0 sfin) → tf.inClaim = true → t.saved = [] →
      taint_LowEq t.rt t.st t.s u → ∃ ufin, taint_runB c env u fuel = .done r0 ufin ∧ taint_Fin sfin ufin := by
  intro fuel
  induction fuel with
  | zero =>
    intro t u tf r0 sfin hrun
    have : Taint.run env ps pa 0 t = (t, .timeout t.s) := rfl
    rw [this] at hrun; cases hrun
  | succ n ih =>
    intro t u tf r0 sfin hrun hin hsv h
    have hfr := h.fra
    rw [taint_run_succ] at hrun
    cases hi : getInsn? env.prog t.s.pc with
    | none => rw [hi] at hrun; cases hrun
    | some insn =>
      rw [hi] at hrun; dsimp only at hrun
      cases hs : Interp.step env t.s with
      | next s' =>
        rw [hs] at hrun; dsimp only at hrun
        cases hd : Isa.decode insn with
        | none => rw [taint_step_undecodable env t.s insn h7 hi hd] at hs; cases hs
        | some i =>
          have hk := taint_not_localCall env hl hi hd
          have hsv' : (taint_nextTags t insn ps pa).saved = [] := by
            rw [taint_nextTags_saved t insn ps pa i hd]; exact taint_saved_nil t ps i hsv hfr hk
          have hfr' := step_frames_nil env t.s s' hl hfr hs
          have hin' : (stepTags t i ps).inClaim = true := by
            have h1 := taint_run_mono env ps pa hl h7 n _ tf _ hrun hin hsv' hfr'
            have h2 : (taint_nextTags t insn ps pa).inClaim = true := h1
            rwa [taint_nextTags_inClaim t insn ps pa i hd] at h2
          have hsim : taint_Sim (taint_LowEq (taint_nextTags t insn ps pa).rt (taint_nextTags t insn ps pa).st)
              (Interp.step env t.s) (taint_stepB c env u) := by
            unfold taint_nextTags
            rw [hd]; dsimp only
            split
            · next hp => exact taint_step_sim_patched c env t ps h7 h insn hi i hd hp.1
            · exact taint_step_sim c env t ps hl h7 hsv h insn hi i hd hin'
          rw [hs] at hsim
          obtain ⟨u', hu', hle'⟩ := hsim
          obtain ⟨ufin, hrunB, hfin⟩ := ih _ u' tf r0 sfin hrun hin hsv' hle'
          refine ⟨ufin, ?_, hfin⟩
          show (match taint_stepB c env u with
            | .next s' => taint_runB c env s' n
            | .done r s' => .done r s'
            | .err e s' => .err e s'
            | .panic => .panic
            | .fault => .fault) = _
          rw [hu']
          exact hrunB
      | done r s' =>
        rw [hs] at hrun; dsimp only at hrun
        cases hrun
        cases hd : Isa.decode insn with
        | none => rw [taint_step_undecodable env t.s insn h7 hi hd] at hs; cases hs
        | some i =>
          rw [hd] at hin
          have hsim := taint_step_sim c env t ps hl h7 hsv h insn hi i hd hin
          rw [hs] at hsim
          obtain ⟨u', hu', hfin⟩ := hsim
          refine ⟨u', ?_, hfin⟩
          show (match taint_stepB c env u with
            | .next s' => taint_runB c env s' n
            | .done r s' => .done r s'
            | .err e s' => .err e s'
            | .panic => .panic
            | .fault => .fault) = _
          rw [hu']
      | err e s' => rw [hs] at hrun; cases hrun
      | panic => rw [hs] at hrun; cases hrun
      | fault => rw [hs] at hrun; cases hrun

/-! ### the analysed run is the interpreter's run -/

/-- `Taint.run` performs exactly `Interp.step` on its concrete state -/
theorem taint_run_snd (env : Env) (ptrSlots patched : List Nat) (fuel : Nat) (t0 : Taint.TState) :
    (Taint.run env ptrSlots patched fuel t0).2 = Interp.run env t0.s fuel := by
  induction fuel generalizing t0 with
  | zero => rfl
  | succ n ih =>
    rw [taint_run_succ]
    have hr : Interp.run env t0.s (n + 1) =
        (match Interp.step env t0.s with
          | .next s' => Interp.run env s' n
          | .done r s' => .done r s'
          | .err e s' => .err e s'
          | .panic => .panic
          | .fault => .fault) := rfl
    rw [hr]
    cases hi : getInsn? env.prog t0.s.pc with
    | none =>
      have hp : Interp.step env t0.s = .panic := by
        rw [step_unfold]
        split
        · rw [hi]
        · rfl
      rw [hp]
    | some insn =>
      dsimp only
      cases hs : Interp.step env t0.s with
      | next s' => exact ih _
      | done r s' => rfl
      | err e s' => rfl
      | panic => rfl
      | fault => rfl

theorem taint_run_interp (env : Env) (ptrSlots patched : List Nat) (fuel : Nat) (t0 t : Taint.TState) (r0 : BitVec 64)
    (sfin : State) (h : Taint.run env ptrSlots patched fuel t0 = (t, .done r0 sfin)) :
    Interp.run env t0.s fuel = .done r0 sfin := by
  rw [← taint_run_snd env ptrSlots patched fuel t0, h]

end Rbpf
